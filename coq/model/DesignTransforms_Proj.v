(* DesignTransforms_Proj.v — executable model of objects/device/parameters/projection.py:
   tanh_projection (double-where on beta == 0 / isinf(beta)), smoothed_projection (jnp.gradient, fill factor,
   final where(needs_smoothing, ...)), TanhProjection / SubpixelSmoothedProjection.__call__.
   tanh and sqrt are Section variables (hypotheses appear only in the proofs); the executable instance reads them
   from an oracle table recorded from the implementation.  No proofs. *)
From Coq Require Import List Arith Bool QArith Qcanon.
From FV Require Import base.Scalar base.Sums base.Util base.DesignTransformsBase model.DesignTransforms_Sym.
Import ListNotations.
Local Open Scope fld_scope.

Section Proj.
  Variable K : OFld.
  Notation F := (car K).
  Variable th : F -> F.        (* jnp.tanh *)
  Variable sqrtf : F -> F.     (* jnp.sqrt *)

  Inductive beta := BInf | BFin (b : F).      (* jnp.isinf(beta) | a finite float *)

  Definition feqb (x y : F) : bool := fleb K x y && fleb K y x.
  Definition fltb (x y : F) : bool := negb (fleb K y x).
  Definition fabs (v : F) : F := if fleb K 0 v then v else - v.
  (* jnp.clip(x, 0, 1) *)
  Definition clip01 (x : F) : F := if fleb K x 0 then 0 else if fleb K 1 x then 1 else x.

  (* safe_beta = where(is_inf | is_zero, 1.0, beta) *)
  Definition safe_beta (be : beta) : F := match be with BInf => 1 | BFin b => if feqb b 0 then 1 else b end.
  (* dividend / divisor *)
  Definition tanh_divisor (be : beta) (eta : F) : F := th (safe_beta be * eta) + th (safe_beta be * (1 - eta)).
  Definition tanh_result (be : beta) (eta x : F) : F :=
    (th (safe_beta be * eta) + th (safe_beta be * (x - eta))) / tanh_divisor be eta.
  (* where(is_zero, clip(x,0,1), where(is_inf, where(x > eta, 1, 0), tanh_result)) *)
  Definition tanh_projection (be : beta) (eta x : F) : F :=
    match be with
    | BFin b => if feqb b 0 then clip01 x else tanh_result be eta x
    | BInf => if fltb eta x then 1 else 0
    end.

  (* jnp.gradient along one axis of extent n >= 2: one-sided at the ends, central (times 0.5) inside *)
  Definition grad1 (n : nat) (f : nat -> F) (i : nat) : F :=
    if (i =? 0)%nat then f 1%nat - f 0%nat
    else if (i =? n - 1)%nat then f (n - 1)%nat - f (n - 2)%nat
    else (f (i + 1)%nat - f (i - 1)%nat) * (1 / (1 + 1)).

  Definition cst (a b : nat) : F := of_nat a / of_nat b.
  Definition pow3 (s : F) : F := s * s * s.
  Definition pow5 (s : F) : F := s * s * s * s * s.

  Section Smoothed.
    Variables n m : nat.            (* rho_filtered.shape *)
    Variable be : beta.
    Variables eta dx : F.           (* dx = dy = 1 / resolution *)
    Variable x : nat -> nat -> F.   (* rho_filtered *)

    Definition R_s : F := cst 55 100 * dx.                                      (* R_smoothing = 0.55 * dx *)
    Definition g0 (i j : nat) : F := grad1 n (fun i' => x i' j) i.               (* jnp.gradient(rho)[0] *)
    Definition g1 (i j : nat) : F := grad1 m (fun j' => x i j') j.               (* jnp.gradient(rho)[1] *)
    Definition helper (i j : nat) : F := (g0 i j / dx) * (g0 i j / dx) + (g1 i j / dx) * (g1 i j / dx).
    Definition nonzero (i j : nat) : bool := fltb 0 (fabs (helper i j)).
    Definition norm (i j : nat) : F := sqrtf (if nonzero i j then helper i j else 1).
    Definition norm_eff (i j : nat) : F := if nonzero i j then norm i j else 1.
    Definition dist (i j : nat) : F := (eta - x i j) / norm_eff i j.
    Definition needs (i j : nat) : bool := nonzero i j && fltb (fabs (dist i j)) R_s.
    Definition safe_dR (i j : nat) : F := if needs i j then dist i j / R_s else 0.
    Definition fillF (i j : nat) : F :=
      if needs i j then cst 1 2 - cst 15 16 * safe_dR i j + cst 5 8 * pow3 (safe_dR i j) - cst 3 16 * pow5 (safe_dR i j) else 1.
    Definition fillFm (i j : nat) : F :=
      if needs i j then cst 1 2 + cst 15 16 * safe_dR i j - cst 5 8 * pow3 (safe_dR i j) + cst 3 16 * pow5 (safe_dR i j) else 1.
    Definition x_minus (i j : nat) : F := x i j - R_s * norm_eff i j * fillF i j.
    Definition x_plus (i j : nat) : F := x i j + R_s * norm_eff i j * fillFm i j.
    (* where(needs_smoothing, (1-F) * proj(rho_minus) + F * proj(rho_plus), proj(rho)) *)
    Definition smoothed (i j : nat) : F :=
      if needs i j
      then (1 - fillF i j) * tanh_projection be eta (x_minus i j) + fillF i j * tanh_projection be eta (x_plus i j)
      else tanh_projection be eta (x i j).
  End Smoothed.

  (* TanhProjection(projection_midpoint=eta)({k: v}, beta=be)[k]: element-wise on any shape *)
  Definition tanh_exec (be : beta) (eta : F) (s : idx) (l : arr3 K) : arr3 K :=
    tab3i K s (fun p => tanh_projection be eta (get3i K l p)).

  (* SubpixelSmoothedProjection(eta)({k: v}, beta=be)[k]; None: no singleton axis (ValueError), voxel sizes of the two
     in-plane axes differ (Exception), an in-plane extent < 2 (jnp.gradient raises) *)
  Definition smoothed_exec (be : beta) (eta dx : F) (vox_equal : bool) (s : idx) (l : arr3 K) : option (arr3 K) :=
    match vaxis s with
    | None => None
    | Some v =>
      let '(a, b) := plane_axes v in
      if vox_equal && (2 <=? geti s a)%nat && (2 <=? geti s b)%nat
      then Some (tab3i K s (fun p => smoothed (geti s a) (geti s b) be eta dx
                                      (fun i j => get3i K l (seti (seti (0, 0, 0)%nat a i) b j)) (geti p a) (geti p b)))
      else None
    end.
End Proj.

(* oracle: first table entry whose key is within tol * max(1,|a|) of the exact argument; an absurd value otherwise *)
Definition oracle (tab : list (Qc * Qc)) (a : Qc) : Qc :=
  match find (fun kv => Qc_close (q 1 1000000000000) (fst kv) a) tab with Some kv => snd kv | None => q 1000 1 end.
