(* DesignTransforms_Gauss.v — executable model of GaussianSmoothing2D (objects/device/parameters/continuous.py):
   _create_gaussian_kernel (weights = oracle g, normalised by their sum), _apply_smoothing (squeeze the first
   singleton axis, pad axis 0 then axis 1 by pad_w = 3*std with the given 1-D arrays or edge replication,
   'same' convolution, crop, reshape).  No proofs. *)
From Coq Require Import List Arith Bool.
From FV Require Import base.Scalar base.Sums base.DesignTransformsBase model.DesignTransforms_Sym.
Import ListNotations.
Local Open Scope fld_scope.

(* position of a padded index r in [0, n + 2P): in the low block, in the original array, in the high block *)
Inductive ppos := Lo | Mid (i : nat) | Hi.
Definition ppos_of (P n r : nat) : ppos := if (r <? P)%nat then Lo else if (r <? P + n)%nat then Mid (r - P) else Hi.

Section Gauss.
  Variable K : Fld.
  Notation F := (car K).

  (* the four optional padding arrays: a flag (is not None) and the values as an index function *)
  Record pads := { use_l0 : bool; l0 : nat -> F; use_h0 : bool; h0 : nat -> F;
                   use_l1 : bool; l1 : nat -> F; use_h1 : bool; h1 : nat -> F }.

  Section Core.
    Variable g : nat -> nat -> F.     (* un-normalised kernel weights exp(-(x^2+y^2)/(2 sigma^2)), oracle *)
    Variable P : nat.                 (* pad_w = kernel_size // 2 = 3 * std_discrete; kernel_size = 2P+1 *)
    Variables nx ny : nat.            (* x_squeezed.shape *)
    Variable pd : pads.
    Variable x : nat -> nat -> F.     (* x_squeezed *)

    Definition ksize : nat := 2 * P + 1.
    (* jnp.sum(kernel) *)
    Definition gsum : F := sumn ksize (fun a => sumn ksize (fun b => g a b)).
    (* kernel = kernel / jnp.sum(kernel) *)
    Definition kern (a b : nat) : F := g a b / gsum.

    (* arr after padding axis 0: rows [0, nx+2P), columns [0, ny) *)
    Definition pad0 (r j : nat) : F :=
      match ppos_of P nx r with
      | Lo => if use_l0 pd then l0 pd j else x 0%nat j             (* tile(padding_low_axis0) | tile(x[0:1, :]) *)
      | Mid i => x i j
      | Hi => if use_h0 pd then h0 pd j else x (nx - 1)%nat j      (* tile(padding_high_axis0) | tile(x[-1:, :]) *)
      end.
    (* extended = concat([full(pad_w, p[0]), p, full(pad_w, p[-1])]) for a 1-D array p of length nx *)
    Definition extended (p : nat -> F) (r : nat) : F :=
      match ppos_of P nx r with Lo => p 0%nat | Mid i => p i | Hi => p (nx - 1)%nat end.
    (* arr after padding axis 1: rows [0, nx+2P), columns [0, ny+2P) *)
    Definition pad1 (r c : nat) : F :=
      match ppos_of P ny c with
      | Lo => if use_l1 pd then extended (l1 pd) r else pad0 r 0%nat
      | Mid j => pad0 r j
      | Hi => if use_h1 pd then extended (h1 pd) r else pad0 r (ny - 1)%nat
      end.
    (* convolve(arr, kernel, mode="same")[pad_w + i, pad_w + j]
         = full[2P + i, 2P + j] = sum_{a,b} kernel[a,b] * arr[i + 2P - a, j + 2P - b]  (never reads outside arr) *)
    Definition smooth_k (kn : nat -> nat -> F) (i j : nat) : F :=
      sumn ksize (fun a => sumn ksize (fun b => kn a b * pad1 (i + 2 * P - a) (j + 2 * P - b))).
    Definition smooth (i j : nat) : F := smooth_k kern i j.
  End Core.

  (* ---- list level (what the correspondence executes) ---- *)
  Definition opt_pad (p : option (list F)) : bool * (nat -> F) :=
    match p with Some l => (true, get1 0 l) | None => (false, fun _ => 0) end.
  Definition mk_pads (pl0 ph0 pl1 ph1 : option (list F)) : pads :=
    {| use_l0 := fst (opt_pad pl0); l0 := snd (opt_pad pl0); use_h0 := fst (opt_pad ph0); h0 := snd (opt_pad ph0);
       use_l1 := fst (opt_pad pl1); l1 := snd (opt_pad pl1); use_h1 := fst (opt_pad ph1); h1 := snd (opt_pad ph1) |}.
  Definition pad_len_ok (p : option (list F)) (n : nat) : bool :=
    match p with Some l => (length l =? n)%nat | None => true end.

  (* embedding of the squeezed indices into the 3-D array (x.squeeze(vertical_axis) / result.reshape(x.shape)) *)
  Definition embed (a b : axis) (i j : nat) : idx := seti (seti (0, 0, 0)%nat a i) b j.

  (* GaussianSmoothing2D(std, paddings)({k: v})[k] for v of shape s; gl = un-normalised kernel table (oracle).
     None: no singleton axis (ValueError), std = 0 (0/0 kernel, NaN), a padding array of the wrong length
     (concatenate raises), oracle table of the wrong shape. *)
  Definition gauss_exec (gl : list (list F)) (std : nat) (pl0 ph0 pl1 ph1 : option (list F)) (s : idx) (l : arr3 K)
    : option (arr3 K) :=
    match vaxis s with
    | None => None
    | Some v =>
      let '(a, b) := plane_axes v in
      let nx := geti s a in let ny := geti s b in
      let P := (3 * std)%nat in
      if negb (std =? 0)%nat && shape2b (ksize P) (ksize P) gl
         && pad_len_ok pl0 ny && pad_len_ok ph0 ny && pad_len_ok pl1 nx && pad_len_ok ph1 nx
      then (* the normalised kernel is tabulated once (kernel = kernel / jnp.sum(kernel)) *)
           let G := gsum (get2 0 gl) P in
           let kt := tab2 (ksize P) (ksize P) (fun a b => get2 0 gl a b / G) in
           Some (tab3i K s (fun p => smooth_k P nx ny (mk_pads pl0 ph0 pl1 ph1)
                                              (fun i j => get3i K l (embed a b i j)) (get2 0 kt) (geti p a) (geti p b)))
      else None
    end.
End Gauss.
