(* DispersionCheck.v — comparison helpers for the C35 correspondence cases. *)
From Coq Require Import ZArith List Bool QArith Qcanon.
From FV Require Import base.Scalar base.GridBase base.Util model.Dispersion.
Import ListNotations.
Definition C4 : Type := (Qc * Qc * Qc * Qc)%type.
(* unified parameters as reported by the implementation (omega_0, gamma, coupling_sq, coupling_edot) *)
Definition mkp (w0 g a b : Qc) : pole QcOF := Build_pole QcOF (w0 * w0)%Qc g a b.
Definition Qc_rel (tol a b : Qc) : bool := Qc_close_abs tol (Qc_abs b) a b.
Definition c4_close (tol : Qc) (m : option C4) (i : C4) : bool :=
  match m with
  | Some (a, b, c, d) => let '(a', b', c', d') := i in Qc_rel tol a a' && Qc_rel tol b b' && Qc_rel tol c c' && Qc_rel tol d d'
  | None => false
  end.
Definition is_none (m : option C4) : bool := match m with None => true | Some _ => false end.
Definition cclose (tol scale : Qc) (a b : Qc * Qc) : bool :=
  Qc_close_abs tol scale (fst a) (fst b) && Qc_close_abs tol scale (snd a) (snd b).
Definition d_coeffs := coeffs QcOF.
Definition d_coeffs_or := coeffs_oriented QcOF.
Definition d_chi := chi_total QcOF.
Definition d_model := chi_model_total QcOF.
Definition d_cscale := cscale QcOF.
Definition tol12 : Qc := q 1 1000000000000.
Definition tol8 : Qc := q 1 100000000.
