(* Dispersion.v — executable model of fdtdx/dispersion.py: unified pole parameters of Lorentz / Drude /
   CCPR (critical-point) poles, compute_pole_coefficients_per_axis / _tensor (one axis / one tensor entry),
   susceptibility_from_coefficients, DispersionModel.susceptibility_axes / _tensor, and the zero padding of
   materials.compute_allowed_dispersive_coefficients.  Complex numbers are pairs over the field.  No proofs. *)
From Coq Require Import List Bool.
From FV Require Import base.Scalar base.GridBase.
Import ListNotations.
Local Open Scope fld_scope.

Section Dispersion.
  Variable K : OFld.
  Notation F := (car K).
  Definition C : Type := (F * F)%type.
  Definition czero : C := (0, 0).
  Definition cadd (x y : C) : C := (fst x + fst y, snd x + snd y).
  Definition cscale (s : F) (x : C) : C := (s * fst x, s * snd x).
  (* (x + i y) / (u + i v) *)
  Definition cdiv (n d : C) : C :=
    let m := fst d * fst d + snd d * snd d in
    ((fst n * fst d + snd n * snd d) / m, (snd n * fst d - fst n * snd d) / m).
  Definition f2' : F := 1 + 1.
  Definition feqb (x y : F) : bool := fleb K x y && fleb K y x.

  (* unified pole parameters on one axis: omega_0^2, gamma, a = coupling_sq, b = coupling_edot *)
  Record pole := { w0sq : F; gam : F; ca : F; cb : F }.
  (* LorentzPole: a = delta_eps * omega_0^2, b = 0 *)
  Definition lorentz (w0 g de : F) : pole := {| w0sq := w0 * w0; gam := g; ca := de * (w0 * w0); cb := 0 |}.
  (* DrudePole: omega_0 = 0, a = omega_p^2 *)
  Definition drude (wp g : F) : pole := {| w0sq := 0; gam := g; ca := wp * wp; cb := 0 |}.
  (* CCPRPole(q, r): omega_0^2 = |q|^2, gamma = -2 Re q, a = -2 Re(r conj q), b = 2 Re r *)
  Definition ccpr (qr qi rr ri : F) : pole :=
    {| w0sq := qr * qr + qi * qi; gam := - (f2' * qr); ca := - (f2' * (rr * qr + ri * qi)); cb := f2' * rr |}.
  (* from_critical_point(A, phi, Omega, Gamma): q = -Gamma - i Omega, r = i A Omega e^{i phi}; cos/sin phi are oracles *)
  Definition critical_point (amp cphi sphi om gm : F) : pole :=
    ccpr (- gm) (- om) (- (amp * om * sphi)) (amp * om * cphi).

  (* declared model: chi(omega) = (a - i omega b) / (omega_0^2 - omega^2 - i gamma omega) *)
  Definition chi_model (p : pole) (omega : F) : C :=
    cdiv (ca p, - (omega * cb p)) (w0sq p - omega * omega, - (gam p * omega)).

  (* compute_pole_coefficients_per_axis, one (pole, axis): None = ValueError (omega_0 dt >= 2 on an active axis);
     w0dt_ge2 is the float comparison omega_0*dt >= 2, evaluated on squares: omega_0^2 dt^2 >= 4 *)
  Definition coeffs_raw (p : pole) (dt : F) : F * F * F * F :=
    let gdt := gam p * dt in
    let denom := 1 + gdt / f2' in
    ((f2' - w0sq p * (dt * dt)) / denom,
     - ((1 - gdt / f2') / denom),
     (ca p * (dt * dt) - cb p * dt) / denom,
     (cb p * dt) / denom).
  Definition coeffs (p : pole) (dt : F) : option (F * F * F * F) :=
    let active := negb (feqb (ca p) 0) || negb (feqb (cb p) 0) in
    if active && fleb K (f2' * f2') (w0sq p * (dt * dt)) then None else Some (coeffs_raw p dt).
  (* compute_pole_coefficients_tensor, entry (i,j) of an oriented pole: c3 = (K dt^2 / D) u_i u_j, c4 = 0 *)
  Definition coeffs_oriented (p : pole) (dt ui uj : F) : option (F * F * F * F) :=
    match coeffs p dt with
    | Some (c1, c2, _, _) => Some (c1, c2, (ca p * (dt * dt) / (1 + gam p * dt / f2')) * (ui * uj), 0)
    | None => None
    end.

  (* susceptibility_from_coefficients for one pole slot *)
  Definition chi_from_coeffs (c : F * F * F * F) (omega dt : F) : C :=
    let '(c1, c2, c3, c4) := c in
    let mask := negb (feqb c1 0) || negb (feqb c3 0) || negb (feqb c4 0) in
    if mask then
      let one_minus_c2 := 1 - c2 in
      let safe := if feqb one_minus_c2 0 then 1 else one_minus_c2 in
      let gdt := f2' * (1 + c2) / safe in
      let half := 1 + gdt / f2' in
      let w2 := f2' - c1 * half in
      let adt2 := (c3 + c4) * half in
      let bdt := c4 * half in
      let wdt := omega * dt in
      cdiv (adt2, - (wdt * bdt)) (w2 - wdt * wdt, - (gdt * wdt))
    else czero.
  (* summed over the leading pole axis *)
  Definition chi_total (cs : list (F * F * F * F)) (omega dt : F) : C :=
    fold_right (fun c acc => cadd (chi_from_coeffs c omega dt) acc) czero cs.
  Definition chi_model_total (ps : list pole) (omega : F) : C :=
    fold_right (fun p acc => cadd (chi_model p omega) acc) czero ps.
  (* zero padding of materials.compute_allowed_dispersive_coefficients *)
  Definition pad (n : nat) (cs : list (F * F * F * F)) : list (F * F * F * F) := cs ++ repeat (0, 0, 0, 0) (n - length cs).
  Definition coeffs_all (ps : list pole) (dt : F) : option (list (F * F * F * F)) :=
    fold_right (fun p acc => match coeffs p dt, acc with Some c, Some l => Some (c :: l) | _, _ => None end) (Some []) ps.
End Dispersion.
Arguments w0sq {K}. Arguments gam {K}. Arguments ca {K}. Arguments cb {K}.
