(* Waves.v — executable model of core/wavelength.py (WaveCharacter), core/window.py (linear_rampup,
   gaussian_envelope) and objects/sources/profile.py (SingleFrequencyProfile, GaussianPulseProfile,
   CustomTimeSignalProfile .get_amplitude).  cos / exp / floor are parameters (oracle tables in the
   executable Qc instance).  No proofs. *)
From Coq Require Import ZArith List Bool.
From FV Require Import base.Scalar base.RecorderBase.
Import ListNotations.
Open Scope Z_scope.

Section Waves.
  Variable K : OFld.
  Local Open Scope fld_scope.
  Variable c0 : K.                           (* constants.c *)

  (* WaveCharacter: exactly one of period / wavelength / frequency is set (checked in __post_init__) *)
  Inductive wave := Period (p : K) | Wavelength (w : K) | Frequency (f : K).
  Definition get_period (w : wave) : K := match w with Period p => p | Wavelength l => l / c0 | Frequency f => 1 / f end.
  Definition get_wavelength (w : wave) : K := match w with Period p => p * c0 | Wavelength l => l | Frequency f => c0 / f end.
  Definition get_frequency (w : wave) : K := match w with Period p => 1 / p | Wavelength l => c0 / l | Frequency f => f end.

  (* jnp.clip(x, 0, 1) = minimum(maximum(x, 0), 1) *)
  Definition clip01 (x : K) : K := let m := if fleb K 0 x then x else 0 in if fleb K m 1 then m else 1.
  (* window.py linear_rampup *)
  Definition linear_rampup (t d : K) : K := clip01 (t / d).

  Variable cosf : K -> K.                    (* real(exp(-1j*x)) = cos x *)
  Variable expf : K -> K.
  Variable two_pi : K.
  (* window.py gaussian_envelope *)
  Definition gaussian_envelope (t center sigma : K) : K :=
    expf (- ((t - center) * (t - center)) / ((1 + 1) * (sigma * sigma))).
  (* SingleFrequencyProfile.get_amplitude (self.phase_shift = own_shift, num_startup_periods = nstart) *)
  Definition single_frequency (own_shift nstart t period phase_shift : K) : K :=
    linear_rampup t (nstart * period) * cosf (two_pi * t / period + phase_shift + own_shift).
  (* GaussianPulseProfile.get_amplitude *)
  Definition gaussian_pulse (width center : wave) (center_shift t phase_shift : K) : K :=
    let sigma_t := 1 / (two_pi * get_frequency width) in
    let t0 := (1 + 1 + 1 + 1 + 1 + 1) * sigma_t in
    gaussian_envelope t t0 sigma_t * cosf (two_pi * get_frequency center * t + phase_shift + center_shift).

  (* CustomTimeSignalProfile.get_amplitude; [floorf] = jnp.floor as an integer, [nearest] = interpolation mode *)
  Variable floorf : K -> Z.
  Definition custom_signal (signal : list K) (dt start outside : K) (nearest : bool) (t : K) : K :=
    let idx := (t - start) / dt in
    let i0 := floorf idx in
    let frac := idx - fofZ i0 in
    let n := Z.of_nat (length signal) in
    let valid := (0 <=? i0) && (i0 <? n) in
    let i0c := Z.max 0 (Z.min i0 (n - 1)) in
    let i1c := Z.max 0 (Z.min (i0c + 1) (n - 1)) in
    let y0 := znth signal i0c 0 in
    let y1 := znth signal i1c 0 in
    let y := if nearest then (if fleb K (1 / (1 + 1)) frac then y1 else y0)     (* where(frac < 0.5, y0, y1) *)
             else (1 - frac) * y0 + frac * y1 in
    if valid then y else outside.
End Waves.
Arguments Period {K}. Arguments Wavelength {K}. Arguments Frequency {K}.
