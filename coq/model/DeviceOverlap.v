(* DeviceOverlap.v — executable model of SimulationObject.check_overlap (objects/object.py) and of the
   object loops of place_objects / apply_params (fdtd/initialization.py) that decide which objects are
   (re-)applied against the materials.  Definitions only; lemmas in proofs/DeviceOverlap_proofs.v. *)
From Coq Require Import ZArith List Bool.
From FV Require Import base.PyNum.
Import ListNotations.
Open Scope Z_scope.

(* _grid_slice_tuple: ((x0,x1),(y0,y1),(z0,z1)), python slices: cells x0 .. x1-1 *)
Definition box : Type := (Z * Z) * (Z * Z) * (Z * Z).
(* self._grid_slice_tuple[axis] for axis in range(3) *)
Definition axis_of (b : box) (axis : Z) : Z * Z :=
  let '(bx, by_, bz) := b in if axis =? 0 then bx else if axis =? 1 then by_ else bz.

(* "for v in l: <body that may return>; return dflt" *)
Fixpoint for_return {A} (l : list Z) (body : Z -> option A) (dflt : A) : A :=
  match l with
  | [] => dflt
  | v :: r => match body v with Some x => x | None => for_return r body dflt end
  end.

(* SimulationObject.check_overlap, UNCHANGED source: on some axis an end point of self lies in other's closed range *)
Definition check_overlap_src_old (self other : box) : bool :=
  for_return (zrange 3) (fun axis =>
    (let '(s_start, s_end) := axis_of self axis in
    (let '(o_start, o_end) := axis_of other axis in
    (if ((o_start <=? s_start) && (s_start <=? o_end))%bool then Some true
     else (if ((o_start <=? s_end) && (s_end <=? o_end))%bool then Some true
     else None))))) false.

(* SimulationObject.check_overlap, REPAIRED source (fixes/C29.patch): the closed ranges meet on every axis *)
Definition check_overlap (self other : box) : bool :=
  for_return (zrange 3) (fun axis =>
    (let '(s_start, s_end) := axis_of self axis in
    (let '(o_start, o_end) := axis_of other axis in
    (if ((s_end <? o_start) || (o_end <? s_start))%bool then Some false
     else None)))) true.

(* geometry used by the statements *)
Definition in_range (r : Z * Z) (x : Z) : Prop := fst r <= x < snd r.          (* cell x belongs to slice r *)
Definition in_closed (r : Z * Z) (x : Z) : Prop := fst r <= x <= snd r.        (* grid plane x belongs to the closed range *)
Definition cell_in (b : box) (c : Z * Z * Z) : Prop :=
  let '(x, y, z) := c in in_range (axis_of b 0) x /\ in_range (axis_of b 1) y /\ in_range (axis_of b 2) z.
Definition point_in (b : box) (c : Z * Z * Z) : Prop :=
  let '(x, y, z) := c in in_closed (axis_of b 0) x /\ in_closed (axis_of b 1) y /\ in_closed (axis_of b 2) z.
Definition share_cell (a b : box) : Prop := exists c, cell_in a c /\ cell_in b c.
Definition share_point (a b : box) : Prop := exists c, point_in a c /\ point_in b c.
Definition well_formed (b : box) : Prop := forall axis, 0 <= axis < 3 -> fst (axis_of b axis) < snd (axis_of b axis).
Definition grow1 (r : Z * Z) : Z * Z := (fst r - 1, snd r + 1).
Definition grow (b : box) : box := let '(bx, by_, bz) := b in (grow1 bx, grow1 by_, grow1 bz).
(* executable intersection test on cells (used by the correspondence to classify cases) *)
Definition share_cell_b (a b : box) : bool :=
  forallb (fun axis => Z.max (fst (axis_of a axis)) (fst (axis_of b axis)) <? Z.min (snd (axis_of a axis)) (snd (axis_of b axis)))
          (zrange 3).

(* ------------------------------------------------------------------ object loops *)
Section Loops.
  Variables O M Key : Type.
  Variable box_of : O -> box.                  (* obj._grid_slice_tuple *)
  Variable apply : Key -> M -> O -> O.         (* obj.apply(key=subkey, inv_permittivities=..., ...) *)
  Variable split : Key -> Key * Key.           (* key, subkey = jax.random.split(key) *)
  Variable overlap : box -> box -> bool.       (* d.check_overlap(obj) *)

  Definition any_overlap (devs : list O) (o : O) : bool := existsb (fun d => overlap (box_of d) (box_of o)) devs.

  (* apply_params: "for obj in objects.object_list: if any([d.check_overlap(obj) for d in devices]): ... obj.apply(...)" *)
  Fixpoint reapply_loop (devs : list O) (m : M) (key : Key) (objs : list O) : list O :=
    match objs with
    | [] => []
    | o :: r =>
        if any_overlap devs o
        then let '(key', sub) := split key in apply sub m o :: reapply_loop devs m key' r
        else o :: reapply_loop devs m key r
    end.

  (* place_objects: "if not any([d.check_overlap(obj) for d in devices]): ... obj.apply(...)" *)
  Fixpoint place_loop (devs : list O) (m : M) (key : Key) (objs : list O) : list O :=
    match objs with
    | [] => []
    | o :: r =>
        if negb (any_overlap devs o)
        then let '(key', sub) := split key in apply sub m o :: place_loop devs m key' r
        else o :: place_loop devs m key r
    end.

  (* which objects apply_params re-applies (observable: the sequence of apply calls) *)
  Definition reapplied (devs objs : list O) : list bool := map (any_overlap devs) objs.
End Loops.
