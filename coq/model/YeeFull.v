(* YeeFull.v — executable model of the fully anisotropic (9-component) LOSSLESS update branch (no proofs in this file).
   Source map (uniform and stretched grids):
     fdtd/misc.py avg_anisotropic_E_component / avg_anisotropic_H_component  -> avgE / avgH (co-location averages on the padded array:
        the half step from cell centre to edge is weighted by the widths of the two cells involved, the other half step is a midpoint;
        with all widths equal this is the four-point mean of the uniform branch — equal in the field, so one definition serves both branches)
     fdtd/update.py get_anisotropic_averaging_widths (edge-replicated width halo)  -> wsel / pwsel
     fdtd/misc.py compute_anisotropic_update_matrices with sigma = None      -> A = I, B = c * inv_material (3x3 per cell)
     fdtd/update.py update_E / update_H "Full anisotropic case"              -> update_E_full / update_H_full
     fdtd/update.py update_E_reverse / update_H_reverse (same branch)        -> update_E_rev_full / update_H_rev_full
   The permittivity (permeability) tensor is a function t r s : row r, column s -> real array; the two tiers are independent
   in the source (inverse permittivity may be 9-component while the permeability is scalar / diagonal and vice versa). *)
From Coq Require Import List Arith Bool.
From FV Require Import base.Scalar base.Cplx model.Yee model.YeeExec.
Import ListNotations.
Local Open Scope fld_scope.

Section Full.
  Variable K : Fld.
  Notation C := (C K).
  Variable sc : scene K.
  Definition T9 : Type := nat -> nat -> R3 K.

  (* one-cell shifts with ghost reads (the padded array of pad_fields_for_boundaries) *)
  Definition shp (a : nat) (f : A3 K) : A3 K :=
    match a with
    | O => fun i j k => nxt K (nx K sc) (hix K sc) (fun q => f q j k) i
    | S O => fun i j k => nxt K (ny K sc) (hiy K sc) (fun q => f i q k) j
    | _ => fun i j k => nxt K (nz K sc) (hiz K sc) (fun q => f i j q) k
    end.
  Definition shm (a : nat) (f : A3 K) : A3 K :=
    match a with
    | O => fun i j k => prv K (nx K sc) (lox K sc) (fun q => f q j k) i
    | S O => fun i j k => prv K (ny K sc) (loy K sc) (fun q => f i q k) j
    | _ => fun i j k => prv K (nz K sc) (loz K sc) (fun q => f i j q) k
    end.
  Definition half : car K := 1 / two K.
  (* width of the cell along axis a, and of the cell before it (the width halo replicates the edge cell: pred 0 = 0) *)
  Definition wsel (a i j k : nat) : car K := match a with O => wx K sc i | S O => wy K sc j | _ => wz K sc k end.
  Definition pwsel (a i j k : nat) : car K :=
    match a with O => wx K sc (Nat.pred i) | S O => wy K sc (Nat.pred j) | _ => wz K sc (Nat.pred k) end.
  (* (pw * a + w * b) / (w + pw) *)
  Definition wmix (w pw : car K) (a b : C) : C := cscal (1 / (w + pw)) (cadd (cscal pw a) (cscal w b)).

  (* component c of an E-type field averaged onto the Yee location of component l:
     centered = midpoint of (x, x+e_l); result = width-weighted mix of centered(x) and centered(x-e_c) along axis c *)
  Definition avgE (f : A3 K) (c l : nat) : A3 K :=
    fun i j k => wmix (wsel c i j k) (pwsel c i j k)
                   (cscal half (cadd (f i j k) (shp l f i j k)))
                   (cscal half (cadd (shm c f i j k) (shp l (shm c f) i j k))).
  (* component c of an H-type field averaged onto the location of component l:
     on_edge = width-weighted mix of (x, x-e_l) along axis l; result = midpoint of on_edge(x) and on_edge(x+e_c) *)
  Definition avgH (f : A3 K) (c l : nat) : A3 K :=
    fun i j k => cscal half (cadd (wmix (wsel l i j k) (pwsel l i j k) (f i j k) (shm l f i j k))
                                  (wmix (wsel l i j k) (pwsel l i j k) (shp c f i j k) (shm l (shp c f) i j k))).

  Definition comp (v : V3 K) (r : nat) : A3 K := match r with O => vx v | S O => vy v | _ => vz v end.
  Definition at_loc (avg : A3 K -> nat -> nat -> A3 K) (v : V3 K) (r s : nat) : A3 K :=
    if Nat.eqb r s then comp v r else avg (comp v s) s r.
  (* row r of  (c * T) applied to the co-located vector *)
  Definition trow (avg : A3 K -> nat -> nat -> A3 K) (T : T9) (v : V3 K) (r : nat) : A3 K :=
    fun i j k => cadd (cadd (cscal (cn K sc * T r 0%nat i j k) (at_loc avg v r 0%nat i j k))
                            (cscal (cn K sc * T r 1%nat i j k) (at_loc avg v r 1%nat i j k)))
                      (cscal (cn K sc * T r 2%nat i j k) (at_loc avg v r 2%nat i j k)).
  Definition tvec (avg : A3 K -> nat -> nat -> A3 K) (T : T9) (v : V3 K) : V3 K :=
    mkV (trow avg T v 0%nat) (trow avg T v 1%nat) (trow avg T v 2%nat).

  (* E' = E + (c inv_eps) K_avg, sources, wall masks *)
  Definition update_E_full (sim : bool) (ie9 : T9) (s : state K) : state K :=
    let '(kc, psi') := curlH K sc sim (fH s) (psiE s) in
    mkSt (tstep s) (vmask K (mE K sc) (vadd K (vadd K (fE s) (tvec avgE ie9 kc)) (injE K sc (tstep s)))) (fH s) psi' (psiH s).
  (* H' = H - (c inv_mu) K_avg *)
  Definition update_H_full (sim : bool) (im9 : T9) (s : state K) : state K :=
    let '(kc, psi') := curlE K sc sim (fE s) (psiH s) in
    mkSt (tstep s) (fE s) (vmask K (mH K sc) (vadd K (vsub K (fH s) (tvec avgH im9 kc)) (injH K sc (tstep s)))) (psiE s) psi'.

  (* the two tiers are chosen independently: None = iso / diagonal tier of model/Yee.v *)
  Definition upd_E (sim : bool) (ie9 : option T9) (s : state K) : state K :=
    match ie9 with Some T => update_E_full sim T s | None => update_E K sc sim s end.
  Definition upd_H (sim : bool) (im9 : option T9) (s : state K) : state K :=
    match im9 with Some T => update_H_full sim T s | None => update_H K sc sim s end.
  Definition forward_full (ie9 im9 : option T9) (s : state K) : state K :=
    let s2 := upd_H true im9 (upd_E true ie9 s) in
    mkSt (S (tstep s)) (fE s2) (fH s2) (psiE s2) (psiH s2).

  (* reverse updates at time step t *)
  Definition update_H_rev_full (t : nat) (im9 : T9) (s : state K) : state K :=
    let H := vsub K (fH s) (injH K sc t) in
    let '(kc, _) := curlE K sc false (fE s) (psiH s) in
    mkSt (tstep s) (fE s) (vmask K (mH K sc) (vadd K H (tvec avgH im9 kc))) (psiE s) (psiH s).
  Definition update_E_rev_full (t : nat) (ie9 : T9) (s : state K) : state K :=
    let E := vsub K (fE s) (injE K sc t) in
    let '(kc, _) := curlH K sc false (fH s) (psiE s) in
    mkSt (tstep s) (vmask K (mE K sc) (vsub K E (tvec avgE ie9 kc))) (fH s) (psiE s) (psiH s).
  Definition rev_E (t : nat) (ie9 : option T9) (s : state K) : state K :=
    match ie9 with Some T => update_E_rev_full t T s | None => update_E_rev K sc t s end.
  Definition rev_H (t : nat) (im9 : option T9) (s : state K) : state K :=
    match im9 with Some T => update_H_rev_full t T s | None => update_H_rev K sc t s end.
  Definition backward_full (ie9 im9 : option T9) (s : state K) : state K :=
    let t := Nat.pred (tstep s) in
    let s2 := rev_E t ie9 (rev_H t im9 s) in
    mkSt t (fE s2) (fH s2) (psiE s2) (psiH s2).

  (* ================= the conductive (lossy) fully anisotropic tiers =================
     fdtd/misc.py compute_anisotropic_update_matrices with a conductivity tensor:
       factor = (c * eta_factor / 2) * (T @ sigma);  M1 = I + factor;  M2 = I - factor;
       A = M1^-1 @ M2;  B = c * M1^-1 @ T           (jnp.linalg.solve per cell; here: adjugate / determinant)
     fdtd/update.py update_E / update_H "Full anisotropic case":
       E' = A (.) E_colocated + B (.) K_colocated,   H' = A (.) H_colocated - B (.) K_colocated *)
  Definition m9mul (X Y : T9) : T9 :=
    fun r s i j k => X r 0%nat i j k * Y 0%nat s i j k + X r 1%nat i j k * Y 1%nat s i j k + X r 2%nat i j k * Y 2%nat s i j k.
  Definition m9id : T9 := fun r s _ _ _ => if Nat.eqb r s then 1 else 0.
  Definition m9lin (a : car K) (X : T9) (b : car K) (Y : T9) : T9 := fun r s i j k => a * X r s i j k + b * Y r s i j k.
  Definition nx3 (r : nat) : nat := match r with O => 1 | S O => 2 | _ => 0 end.        (* r + 1 mod 3 *)
  Definition pv3 (r : nat) : nat := match r with O => 2 | S O => 0 | _ => 1 end.        (* r + 2 mod 3 *)
  (* cofactor C(r, s) = M[r+1, s+1] M[r+2, s+2] - M[r+1, s+2] M[r+2, s+1]  (cyclic indices: the sign is absorbed) *)
  Definition cof (M : T9) (r s : nat) : R3 K :=
    fun i j k => M (nx3 r) (nx3 s) i j k * M (pv3 r) (pv3 s) i j k - M (nx3 r) (pv3 s) i j k * M (pv3 r) (nx3 s) i j k.
  Definition det9 (M : T9) : R3 K :=
    fun i j k => M 0%nat 0%nat i j k * cof M 0%nat 0%nat i j k + M 0%nat 1%nat i j k * cof M 0%nat 1%nat i j k + M 0%nat 2%nat i j k * cof M 0%nat 2%nat i j k.
  Definition m9inv (M : T9) : T9 := fun r s i j k => cof M s r i j k / det9 M i j k.          (* adjugate = transposed cofactors *)
  Definition lossy_M1 (etaf : car K) (T sg : T9) : T9 := m9lin 1 m9id (cn K sc * etaf / two K) (m9mul T sg).
  Definition lossy_M2 (etaf : car K) (T sg : T9) : T9 := m9lin 1 m9id (0 - cn K sc * etaf / two K) (m9mul T sg).
  Definition lossy_A (etaf : car K) (T sg : T9) : T9 := m9mul (m9inv (lossy_M1 etaf T sg)) (lossy_M2 etaf T sg).
  Definition lossy_B (etaf : car K) (T sg : T9) : T9 := m9lin (cn K sc) (m9mul (m9inv (lossy_M1 etaf T sg)) T) 0 m9id.

  (* row r of a tensor applied to the co-located vector (no Courant factor) *)
  Definition trow1 (avg : A3 K -> nat -> nat -> A3 K) (T : T9) (v : V3 K) (r : nat) : A3 K :=
    fun i j k => cadd (cadd (cscal (T r 0%nat i j k) (at_loc avg v r 0%nat i j k))
                            (cscal (T r 1%nat i j k) (at_loc avg v r 1%nat i j k)))
                      (cscal (T r 2%nat i j k) (at_loc avg v r 2%nat i j k)).
  Definition tvec1 (avg : A3 K -> nat -> nat -> A3 K) (T : T9) (v : V3 K) : V3 K :=
    mkV (trow1 avg T v 0%nat) (trow1 avg T v 1%nat) (trow1 avg T v 2%nat).

  (* the two half steps with explicit update matrices A, B *)
  Definition update_E_AB (sim : bool) (A B : T9) (s : state K) : state K :=
    let '(kc, psi') := curlH K sc sim (fH s) (psiE s) in
    mkSt (tstep s) (vmask K (mE K sc) (vadd K (vadd K (tvec1 avgE A (fE s)) (tvec1 avgE B kc)) (injE K sc (tstep s)))) (fH s) psi' (psiH s).
  Definition update_H_AB (sim : bool) (A B : T9) (s : state K) : state K :=
    let '(kc, psi') := curlE K sc sim (fE s) (psiH s) in
    mkSt (tstep s) (fE s) (vmask K (mH K sc) (vadd K (vsub K (tvec1 avgH A (fH s)) (tvec1 avgH B kc)) (injH K sc (tstep s)))) (psiE s) psi'.
  (* tiers: None = iso / diagonal tier of model/Yee.v, Some (T, sigma) = conductive full tensor *)
  Definition upd_E_lossy (sim : bool) (e : option (T9 * T9)) (s : state K) : state K :=
    match e with Some (T, sg) => update_E_AB sim (lossy_A (eta0 K sc) T sg) (lossy_B (eta0 K sc) T sg) s | None => update_E K sc sim s end.
  Definition upd_H_lossy (sim : bool) (m : option (T9 * T9)) (s : state K) : state K :=
    match m with Some (T, sg) => update_H_AB sim (lossy_A (1 / eta0 K sc) T sg) (lossy_B (1 / eta0 K sc) T sg) s | None => update_H K sc sim s end.
  Definition forward_lossy (e m : option (T9 * T9)) (s : state K) : state K :=
    let s2 := upd_H_lossy true m (upd_E_lossy true e s) in
    mkSt (S (tstep s)) (fE s2) (fH s2) (psiE s2) (psiH s2).
End Full.

(* executed versions and literals *)
Section FullExec.
  Variable K : Fld.
  Definition forward_fullX (sc : scene K) (ie9 im9 : option (T9 K)) (s : state K) : state K := freezeS K sc (forward_full K sc ie9 im9 s).
  Definition backward_fullX (sc : scene K) (ie9 im9 : option (T9 K)) (s : state K) : state K := freezeS K sc (backward_full K sc ie9 im9 s).
  (* executed conductive tiers: the per-cell matrices are tabulated level by level (M1, M2, M1^-1, A, B) so that every entry is computed once;
     inside the box and for r, s < 3 a tabulated tensor reads back the tensor it was built from (YeeExec_proofs.freeze_in) *)
  Definition freeze9 (nx ny nz : nat) (T : T9 K) : T9 K :=
    let tabs := map (fun q => tab3 nx ny nz (T (q / 3)%nat (q mod 3)%nat)) (seq 0 9) in
    fun r s i j k => if (r <? 3) && (s <? 3) && (i <? nx) && (j <? ny) && (k <? nz) then get3 0 (nth (3 * r + s) tabs []) i j k else 0.
  Definition mats_exec (sc : scene K) (etaf : car K) (o : option (T9 K * T9 K)) : option (T9 K * T9 K) :=
    match o with
    | None => None
    | Some (T, sg) =>
        let fz := freeze9 (nx K sc) (ny K sc) (nz K sc) in
        let M1 := fz (lossy_M1 K sc etaf T sg) in let M2 := fz (lossy_M2 K sc etaf T sg) in
        let I1 := fz (m9inv K M1) in
        Some (fz (m9mul K I1 M2), fz (m9lin K (cn K sc) (fz (m9mul K I1 T)) 0 (m9id K)))
    end.
  Definition upd_E_mats (sc : scene K) (sim : bool) (ab : option (T9 K * T9 K)) (s : state K) : state K :=
    match ab with Some (A, B) => update_E_AB K sc sim A B s | None => update_E K sc sim s end.
  Definition upd_H_mats (sc : scene K) (sim : bool) (ab : option (T9 K * T9 K)) (s : state K) : state K :=
    match ab with Some (A, B) => update_H_AB K sc sim A B s | None => update_H K sc sim s end.
  Definition forward_mats (sc : scene K) (abE abH : option (T9 K * T9 K)) (s : state K) : state K :=
    let s2 := upd_H_mats sc true abH (upd_E_mats sc true abE s) in
    mkSt (S (tstep s)) (fE s2) (fH s2) (psiE s2) (psiH s2).
  Definition forward_lossyX (sc : scene K) (e m : option (T9 K * T9 K)) (s : state K) : state K :=
    freezeS K sc (forward_mats sc (mats_exec sc (eta0 K sc) e) (mats_exec sc (1 / eta0 K sc) m) s).
  (* tensor from a row-major list of nine nested-list arrays *)
  Definition T9_of (nx ny nz : nat) (d : car K) (l : list (L3 (car K))) : T9 K :=
    fun r s => of3 d nx ny nz (nth (3 * r + s) l []).
End FullExec.
