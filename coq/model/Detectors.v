(* Detectors.v — executable model of the detector records (C16; phasor accumulation shared with C17).
   Source: src/fdtdx/objects/detectors/{detector,field,energy,poynting_flux,phasor}.py,
           src/fdtdx/core/physics/metrics.py, src/fdtdx/core/grid.py (cell_volume, face_area).
   No proofs here.  Arrays are functions of indices; a region is (lo, n); [tab3]/[tab4] of
   base/DetectorsBase.v give the flat row-major lists compared with the implementation. *)
From Coq Require Import List Arith Bool.
From FV Require Import base.Scalar base.Sums base.DetectorsBase.
Import ListNotations.
Local Open Scope fld_scope.

Definition shape3 : Type := (nat * nat * nat)%type.
Definition dimx (s : shape3) : nat := fst (fst s).
Definition dimy (s : shape3) : nat := snd (fst s).
Definition dimz (s : shape3) : nat := snd s.
Definition dim (s : shape3) (a : nat) : nat := match a with 0 => dimx s | 1 => dimy s | _ => dimz s end.
Definition set_dim (s : shape3) (a v : nat) : shape3 :=
  match a with 0 => (v, dimy s, dimz s) | 1 => (dimx s, v, dimz s) | _ => (dimx s, dimy s, v) end.
Definition shape_eqb (a b : shape3) : bool :=
  Nat.eqb (dimx a) (dimx b) && Nat.eqb (dimy a) (dimy b) && Nat.eqb (dimz a) (dimz b).

(* numpy broadcasting of one dimension: None = "operands could not be broadcast together" *)
Definition bdim (a b : nat) : option nat :=
  if Nat.eqb a b then Some a else if Nat.eqb a 1 then Some b else if Nat.eqb b 1 then Some a else None.
Definition bshape (a b : shape3) : option shape3 :=
  match bdim (dimx a) (dimx b), bdim (dimy a) (dimy b), bdim (dimz a) (dimz b) with
  | Some x, Some y, Some z => Some (x, y, z) | _, _, _ => None end.
(* jnp.broadcast_to(arr of shape a, target) *)
Definition can_broadcast_to (a target : shape3) : bool :=
  (Nat.eqb (dimx a) (dimx target) || Nat.eqb (dimx a) 1) && (Nat.eqb (dimy a) (dimy target) || Nat.eqb (dimy a) 1)
  && (Nat.eqb (dimz a) (dimz target) || Nat.eqb (dimz a) 1).
(* jnp.stack: all shapes must be equal; result = the common shape (leading axis implicit) *)
Definition stack_shape (l : list shape3) : option shape3 :=
  match l with [] => None | s :: r => if forallb (shape_eqb s) r then Some s else None end.
(* index used when reading a broadcast dimension of stored extent n *)
Definition bidx (n i : nat) : nat := if Nat.eqb n 1 then 0 else i.
(* region offsets *)
Definition ox (lo : shape3) (i : nat) : nat := Nat.add (dimx lo) i.
Definition oy (lo : shape3) (j : nat) : nat := Nat.add (dimy lo) j.
Definition oz (lo : shape3) (k : nat) : nat := Nat.add (dimz lo) k.

Section DetectorsModel.
  Variable K : Fld.
  Notation F := (car K).
  Notation A3 := (A3 K).
  Notation Cx := (Cx K).
  Definition Vec : Type := nat -> A3.                  (* component -> array *)

  Definition sum3s (n : shape3) (g : A3) : F := sum3 (dimx n) (dimy n) (dimz n) g.

  (* E[:, *grid_slice] *)
  Definition restrict3 (lo : shape3) (f : A3) : A3 := fun i j k => f (ox lo i) (oy lo j) (oz lo k).
  Definition restrict (lo : shape3) (f : Vec) : Vec := fun c => restrict3 lo (f c).

  (* resolved RectilinearGrid: per-axis cell widths of the whole domain *)
  Record Grid : Type := mkGrid { wx : nat -> F; wy : nat -> F; wz : nat -> F }.

  (* grid.py RectilinearGrid.cell_volume(slice) *)
  Definition cell_volume (g : Grid) (lo : shape3) : A3 :=
    fun i j k => wx g (ox lo i) * wy g (oy lo j) * wz g (oz lo k).

  (* shaped array: stored shape + contents (read with numpy broadcasting through [sget]) *)
  Record SArr : Type := mkS { sshape : shape3; sdat : A3 }.
  Definition sget (a : SArr) : A3 :=
    fun i j k => sdat a (bidx (dimx (sshape a)) i) (bidx (dimy (sshape a)) j) (bidx (dimz (sshape a)) k).

  (* grid.py RectilinearGrid.face_area(axis, slice): shape one along [axis], transverse width product *)
  Definition face_area (g : Grid) (lo n : shape3) (axis : nat) : SArr :=
    mkS (set_dim n axis 1)
        (match axis with
         | 0 => fun _ j k => wy g (oy lo j) * wz g (oz lo k)
         | 1 => fun i _ k => wx g (ox lo i) * wz g (oz lo k)
         | _ => fun i j _ => wx g (ox lo i) * wy g (oy lo j)
         end).
  (* jnp.broadcast_to(a, n): contents materialised on the target shape *)
  Definition broadcast_to (a : SArr) (n : shape3) : option SArr :=
    if can_broadcast_to (sshape a) n then Some (mkS n (sget a)) else None.

  (* ---------------- metrics.py ---------------- *)
  (* compute_poynting_flux(E, H).real for real fields: jnp.cross(E, conj H) *)
  Definition cross (E H : Vec) : Vec := fun c i j k =>
    match c with
    | 0 => E 1%nat i j k * H 2%nat i j k - E 2%nat i j k * H 1%nat i j k
    | 1 => E 2%nat i j k * H 0%nat i j k - E 0%nat i j k * H 2%nat i j k
    | _ => E 0%nat i j k * H 1%nat i j k - E 1%nat i j k * H 0%nat i j k
    end.

  (* compute_energy, diagonal branch: 0.5*(1/inv_eps)*|E|^2 summed over components + same for H.
     [ie], [im]: inverse material arrays with [nce], [ncm] (1 or 3) stored components (broadcast over
     the component axis); a float inv_permeability is the constant function with ncm = 1. *)
  Definition half : F := 1 / (1 + 1).
  Definition energy_density (nce ncm : nat) (E H ie im : Vec) : A3 := fun i j k =>
    (half * (1 / ie (bidx nce 0) i j k) * (E 0%nat i j k * E 0%nat i j k)
     + half * (1 / ie (bidx nce 1) i j k) * (E 1%nat i j k * E 1%nat i j k)
     + half * (1 / ie (bidx nce 2) i j k) * (E 2%nat i j k * E 2%nat i j k))
    + (half * (1 / im (bidx ncm 0) i j k) * (H 0%nat i j k * H 0%nat i j k)
       + half * (1 / im (bidx ncm 1) i j k) * (H 1%nat i j k * H 1%nat i j k)
       + half * (1 / im (bidx ncm 2) i j k) * (H 2%nat i j k * H 2%nat i j k)).

  (* net_poynting_flux_through_box: for a in active: + take(weighted,-1,axis=a).sum() - take(weighted,0,axis=a).sum() *)
  Definition face_sum (n : shape3) (a : nat) (g : A3) (pos : nat) : F :=
    match a with
    | 0 => sumn (dimy n) (fun j => sumn (dimz n) (fun k => g pos j k))
    | 1 => sumn (dimx n) (fun i => sumn (dimz n) (fun k => g i pos k))
    | _ => sumn (dimx n) (fun i => sumn (dimy n) (fun j => g i j pos))
    end.
  Definition net_box (n : shape3) (active : list nat) (S : Vec) (W : nat -> SArr) : F :=
    fold_left (fun net a =>
                 let weighted := fun i j k => S a i j k * sget (W a) i j k in
                 net + face_sum n a weighted (Nat.pred (dim n a)) - face_sum n a weighted 0)
              active 0.

  (* ---------------- detector.py ---------------- *)
  (* Detector._volume_weighted_spatial_mean *)
  Definition wmean (n : shape3) (vol g : A3) : F := sum3s n (fun i j k => g i j k * vol i j k) / sum3s n vol.

  (* ---------------- field.py: FieldDetector.update ---------------- *)
  (* the recorded component stack: canonical order Ex,Ey,Ez,Hx,Hy,Hz filtered by membership, whatever
     the order of the user's [components]; [sel] = sorted list of canonical indices 0..5 *)
  Definition EH (E H : Vec) : Vec := fun c => if Nat.ltb c 3 then E c else H (c - 3)%nat.
  Definition field_spatial (sel : list nat) (E H : Vec) : Vec := fun r => EH E H (nth r sel 0%nat).
  Definition field_reduced (n : shape3) (vol : A3) (sel : list nat) (E H : Vec) : nat -> F :=
    fun r => wmean n vol (field_spatial sel E H r).

  (* ---------------- energy.py: EnergyDetector.update ---------------- *)
  Definition energy_spatial := energy_density.
  Definition energy_reduced (n : shape3) (vol : A3) (en : A3) : F := sum3s n (fun i j k => en i j k * vol i j k).

  (* ---------------- poynting_flux.py: PoyntingFluxDetector ---------------- *)
  (* propagation_axis: fixed axis if given (must be 0,1,2), else the unique size-one dimension *)
  Definition count_ones (n : shape3) : nat :=
    ((if Nat.eqb (dimx n) 1 then 1 else 0) + (if Nat.eqb (dimy n) 1 then 1 else 0) + (if Nat.eqb (dimz n) 1 then 1 else 0))%nat.
  Definition prop_axis (fixed : option nat) (n : shape3) : option nat :=
    match fixed with
    | Some a => if Nat.ltb a 3 then Some a else None
    | None => if Nat.eqb (count_ones n) 1
              then Some (if Nat.eqb (dimx n) 1 then 0 else if Nat.eqb (dimy n) 1 then 1 else 2)%nat
              else None
    end.

  (* place_on_grid weights.  UNCHANGED source (keep_all_components): jnp.stack of the three per-axis
     arrays as they are -> None (= ValueError) unless their shapes coincide. *)
  Definition pf_weights_all_src_old (g : Grid) (lo n : shape3) : option (nat -> SArr) :=
    match stack_shape [sshape (face_area g lo n 0); sshape (face_area g lo n 1); sshape (face_area g lo n 2)] with
    | Some _ => Some (fun a => face_area g lo n a)
    | None => None
    end.
  (* REPAIRED source (fixes/C16.patch): each array is broadcast to grid_shape before stacking *)
  Definition pf_weights_all (g : Grid) (lo n : shape3) : option (nat -> SArr) :=
    match broadcast_to (face_area g lo n 0) n, broadcast_to (face_area g lo n 1) n, broadcast_to (face_area g lo n 2) n with
    | Some w0, Some w1, Some w2 =>
        match stack_shape [sshape w0; sshape w1; sshape w2] with
        | Some _ => Some (fun a => match a with 0 => w0 | 1 => w1 | _ => w2 end)
        | None => None
        end
    | _, _, _ => None
    end.
  (* not keep_all: the face-area array of the propagation axis, un-broadcast *)
  Definition pf_weights_single (g : Grid) (lo n : shape3) (pa : nat) : SArr := face_area g lo n pa.

  Definition sgn (minus : bool) (x : F) : F := if minus then - x else x.
  (* update, keep_all_components = True *)
  Definition pf_all_spatial (minus : bool) (E H : Vec) : Vec := fun c i j k => sgn minus (cross E H c i j k).
  Definition pf_all_reduced (n : shape3) (W : nat -> SArr) (minus : bool) (E H : Vec) : nat -> F :=
    fun c => sum3s n (fun i j k => pf_all_spatial minus E H c i j k * sget (W c) i j k).
  (* update, keep_all_components = False *)
  Definition pf_single_spatial (pa : nat) (minus : bool) (E H : Vec) : A3 := fun i j k => sgn minus (cross E H pa i j k).
  Definition pf_single_reduced (n : shape3) (W : SArr) (pa : nat) (minus : bool) (E H : Vec) : F :=
    sum3s n (fun i j k => pf_single_spatial pa minus E H i j k * sget W i j k).

  (* ---------------- ClosedSurfacePoyntingFluxDetector ---------------- *)
  Definition default_axes (n : shape3) : list nat := filter (fun a => Nat.ltb 1 (dim n a)) [0; 1; 2]%nat.
  Definition closed_axes (axes : option (list nat)) (n : shape3) : list nat :=
    match axes with Some l => l | None => default_axes n end.
  Definition closed_net (g : Grid) (lo n : shape3) (axes : option (list nat)) (inward : bool) (E H : Vec) : F :=
    sgn inward (net_box n (closed_axes axes n) (cross E H) (fun a => face_area g lo n a)).

  (* ---------------- phasor.py: PhasorDetector ---------------- *)
  (* one recorded sample: EH * exp(i w t) * static_scale * window_weight, per frequency f, row r *)
  Definition phasor_new (sel : list nat) (E H : Vec) (e : nat -> Cx) (scale w : F) : nat -> nat -> nat -> nat -> nat -> Cx :=
    fun f r i j k => cscal (field_spatial sel E H r i j k * scale * w) (e f).
  Definition cwmean (n : shape3) (vol : A3) (g : nat -> nat -> nat -> Cx) : Cx :=
    (wmean n vol (fun i j k => fst (g i j k)), wmean n vol (fun i j k => snd (g i j k))).
  (* spatial detector state: f r i j k -> Cx ; reduced: f r -> Cx *)
  Definition PhS : Type := nat -> nat -> nat -> nat -> nat -> Cx.
  Definition PhR : Type := nat -> nat -> Cx.
  Definition phasor_update_spatial (inverse : bool) (st : PhS) (new : PhS) : PhS :=
    fun f r i j k => if inverse then csub (st f r i j k) (new f r i j k) else cadd (st f r i j k) (new f r i j k).
  Definition phasor_update_reduced (n : shape3) (vol : A3) (inverse : bool) (st : PhR) (new : PhS) : PhR :=
    fun f r => if inverse then csub (st f r) (cwmean n vol (new f r)) else cadd (st f r) (cwmean n vol (new f r)).

  (* a run: the recorded steps in order; [fld t] fields seen at step t, [e t f] phase factor, [w t] window weight *)
  Definition phasor_run_spatial (inverse : bool) (sel : list nat) (fldE fldH : nat -> Vec) (e : nat -> nat -> Cx)
             (scale : F) (w : nat -> F) (steps : list nat) (st0 : PhS) : PhS :=
    fold_left (fun st t => phasor_update_spatial inverse st (phasor_new sel (fldE t) (fldH t) (e t) scale (w t))) steps st0.
  Definition phasor_run_reduced (n : shape3) (vol : A3) (inverse : bool) (sel : list nat) (fldE fldH : nat -> Vec)
             (e : nat -> nat -> Cx) (scale : F) (w : nat -> F) (steps : list nat) (st0 : PhR) : PhR :=
    fold_left (fun st t => phasor_update_reduced n vol inverse st (phasor_new sel (fldE t) (fldH t) (e t) scale (w t))) steps st0.
  (* ---------------- flat views used by the correspondence (row-major, numpy ravel order) ---------------- *)
  Definition flat_ph (part : Cx -> F) (nf nr : nat) (n : shape3) (st : PhS) : list F :=
    concat (map (fun f => tab4 nr (dimx n) (dimy n) (dimz n) (fun r i j k => part (st f r i j k))) (seq 0 nf)).
  Definition flat_phr (part : Cx -> F) (nf nr : nat) (st : PhR) : list F :=
    concat (map (fun f => tab1 nr (fun r => part (st f r))) (seq 0 nf)).
End DetectorsModel.

Arguments sum3s {K}. Arguments restrict3 {K}. Arguments restrict {K}. Arguments cell_volume {K}.
Arguments mkGrid {K}. Arguments wx {K}. Arguments wy {K}. Arguments wz {K}.
Arguments mkS {K}. Arguments sshape {K}. Arguments sdat {K}. Arguments sget {K}.
Arguments face_area {K}. Arguments broadcast_to {K}. Arguments cross {K}. Arguments energy_density {K}.
Arguments face_sum {K}. Arguments net_box {K}. Arguments wmean {K}. Arguments EH {K}.
Arguments field_spatial {K}. Arguments field_reduced {K}. Arguments energy_spatial {K}. Arguments energy_reduced {K}.
Arguments pf_weights_all_src_old {K}. Arguments pf_weights_all {K}. Arguments pf_weights_single {K}.
Arguments sgn {K}. Arguments pf_all_spatial {K}. Arguments pf_all_reduced {K}.
Arguments pf_single_spatial {K}. Arguments pf_single_reduced {K}. Arguments closed_net {K}.
Arguments phasor_new {K}. Arguments cwmean {K}. Arguments phasor_update_spatial {K}. Arguments phasor_update_reduced {K}.
Arguments phasor_run_spatial {K}. Arguments phasor_run_reduced {K}.
Arguments flat_ph {K}. Arguments flat_phr {K}. Arguments prop_axis : clear implicits.
