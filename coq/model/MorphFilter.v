(* MorphFilter.v — executable model of binary_median_filter (binary_transform.py) with advanced_padding
   (core/misc.py), and of compute_allowed_indices / the argmin of nearest_index (parameters/utils.py)
   as used by PillarDiscretization.  Definitions only. *)
From Coq Require Import List ZArith Bool Lia QArith Qcanon.
From FV Require Import base.Scalar base.PyNum base.Util base.MorphBase.
Import ListNotations.
Open Scope Z_scope.

(* ------------------------------------------------------------------ padding *)
(* one edge of PaddingConfig: width, and Some v for mode "constant" with value v / None for mode "edge" *)
Record pad_edge := { pe_width : Z; pe_const : option bool }.
(* per axis: (low edge, high edge) *)
Definition pad_axis : Type := (pad_edge * pad_edge)%type.

(* coordinate i of an axis with extent n: inside / in the low padding / in the high padding / beyond the padded array *)
Inductive where_ := Inside | Low | High | Beyond.
Definition locate (n : Z) (p : pad_axis) (i : Z) : where_ :=
  if (0 <=? i) && (i <? n) then Inside
  else if (i <? 0) then (if - pe_width (fst p) <=? i then Low else Beyond)
  else (if i <? n + pe_width (snd p) then High else Beyond).
Definition in_padded (n : Z) (p : pad_axis) (i : Z) : bool := match locate n p i with Beyond => false | _ => true end.

(* jnp.pad is applied edge by edge, axis 0 first: a later axis pads the already padded array, hence a later
   axis' constant wins in the corners and a later axis' "edge" mode replicates earlier padding.
   res_axis = Some v : the value is the constant v;  None + index : continue with the clamped index *)
Definition res_axis (n : Z) (p : pad_axis) (i : Z) : option bool * Z :=
  match locate n p i with
  | Inside | Beyond => (None, i)
  | Low => (pe_const (fst p), 0)
  | High => (pe_const (snd p), n - 1)
  end.

Definition zget3 (a : arr3) (i j k : Z) : bool := get3 a (Z.to_nat i) (Z.to_nat j) (Z.to_nat k).

(* value of the padded array at original coordinates (possibly negative); zero beyond the padding,
   which is the zero fill of convolve(mode="same") *)
Definition ext (nx ny nz : Z) (px py pz : pad_axis) (a : arr3) (i j k : Z) : bool :=
  if in_padded nx px i && in_padded ny py j && in_padded nz pz k then
    match res_axis nz pz k with
    | (Some v, _) => v
    | (None, k') => match res_axis ny py j with
      | (Some v, _) => v
      | (None, j') => match res_axis nx px i with
        | (Some v, _) => v
        | (None, i') => zget3 a i' j' k' end end end
  else false.

(* ------------------------------------------------------------------ box filter *)
Definition b2z (b : bool) : Z := if b then 1 else 0.
Definition zsum (l : list Z) (f : Z -> Z) : Z := fold_right (fun x s => f x + s) 0 l.
(* indices read by convolve(mode="same") with a ones kernel of size k at position i:
   i + (k-1)//2 - t, t = 0..k-1  (for odd k the centred window) *)
Definition window (k i : Z) : list Z := map (fun t => i + (k - 1) / 2 - t) (zrange k).

Section Median.
  Variables nx ny nz : Z.
  Variables px py pz : pad_axis.
  Variables k0 k1 k2 : Z.
  Variable a : arr3.
  Definition inpad3 (i j k : Z) : bool := in_padded nx px i && in_padded ny py j && in_padded nz pz k.
  (* the three successive 1-D convolutions on the padded array ('same' keeps its shape, zero outside) *)
  Definition conv0 (i j k : Z) : Z := if inpad3 i j k then zsum (window k0 i) (fun i' => b2z (ext nx ny nz px py pz a i' j k)) else 0.
  Definition conv1 (i j k : Z) : Z := if inpad3 i j k then zsum (window k1 j) (fun j' => conv0 i j' k) else 0.
  Definition conv2 (i j k : Z) : Z := if inpad3 i j k then zsum (window k2 k) (fun k' => conv1 i j k') else 0.
  (* jnp.round(conv / prod(kernel_sizes)) : round half to even *)
  Definition median_at (i j k : Z) : bool := py_round_div (conv2 i j k) (k0 * k1 * k2) =? 1.
  Definition median_filter : arr3 :=
    mk3 (Z.to_nat nx) (Z.to_nat ny) (Z.to_nat nz) (fun i j k => median_at (Z.of_nat i) (Z.of_nat j) (Z.of_nat k)).
  (* specification side: number of ones in the box neighbourhood of the padded design *)
  Definition boxsum (i j k : Z) : Z :=
    zsum (window k2 k) (fun k' => zsum (window k1 j) (fun j' => zsum (window k0 i) (fun i' => b2z (ext nx ny nz px py pz a i' j' k')))).
End Median.

(* ------------------------------------------------------------------ allowed pillar columns *)
(* itertools.product(vals, repeat=n) *)
Fixpoint product (vals : list nat) (n : nat) : list (list nat) :=
  match n with O => [[]] | S n' => flat_map (fun v => map (cons v) (product vals n')) vals end.
(* compute_allowed_indices(num_layers=L, indices=range(nm), fill_holes_with_index=[bg], single_polymer_columns) as a
   list (the code builds a set / jnp.unique: order and multiplicity are irrelevant) *)
Definition nat_eqb_list := list_eqb Nat.eqb.
Definition distinct_non_bg_le1 (bg : nat) (col : list nat) : bool :=
  match filter (fun v => negb (v =? bg)%nat) col with
  | [] => true
  | v :: r => forallb (fun w => (w =? v)%nat) r
  end.
Definition allowed_columns (L nm bg : nat) (single : bool) : list (list nat) :=
  let valid := filter (fun v => negb (v =? bg)%nat) (seq 0 nm) in
  let all := flat_map (fun perm => map (fun i => firstn (L - i) perm ++ repeat bg i) (seq 0 (S L))) (product valid L) in
  if single then filter (distinct_non_bg_le1 bg) all else all.

Definition col_mem (c : list nat) (l : list (list nat)) : bool := existsb (nat_eqb_list c) l.
Definition colset_eqb (a b : list (list nat)) : bool := forallb (fun c => col_mem c b) a && forallb (fun c => col_mem c a) b.

(* ------------------------------------------------------------------ argmin (jnp.argmin: first minimal index) *)
Section Argmin.
  Variable K : OFld.
  Fixpoint argmin_from (best : nat) (bv : K) (idx : nat) (l : list K) : nat :=
    match l with
    | [] => best
    | x :: r => if fleb K bv x then argmin_from best bv (S idx) r else argmin_from idx x (S idx) r
    end.
  Definition argmin (l : list K) : nat := match l with [] => O | x :: r => argmin_from O x 1%nat r end.

  (* the two distance metrics of nearest_index between a column of values v and the inverse permittivities a of
     an allowed column (euclidean: squared, which has the same argmin) *)
  Local Open Scope fld_scope.
  Definition fabs (x : K) : K := if fleb K 0 x then x else - x.
  Definition fsum (l : list K) : K := fold_right (fun x s => x + s) 0 l.
  Fixpoint fofnat (n : nat) : K := match n with O => 0 | S n' => 1 + fofnat n' end.
  Definition fmean (l : list K) : K := fsum l / fofnat (length l).
  Fixpoint fdiff (l : list K) : list K := match l with x :: ((y :: _) as r) => (y - x) :: fdiff r | _ => [] end.
  Definition dist_sq (v a : list K) : K := fsum (map (fun p => (fst p - snd p) * (fst p - snd p)) (combine v a)).
  Definition dist_pd (v a : list K) : K :=
    fmean (map (fun p => fabs (fst p - snd p)) (combine (fdiff v) (fdiff a))) + fabs (fmean v - fmean a).
  (* index into allowed columns chosen for the value column v; euclid = metric is "euclidean" or L = 1 *)
  Definition pillar_dists (euclid : bool) (inv_perm : list K) (allowed : list (list nat)) (v : list K) : list K :=
    map (fun col => let a := map (fun m => nth m inv_perm 0) col in if euclid then dist_sq v a else dist_pd v a) allowed.
  Definition pillar_choice (euclid : bool) (inv_perm : list K) (allowed : list (list nat)) (v : list K) : nat :=
    argmin (pillar_dists euclid inv_perm allowed v).
End Argmin.

(* correspondence helper (Qc): the implementation's column is allowed and its distance is within tol of the model's minimum *)
Definition pillar_agrees (euclid : bool) (tol : Qc) (inv_perm : list Qc) (allowed : list (list nat)) (v : list Qc) (chosen : list nat) : bool :=
  let ds := pillar_dists QcOF euclid inv_perm allowed v in
  let best := nth (argmin QcOF ds) ds 0%Qc in
  let a := map (fun m => nth m inv_perm 0%Qc) chosen in
  let d := if euclid then dist_sq QcOF v a else dist_pd QcOF v a in
  col_mem chosen allowed && Qcleb d (best + tol)%Qc.

(* specification of an allowed pillar column (Prop level): entries are material indices, the background index
   occupies exactly a top suffix (t layers), and — if single — all non-background entries are the same material *)
Definition col_spec (L nm bg : nat) (single : bool) (col : list nat) : Prop :=
  length col = L /\ (forall v, In v col -> (v < nm)%nat) /\
  (exists t, (t <= L)%nat /\ forall q, (q < L)%nat -> (nth q col bg = bg <-> (L - t <= q)%nat)) /\
  (single = true -> forall v w, In v col -> In w col -> v <> bg -> w <> bg -> v = w).
