(* Stop.v — executable model of fdtd/stop_conditions.py conditions (True = continue) and of
   ArrayContainer.reset as a split of the state into materials and time-dependent data. No proofs. *)
From Coq Require Import ZArith List Bool.
From FV Require Import model.Loop.
Open Scope Z_scope.

Section Stop.
  Variable S : Type.
  Variable step_of : S -> Z.
  (* TimeStepCondition *)
  Definition cond_time (T : Z) (s : S) : bool := step_of s <? T.
  (* EnergyThresholdCondition.__call__: time_condition & (min_steps_condition | ~converged);
     `below` = total_energy < threshold evaluated on the state (oracle for the float comparison) *)
  Definition cond_energy (mn mx : Z) (below : S -> bool) (s : S) : bool :=
    (step_of s <? mx) && ((step_of s <? mn) || negb (below s)).
  (* DetectorConvergenceCondition.__call__ after the repair: time_condition uses max_steps and bounds every branch;
     `conv` = spectra_distance < threshold (FFT verdict: oracle) *)
  Definition cond_detector (mn mx : Z) (conv : S -> bool) (s : S) : bool :=
    (step_of s <? mx) && (negb (mn <=? step_of s) || negb (conv s)).
  (* the snapshot: (~min_steps_condition) | (time_condition & ~converged) with time_condition = t < time_steps_total *)
  Definition cond_detector_src_old (T mn mx : Z) (conv : S -> bool) (s : S) : bool :=
    negb (mn <=? step_of s) || ((step_of s <? T) && negb (conv s)).
End Stop.

(* setup(): a bound the user gave (0 included) is kept, a bound left at None takes the documented default
   (energy: min_steps = round(0.1 * time_steps_total), max_steps = time_steps_total;
    detector: min_steps = (prev_periods + 1) * steps_per_period) *)
Definition setup_bound (given : option Z) (default : Z) : Z := match given with Some v => v | None => default end.

(* ArrayContainer.reset on a state split as (materials, time-dependent part) *)
Definition reset {M D : Type} (d0 : D) (s : M * D) : M * D := (fst s, d0).
