(* PlaceSpec.v — declarative meaning of the placement constraints (what "the constraint holds for the
   final grid slices" means), independent of the solver loop.  Used by props/C26.v, props/C27.v. *)
From Coq Require Import ZArith List Bool Lia.
From FV Require Import model.Place.
Import ListNotations.
Open Scope Z_scope.

(* grid shape entries are non-negative on every axis *)
Definition grid_ok (e : env) : Prop := forall a, 0 <= N e a.

(* b is the FIRST minimiser of f on [0, cnt]  (nearest-edge snapping with numpy's argmin tie rule) *)
Definition first_argmin (f : Z -> Z) (cnt b : Z) : Prop :=
  0 <= b <= cnt /\ (forall l, 0 <= l <= cnt -> f b <= f l) /\ (forall l, 0 <= l < b -> f b < f l).

(* idx is the grid edge (0..N) nearest to the coordinate c (in u, from the lower corner) *)
Definition nearest_spec (e : env) (a : nat) (c idx : Z) : Prop :=
  first_argmin (fun i => Z.abs (2 * D e * i - c)) (N e a) idx.

(* physical coordinate (u) of relative position pn/D inside the index interval (l, h) *)
Definition anchor_of (e : env) (l h pn : Z) : Z := 2 * D e * l + (pn + D e) * (h - l).

Definition holds_grid (st : state) (o : nat) (x : nat * bool * Z) : Prop :=
  let '(a, side, v) := x in get st (vbound o side a) = Some v.

Definition holds_real (e : env) (st : state) (o : nat) (x : nat * bool * Z) : Prop :=
  let '(a, side, c) := x in
  exists idx, get st (vbound o side a) = Some idx /\ nearest_spec e a (c + D e * N e a) idx.

(* the object's interval has its size, fits in the grid, and among all such intervals its anchor qn/D is
   nearest to the reference object's anchor pn/D plus the margins *)
Definition holds_pos (e : env) (st : state) (o other : nat) (x : nat * Z * Z * Z * Z) : Prop :=
  let '(a, qn, pn, m, g) := x in
  forall ol oh s, get st (vlo other a) = Some ol -> get st (vhi other a) = Some oh -> get st (vshape o a) = Some s ->
  exists l h b0, edge_np (N e a) ol = Some l /\ edge_np (N e a) oh = Some h /\ 0 < s <= N e a /\
    get st (vlo o a) = Some b0 /\ get st (vhi o a) = Some (b0 + s) /\
    first_argmin (fun k => Z.abs (anchor_of e k (k + s) qn - (anchor_of e l h pn + m + 2 * D e * g))) (N e a - s) b0.

Definition holds_size (e : env) (st : state) (o other : nat) (x : nat * nat * Z * Z * Z) : Prop :=
  let '(a, oa, prn, off, goff) := x in
  forall so ol oh, get st (vshape other oa) = Some so -> get st (vlo other oa) = Some ol -> get st (vhi other oa) = Some oh ->
  let target := 2 * axis_cells e oa ol oh * prn + off + 2 * D e * goff in
  0 <= target /\ exists sz, get st (vshape o a) = Some sz /\ nearest_spec e a target sz.

Definition holds (e : env) (st : state) (c : constr) : Prop :=
  match c with
  | CGrid o es => Forall (holds_grid st o) es
  | CReal o es => Forall (holds_real e st o) es
  | CPos o other es => Forall (holds_pos e st o other) es
  | CSize o other es => Forall (holds_size e st o other) es
  | CExt o (Some ot) a dir pn off goff =>
      forall ol oh, get st (vlo ot a) = Some ol -> get st (vhi ot a) = Some oh ->
      exists l h idx, edge_np (N e a) ol = Some l /\ edge_np (N e a) oh = Some h /\
        get st (vbound o dir a) = Some idx /\ nearest_spec e a (anchor_of e l h pn + off + 2 * D e * goff) idx
  | CExt o None a dir _ _ _ =>
      exists v, get st (vbound (vol e) dir a) = Some v /\ get st (vbound o dir a) = Some v
  end.

(* every bound and shape of object o is known and shape = upper - lower; a declared static shape is kept *)
Definition resolved_obj (e : env) (st : state) (o : nat) : Prop :=
  forall a, In a axes -> exists lo hi,
    get st (vlo o a) = Some lo /\ get st (vhi o a) = Some hi /\ get st (vshape o a) = Some (hi - lo).

(* non-empty interval inside the volume's interval on every axis *)
Definition inside_volume (e : env) (st : state) (o : nat) : Prop :=
  forall a, In a axes -> exists lo hi vlo_ vhi_,
    get st (vlo o a) = Some lo /\ get st (vhi o a) = Some hi /\
    get st (vlo (vol e) a) = Some vlo_ /\ get st (vhi (vol e) a) = Some vhi_ /\
    vlo_ <= lo /\ lo < hi /\ hi <= vhi_.

(* no constraint names (o, a) as its object/axis and no static shape is declared there *)
Definition mentions (c : constr) (o a : nat) : Prop :=
  match c with
  | CGrid o' es | CReal o' es => o' = o /\ exists s v, In (a, s, v) es
  | CPos o' _ es => o' = o /\ exists q p m g, In (a, q, p, m, g) es
  | CSize o' _ es => o' = o /\ exists oa p f g, In (a, oa, p, f, g) es
  | CExt o' _ a' _ _ _ _ => o' = o /\ a' = a
  end.
Definition unconstrained (e : env) (cs : list constr) (o a : nat) : Prop :=
  sshape e o a = SNone /\ forall c, In c cs -> ~ mentions c o a.
