(* HeapCheck.v — comparison of the model's result object graph with the implementation's (C40 cases). *)
From Coq Require Import ZArith List Bool.
From FV Require Import model.Heap.
Import ListNotations.
Open Scope Z_scope.

(* expectation on the identity of a container: the same object as the original at address a,
   a fresh object, or not tracked by the model *)
Inductive exp := XOld (a : addr) | XFresh | XAny.
Inductive etree :=
| ELeaf (v : Z)
| EClass (x : exp) (n : Z) (fs : list (Z * etree))
| EList (x : exp) (items : list etree)
| EDict (x : exp) (es : list (Z * etree)).

Definition exp_ok (n : nat) (x : exp) (a : addr) : bool :=
  match x with XOld b => Nat.eqb a b | XFresh => Nat.leb n a | XAny => true end.

Fixpoint tmatch (n : nat) (t : tree) (e : etree) {struct e} : bool :=
  let fix ml (ts : list tree) (es : list etree) {struct es} : bool :=
    match ts, es with
    | [], [] => true
    | t1 :: tr, e1 :: er => tmatch n t1 e1 && ml tr er
    | _, _ => false
    end in
  let fix mk (ts : list (Z * tree)) (es : list (Z * etree)) {struct es} : bool :=
    match ts, es with
    | [], [] => true
    | (k1, t1) :: tr, (k2, e1) :: er => Z.eqb k1 k2 && tmatch n t1 e1 && mk tr er
    | _, _ => false
    end in
  match t, e with
  | TLeaf _ v, ELeaf w => Z.eqb v w
  | TClass a c fs, EClass x c' es => exp_ok n x a && Z.eqb c c' && mk fs es
  | TList a items, EList x es => exp_ok n x a && ml items es
  | TDict a kvs, EDict x es => exp_ok n x a && mk kvs es
  | _, _ => false
  end.

(* model result vs implementation: error, or the unfolded new object graph matches the expectations, and the
   original root still unfolds to the original expectation (XOld everywhere) in the NEW store *)
Definition aset_agrees (s : store) (root : addr) (ops : list op) (v : addr) (create : bool)
                       (impl : option etree) (orig : etree) : bool :=
  match aset s root ops v create, impl with
  | Err, None => true
  | Ok (s', r'), Some e => tmatch (length s) (unfold (S (length s')) s' r') e
                           && tmatch (length s) (unfold (S (length s')) s' root) orig
  | _, _ => false
  end.
