(* GridCheck.v — comparison helpers for the C37 correspondence cases (model at QcOF vs implementation). *)
From Coq Require Import ZArith List Bool QArith Qcanon.
From FV Require Import base.Scalar base.GridBase base.Util model.Grid.
Import ListNotations.

Definition bres_eqb (a b : bres) : bool :=
  match a, b with
  | BOk l h, BOk l' h' => Z.eqb l l' && Z.eqb h h'
  | BErrSize, BErrSize => true
  | BErrFit, BErrFit => true
  | _, _ => false
  end.
Definition rres_eqb (a b : rres (list Qc * list Qc * list Qc)) : bool :=
  match a, b with
  | ROk (x, y, z), ROk (x', y', z') => qlist_eqb x x' && qlist_eqb y y' && qlist_eqb z z'
  | RErrOdd i, RErrOdd j => Nat.eqb i j
  | RErrAsym i, RErrAsym j => Nat.eqb i j
  | _, _ => false
  end.
Definition g_index := coord_to_index QcOF.
Definition g_center := bounds_for_center QcOF q_half.
Definition g_anchor := bounds_for_anchor QcOF q_half.
Definition g_extent := axis_extent QcOF.
Definition g_area := face_area QcOF.
Definition g_volume := cell_volume QcOF.
Definition g_is_uniform := is_uniform QcOF q_tolU.
Definition g_uniform_spacing := uniform_spacing QcOF q_tolU Qc_rnd14.
Definition g_min := min_spacing_axis QcOF.
Definition g_inv_metric := inv_metric QcOF.
Definition g_cfl := cfl_time_step QcOF q_tolU Qc_rnd14.
Definition g_reduce := reduce_symmetric QcOF q_tolU.
Definition g_uniform_edges := uniform_edges QcOF.
Definition g_dt_unresolved := dt_unresolved QcOF.
Definition g_centers := centers QcOF q_half.
Definition g_anchor_coordinate := anchor_coordinate QcOF q_half.
Definition optq_close (tol : Qc) (a b : option Qc) : bool :=
  match a, b with Some x, Some y => Qc_close tol x y | None, None => true | _, _ => false end.
