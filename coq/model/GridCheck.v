(* GridCheck.v — comparison helpers for the C37 correspondence cases (model at QcOF vs implementation). *)
From Coq Require Import ZArith List Bool QArith Qcanon.
From FV Require Import base.Scalar base.GridBase base.Util model.Grid.
Import ListNotations.

Definition bres_eqb (a b : bres) : bool :=
  match a, b with
  | BOk l h, BOk l' h' => Z.eqb l l' && Z.eqb h h'
  | BErrSize, BErrSize => true
  | BErrFit, BErrFit => true
  | _, _ => false
  end.
Definition rres_eqb (a b : rres (list Qc * list Qc * list Qc)) : bool :=
  match a, b with
  | ROk (x, y, z), ROk (x', y', z') => qlist_eqb x x' && qlist_eqb y y' && qlist_eqb z z'
  | RErrOdd i, RErrOdd j => Nat.eqb i j
  | RErrAsym i, RErrAsym j => Nat.eqb i j
  | _, _ => false
  end.
Definition g_index := coord_to_index QcOF.
Definition g_center := bounds_for_center QcOF q_half.
Definition g_anchor := bounds_for_anchor QcOF q_half.
Definition g_extent := axis_extent QcOF.
Definition g_area := face_area QcOF.
Definition g_volume := cell_volume QcOF.
Definition g_is_uniform := is_uniform QcOF q_tolU.
Definition g_uniform_spacing := uniform_spacing QcOF q_tolU Qc_rnd14.
Definition g_min := min_spacing_axis QcOF.
Definition g_inv_metric := inv_metric QcOF.
Definition g_cfl := cfl_time_step QcOF q_tolU Qc_rnd14.
Definition g_reduce := reduce_symmetric QcOF q_tolU.
Definition g_uniform_edges := uniform_edges QcOF.
Definition g_dt_unresolved := dt_unresolved QcOF.
Definition g_centers := centers QcOF q_half.
Definition g_anchor_coordinate := anchor_coordinate QcOF q_half.
(* |a - b| <= tol * |b| *)
Definition Qc_rel (tol a b : Qc) : bool := Qc_close_abs tol (Qc_abs b) a b.
Definition qlist_rel tol := list_eqb (Qc_rel tol).
Definition qlist2_rel tol := list_eqb (qlist_rel tol).
Definition qlist3_rel tol := list_eqb (qlist2_rel tol).
Definition optq_rel (tol : Qc) (a b : option Qc) : bool :=
  match a, b with Some x, Some y => Qc_rel tol x y | None, None => true | _, _ => false end.
Definition tol12 : Qc := q 1 1000000000000.

(* tolerant agreement for non-dyadic float inputs: the implementation's choice must be admissible and
   within tol*scale of the model's minimal distance (float rounding may break exact ties differently) *)
Definition near_ok (tol scale : Qc) (dist : nat -> Qc) (n : Z) (size : Z) (m i : bres) : bool :=
  match m, i with
  | BOk l _, BOk l' h' =>
      Z.eqb (h' - l') size && Z.leb 0 l' && Z.leb h' (n - 1)
      && Qcleb (dist (Z.to_nat l')) (dist (Z.to_nat l) + tol * scale)%Qc
  | BErrSize, BErrSize => true
  | BErrFit, BErrFit => true
  | _, _ => false
  end.
Definition g_center_ok tol scale (edges : list Qc) (c : Qc) (size : Z) (i : bres) : bool :=
  near_ok tol scale (fun l => Qc_abs (center_of QcOF q_half edges (Z.to_nat size) l - c)%Qc)
          (Z.of_nat (length edges)) size (g_center edges c size) i.
Definition g_anchor_ok tol scale (edges : list Qc) (size : Z) (a pos : Qc) (i : bres) : bool :=
  near_ok tol scale (fun l => Qc_abs (anchor_of QcOF q_half edges (Z.to_nat size) pos l - a)%Qc)
          (Z.of_nat (length edges)) size (g_anchor edges size a pos) i.
Definition g_nearest_ok tol scale (edges : list Qc) (c : Qc) (i : Z) : bool :=
  Z.leb 0 i && Z.ltb i (Z.of_nat (length edges))
  && Qcleb (Qc_abs (e_at QcOF edges (Z.to_nat i) - c)%Qc)
           (Qc_abs (e_at QcOF edges (Z.to_nat (g_index edges c Nearest)) - c) + tol * scale)%Qc.
