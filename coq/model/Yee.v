(* Yee.v — executable model of one FDTD time step (no proofs in this file).
   Source map:
     core/misc.py pad_fields + fdtd/update.py pad_fields_for_boundaries + bloch.py apply_pad_correction
                                            -> nxt / prv with ghost factors hi, lo
     core/physics/curl.py _metric_scale     -> sf / sb        curl_E, curl_H (+ CPML loop) -> curlE / curlH
     perfectly_matched_layer.py step_cpml   -> cpml_step
     fdtd/update.py update_E / update_H     -> update_E / update_H   (isotropic + diagonal branch, lossy factor)
     fdtd/update.py update_*_reverse        -> update_E_rev / update_H_rev
     pec.py / pmc.py apply_post_*_update    -> masks mE / mH (0/1 arrays)
     sources (tfsf.py, dipole.py update_E/H)-> additive injections injE / injH (oracle arrays per time step)
     fdtd/forward.py forward, backward.py backward -> forward / backward
   Fields are complex (pairs over the abstract field K); real runs have zero imaginary parts. *)
From Coq Require Import List Arith Bool.
From FV Require Import base.Scalar base.Cplx.
Import ListNotations.
Local Open Scope fld_scope.

Section Yee.
  Variable K : Fld.
  Notation C := (C K).

  Definition A3 := nat -> nat -> nat -> C.          (* one complex field component *)
  Definition R3 := nat -> nat -> nat -> car K.      (* one real array *)
  Record V3 := mkV { vx : A3; vy : A3; vz : A3 }.   (* E or H *)
  Record M3 := mkM { m1 : R3; m2 : R3; m3 : R3 }.   (* per-component real material arrays *)

  Definition vmap2 (g : C -> C -> C) (a b : V3) : V3 :=
    mkV (fun i j k => g (vx a i j k) (vx b i j k)) (fun i j k => g (vy a i j k) (vy b i j k)) (fun i j k => g (vz a i j k) (vz b i j k)).
  Definition vadd := vmap2 cadd.
  Definition vsub := vmap2 csub.
  Definition vzero : V3 := mkV (fun _ _ _ => c0) (fun _ _ _ => c0) (fun _ _ _ => c0).
  Definition vmask (m : M3) (a : V3) : V3 :=
    mkV (fun i j k => cscal (m1 m i j k) (vx a i j k)) (fun i j k => cscal (m2 m i j k) (vy a i j k)) (fun i j k => cscal (m3 m i j k) (vz a i j k)).

  (* ---- CPML layer description (perfectly_matched_layer.py) ---- *)
  Record pml := mkPml {
    p_axis : nat;                                   (* 0,1,2 *)
    p_min : bool;                                   (* direction '-' (layer on the min side of its axis) *)
    p_x0 : nat; p_x1 : nat; p_y0 : nat; p_y1 : nat; p_z0 : nat; p_z1 : nat;   (* grid_slice, half-open *)
    p_aE : nat -> car K; p_bE : nat -> car K; p_ikE : nat -> car K;   (* profiles along the axis, index relative to the slice start *)
    p_aH : nat -> car K; p_bH : nat -> car K; p_ikH : nat -> car K;
    p_kappa1 : bool                                  (* kappa_start == kappa_end == 1 *)
  }.
  Definition in_pml (p : pml) (i j k : nat) : bool :=
    (p_x0 p <=? i) && (i <? p_x1 p) && (p_y0 p <=? j) && (j <? p_y1 p) && (p_z0 p <=? k) && (k <? p_z1 p).
  Definition pml_depth (p : pml) (i j k : nat) : nat :=
    match p_axis p with O => (i - p_x0 p)%nat | S O => (j - p_y0 p)%nat | _ => (k - p_z0 p)%nat end.

  (* boundary.py interface_slice: the layer's row that touches the interior *)
  Definition in_iface (p : pml) (i j k : nat) : bool :=
    in_pml p i j k &&
    (match p_axis p with
     | O => if p_min p then S i =? p_x1 p else i =? p_x0 p
     | S O => if p_min p then S j =? p_y1 p else j =? p_y0 p
     | _ => if p_min p then S k =? p_z1 p else k =? p_z0 p
     end).

  Record scene := mkScene {
    nx : nat; ny : nat; nz : nat;
    hix : C; hiy : C; hiz : C;        (* right ghost cell = hi * f(0)      (0: zero halo, 1: periodic, phase: Bloch) *)
    lox : C; loy : C; loz : C;        (* left  ghost cell = lo * f(n-1) *)
    wx : nat -> car K; wy : nat -> car K; wz : nat -> car K;   (* cell widths; uniform grid: all 1 *)
    rf : car K;                        (* reference spacing c*dt/courant; uniform grid: 1 *)
    ieps : M3; imu : M3; sigE : M3; sigH : M3;
    eta0 : car K; cn : car K;          (* free-space impedance, Courant number *)
    mE : M3; mH : M3;                  (* PEC / PMC post-update masks (0/1) *)
    pmls : list pml;
    injE : nat -> V3; injH : nat -> V3 (* additive source terms at time step t (gated by the on/off switch) *)
  }.

  Section WithScene.
  Variable sc : scene.

  (* ---- ghost-cell reads along one axis ---- *)
  Definition nxt (n : nat) (hi : C) (f : nat -> C) (i : nat) : C :=
    if S i <? n then f (S i) else cmul hi (f O).
  Definition prv (n : nat) (lo : C) (f : nat -> C) (i : nat) : C :=
    match i with O => cmul lo (f (n - 1)%nat) | S j => f j end.

  (* ---- metric scales (_metric_scale) ---- *)
  Definition two : car K := 1 + 1.
  Definition dual (w : nat -> car K) (i : nat) : car K := (w i + w (Nat.pred i)) / two.   (* prev_widths = concat(w[:1], w[:-1]) *)
  Definition sf (w : nat -> car K) (i : nat) : car K := rf sc / w i.
  Definition sb (w : nat -> car K) (i : nat) : car K := rf sc / dual w i.

  (* forward differences (curl_E) and backward differences (curl_H), scaled *)
  Definition dpx (f : A3) : A3 := fun i j k => cscal (sf (wx sc) i) (csub (nxt (nx sc) (hix sc) (fun a => f a j k) i) (f i j k)).
  Definition dpy (f : A3) : A3 := fun i j k => cscal (sf (wy sc) j) (csub (nxt (ny sc) (hiy sc) (fun a => f i a k) j) (f i j k)).
  Definition dpz (f : A3) : A3 := fun i j k => cscal (sf (wz sc) k) (csub (nxt (nz sc) (hiz sc) (fun a => f i j a) k) (f i j k)).
  Definition dmx (f : A3) : A3 := fun i j k => cscal (sb (wx sc) i) (csub (f i j k) (prv (nx sc) (lox sc) (fun a => f a j k) i)).
  Definition dmy (f : A3) : A3 := fun i j k => cscal (sb (wy sc) j) (csub (f i j k) (prv (ny sc) (loy sc) (fun a => f i a k) j)).
  Definition dmz (f : A3) : A3 := fun i j k => cscal (sb (wz sc) k) (csub (f i j k) (prv (nz sc) (loz sc) (fun a => f i j a) k)).

  (* ---- CPML (step_cpml): returns the correction and the new psi for one derivative ---- *)
  Definition cpml_step (a b ik : car K) (kappa1 sim : bool) (d psi : C) : C * C :=
    let psi' := if sim then cadd (cscal b psi) (cscal a d) else psi in
    let corr := if kappa1 then psi' else cadd (cscal (ik - 1) d) psi' in
    (corr, psi').

  (* psi state of one layer: the two accumulators, stored as full-size arrays that are only read inside the slice *)
  Definition psi_t : Type := (A3 * A3)%type.

  (* correction contributed by layer p to the three curl components, and its new psi.
     d1 / d2 are the derivative arrays the source selects for the layer's axis. *)
  Definition pml_apply (isE : bool) (sim : bool) (p : pml) (d1 d2 : A3) (psi : psi_t) : (A3 * A3) * psi_t :=
    let coef i j k := let t := pml_depth p i j k in
                      if isE then (p_aH p t, p_bH p t, p_ikH p t) else (p_aE p t, p_bE p t, p_ikE p t) in
    let r1 i j k := let '(a, b, ik) := coef i j k in cpml_step a b ik (p_kappa1 p) sim (d1 i j k) (fst psi i j k) in
    let r2 i j k := let '(a, b, ik) := coef i j k in cpml_step a b ik (p_kappa1 p) sim (d2 i j k) (snd psi i j k) in
    let inb i j k := in_pml p i j k in
    ((fun i j k => if inb i j k then fst (r1 i j k) else c0, fun i j k => if inb i j k then fst (r2 i j k) else c0),
     (fun i j k => if inb i j k then snd (r1 i j k) else fst psi i j k, fun i j k => if inb i j k then snd (r2 i j k) else snd psi i j k)).

  (* add the correction of a layer with axis a to the curl: component (a+1)%3 gets -corr1, (a+2)%3 gets +corr2 *)
  Definition add_corr (a : nat) (c : V3) (k1 k2 : A3) : V3 :=
    match a with
    | O => mkV (vx c) (fun i j k => csub (vy c i j k) (k1 i j k)) (fun i j k => cadd (vz c i j k) (k2 i j k))
    | S O => mkV (fun i j k => cadd (vx c i j k) (k2 i j k)) (vy c) (fun i j k => csub (vz c i j k) (k1 i j k))
    | _ => mkV (fun i j k => csub (vx c i j k) (k1 i j k)) (fun i j k => cadd (vy c i j k) (k2 i j k)) (vz c)
    end.

  Fixpoint pml_loop (isE sim : bool) (ps : list pml) (psis : list psi_t)
           (dsel : nat -> A3 * A3) (c : V3) : V3 * list psi_t :=
    match ps, psis with
    | p :: ps', psi :: psis' =>
        let '(d1, d2) := dsel (p_axis p) in
        let '((k1, k2), psi') := pml_apply isE sim p d1 d2 psi in
        let '(c', rest) := pml_loop isE sim ps' psis' dsel (add_corr (p_axis p) c k1 k2) in
        (c', psi' :: rest)
    | _, _ => (c, psis)
    end.

  (* curl_E: E-type field -> H-type field *)
  Definition curlE_raw (E : V3) : V3 :=
    mkV (fun i j k => csub (dpy (vz E) i j k) (dpz (vy E) i j k))
        (fun i j k => csub (dpz (vx E) i j k) (dpx (vz E) i j k))
        (fun i j k => csub (dpx (vy E) i j k) (dpy (vx E) i j k)).
  Definition curlE (sim : bool) (E : V3) (psiH : list psi_t) : V3 * list psi_t :=
    pml_loop true sim (pmls sc) psiH
      (fun a => match a with O => (dpx (vz E), dpx (vy E)) | S O => (dpy (vx E), dpy (vz E)) | _ => (dpz (vy E), dpz (vx E)) end)
      (curlE_raw E).
  (* curl_H: H-type field -> E-type field *)
  Definition curlH_raw (H : V3) : V3 :=
    mkV (fun i j k => csub (dmy (vz H) i j k) (dmz (vy H) i j k))
        (fun i j k => csub (dmz (vx H) i j k) (dmx (vz H) i j k))
        (fun i j k => csub (dmx (vy H) i j k) (dmy (vx H) i j k)).
  Definition curlH (sim : bool) (H : V3) (psiE : list psi_t) : V3 * list psi_t :=
    pml_loop false sim (pmls sc) psiE
      (fun a => match a with O => (dmx (vz H), dmx (vy H)) | S O => (dmy (vx H), dmy (vz H)) | _ => (dmz (vy H), dmz (vx H)) end)
      (curlH_raw H).

  (* ---- loss factors (update_E / update_H) ---- *)
  Definition fE1 (ie s : R3) : R3 := fun i j k => cn sc * s i j k * eta0 sc * ie i j k / two.
  Definition fH1 (im s : R3) : R3 := fun i j k => cn sc * s i j k / eta0 sc * im i j k / two.

  (* E' = ((1 - f) E + c * curl * inv_eps) / (1 + f) *)
  Definition updE1 (ie f : R3) (e kc : A3) : A3 :=
    fun i j k => cdivr (cadd (cscal (1 - f i j k) (e i j k)) (cscal (cn sc * ie i j k) (kc i j k))) (1 + f i j k).
  (* H' = ((1 - f) H - c * curl * inv_mu) / (1 + f) *)
  Definition updH1 (im f : R3) (h kc : A3) : A3 :=
    fun i j k => cdivr (csub (cscal (1 - f i j k) (h i j k)) (cscal (cn sc * im i j k) (kc i j k))) (1 + f i j k).
  (* reverse: E = ((1 + f) E' - c * curl * inv_eps) / (1 - f) *)
  Definition revE1 (ie f : R3) (e kc : A3) : A3 :=
    fun i j k => cdivr (csub (cscal (1 + f i j k) (e i j k)) (cscal (cn sc * ie i j k) (kc i j k))) (1 - f i j k).
  Definition revH1 (im f : R3) (h kc : A3) : A3 :=
    fun i j k => cdivr (cadd (cscal (1 + f i j k) (h i j k)) (cscal (cn sc * im i j k) (kc i j k))) (1 - f i j k).

  Record state := mkSt { tstep : nat; fE : V3; fH : V3; psiE : list psi_t; psiH : list psi_t }.

  Definition update_E (sim : bool) (s : state) : state :=
    let '(kc, psi') := curlH sim (fH s) (psiE s) in
    let E := fE s in let ie := ieps sc in let sg := sigE sc in
    let E1 := mkV (updE1 (m1 ie) (fE1 (m1 ie) (m1 sg)) (vx E) (vx kc))
                  (updE1 (m2 ie) (fE1 (m2 ie) (m2 sg)) (vy E) (vy kc))
                  (updE1 (m3 ie) (fE1 (m3 ie) (m3 sg)) (vz E) (vz kc)) in
    mkSt (tstep s) (vmask (mE sc) (vadd E1 (injE sc (tstep s)))) (fH s) psi' (psiH s).

  Definition update_H (sim : bool) (s : state) : state :=
    let '(kc, psi') := curlE sim (fE s) (psiH s) in
    let H := fH s in let im := imu sc in let sg := sigH sc in
    let H1 := mkV (updH1 (m1 im) (fH1 (m1 im) (m1 sg)) (vx H) (vx kc))
                  (updH1 (m2 im) (fH1 (m2 im) (m2 sg)) (vy H) (vy kc))
                  (updH1 (m3 im) (fH1 (m3 im) (m3 sg)) (vz H) (vz kc)) in
    mkSt (tstep s) (fE s) (vmask (mH sc) (vadd H1 (injH sc (tstep s)))) (psiE s) psi'.

  (* forward.py: forward (field part) *)
  Definition forward (s : state) : state :=
    let s2 := update_H true (update_E true s) in
    mkSt (S (tstep s)) (fE s2) (fH s2) (psiE s2) (psiH s2).

  (* update_H_reverse / update_E_reverse at time step t (sources removed first, psi not advanced) *)
  Definition update_H_rev (t : nat) (s : state) : state :=
    let H := vsub (fH s) (injH sc t) in
    let '(kc, _) := curlE false (fE s) (psiH s) in
    let im := imu sc in let sg := sigH sc in
    let H0 := mkV (revH1 (m1 im) (fH1 (m1 im) (m1 sg)) (vx H) (vx kc))
                  (revH1 (m2 im) (fH1 (m2 im) (m2 sg)) (vy H) (vy kc))
                  (revH1 (m3 im) (fH1 (m3 im) (m3 sg)) (vz H) (vz kc)) in
    mkSt (tstep s) (fE s) (vmask (mH sc) H0) (psiE s) (psiH s).
  Definition update_E_rev (t : nat) (s : state) : state :=
    let E := vsub (fE s) (injE sc t) in
    let '(kc, _) := curlH false (fH s) (psiE s) in
    let ie := ieps sc in let sg := sigE sc in
    let E0 := mkV (revE1 (m1 ie) (fE1 (m1 ie) (m1 sg)) (vx E) (vx kc))
                  (revE1 (m2 ie) (fE1 (m2 ie) (m2 sg)) (vy E) (vy kc))
                  (revE1 (m3 ie) (fE1 (m3 ie) (m3 sg)) (vz E) (vz kc)) in
    mkSt (tstep s) (vmask (mE sc) E0) (fH s) (psiE s) (psiH s).

  (* backward.py: backward without interface restoration / field reset (PML-free use) *)
  Definition backward (s : state) : state :=
    let t := Nat.pred (tstep s) in
    let s2 := update_E_rev t (update_H_rev t s) in
    mkSt t (fE s2) (fH s2) (psiE s2) (psiH s2).

  (* ---- recording / restoring absorbing-layer interfaces (fdtd/misc.py collect/add_boundary_interfaces,
          update.py collect_interfaces / add_interfaces with a lossless recorder) and apply_field_reset ---- *)
  Definition is_iface (i j k : nat) : bool := existsb (fun p => in_iface p i j k) (pmls sc).
  Definition in_any_pml (i j k : nat) : bool := existsb (fun p => in_pml p i j k) (pmls sc).
  Definition restoreA (r f : A3) : A3 := fun i j k => if is_iface i j k then r i j k else f i j k.
  Definition restoreV (r f : V3) : V3 := mkV (restoreA (vx r) (vx f)) (restoreA (vy r) (vy f)) (restoreA (vz r) (vz f)).
  Definition resetA (f : A3) : A3 := fun i j k => if in_any_pml i j k then c0 else f i j k.
  Definition resetV (f : V3) : V3 := mkV (resetA (vx f)) (resetA (vy f)) (resetA (vz f)).

  (* backward.py: backward with add_interfaces (values recorded at step index t = fields of the forward
     state t+1 on the interface slices) and reset_fields=True *)
  Definition backward_rec (rec : nat -> V3 * V3) (s : state) : state :=
    let t := Nat.pred (tstep s) in
    let s1 := mkSt (tstep s) (restoreV (fst (rec t)) (fE s)) (restoreV (snd (rec t)) (fH s)) (psiE s) (psiH s) in
    let s2 := update_E_rev t (update_H_rev t s1) in
    mkSt t (resetV (fE s2)) (resetV (fH s2)) (psiE s2) (psiH s2).

  (* ---- Yee energy over two successive states: sum wE eps |E|^2 + sum wH mu Re(H_cur conj H_prev) ---- *)
  Definition wE1 (i j k : nat) : car K := wx sc i * dual (wy sc) j * dual (wz sc) k.
  Definition wE2 (i j k : nat) : car K := dual (wx sc) i * wy sc j * dual (wz sc) k.
  Definition wE3 (i j k : nat) : car K := dual (wx sc) i * dual (wy sc) j * wz sc k.
  Definition wH1 (i j k : nat) : car K := dual (wx sc) i * wy sc j * wz sc k.
  Definition wH2 (i j k : nat) : car K := wx sc i * dual (wy sc) j * wz sc k.
  Definition wH3 (i j k : nat) : car K := wx sc i * wy sc j * dual (wz sc) k.
  End WithScene.
End Yee.

Arguments mkV {K}. Arguments mkM {K}. Arguments vx {K}. Arguments vy {K}. Arguments vz {K}.
Arguments m1 {K}. Arguments m2 {K}. Arguments m3 {K}.
Arguments mkSt {K}. Arguments tstep {K}. Arguments fE {K}. Arguments fH {K}. Arguments psiE {K}. Arguments psiH {K}.
