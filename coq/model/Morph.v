(* Morph.v — executable model of src/fdtdx/objects/device/parameters/binary_transform.py
   (flood fills, remove_floating_polymer, connect_slice, connect_holes_and_structures).
   Definitions only.  Arrays are nested bool lists (base/MorphBase.v), zero outside their extent,
   which is exactly the zero fill of convolve2d(mode="same", boundary="fill").
   [*_src_old] = the code before fixes/C23.patch;  the other definitions = the repaired code. *)
From Coq Require Import List Arith Bool.
From FV Require Import base.Util base.MorphBase.
Import ListNotations.

(* dilate with the n4 kernel [[0,1,0],[1,1,1],[0,1,0]] in the plane of the two arguments *)
Definition dil4 (f : nat -> nat -> bool) (i j : nat) : bool :=
  f i j || pm (fun a => f a j) i || f (S i) j || pm (fun b => f i b) j || f i (S j).
(* the four direction kernels of connect_slice, OR-ed: n4 neighbours without the centre *)
Definition nb4 (f : nat -> nat -> bool) (i j : nat) : bool :=
  pm (fun a => f a j) i || f (S i) j || pm (fun b => f i b) j || f i (S j).
(* n8 kernel (all ones) *)
Definition dil8 (f : nat -> nat -> bool) (i j : nat) : bool :=
  let row a := f a j || pm (fun b => f a b) j || f a (S j) in
  row i || pm row i || row (S i).

(* ------------------------------------------------------------------ 3-D sweep *)
Section Shape3.
  Variables nx ny nz : nat.

  (* seperated_3d_dilation: xy-plane, then xz-plane, then yz-plane, each masked by reduction_arr *)
  Definition step_xy (m t : arr3) : arr3 := mk3 nx ny nz (fun i j k => dil4 (fun a b => get3 t a b k) i j && get3 m i j k).
  Definition step_xz (m t : arr3) : arr3 := mk3 nx ny nz (fun i j k => dil4 (fun a c => get3 t a j c) i k && get3 m i j k).
  Definition step_yz (m t : arr3) : arr3 := mk3 nx ny nz (fun i j k => dil4 (fun b c => get3 t i b c) j k && get3 m i j k).
  Definition sweep (m t : arr3) : arr3 := step_yz m (step_xz m (step_xy m t)).

  Definition ncells : nat := nx * ny * nz.
  (* connected.at[..., 0].set(True) *)
  Definition bottom : arr3 := mk3 nx ny nz (fun _ _ k => k =? 0).
  (* compute_air_connection seeds: top layer and the four side faces *)
  Definition sides : arr3 :=
    mk3 nx ny nz (fun i j k => (S k =? nz) || (i =? 0) || (S i =? nx) || (j =? 0) || (S j =? ny)).
  Definition inv3 (m : arr3) : arr3 := mk3 nx ny nz (fun i j k => negb (get3 m i j k)).
  Definition and3 (a b : arr3) : arr3 := mk3 nx ny nz (fun i j k => get3 a i j k && get3 b i j k).

  (* _iterate_until_stable(sweep) — repaired code; fuel = #cells + 2 (None = would not terminate) *)
  Definition flood (m c0 : arr3) : option arr3 := iterate_until_stable arr3_eqb (ncells + 2) (sweep m) c0.

  (* compute_polymer_connection(matrix) with connected_slice=None — repaired *)
  Definition polymer_connection (m : arr3) : option arr3 := flood m bottom.
  (* compute_air_connection — repaired *)
  Definition air_connection (m : arr3) : option arr3 := flood (inv3 m) (and3 sides (inv3 m)).

  (* remove_floating_polymer:  matrix & ~(~connected & matrix) *)
  Definition remove_with (m conn : arr3) : arr3 :=
    mk3 nx ny nz (fun i j k => get3 m i j k && negb (negb (get3 conn i j k) && get3 m i j k)).
  Definition remove_floating (m : arr3) : option arr3 :=
    match polymer_connection m with Some c => Some (remove_with m c) | None => None end.
End Shape3.

(* ------------------------------------------------------------------ code before the fix *)
(* jax.scipy.signal.convolve2d raises ValueError unless one operand is <= the other in every dimension *)
Definition conv_ok (a b : nat) : bool := negb ((Nat.min a b <? 3) && (3 <? Nat.max a b)).
Definition shape_ok (nx ny nz : nat) : bool := conv_ok nx ny && conv_ok nx nz && conv_ok ny nz.
Definition max3 (a b c : nat) : nat := Nat.max a (Nat.max b c).

(* compute_polymer_connection before the fix: n = max(shape) sweeps; a 1-layer design is zero-padded
   to 3 layers (the seed layer is then the padding).  None = ValueError *)
Definition polymer_connection_src_old (nx ny nz : nat) (m : arr3) : option arr3 :=
  let n := max3 nx ny nz in
  if nz =? 1 then
    let m' := mk3 nx ny 3 (fun i j k => (k =? 1) && get3 m i j 0) in
    if shape_ok nx ny 3
    then let c := Nat.iter n (sweep nx ny 3 m') (bottom nx ny 3) in Some (mk3 nx ny 1 (fun i j _ => get3 c i j 1))
    else None
  else if shape_ok nx ny nz then Some (Nat.iter n (sweep nx ny nz m) (bottom nx ny nz)) else None.
Definition remove_floating_src_old (nx ny nz : nat) (m : arr3) : option arr3 :=
  match polymer_connection_src_old nx ny nz m with Some c => Some (remove_with nx ny nz m c) | None => None end.
Definition air_connection_src_old (nx ny nz : nat) (m : arr3) : option arr3 :=
  if shape_ok nx ny nz
  then Some (Nat.iter (max3 nx ny nz) (sweep nx ny nz (inv3 nx ny nz m)) (and3 nx ny nz (sides nx ny nz) (inv3 nx ny nz m)))
  else None.

(* ------------------------------------------------------------------ connect_slice (repaired code) *)
Section Shape2.
  Variables nx ny : nat.
  Definition or2 (a b : arr2) : arr2 := mk2 nx ny (fun i j => get2 a i j || get2 b i j).
  Definition and2 (a b : arr2) : arr2 := mk2 nx ny (fun i j => get2 a i j && get2 b i j).
  Definition andn2 (a b : arr2) : arr2 := mk2 nx ny (fun i j => get2 a i j && negb (get2 b i j)).
  Definition not2 (a : arr2) : arr2 := mk2 nx ny (fun i j => negb (get2 a i j)).
  Definition ones2 : arr2 := mk2 nx ny (fun _ _ => true).
  Definition dilate4 (a : arr2) : arr2 := mk2 nx ny (dil4 (get2 a)).
  Definition dilate8 (a : arr2) : arr2 := mk2 nx ny (dil8 (get2 a)).
  Definition shifts4 (a : arr2) : arr2 := mk2 nx ny (nb4 (get2 a)).
  (* _spread_in_upper: p -> dilate(p, n4) & upper until stable *)
  Definition spread (upper p : arr2) : option arr2 :=
    iterate_until_stable arr2_eqb (nx * ny + 2) (fun p => and2 (dilate4 p) upper) p.

  Definition connect_slice (lower middle upper save : arr2) : option (arr2 * arr2) :=
    let cp0 := or2 (and2 upper middle) save in
    match spread upper cp0 with None => None | Some cp1 =>
    (* non_connected = ~(upper_air | connected) with upper_air = ~upper (of the ORIGINAL upper slice) *)
    let nc1 := andn2 upper cp1 in
    let region_lower := or2 (dilate4 middle) lower in
    let by_lower := and2 nc1 region_lower in
    let middle' := or2 middle by_lower in
    match spread upper (or2 cp1 by_lower) with None => None | Some cp2 =>
    let nc2 := andn2 upper cp2 in
    let region_upper := dilate8 cp2 in
    let by_upper := and2 nc2 region_upper in
    let valid := and2 region_upper (shifts4 by_upper) in
    let upper' := or2 upper valid in
    match spread upper' cp2 with None => None | Some cp3 =>
    let nc3 := andn2 upper cp3 in
    Some (middle', andn2 upper' nc3)
    end end end.
End Shape2.

(* ------------------------------------------------------------------ connect_holes_and_structures (repaired) *)
Section Connect.
  Variables nx ny nz : nat.
  Definition layer (m : arr3) (k : nat) : arr2 := mk2 nx ny (fun i j => get3 m i j k).
  (* matrix.at[..., k].set(s); an out-of-range k is dropped (JAX scatter semantics) *)
  Definition set_layer (m : arr3) (k : nat) (s : arr2) : arr3 :=
    mk3 nx ny nz (fun i j c => if c =? k then get2 s i j else get3 m i j c).
  (* static out-of-range reads clamp to the last layer (JAX gather semantics) *)
  Definition clampz (k : nat) : nat := Nat.min k (nz - 1).

  (* body of "for i in range(nz - 1)" *)
  Definition polymer_pass_step (m : arr3) (i : nat) : option arr3 :=
    match polymer_connection nx ny nz m with None => None | Some conn =>
    let lower := match i with 0 => ones2 nx ny | S p => layer m p end in
    match connect_slice nx ny lower (layer m i) (layer m (S i)) (layer conn (S i)) with None => None
    | Some (nm, nu) => Some (set_layer (set_layer m i nm) (S i) nu) end end.

  (* body of "for i in range(nz, 0, -1)" *)
  Definition air_pass_step (m : arr3) (i : nat) : option arr3 :=
    match air_connection nx ny nz m with None => None | Some conn =>
    let lower := if i =? nz then ones2 nx ny else not2 nx ny (layer m (clampz (S i))) in
    match connect_slice nx ny lower (not2 nx ny (layer m (clampz i))) (not2 nx ny (layer m (i - 1))) (layer conn (i - 1)) with
    | None => None
    | Some (nm, nu) => Some (set_layer (set_layer m i (not2 nx ny nm)) (i - 1) (not2 nx ny nu)) end end.

  Fixpoint fold_opt (step : arr3 -> nat -> option arr3) (m : arr3) (l : list nat) : option arr3 :=
    match l with [] => Some m | i :: r => match step m i with None => None | Some m' => fold_opt step m' r end end.

  Definition connect_holes (m : arr3) : option arr3 :=
    match fold_opt polymer_pass_step (mk3 nx ny nz (get3 m)) (seq 0 (nz - 1)) with None => None | Some m1 =>
    match fold_opt air_pass_step m1 (rev (seq 1 nz)) with None => None | Some m2 =>
    remove_floating nx ny nz m2 end end.
End Connect.

(* ------------------------------------------------------------------ helpers for statements / bounded check *)
Definition cell : Type := (nat * nat * nat)%type.
Definition g (t : arr3) (x : cell) : bool := let '(i, j, k) := x in get3 t i j k.
Definition cells3 (nx ny nz : nat) : list cell :=
  flat_map (fun i => flat_map (fun j => map (fun k => (i, j, k)) (seq 0 nz)) (seq 0 ny)) (seq 0 nx).
(* design from a flat list (C order) *)
Definition of_flat (nx ny nz : nat) (l : list bool) : arr3 := mk3 nx ny nz (fun i j k => nth ((i * ny + j) * nz + k) l false).
Fixpoint all_blists (n : nat) : list (list bool) :=
  match n with 0 => [[]] | S n' => flat_map (fun l => [false :: l; true :: l]) (all_blists n') end.
(* every material cell is polymer-connected and every air cell is air-connected *)
Definition feasible_b (nx ny nz : nat) (r : arr3) : bool :=
  match polymer_connection nx ny nz r, air_connection nx ny nz r with
  | Some pc, Some ac => forallb (fun x => if g r x then g pc x else g ac x) (cells3 nx ny nz)
  | _, _ => false
  end.
Definition connect_feasible_b (nx ny nz : nat) (l : list bool) : bool :=
  match connect_holes nx ny nz (of_flat nx ny nz l) with Some r => feasible_b nx ny nz r | None => false end.

(* ------------------------------------------------------------------ specification vocabulary (Prop level) *)
Definition inbox (nx ny nz : nat) (x : cell) : Prop := let '(i, j, k) := x in i < nx /\ j < ny /\ k < nz.
(* face adjacency *)
Definition adj (x y : cell) : Prop :=
  let '(i, j, k) := x in let '(a, b, c) := y in
  (j = b /\ k = c /\ (a = S i \/ i = S a)) \/ (i = a /\ k = c /\ (b = S j \/ j = S b)) \/ (i = a /\ j = b /\ (c = S k \/ k = S c)).
(* cells of [m] connected to a seed cell of [m] through face-adjacent cells of [m] *)
Inductive reach (m seed : cell -> bool) : cell -> Prop :=
| reach_seed x : seed x = true -> m x = true -> reach m seed x
| reach_step x y : reach m seed x -> adj x y -> m y = true -> reach m seed y.
Definition is_bottom (x : cell) : bool := let '(_, _, k) := x in k =? 0.
Definition is_side (nx ny nz : nat) (x : cell) : bool :=
  let '(i, j, k) := x in (S k =? nz) || (i =? 0) || (S i =? nx) || (j =? 0) || (S j =? ny).
(* the design has extent nx x ny x nz *)
Definition wf3 (nx ny nz : nat) (t : arr3) : Prop := t = mk3 nx ny nz (get3 t).
Definition wf2 (nx ny : nat) (t : arr2) : Prop := t = mk2 nx ny (get2 t).
(* background (air) cells of a design *)
Definition air (nx ny nz : nat) (m : arr3) (x : cell) : bool := g (inv3 nx ny nz m) x.
