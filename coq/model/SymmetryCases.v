(* SymmetryCases.v — boolean comparison helpers for the C32 correspondence case files (no proofs). *)
From Coq Require Import ZArith List Bool QArith Qcanon.
From FV Require Import base.Scalar base.Util model.Symmetry.
Import ListNotations.

Definition a3_eqb (a b : arr QcF 3) : bool := qlist3_eqb a b.
Definition a2_eqb (a b : arr QcF 2) : bool := qlist2_eqb a b.
Definition fields_eqb (a b : list (arr QcF 3)) : bool := list_eqb a3_eqb a b.
Definition dstate_eqb (a b : dstate QcF) : bool :=
  match a, b with
  | SSpatial _ x, SSpatial _ y => list_eqb (list_eqb a3_eqb) x y
  | SReduced _ x, SReduced _ y => qlist2_eqb x y
  | SSlices _ a1 a2 a3, SSlices _ b1 b2 b3 => list_eqb a2_eqb a1 b1 && list_eqb a2_eqb a2 b2 && list_eqb a2_eqb a3 b3
  | _, _ => false
  end.
Definition spec_eqb (a b : list (ftype * Z)) : bool :=
  list_eqb (fun x y => ftype_eqb (fst x) (fst y) && Z.eqb (snd x) (snd y)) a b.
Definition tbl {X} (d : X) (l : list X) (a : nat) : X := nth a l d.
Definition z (n : Z) : Qc := q n 1.
