(* YeeExec.v — list-based construction / tabulation so that model/Yee.v can be executed by
   vm_compute on literals (at K = QcF) and compared with implementation outputs.  No proofs. *)
From Coq Require Import List Arith Bool QArith Qcanon.
From FV Require Import base.Scalar base.Cplx base.Sums base.Util model.Yee.
Import ListNotations.

Section Exec.
  Variable K : Fld.
  Notation C := (C K).
  Definition L3 (X : Type) := list (list (list X)).

  Definition tab3 {X} (nx ny nz : nat) (f : nat -> nat -> nat -> X) : L3 X :=
    map (fun i => map (fun j => map (fun k => f i j k) (seq 0 nz)) (seq 0 ny)) (seq 0 nx).
  Definition get3 {X} (d : X) (a : L3 X) (i j k : nat) : X := nth k (nth j (nth i a []) []) d.
  (* tabulate, then read back with an explicit bound check: the executable view of an array *)
  Definition freeze {X} (d : X) (nx ny nz : nat) (f : nat -> nat -> nat -> X) : nat -> nat -> nat -> X :=
    let t := tab3 nx ny nz f in
    fun i j k => if (i <? nx) && (j <? ny) && (k <? nz) then get3 d t i j k else d.
  Definition of3 {X} (d : X) (nx ny nz : nat) (a : L3 X) : nat -> nat -> nat -> X :=
    fun i j k => if (i <? nx) && (j <? ny) && (k <? nz) then get3 d a i j k else d.
  Definition of1 {X} (d : X) (l : list X) : nat -> X := fun i => nth i l d.

  Definition freezeV (nx ny nz : nat) (v : V3 K) : V3 K :=
    mkV (freeze c0 nx ny nz (vx v)) (freeze c0 nx ny nz (vy v)) (freeze c0 nx ny nz (vz v)).
  Definition freezeP (nx ny nz : nat) (p : psi_t K) : psi_t K :=
    (freeze c0 nx ny nz (fst p), freeze c0 nx ny nz (snd p)).
  Definition freezeS (sc : scene K) (s : state K) : state K :=
    let f := freezeV (nx K sc) (ny K sc) (nz K sc) in
    let g := freezeP (nx K sc) (ny K sc) (nz K sc) in
    mkSt (tstep s) (f (fE s)) (f (fH s)) (map g (psiE s)) (map g (psiH s)).

  (* executed step = freeze after the functional step *)
  Definition forwardX (sc : scene K) (s : state K) : state K := freezeS sc (forward K sc s).
  Definition backwardX (sc : scene K) (s : state K) : state K := freezeS sc (backward K sc s).
  Definition backward_recX (sc : scene K) (rec : nat -> V3 K * V3 K) (s : state K) : state K := freezeS sc (backward_rec K sc rec s).
  Fixpoint iterate {X} (n : nat) (g : X -> X) (s : X) : X := match n with O => s | S m => iterate m g (g s) end.
  (* trajectory s0, s1, ..., sn *)
  Fixpoint traj {X} (n : nat) (g : X -> X) (s : X) : list X := s :: match n with O => [] | S m => traj m g (g s) end.

  Definition V3_of (nx ny nz : nat) (a b c : L3 C) : V3 K := mkV (of3 c0 nx ny nz a) (of3 c0 nx ny nz b) (of3 c0 nx ny nz c).
  Definition M3_of (nx ny nz : nat) (d : car K) (a b c : L3 (car K)) : M3 K := mkM (of3 d nx ny nz a) (of3 d nx ny nz b) (of3 d nx ny nz c).
  Definition V3_tab (nx ny nz : nat) (v : V3 K) : list (L3 C) := [tab3 nx ny nz (vx v); tab3 nx ny nz (vy v); tab3 nx ny nz (vz v)].

  (* Yee energy of two successive states (prev, cur):
     sum wE/ieps * |E_cur|^2 + sum wH/imu * Re(H_cur conj H_prev) *)
  Definition energy2 (sc : scene K) (Hprev : V3 K) (cur : state K) : car K :=
    let s3 := sum3 (nx K sc) (ny K sc) (nz K sc) in
    let E := fE cur in let H := fH cur in
    (s3 (fun i j k => fmul K (fdiv K (wE1 K sc i j k) (m1 (ieps K sc) i j k)) (cdot (vx E i j k) (vx E i j k)))
     + s3 (fun i j k => fmul K (fdiv K (wE2 K sc i j k) (m2 (ieps K sc) i j k)) (cdot (vy E i j k) (vy E i j k)))
     + s3 (fun i j k => fmul K (fdiv K (wE3 K sc i j k) (m3 (ieps K sc) i j k)) (cdot (vz E i j k) (vz E i j k)))
     + s3 (fun i j k => fmul K (fdiv K (wH1 K sc i j k) (m1 (imu K sc) i j k)) (cdot (vx H i j k) (vx Hprev i j k)))
     + s3 (fun i j k => fmul K (fdiv K (wH2 K sc i j k) (m2 (imu K sc) i j k)) (cdot (vy H i j k) (vy Hprev i j k)))
     + s3 (fun i j k => fmul K (fdiv K (wH3 K sc i j k) (m3 (imu K sc) i j k)) (cdot (vz H i j k) (vz Hprev i j k))))%F.
End Exec.

(* ---- Qc instance helpers for the case files ---- *)
Definition Cq := (Qc * Qc)%type.
Definition cq_eqb (a b : Cq) : bool := Qc_eqb (fst a) (fst b) && Qc_eqb (snd a) (snd b).
Definition cq_close (tol sc : Qc) (a b : Cq) : bool := Qc_close_abs tol sc (fst a) (fst b) && Qc_close_abs tol sc (snd a) (snd b).
Definition l3_eqb {X} (e : X -> X -> bool) := list_eqb (list_eqb (list_eqb e)).
Definition fields_eqb (a b : list (L3 Cq)) : bool := list_eqb (l3_eqb cq_eqb) a b.
Definition fields_close (tol sc : Qc) (a b : list (L3 Cq)) : bool := list_eqb (l3_eqb (cq_close tol sc)) a b.
Definition rl (x : Qc) : Cq := (x, 0%Qc).
