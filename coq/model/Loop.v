(* Loop.v — executable model of the time-loop drivers of fdtd/fdtd.py and wrapper.py:
   eqxi.while_loop (bounded), segmented_forward, reversible/checkpointed dispatch of run_fdtd,
   custom_fdtd_forward.  Generic in the state type and the single-step function.  No proofs. *)
From Coq Require Import ZArith List Bool.
From FV Require Import base.PyNum.
Import ListNotations.
Open Scope Z_scope.

(* fdtd.py: _reversible_slice_boundaries *)
Definition slice_boundaries (T k : Z) : list Z := map (fun i => py_round_div (i * T) k) (zrange (k + 1)).

Section Loop.
  Variable S : Type.
  Variable fwd : S -> S.            (* forward(...) on (time_step, arrays) *)
  Variable step_of : S -> Z.        (* state[0] *)

  (* eqxi.while_loop(max_steps, cond_fun, body_fun, init_val, kind="lax") *)
  Fixpoint while_loop (fuel : nat) (cond : S -> bool) (body : S -> S) (s : S) : S :=
    match fuel with
    | O => s
    | Datatypes.S f => if cond s then while_loop f cond body (body s) else s
    end.

  (* one segment of segmented_forward: max_steps = hi - lo, cond = hi > s[0] *)
  Definition segment (lo hi : Z) (s : S) : S :=
    while_loop (Z.to_nat (hi - lo)) (fun s => hi >? step_of s) fwd s.

  (* segmented_forward: run consecutive segments, capture the state at every interior boundary *)
  Fixpoint segmented (bs : list Z) (s : S) : S * list S :=
    match bs with
    | lo :: ((hi :: rest) as tl) =>
        let s' := segment lo hi s in
        match rest with
        | [] => (s', [])
        | _ => let '(sf, cks) := segmented tl s' in (sf, s' :: cks)
        end
    | _ => (s, [])
    end.

  Inductive grad_cfg := NoGrad | Checkpointed (n : Z) | Reversible (nckpt : Z).
  Inductive result := Ok (s : S) | ErrTooManyCheckpoints.

  (* checkpointed_fdtd without a stopping condition (TimeStepCondition: t < T) *)
  Definition plain_run (T : Z) (s0 : S) : S :=
    while_loop (Z.to_nat T) (fun s => step_of s <? T) fwd s0.

  (* run_fdtd dispatch; s0 is the container after reset (step 0) *)
  Definition run_fdtd (g : grad_cfg) (T : Z) (s0 : S) : result :=
    match g with
    | NoGrad | Checkpointed _ => Ok (plain_run T s0)
    | Reversible nck =>
        let k := nck + 1 in
        if (0 <? nck) && (T <? k) then ErrTooManyCheckpoints
        else Ok (fst (segmented (slice_boundaries T k) s0))
    end.

  (* custom_fdtd_forward(start_time, end_time): max_steps = time_steps_total, cond = end > s[0] *)
  Definition run_between (Ttotal : Z) (end_time : Z) (s : S) : S :=
    while_loop (Z.to_nat Ttotal) (fun s => end_time >? step_of s) fwd s.

  (* run with a stopping condition: cond s = true means continue *)
  Definition run_until (Ttotal : Z) (cond : S -> bool) (s0 : S) : S :=
    while_loop (Z.to_nat Ttotal) cond fwd s0.
End Loop.
Arguments Ok {S}. Arguments ErrTooManyCheckpoints {S}.
