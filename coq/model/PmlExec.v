(* PmlExec.v — Qc execution of model/Pml.v with oracle tables for power and exp.  No proofs. *)
From Coq Require Import List Arith Bool QArith Qcanon.
From FV Require Import base.Scalar base.Util model.Pml.
Import ListNotations.
Definition tbl_fun (t : list (Qc * Qc)) (x : Qc) : Qc :=
  match find (fun p => Qc_eqb (fst p) x) t with Some p => snd p | None => Q2Qc (-987654321 # 1) end.
Definition mk_params (s0 s1 k0 k1 a0 a1 dte : Qc) : pml_params QcF := Build_pml_params QcF s0 s1 k0 k1 a0 a1 dte.
Definition layer_arrays (pw pw2 pw3 ex : list (Qc * Qc)) (p : pml_params QcF) (minus : bool) (L : nat) : list (list Qc) :=
  let f g := map (fun i => g i) (seq 0 L) in
  [ f (aE QcF (tbl_fun pw) (tbl_fun ex) (tbl_fun pw2) (tbl_fun pw3) p minus L);
    f (bE QcF (tbl_fun pw) (tbl_fun ex) (tbl_fun pw2) (tbl_fun pw3) p minus L);
    f (aH QcF (tbl_fun pw) (tbl_fun ex) (tbl_fun pw2) (tbl_fun pw3) p minus L);
    f (bH QcF (tbl_fun pw) (tbl_fun ex) (tbl_fun pw2) (tbl_fun pw3) p minus L) ].
