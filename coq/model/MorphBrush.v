(* MorphBrush.v — executable model of BrushConstraint2D._generator (parameters/discretization.py):
   the touch / pixel bookkeeping loop of the brush-based minimum-feature-size constraint.
   Definitions only.  Design values are integers (only comparisons matter); -inf is None. *)
From Coq Require Import List ZArith Arith Bool.
From FV Require Import base.Util base.MorphBase.
Import ListNotations.

Section Brush.
  Variables nx ny : nat.
  Variable bs : nat.              (* brush array is bs x bs *)
  Variable brush : arr2.
  Definition bc : nat := (bs - 1) / 2.   (* centre used by convolve2d(mode="same") *)

  (* brush[c + i - p][c + j - q] with zero outside the kernel *)
  Definition bget (i j p q : nat) : bool :=
    if (p <=? bc + i) && (q <=? bc + j) then get2 brush (bc + i - p) (bc + j - q) else false.
  Definition cells2 : list (nat * nat) := flat_map (fun i => map (fun j => (i, j)) (seq 0 ny)) (seq 0 nx).
  (* dilate_jax(img, brush): out[i,j] = OR_{p,q} brush[c+i-p][c+j-q] & img[p,q] *)
  Definition dil (img : arr2) : arr2 :=
    mk2 nx ny (fun i j => existsb (fun pq => bget i j (fst pq) (snd pq) && get2 img (fst pq) (snd pq)) cells2).
  Definition bor (a b : arr2) : arr2 := mk2 nx ny (fun i j => get2 a i j || get2 b i j).
  Definition band (a b : arr2) : arr2 := mk2 nx ny (fun i j => get2 a i j && get2 b i j).
  Definition bnot (a : arr2) : arr2 := mk2 nx ny (fun i j => negb (get2 a i j)).
  Definition any2 (a : arr2) : bool := existsb (fun pq => get2 a (fst pq) (snd pq)) cells2.
  Definition all2 (a : arr2) : bool := forallb (fun pq => get2 a (fst pq) (snd pq)) cells2.
  Definition set2 (a : arr2) (x : nat * nat) : arr2 :=
    mk2 nx ny (fun i j => ((i =? fst x) && (j =? snd x)) || get2 a i j).

  (* jnp.max / jnp.argmax of where(mask, val, -inf) over the flattened array: first maximum; None = -inf *)
  Definition best (mask : arr2) (val : nat -> nat -> Z) : option (Z * (nat * nat)) :=
    fold_left (fun acc pq =>
      if get2 mask (fst pq) (snd pq) then
        match acc with
        | None => Some (val (fst pq) (snd pq), pq)
        | Some (bv, bp) => if (bv <? val (fst pq) (snd pq))%Z then Some (val (fst pq) (snd pq), pq) else acc
        end
      else acc) cells2 None.
  (* max(values_solid) > max(values_void) *)
  Definition gt_opt (a b : option (Z * (nat * nat))) : bool :=
    match a, b with
    | Some (x, _), Some (y, _) => (y <? x)%Z
    | Some _, None => true
    | None, _ => false
    end.
  (* argmax of an all -inf array is index 0 *)
  Definition pos_of (a : option (Z * (nat * nat))) : nat * nat := match a with Some (_, p) => p | None => (0, 0) end.

  Variable design : nat -> nat -> Z.

  Definition select (mask_s mask_v tv ts : arr2) : arr2 * arr2 :=
    let bs_ := best mask_s design in
    let bv_ := best mask_v (fun i j => (- design i j)%Z) in
    if gt_opt bs_ bv_ then (tv, set2 ts (pos_of bs_)) else (set2 tv (pos_of bv_), ts).

  (* cond_fn *)
  Definition covered (tv ts : arr2) : bool := all2 (bor (dil ts) (dil tv)).

  (* body_fn (Algorithm 1 of the paper) *)
  Definition body (st : arr2 * arr2) : arr2 * arr2 :=
    let '(tv, ts) := st in
    let pes := dil ts in let pev := dil tv in
    let tis := dil pev in let tiv := dil pes in
    let tvs := band (bnot tis) (bnot ts) in
    let tvv := band (bnot tiv) (bnot tv) in
    let pps := dil (bor ts tvs) in let ppv := dil (bor tv tvv) in
    let prs := band (bnot pes) (bnot ppv) in
    let prv := band (bnot pev) (bnot pps) in
    let trs := band (dil prs) tvs in let trv := band (dil prv) tvv in
    let tfs := band (bnot (dil (bor ppv pev))) tvs in
    let tfv := band (bnot (dil (bor pps pes))) tvv in
    if any2 (bor tfs tfv) then (bor tv tfv, bor ts tfs)
    else if any2 (bor trs trv) then select trs trv tv ts
    else select tvs tvv tv ts.

  (* eqxi.while_loop; None = fuel exhausted *)
  Fixpoint loop (fuel : nat) (st : arr2 * arr2) : option (arr2 * arr2) :=
    match fuel with
    | O => None
    | S f => if covered (fst st) (snd st) then Some st else loop f (body st)
    end.
  Definition zeros2 : arr2 := mk2 nx ny (fun _ _ => false).
  (* _generator: returns pixel_existing_solid; every iteration adds at least one touch or runs forever *)
  Definition generator (fuel : nat) : option arr2 :=
    match loop fuel (zeros2, zeros2) with Some (tv, ts) => Some (dil ts) | None => None end.
  (* (touches_void, touches_solid) at exit, for the statements *)
  Definition generator_touches (fuel : nat) : option (arr2 * arr2) := loop fuel (zeros2, zeros2).
End Brush.
