(* Grad.v — executable model of the time-reversible backward pass of fdtd/fdtd.py (fdtd_bwd):
   the reverse while-loop carrying (time_step, reconstructed state, cotangent), with optional
   full-field checkpoints (reverse_body).  Generic in the state / cotangent types; jax.vjp of one
   forward step is the abstract function `vjp`.  No proofs. *)
From Coq Require Import ZArith List Bool.
Import ListNotations.
Open Scope Z_scope.

(* cond_fun of fdtd_bwd as repaired (time_step > start_time_step) and as in the snapshot (>=) *)
Definition cond_src (time_step start_time_step : Z) : bool := start_time_step <? time_step.
Definition cond_src_old (time_step start_time_step : Z) : bool := start_time_step <=? time_step.

Section Grad.
  Variables (S C : Type).
  Variable bwd : Z -> S -> S.        (* backward(...): state at step t+1 -> state at step t, t = new time index *)
  Variable vjp : Z -> S -> C -> C.   (* pullback of one forward step taken at (t, state_t) *)
  Variable ckpt : Z -> option S.     (* full-field checkpoints by time step (interior slice boundaries) *)
  Variable cond : Z -> Z -> bool.

  (* reverse_body: reset to the checkpoint when time_step == s_i, then body_fn *)
  Definition reverse_body (t : Z) (x : S) (c : C) : Z * S * C :=
    let x0 := match ckpt t with Some y => y | None => x end in
    let t' := t - 1 in
    let x' := bwd t' x0 in
    (t', x', vjp t' x' c).

  (* eqxi.while_loop(cond_fun(start_time_step=0), reverse_body, (T, s_T, cot)) — unbounded in the source; fuel here *)
  Fixpoint rev_loop (fuel : nat) (t : Z) (x : S) (c : C) : option (Z * S * C) :=
    if cond t 0 then
      match fuel with
      | O => None
      | Datatypes.S f => let '(t', x', c') := reverse_body t x c in rev_loop f t' x' c'
      end
    else Some (t, x, c).
End Grad.
