(* DesignTransforms_Sym.v — executable model of objects/device/parameters/symmetries.py
   (HorizontalSymmetry2D, VerticalSymmetry2D, PointSymmetry2D, DiagonalSymmetry2D,
    HorizontalSymmetry3D, VerticalSymmetry3D, PointSymmetry3D, DiagonalSymmetry3D).
   Every __call__ computes  (v + other) / 2  where  other[p] = v[sigma p]  for an index map sigma
   built from flips ([::-1], jnp.flip) and axis swaps (.T, jnp.transpose).  No proofs. *)
From Coq Require Import List Arith Bool.
From FV Require Import base.Scalar base.Sums base.DesignTransformsBase.
Import ListNotations.
Local Open Scope fld_scope.

Inductive axis := AX | AY | AZ.
Definition idx := (nat * nat * nat)%type.     (* an index (i,j,k) or a shape (nx,ny,nz) *)

Definition geti (p : idx) (a : axis) : nat := let '(i, j, k) := p in match a with AX => i | AY => j | AZ => k end.
Definition seti (p : idx) (a : axis) (v : nat) : idx :=
  let '(i, j, k) := p in match a with AX => (v, j, k) | AY => (i, v, k) | AZ => (i, j, v) end.
Definition inb (s p : idx) : Prop := (geti p AX < geti s AX)%nat /\ (geti p AY < geti s AY)%nat /\ (geti p AZ < geti s AZ)%nat.

(* v[::-1] / jnp.flip(v, axis=a):  flipped[p] = v[flip p] *)
Definition flip (s : idx) (a : axis) (p : idx) : idx := seti p a (geti s a - 1 - geti p a)%nat.
(* .T / jnp.transpose with the two axes a, b exchanged:  transposed[p] = v[swap p] *)
Definition swap (a b : axis) (p : idx) : idx := seti (seti p a (geti p b)) b (geti p a).

(* vertical_axis = v.shape.index(1): the FIRST axis of extent 1; ValueError (None) if there is none *)
Definition vaxis (s : idx) : option axis :=
  let '(nx, ny, nz) := s in
  if (nx =? 1)%nat then Some AX else if (ny =? 1)%nat then Some AY else if (nz =? 1)%nat then Some AZ else None.
(* v.squeeze(vertical_axis): axes 0 and 1 of the squeezed array in terms of the 3-D axes *)
Definition plane_axes (v : axis) : axis * axis :=
  match v with AX => (AY, AZ) | AY => (AX, AZ) | AZ => (AX, AY) end.

(* DiagonalSymmetry*: min_min_to_max_max -> transpose;  otherwise flip both axes, then transpose.
   The sum v + other needs equal extents; for unequal extents numpy either raises or BROADCASTS
   (extent 1 against n) and changes the shape: outside the domain of the property -> None. *)
Definition diag (s : idx) (a b : axis) (mm : bool) : option (idx -> idx) :=
  if (geti s a =? geti s b)%nat
  then Some (if mm then swap a b else (fun p => flip s a (flip s b (swap a b p))))
  else None.

Inductive maxis := MX | MY | MBad.            (* HorizontalSymmetry3D.mirror_axis: "x" | "y" | anything else *)
Inductive dplane := PXY | PXZ | PYZ | PBad.   (* DiagonalSymmetry3D.diagonal_plane *)

Inductive sym :=
| Horizontal2D | Vertical2D | Point2D | Diagonal2D (min_min_to_max_max : bool)
| Horizontal3D (mirror_axis : maxis) | Vertical3D | Point3D
| Diagonal3D (diagonal_plane : dplane) (min_min_to_max_max : bool).

Definition on_plane {A} (s : idx) (f : axis -> axis -> option A) : option A :=
  match vaxis s with None => None | Some v => let '(a, b) := plane_axes v in f a b end.

(* the index map sigma of each transform: other[p] = v[sigma p];  None = the call raises / leaves the domain *)
Definition sigma (t : sym) (s : idx) : option (idx -> idx) :=
  match t with
  | Horizontal2D => on_plane s (fun a _ => Some (flip s a))                       (* v_2d[::-1, :] *)
  | Vertical2D => on_plane s (fun _ b => Some (flip s b))                         (* v_2d[:, ::-1] *)
  | Point2D => on_plane s (fun a b => Some (fun p => flip s a (flip s b p)))      (* v_2d[::-1, ::-1] *)
  | Diagonal2D mm => on_plane s (fun a b => diag s a b mm)
  | Horizontal3D MX => Some (flip s AX)
  | Horizontal3D MY => Some (flip s AY)
  | Horizontal3D MBad => None                                                     (* ValueError *)
  | Vertical3D => Some (flip s AZ)
  | Point3D => Some (fun p => flip s AX (flip s AY (flip s AZ p)))                (* v[::-1, ::-1, ::-1] *)
  | Diagonal3D PXY mm => diag s AX AY mm
  | Diagonal3D PXZ mm => diag s AX AZ mm
  | Diagonal3D PYZ mm => diag s AY AZ mm
  | Diagonal3D PBad _ => None                                                     (* ValueError *)
  end.

Section Exec.
  Variable K : Fld.
  Notation F := (car K).
  Definition arr3 := list (list (list F)).

  Definition get3i (l : arr3) (p : idx) : F := let '(i, j, k) := p in get3 0 l i j k.
  Definition tab3i (s : idx) (f : idx -> F) : arr3 := let '(nx, ny, nz) := s in tab3 nx ny nz (fun i j k => f (i, j, k)).

  (* cur_mean = (v + other) / 2 *)
  Definition sym_fn (sg : idx -> idx) (x : idx -> F) : idx -> F := fun p => (x p + x (sg p)) / (1 + 1).

  (* transform.__call__({k: v})[k] for an array v of shape s given as nested lists *)
  Definition sym_exec (t : sym) (s : idx) (l : arr3) : option arr3 :=
    match sigma t s with
    | None => None
    | Some sg => Some (tab3i s (sym_fn sg (get3i l)))
    end.

  (* jnp.mean *)
  Definition sum3i (s : idx) (x : idx -> F) : F := let '(nx, ny, nz) := s in sum3 nx ny nz (fun i j k => x (i, j, k)).
  Definition mean3 (s : idx) (l : arr3) : F := let '(nx, ny, nz) := s in sum3i s (get3i l) / of_nat (nx * ny * nz).
  Definition shape3i (s : idx) (l : arr3) : Prop := let '(nx, ny, nz) := s in shape3 nx ny nz l.
End Exec.
