(* Pml.v — executable model of PerfectlyMatchedLayer._compute_pml_profile (uniform grid) and of the CPML
   coefficient formulas in place_on_grid.  `pw` = x -> x^order and `ex` = exp are parameters (oracles). No proofs. *)
From Coq Require Import List Arith Bool.
From FV Require Import base.Scalar.
Local Open Scope fld_scope.

Section Pml.
  Variable K : Fld.
  Variable pw : car K -> car K.     (* jnp.power(., order) *)
  Variable ex : car K -> car K.     (* exp *)
  Fixpoint natK (n : nat) : car K := match n with O => 0 | S m => natK m + 1 end.
  Definition half : car K := 1 / (1 + 1).

  (* depths into the layer, index i = 0..L-1 along the axis; direction '-' (min side) and '+' (max side) *)
  Definition dE (minus : bool) (L i : nat) : car K :=
    if minus then natK (L - 1 - i) else match i with O => 0 | S j => natK j + half end.
  Definition dH (minus : bool) (L i : nat) : car K :=
    if minus then (if S i <? L then natK (L - 1 - i) - half else 0) else natK i.
  (* interface row index *)
  Definition iface_idx (minus : bool) (L : nat) : nat := if minus then (L - 1)%nat else O.

  Definition profile (vstart vend : car K) (L : nat) (d : car K) : car K := vstart + (vend - vstart) * pw (d / natK L).

  (* b = expm1(-dt/eps0 * (sigma/kappa + alpha)) + 1 ;  a = (b - 1) * sigma / (sigma + alpha*kappa) / kappa *)
  Definition coef_b (dt_eps0 sigma kappa alpha : car K) : car K := ex (- (dt_eps0 * (sigma / kappa + alpha))).
  Definition coef_a (b sigma kappa alpha : car K) : car K := (b - 1) * sigma / (sigma + alpha * kappa) / kappa.

  Record pml_params := { s0 : car K; s1 : car K; k0 : car K; k1 : car K; a0 : car K; a1 : car K; dte : car K }.
  Definition sigE (p : pml_params) minus L i := profile (s0 p) (s1 p) L (dE minus L i).
  Definition sigH (p : pml_params) minus L i := profile (s0 p) (s1 p) L (dH minus L i).
  (* the kappa and alpha profiles use their own orders; pw2 / pw3 stand for those powers *)
  Variables pw2 pw3 : car K -> car K.
  Definition prof2 (vs ve : car K) (L : nat) (d : car K) := vs + (ve - vs) * pw2 (d / natK L).
  Definition prof3 (vs ve : car K) (L : nat) (d : car K) := vs + (ve - vs) * pw3 (d / natK L).
  Definition aE (p : pml_params) minus L i :=
    let s := sigE p minus L i in let k := prof2 (k0 p) (k1 p) L (dE minus L i) in let al := prof3 (a0 p) (a1 p) L (dE minus L i) in
    coef_a (coef_b (dte p) s k al) s k al.
  Definition aH (p : pml_params) minus L i :=
    let s := sigH p minus L i in let k := prof2 (k0 p) (k1 p) L (dH minus L i) in let al := prof3 (a0 p) (a1 p) L (dH minus L i) in
    coef_a (coef_b (dte p) s k al) s k al.
  Definition bE (p : pml_params) minus L i :=
    coef_b (dte p) (sigE p minus L i) (prof2 (k0 p) (k1 p) L (dE minus L i)) (prof3 (a0 p) (a1 p) L (dE minus L i)).
  Definition bH (p : pml_params) minus L i :=
    coef_b (dte p) (sigH p minus L i) (prof2 (k0 p) (k1 p) L (dH minus L i)) (prof3 (a0 p) (a1 p) L (dH minus L i)).
End Pml.
