(* Paint.v — executable model of the static-material assembly in
   src/fdtdx/fdtd/initialization.py:_init_arrays (the `sorted_obj` loop), the tier selection of
   fdtd/container.py:ObjectContainer.all_objects_* and the StaticMultiMaterialObject material
   lookup (objects/static_material/{sphere,cylinder,polygon}.py:get_material_mapping).
   Model only; lemmas are in proofs/Paint_proofs.v. *)
From Coq Require Import ZArith List Bool.
From FV Require Import base.Scalar base.PaintBase model.PaintMaterials.
Import ListNotations.

Section Paint.
Variable K : OFld.
Variable rel : K.
Local Open Scope fld_scope.
Notation T9 := (T9 K). Notation Mat := (Mat K).

(* ---------- geometry ---------- *)
Definition cell : Type := (Z * Z * Z)%type.
Definition box : Type := (cell * cell)%type.           (* grid_slice_tuple: lower (incl.), upper (excl.) *)
Definition in_box (c : cell) (b : box) : bool :=
  let '(x, y, z) := c in let '((lx, ly, lz), (hx, hy, hz)) := b in
  ((lx <=? x) && (x <? hx) && (ly <=? y) && (y <? hy) && (lz <=? z) && (z <? hz))%Z.
Definition local (c : cell) (b : box) : cell :=
  let '(x, y, z) := c in let '((lx, ly, lz), _) := b in ((x - lx)%Z, (y - ly)%Z, (z - lz)%Z).

(* ---------- objects ---------- *)
(* UniformMaterialObject(material) | StaticMultiMaterialObject(materials dict in insertion order,
   position of material_name in the dict, voxel mask in object-local coordinates) *)
Inductive Kind : Type :=
| Uniform (m : Mat)
| Multi (mats : list Mat) (sel : nat) (mask : cell -> bool).
Record Obj : Type := mkObj { o_order : Z; o_box : box; o_kind : Kind }.

(* get_material_mapping + allowed_*[indices]: the material written by a multi-material object is
   found through the *sorted* material list: idx = ordered_names.index(material_name), value =
   ordered materials [idx].  Names are modelled by the insertion position. *)
Definition tagged (mats : list Mat) : list (nat * Mat) := combine (seq 0 (length mats)) mats.
Definition multi_material (mats : list Mat) (sel : nat) : option Mat :=
  let sorted := ordered_tuples K (tagged mats) in
  match index_where (fun p => Nat.eqb (fst p) sel) sorted with       (* list.index raises if absent *)
  | Some idx => nth_error (map snd sorted) idx
  | None => None
  end.

(* an object after the material lookup: what the loop body uses *)
Record RObj : Type := mkRObj { r_order : Z; r_box : box; r_mat : Mat; r_mask : option (cell -> bool) }.
Definition resolve (o : Obj) : option RObj :=
  match o_kind o with
  | Uniform m => Some (mkRObj (o_order o) (o_box o) m None)
  | Multi mats sel mask =>
      match multi_material mats sel with
      | Some m => Some (mkRObj (o_order o) (o_box o) m (Some mask))
      | None => None
      end
  end.
Fixpoint resolve_all (l : list Obj) : option (list RObj) :=
  match l with
  | [] => Some []
  | o :: r => match resolve o, resolve_all r with Some a, Some b => Some (a :: b) | _, _ => None end
  end.

(* sorted(objects.static_material_objects, key=lambda o: o.placement_order)  (stable) *)
Definition order_le (a b : RObj) : bool := (r_order a <=? r_order b)%Z.
Definition sort_objs (l : list RObj) : list RObj := isort order_le l.

(* the cell is written with the object's material: inside the slice and (uniform, or mask true) *)
Definition mask_at (o : RObj) (c : cell) : bool :=
  match r_mask o with None => true | Some mk => mk (local c (r_box o)) end.
Definition covers (c : cell) (o : RObj) : bool := in_box c (r_box o) && mask_at o c.

(* ---------- component tiers ---------- *)
Inductive Tier : Type := Iso | Diag | Full.             (* 1 / 3 / 9 array components *)
Definition tier_n (t : Tier) : Z := match t with Iso => 1 | Diag => 3 | Full => 9 end.
Definition Vec (t : Tier) : Type := match t with Iso => K | Diag => (K * K * K)%type | Full => T9 end.
Definition vlist (t : Tier) : Vec t -> list K :=
  match t with Iso => fun a => [a] | Diag => fun '(a, b, c) => [a; b; c] | Full => fun p => t9_list K p end.
(* (p[0],) | (p[0], p[4], p[8]) | p *)
Definition pick (t : Tier) (p : T9) : Vec t :=
  match t with Iso => t0 K p | Diag => (t0 K p, t4 K p, t8 K p) | Full => p end.
(* jnp.linalg.inv of a 3x3 matrix, by the adjugate *)
Definition inv33 (p : T9) : T9 :=
  let '(a, b, c, d, e, f, g, h, i) := (t0 K p, t1 K p, t2 K p, t3 K p, t4 K p, t5 K p, t6 K p, t7 K p, t8 K p) in
  let dt := det33 K p in
  mk9 K ((e * i - f * h) / dt) ((c * h - b * i) / dt) ((b * f - c * e) / dt)
        ((f * g - d * i) / dt) ((a * i - c * g) / dt) ((c * d - a * f) / dt)
        ((d * h - e * g) / dt) ((b * g - a * h) / dt) ((a * e - b * d) / dt).
(* 1/x component-wise (tiers 1, 3) or the matrix inverse (tier 9): _invert_property and the
   per-object inversions *)
Definition vinv (t : Tier) : Vec t -> Vec t :=
  match t with
  | Iso => fun a => / a
  | Diag => fun '(a, b, c) => (/ a, / b, / c)
  | Full => inv33
  end.
(* cur + mask * (new - cur), component-wise *)
Definition t9_blend (p : T9) (m : K) (v : T9) : T9 := t9_map2 K (fun x y => x + m * (y - x)) p v.
Definition vblend (t : Tier) : Vec t -> K -> Vec t -> Vec t :=
  match t with
  | Iso => fun p m v => p + m * (v - p)
  | Diag => fun '(p1, p2, p3) m '(v1, v2, v3) => (p1 + m * (v1 - p1), p2 + m * (v2 - p2), p3 + m * (v3 - p3))
  | Full => t9_blend
  end.
Definition vscale (t : Tier) (s : K) : Vec t -> Vec t :=
  match t with
  | Iso => fun a => a * s
  | Diag => fun '(a, b, c) => (a * s, b * s, c * s)
  | Full => t9_map K (fun a => a * s)
  end.
Definition b2k (b : bool) : K := if b then 1 else 0.

(* ---------- the fold of writes ---------- *)
(* generic painter: [wuni m] = value a UniformMaterialObject writes into its slice;
   [wmul cur b m] = value a StaticMultiMaterialObject leaves in a cell of its slice that held
   [cur], with mask bit b *)
Section Painter.
Variable S : Type.
Variable wuni : Mat -> S.
Variable wmul : S -> bool -> Mat -> S.
Definition step (st : cell -> S) (o : RObj) : cell -> S :=
  let u := wuni (r_mat o) in           (* the broadcast value is computed once per object *)
  fun c => if in_box c (r_box o) then
             match r_mask o with
             | None => u
             | Some mk => wmul (st c) (mk (local c (r_box o))) (r_mat o)
             end
           else st c.
Definition paint_from (st : cell -> S) (sorted : list RObj) : cell -> S := fold_left step sorted st.
End Painter.

(* inverse permittivity / permeability.  A cell holds [None] while it is not a valid inverse:
   the array starts at 0.0 and the multi-material write inverts the current content first
   (1/0 = inf, inf + m*(v - inf) = nan in the implementation), so a multi-material write on a
   cell no uniform object has written yet poisons it until a uniform object overwrites it. *)
Definition inv_wuni (t : Tier) (prop : Mat -> T9) (m : Mat) : option (Vec t) := Some (vinv t (pick t (prop m))).
Definition inv_wmul (t : Tier) (prop : Mat -> T9) (cur : option (Vec t)) (b : bool) (m : Mat) : option (Vec t) :=
  match cur with
  | None => None
  | Some x => Some (vinv t (vblend t (vinv t x) (b2k b) (pick t (prop m))))
  end.
Definition paint_inv (t : Tier) (prop : Mat -> T9) (objs : list RObj) : cell -> option (Vec t) :=
  paint_from _ (inv_wuni t prop) (inv_wmul t prop) (fun _ => None) (sort_objs objs).

(* conductivities: value * conductivity_spacing; multi-material objects add mask * (new - cur) *)
Definition vzero (t : Tier) : Vec t :=
  match t with Iso => 0 | Diag => (0, 0, 0) | Full => mk9 K 0 0 0 0 0 0 0 0 0 end.
Definition cond_wuni (t : Tier) (prop : Mat -> T9) (sp : K) (m : Mat) : Vec t := vscale t sp (pick t (prop m)).
Definition cond_wmul (t : Tier) (prop : Mat -> T9) (sp : K) (cur : Vec t) (b : bool) (m : Mat) : Vec t :=
  vblend t cur (b2k b) (vscale t sp (pick t (prop m))).
Definition paint_cond (t : Tier) (prop : Mat -> T9) (sp : K) (objs : list RObj) : cell -> Vec t :=
  paint_from _ (cond_wuni t prop sp) (cond_wmul t prop sp) (fun _ => vzero t) (sort_objs objs).

(* ---------- tier selection: ObjectContainer._iter_materials / all_objects_* ---------- *)
Definition obj_materials (o : Obj) : list Mat :=
  match o_kind o with Uniform m => [m] | Multi mats _ _ => mats end.
Definition all_materials (objs : list Obj) : list Mat := flat_map obj_materials objs.
Definition tier_of (prop : Mat -> T9) (mats : list Mat) : Tier :=
  if forallb (fun m => is_isotropic K rel (prop m)) mats then Iso
  else if forallb (fun m => is_diagonal K rel (prop m)) mats then Diag
  else Full.
(* the tier one material needs *)
Definition need (p : T9) : Tier :=
  if is_isotropic K rel p then Iso else if is_diagonal K rel p then Diag else Full.
Definition tier_max (a b : Tier) : Tier :=
  match a, b with Full, _ | _, Full => Full | Diag, _ | _, Diag => Diag | Iso, Iso => Iso end.

(* ---------- _init_arrays, static part ---------- *)
Definition cells (shape : Z * Z * Z) : list cell :=
  let '(nx, ny, nz) := shape in
  let r n := map Z.of_nat (seq 0 (Z.to_nat n)) in
  flat_map (fun x => flat_map (fun y => map (fun z => (x, y, z)) (r nz)) (r ny)) (r nx).

Inductive MuOut : Type := MuScalarOne | MuArray (n : Z) (a : list (option (list K))).
Record Out : Type := mkOut {
  out_eps_n : Z; out_eps : list (option (list K));          (* per cell (C order), the components *)
  out_mu : MuOut;
  out_sige : option (Z * list (list K));
  out_sigm : option (Z * list (list K)) }.

Definition tab_inv (t : Tier) (shape : Z * Z * Z) (f : cell -> option (Vec t)) : list (option (list K)) :=
  map (fun c => option_map (vlist t) (f c)) (cells shape).
Definition tab_cond (t : Tier) (shape : Z * Z * Z) (f : cell -> Vec t) : list (list K) :=
  map (fun c => vlist t (f c)) (cells shape).

(* conductivity_spacing = constants.c * config.time_step_duration / config.courant_number *)
Definition conductivity_spacing (c0 dt courant : K) : K := c0 * dt / courant.

Definition assemble (shape : Z * Z * Z) (c0 dt courant : K) (objs : list Obj) : option Out :=
  match resolve_all objs with
  | None => None
  | Some robjs =>
      let mats := all_materials objs in
      let te := tier_of (m_eps K) mats in
      let tm := tier_of (m_mu K) mats in
      let tse := tier_of (m_sige K) mats in
      let tsm := tier_of (m_sigm K) mats in
      let sp := conductivity_spacing c0 dt courant in
      Some (mkOut (tier_n te) (tab_inv te shape (paint_inv te (m_eps K) robjs))
                  (if forallb (fun m => negb (is_magnetic K rel m)) mats then MuScalarOne
                   else MuArray (tier_n tm) (tab_inv tm shape (paint_inv tm (m_mu K) robjs)))
                  (if forallb (fun m => negb (is_econductive K rel m)) mats then None
                   else Some (tier_n tse, tab_cond tse shape (paint_cond tse (m_sige K) sp robjs)))
                  (if forallb (fun m => negb (is_mconductive K rel m)) mats then None
                   else Some (tier_n tsm, tab_cond tsm shape (paint_cond tsm (m_sigm K) sp robjs))))
  end.

(* ---------- the object the property names: highest placement order, later in the list wins ties ---------- *)
Fixpoint winner (c : cell) (l : list RObj) : option RObj :=
  match l with
  | [] => None
  | o :: r =>
      match winner c r with
      | Some b => if covers c o && (r_order b <? r_order o)%Z then Some o else Some b
      | None => if covers c o then Some o else None
      end
  end.
(* last covering object of a (sorted) list *)
Fixpoint last_cover (c : cell) (l : list RObj) : option RObj :=
  match l with
  | [] => None
  | o :: r => match last_cover c r with Some b => Some b | None => if covers c o then Some o else None end
  end.
(* "some uniform object wrote the cell before any multi-material object touched it" *)
Fixpoint grounded (c : cell) (sorted : list RObj) : bool :=
  match sorted with
  | [] => false
  | o :: r => if in_box c (r_box o) then match r_mask o with None => true | Some _ => false end else grounded c r
  end.
End Paint.

(* ---------- comparison helpers for the correspondence (Qc instance) ---------- *)
From Coq Require Import QArith Qcanon.
From FV Require Import base.Util.
(* norm-wise relative closeness of one cell's component vector: every |m_k - i_k| <= tol * max_k |i_k| *)
Definition vclose (tol : Qc) (m i : list Qc) : bool :=
  let sc := qmaxabs i in list_eqb (fun a b => Qcleb (Qc_abs (a - b)%Qc) (tol * sc)%Qc) m i.
Definition cell_close (tol : Qc) (m : option (list Qc)) (i : list Qc) : bool :=
  match m with Some l => vclose tol l i | None => false end.
Fixpoint inv_arr_close (tol : Qc) (m : list (option (list Qc))) (i : list (list Qc)) : bool :=
  match m, i with
  | [], [] => true
  | a :: m', b :: i' => cell_close tol a b && inv_arr_close tol m' i'
  | _, _ => false
  end.
Inductive ImplMu : Type := ImplMuScalar (v : Qc) | ImplMuArray (n : Z) (a : list (list Qc)).
Definition mu_close (tol : Qc) (m : MuOut QcOF) (i : ImplMu) : bool :=
  match m, i with
  | MuScalarOne _, ImplMuScalar v => Qc_eqb v 1%Qc
  | MuArray _ n a, ImplMuArray n' a' => Z.eqb n n' && inv_arr_close tol a a'
  | _, _ => false
  end.
Definition cond_close (tol : Qc) (m : option (Z * list (list Qc))) (i : option (Z * list (list Qc))) : bool :=
  match m, i with
  | None, None => true
  | Some (n, a), Some (n', a') => Z.eqb n n' && list_eqb (vclose tol) a a'
  | _, _ => false
  end.
Definition out_close (tol : Qc) (m : option (Out QcOF)) (n_eps : Z) (eps : list (list Qc)) (mu : ImplMu)
  (sige sigm : option (Z * list (list Qc))) : bool :=
  match m with
  | None => false
  | Some o => Z.eqb (out_eps_n _ o) n_eps && inv_arr_close tol (out_eps _ o) eps && mu_close tol (out_mu _ o) mu
              && cond_close tol (out_sige _ o) sige && cond_close tol (out_sigm _ o) sigm
  end.
(* a voxel mask given as nested lists mask[x][y][z] in object-local coordinates; outside the
   table (never consulted for a cell inside the object's slice) the value is false *)
Definition mask_of (data : list (list (list bool))) (c : Z * Z * Z) : bool :=
  let '(x, y, z) := c in
  if ((x <? 0) || (y <? 0) || (z <? 0))%Z then false
  else nth (Z.to_nat z) (nth (Z.to_nat y) (nth (Z.to_nat x) data []) []) false.
(* short constructors for generated case files *)
Definition M9 := mk9 QcOF.
Definition D9 (a b c : Qc) : T9 QcOF := mk9 QcOF a 0%Qc 0%Qc 0%Qc b 0%Qc 0%Qc 0%Qc c.
Definition MAT := mkMat QcOF.
Definition UNI (order : Z) (b : box) (m : Mat QcOF) : Obj QcOF := mkObj QcOF order b (Uniform QcOF m).
Definition MUL (order : Z) (b : box) (mats : list (Mat QcOF)) (sel : nat) (mask : list (list (list bool))) : Obj QcOF :=
  mkObj QcOF order b (Multi QcOF mats sel (mask_of mask)).
