(* DeviceIndex.v — executable model of ClosestIndex.__call__
   (objects/device/parameters/discretization.py) and straight_through_estimator (core/jax/ste.py),
   on top of a small faithful model of numpy n-d arrays with right-aligned broadcasting.
   Definitions only; lemmas are in proofs/DeviceIndex_proofs.v. *)
From Coq Require Import ZArith List Bool Arith QArith Qcanon Lia.
From FV Require Import base.Scalar base.PyNum.
Import ListNotations.
Local Open Scope nat_scope.

(* ------------------------------------------------------------------ n-d arrays *)
Section Nd.
  Context {A : Type}.
  (* an array = shape + read function on full-rank multi-indices (row-major when tabulated) *)
  Record nd := mknd { shp : list nat; fn : list nat -> A }.

  Definition prod (s : list nat) : nat := fold_right Nat.mul 1%nat s.
  (* row-major flat offset of a multi-index *)
  Fixpoint off (s idx : list nat) : nat :=
    match s, idx with
    | _ :: s', i :: idx' => i * prod s' + off s' idx'
    | _, _ => 0
    end.
  (* jnp.asarray(flat).reshape(s) *)
  Definition of_flat (s : list nat) (d : list A) (d0 : A) : nd := mknd s (fun idx => nth (off s idx) d d0).
  (* all multi-indices of a shape in row-major order *)
  Fixpoint indices (s : list nat) : list (list nat) :=
    match s with
    | [] => [[]]
    | d :: s' => flat_map (fun i => map (cons i) (indices s')) (seq 0 d)
    end.
  (* arr.ravel() *)
  Definition to_list (a : nd) : list A := map (fn a) (indices (shp a)).
End Nd.
Arguments nd : clear implicits.

Section Bget.
  Context {A : Type}.
  (* numpy broadcasting of one dimension pair *)
  Definition bdim (x y : nat) : option nat :=
    if x =? y then Some x else if x =? 1 then Some y else if y =? 1 then Some x else None.
  (* on reversed shapes (trailing dimension first); a missing leading dimension counts as 1 *)
  Fixpoint bshape_rev (a b : list nat) : option (list nat) :=
    match a, b with
    | [], _ => Some b
    | _, [] => Some a
    | x :: a', y :: b' =>
        match bdim x y, bshape_rev a' b' with
        | Some d, Some r => Some (d :: r)
        | _, _ => None
        end
    end.
  (* numpy.broadcast_shapes(a, b); None = "Incompatible shapes for broadcasting" *)
  Definition bshape (a b : list nat) : option (list nat) := option_map (@rev nat) (bshape_rev (rev a) (rev b)).
  (* an operand of shape s read at a result index: size-1 dimensions read position 0 *)
  Fixpoint zero1 (s idx : list nat) : list nat :=
    match s, idx with
    | d :: s', i :: idx' => (if d =? 1 then 0 else i) :: zero1 s' idx'
    | _, _ => []
    end.
  (* right alignment: the operand sees the last (rank s) entries of the result index *)
  Definition bidx (s idx : list nat) : list nat := zero1 s (skipn (length idx - length s) idx).
  Definition bget (a : nd A) (idx : list nat) : A := fn a (bidx (shp a) idx).
End Bget.

Section Bcast.
  Context {A B C : Type}.
  (* elementwise binary operation with broadcasting *)
  Definition bcast2 (f : A -> B -> C) (a : nd A) (b : nd B) : option (nd C) :=
    match bshape (shp a) (shp b) with
    | Some s => Some (mknd s (fun idx => f (bget a idx) (bget b idx)))
    | None => None
    end.
  (* elementwise unary operation *)
  Definition map_nd (f : A -> B) (a : nd A) : nd B := mknd (shp a) (fun idx => f (fn a idx)).
End Bcast.

(* arr[..., None] *)
Definition expand_last {A} (a : nd A) : nd A := mknd (shp a ++ [1]) (fun idx => fn a (removelast idx)).

(* ------------------------------------------------------------------ argmin, ClosestIndex *)
Section Closest.
  Variable K : OFld.
  Local Open Scope fld_scope.

  Definition flt (x y : K) : bool := negb (fleb K y x).                 (* x < y *)
  Definition fabs (x : K) : K := if fleb K 0 x then x else - x.          (* jnp.abs *)
  Fixpoint fnat (n : nat) : K := match n with O => 0 | S k => fnat k + 1 end.   (* int -> float *)

  (* jnp.argmin on a 1-d slice: index of the first occurrence of the minimum *)
  Fixpoint argmin_from (best : K) (bi i : nat) (l : list K) : nat :=
    match l with
    | [] => bi
    | x :: r => if flt x best then argmin_from x i (S i) r else argmin_from best bi (S i) r
    end.
  Definition argmin (l : list K) : nat := match l with [] => 0%nat | x :: r => argmin_from x 0 1 r end.

  (* jnp.argmin(a, axis=-1); None = error (0-d input or empty last axis) *)
  Definition argmin_last (a : nd K) : option (nd nat) :=
    match rev (shp a) with
    | [] => None
    | m :: r => if m =? 0 then None
                else Some (mknd (rev r) (fun idx => argmin (map (fun j => fn a (idx ++ [j])) (seq 0 m))))
    end.

  (* straight_through_estimator forward value: x - stop_gradient(x) + stop_gradient(y), with broadcasting *)
  Definition ste_nd (x y : nd K) : option (nd K) :=
    match bcast2 (fun a b => a - b) x x with
    | Some d => bcast2 (fun a b => a + b) d y
    | None => None
    end.

  Definition absdiff (x a : K) : K := fabs (x - a).
  (* dist = jnp.abs(arr[..., None] - allowed_inv_perms); discrete = jnp.argmin(dist, axis=-1) *)
  Definition closest_inv (allowed arr : nd K) : option (nd nat) :=
    match bcast2 absdiff (expand_last arr) allowed with
    | Some dist => argmin_last dist
    | None => None
    end.
  (* ClosestIndex.__call__ / transform_arr, mapping_from_inverse_permittivities=True *)
  Definition call_inv (allowed arr : nd K) : option (nd K) :=
    match closest_inv allowed arr with
    | Some disc => ste_nd arr (map_nd fnat disc)
    | None => None
    end.

  (* allowed_inv_perms as the code builds it: n rows of c components (c = 1 isotropic, 3 diagonal, 9 full) *)
  Definition allowed_rows (c : nat) (flat : list K) : nd K := of_flat [Nat.div (length flat) c; c] flat 0.
  (* unchanged source, isotropic materials: shape (n, 1) *)
  Definition allowed_src_old (al : list K) : nd K := allowed_rows 1 al.
  (* repaired source, isotropic materials: (1 / allowed_perm_array).squeeze(-1), shape (n,) *)
  Definition allowed_fixed (al : list K) : nd K := of_flat [length al] al 0.

  Definition call_inv_src_old (al : list K) (arr : nd K) := call_inv (allowed_src_old al) arr.
  Definition call_inv_fixed (al : list K) (arr : nd K) := call_inv (allowed_fixed al) arr.

  (* the intended per-voxel value: index of the nearest allowed value, first one on ties *)
  Definition nearest (al : list K) (x : K) : nat := argmin (map (absdiff x) al).

  (* gradient pass-through: the same expression on dual numbers (value, tangent);
     stop_gradient drops the tangent *)
  Definition sg (x : K * K) : K * K := (fst x, 0).
  Definition dadd (x y : K * K) : K * K := (fst x + fst y, snd x + snd y).
  Definition dsub (x y : K * K) : K * K := (fst x - fst y, snd x - snd y).
  Definition ste_dual (x y : K * K) : K * K := dadd (dsub x (sg x)) (sg y).
End Closest.

(* ------------------------------------------------------------------ integer mode (executed on Qc) *)
(* jnp.round: round half to even, on an exact rational *)
Definition qround (x : Qc) : Z := py_round_div (Qnum (this x)) (Zpos (Qden (this x))).
(* jnp.clip(v, 0, n-1) = minimum(maximum(v, 0), n-1) *)
Definition zclip (v lo hi : Z) : Z := Z.min (Z.max v lo) hi.
Definition ZtoQc (z : Z) : Qc := Q2Qc (inject_Z z).
(* discrete = jnp.clip(jnp.round(arr), 0, len(materials) - 1) *)
Definition closest_int (n : Z) (x : Qc) : Z := zclip (qround x) 0%Z (n - 1)%Z.
(* ClosestIndex.__call__, mapping_from_inverse_permittivities=False *)
Definition call_int (n : Z) (arr : nd Qc) : option (nd Qc) :=
  ste_nd QcOF arr (map_nd (fun x => ZtoQc (closest_int n x)) arr).
