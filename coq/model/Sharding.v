(* Sharding.v — executable model of the per-device shape arithmetic of core/jax/sharding.py
   (create_named_sharded_matrix / get_named_sharding_from_shape): an axis of n cells is split into d equal
   contiguous chunks when d divides n, otherwise the request is rejected.  No proofs. *)
From Coq Require Import List Arith.
Import ListNotations.

Fixpoint chunks {X} (c : nat) (k : nat) (l : list X) : list (list X) :=
  match k with O => [] | S k' => firstn c l :: chunks c k' (skipn c l) end.
Definition shard_axis {X} (d : nat) (l : list X) : option (list (list X)) :=
  if (d =? 0) then None else if (length l mod d =? 0) then Some (chunks (length l / d) d l) else None.
Definition gather {X} (parts : list (list X)) : list X := concat parts.
(* a computation that is applied cell-wise does not depend on the device count *)
Definition on_devices {X Y} (d : nat) (f : X -> Y) (l : list X) : option (list Y) :=
  match shard_axis d l with Some parts => Some (gather (map (map f) parts)) | None => None end.
