(* PaintShapes.v — executable model of the voxel masks of
   objects/static_material/sphere.py (Sphere.get_voxel_mask_for_shape),
   cylinder.py (Cylinder.get_voxel_mask_for_shape) and polygon.py
   (ExtrudedPolygon.get_voxel_mask_for_shape -> core/grid.py:polygon_to_mask_at_points) on the resolved
   rectilinear grid (uniform grids are resolved to edge arrays by place_objects, so this is the only
   branch that runs after placement).  Model only; lemmas in proofs/PaintShapes_proofs.v. *)
From Coq Require Import ZArith List Bool.
From FV Require Import base.Scalar.
Import ListNotations.

Section Shapes.
Variable K : OFld.
Local Open Scope fld_scope.
Definition sfltb (x y : K) : bool := negb (fleb K y x).        (* x < y *)
Definition half : K := 1 / (1 + 1).
Definition sq (x : K) : K := x * x.

(* one axis of the placed object: edge coordinates (index -> coordinate) and the slice [lo, hi) *)
Record Axis : Type := mkAxis { ax_edge : nat -> K; ax_lo : nat; ax_hi : nat }.
(* local_centers(axis)[i] = 0.5 * (edges[lo+i] + edges[lo+i+1]) - edges[lo] *)
Definition local_center (a : Axis) (i : nat) : K :=
  half * (ax_edge a (ax_lo a + i) + ax_edge a (ax_lo a + i + 1)) - ax_edge a (ax_lo a).
(* real_shape[axis] = edges[hi] - edges[lo];  the object's centre in local coordinates is half of it *)
Definition real_extent (a : Axis) : K := ax_edge a (ax_hi a) - ax_edge a (ax_lo a).
Definition local_mid (a : Axis) : K := half * real_extent a.
Definition ax_n (a : Axis) : nat := ax_hi a - ax_lo a.

(* ---------- Sphere ---------- *)
Definition ell_term (a : Axis) (r : K) (i : nat) : K := sq ((local_center a i - local_mid a) / r).
Definition sphere_sum (ax ay az : Axis) (rx ry rz : K) (i j k : nat) : K :=
  ell_term ax rx i + ell_term ay ry j + ell_term az rz k.
Definition sphere_mask (ax ay az : Axis) (rx ry rz : K) (i j k : nat) : bool :=
  sfltb (sphere_sum ax ay az rx ry rz i j k) 1.

(* ---------- Cylinder: two transverse axes (ascending order), broadcast along the axis ---------- *)
Definition cyl_sum (ah av : Axis) (r : K) (i j : nat) : K :=
  sq ((local_center ah i - local_mid ah) / r) + sq ((local_center av j - local_mid av) / r).
Definition cyl_mask2 (ah av : Axis) (r : K) (i j : nat) : bool := sfltb (cyl_sum ah av r i j) 1.
(* transverse indices of a 3-D index for extrusion axis 0/1/2 (get_transverse_axes: ascending) *)
Definition transverse (axis : nat) (i j k : nat) : nat * nat :=
  match axis with O => (j, k) | S O => (i, k) | _ => (i, j) end.
Definition cyl_mask (axis : nat) (ah av : Axis) (r : K) (i j k : nat) : bool :=
  let '(a, b) := transverse axis i j k in cyl_mask2 ah av r a b.

(* ---------- Polygon: matplotlib.path.Path.contains_points (radius 0), i.e. the crossing-number
   (even-odd) rule of _path.h:point_in_path_impl on the implicitly closed vertex loop ---------- *)
Definition pt : Type := (K * K)%type.
(* one edge (v0 -> v1) toggles the flag iff the ray test succeeds *)
Definition crosses (t v0 v1 : pt) : bool :=
  let '(tx, ty) := t in let '(x0, y0) := v0 in let '(x1, y1) := v1 in
  let yflag0 := fleb K ty y0 in            (* vty0 >= ty *)
  let yflag1 := fleb K ty y1 in
  if Bool.eqb yflag0 yflag1 then false
  else Bool.eqb (fleb K ((x1 - tx) * (y0 - y1)) ((y1 - ty) * (x0 - x1))) yflag1.
Fixpoint crossings_from (t : pt) (first prev : pt) (rest : list pt) : bool :=
  match rest with
  | [] => crosses t prev first                       (* closing edge *)
  | v :: r => xorb (crosses t prev v) (crossings_from t first v r)
  end.
Definition inside_evenodd (verts : list pt) (t : pt) : bool :=
  match verts with [] => false | v :: r => crossings_from t v v r end.
(* grid_vertices = vertices + (center_h, center_v); points = (h_centers[i], v_centers[j]) *)
Definition shift (d : pt) (v : pt) : pt := (fst v + fst d, snd v + snd d).
Definition poly_mask2 (ah av : Axis) (verts : list pt) (i j : nat) : bool :=
  inside_evenodd (map (shift (local_mid ah, local_mid av)) verts) (local_center ah i, local_center av j).
Definition poly_mask (axis : nat) (ah av : Axis) (verts : list pt) (i j k : nat) : bool :=
  let '(a, b) := transverse axis i j k in poly_mask2 ah av verts a b.

(* ---------- the analytic shapes, in absolute coordinates ---------- *)
Definition abs_center (a : Axis) (i : nat) : K := half * (ax_edge a (ax_lo a + i) + ax_edge a (ax_lo a + i + 1)).
Definition abs_mid (a : Axis) : K := half * (ax_edge a (ax_lo a) + ax_edge a (ax_hi a)).
(* strictly inside the ellipsoid with centre c and radii r *)
Definition in_ellipsoid (cx cy cz rx ry rz : K) (px py pz : K) : bool :=
  sfltb (sq ((px - cx) / rx) + sq ((py - cy) / ry) + sq ((pz - cz) / rz)) 1.
Definition in_disc (ch cv r : K) (ph pv : K) : bool := sfltb (sq ((ph - ch) / r) + sq ((pv - cv) / r)) 1.
End Shapes.

(* ---------- comparison helpers for the correspondence (Qc instance) ---------- *)
From Coq Require Import QArith Qcanon.
From FV Require Import base.Util.
Definition edge_fn (l : list Qc) : nat -> Qc := fun i => nth i l 0%Qc.
Definition AX (l : list Qc) (lo hi : nat) : Axis QcOF := mkAxis QcOF (edge_fn l) lo hi.
(* implementation bit b agrees with the model's strict comparison s < 1, except that inside the
   round-off band |s - 1| <= tol either answer is accepted (tol = 0: exact) *)
Definition bit_agree (tol : Qc) (s : Qc) (b : bool) : bool :=
  if Qcleb (Qc_abs (s - 1)%Qc) tol && negb (Qc_eqb tol 0%Qc) then true else Bool.eqb b (negb (Qcleb 1%Qc s)).
Definition tab3 {A} (nx ny nz : nat) (f : nat -> nat -> nat -> A) : list (list (list A)) :=
  map (fun i => map (fun j => map (fun k => f i j k) (seq 0 nz)) (seq 0 ny)) (seq 0 nx).
Definition all3 (l : list (list (list bool))) : bool := forallb (forallb (forallb (fun b => b))) l.
Definition zip3 {A B C} (f : A -> B -> C) (a : list (list (list A))) (b : list (list (list B))) : list (list (list C)) :=
  map (fun p => map (fun q => map (fun r => f (fst r) (snd r)) (combine (fst q) (snd q))) (combine (fst p) (snd p))) (combine a b).
Definition same_shape3 {A B} (a : list (list (list A))) (b : list (list (list B))) : bool :=
  Nat.eqb (length a) (length b) &&
  forallb (fun p => Nat.eqb (length (fst p)) (length (snd p)) &&
                    forallb (fun q => Nat.eqb (length (fst q)) (length (snd q))) (combine (fst p) (snd p))) (combine a b).
Definition sphere_agree (tol : Qc) (ax ay az : Axis QcOF) (rx ry rz : Qc) (impl : list (list (list bool))) : bool :=
  let m := tab3 (ax_n _ ax) (ax_n _ ay) (ax_n _ az) (fun i j k => sphere_sum QcOF ax ay az rx ry rz i j k) in
  same_shape3 m impl && all3 (zip3 (bit_agree tol) m impl).
Definition cyl_agree (tol : Qc) (axis : nat) (n3 : nat * nat * nat) (ah av : Axis QcOF) (r : Qc) (impl : list (list (list bool))) : bool :=
  let '(nx, ny, nz) := n3 in
  let m := tab3 nx ny nz (fun i j k => cyl_sum QcOF ah av r (fst (transverse axis i j k)) (snd (transverse axis i j k))) in
  same_shape3 m impl && all3 (zip3 (bit_agree tol) m impl).
(* polygons: cells flagged in [skip] (centre closer than the tolerance to a polygon edge) are not compared *)
Definition poly_agree (axis : nat) (n3 : nat * nat * nat) (ah av : Axis QcOF) (verts : list (Qc * Qc))
  (skip impl : list (list (list bool))) : bool :=
  let '(nx, ny, nz) := n3 in
  let m := tab3 nx ny nz (fun i j k => poly_mask QcOF axis ah av verts i j k) in
  same_shape3 m impl && same_shape3 m skip &&
  all3 (zip3 (fun (mb : bool) (si : bool * bool) => if fst si then true else Bool.eqb mb (snd si)) m (zip3 (@pair bool bool) skip impl)).
