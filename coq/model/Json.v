(* Json.v — executable model of conversion/json.py: _export_json / _import_obj_from_json on an
   abstract Python object graph.  No proofs.
   [pyv] is the object graph as seen by _export_json's type dispatch; [json] the value handed to
   json.dumps / returned by json.loads.  F = the float carrier (executed at Qc).
   Not modelled: the text layer (json.dumps(sort_keys=True) / json.loads, treated as a finite-map
   preserving round trip) and the Python constructors run by cls( **kwargs ) on import (the model
   rebuilds the node from the keyword arguments unchanged). *)
From Coq Require Import String List Bool ZArith Ascii.
Import ListNotations.
Local Open Scope string_scope.

Section Json.
  Variable F : Type.

  Inductive json :=
  | JNull | JBool (b : bool) | JInt (z : Z) | JFloat (x : F) | JStr (s : string)
  | JList (l : list json) | JObj (kv : list (string * json)).

  Inductive pyv :=
  | PNone | PBool (b : bool) | PInt (z : Z) | PFloat (x : F) | PStr (s : string)
  | PArr (payload : json)                                   (* numpy / jax array: ndarray.tolist() *)
  | PDtype (name : string)                                  (* member jax.numpy.<name> of JAX_DTYPES *)
  | PData (m n : string) (d : list (string * pyv))          (* dataclass instance: type module / name, __dict__ *)
  | PTree (m n : string) (fs : list (string * pyv))         (* TreeClass: get_public_fields() *)
  | PDict (kv : list (string * pyv))                        (* dict with str keys *)
  | PSeq (m n : string) (l : list pyv)                      (* list / tuple / other Sequence *)
  | PNull                                                   (* the NULL sentinel: Exception *)
  | POpaque.                                                (* anything else / nested class: NotImplementedError *)

  Definition starts_underscore (k : string) : bool :=
    match k with String c _ => Ascii.eqb c "_"%char | EmptyString => false end.
  Definition is_mod_name (k : string) : bool := (k =? "__module__") || (k =? "__name__").

  Definition hdr (m n : string) : list (string * json) := [("__module__", JStr m); ("__name__", JStr n)].

  (* _export_json ; None = an exception (NULL, NotImplementedError, the reserved-key assert) *)
  Fixpoint export (v : pyv) : option json :=
    match v with
    | PNone => Some JNull
    | PBool b => Some (JBool b)
    | PInt z => Some (JInt z)
    | PFloat x => Some (JFloat x)
    | PStr s => Some (JStr s)
    | PArr p => Some (JObj (hdr "numpy" "array" ++ [("__value__", p)]))
    | PDtype n => Some (JObj [("__dtype__", JStr ("jax.numpy." ++ n))])
    | PData m n d =>
        (* {k: _export_json(v) for k, v in obj.__dict__.items() if not k.startswith("_")} *)
        match (fix ed (l : list (string * pyv)) : option (list (string * json)) :=
                 match l with
                 | [] => Some []
                 | (k, x) :: r => if starts_underscore k then ed r
                                  else match export x, ed r with Some j, Some r' => Some ((k, j) :: r') | _, _ => None end
                 end) d with
        | Some kv => Some (JObj (hdr m n ++ [("__value__", JObj kv)]))
        | None => None
        end
    | PTree m n fs =>
        match (fix ef (l : list (string * pyv)) : option (list (string * json)) :=
                 match l with
                 | [] => Some []
                 | (k, x) :: r => match export x, ef r with Some j, Some r' => Some ((k, j) :: r') | _, _ => None end
                 end) fs with
        | Some kv => Some (JObj (hdr m n ++ kv))
        | None => None
        end
    | PDict kv =>
        match (fix ek (l : list (string * pyv)) : option (list (string * json)) :=
                 match l with
                 | [] => Some []
                 | (k, x) :: r => if is_mod_name k then None      (* assert k not in ["__module__", "__name__"] *)
                                  else match export x, ek r with Some j, Some r' => Some ((k, j) :: r') | _, _ => None end
                 end) kv with
        | Some kv' => Some (JObj (hdr "builtins" "dict" ++ kv'))
        | None => None
        end
    | PSeq m n l =>
        match (fix el (l : list pyv) : option (list json) :=
                 match l with
                 | [] => Some []
                 | x :: r => match export x, el r with Some j, Some r' => Some (j :: r') | _, _ => None end
                 end) l with
        | Some js => Some (JObj (hdr m n ++ [("__value__", JList js)]))
        | None => None
        end
    | PNull => None
    | POpaque => None
    end.

  (* export_json: refuses bare scalars, the result must be a dict *)
  Definition export_top (v : pyv) : option json :=
    match v with
    | PFloat _ | PInt _ | PStr _ | PBool _ => None
    | _ => match export v with Some (JObj kv) => Some (JObj kv) | _ => None end
    end.

  (* python dict lookup on a decoded JSON object *)
  Fixpoint assoc {X} (key : string) (l : list (string * X)) : option X :=
    match l with [] => None | (k, x) :: r => if k =? key then Some x else assoc key r end.

  (* str.split(".") *)
  Fixpoint split_dot (s : string) : list string :=
    match s with
    | EmptyString => [""]
    | String c r => if Ascii.eqb c "."%char then "" :: split_dot r
                    else match split_dot r with h :: t => String c h :: t | [] => [String c ""] end
    end.

  (* what the "__value__" entry decodes to *)
  Inductive value_part :=
  | VAbsent
  | VFields (kw : option (list (string * pyv)))             (* a dict: keyword arguments of a dataclass *)
  | VItems (raw : list json) (items : option (list pyv))    (* a list: the sequence argument *)
  | VScalar (raw : json) (x : option pyv).                  (* a bare scalar (0-d array) *)

  (* _import_obj_from_json ; None = an exception or a constructor call the model does not cover *)
  Fixpoint import (j : json) : option pyv :=
    match j with
    | JNull => Some PNone
    | JBool b => Some (PBool b)
    | JInt z => Some (PInt z)
    | JFloat x => Some (PFloat x)
    | JStr s => Some (PStr s)
    | JList l =>
        option_map (PSeq "builtins" "list")
          ((fix il (l : list json) : option (list pyv) :=
              match l with [] => Some [] | x :: r => match import x, il r with Some v, Some r' => Some (v :: r') | _, _ => None end end) l)
    | JObj kv =>
        let il := (fix il (l : list json) : option (list pyv) :=
              match l with [] => Some [] | x :: r => match import x, il r with Some v, Some r' => Some (v :: r') | _, _ => None end end) in
        let imf := (fix imf (skip : bool) (l : list (string * json)) : option (list (string * pyv)) :=
              match l with
              | [] => Some []
              | (k, x) :: r => if skip && is_mod_name k then imf skip r
                               else match import x, imf skip r with Some v, Some r' => Some ((k, v) :: r') | _, _ => None end
              end) in
        let vp := (fix find (l : list (string * json)) : value_part :=
              match l with
              | [] => VAbsent
              | (k, x) :: r => if k =? "__value__" then
                                 match x with
                                 | JObj vals => VFields (imf false vals)
                                 | JList vals => VItems vals (il vals)
                                 | _ => VScalar x (import x)
                                 end
                               else find r
              end) kv in
        match assoc "__dtype__" kv with
        | Some (JStr s) => option_map PDtype (nth_error (split_dot s) 2)      (* getattr(jax.numpy, s.split(".")[2]) *)
        | Some _ => None
        | None =>
            match assoc "__module__" kv, assoc "__name__" kv with
            | Some (JStr m), Some (JStr n) =>
                match vp with
                | VFields kw => option_map (PData m n) kw                       (* cls( **kwargs ) *)
                | VItems raw items =>                                          (* cls(imported_vals) *)
                    match items with
                    | Some its => if (m =? "numpy") && (n =? "array") then Some (PArr (JList raw)) else Some (PSeq m n its)
                    | None => None
                    end
                | VScalar raw x =>
                    match x with
                    | Some _ => if (m =? "numpy") && (n =? "array") then Some (PArr raw) else None
                    | None => None
                    end
                | VAbsent =>
                    if n =? "dict" then option_map PDict (imf true kv)
                    else option_map (PTree m n) (imf true kv)                  (* cls( **kwargs_dict ) *)
                end
            | _, _ => None                                                    (* assert "__module__" in obj ... *)
            end
        end
    end.

  (* ------------------------------------------------------------------ well-formed object graphs *)
  Definition reserved (k : string) : bool :=
    is_mod_name k || (k =? "__value__") || (k =? "__dtype__").
  Fixpoint no_dot (s : string) : bool :=
    match s with EmptyString => true | String c r => negb (Ascii.eqb c "."%char) && no_dot r end.
  Fixpoint keys_ok {X} (l : list (string * X)) : bool :=
    match l with [] => true | (k, _) :: r => negb (reserved k) && keys_ok r end.

  (* array payload: numbers and lists of them only *)
  Fixpoint plain (j : json) : bool :=
    match j with
    | JInt _ | JFloat _ | JBool _ => true
    | JList l => (fix pl (l : list json) : bool := match l with [] => true | x :: r => plain x && pl r end) l
    | _ => false
    end.

  Definition is_array_cls (m n : string) : bool := (m =? "numpy") && (n =? "array").

  Fixpoint wfb (v : pyv) : bool :=
    match v with
    | PNone | PBool _ | PInt _ | PFloat _ | PStr _ => true
    | PArr p => plain p
    | PDtype n => no_dot n
    | PData m n d =>
        (fix wd (l : list (string * pyv)) : bool :=
           match l with [] => true | (k, x) :: r => negb (reserved k) && negb (starts_underscore k) && wfb x && wd r end) d
    | PTree m n fs =>
        negb (n =? "dict") &&
        (fix wf (l : list (string * pyv)) : bool :=
           match l with [] => true | (k, x) :: r => negb (reserved k) && wfb x && wf r end) fs
    | PDict kv =>
        (fix wk (l : list (string * pyv)) : bool :=
           match l with [] => true | (k, x) :: r => negb (reserved k) && wfb x && wk r end) kv
    | PSeq m n l =>
        negb (is_array_cls m n) &&
        (fix wl (l : list pyv) : bool := match l with [] => true | x :: r => wfb x && wl r end) l
    | PNull | POpaque => false
    end.
End Json.

Arguments JNull {F}. Arguments JBool {F}. Arguments JInt {F}. Arguments JFloat {F}. Arguments JStr {F}.
Arguments JList {F}. Arguments JObj {F}.
Arguments PNone {F}. Arguments PBool {F}. Arguments PInt {F}. Arguments PFloat {F}. Arguments PStr {F}.
Arguments PArr {F}. Arguments PDtype {F}. Arguments PData {F}. Arguments PTree {F}. Arguments PDict {F}.
Arguments PSeq {F}. Arguments PNull {F}. Arguments POpaque {F}.
