(* Grid.v — executable model of fdtdx/core/grid.py: RectilinearGrid (and the three time-step
   formulas of config.py: SimulationConfig.time_step_duration).  Generic over an ordered field;
   executed at QcOF.  No proofs.
   Oracles (Section variables): half = 0.5, tolU = 1e-4, rnd14 = np.round(., decimals=14),
   s3 = float(np.sqrt(3.0)), sm = float(np.sqrt(inv_metric)). *)
From Coq Require Import ZArith List Bool.
From FV Require Import base.Scalar base.GridBase.
Import ListNotations.
Local Open Scope fld_scope.

Inductive snap := Nearest | Lower | Upper.
Inductive bres := BOk (lo hi : Z) | BErrSize | BErrFit.
(* reduce_symmetric: error carries the axis *)
Inductive rres (A : Type) := ROk (g : A) | RErrOdd (axis : nat) | RErrAsym (axis : nat).
Arguments ROk {A}. Arguments RErrOdd {A}. Arguments RErrAsym {A}.

Section Grid.
  Variable K : OFld.
  Notation F := (car K).
  Variable half : F.            (* 0.5 *)
  Variable tolU : F.            (* 1e-4 : relative uniformity / mirror-symmetry tolerance *)
  Variable rnd14 : F -> F.      (* np.round(x, decimals=14) *)

  Definition e_at (edges : list F) (i : nat) : F := nth i edges 0.

  (* np.diff(edges) *)
  Fixpoint diffs (l : list F) : list F :=
    match l with
    | x :: ((y :: _) as r) => (y - x) :: diffs r
    | _ => []
    end.

  (* __post_init__: strictly increasing edges, at least two entries *)
  Fixpoint increasingb (l : list F) : bool :=
    match l with
    | x :: ((y :: _) as r) => fltb x y && increasingb r
    | _ => true
    end.
  Definition valid_edges (l : list F) : bool := (2 <=? length l)%nat && increasingb l.

  (* np.searchsorted(edges, c, side="right") on a sorted array: number of leading entries <= c *)
  Fixpoint ss_right (l : list F) (c : F) : nat :=
    match l with [] => O | x :: r => if fleb K x c then S (ss_right r c) else O end.
  (* np.searchsorted(edges, c, side="left"): number of leading entries < c *)
  Fixpoint ss_left (l : list F) (c : F) : nat :=
    match l with [] => O | x :: r => if fltb x c then S (ss_left r c) else O end.

  (* RectilinearGrid.coord_to_index *)
  Definition coord_to_index (edges : list F) (c : F) (s : snap) : Z :=
    match s with
    | Nearest => Z.of_nat (argmin (map (fun e => fabs (e - c)) edges))
    | Lower => Z.of_nat (ss_right edges c) - 1
    | Upper => Z.of_nat (ss_left edges c)
    end.

  (* interval anchor of the candidate starting at l: lower + 0.5*(position+1)*(upper-lower) *)
  Definition anchor_of (edges : list F) (size : nat) (pos : F) (l : nat) : F :=
    e_at edges l + half * (pos + 1) * (e_at edges (l + size) - e_at edges l).
  (* interval center of the candidate starting at l: 0.5*(lower+upper) *)
  Definition center_of (edges : list F) (size : nat) (l : nat) : F :=
    half * (e_at edges l + e_at edges (l + size)).

  Definition choose (edges : list F) (size : Z) (key : nat -> F) (target : F) : bres :=
    if (size <=? 0)%Z then BErrSize
    else let max_lower := (Z.of_nat (length edges) - size - 1)%Z in
      if (max_lower <? 0)%Z then BErrFit
      else let cands := seq 0 (Z.to_nat (max_lower + 1)) in
        let lo := argmin (map (fun l => fabs (key l - target)) cands) in
        BOk (Z.of_nat lo) (Z.of_nat lo + size).

  (* RectilinearGrid.bounds_for_center *)
  Definition bounds_for_center (edges : list F) (center : F) (size : Z) : bres :=
    choose edges size (center_of edges (Z.to_nat size)) center.
  (* RectilinearGrid.bounds_for_anchor *)
  Definition bounds_for_anchor (edges : list F) (size : Z) (anchor pos : F) : bres :=
    choose edges size (anchor_of edges (Z.to_nat size) pos) anchor.
  (* RectilinearGrid.anchor_coordinate *)
  Definition anchor_coordinate (edges : list F) (lo hi : nat) (pos : F) : F :=
    e_at edges lo + half * (pos + 1) * (e_at edges hi - e_at edges lo).

  (* RectilinearGrid.axis_extent *)
  Definition axis_extent (edges : list F) (lo hi : nat) : F := e_at edges hi - e_at edges lo.
  (* python slice widths[lo:hi] *)
  Definition slice (l : list F) (lo hi : nat) : list F := firstn (hi - lo) (skipn lo l).
  (* RectilinearGrid.face_area: outer product of the two transverse width slices (ascending axes) *)
  Definition outer2 (a b : list F) : list (list F) := map (fun x => map (fun y => x * y) b) a.
  Definition face_area (ea eb : list F) (la ha lb hb : nat) : list (list F) :=
    outer2 (slice (diffs ea) la ha) (slice (diffs eb) lb hb).
  (* RectilinearGrid.cell_volume *)
  Definition cell_volume (ex ey ez : list F) (x0 x1 y0 y1 z0 z1 : nat) : list (list (list F)) :=
    map (fun a => map (fun b => map (fun c => a * b * c) (slice (diffs ez) z0 z1)) (slice (diffs ey) y0 y1))
        (slice (diffs ex) x0 x1).
  (* RectilinearGrid.centers *)
  Fixpoint centers (l : list F) : list F :=
    match l with
    | x :: ((y :: _) as r) => half * (x + y) :: centers r
    | _ => []
    end.

  (* __post_init__: _min_spacings, _is_uniform, _uniform_spacing.  eps8 = 8 * finfo(dtype).eps *)
  Definition min_spacing_axis (edges : list F) : F := minl 0 (diffs edges).
  Definition spacing0 (ex : list F) : F := nth 0 (diffs ex) 0.
  Definition uniform_axis (eps8 spacing : F) (edges : list F) : bool :=
    let roundoff := eps8 * maxl 0 (map fabs edges) in
    fleb K (maxl 0 (map (fun w => fabs (w - spacing)) (diffs edges))) (tolU * fabs spacing + roundoff).
  Definition is_uniform (eps8 : F) (ex ey ez : list F) : bool :=
    let sp := spacing0 ex in
    uniform_axis eps8 sp ex && uniform_axis eps8 sp ey && uniform_axis eps8 sp ez.
  Definition uniform_spacing (eps8 : F) (ex ey ez : list F) : option F :=
    if is_uniform eps8 ex ey ez then Some (rnd14 (spacing0 ex)) else None.

  (* 1/dx_min^2 + 1/dy_min^2 + 1/dz_min^2 *)
  Definition inv_metric (ex ey ez : list F) : F :=
    let dx := min_spacing_axis ex in let dy := min_spacing_axis ey in let dz := min_spacing_axis ez in
    1 / (dx * dx) + 1 / (dy * dy) + 1 / (dz * dz).

  (* RectilinearGrid.cfl_time_step; c0 = constants.c, s3 ~ sqrt 3, sm ~ sqrt inv_metric *)
  Definition cfl_time_step (s3 sm c0 eps8 : F) (ex ey ez : list F) (cf : F) : F :=
    match uniform_spacing eps8 ex ey ez with
    | Some us => (cf / s3) * us / c0
    | None => cf / (c0 * sm)
    end.
  (* the same quantity as (c0*dt)^2, without square roots *)
  Definition cfl_sq (eps8 : F) (ex ey ez : list F) (cf : F) : F :=
    match uniform_spacing eps8 ex ey ez with
    | Some us => cf * cf * (us * us) / f3
    | None => cf * cf / inv_metric ex ey ez
    end.
  (* config.py time_step_duration for the unresolved policies: courant_number * spacing / c *)
  Definition dt_unresolved (s3 c0 cf spacing : F) : F := (cf / s3) * spacing / c0.

  (* jnp.allclose(w, w[::-1], rtol=1e-4, atol=0): |a-b| <= rtol*|b| elementwise *)
  Definition mirror_close (w : list F) : bool :=
    forallb (fun p => fleb K (fabs (fst p - snd p)) (tolU * fabs (snd p))) (combine w (rev w)).

  (* one axis of reduce_symmetric *)
  Definition reduce_axis (a : nat) (sym : Z) (edges : list F) : rres (list F) :=
    if (sym =? 0)%Z then ROk edges
    else let n := (length edges - 1)%nat in
      if (n <? 2)%nat || negb (Nat.even n) then RErrOdd a
      else if negb (mirror_close (diffs edges)) then RErrAsym a
      else ROk (skipn (n / 2) edges).

  (* RectilinearGrid.reduce_symmetric (axes are processed in order x, y, z; first error wins) *)
  Definition reduce_symmetric (sx sy sz : Z) (ex ey ez : list F) : rres (list F * list F * list F) :=
    match reduce_axis 0 sx ex with
    | ROk nx => match reduce_axis 1 sy ey with
                | ROk ny => match reduce_axis 2 sz ez with
                            | ROk nz => ROk (nx, ny, nz)
                            | RErrOdd a => RErrOdd a | RErrAsym a => RErrAsym a end
                | RErrOdd a => RErrOdd a | RErrAsym a => RErrAsym a end
    | RErrOdd a => RErrOdd a | RErrAsym a => RErrAsym a
    end.

  (* RectilinearGrid.uniform: lower + spacing * arange(n+1) *)
  Fixpoint fnat (n : nat) : F := match n with O => 0 | S k => fnat k + 1 end.
  Definition uniform_edges (lower spacing : F) (n : nat) : list F :=
    map (fun i => lower + spacing * fnat i) (seq 0 (S n)).
End Grid.

(* executable np.round(x, 14) at Qc: round-half-even of x*10^14 *)
From Coq Require Import QArith Qcanon.
From FV Require Import base.PyNum.
Definition Qc_rnd14 (x : Qc) : Qc :=
  let p := Qnum (this x) in let d := Zpos (Qden (this x)) in
  q (py_round_div (p * 10 ^ 14) d) (10 ^ 14).
(* constants of the executable instance *)
Definition q_half : Qc := q 1 2.
Definition q_tolU : Qc := q 1 10000.
Definition q_eps8 : Qc := q 8 4503599627370496.   (* 8 * finfo(float64).eps = 8 * 2^-52 *)
Definition q_eps8_f32 : Qc := q 8 8388608.        (* 8 * finfo(float32).eps = 8 * 2^-23 *)
