(* Heap.v — executable model of TreeClass.aset (fdtdx/core/jax/pytrees.py) over a store of nodes with
   identities (address = index in the store; allocation appends; [write] is in-place mutation).
   Python objects: TreeClass instances (class name + attributes), lists, dicts, leaves.  No proofs.
   Abstraction (documented in docs/C40.md): pytreeclass' `.at["_aset"]` is modelled as copy-then-setattr of
   the class node itself; its re-creation of off-path pytree containers below that node is not tracked. *)
From Coq Require Import ZArith List Bool.
Import ListNotations.
Open Scope Z_scope.

Definition addr := nat.
Inductive content :=
| CLeaf (v : Z)
| CClass (cname : Z) (fields : list (Z * addr))
| CList (items : list addr)
| CDict (entries : list (Z * addr)).
Definition store := list content.

(* parsed path operations: attribute, [int], ['key'] (strings are numbered by the harness) *)
Inductive op := Attr (k : Z) | Idx (i : Z) | Key (k : Z).
Inductive res (A : Type) := Ok (a : A) | Err.
Arguments Ok {A}. Arguments Err {A}.

Fixpoint assoc (k : Z) (l : list (Z * addr)) : option addr :=
  match l with [] => None | (k', x) :: r => if k =? k' then Some x else assoc k r end.
(* setattr / dict.__setitem__: replace in place, or append a new entry *)
Fixpoint assoc_set (k : Z) (v : addr) (l : list (Z * addr)) : list (Z * addr) :=
  match l with [] => [(k, v)] | (k', x) :: r => if k =? k' then (k, v) :: r else (k', x) :: assoc_set k v r end.
(* Python list index: negative indices count from the end; out of range = IndexError *)
Definition norm_idx (i : Z) (n : nat) : option nat :=
  let j := if i <? 0 then i + Z.of_nat n else i in
  if (0 <=? j) && (j <? Z.of_nat n) then Some (Z.to_nat j) else None.
Fixpoint set_nth {A} (n : nat) (x : A) (l : list A) : list A :=
  match l, n with
  | [], _ => []
  | _ :: r, O => x :: r
  | y :: r, S m => y :: set_nth m x r
  end.
(* in-place mutation of the object at address a *)
Definition write (s : store) (a : addr) (c : content) : store := set_nth a c s.

(* getattr / __getitem__ *)
Definition child (s : store) (a : addr) (o : op) : option addr :=
  match nth_error s a, o with
  | Some (CClass _ fs), Attr k => assoc k fs
  | Some (CList items), Idx i => match norm_idx i (length items) with Some j => nth_error items j | None => None end
  | Some (CDict es), Key k => assoc k es
  | _, _ => None
  end.
Fixpoint lookup (s : store) (a : addr) (ops : list op) : option addr :=
  match ops with [] => Some a | o :: r => match child s a o with Some c => lookup s c r | None => None end end.

(* a missing final attribute / key passes the first loop of aset when create_new_ok (phase 2 then type-checks) *)
Definition creatable (s : store) (a : addr) (o : op) : bool :=
  match o, nth_error s a with
  | Attr _, Some _ => true
  | Key _, Some (CList _) | Key _, Some (CDict _) => true
  | _, _ => false
  end.

(* first loop of aset: collect attr_list (the parent object of every operation) *)
Fixpoint walk (s : store) (cur : addr) (ops : list op) (create : bool) : res (list addr) :=
  match ops with
  | [] => Err                                   (* _parse_operations rejects the empty string *)
  | [o] => match child s cur o with
           | Some _ => Ok [cur]
           | None => if create && creatable s cur o then Ok [cur] else Err
           end
  | o :: rest => match child s cur o with
                 | Some c => match walk s c rest create with Ok l => Ok (cur :: l) | Err => Err end
                 | None => Err
                 end
  end.

(* one iteration of the bottom-up loop: copy the parent (fresh object), then set the slot ON THE COPY *)
Definition step (s : store) (p : addr) (o : op) (cur : addr) : res (store * addr) :=
  match nth_error s p, o with
  | Some (CClass n fs), Attr k =>          (* current_parent.at["_aset"](op, cur_attr) *)
      let s1 := s ++ [CClass n fs] in Ok (write s1 (length s) (CClass n (assoc_set k cur fs)), length s)
  | Some (CList items), Idx i =>           (* cpy = current_parent.copy(); cpy[int(op)] = cur_attr *)
      match norm_idx i (length items) with
      | Some j => let s1 := s ++ [CList items] in Ok (write s1 (length s) (CList (set_nth j cur items)), length s)
      | None => Err
      end
  | Some (CDict es), Key k =>              (* cpy = current_parent.copy(); cpy[op] = cur_attr *)
      let s1 := s ++ [CDict es] in Ok (write s1 (length s) (CDict (assoc_set k cur es)), length s)
  | _, _ => Err
  end.

(* bottom-up loop over (parent, op) pairs given top-down *)
Fixpoint rebuild (s : store) (pl : list (addr * op)) (cur : addr) : res (store * addr) :=
  match pl with
  | [] => Ok (s, cur)
  | (p, o) :: r => match rebuild s r cur with Ok (s1, c1) => step s1 p o c1 | Err => Err end
  end.

(* TreeClass.aset(path, val, create_new_ok); val is an object already in the store *)
Definition aset (s : store) (root : addr) (ops : list op) (v : addr) (create : bool) : res (store * addr) :=
  match nth_error s root with
  | Some (CClass _ _) =>
      match walk s root ops create with
      | Ok pl => rebuild s (combine pl ops) v
      | Err => Err
      end
  | _ => Err
  end.

(* observation used by the correspondence: unfold the object graph at an address into a tree *)
Inductive tree :=
| TLeaf (a : addr) (v : Z)
| TClass (a : addr) (cname : Z) (fields : list (Z * tree))
| TList (a : addr) (items : list tree)
| TDict (a : addr) (entries : list (Z * tree))
| TBad.
Fixpoint unfold (fuel : nat) (s : store) (a : addr) : tree :=
  match fuel with
  | O => TBad
  | S f => match nth_error s a with
           | Some (CLeaf v) => TLeaf a v
           | Some (CClass n fs) => TClass a n (map (fun kv => (fst kv, unfold f s (snd kv))) fs)
           | Some (CList items) => TList a (map (unfold f s) items)
           | Some (CDict es) => TDict a (map (fun kv => (fst kv, unfold f s (snd kv))) es)
           | None => TBad
           end
  end.
