(* Colocate.v — executable model of the co-located detector records (C15).
   Source: src/fdtdx/fdtd/update.py  (update_detector_states.helper_fn / is_interior,
           pad_fields_for_boundaries, pad_fields_with_symmetry_mirror, get_wrap_padding_axes),
           src/fdtdx/core/misc.py (pad_fields), src/fdtdx/objects/boundaries/bloch.py (apply_pad_correction),
           src/fdtdx/core/physics/symmetry.py (field_component_parity, component_sits_on_plane,
           mirror_pairs_on_plane), src/fdtdx/core/physics/curl.py (_backward_edge_average, interpolate_fields).
   No proofs here.  Arrays are functions of indices (A3 = nat -> nat -> nat -> F, Vec = component -> A3);
   a padded array is indexed by its own (padded) indices 0 .. n+1 per axis, exactly as the code's
   [1:-1] / [:-2] / [2:] slices read it.  The scalar carrier is any field K (executed at Qc and at the
   Gaussian rationals of base/ColocateBase.v for complex / Bloch runs). *)
From Coq Require Import List Arith Bool ZArith.
From FV Require Import base.Scalar base.Sums base.DetectorsBase model.Detectors.
Import ListNotations.
Local Open Scope fld_scope.

Inductive Ax : Type := AX | AY | AZ.
Definition axnat (a : Ax) : nat := match a with AX => 0 | AY => 1 | AZ => 2 end.
Definition adim (s : shape3) (a : Ax) : nat := match a with AX => dimx s | AY => dimy s | AZ => dimz s end.
Definition ix (a : Ax) (I J K : nat) : nat := match a with AX => I | AY => J | AZ => K end.

Section ColocateModel.
  Variable K : Fld.
  Notation F := (car K).
  Notation A3 := (A3 K).
  Notation Vec := (Vec K).
  Notation Grid := (Grid K).

  Definition two : F := 1 + 1.
  Definition halfc : F := 1 / two.                               (* the float literal 0.5 *)

  (* ---- boundary objects as the padding code sees them ----
     BTerm: PEC / PMC / PML (uses_wrap_padding False, apply_pad_correction = identity);
     BPeriodic: BlochBoundary whose k-component along its axis is 0 (needs_complex_fields False);
     BBloch ph cph: BlochBoundary with phase = exp(i k L) and its conjugate (values: oracle from the
     implementation; the model only multiplies by them). [bsymwall] = the _is_symmetry_wall flag. *)
  Inductive BKind : Type := BTerm | BPeriodic | BBloch (ph cph : F).
  Record Bnd : Type := mkBnd { baxis : Ax; bmax : bool; bkind : BKind; bsymwall : bool }.

  Definition uses_wrap (b : Bnd) : bool := match bkind b with BTerm => false | _ => true end.
  Definition ax_eqb (a b : Ax) : bool := Nat.eqb (axnat a) (axnat b).
  (* update.py get_wrap_padding_axes *)
  Definition wrap_axis (bnds : list Bnd) (a : Ax) : bool := existsb (fun b => uses_wrap b && ax_eqb (baxis b) a) bnds.

  (* array with coordinate [a] replaced by [v] *)
  Definition at_ax (a : Ax) (v : nat) (g : A3) : A3 :=
    fun I J K => match a with AX => g v J K | AY => g I v K | AZ => g I J v end.

  (* ---- core/misc.py pad_fields ----
     [embed]: the unpadded array addressed by padded indices (cell i at padded index i+1);
     [pad_axis]: one jnp.pad(..., (1,1), mode="wrap"|"constant") along axis a of extent n:
     padded index 0 <- last cell (padded n) / 0, padded index n+1 <- first cell (padded 1) / 0.
     The three pads run in order x, y, z, each on the output of the previous one (so the halo of a
     later axis copies the halo of an earlier one: corners). *)
  Definition embed (f : A3) : A3 := fun I J K => f (pred I) (pred J) (pred K).
  Definition pad_axis (a : Ax) (wrap : bool) (n : nat) (g : A3) : A3 := fun I J K =>
    if Nat.eqb (ix a I J K) 0 then (if wrap then at_ax a n g I J K else 0)
    else if Nat.eqb (ix a I J K) (S n) then (if wrap then at_ax a 1 g I J K else 0)
    else g I J K.
  Definition pad_fields (dims : shape3) (wr : Ax -> bool) (f : A3) : A3 :=
    pad_axis AZ (wr AZ) (dimz dims) (pad_axis AY (wr AY) (dimy dims) (pad_axis AX (wr AX) (dimx dims) (embed f))).

  (* ---- update.py pad_fields_for_boundaries ---- *)
  (* padded.at[..., axis: 0:1].set(0) *)
  Definition zero_slab (a : Ax) (g : A3) : A3 := fun I J K => if Nat.eqb (ix a I J K) 0 then 0 else g I J K.
  Definition sym_zero (sym : Ax -> Z) (wr : Ax -> bool) (a : Ax) (g : A3) : A3 :=
    if negb (Z.eqb (sym a) 0) && wr a then zero_slab a g else g.
  (* bloch.py apply_pad_correction: ghost slab (index 0 for '-', index -1 = n+1 for '+') times conj(phase) / phase *)
  Definition scale_slab (a : Ax) (t : nat) (ph : F) (g : A3) : A3 :=
    fun I J K => if Nat.eqb (ix a I J K) t then g I J K * ph else g I J K.
  Definition pad_correction (dims : shape3) (b : Bnd) (g : A3) : A3 :=
    match bkind b with
    | BBloch ph cph => if bmax b then scale_slab (baxis b) (S (adim dims (baxis b))) ph g else scale_slab (baxis b) 0 cph g
    | _ => g
    end.
  Definition pad_for_boundaries (dims : shape3) (bnds : list Bnd) (sym : Ax -> Z) (f : A3) : A3 :=
    let wr := wrap_axis bnds in
    let p := pad_fields dims wr f in
    let p := sym_zero sym wr AZ (sym_zero sym wr AY (sym_zero sym wr AX p)) in
    fold_left (fun g b => pad_correction dims b g) bnds p.

  (* ---- core/physics/symmetry.py ---- *)
  (* field_component_parity; 0 stands for the ValueError (wall not in {-1,+1}), never reached below *)
  Definition parity (isH : bool) (c : nat) (a : Ax) (wall : Z) : Z :=
    let normal := Nat.eqb c (axnat a) in
    if Z.eqb wall (-1) then (if isH then (if normal then -1 else 1) else (if normal then 1 else -1))%Z
    else if Z.eqb wall 1 then (if isH then (if normal then 1 else -1) else (if normal then -1 else 1))%Z
    else 0%Z.
  Definition sits_on_plane (isH : bool) (c : nat) (a : Ax) : bool :=
    if isH then Nat.eqb c (axnat a) else negb (Nat.eqb c (axnat a)).
  Definition pairs_on_plane (isH : bool) (c : nat) (a : Ax) (wall : Z) : bool := Z.eqb wall (-1) && sits_on_plane isH c a.
  Definition zsign (z : Z) : F := match z with Z0 => 0 | Zpos _ => 1 | Zneg _ => - (1) end.

  (* ---- update.py pad_fields_with_symmetry_mirror ---- *)
  Definition PVec : Type := nat -> A3.
  (* padded.at[component, target(axis: 0:1)].set(parity * padded[component, source(axis: s:s+1)]) *)
  Definition mirror_set (a : Ax) (comp : nat) (par : F) (s : nat) (p : PVec) : PVec :=
    fun c I J K => if Nat.eqb c comp && Nat.eqb (ix a I J K) 0 then par * at_ax a s (p c) I J K else p c I J K.
  Definition mirror_comp (isH : bool) (a : Ax) (wall : Z) (p : PVec) (comp : nat) : PVec :=
    mirror_set a comp (zsign (parity isH comp a wall)) (if pairs_on_plane isH comp a wall then 2 else 1) p.
  Definition mirror_boundary (isH : bool) (sym : Ax -> Z) (p : PVec) (b : Bnd) : PVec :=
    if negb (bsymwall b) then p
    else if negb (Z.eqb (sym (baxis b)) (-1)) then p
    else fold_left (mirror_comp isH (baxis b) (sym (baxis b))) [0; 1; 2]%nat p.
  Definition pad_mirror (dims : shape3) (bnds : list Bnd) (sym : Ax -> Z) (isH : bool) (f : Vec) : PVec :=
    fold_left (mirror_boundary isH sym) bnds (fun c => pad_for_boundaries dims bnds sym (f c)).

  (* ---- curl.py _backward_edge_average ----
     [avg] = None: uniform grid, 0.5*(current+previous); Some g: rectilinear grid, half-width weights.
     [rs]: start of region_slice per axis ((0,0,0) when region_slice is None).
     previous_widths = concatenate([widths[:1], widths[:-1]]). *)
  Definition gw (g : Grid) (a : Ax) : nat -> F := match a with AX => wx g | AY => wy g | AZ => wz g end.
  Definition prevw (w : nat -> F) (i : nat) : F := match i with O => w O | S j => w j end.
  Definition bea (avg : option Grid) (rs : shape3) (a : Ax) (cur prev : A3) : A3 :=
    match avg with
    | None => fun i j k => halfc * (cur i j k + prev i j k)
    | Some g => fun i j k =>
        let x := Nat.add (adim rs a) (ix a i j k) in
        let chw := halfc * gw g a x in
        let phw := halfc * prevw (gw g a) x in
        (cur i j k * phw + prev i j k * chw) / (chw + phw)
    end.

  (* slices of a padded array: per axis 1 = [1:-1], 0 = [:-2], 2 = [2:] *)
  Definition sl (dx dy dz : nat) (p : A3) : A3 := fun i j k => p (Nat.add i dx) (Nat.add j dy) (Nat.add k dz).

  (* ---- curl.py interpolate_fields ---- *)
  Definition interp_E (avg : option Grid) (rs : shape3) (Ep : PVec) : Vec := fun c =>
    match c with
    | 0 => let lower := bea avg rs AX (sl 1 1 1 (Ep 0%nat)) (sl 0 1 1 (Ep 0%nat)) in
           let upper := bea avg rs AX (sl 1 1 2 (Ep 0%nat)) (sl 0 1 2 (Ep 0%nat)) in
           fun i j k => (lower i j k + upper i j k) / two
    | 1 => let lower := bea avg rs AY (sl 1 1 1 (Ep 1%nat)) (sl 1 0 1 (Ep 1%nat)) in
           let upper := bea avg rs AY (sl 1 1 2 (Ep 1%nat)) (sl 1 0 2 (Ep 1%nat)) in
           fun i j k => (lower i j k + upper i j k) / two
    | _ => sl 1 1 1 (Ep 2%nat)
    end.
  Definition interp_H (avg : option Grid) (rs : shape3) (Hp : PVec) : Vec := fun c =>
    match c with
    | 0 => bea avg rs AY (sl 1 1 1 (Hp 0%nat)) (sl 1 0 1 (Hp 0%nat))
    | 1 => bea avg rs AX (sl 1 1 1 (Hp 1%nat)) (sl 0 1 1 (Hp 1%nat))
    | _ => let lower_x := bea avg rs AX (sl 1 1 1 (Hp 2%nat)) (sl 0 1 1 (Hp 2%nat)) in
           let lower_xy := bea avg rs AY lower_x (bea avg rs AX (sl 1 0 1 (Hp 2%nat)) (sl 0 0 1 (Hp 2%nat))) in
           let upper_x := bea avg rs AX (sl 1 1 2 (Hp 2%nat)) (sl 0 1 2 (Hp 2%nat)) in
           let upper_xy := bea avg rs AY upper_x (bea avg rs AX (sl 1 0 2 (Hp 2%nat)) (sl 0 0 2 (Hp 2%nat))) in
           fun i j k => (lower_xy i j k + upper_xy i j k) / two
    end.

  (* ---- update.py update_detector_states ---- *)
  (* is_interior: all(s >= 1 and e <= grid_shape[a] - 1); region = (lo, n), e = lo + n *)
  Definition interior_ax (dims lo n : shape3) (a : Ax) : bool :=
    Nat.leb 1 (adim lo a) && Nat.leb (Nat.add (adim lo a) (adim n a)) (Nat.sub (adim dims a) 1).
  Definition is_interior (dims lo n : shape3) : bool := interior_ax dims lo n AX && interior_ax dims lo n AY && interior_ax dims lo n AZ.
  (* F[:, s-1:e+1] per axis *)
  Definition block (lo : shape3) (f : Vec) : PVec :=
    fun c I J K => f c (Nat.add (Nat.sub (dimx lo) 1) I) (Nat.add (Nat.sub (dimy lo) 1) J) (Nat.add (Nat.sub (dimz lo) 1) K).
  (* (H_prev + H) / 2 *)
  Definition havg (Hprev H : Vec) : Vec := fun c i j k => (Hprev c i j k + H c i j k) / two.
  Definition zero3 : shape3 := (0, 0, 0)%nat.

  (* the three branches of helper_fn: what the detector's update() receives as (E, H) *)
  Definition path_raw (lo : shape3) (E H : Vec) : Vec * Vec := (restrict lo E, restrict lo H).
  Definition path_block (avg : option Grid) (lo : shape3) (E H Hprev : Vec) : Vec * Vec :=
    (interp_E avg lo (block lo E), interp_H avg lo (havg (block lo Hprev) (block lo H))).
  Definition full_interp (avg : option Grid) (dims : shape3) (bnds : list Bnd) (sym : Ax -> Z) (E H Hprev : Vec) : Vec * Vec :=
    (interp_E avg zero3 (pad_mirror dims bnds sym false E), interp_H avg zero3 (pad_mirror dims bnds sym true (havg Hprev H))).
  Definition path_full (avg : option Grid) (dims : shape3) (bnds : list Bnd) (sym : Ax -> Z) (lo : shape3) (E H Hprev : Vec) : Vec * Vec :=
    let full := full_interp avg dims bnds sym E H Hprev in (restrict lo (fst full), restrict lo (snd full)).
  Definition detector_fields (exact : bool) (avg : option Grid) (dims : shape3) (bnds : list Bnd) (sym : Ax -> Z)
             (lo n : shape3) (E H Hprev : Vec) : Vec * Vec :=
    if negb exact then path_raw lo E H
    else if is_interior dims lo n then path_block avg lo E H Hprev
    else path_full avg dims bnds sym lo E H Hprev.

  (* FieldDetector.update stacks (E, H) in canonical order: Detectors.field_spatial *)
  Definition record (sel : list nat) (EHp : Vec * Vec) : Vec := field_spatial sel (fst EHp) (snd EHp).

  (* =====================================================================================
     Independent specification: the co-location stencil written on the domain indices with an
     explicit neighbour type (no padded arrays, no slices).
     ===================================================================================== *)
  Inductive XI : Type := Lo | In (i : nat) | Hi.
  Definition back (i : nat) : XI := match i with O => Lo | S j => In j end.           (* i - 1 *)
  Definition fwd (n k : nat) : XI := if Nat.eqb (S k) n then Hi else In (S k).          (* k + 1 *)

  (* products of the Bloch factors of the boundary objects on one face *)
  Fixpoint phase_lo (bnds : list Bnd) (a : Ax) : F :=
    match bnds with [] => 1 | b :: r =>
      (match bkind b with BBloch ph cph => if ax_eqb (baxis b) a && negb (bmax b) then cph else 1 | _ => 1 end) * phase_lo r a end.
  Fixpoint phase_hi (bnds : list Bnd) (a : Ax) : F :=
    match bnds with [] => 1 | b :: r =>
      (match bkind b with BBloch ph cph => if ax_eqb (baxis b) a && bmax b then ph else 1 | _ => 1 end) * phase_hi r a end.
  Definition has_mirror (bnds : list Bnd) (sym : Ax -> Z) (a : Ax) : bool :=
    Z.eqb (sym a) (-1) && existsb (fun b => bsymwall b && ax_eqb (baxis b) a) bnds.

  (* halo cell = factor * value of a domain cell (index along the axis).  Electric plane:
     tangential E and normal H are sampled on the plane and odd (- value of cell 1);
     normal E and tangential H are half a cell off and even (+ value of cell 0). *)
  Definition halo_lo (dims : shape3) (bnds : list Bnd) (sym : Ax -> Z) (isH : bool) (a : Ax) (c : nat) : F * nat :=
    if has_mirror bnds sym a then
      (if Bool.eqb isH (Nat.eqb c (axnat a)) then (- (1), 1%nat) else (1, 0%nat))
    else if wrap_axis bnds a then
      (if Z.eqb (sym a) 0 then (phase_lo bnds a, Nat.sub (adim dims a) 1) else (0, 0%nat))
    else (0, 0%nat).
  Definition halo_hi (bnds : list Bnd) (a : Ax) : F * nat :=
    if wrap_axis bnds a then (phase_hi bnds a, 0%nat) else (0, 0%nat).
  Definition ext1 (dims : shape3) (bnds : list Bnd) (sym : Ax -> Z) (isH : bool) (a : Ax) (c : nat) (x : XI) : F * nat :=
    match x with Lo => halo_lo dims bnds sym isH a c | In i => (1, i) | Hi => halo_hi bnds a end.
  (* the field extended by one cell on every side *)
  Definition ext (dims : shape3) (bnds : list Bnd) (sym : Ax -> Z) (isH : bool) (f : Vec) (c : nat) (x y z : XI) : F :=
    let ex := ext1 dims bnds sym isH AX c x in let ey := ext1 dims bnds sym isH AY c y in let ez := ext1 dims bnds sym isH AZ c z in
    fst ex * fst ey * fst ez * f c (snd ex) (snd ey) (snd ez).

  (* interpolation of two cell-centre samples to the edge between them: arithmetic mean (uniform
     grid) or linear interpolation by the distances edge-to-centre (half widths); cell 0 is
     paired with a ghost cell of its own width *)
  Definition edge_avg (avg : option Grid) (a : Ax) (i : nat) (cur prev : F) : F :=
    match avg with
    | None => (cur + prev) / two
    | Some g => let dc := gw g a i / two in let dp := (match i with O => gw g a O | S j => gw g a j end) / two in
                (cur * dp + prev * dc) / (dc + dp)
    end.
  Definition mid (l u : F) : F := (l + u) / two.

  Definition spec_E (avg : option Grid) (dims : shape3) (bnds : list Bnd) (sym : Ax -> Z) (E : Vec) : Vec :=
    let e := ext dims bnds sym false E in
    fun c i j k =>
      let z1 := fwd (dimz dims) k in
      match c with
      | 0 => mid (edge_avg avg AX i (e 0%nat (In i) (In j) (In k)) (e 0%nat (back i) (In j) (In k)))
                 (edge_avg avg AX i (e 0%nat (In i) (In j) z1) (e 0%nat (back i) (In j) z1))
      | 1 => mid (edge_avg avg AY j (e 1%nat (In i) (In j) (In k)) (e 1%nat (In i) (back j) (In k)))
                 (edge_avg avg AY j (e 1%nat (In i) (In j) z1) (e 1%nat (In i) (back j) z1))
      | _ => e 2%nat (In i) (In j) (In k)
      end.
  Definition spec_H (avg : option Grid) (dims : shape3) (bnds : list Bnd) (sym : Ax -> Z) (H Hprev : Vec) : Vec :=
    let h := ext dims bnds sym true (fun c i j k => (Hprev c i j k + H c i j k) / two) in
    fun c i j k =>
      let z1 := fwd (dimz dims) k in
      match c with
      | 0 => edge_avg avg AY j (h 0%nat (In i) (In j) (In k)) (h 0%nat (In i) (back j) (In k))
      | 1 => edge_avg avg AX i (h 1%nat (In i) (In j) (In k)) (h 1%nat (back i) (In j) (In k))
      | _ => let xy z := edge_avg avg AY j (edge_avg avg AX i (h 2%nat (In i) (In j) z) (h 2%nat (back i) (In j) z))
                                           (edge_avg avg AX i (h 2%nat (In i) (back j) z) (h 2%nat (back i) (back j) z)) in
             mid (xy (In k)) (xy z1)
      end.
End ColocateModel.

Arguments BTerm {K}. Arguments BPeriodic {K}. Arguments BBloch {K}. Arguments mkBnd {K}.
Arguments baxis {K}. Arguments bmax {K}. Arguments bkind {K}. Arguments bsymwall {K}.
Arguments wrap_axis {K}. Arguments at_ax {K}. Arguments embed {K}. Arguments pad_axis {K}. Arguments pad_fields {K}.
Arguments zero_slab {K}. Arguments sym_zero {K}. Arguments scale_slab {K}. Arguments pad_correction {K}.
Arguments pad_for_boundaries {K}. Arguments zsign {K}. Arguments mirror_set {K}. Arguments mirror_comp {K}.
Arguments mirror_boundary {K}. Arguments pad_mirror {K}. Arguments gw {K}. Arguments prevw {K}. Arguments bea {K}.
Arguments sl {K}. Arguments interp_E {K}. Arguments interp_H {K}. Arguments block {K}. Arguments havg {K}.
Arguments path_raw {K}. Arguments path_block {K}. Arguments full_interp {K}. Arguments path_full {K}.
Arguments detector_fields {K}. Arguments record {K}. Arguments phase_lo {K}. Arguments phase_hi {K}.
Arguments has_mirror {K}. Arguments halo_lo {K}. Arguments halo_hi {K}. Arguments ext1 {K}. Arguments ext {K}.
Arguments edge_avg {K}. Arguments mid {K}. Arguments spec_E {K}. Arguments spec_H {K}. Arguments uses_wrap {K}.
