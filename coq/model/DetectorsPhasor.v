(* DetectorsPhasor.v — executable model of the phasor detectors over a whole run (C17).
   Source: src/fdtdx/objects/detectors/phasor.py (PhasorDetector._calculate_on_list, place_on_grid
   window/_window_sum, _static_scale, update), poynting_flux.py (_phasor_poynting_vector,
   PhasorPoyntingFluxDetector.compute_poynting_flux, ClosedSurfacePhasorPoyntingFluxDetector.update /
   compute_net_flux), fdtd/update.py (gating by _is_on_at_time_step_arr).  No proofs here.
   The per-step accumulation [phasor_new]/[phasor_run_spatial] is in model/Detectors.v. *)
From Coq Require Import List Arith Bool.
From FV Require Import base.Scalar base.Sums base.DetectorsBase model.Detectors.
Import ListNotations.
Local Open Scope fld_scope.

(* active[::stride] *)
Fixpoint every_nth_aux (s c : nat) (l : list nat) : list nat :=
  match l with
  | [] => []
  | x :: r => match c with O => x :: every_nth_aux s (Nat.pred s) r | S c' => every_nth_aux s c' r end
  end.
Definition every_nth (s : nat) (l : list nat) : list nat := every_nth_aux s 0 l.

(* PhasorDetector._calculate_on_list: base on-list thinned to every stride-th active step
   (stride = max(1, dft_subsample)) *)
Definition active_steps (T : nat) (on : nat -> bool) : list nat := filter on (seq 0 T).
Definition kept_steps (T : nat) (on : nat -> bool) (stride : nat) : list nat :=
  if Nat.leb stride 1 then active_steps T on else every_nth stride (active_steps T on).
Definition kept_on (T : nat) (on : nat -> bool) (stride : nat) (t : nat) : bool :=
  existsb (Nat.eqb t) (kept_steps T on stride).

Section PhasorModel.
  Variable K : Fld.
  Notation F := (car K).
  Notation Cx := (Cx K).
  Notation Vec := (Vec K).

  Fixpoint natF (n : nat) : F := match n with O => 0 | S k => natF k + 1 end.

  (* place_on_grid: window = apodization(t) * on-mask (apodization None = constant 1) *)
  Definition window_arr (apod : nat -> F) (kept : nat -> bool) (t : nat) : F := apod t * (if kept t then 1 else 0).
  Definition window_sum (T : nat) (win : nat -> F) : F := sumn T win.
  (* _static_scale *)
  Definition static_scale (pulse : bool) (wsum : F) (stride : nat) : F :=
    if pulse then natF (Nat.max 1 stride) else (1 + 1) / wsum.

  (* the loop: for t = 0 .. T-1, update_detector_states updates the detector iff its on-array is set *)
  Definition gated_run {S : Type} (upd : S -> nat -> S) (T : nat) (kept : nat -> bool) (st0 : S) : S :=
    fold_left (fun st t => if kept t then upd st t else st) (seq 0 T) st0.

  Section OneDetector.
    Variables (T : nat) (on : nat -> bool) (stride : nat) (pulse inverse : bool) (apod : nat -> F).
    Variables (sel : list nat) (fldE fldH : nat -> Vec) (e : nat -> nat -> Cx).
    Definition kept := kept_on T on stride.
    Definition win := window_arr apod kept.
    Definition scale := static_scale pulse (window_sum T win) stride.
    (* PhasorDetector state after the run *)
    Definition phasor_detector_run (st0 : PhS K) : PhS K :=
      gated_run (fun st t => phasor_update_spatial inverse st (phasor_new sel (fldE t) (fldH t) (e t) scale (win t))) T kept st0.
  End OneDetector.

  (* ---------------- phasor Poynting vector: Re(E x conj H), components 0..2 = E, 3..5 = H ---------------- *)
  Definition re_mul_conj (a b : Cx) : F := fst a * fst b + snd a * snd b.
  Definition phasor_poynting (P : nat -> nat -> nat -> nat -> Cx) : nat -> A3 K := fun c i j k =>
    match c with
    | 0 => re_mul_conj (P 1%nat i j k) (P 5%nat i j k) - re_mul_conj (P 2%nat i j k) (P 4%nat i j k)
    | 1 => re_mul_conj (P 2%nat i j k) (P 3%nat i j k) - re_mul_conj (P 0%nat i j k) (P 5%nat i j k)
    | _ => re_mul_conj (P 0%nat i j k) (P 4%nat i j k) - re_mul_conj (P 1%nat i j k) (P 3%nat i j k)
    end.
  (* PhasorPoyntingFluxDetector.compute_poynting_flux (keep_all_components = False), one frequency *)
  Definition phasor_poynting_flux (n : shape3) (W : SArr K) (pa : nat) (minus continuous : bool)
             (P : nat -> nat -> nat -> nat -> Cx) : F :=
    let flux := sum3s n (fun i j k => sgn minus (phasor_poynting P pa i j k) * sget W i j k) in
    if continuous then half K * flux else flux.

  (* ---------------- ClosedSurfacePhasorPoyntingFluxDetector ---------------- *)
  (* _slice_face(arr, axis, side): the plane at position [pos] along axis [a], kept as a size-one axis *)
  Definition slice_face {X : Type} (a pos : nat) (g : nat -> nat -> nat -> X) : nat -> nat -> nat -> X :=
    fun i j k => match a with 0 => g pos j k | 1 => g i pos k | _ => g i j pos end.
  Definition face_pos (n : shape3) (a : nat) (side_max : bool) : nat := if side_max then Nat.pred (dim n a) else 0%nat.
  (* update of one stored face; [use_window] = false is the UNCHANGED source (window weight omitted),
     true the repaired one (fixes/C17.patch) *)
  Definition closed_face_update (use_window inverse : bool) (n : shape3) (a : nat) (side_max : bool)
             (E H : Vec) (e : nat -> Cx) (sc w : F) (st : PhS K) : PhS K :=
    let new := phasor_new [0; 1; 2; 3; 4; 5]%nat E H e sc (if use_window then w else 1) in
    fun f r i j k =>
      let v := slice_face a (face_pos n a side_max) (new f r) i j k in
      if inverse then csub (st f r i j k) v else cadd (st f r i j k) v.
  Definition closed_face_run (use_window : bool) (T : nat) (on : nat -> bool) (stride : nat) (pulse inverse : bool)
             (apod : nat -> F) (n : shape3) (a : nat) (side_max : bool) (fldE fldH : nat -> Vec) (e : nat -> nat -> Cx)
             (st0 : PhS K) : PhS K :=
    gated_run (fun st t => closed_face_update use_window inverse n a side_max (fldE t) (fldH t) (e t)
                              (scale T on stride pulse apod) (win T on stride apod t) st)
              T (kept T on stride) st0.
  (* compute_net_flux, one frequency: faces = the stored per-face phasors *)
  Definition closed_phasor_net (g : Grid K) (lo n : shape3) (active : list nat) (inward continuous : bool)
             (face : nat -> bool -> nat -> nat -> nat -> nat -> Cx) : F :=
    let net := fold_left (fun acc a =>
                 let area := sget (face_area g lo n a) in
                 let fs := fun side => sum3s (set_dim n a 1) (fun i j k => phasor_poynting (face a side) a i j k * area i j k) in
                 acc + fs true + (- (1)) * fs false) active 0 in
    let net := sgn inward net in
    if continuous then half K * net else net.
End PhasorModel.

Arguments natF {K}. Arguments window_arr {K}. Arguments window_sum {K}. Arguments static_scale {K}.
Arguments gated_run {S}. Arguments phasor_detector_run {K}. Arguments phasor_poynting {K}.
Arguments phasor_poynting_flux {K}. Arguments slice_face {X}. Arguments closed_face_update {K}.
Arguments closed_face_run {K}. Arguments closed_phasor_net {K}. Arguments re_mul_conj {K}.
Arguments kept : clear implicits. Arguments win {K}. Arguments scale {K}.
