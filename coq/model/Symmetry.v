(* Symmetry.v — executable model of the unfolding half of fdtd/symmetry.py and of the mirror
   primitives of core/physics/symmetry.py.  No proofs.
   Arrays are nested lists: [arr d] is a rank-d array of scalars (outermost list = array axis 0).
   Scalars are a generic field K (executed at Qc; complex arrays are handled by the harness as
   separate real and imaginary parts: every operation here is real-linear with real signs). *)
From Coq Require Import ZArith List Bool.
From FV Require Import base.Scalar.
Import ListNotations.
Local Open Scope Z_scope.

(* ------------------------------------------------------------------ parity / index-map tables *)
Inductive ftype := FE | FH.                         (* Literal["E", "H"] *)
Definition ftype_eqb (a b : ftype) : bool :=
  match a, b with FE, FE => true | FH, FH => true | _, _ => false end.

(* core/physics/symmetry.py: field_component_parity ; None = ValueError *)
Definition field_component_parity (field_type : ftype) (component axis wall : Z) : option Z :=
  let normal := (component =? axis) in
  if (wall =? -1) then
    (if ftype_eqb field_type FE then Some (if normal then 1 else -1)
     else Some (if normal then -1 else 1))
  else if (wall =? 1) then
    (if ftype_eqb field_type FE then Some (if normal then -1 else 1)
     else Some (if normal then 1 else -1))
  else None.

(* core/physics/symmetry.py: component_sits_on_plane ; None = ValueError (unreachable for FE/FH) *)
Definition component_sits_on_plane (field_type : ftype) (component axis : Z) : option bool :=
  if ftype_eqb field_type FE then Some (negb (component =? axis))
  else if ftype_eqb field_type FH then Some (component =? axis)
  else None.
Definition sits_b (field_type : ftype) (component axis : Z) : bool :=
  match component_sits_on_plane field_type component axis with Some b => b | None => false end.

(* core/physics/symmetry.py: mirror_pairs_on_plane *)
Definition mirror_pairs_on_plane (field_type : ftype) (component axis wall : Z) : bool :=
  (wall =? -1) && sits_b field_type component axis.

(* total parity used where the wall is known to be +-1 (0 stands for the error value) *)
Definition parity_z (ft : ftype) (c a w : Z) : Z :=
  match field_component_parity ft c a w with Some p => p | None => 0 end.

(* fdtd/symmetry.py: _poynting_parity ; (j, k) = the two axes other than [component], ascending *)
Definition other_axes (component : Z) : Z * Z :=
  match filter (fun x => negb (x =? component)) [0; 1; 2] with
  | j :: k :: _ => (j, k) | _ => (0, 0) end.
Definition poynting_parity (component axis wall : Z) : Z :=
  let '(j, k) := other_axes component in parity_z FE j axis wall * parity_z FH k axis wall.

(* fdtd/symmetry.py: _COMPONENT_SPEC / _stored_component_spec: stored components as indices 0..5
   into (Ex,Ey,Ez,Hx,Hy,Hz), kept in canonical order *)
Definition component_spec (i : Z) : ftype * Z := if i <? 3 then (FE, i) else (FH, i - 3).
Definition stored_component_spec (present : list Z) : list (ftype * Z) :=
  map component_spec (filter (fun i => existsb (Z.eqb i) present) [0; 1; 2; 3; 4; 5]).

Definition sym3 := (Z * Z * Z)%type.
Definition sym_get (s : sym3) (a : nat) : Z :=
  let '(x, y, z) := s in match a with O => x | S O => y | _ => z end.
(* _check_has_symmetry *)
Definition has_symmetry (s : sym3) : bool :=
  negb ((sym_get s 0 =? 0) && (sym_get s 1 =? 0) && (sym_get s 2 =? 0)).
Definition wall_ok (w : Z) : bool := (w =? 0) || (w =? 1) || (w =? -1).
Definition sym_ok (s : sym3) : bool := wall_ok (sym_get s 0) && wall_ok (sym_get s 1) && wall_ok (sym_get s 2).
Definition touched_axes (s : sym3) : list nat := filter (fun a => negb (sym_get s a =? 0)) [0; 1; 2]%nat.

(* ------------------------------------------------------------------ 1-D primitives, any slab type *)
Section Prim.
  Context {A : Type}.
  Variable sm : A -> A.                 (* multiplication of one slab by the parity *)
  (* mirror_extend_low_side(array, axis, parity, on_plane) along the outermost axis *)
  Definition ext_low (on_plane : bool) (l : list A) : list A :=
    if on_plane then
      let mirrored := map sm (rev (skipn 1 l)) in firstn 1 mirrored ++ mirrored
    else map sm (rev l).
  (* jnp.concatenate([low, array], axis) *)
  Definition unfold1 (on_plane : bool) (l : list A) : list A := ext_low on_plane l ++ l.
End Prim.
(* restrict_to_kept_half along one axis: array[shape // 2 :] *)
Definition restrict1 {A} (l : list A) : list A := skipn (Nat.div2 (length l)) l.
(* _slice_axis(array, axis, i, i+1) along the outermost axis *)
Definition sel1 {A} (i : nat) (l : list A) : list A := firstn 1 (skipn i l).

Section Arr.
  Variable K : Fld.
  Local Open Scope fld_scope.

  Fixpoint arr (d : nat) : Type := match d with O => car K | S d' => list (arr d') end.

  Definition KofZ (z : Z) : K :=            (* int sign -> scalar; only -1, 0, 1, 2 occur *)
    match z with Z0 => 0 | Zpos p => Pos.iter (fun x => x + 1) 0 p | Zneg p => - Pos.iter (fun x => x + 1) 0 p end.

  Fixpoint scale (d : nat) (p : K) : arr d -> arr d :=
    match d return arr d -> arr d with
    | O => fun x => p * x
    | S d' => fun l => map (scale d' p) l
    end.

  (* one mirror step of unfold_fields / unfold_array along array axis k:
     concatenate([mirror_extend_low_side(arr, k, p, on) , arr], axis=k) *)
  Fixpoint unfold_at (d k : nat) (p : K) (on : bool) : arr d -> arr d :=
    match d return arr d -> arr d with
    | O => fun x => x
    | S d' => fun l => match k with
                       | O => unfold1 (scale d' p) on l
                       | S k' => map (unfold_at d' k' p on) l
                       end
    end.

  (* restrict_to_kept_half along array axis k (per row; equal to shape//2 on rectangular arrays) *)
  Fixpoint restrict_at (d k : nat) : arr d -> arr d :=
    match d return arr d -> arr d with
    | O => fun x => x
    | S d' => fun l => match k with O => restrict1 l | S k' => map (restrict_at d' k') l end
    end.

  (* _slice_axis(array, k, i, i+1) *)
  Fixpoint sel_at (d k i : nat) : arr d -> arr d :=
    match d return arr d -> arr d with
    | O => fun x => x
    | S d' => fun l => match k with O => sel1 i l | S k' => map (sel_at d' k' i) l end
    end.

  (* every row along array axis k has n entries *)
  Fixpoint len_at (d k n : nat) : arr d -> Prop :=
    match d return arr d -> Prop with
    | O => fun _ => True
    | S d' => fun l => match k with O => length l = n | S k' => Forall (len_at d' k' n) l end
    end.

  Fixpoint sum_all (d : nat) : arr d -> K :=
    match d return arr d -> K with
    | O => fun x => x
    | S d' => fun l => fold_right (fun x s => sum_all d' x + s) 0 l
    end.
  Fixpoint count_all (d : nat) : arr d -> nat :=
    match d return arr d -> nat with
    | O => fun _ => 1%nat
    | S d' => fun l => fold_right (fun x s => (count_all d' x + s)%nat) 0%nat l
    end.
  Fixpoint KofNat (n : nat) : K := match n with O => 0 | S m => KofNat m + 1 end.
  Definition mean_all (d : nat) (x : arr d) : K := sum_all d x / KofNat (count_all d x).

  (* ---------------------------------------------------------------- unfold_fields *)
  Fixpoint mapi_from {X Y} (i : Z) (f : Z -> X -> Y) (l : list X) : list Y :=
    match l with [] => [] | x :: r => f i x :: mapi_from (i + 1)%Z f r end.

  (* body of the loop over a in unfold_fields: components 0..2, each mirrored along array axis a+1
     (= axis a of the single-component block) *)
  Definition unfold_fields_axis (ft : ftype) (a : nat) (w : Z) (f : list (arr 3)) : list (arr 3) :=
    mapi_from 0%Z (fun c comp => unfold_at 3 a (KofZ (parity_z ft c (Z.of_nat a) w))
                                   (mirror_pairs_on_plane ft c (Z.of_nat a) w) comp) (firstn 3 f).

  (* fdtd/symmetry.py: unfold_fields ; None = ValueError *)
  Definition unfold_fields (ft : ftype) (s : sym3) (f : list (arr 3)) : option (list (arr 3)) :=
    if negb (has_symmetry s) then None
    else if negb (sym_ok s) then None
    else Some (fold_left (fun f a => unfold_fields_axis ft a (sym_get s a) f) (touched_axes s) f).

  (* core/physics/symmetry.py: restrict_to_kept_half(field, axes) on a (3,Nx,Ny,Nz) field.  The
     implementation slices all axes at once; slices on different axes commute, the model applies
     them from the last axis to the first. *)
  Definition restrict_fields (axes : list nat) (f : list (arr 3)) : list (arr 3) :=
    fold_right (fun a f => map (restrict_at 3 a) f) f axes.

  (* ---------------------------------------------------------------- unfold_array *)
  (* fdtd/symmetry.py: unfold_array on one block [b] of rank r whose physical axis a is array axis
     [ax a]; sign a = the (per-component) sign of the block, onax a = a in on_plane_axes.
     In the on-plane branch the code calls mirror_extend_low_side(parity=1) * sign, which is
     mirror_extend_low_side(parity=sign) because the sign is constant inside a component block. *)
  Definition unfold_block (r : nat) (touched : sym3) (ax : nat -> nat) (sign : nat -> K) (onax : nat -> bool)
             (b : arr r) : arr r :=
    fold_left (fun b a => unfold_at r (ax a) (sign a) (onax a) b) (touched_axes touched) b.

  (* fdtd/symmetry.py: unfold_array ; None = ValueError of _check_has_symmetry.  Any non-zero entry of
     [touched] (also an invalid one) is mirrored: the function only tests symmetry[a] == 0. *)
  Definition unfold_array (r : nat) (touched : sym3) (ax : nat -> nat) (sign : nat -> K) (onax : nat -> bool)
             (b : arr r) : option (arr r) :=
    if negb (has_symmetry touched) then None else Some (unfold_block r touched ax sign onax b).

  (* _reduce_factor for one component: prod (1+p)/2 (mean) or prod (1+p) (sum) *)
  Definition reduce_factor (mean : bool) (parities : list Z) : K :=
    fold_left (fun f p => f * (if mean then (1 + KofZ p) / (1 + 1) else (1 + KofZ p))) parities 1.

  (* ---------------------------------------------------------------- unfold_detector_states *)
  Inductive det_kind :=
  | DPhasor (present : list Z) (reduce_volume : bool)        (* PhasorDetector / ModeOverlapDetector *)
  | DField (present : list Z) (reduce_volume : bool)
  | DEnergy (as_slices reduce_volume : bool)
  | DPoynting (keep_all reduce_volume : bool) (propagation_axis : Z)
  | DOther.                                                  (* Diffractive / unknown: NotImplementedError *)

  (* stored state, leading axes flattened by the harness:  [lead][component] -> block *)
  Inductive dstate :=
  | SSpatial (v : list (list (arr 3)))
  | SReduced (v : list (list K))
  | SSlices (xy xz yz : list (arr 2)).

  (* _colocated_on_plane_axes *)
  Definition colocated_on_plane (exact : bool) (touched : sym3) (a : nat) : bool :=
    exact && (Nat.ltb a 2) && (sym_get touched a =? -1)%Z.

  Definition touched_parities (sgn : nat -> Z) (touched : sym3) : list Z := map sgn (touched_axes touched).

  Definition unfold_spatial (exact : bool) (touched : sym3) (sgn : Z -> nat -> Z) (v : list (list (arr 3))) :=
    map (fun comps => mapi_from 0%Z (fun ci b =>
       unfold_block 3 touched (fun a => a) (fun a => KofZ (sgn ci a)) (colocated_on_plane exact touched) b) comps) v.
  Definition unfold_reduced (mean : bool) (touched : sym3) (sgn : Z -> nat -> Z) (v : list (list K)) :=
    map (fun comps => mapi_from 0%Z (fun ci x => x * reduce_factor mean (touched_parities (sgn ci) touched)) comps) v.

  (* _component_signs / the parities lists of _unfold_one_detector *)
  Definition field_sign (present : list Z) (touched : sym3) (ci : Z) (a : nat) : Z :=
    let '(ft, ca) := nth (Z.to_nat ci) (stored_component_spec present) (FE, 0%Z) in
    parity_z ft ca (Z.of_nat a) (sym_get touched a).
  Definition poynting_sign (keep_all : bool) (p : Z) (touched : sym3) (ci : Z) (a : nat) : Z :=
    poynting_parity (if keep_all then ci else p) (Z.of_nat a) (sym_get touched a).

  (* _unfold_energy_slices: one plane with physical axes (pa, pb) stored as array axes (1, 2) of
     (T, a, b); here axes (0, 1) of each rank-2 block *)
  Definition unfold_slice_plane (exact : bool) (touched : sym3) (pa pb : nat) (v : list (arr 2)) : list (arr 2) :=
    let m := fun a => if Nat.eqb a pa || Nat.eqb a pb then sym_get touched a else 0%Z in
    let sub : sym3 := (m 0%nat, m 1%nat, m 2%nat) in
    map (unfold_block 2 sub (fun a => if Nat.eqb a pa then 0%nat else 1%nat) (fun _ => 1)
                      (colocated_on_plane exact touched)) v.

  (* _unfold_one_detector ; None = NotImplementedError or a state of the wrong layout *)
  Definition unfold_one_detector (k : det_kind) (exact : bool) (touched : sym3) (st : dstate) : option dstate :=
    match k, st with
    | DPhasor present true, SReduced v | DField present true, SReduced v =>
        Some (SReduced (unfold_reduced true touched (field_sign present touched) v))
    | DPhasor present false, SSpatial v | DField present false, SSpatial v =>
        Some (SSpatial (unfold_spatial exact touched (field_sign present touched) v))
    | DEnergy true _, SSlices xy xz yz =>
        Some (SSlices (unfold_slice_plane exact touched 0 1 xy) (unfold_slice_plane exact touched 0 2 xz)
                      (unfold_slice_plane exact touched 1 2 yz))
    | DEnergy false true, SReduced v =>     (* state * 2**count *)
        Some (SReduced (map (map (fun x => x * Nat.iter (length (touched_axes touched)) (fun y => y * (1 + 1)) 1)) v))
    | DEnergy false false, SSpatial v =>
        Some (SSpatial (unfold_spatial exact touched (fun _ _ => 1%Z) v))
    | DPoynting ka true p, SReduced v =>
        Some (SReduced (unfold_reduced false touched (poynting_sign ka p touched) v))
    | DPoynting ka false p, SSpatial v =>
        Some (SSpatial (unfold_spatial exact touched (poynting_sign ka p touched) v))
    | _, _ => None
    end.

  (* unfold_detector_states for one detector: unchanged when no plane clipped it *)
  Definition unfold_detector_state (k : det_kind) (exact : bool) (touched : sym3) (st : dstate) : option dstate :=
    if negb (has_symmetry touched) then Some st else unfold_one_detector k exact touched st.

  (* the volume reduction of the detectors: mean (Field/Phasor) or sum (Energy/Poynting, the cell
     volume / face area factor is a common constant and omitted) of every block *)
  Definition reduce_state (mean : bool) (v : list (list (arr 3))) : list (list K) :=
    map (map (fun b => if mean then mean_all 3 b else sum_all 3 b)) v.
End Arr.

Arguments ext_low {A}. Arguments unfold1 {A}.
