(* Recorder.v — executable model of interfaces/time_filter.py (LinearReconstructEveryK),
   interfaces/modules.py (DtypeConversion) and interfaces/recorder.py (Recorder).  No proofs.
   The model follows the repaired code (fixes/C30.patch); the behaviour of the unchanged source is
   kept as the [legacy] variant (definitions *_src_old) for the documented regression. *)
From Coq Require Import ZArith List Bool QArith Qcanon.
From FV Require Import base.Scalar base.PyNum base.RecorderBase.
Import ListNotations.
Open Scope Z_scope.

(* ------------------------------------------------------------------ LinearReconstructEveryK *)

(* init_shapes: all_time_steps = arange(start, T, k).tolist(); append T-1 unless it is the last one.
   all_time_steps[-1] on an empty list raises IndexError -> None *)
Definition save_steps (T k s : Z) : option (list Z) :=
  match zarange s T k with
  | [] => None
  | l => Some (if last l (-1) =? T - 1 then l else l ++ [T - 1])
  end.

(* time_indices.at[save_time_steps].set(arange(array_size)) on zeros(T) *)
Fixpoint scatter_from (acc : list Z) (idx : Z) (sv : list Z) : list Z :=
  match sv with
  | [] => acc
  | x :: r => scatter_from (zset acc x idx) (idx + 1) r
  end.
Definition scatter (T : Z) (sv : list Z) : list Z := scatter_from (repeat 0 (Z.to_nat T)) 0 sv.

(* jnp.roll(l, 1) = [l[-1], l[0], ..., l[-2]] *)
Fixpoint shift (p : Z) (l : list Z) : list Z := match l with [] => [] | x :: r => p :: shift x r end.
Definition roll1 (l : list Z) : list Z := shift (last l 0) l.
(* jnp.where(time_indices == 0, rolled, time_indices) *)
Fixpoint fill_where (l rolled : list Z) : list Z :=
  match l, rolled with
  | c :: l', r :: r' => (if c =? 0 then r else c) :: fill_where l' r'
  | _, _ => []
  end.
(* .at[:z].set(0), positions counted from i *)
Fixpoint zero_prefix (z i : Z) (l : list Z) : list Z :=
  match l with [] => [] | x :: r => (if i <? z then 0 else x) :: zero_prefix z (i + 1) r end.
(* one pass of the fill-forward loop; z = 1 in the repaired code (.at[0].set(0)), z = k in the old code (.at[:k].set(0)) *)
Definition fill_once (z : Z) (l : list Z) : list Z := zero_prefix z 0 (fill_where l (roll1 l)).
Definition time_to_arr_idx (z T k : Z) (sv : list Z) : list Z :=
  Nat.iter (Z.to_nat (k - 1)) (fill_once z) (scatter T sv).

Record filter := { f_sv : list Z; f_map : list Z; f_legacy : bool }.
Definition f_size (f : filter) : Z := Z.of_nat (length (f_sv f)).

(* init_shapes of the repaired code / of the unchanged source *)
Definition init_filter (T k s : Z) : option filter :=
  match save_steps T k s with
  | None => None
  | Some sv => Some {| f_sv := sv; f_map := time_to_arr_idx 1 T k sv; f_legacy := false |}
  end.
Definition init_filter_src_old (T k s : Z) : option filter :=
  match save_steps T k s with
  | None => None
  | Some sv => Some {| f_sv := sv; f_map := time_to_arr_idx k T k sv; f_legacy := true |}
  end.

(* time_to_array_index: array slot of a saved step, -1 for a filtered step *)
Definition time_to_array_index (f : filter) (t : Z) : Z :=
  if zmem t (f_sv f) then znth (f_map f) t 0 else -1.
(* indices_to_decompress *)
Definition indices_to_decompress (f : filter) (t : Z) : Z * Z :=
  let a := znth (f_map f) t 0 in (a, a + 1).

(* core/misc.py index_1d_array: jnp.argmax(arr == v): first match, 0 if there is none *)
Fixpoint index_first (l : list Z) (v : Z) (i : Z) : Z :=
  match l with [] => 0 | h :: t => if h =? v then i else index_first t v (i + 1) end.
Definition index_1d_array (l : list Z) (v : Z) : Z := index_first l v 0.

(* the two save times used by linear_reconstruct *)
Definition endpoints (f : filter) (a : Z) : Z * Z :=
  if f_legacy f then (index_1d_array (f_map f) a, index_1d_array (f_map f) (a + 1))
  else (znth (f_sv f) a 0, znth (f_sv f) (a + 1) 0).

Section Values.
  Variable K : Fld.
  Local Open Scope fld_scope.

  (* prev + interp_factor * (next - prev) *)
  Definition lerp (v0 v1 w : K) : K := v0 + w * (v1 - v0).

  (* LinearReconstructEveryK.decompress on values [v0; v1] at array indices (a, a+1) *)
  Definition filter_decompress (f : filter) (v0 v1 : K) (a : Z) (t : Z) : K :=
    if zmem t (f_sv f) then v0
    else let '(p, n) := endpoints f a in lerp v0 v1 (fofZ (t - p) / fofZ (n - p)).

  (* ---------------------------------------------------------------- modules and Recorder *)
  (* DtypeConversion: compress = astype(dtype) (c), decompress = astype(input dtype) (d) *)
  Inductive module := Conv (c d : K -> K) | EveryK (f : filter).
  Inductive module_spec := SConv (c d : K -> K) | SEveryK (k s : Z).

  (* Recorder.init_state: thread the latent array size through the modules *)
  Fixpoint init_modules (legacy : bool) (specs : list module_spec) (T : Z) : option (list module * Z) :=
    match specs with
    | [] => Some ([], T)
    | SConv c d :: r =>
        match init_modules legacy r T with Some (ms, n) => Some (Conv c d :: ms, n) | None => None end
    | SEveryK k s :: r =>
        match (if legacy then init_filter_src_old T k s else init_filter T k s) with
        | None => None
        | Some f => match init_modules legacy r (f_size f) with Some (ms, n) => Some (EveryK f :: ms, n) | None => None end
        end
    end.

  (* Recorder.compress: helper_fn / dummy_fn per module, then the guarded state update *)
  Definition comp_step (acc : K * Z) (m : module) : K * Z :=
    let '(v, idx) := acc in
    if idx =? -1 then (0, idx)
    else match m with
         | Conv c _ => (c v, idx)
         | EveryK f => (v, time_to_array_index f idx)
         end.
  Definition compress (ms : list module) (data : list K) (v : K) (t : Z) : list K :=
    let '(v', idx) := fold_left comp_step ms (v, t) in
    if idx =? -1 then data else zset data idx v'.

  (* Recorder.decompress: the nested index gathering followed by the bottom-up reconstruction is the
     recursion below (value of the stage in front of [ms] at its time index t); a read outside the
     data array yields the fill value [nan] of jnp.take *)
  Fixpoint reconstruct (nan : K) (ms : list module) (data : list K) (t : Z) : K :=
    match ms with
    | [] => znth data t nan
    | Conv _ d :: r => d (reconstruct nan r data t)
    | EveryK f :: r =>
        let '(a0, a1) := indices_to_decompress f t in
        filter_decompress f (reconstruct nan r data a0) (reconstruct nan r data a1) a0 t
    end.

  (* a run of DtypeConversion modules given as (compress, decompress) pairs: all compress conversions in
     pipeline order / all decompress conversions in reverse pipeline order *)
  Definition call (l : list ((K -> K) * (K -> K))) (v : K) : K := fold_left (fun v cd => fst cd v) l v.
  Definition dall (l : list ((K -> K) * (K -> K))) (v : K) : K := fold_right (fun cd v => snd cd v) v l.
  Definition convs (l : list ((K -> K) * (K -> K))) : list module := map (fun cd => Conv (fst cd) (snd cd)) l.
  Definition sconvs (l : list ((K -> K) * (K -> K))) : list module_spec := map (fun cd => SConv (fst cd) (snd cd)) l.

  (* a whole recording: compress at steps 0 .. T-1 into zero-initialised storage *)
  Definition record_all (ms : list module) (size T : Z) (vals : Z -> K) : list K :=
    fold_left (fun data t => compress ms data (vals t) t) (zrange T) (repeat 0 (Z.to_nat size)).

  (* init + record + decompress of step t *)
  Definition run_recorder (legacy : bool) (nan : K) (specs : list module_spec) (T : Z) (vals : Z -> K) (t : Z) : option K :=
    match init_modules legacy specs T with
    | None => None
    | Some (ms, size) => Some (reconstruct nan ms (record_all ms size T vals) t)
    end.
  (* the same for several steps with one initialisation and one recording (used by the correspondence) *)
  Definition run_many (legacy : bool) (nan : K) (specs : list module_spec) (T : Z) (vals : Z -> K) (ts : list Z) : option (list K) :=
    match init_modules legacy specs T with
    | None => None
    | Some (ms, size) => let data := record_all ms size T vals in Some (map (reconstruct nan ms data) ts)
    end.
  (* the storage array after the recording *)
  Definition record_data (legacy : bool) (specs : list module_spec) (T : Z) (vals : Z -> K) : option (list K) :=
    match init_modules legacy specs T with
    | None => None
    | Some (ms, size) => Some (record_all ms size T vals)
    end.
End Values.
Arguments Conv {K}. Arguments EveryK {K}. Arguments SConv {K}. Arguments SEveryK {K}.
Arguments call {K}. Arguments dall {K}. Arguments convs {K}. Arguments sconvs {K}.

(* ------------------------------------------------------------------ helpers of the executable instance *)
(* rounding oracle as a finite table (values outside the table are left unchanged) *)
Fixpoint tab_fun (tbl : list (Qc * Qc)) (v : Qc) : Qc :=
  match tbl with [] => v | (a, b) :: r => if Qeq_bool (this a) (this v) then b else tab_fun r v end.
(* a value history given as a list *)
Definition hist (l : list Qc) (t : Z) : Qc := znth l t 0%Qc.
