(* PlaceSym.v — executable model of the mirror-symmetry reduction of placed slices
   (src/fdtdx/fdtd/symmetry.py: reduce_resolved_slices, make_symmetry_walls;
    src/fdtdx/core/misc.py: validate_symmetric_axis_cells).  Pure integer interval arithmetic. *)
From Coq Require Import ZArith List Bool Lia.
Import ListNotations.
Open Scope Z_scope.

Definition ival := (Z * Z)%type.

(* validate_symmetric_axis_cells: n >= 2 and n % 2 == 0 *)
Definition sym_cells_ok (n : Z) : bool := (2 <=? n) && (n mod 2 =? 0).

(* first loop of reduce_resolved_slices, one axis: (mid_abs, new volume interval); None = ValueError *)
Definition reduce_vol_axis (sym : Z) (vs : ival) : option (Z * ival) :=
  let '(vs0, vs1) := vs in
  let n := vs1 - vs0 in
  if sym =? 0 then Some (vs0, (vs0, vs1))
  else if sym_cells_ok n then let m := vs0 + n / 2 in Some (m, (0, vs1 - m))
  else None.

(* volume's entry of unreduced_slices *)
Definition shift_axis (sym m : Z) (s : ival) : ival :=
  if sym =? 0 then s else (fst s - m, snd s - m).

(* per-object, per-axis body: (clipped, unclipped, drop) *)
Definition reduce_obj_axis (sym m vs1 : Z) (s : ival) : ival * ival * bool :=
  let '(s0, s1) := s in
  if sym =? 0 then ((s0, s1), (s0, s1), false)
  else let ns0 := Z.max s0 m - m in
       let ns1 := Z.min s1 vs1 - m in
       ((ns0, ns1), (s0 - m, s1 - m), ns1 <=? ns0).

Fixpoint map3 {A B C R} (f : A -> B -> C -> R) (a : list A) (b : list B) (c : list C) : list R :=
  match a, b, c with
  | x :: a', y :: b', z :: c' => f x y z :: map3 f a' b' c'
  | _, _, _ => []
  end.

Fixpoint all_some {A} (l : list (option A)) : option (list A) :=
  match l with
  | [] => Some []
  | None :: _ => None
  | Some x :: r => match all_some r with Some r' => Some (x :: r') | None => None end
  end.

(* result for one non-volume object: None = dropped, Some (clipped slices, unreduced slices) *)
Definition reduce_obj (sym mids : list Z) (vol : list ival) (sl : list ival) : option (list ival * list ival) :=
  let r := map3 (fun sy mv s => reduce_obj_axis sy (fst mv) (snd (snd mv)) s) sym (combine mids vol) sl in
  if existsb (fun x => snd x) r then None else Some (map (fun x => fst (fst x)) r, map (fun x => snd (fst x)) r).

Record reduced := {
  r_vol : list ival;                 (* new volume slice *)
  r_vol_unreduced : list ival;       (* volume's unreduced slice *)
  r_shape : list Z;                  (* reduced_volume_shape *)
  r_objs : list (option (list ival * list ival))   (* per non-volume object, in order *)
}.

(* reduce_resolved_slices; None = ValueError (odd or < 2 cell count on a symmetric axis) *)
Definition reduce_slices (sym : list Z) (vol : list ival) (objs : list (list ival)) : option reduced :=
  match all_some (map (fun p => reduce_vol_axis (fst p) (snd p)) (combine sym vol)) with
  | None => None
  | Some mv =>
      let mids := map fst mv in
      let nv := map snd mv in
      Some {| r_vol := nv;
              r_vol_unreduced := map3 shift_axis sym mids vol;
              r_shape := map (fun i : ival => snd i - fst i) nv;
              r_objs := map (reduce_obj sym mids vol) objs |}
  end.

(* make_symmetry_walls: (axis, grid slice) of each PEC wall, in axis order *)
Fixpoint set_nth {A} (l : list A) (n : nat) (x : A) : list A :=
  match l, n with
  | [], _ => []
  | _ :: r, O => x :: r
  | y :: r, S k => y :: set_nth r k x
  end.
Definition walls (sym : list Z) (shape : list Z) : list (nat * list ival) :=
  flat_map (fun a => if nth a sym 0 =? -1
                     then [(a, set_nth (map (fun n => (0, n)) shape) a (0, 1))] else [])
           [0%nat; 1%nat; 2%nat].

(* comparison helpers for the correspondence cases *)
Definition ival_eqb (a b : ival) : bool := (fst a =? fst b) && (snd a =? snd b).
Fixpoint leqb {A} (eqb : A -> A -> bool) (a b : list A) : bool :=
  match a, b with
  | [], [] => true
  | x :: a', y :: b' => eqb x y && leqb eqb a' b'
  | _, _ => false
  end.
Definition obj_eqb (a b : option (list ival * list ival)) : bool :=
  match a, b with
  | None, None => true
  | Some (c, u), Some (c', u') => leqb ival_eqb c c' && leqb ival_eqb u u'
  | _, _ => false
  end.
Definition reduced_eqb (r : option reduced) (vol volu : list ival) (shape : list Z)
  (objs : list (option (list ival * list ival))) : bool :=
  match r with
  | None => false
  | Some r => leqb ival_eqb (r_vol r) vol && leqb ival_eqb (r_vol_unreduced r) volu &&
              leqb Z.eqb (r_shape r) shape && leqb obj_eqb (r_objs r) objs
  end.
Definition is_none {A} (x : option A) : bool := match x with None => true | _ => false end.
Definition walls_eqb (a b : list (nat * list ival)) : bool :=
  leqb (fun p q => Nat.eqb (fst p) (fst q) && leqb ival_eqb (snd p) (snd q)) a b.
