(* YeeDisp.v — executable model of the dispersive (ADE) block of fdtd/update.py update_E, isotropic / diagonal branch,
   poles without the c4 (CCPR) term, PML-free:   P_hat = c1*P_curr + c2*P_prev + c3*E ;  delta = sum_poles (P_curr - P_hat) ;
   E' = ((1-f) E + c*inv_eps*curl + inv_eps*delta) / (1+f) ;  P_prev' = P_curr ;  P_curr' = P_hat.   No proofs. *)
From Coq Require Import List Arith Bool.
From FV Require Import base.Scalar base.Cplx model.Yee.
Import ListNotations.
Local Open Scope fld_scope.

Section Disp.
  Variable K : Fld.
  Notation C := (C K).
  Record pole := mkPole { pc1 : M3 K; pc2 : M3 K; pc3 : M3 K }.      (* per-cell, per-component recurrence coefficients *)
  Definition pstate : Type := (V3 K * V3 K)%type.                    (* (P_curr, P_prev) of one pole *)
  Variable sc : scene K.

  Definition phat1 (c1 c2 c3 : R3 K) (pc pp e : A3 K) : A3 K :=
    fun i j k => cadd (cadd (cscal (c1 i j k) (pc i j k)) (cscal (c2 i j k) (pp i j k))) (cscal (c3 i j k) (e i j k)).
  Definition phat (p : pole) (ps : pstate) (E : V3 K) : V3 K :=
    mkV (phat1 (m1 (pc1 p)) (m1 (pc2 p)) (m1 (pc3 p)) (vx (fst ps)) (vx (snd ps)) (vx E))
        (phat1 (m2 (pc1 p)) (m2 (pc2 p)) (m2 (pc3 p)) (vy (fst ps)) (vy (snd ps)) (vy E))
        (phat1 (m3 (pc1 p)) (m3 (pc2 p)) (m3 (pc3 p)) (vz (fst ps)) (vz (snd ps)) (vz E)).
  (* delta_hat = sum over poles of (P_curr - P_hat) *)
  Fixpoint delta (ps : list pole) (st : list pstate) (E : V3 K) : V3 K :=
    match ps, st with
    | p :: ps', s :: st' => vadd K (vsub K (fst s) (phat p s E)) (delta ps' st' E)
    | _, _ => vzero K
    end.
  Fixpoint advance (ps : list pole) (st : list pstate) (E : V3 K) : list pstate :=
    match ps, st with
    | p :: ps', s :: st' => (phat p s E, fst s) :: advance ps' st' E
    | _, _ => []
    end.
  Definition updE1d (ie f : R3 K) (e kc d : A3 K) : A3 K :=
    fun i j k => cdivr (cadd (cadd (cscal (1 - f i j k) (e i j k)) (cscal (cn K sc * ie i j k) (kc i j k))) (cscal (ie i j k) (d i j k))) (1 + f i j k).

  (* update_E with the ADE correction (PML-free): returns the new E and the new polarisation state *)
  Definition update_E_disp (ps : list pole) (st : list pstate) (t : nat) (E H : V3 K) : V3 K * list pstate :=
    let kc := curlH_raw K sc H in let ie := ieps K sc in let sg := sigE K sc in
    let d := delta ps st E in
    let E1 := mkV (updE1d (m1 ie) (fE1 K sc (m1 ie) (m1 sg)) (vx E) (vx kc) (vx d))
                  (updE1d (m2 ie) (fE1 K sc (m2 ie) (m2 sg)) (vy E) (vy kc) (vy d))
                  (updE1d (m3 ie) (fE1 K sc (m3 ie) (m3 sg)) (vz E) (vz kc) (vz d)) in
    (vmask K (mE K sc) (vadd K E1 (injE K sc t)), advance ps st E).
End Disp.
Arguments mkPole {K}. Arguments pc1 {K}. Arguments pc2 {K}. Arguments pc3 {K}.
