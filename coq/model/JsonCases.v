(* JsonCases.v — boolean comparison helpers for the C31 correspondence case files (no proofs).
   JSON objects, dataclass / tree fields and dict items are compared as finite maps (key order is
   not significant: json.dumps(sort_keys=True) reorders them and Python dict equality ignores order). *)
From Coq Require Import String List Bool ZArith QArith Qcanon.
From FV Require Import base.Scalar base.Util model.Json.
Import ListNotations.
Local Open Scope string_scope.

Definition J := json Qc.
Definition P := pyv Qc.

Fixpoint json_eqb (a b : J) {struct a} : bool :=
  match a, b with
  | JNull, JNull => true
  | JBool x, JBool y => Bool.eqb x y
  | JInt x, JInt y => Z.eqb x y
  | JFloat x, JFloat y => Qc_eqb x y
  | JStr x, JStr y => String.eqb x y
  | JList l, JList m =>
      (fix le (l m : list J) : bool :=
         match l, m with [] , [] => true | x :: l', y :: m' => json_eqb x y && le l' m' | _, _ => false end) l m
  | JObj kv, JObj kw =>
      Nat.eqb (length kv) (length kw) &&
      (fix oe (l : list (string * J)) : bool :=
         match l with [] => true
         | (k, x) :: r => match assoc k kw with Some y => json_eqb x y | None => false end && oe r end) kv
  | _, _ => false
  end.

Fixpoint pyv_eqb (a b : P) {struct a} : bool :=
  let fe := (fix fe (l : list (string * P)) (kw : list (string * P)) : bool :=
         match l with [] => true
         | (k, x) :: r => match assoc k kw with Some y => pyv_eqb x y | None => false end && fe r kw end) in
  match a, b with
  | PNone, PNone => true
  | PBool x, PBool y => Bool.eqb x y
  | PInt x, PInt y => Z.eqb x y
  | PFloat x, PFloat y => Qc_eqb x y
  | PStr x, PStr y => String.eqb x y
  | PArr x, PArr y => json_eqb x y
  | PDtype x, PDtype y => String.eqb x y
  | PData m n d, PData m' n' d' => String.eqb m m' && String.eqb n n' && Nat.eqb (length d) (length d') && fe d d'
  | PTree m n d, PTree m' n' d' => String.eqb m m' && String.eqb n n' && Nat.eqb (length d) (length d') && fe d d'
  | PDict d, PDict d' => Nat.eqb (length d) (length d') && fe d d'
  | PSeq m n l, PSeq m' n' l' =>
      String.eqb m m' && String.eqb n n' &&
      (fix le (l m : list P) : bool :=
         match l, m with [] , [] => true | x :: l', y :: m' => pyv_eqb x y && le l' m' | _, _ => false end) l l'
  | PNull, PNull => true
  | POpaque, POpaque => true
  | _, _ => false
  end.

Definition opt_json_eqb (a : option J) (b : option J) : bool :=
  match a, b with Some x, Some y => json_eqb x y | None, None => true | _, _ => false end.
Definition opt_pyv_eqb (a : option P) (b : option P) : bool :=
  match a, b with Some x, Some y => pyv_eqb x y | None, None => true | _, _ => false end.
