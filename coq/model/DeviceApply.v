(* DeviceApply.v — executable model of the device part of apply_params (fdtd/initialization.py) with
   Device.__call__(expand_to_sim_grid=True) / expand_matrix (objects/device/device.py): voxel expansion by
   repetition, continuous blend, etch blend, discrete lookup (permittivities and dispersive coefficient stacks),
   initial_inv_permittivities reset.  Parameter transforms are separate properties: the model takes the
   transform chain's output.  Definitions only; lemmas in proofs/DeviceApply_proofs.v. *)
From Coq Require Import ZArith List Bool.
From FV Require Import base.Scalar base.PyNum model.DeviceOverlap.
Import ListNotations.
Open Scope Z_scope.

Definition cell : Type := Z * Z * Z.
(* executable membership of a cell in a grid slice (box of DeviceOverlap) *)
Definition inb (b : box) (c : cell) : bool :=
  let '(x, y, z) := c in let '((x0, x1), (y0, y1), (z0, z1)) := b in
  ((x0 <=? x) && (x <? x1) && (y0 <=? y) && (y <? y1) && (z0 <=? z) && (z <? z1))%bool.

Section Apply.
  Variable K : Fld.
  Local Open Scope fld_scope.
  (* array: component (or (pole, component) pair, flattened) -> cell -> value *)
  Definition arr : Type := nat -> cell -> K.
  (* _invert_property on the component vector of one cell: 1/x per component for 1 or 3 components,
     3x3 matrix inverse for 9 — kept abstract; the isotropic/diagonal instance is [inv_comp] *)
  Variable invert : (nat -> K) -> (nat -> K).
  Definition inv_comp (v : nat -> K) : nat -> K := fun k => / v k.
  (* cur_material_indices.astype(jnp.int32) *)
  Variable toidx : K -> nat.

  Inductive dkind := Continuous | Etched | Discrete.
  Record material := { perm : nat -> K; disp : nat -> K }.      (* rows of allowed_perm_array / allowed_cN arrays *)
  Record device := {
    dbox : box;                  (* device.grid_slice *)
    dvox : cell;                 (* single_voxel_grid_shape *)
    kind : dkind;                (* output_type == CONTINUOUS (with / without use_etching) or not *)
    mats : list material         (* ordered materials *)
  }.
  Definition mat0 : material := {| perm := fun _ => 0; disp := fun _ => 0 |}.
  Definition mat (d : device) (i : nat) : material := nth i (mats d) mat0.

  (* expand_matrix: simulation cell -> index of the design voxel that covers it *)
  Definition design_index (d : device) (c : cell) : cell :=
    let '(x, y, z) := c in let '((x0, _), (y0, _), (z0, _)) := dbox d in let '(vx, vy, vz) := dvox d in
    (((x - x0) / vx)%Z, ((y - y0) / vy)%Z, ((z - z0) / vz)%Z).

  (* perm_bc[0] + cur_material_indices * (perm_bc[1] - perm_bc[0]) *)
  Definition blend (e0 e1 p : K) : K := e0 + p * (e1 - e0).
  (* w0 * c_0 + w1 * c_1 with w0 = 1 - p, w1 = p *)
  Definition wblend (c0 c1 p : K) : K := (1 - p) * c0 + p * c1.

  (* new_inv_perm_slice at one cell; cur = the inverse permittivities before this device is written *)
  Definition perm_value (d : device) (p : cell -> K) (cur : arr) (c : cell) : nat -> K :=
    let v := p (design_index d c) in
    match kind d with
    | Continuous => invert (fun k => blend (perm (mat d 0) k) (perm (mat d 1) k) v)
    | Etched => let bg := invert (fun k => cur k c) in invert (fun k => blend (bg k) (perm (mat d 0) k) v)
    | Discrete => invert (perm (mat d (toidx v)))
    end.
  (* new_cN_slice at one cell *)
  Definition disp_value (d : device) (p : cell -> K) (c : cell) : nat -> K :=
    let v := p (design_index d c) in
    match kind d with
    | Discrete => disp (mat d (toidx v))
    | _ => fun k => wblend (disp (mat d 0) k) (disp (mat d 1) k) v
    end.

  (* arrays.inv_permittivities.at[:, *device.grid_slice].set(new_inv_perm_slice) *)
  Definition write (b : box) (newv : cell -> nat -> K) (cur : arr) : arr :=
    fun k c => if inb b c then newv c k else cur k c.

  Definition step_perm (a : arr) (dp : device * (cell -> K)) : arr :=
    write (dbox (fst dp)) (perm_value (fst dp) (snd dp) a) a.
  Definition step_disp (a : arr) (dp : device * (cell -> K)) : arr :=
    write (dbox (fst dp)) (disp_value (fst dp) (snd dp)) a.

  (* apply_params, device loop.  init = arrays.initial_inv_permittivities (Some exactly when a device uses etching) *)
  Definition apply_params (init : option arr) (cur : arr) (devs : list device) (ps : list (cell -> K)) : arr :=
    fold_left step_perm (combine devs ps) (match init with Some i => i | None => cur end).
  Definition apply_params_disp (cur : arr) (devs : list device) (ps : list (cell -> K)) : arr :=
    fold_left step_disp (combine devs ps) cur.

  (* a history of parameter sets applied one after the other *)
  Definition run_history (init : option arr) (cur : arr) (devs : list device) (hist : list (list (cell -> K))) : arr :=
    fold_left (fun a ps => apply_params init a devs ps) hist cur.
End Apply.

(* ------------------------------------------------------------------ executable helpers (Qc instance) *)
From Coq Require Import QArith Qcanon.
(* float -> int32 conversion of a non-negative exact value: truncation *)
Definition qtoidx (x : Qc) : nat := Z.to_nat (Qnum (this x) / Zpos (Qden (this x))).
(* a parameter array given as nested lists [x][y][z] *)
Definition p_of_list (l : list (list (list Qc))) : cell -> Qc :=
  fun c => let '(x, y, z) := c in nth (Z.to_nat z) (nth (Z.to_nat y) (nth (Z.to_nat x) l []) []) (Q2Qc 0).
(* an array given per component as nested lists *)
Definition arr_of_list (l : list (list (list (list Qc)))) : arr QcF :=
  fun k c => p_of_list (nth k l []) c.
Definition cells (nx ny nz : Z) : list cell :=
  flat_map (fun x => flat_map (fun y => map (fun z => (x, y, z)) (zrange nz)) (zrange ny)) (zrange nx).
Definition tabulate (a : arr QcF) (ncomp : nat) (nx ny nz : Z) : list (list Qc) :=
  map (fun k => map (a k) (cells nx ny nz)) (seq 0 ncomp).
Definition vec_of_list (l : list Qc) : nat -> Qc := fun k => nth k l (Q2Qc 0).
