(* Place.v — executable model of the object-placement constraint solver
   (src/fdtdx/fdtd/initialization.py: resolve_object_constraints, _apply_constraints_iteratively
   and helpers; src/fdtdx/core/grid.py: RectilinearGrid index helpers) on UNIFORM grids.

   Units.  All physical lengths are integers counting u = spacing / (2*D) for a positive integer D
   chosen per scene (every relative position is pn/D, every proportion prn/D, margins/offsets are
   multiples of u).  Edge i of an axis sits at 2*D*i (relative to the lower domain corner); the
   implementation's common offset (lower corner) cancels in every comparison.
   Objects are identified by their index in a fixed numbering; [order] is the order of the object
   list (Python dict insertion order); the volume is object [vol].
   A state is the pair of dictionaries shape_dict / slice_dict flattened into one list of
   [option Z]: variable 9*o+a = shape, 9*o+3+a = lower bound, 9*o+6+a = upper bound (a = axis).

   Not modelled (outside the fragment): non-uniform grids, partial_real_position
   (static positions), error message texts (only which objects carry an error). *)
From Coq Require Import ZArith List Bool Lia.
Import ListNotations.
Open Scope Z_scope.

(* ------------------------------------------------------------------ state *)
Definition state := list (option Z).

Fixpoint get (st : state) (i : nat) : option Z :=
  match st, i with
  | [], _ => None
  | x :: _, O => x
  | _ :: r, S j => get r j
  end.

Fixpoint set (st : state) (i : nat) (v : option Z) : state :=
  match st, i with
  | [], _ => []
  | _ :: r, O => v :: r
  | x :: r, S j => x :: set r j v
  end.

Definition vshape (o a : nat) : nat := (9 * o + a)%nat.
Definition vlo (o a : nat) : nat := (9 * o + 3 + a)%nat.
Definition vhi (o a : nat) : nat := (9 * o + 6 + a)%nat.
(* side "+" = true = upper bound *)
Definition vbound (o : nat) (side : bool) (a : nat) : nat := if side then vhi o a else vlo o a.

(* ------------------------------------------------------------------ scene description *)
(* partial_grid_shape[a] / partial_real_shape[a] of an object *)
Inductive sspec := SNone | SGrid (n : Z) | SReal (len : Z).

Record env := {
  D : Z;                      (* sub-cell unit: u = spacing/(2 D) *)
  Ns : list Z;                (* resolved grid shape (cells per axis) *)
  vol : nat;                  (* index of the SimulationVolume *)
  order : list nat;           (* object list order *)
  sshapes : list (list sspec) (* static shape spec per object index, per axis *)
}.
Definition N (e : env) (a : nat) : Z := nth a (Ns e) 0.
Definition sshape (e : env) (o a : nat) : sspec := nth a (nth o (sshapes e) []) SNone.

(* the five constraint classes of objects/object.py; one entry per element of the parallel tuples *)
Inductive constr :=
| CGrid (o : nat) (es : list (nat * bool * Z))            (* axis, side, grid coordinate *)
| CReal (o : nat) (es : list (nat * bool * Z))            (* axis, side, coordinate (u, relative to the domain centre) *)
| CPos (o other : nat) (es : list (nat * Z * Z * Z * Z))  (* axis, object_position*D, other_object_position*D, margin (u), grid_margin *)
| CSize (o other : nat) (es : list (nat * nat * Z * Z * Z)) (* axis, other axis, proportion*D, offset (u), grid_offset *)
| CExt (o : nat) (other : option nat) (a : nat) (dir : bool) (pn : Z) (off : Z) (goff : Z).

Definition cobj (c : constr) : nat :=
  match c with CGrid o _ | CReal o _ | CPos o _ _ | CSize o _ _ | CExt o _ _ _ _ _ _ => o end.

(* ------------------------------------------------------------------ grid helpers (RectilinearGrid) *)
(* first index l in [0, cnt] minimising f l  (np.argmin returns the first minimum) *)
Fixpoint argmin_scan (f : Z -> Z) (k : nat) (i best bestv : Z) : Z :=
  match k with
  | O => best
  | S k' => let v := f i in
            if v <? bestv then argmin_scan f k' (i + 1) i v else argmin_scan f k' (i + 1) best bestv
  end.
Definition argmin_first (f : Z -> Z) (cnt : Z) : Z := argmin_scan f (Z.to_nat cnt) 1 0 (f 0).

(* numpy indexing edges[i] of an array with n+1 entries: negative indices wrap, otherwise IndexError *)
Definition edge_np (n i : Z) : option Z :=
  if (0 <=? i) && (i <=? n) then Some i
  else if (- (n + 1) <=? i) && (i <? 0) then Some (n + 1 + i) else None.
(* jax indexing: negative indices wrap once, then clamp *)
Definition edge_jnp (n i : Z) : Z :=
  let j := if i <? 0 then i + (n + 1) else i in Z.max 0 (Z.min n j).

(* coord_to_index(axis, coord, "nearest"), coord measured from the lower corner *)
Definition nearest_edge (e : env) (a : nat) (c : Z) : Z :=
  argmin_first (fun i => Z.abs (2 * D e * i - c)) (N e a).

(* length_to_cell_count(axis, length, "nearest") / _real_length_to_grid_size on a uniform grid *)
Definition length_to_cells (e : env) (a : nat) (len : Z) : option Z :=
  if len <? 0 then None else Some (nearest_edge e a len).

(* anchor_coordinate(axis, (lo, hi), position = pn/D) *)
Definition anchor_coord (e : env) (a : nat) (lo hi pn : Z) : option Z :=
  match edge_np (N e a) lo, edge_np (N e a) hi with
  | Some l, Some h => Some (2 * D e * l + (pn + D e) * (h - l))
  | _, _ => None
  end.

(* bounds_for_anchor(axis, size, anchor, position = qn/D): lower index, None = ValueError *)
Definition bounds_for_anchor (e : env) (a : nat) (size anchor qn : Z) : option Z :=
  if size <=? 0 then None
  else if N e a - size <? 0 then None
  else Some (argmin_first (fun l => Z.abs (2 * D e * l + (qn + D e) * size - anchor)) (N e a - size)).

(* axis_extent(axis, (lo, hi)) / spacing — indexes the jax array (no IndexError: wrap, then clamp) *)
Definition axis_cells (e : env) (a : nat) (lo hi : Z) : Z :=
  edge_jnp (N e a) hi - edge_jnp (N e a) lo.

(* ------------------------------------------------------------------ rule application *)
(* result of a (partial) rule application: new state, resolved_something, exception raised *)
Definition res := (state * bool * bool)%type.

(* "if None: set; elif != : raise" *)
Definition set_or_check (st : state) (i : nat) (v : Z) : res :=
  match get st i with
  | None => (set st i (Some v), true, false)
  | Some w => if w =? v then (st, false, false) else (st, false, true)
  end.

(* loop over the parallel tuples of a constraint; an exception aborts the loop, earlier in-place
   modifications persist *)
Fixpoint fold_entries {E : Type} (f : E -> state -> res) (es : list E) (st : state) (chg : bool) : res :=
  match es with
  | [] => (st, chg, false)
  | x :: r => let '(st', c, ex) := f x st in
              if ex then (st', chg || c, true) else fold_entries f r st' (chg || c)
  end.

(* _apply_grid_coordinate_constraint *)
Definition grid_entry (o : nat) (x : nat * bool * Z) (st : state) : res :=
  let '(a, side, v) := x in set_or_check st (vbound o side a) v.

(* _apply_real_coordinate_constraint: coordinate relative to the domain centre = lower corner + D*N *)
Definition real_entry (e : env) (o : nat) (x : nat * bool * Z) (st : state) : res :=
  let '(a, side, c) := x in set_or_check st (vbound o side a) (nearest_edge e a (c + D e * N e a)).

(* _apply_position_constraint, one axis *)
Definition pos_entry (e : env) (o other : nat) (x : nat * Z * Z * Z * Z) (st : state) : res :=
  let '(a, qn, pn, m, g) := x in
  match get st (vlo other a), get st (vhi other a) with
  | Some ol, Some oh =>
      match get st (vshape o a) with
      | Some s =>
          match anchor_coord e a ol oh pn with
          | None => (st, false, true)
          | Some anc =>
              match bounds_for_anchor e a s (anc + m + 2 * D e * g) qn with
              | None => (st, false, true)
              | Some b0 =>
                  let '(st1, c1, x1) := set_or_check st (vlo o a) b0 in
                  if x1 then (st1, c1, true)
                  else let '(st2, c2, x2) := set_or_check st1 (vhi o a) (b0 + s) in (st2, c1 || c2, x2)
              end
          end
      | None => (st, false, false)
      end
  | _, _ => (st, false, false)
  end.

(* _apply_size_constraint, one axis *)
Definition size_entry (e : env) (o other : nat) (x : nat * nat * Z * Z * Z) (st : state) : res :=
  let '(a, oa, prn, off, goff) := x in
  match get st (vshape other oa) with
  | None => (st, false, false)
  | Some _ =>
      match get st (vlo other oa), get st (vhi other oa) with
      | Some ol, Some oh =>
          (* other_length * proportion + offset + grid_offset * spacing;  extent = 2D*cells (u), proportion = prn/D *)
          let target := 2 * axis_cells e oa ol oh * prn + off + 2 * D e * goff in
          match length_to_cells e a target with
          | None => (st, false, true)
          | Some sz => set_or_check st (vshape o a) sz
          end
      | _, _ => (st, false, false)
      end
  end.

(* _apply_size_extension_constraint *)
Definition ext_apply (e : env) (o : nat) (other : option nat) (a : nat) (dir : bool) (pn off goff : Z) (st : state) : res :=
  match other with
  | Some ot =>
      match get st (vlo ot a), get st (vhi ot a) with
      | Some ol, Some oh =>
          match anchor_coord e a ol oh pn with
          | None => (st, false, true)
          | Some anc => set_or_check st (vbound o dir a) (nearest_edge e a (anc + off + 2 * D e * goff))
          end
      | _, _ => (st, false, false)
      end
  | None =>
      match get st (vbound (vol e) dir a) with
      | None => (st, false, true)
      | Some v => set_or_check st (vbound o dir a) v
      end
  end.

Definition apply_constr (e : env) (c : constr) (st : state) : res :=
  match c with
  | CGrid o es => fold_entries (grid_entry o) es st false
  | CReal o es => fold_entries (real_entry e o) es st false
  | CPos o other es => fold_entries (pos_entry e o other) es st false
  | CSize o other es => fold_entries (size_entry e o other) es st false
  | CExt o other a dir pn off goff => ext_apply e o other a dir pn off goff st
  end.

(* the "for c in constraints: try ... except" loop.  [errs] lists the objects whose errors[] entry was
   written (chronologically); [resolved] is the Python local that keeps its previous value when a
   constraint raises *)
Fixpoint run_constraints (e : env) (cs : list constr) (st : state) (errs : list nat) (resolved changed : bool)
  : state * list nat * bool * bool :=
  match cs with
  | [] => (st, errs, resolved, changed)
  | c :: r =>
      let '(st', rs, ex) := apply_constr e c st in
      let resolved' := if ex then resolved else rs in
      let errs' := if ex then errs ++ [cobj c] else errs in
      run_constraints e r st' errs' resolved' (changed || resolved')
  end.

Definition axes : list nat := [0%nat; 1%nat; 2%nat].

(* _update_grid_slices_from_shapes, one object/axis *)
Definition slices_from_shapes_1 (o a : nat) (acc : state * list nat * bool) : state * list nat * bool :=
  let '(st, errs, rs) := acc in
  match get st (vshape o a) with
  | None => acc
  | Some s =>
      match get st (vlo o a), get st (vhi o a) with
      | None, None => acc
      | Some b0, Some b1 => if s =? b1 - b0 then acc else (st, errs ++ [o], rs)
      | Some b0, None => (set st (vhi o a) (Some (b0 + s)), errs, true)
      | None, Some b1 => (set st (vlo o a) (Some (b1 - s)), errs, true)
      end
  end.
Definition per_object_axis (f : nat -> nat -> state * list nat * bool -> state * list nat * bool)
  (ord : list nat) (acc : state * list nat * bool) : state * list nat * bool :=
  fold_left (fun acc o => fold_left (fun acc a => f o a acc) axes acc) ord acc.
Definition slices_from_shapes (e : env) (st : state) (errs : list nat) : state * list nat * bool :=
  per_object_axis slices_from_shapes_1 (order e) (st, errs, false).

(* _update_grid_shapes_from_slices, one object/axis *)
Definition shapes_from_slices_1 (o a : nat) (acc : state * list nat * bool) : state * list nat * bool :=
  let '(st, errs, rs) := acc in
  match get st (vlo o a), get st (vhi o a) with
  | Some b0, Some b1 =>
      match get st (vshape o a) with
      | None => (set st (vshape o a) (Some (b1 - b0)), errs, true)
      | Some s => if b1 - b0 =? s then acc else (st, errs ++ [o], rs)
      end
  | _, _ => acc
  end.
Definition shapes_from_slices (e : env) (st : state) (errs : list nat) : state * list nat * bool :=
  per_object_axis shapes_from_slices_1 (order e) (st, errs, false).

(* _extend_to_inf_if_possible: may (object o, direction dir) be extended on axis a, judged on the
   state at the start of this axis *)
Definition is_some (x : option Z) : bool := match x with Some _ => true | None => false end.
Definition blocks_ext (st : state) (a o : nat) (dir : bool) (c : constr) : bool :=
  match c with
  | CExt o' _ a' dir' _ _ _ => Nat.eqb a a' && Nat.eqb o o' && Bool.eqb dir dir'
  | CPos o' other es =>
      Nat.eqb o o' &&
      existsb (fun x : nat * Z * Z * Z * Z => let '(a', _, _, _, _) := x in
                 Nat.eqb a' a && negb (is_some (get st (vlo other a)) && is_some (get st (vhi other a)))) es
  | _ => false
  end.
Definition can_extend (cs : list constr) (st : state) (a o : nat) (dir : bool) : bool :=
  negb (existsb (blocks_ext st a o dir) cs) &&
  match get st (vlo o a), get st (vhi o a), get st (vshape o a) with
  | Some _, Some _, _ => false
  | Some _, None, Some _ => negb dir
  | None, Some _, Some _ => dir
  | None, None, Some _ => negb dir
  | _, _, _ => true
  end.
Definition extend_axis (e : env) (cs : list constr) (acc : state * bool) (a : nat) : state * bool :=
  let st0 := fst acc in
  let step (dir : bool) (acc : state * bool) (o : nat) : state * bool :=
    let '(st, rs) := acc in
    if can_extend cs st0 a o dir && negb (is_some (get st (vbound o dir a)))
    then (set st (vbound o dir a) (if dir then get st (vshape (vol e) a) else Some 0), true)
    else acc in
  fold_left (step true) (order e) (fold_left (step false) (order e) acc).
Definition extend (e : env) (cs : list constr) (st : state) : state * bool :=
  fold_left (extend_axis e cs) axes (st, false).

(* _handle_unresolved_objects *)
Definition slices_known (st : state) (o : nat) : bool :=
  forallb (fun a => is_some (get st (vlo o a)) && is_some (get st (vhi o a))) axes.
Definition handle_unresolved (e : env) (st : state) (errs : list nat) : list nat :=
  errs ++ filter (fun o => negb (slices_known st o)) (order e).

(* the early-exit test at the top of the loop *)
Definition all_resolved (e : env) (st : state) : bool :=
  forallb (fun o => forallb (fun a => is_some (get st (vshape o a))) axes && slices_known st o) (order e).

(* one pass of the loop body up to and including the constraint loop *)
Definition pass (e : env) (cs : list constr) (st : state) (errs : list nat) : state * list nat * bool :=
  let '(st1, errs1, r1) := slices_from_shapes e st errs in
  let '(st2, errs2, r2) := shapes_from_slices e st1 errs1 in
  let '(st3, errs3, _, ch) := run_constraints e cs st2 errs2 r2 (r1 || r2) in
  (st3, errs3, ch).

(* _apply_constraints_iteratively's loop.  [early] = true is the source as written (break as soon as
   everything is resolved); [early] = false is the repaired loop (fixes/C26.patch).
   Third component: false iff max_iter was exhausted (the for/else branch). *)
Fixpoint iterate (early : bool) (e : env) (cs : list constr) (fuel : nat) (st : state) (errs : list nat)
  : state * list nat * bool :=
  match fuel with
  | O => (st, handle_unresolved e st errs, false)
  | S f =>
      if early && all_resolved e st then (st, errs, true)
      else
        let '(st3, errs3, ch) := pass e cs st errs in
        if ch then iterate early e cs f st3 errs3
        else let '(st4, ch4) := extend e cs st3 in
             if ch4 then iterate early e cs f st4 errs3
             else (st4, handle_unresolved e st4 errs3, true)
  end.

(* initial dictionaries: everything None, volume lower bounds 0, then _resolve_static_shapes *)
Definition static_shape (e : env) (o a : nat) : option Z :=
  match sshape e o a with
  | SNone => None
  | SGrid n => Some n
  | SReal len => Some (nearest_edge e a len)   (* len >= 0 is a precondition (otherwise place raises) *)
  end.
Definition init_state (e : env) (nobj : nat) : state :=
  let st0 := repeat (@None Z) (9 * nobj) in
  let st1 := fold_left (fun st a => set st (vlo (vol e) a) (Some 0)) axes st0 in
  fold_left (fun st o => fold_left (fun st a =>
      match static_shape e o a with Some s => set st (vshape o a) (Some s) | None => st end) axes st) (order e) st1.

Definition solve (early : bool) (e : env) (cs : list constr) (fuel : nat) : state * list nat * bool :=
  iterate early e cs fuel (init_state e (length (order e))) [].

(* resolve_object_constraints' final validation against the volume *)
Definition bounds_errors (e : env) (st : state) (errs : list nat) : list nat :=
    fold_left (fun errs o =>
      if Nat.eqb o (vol e) then errs
      else if negb (slices_known st o) then (if existsb (Nat.eqb o) errs then errs else errs ++ [o])
      else if forallb (fun a =>
                match get st (vlo o a), get st (vhi o a), get st (vlo (vol e) a), get st (vhi (vol e) a) with
                | Some s1, Some s2, Some v1, Some v2 => (v1 <=? s1) && (s2 <=? v2) && (s1 <? s2)
                | _, _, _, _ => false
                end) axes
           then errs else errs ++ [o]) (order e) errs.

Definition resolve (early : bool) (e : env) (cs : list constr) (fuel : nat) : state * list nat * bool :=
  let '(st, errs, conv) := solve early e cs fuel in (st, bounds_errors e st errs, conv).

(* observable result: per object (in list order) the three (lower, upper) pairs *)
Definition slices_of (e : env) (st : state) : list (list (option Z * option Z)) :=
  map (fun o => map (fun a => (get st (vlo o a), get st (vhi o a))) axes) (order e).

(* ------------------------------------------------------------------ comparison with the implementation *)
Definition oz_eqb (a b : option Z) : bool :=
  match a, b with Some x, Some y => Z.eqb x y | None, None => true | _, _ => false end.
Fixpoint list_eqb' {A} (eqb : A -> A -> bool) (a b : list A) : bool :=
  match a, b with
  | [], [] => true
  | x :: a', y :: b' => eqb x y && list_eqb' eqb a' b'
  | _, _ => false
  end.
Definition slices_eqb : list (list (option Z * option Z)) -> list (list (option Z * option Z)) -> bool :=
  list_eqb' (list_eqb' (fun p q => oz_eqb (fst p) (fst q) && oz_eqb (snd p) (snd q))).
Definition same_set (a b : list nat) : bool :=
  forallb (fun x => existsb (Nat.eqb x) b) a && forallb (fun x => existsb (Nat.eqb x) a) b.
(* converged, same slices for every object, same set of objects carrying an error *)
Definition place_agrees (early : bool) (e : env) (cs : list constr) (fuel : nat)
  (sl : list (list (option Z * option Z))) (errs : list nat) : bool :=
  let '(st, er, conv) := resolve early e cs fuel in
  conv && slices_eqb (slices_of e st) sl && same_set er errs.
