(* Switch.v — executable model of core/switch.py (OnOffSwitch, is_on_at_time_step), of the gating in
   fdtd/update.py (lax.cond on the on-array for sources and detectors) and of the detector write index
   (objects/detectors/detector.py place_on_grid, *.update: state.at[_time_step_to_arr_idx[t]].set(..)).
   Times are elements of an ordered field (executed at Qc); +infinity is a separate constructor.  No proofs. *)
From Coq Require Import ZArith List Bool.
From FV Require Import base.Scalar base.PyNum base.RecorderBase.
Import ListNotations.
Open Scope Z_scope.

Inductive sres (A : Type) :=
| SOk (a : A)
| ErrNeedPeriod        (* "Need to specify period!" *)
| ErrStartSpec         (* "Invalid start time specification!" *)
| ErrEndSpec           (* "Invalid end time specification!" *)
| ErrNever             (* "This should never happen" *)
| ErrIndex             (* IndexError: fixed step outside [-T, T) *)
| ErrZeroDiv.          (* t % 0 *)
Arguments SOk {A}. Arguments ErrNeedPeriod {A}. Arguments ErrStartSpec {A}. Arguments ErrEndSpec {A}.
Arguments ErrNever {A}. Arguments ErrIndex {A}. Arguments ErrZeroDiv {A}.

Definition sbind {A B} (r : sres A) (f : A -> sres B) : sres B :=
  match r with
  | SOk a => f a
  | ErrNeedPeriod => ErrNeedPeriod | ErrStartSpec => ErrStartSpec | ErrEndSpec => ErrEndSpec
  | ErrNever => ErrNever | ErrIndex => ErrIndex | ErrZeroDiv => ErrZeroDiv
  end.

Section Switch.
  Variable K : OFld.
  Local Open Scope fld_scope.

  Inductive ext := Fin (x : K) | PInf.                       (* float or math.inf *)
  Definition ext_geb (e : ext) (x : K) : bool := match e with Fin y => fleb K x y | PInf => true end.   (* x <= e *)

  Record switch := {
    start_time : option K; start_after_periods : option K;
    end_time : option K; end_after_periods : option K;
    on_for_time : option K; on_for_periods : option K;
    period : option K;
    fixed_on_time_steps : option (list Z);
    is_always_off : bool;
    interval : Z }.

  Definition isS {A} (o : option A) : bool := match o with Some _ => true | None => false end.
  Definition cnt (l : list bool) : nat := length (filter (fun b => b) l).
  (* x_after_periods * period, guarded by "if period is None: raise" *)
  Definition times_period {A} (x per : option K) (wrap : K -> A) (dflt : option A) : sres (option A) :=
    match x with
    | Some a => match per with Some p => SOk (Some (wrap (a * p))) | None => ErrNever end
    | None => SOk dflt
    end.

  (* switch.py: is_on_at_time_step, statement by statement; [tp] = time_step * time_step_duration *)
  Definition is_on_at_time_step (sw : switch) (tp : K) : sres bool :=
    if is_always_off sw then SOk false else
    let st := start_time sw in let sap := start_after_periods sw in
    let et := end_time sw in let eap := end_after_periods sw in
    let oft := on_for_time sw in let ofp := on_for_periods sw in let per := period sw in
    if (isS sap || isS eap || isS ofp) && negb (isS per) then ErrNeedPeriod else
    let nstart := cnt [isS st; isS sap; isS oft && isS et; isS ofp && isS et; isS oft && isS eap; isS ofp && isS eap] in
    if (1 <? nstart)%nat then ErrStartSpec else
    let st := if (nstart =? 0)%nat then Some 0 else st in
    let nend := cnt [isS et; isS eap; isS oft && isS st; isS ofp && isS st; isS oft && isS sap; isS ofp && isS sap] in
    if (1 <? nend)%nat then ErrEndSpec else
    let et : option ext := if (nend =? 0)%nat then Some PInf else option_map Fin et in
    (* period to actual time *)
    sbind (times_period sap per (fun x => x) st) (fun st =>
    sbind (times_period eap per Fin et) (fun et =>
    sbind (times_period ofp per (fun x => x) oft) (fun oft =>
    (* determine start / end time *)
    sbind (match st, oft with
           | None, Some d => match et with Some (Fin e) => SOk (Some (e - d)) | _ => ErrNever end
           | _, _ => SOk st end) (fun st =>
    sbind (match et, oft with
           | None, Some d => match st with Some s => SOk (Some (Fin (s + d))) | None => ErrNever end
           | _, _ => SOk et end) (fun et =>
    match st, et with
    | Some s, Some e => SOk (fleb K s tp && ext_geb e tp)
    | _, _ => ErrNever
    end))))).

  (* on_list[t_idx] = True with Python list indexing (negative indices wrap, outside [-T,T) raises) *)
  Fixpoint set_fixed (T : Z) (l : list bool) (fx : list Z) : sres (list bool) :=
    match fx with
    | [] => SOk l
    | i :: r => if (i <? - T) || (T <=? i) then ErrIndex
                else set_fixed T (zset l (if i <? 0 then T + i else i) true) r
    end.

  (* calculate_on_list: case 2, one step (cur_on and t % interval == 0, short-circuit) *)
  Definition on_step (sw : switch) (dt : K) (t : Z) : sres bool :=
    match is_on_at_time_step sw (fofZ t * dt) with
    | SOk true => if interval sw =? 0 then ErrZeroDiv else SOk (t mod interval sw =? 0)
    | r => r
    end.
  Fixpoint on_steps (sw : switch) (dt : K) (ts : list Z) : sres (list bool) :=
    match ts with
    | [] => SOk []
    | t :: r => sbind (on_step sw dt t) (fun b => sbind (on_steps sw dt r) (fun l => SOk (b :: l)))
    end.
  Definition calculate_on_list (sw : switch) (T : Z) (dt : K) : sres (list bool) :=
    match fixed_on_time_steps sw with
    | Some fx => set_fixed T (repeat false (Z.to_nat T)) fx
    | None => on_steps sw dt (zrange T)
    end.
End Switch.
Arguments Fin {K}. Arguments PInf {K}. Arguments SOk {A}.
Arguments start_time {K}. Arguments start_after_periods {K}. Arguments end_time {K}. Arguments end_after_periods {K}.
Arguments on_for_time {K}. Arguments on_for_periods {K}. Arguments period {K}. Arguments fixed_on_time_steps {K}.
Arguments is_always_off {K}. Arguments interval {K}. Arguments Build_switch {K}.

(* calculate_time_step_to_on_arr_idx / Detector.place_on_grid: running counter, -1 for off steps *)
Fixpoint idx_from (counter : Z) (on : list bool) : list Z :=
  match on with
  | [] => []
  | true :: r => counter :: idx_from (counter + 1) r
  | false :: r => -1 :: idx_from counter r
  end.
Definition idx_map (on : list bool) : list Z := idx_from 0 on.
Definition num_on (on : list bool) : Z := Z.of_nat (length (filter (fun b => b) on)).     (* sum(on_list) *)

(* update.py: jax.lax.cond(is_on[t], update, identity) for a source; the update receives the adjusted step *)
Definition gated {S : Type} (on : list bool) (idx : list Z) (upd : Z -> S -> S) (t : Z) (s : S) : S :=
  if znth on t false then upd (znth idx t (-1)) s else s.

(* detectors: cond(is_on[t], state.at[idx[t]].set(observation at t), state), over the steps ts in order *)
Definition det_step {R : Type} (on : list bool) (idx : list Z) (obs : Z -> R) (rows : list R) (t : Z) : list R :=
  if znth on t false then zset rows (znth idx t (-1)) (obs t) else rows.
Definition det_run {R : Type} (on : list bool) (obs : Z -> R) (zero : R) (T : Z) : list R :=
  fold_left (det_step on (idx_map on) obs) (zrange T) (repeat zero (Z.to_nat (num_on on))).
(* the on steps in chronological order, counted from t *)
Fixpoint on_times_from (t : Z) (on : list bool) : list Z :=
  match on with
  | [] => []
  | b :: r => (if b then [t] else []) ++ on_times_from (t + 1) r
  end.
Definition on_times (on : list bool) : list Z := on_times_from 0 on.
