(* PaintMaterials.v — executable model of src/fdtdx/materials.py (the parts C28 and C39 need).
   Model only; lemmas are in proofs/PaintMaterials_proofs.v. *)
From Coq Require Import ZArith List Bool.
From FV Require Import base.Scalar base.PaintBase.
Import ListNotations.

Section Materials.
Variable K : OFld.
Variable rel : K.          (* math.isclose's default rel_tol (the double 1e-9) *)
Local Open Scope fld_scope.

Definition feqb (x y : K) : bool := fleb K x y && fleb K y x.
Definition fltb (x y : K) : bool := negb (fleb K y x).
Definition fabs (x : K) : K := if fleb K 0 x then x else - x.

(* math.isclose(a, b) with rel_tol=1e-9, abs_tol=0.0 (CPython: a==b, or diff <= |rel*b|, or diff <= |rel*a|) *)
Definition isclose (a b : K) : bool :=
  feqb a b || fleb K (fabs (b - a)) (fabs (rel * b)) || fleb K (fabs (b - a)) (fabs (rel * a)).

(* a material property after normalisation: (xx, xy, xz, yx, yy, yz, zx, zy, zz) = indices 0..8 *)
Record T9 : Type := mk9 { t0 : K; t1 : K; t2 : K; t3 : K; t4 : K; t5 : K; t6 : K; t7 : K; t8 : K }.
Definition t9_list (p : T9) : list K := [t0 p; t1 p; t2 p; t3 p; t4 p; t5 p; t6 p; t7 p; t8 p].
Definition t9_diag (a b c : K) : T9 := mk9 a 0 0 0 b 0 0 0 c.

(* ---------- _normalize_material_property on Python values ---------- *)
(* Python values reaching the function: float, int, tuple (anything else is not modelled) *)
Inductive PyVal : Type := PFloat (x : K) | PInt (n : Z) | PTuple (l : list PyVal).
Inductive NormResult : Type := NOk (l : list PyVal) | NValueError.
Definition is_tuple (v : PyVal) : bool := match v with PTuple _ => true | _ => false end.
Definition is_float (v : PyVal) : bool := match v with PFloat _ => true | _ => false end.
Definition tup_len (v : PyVal) : nat := match v with PTuple l => length l | _ => 0 end.
Definition zeroF : PyVal := PFloat 0.

(* _normalize_material_property *)
Definition normalize (value : PyVal) : NormResult :=
  match value with
  | PTuple [a; b; c] =>
      if is_tuple a && is_tuple b && is_tuple c then
        match a, b, c with
        | PTuple [a0; a1; a2], PTuple [b0; b1; b2], PTuple [c0; c1; c2] => NOk [a0; a1; a2; b0; b1; b2; c0; c1; c2]
        | _, _, _ => NValueError                      (* a row whose length is not 3 *)
        end
      else if is_float a && is_float b && is_float c then
        NOk [a; zeroF; zeroF; zeroF; b; zeroF; zeroF; zeroF; c]
      else NValueError                                (* e.g. a 3-tuple of ints, or mixed *)
  | PTuple l => if Nat.eqb (length l) 9 then NOk l else NValueError
  | v => NOk [v; zeroF; zeroF; zeroF; v; zeroF; zeroF; zeroF; v]
  end.

(* numeric reading of a normalised tuple (ints are used as numbers by every consumer) *)
Variable of_Z : Z -> K.
Definition num (v : PyVal) : option K := match v with PFloat x => Some x | PInt n => Some (of_Z n) | PTuple _ => None end.
Definition to_T9 (l : list PyVal) : option T9 :=
  match map num l with
  | [Some a; Some b; Some c; Some d; Some e; Some f; Some g; Some h; Some i] => Some (mk9 a b c d e f g h i)
  | _ => None
  end.

(* ---------- Material and its predicates ---------- *)
Record Mat : Type := mkMat { m_eps : T9; m_mu : T9; m_sige : T9; m_sigm : T9 }.

(* the six off-diagonal entries are isclose to 0.0 *)
Definition offdiag_zero (p : T9) : bool :=
  isclose (t1 p) 0 && isclose (t2 p) 0 && isclose (t3 p) 0 && isclose (t5 p) 0 && isclose (t6 p) 0 && isclose (t7 p) 0.
(* _is_property_isotropic *)
Definition is_isotropic (p : T9) : bool := isclose (t0 p) (t4 p) && isclose (t4 p) (t8 p) && offdiag_zero p.
(* _is_property_diagonally_anisotropic *)
Definition is_diagonal (p : T9) : bool := offdiag_zero p.
(* Material.is_magnetic (real entries) *)
Definition is_magnetic (m : Mat) : bool :=
  let p := m_mu m in
  negb (isclose (t0 p) 1 && isclose (t1 p) 0 && isclose (t2 p) 0 && isclose (t3 p) 0 && isclose (t4 p) 1
        && isclose (t5 p) 0 && isclose (t6 p) 0 && isclose (t7 p) 0 && isclose (t8 p) 1).
Definition all_close_zero (p : T9) : bool := forallb (fun x => isclose x 0) (t9_list p).
(* Material.is_electrically_conductive / is_magnetically_conductive *)
Definition is_econductive (m : Mat) : bool := negb (all_close_zero (m_sige m)).
Definition is_mconductive (m : Mat) : bool := negb (all_close_zero (m_sigm m)).

(* ---------- ordering: compute_ordered_material_name_tuples ---------- *)
(* sort key (permittivity[0], permeability[0], electric_conductivity[0], magnetic_conductivity[0]),
   Python tuple comparison = lexicographic *)
Definition mkey (m : Mat) : K * K * K * K := (t0 (m_eps m), t0 (m_mu m), t0 (m_sige m), t0 (m_sigm m)).
Definition key_le (a b : K * K * K * K) : bool :=
  let '(a1, a2, a3, a4) := a in let '(b1, b2, b3, b4) := b in
  if fltb a1 b1 then true else if fltb b1 a1 then false else
  if fltb a2 b2 then true else if fltb b2 a2 then false else
  if fltb a3 b3 then true else if fltb b3 a3 then false else fleb K a4 b4.
(* a dictionary of materials = association list in insertion order (names are abstract ids) *)
Definition named_le {N : Type} (a b : N * Mat) : bool := key_le (mkey (snd a)) (mkey (snd b)).
Definition ordered_tuples {N : Type} (mats : list (N * Mat)) : list (N * Mat) := isort named_le mats.
(* compute_ordered_names / compute_ordered_materials *)
Definition ordered_names {N : Type} (mats : list (N * Mat)) : list N := map fst (ordered_tuples mats).
Definition ordered_materials {N : Type} (mats : list (N * Mat)) : list Mat := map snd (ordered_tuples mats).

(* compute_allowed_{permittivities,permeabilities,electric_conductivities,magnetic_conductivities}:
   tuples of length 1 / 3 / 9 in the common order *)
Definition components (isotropic diagonal : bool) (p : T9) : list K :=
  if isotropic then [t0 p] else if diagonal then [t0 p; t4 p; t8 p] else t9_list p.
Definition allowed {N : Type} (prop : Mat -> T9) (mats : list (N * Mat)) (isotropic diagonal : bool) : list (list K) :=
  map (fun o => components isotropic diagonal (prop (snd o))) (ordered_tuples mats).

(* ---------- Material.from_complex_permittivity ---------- *)
(* _split_complex_property, component-wise: real part and omega * vacuum_constant * imaginary part *)
Definition split_component (omega vac : K) (re im : K) : K * K := (re, omega * vac * im).
Definition t9_map2 (f : K -> K -> K) (a b : T9) : T9 :=
  mk9 (f (t0 a) (t0 b)) (f (t1 a) (t1 b)) (f (t2 a) (t2 b)) (f (t3 a) (t3 b)) (f (t4 a) (t4 b))
      (f (t5 a) (t5 b)) (f (t6 a) (t6 b)) (f (t7 a) (t7 b)) (f (t8 a) (t8 b)).
Definition t9_map (f : K -> K) (a : T9) : T9 :=
  mk9 (f (t0 a)) (f (t1 a)) (f (t2 a)) (f (t3 a)) (f (t4 a)) (f (t5 a)) (f (t6 a)) (f (t7 a)) (f (t8 a)).
Definition det33 (p : T9) : K :=
  t0 p * (t4 p * t8 p - t5 p * t7 p) - t1 p * (t3 p * t8 p - t5 p * t6 p) + t2 p * (t3 p * t7 p - t4 p * t6 p).
Definition fmax (a b : K) : K := if fleb K a b then b else a.
Definition maxabs9 (p : T9) : K := fold_left fmax (map fabs (t9_list p)) 0.
(* the singularity guard: abs(det) < 1e-9 * max(1, max|m|)^3 *)
Variable tol9 : K.        (* the literal 1e-9 *)
Definition singular (p : T9) : bool :=
  let m := fmax 1 (maxabs9 p) in fltb (fabs (det33 p)) (tol9 * (m * m * m)).
(* _resolve_reference_omega for the frequency / wavelength inputs *)
Variable two_pi : K.      (* the double 2.0 * math.pi *)
Variable c0 : K.          (* constants.c *)
Inductive RefSpec : Type := RefFrequency (f : K) | RefWavelength (w : K).
Definition resolve_omega (r : RefSpec) : K :=
  match r with RefFrequency f => two_pi * f | RefWavelength w => two_pi * (c0 / w) end.
Variable eps0 mu0 : K.
Inductive MatResult : Type := MOk (m : Mat) | MSingular.
(* from_complex_permittivity on normalised complex tensors (real parts, imaginary parts) *)
Definition from_complex (r : RefSpec) (eps_re eps_im mu_re mu_im : T9) : MatResult :=
  let omega := resolve_omega r in
  let sig_e := t9_map (fun im => omega * eps0 * im) eps_im in
  let sig_m := t9_map (fun im => omega * mu0 * im) mu_im in
  if singular eps_re || singular mu_re then MSingular
  else MOk (mkMat eps_re mu_re sig_e sig_m).
(* the complex relative permittivity a conductive medium presents at angular frequency w:
   eps' + i * sigma / (w * eps0), as (real, imaginary) tensors *)
Definition complex_eps_at (w : K) (m : Mat) : T9 * T9 :=
  (m_eps m, t9_map (fun s => s / (w * eps0)) (m_sige m)).
Definition complex_mu_at (w : K) (m : Mat) : T9 * T9 :=
  (m_mu m, t9_map (fun s => s / (w * mu0)) (m_sigm m)).
End Materials.

Arguments PFloat {K}. Arguments PInt {K}. Arguments PTuple {K}.
Arguments NOk {K}. Arguments NValueError {K}.

(* ---------- comparison helpers for the correspondence (Qc instance) ---------- *)
From Coq Require Import QArith Qcanon.
From FV Require Import base.Util.
Definition of_Zq (z : Z) : Qc := Q2Qc (inject_Z z).
Definition pv_check (v : PyVal QcOF) (e : bool * Qc) : bool :=
  match v with
  | PFloat x => fst e && Qc_eqb x (snd e)
  | PInt n => negb (fst e) && Qc_eqb (of_Zq n) (snd e)
  | PTuple _ => false
  end.
Fixpoint list_all2 {A B} (f : A -> B -> bool) (a : list A) (b : list B) : bool :=
  match a, b with [], [] => true | x :: a', y :: b' => f x y && list_all2 f a' b' | _, _ => false end.
(* expected: Some [(is_float, value); ...] or None for ValueError *)
Definition norm_check (r : NormResult QcOF) (exp : option (list (bool * Qc))) : bool :=
  match r, exp with
  | NOk l, Some e => list_all2 pv_check l e
  | NValueError, None => true
  | _, _ => false
  end.
Definition C9 := mk9 QcOF.
Definition CMAT := mkMat QcOF.
(* the predicate vector in the driver's order *)
Definition preds_of (rel : Qc) (m : Mat QcOF) : list bool :=
  let iso p := is_isotropic QcOF rel p in let dg p := is_diagonal QcOF rel p in
  [iso (m_eps _ m); dg (m_eps _ m); iso (m_mu _ m); dg (m_mu _ m); iso (m_sige _ m); dg (m_sige _ m); iso (m_sigm _ m); dg (m_sigm _ m);
   is_magnetic QcOF rel m; is_econductive QcOF rel m; is_mconductive QcOF rel m;
   iso (m_eps _ m) && iso (m_mu _ m) && iso (m_sige _ m) && iso (m_sigm _ m);
   dg (m_eps _ m) && dg (m_mu _ m) && dg (m_sige _ m) && dg (m_sigm _ m)].
Definition natlist_eqb := list_eqb Nat.eqb.
Definition t9_eqb (a : T9 QcOF) (b : list Qc) : bool := qlist_eqb (t9_list _ a) b.
Definition mat_eqb (m : Mat QcOF) (b : list (list Qc)) : bool :=
  match b with [e; u; s; t] => t9_eqb (m_eps _ m) e && t9_eqb (m_mu _ m) u && t9_eqb (m_sige _ m) s && t9_eqb (m_sigm _ m) t | _ => false end.
Definition relclose (tol a b : Qc) : bool := Qcleb (Qc_abs (a - b)%Qc) (tol * Qc_abs b)%Qc.
Definition mat_close (tol : Qc) (m : Mat QcOF) (b : list (list Qc)) : bool :=
  match b with
  | [e; u; s; t] => list_eqb (relclose tol) (t9_list _ (m_eps _ m)) e && list_eqb (relclose tol) (t9_list _ (m_mu _ m)) u
                    && list_eqb (relclose tol) (t9_list _ (m_sige _ m)) s && list_eqb (relclose tol) (t9_list _ (m_sigm _ m)) t
  | _ => false
  end.
Definition complex_check (tol : Qc) (r : MatResult QcOF) (exp : option (list (list Qc))) : bool :=
  match r, exp with
  | MOk _ m, Some b => mat_close tol m b
  | MSingular _, None => true
  | _, _ => false
  end.
Definition PF (x : Qc) : PyVal QcOF := @PFloat QcOF x.
Definition PI (n : Z) : PyVal QcOF := @PInt QcOF n.
Definition PT (l : list (PyVal QcOF)) : PyVal QcOF := @PTuple QcOF l.
