(* Tfsf.v — model of the single-face total-field/scattered-field injection of objects/sources/tfsf.py
   (_tfsf_inject_E_face / _tfsf_inject_H_face, isotropic / diagonal branch) and of the 1-D Yee line along
   the face normal on which its exactness can be stated.  No proofs.
   a, b = the oriented transverse axes of the normal axis n: a = (n+1) mod 3, b = (n+2) mod 3. *)
From Coq Require Import ZArith.
From FV Require Import base.Scalar.
Local Open Scope fld_scope.

Section Tfsf.
  Variable K : Fld.
  (* what the face adds: E[a] += sign*c*inv_eps[a]*H_b_inc ; E[b] -= sign*c*inv_eps[b]*H_a_inc *)
  Definition inject_E (sign c ie_a ie_b Ha_inc Hb_inc : car K) : car K * car K :=
    (sign * (Hb_inc * c * ie_a), - sign * (Ha_inc * c * ie_b)).
  (* H[b] += sign*c*inv_mu[b]*E_a_inc ; H[a] -= sign*c*inv_mu[a]*E_b_inc *)
  Definition inject_H (sign c im_a im_b Ea_inc Eb_inc : car K) : car K * car K :=
    (- sign * (Eb_inc * c * im_a), sign * (Ea_inc * c * im_b)).    (* (dH_a, dH_b) *)

  (* ---- the 1-D line along the normal axis, polarisation (E_a, H_b), cells indexed by Z, homogeneous medium ---- *)
  Variables c ie im : car K.
  Definition line := Z -> car K.
  (* E_a'(k) = E_a(k) - c*ie*(H_b(k) - H_b(k-1))   [ (curl H)_a = -d_n H_b ] *)
  Definition stepE1 (E H : line) : line := fun k => E k - c * ie * (H k - H (k - 1)%Z).
  (* H_b'(k) = H_b(k) - c*im*(E_a'(k+1) - E_a'(k))  [ (curl E)_b = d_n E_a ] *)
  Definition stepH1 (E' H : line) : line := fun k => H k - c * im * (E' (k + 1)%Z - E' k).
  (* one step with a source face at cell k0, direction sign (+1 / -1), incident samples Hinc, Einc *)
  Definition step_src (sign : car K) (k0 : Z) (Hinc Einc : car K) (EH : line * line) : line * line :=
    let E1 := stepE1 (fst EH) (snd EH) in
    let E2 : line := fun k => if Z.eqb k k0 then E1 k + fst (inject_E sign c ie ie 0 Hinc) else E1 k in
    let H1 := stepH1 E2 (snd EH) in
    let H2 : line := fun k => if Z.eqb k k0 then H1 k + snd (inject_H sign c im im Einc 0) else H1 k in
    (E2, H2).
  Definition step_free (EH : line * line) : line * line :=
    let E1 := stepE1 (fst EH) (snd EH) in (E1, stepH1 E1 (snd EH)).
End Tfsf.
