(* Grid_proofs.v — lemmas about model/Grid.v (C37). *)
From Coq Require Import ZArith List Bool Lia Field Ring Arith.
From FV Require Import base.Scalar base.GridBase model.Grid.
Import ListNotations.
Local Open Scope fld_scope.

Section GridProofs.
  Variable K : OFld.
  Add Field KFg : (Fth K).
  Notation F := (car K).

  Notation e_at := (e_at K).
  Notation diffs := (diffs K).
  Notation increasingb := (increasingb K).

  Lemma nth_map0 (f : F -> F) l j : (j < length l)%nat -> nth j (map f l) 0 = f (nth j l 0).
  Proof. intros H. rewrite (nth_indep _ 0 (f 0)) by (rewrite map_length; exact H). apply map_nth. Qed.
  Lemma nth_map_seq (f : nat -> F) n j : (j < n)%nat -> nth j (map f (seq 0 n)) 0 = f j.
  Proof.
    intros H. rewrite (nth_indep _ 0 (f O)) by (rewrite map_length, seq_length; exact H).
    rewrite map_nth, seq_nth by exact H. reflexivity.
  Qed.

  (* ---------- coord_to_index ---------- *)
  Theorem nearest_spec edges c : edges <> [] ->
    let i := Z.to_nat (coord_to_index K edges c Nearest) in
    (i < length edges)%nat
    /\ (forall j, (j < length edges)%nat -> fle K (fabs (e_at edges i - c)) (fabs (e_at edges j - c)))
    /\ (forall j, (j < i)%nat -> flt (fabs (e_at edges i - c)) (fabs (e_at edges j - c))).
  Proof.
    intros Hne. cbn [coord_to_index]. rewrite Nat2Z.id. cbv zeta.
    set (l := map (fun e => fabs (e - c)) edges).
    assert (Hl : l <> []) by (destruct edges; [congruence | discriminate]).
    destruct (argmin_spec K l Hl) as (A & B & C). unfold l in A, B, C. rewrite map_length in A, B.
    split; [exact A|]. unfold Grid.e_at. split.
    - intros j Hj. specialize (B j Hj). rewrite !nth_map0 in B by assumption. exact B.
    - intros j Hj. specialize (C j Hj). unfold l in Hj. rewrite !nth_map0 in C by lia. exact C.
  Qed.

  (* strictly increasing as a Prop *)
  Lemma increasing_lt l : increasingb l = true -> forall i j, (i < j)%nat -> (j < length l)%nat -> flt (nth i l 0) (nth j l 0).
  Proof.
    induction l as [|x r IH]; intros H i j Hij Hj; [cbn in Hj; lia|].
    destruct r as [|y r']; [cbn in Hj; lia|].
    cbn [Grid.increasingb] in H. apply andb_true_iff in H. destruct H as [H1 H2]. apply fltb_spec in H1.
    destruct j as [|j]; [lia|]. destruct i as [|i].
    - cbn [nth]. destruct j as [|j]; [exact H1|].
      eapply flt_le_trans; [exact H1|]. apply flt_le. apply (IH H2 O (S j)); cbn [length] in *; lia.
    - cbn [nth]. apply (IH H2 i j); cbn [length] in *; lia.
  Qed.

  Lemma ss_right_spec l c : increasingb l = true ->
    let k := ss_right K l c in
    (k <= length l)%nat /\ (forall j, (j < k)%nat -> fle K (nth j l 0) c)
    /\ (forall j, (k <= j)%nat -> (j < length l)%nat -> flt c (nth j l 0)).
  Proof.
    induction l as [|x r IH]; intros H; cbn [ss_right length].
    - split; [lia|]. split; intros j Hj; lia.
    - destruct (fleb K x c) eqn:E.
      + assert (Hr : increasingb r = true).
        { destruct r as [|y r']; [reflexivity|]. cbn [Grid.increasingb] in H. apply andb_true_iff in H. apply H. }
        destruct (IH Hr) as (A & B & C). split; [lia|]. split.
        * intros j Hj. destruct j as [|j]; cbn [nth]; [apply fleb_spec; exact E | apply B; lia].
        * intros j Hj Hl. destruct j as [|j]; [lia|]. cbn [nth]. apply C; lia.
      + assert (Hc : flt c x) by (intros A; apply fleb_spec in A; congruence).
        split; [lia|]. split; [intros j Hj; lia|].
        intros j _ Hj. destruct j as [|j]; [exact Hc|].
        eapply flt_le_trans; [exact Hc|]. apply flt_le.
        apply (increasing_lt (x :: r) H O (S j)); [lia | exact Hj].
  Qed.

  Lemma ss_left_spec l c : increasingb l = true ->
    let k := ss_left K l c in
    (k <= length l)%nat /\ (forall j, (j < k)%nat -> flt (nth j l 0) c)
    /\ (forall j, (k <= j)%nat -> (j < length l)%nat -> fle K c (nth j l 0)).
  Proof.
    induction l as [|x r IH]; intros H; cbn [ss_left length].
    - split; [lia|]. split; intros j Hj; lia.
    - destruct (fltb x c) eqn:E.
      + assert (Hr : increasingb r = true).
        { destruct r as [|y r']; [reflexivity|]. cbn [Grid.increasingb] in H. apply andb_true_iff in H. apply H. }
        destruct (IH Hr) as (A & B & C). split; [lia|]. split.
        * intros j Hj. destruct j as [|j]; cbn [nth]; [apply fltb_spec; exact E | apply B; lia].
        * intros j Hj Hl. destruct j as [|j]; [lia|]. cbn [nth]. apply C; lia.
      + assert (Hc : fle K c x) by (apply not_flt_le; intros A; apply fltb_spec in A; congruence).
        split; [lia|]. split; [intros j Hj; lia|].
        intros j _ Hj. destruct j as [|j]; [exact Hc|].
        eapply fle_trans; [exact Hc|]. apply flt_le.
        apply (increasing_lt (x :: r) H O (S j)); [lia | exact Hj].
  Qed.

  (* "lower": the last edge <= c (index -1 when c is below the first edge) *)
  Theorem lower_spec edges c : increasingb edges = true ->
    let i := coord_to_index K edges c Lower in
    (-1 <= i <= Z.of_nat (length edges) - 1)%Z
    /\ (forall j, (Z.of_nat j <= i)%Z -> fle K (e_at edges j) c)
    /\ (forall j, (i < Z.of_nat j)%Z -> (j < length edges)%nat -> flt c (e_at edges j)).
  Proof.
    intros H. cbn [coord_to_index]. cbv zeta. destruct (ss_right_spec edges c H) as (A & B & C).
    split; [lia|]. split; intros j Hj; [apply B; lia | intros Hl; apply C; lia].
  Qed.
  (* "upper": the first edge >= c (index len when c is above the last edge) *)
  Theorem upper_spec edges c : increasingb edges = true ->
    let i := coord_to_index K edges c Upper in
    (0 <= i <= Z.of_nat (length edges))%Z
    /\ (forall j, (Z.of_nat j < i)%Z -> flt (e_at edges j) c)
    /\ (forall j, (i <= Z.of_nat j)%Z -> (j < length edges)%nat -> fle K c (e_at edges j)).
  Proof.
    intros H. cbn [coord_to_index]. cbv zeta. destruct (ss_left_spec edges c H) as (A & B & C).
    split; [lia|]. split; intros j Hj; [apply B; lia | intros Hl; apply C; lia].
  Qed.

  (* ---------- bounds_for_center / bounds_for_anchor ---------- *)
  Theorem choose_spec edges size key target :
    match choose K edges size key target with
    | BErrSize => (size <= 0)%Z
    | BErrFit => (0 < size)%Z /\ (Z.of_nat (length edges) - 1 < size)%Z
    | BOk lo hi =>
        (0 < size)%Z /\ (hi - lo = size)%Z /\ (0 <= lo)%Z /\ (hi <= Z.of_nat (length edges) - 1)%Z
        /\ (forall l, (Z.of_nat l + size <= Z.of_nat (length edges) - 1)%Z ->
              fle K (fabs (key (Z.to_nat lo) - target)) (fabs (key l - target)))
        /\ (forall l, (Z.of_nat l < lo)%Z -> flt (fabs (key (Z.to_nat lo) - target)) (fabs (key l - target)))
    end.
  Proof.
    unfold choose. destruct (size <=? 0)%Z eqn:E1; [apply Z.leb_le; exact E1|].
    apply Z.leb_gt in E1.
    destruct (Z.of_nat (length edges) - size - 1 <? 0)%Z eqn:E2.
    - apply Z.ltb_lt in E2. split; lia.
    - apply Z.ltb_ge in E2.
      set (n := Z.to_nat (Z.of_nat (length edges) - size - 1 + 1)).
      set (l := map (fun l0 => fabs (key l0 - target)) (seq 0 n)).
      assert (Hn : (0 < n)%nat) by (unfold n; lia).
      assert (Hl : l <> []).
      { unfold l. destruct n; [lia|]. cbn. discriminate. }
      destruct (argmin_spec K l Hl) as (A & B & C).
      assert (Hlen : length l = n) by (unfold l; rewrite map_length, seq_length; reflexivity).
      rewrite Hlen in A, B. rewrite Nat2Z.id.
      split; [lia|]. split; [lia|]. split; [lia|]. split; [unfold n in A; lia|]. split.
      + intros l0 Hl0. assert (Hl0' : (l0 < n)%nat) by (unfold n; lia).
        specialize (B l0 Hl0'). unfold l in B. rewrite !nth_map_seq in B by assumption. exact B.
      + intros l0 Hl0. assert (Hl0' : (l0 < argmin l)%nat) by lia.
        specialize (C l0 Hl0'). unfold l in *. rewrite !nth_map_seq in C by lia. exact C.
  Qed.

  Theorem bounds_for_center_spec (half : F) edges center size :
    match bounds_for_center K half edges center size with
    | BErrSize => (size <= 0)%Z
    | BErrFit => (0 < size)%Z /\ (Z.of_nat (length edges) - 1 < size)%Z
    | BOk lo hi =>
        (0 < size)%Z /\ (hi - lo = size)%Z /\ (0 <= lo)%Z /\ (hi <= Z.of_nat (length edges) - 1)%Z
        /\ (forall l, (Z.of_nat l + size <= Z.of_nat (length edges) - 1)%Z ->
              fle K (fabs (half * (e_at edges (Z.to_nat lo) + e_at edges (Z.to_nat hi)) - center))
                    (fabs (half * (e_at edges l + e_at edges (l + Z.to_nat size)) - center)))
        /\ (forall l, (Z.of_nat l < lo)%Z ->
              flt (fabs (half * (e_at edges (Z.to_nat lo) + e_at edges (Z.to_nat hi)) - center))
                  (fabs (half * (e_at edges l + e_at edges (l + Z.to_nat size)) - center)))
    end.
  Proof.
    unfold bounds_for_center.
    pose proof (choose_spec edges size (center_of K half edges (Z.to_nat size)) center) as H.
    destruct (choose K edges size (center_of K half edges (Z.to_nat size)) center) as [lo hi| |]; try exact H.
    destruct H as (H1 & H2 & H3 & H4 & H5 & H6).
    assert (E : Z.to_nat hi = (Z.to_nat lo + Z.to_nat size)%nat) by lia.
    rewrite E. repeat (split; [assumption|]). exact H6.
  Qed.

  Theorem bounds_for_anchor_spec (half : F) edges size anchor pos :
    let a lo hi := e_at edges lo + half * (pos + 1) * (e_at edges hi - e_at edges lo) in
    match bounds_for_anchor K half edges size anchor pos with
    | BErrSize => (size <= 0)%Z
    | BErrFit => (0 < size)%Z /\ (Z.of_nat (length edges) - 1 < size)%Z
    | BOk lo hi =>
        (0 < size)%Z /\ (hi - lo = size)%Z /\ (0 <= lo)%Z /\ (hi <= Z.of_nat (length edges) - 1)%Z
        /\ (forall l, (Z.of_nat l + size <= Z.of_nat (length edges) - 1)%Z ->
              fle K (fabs (a (Z.to_nat lo) (Z.to_nat hi) - anchor)) (fabs (a l (l + Z.to_nat size)%nat - anchor)))
        /\ (forall l, (Z.of_nat l < lo)%Z ->
              flt (fabs (a (Z.to_nat lo) (Z.to_nat hi) - anchor)) (fabs (a l (l + Z.to_nat size)%nat - anchor)))
    end.
  Proof.
    cbv zeta. unfold bounds_for_anchor.
    pose proof (choose_spec edges size (anchor_of K half edges (Z.to_nat size) pos) anchor) as H.
    destruct (choose K edges size (anchor_of K half edges (Z.to_nat size) pos) anchor) as [lo hi| |]; try exact H.
    destruct H as (H1 & H2 & H3 & H4 & H5 & H6).
    assert (E : Z.to_nat hi = (Z.to_nat lo + Z.to_nat size)%nat) by lia.
    rewrite E. repeat (split; [assumption|]). exact H6.
  Qed.

  (* anchor position conventions: -1 lower side, 0 centre, +1 upper side *)
  Theorem anchor_positions (half : F) edges size l : half * (1 + 1) = 1 ->
    anchor_of K half edges size (- (1)) l = e_at edges l
    /\ anchor_of K half edges size 0 l = center_of K half edges size l
    /\ anchor_of K half edges size 1 l = e_at edges (l + size).
  Proof.
    intros Hh. unfold anchor_of, center_of. repeat split.
    - ring.
    - transitivity (half * (e_at edges l + e_at edges (l + size)) + (1 - half * (1 + 1)) * e_at edges l); [ring|].
      rewrite Hh. ring.
    - transitivity (e_at edges (l + size) + (1 - half * (1 + 1)) * (e_at edges l - e_at edges (l + size))); [ring|].
      rewrite Hh. ring.
  Qed.
  Theorem anchor_center_same (half : F) edges size c : half * (1 + 1) = 1 ->
    bounds_for_anchor K half edges size c 0 = bounds_for_center K half edges c size.
  Proof.
    intros Hh. unfold bounds_for_anchor, bounds_for_center, choose.
    destruct (size <=? 0)%Z; [reflexivity|]. destruct (_ <? 0)%Z; [reflexivity|]. cbv zeta.
    assert (E : forall n, map (fun l => fabs (anchor_of K half edges (Z.to_nat size) 0 l - c)) (seq 0 n)
                        = map (fun l => fabs (center_of K half edges (Z.to_nat size) l - c)) (seq 0 n)).
    { intros n. apply map_ext. intros l. rewrite (proj1 (proj2 (anchor_positions half edges (Z.to_nat size) l Hh))). reflexivity. }
    rewrite E. reflexivity.
  Qed.

  (* ---------- extents, areas, volumes ---------- *)
  Lemma diffs_length l : length (diffs l) = (length l - 1)%nat.
  Proof.
    induction l as [|x r IH]; [reflexivity|]. destruct r as [|y r']; [reflexivity|].
    change (diffs (x :: y :: r')) with ((y - x) :: diffs (y :: r')). cbn [length] in *. rewrite IH. lia.
  Qed.
  Lemma diffs_nth l i : (S i < length l)%nat -> nth i (diffs l) 0 = nth (S i) l 0 - nth i l 0.
  Proof.
    revert i. induction l as [|x r IH]; intros i H; [cbn in H; lia|].
    destruct r as [|y r']; [cbn in H; lia|].
    change (diffs (x :: y :: r')) with ((y - x) :: diffs (y :: r')).
    destruct i as [|i]; [reflexivity|]. cbn [nth]. rewrite IH by (cbn [length] in *; lia). reflexivity.
  Qed.
  Lemma diffs_skipn k l : diffs (skipn k l) = skipn k (diffs l).
  Proof.
    revert l. induction k as [|k IH]; intros l; [reflexivity|].
    destruct l as [|x r]; [reflexivity|]. destruct r as [|y r'].
    - cbn. destruct k; reflexivity.
    - change (diffs (x :: y :: r')) with ((y - x) :: diffs (y :: r')). cbn [skipn]. apply IH.
  Qed.
  Lemma sum_firstn_diffs l : forall n, (n < length l)%nat -> sumF (firstn n (diffs l)) = nth n l 0 - nth 0 l 0.
  Proof.
    induction l as [|x r IH]; intros n H; [cbn in H; lia|].
    destruct n as [|n]; [cbn; ring|].
    destruct r as [|y r']; [cbn in H; lia|].
    change (diffs (x :: y :: r')) with ((y - x) :: diffs (y :: r')). cbn [firstn sumF nth].
    rewrite IH by (cbn [length] in *; lia). cbn [nth]. ring.
  Qed.
  Lemma nth_skipn (l : list F) k i : nth i (skipn k l) 0 = nth (k + i) l 0.
  Proof.
    revert l. induction k as [|k IH]; intros l; [reflexivity|].
    destruct l as [|x r]; [destruct i; reflexivity|]. cbn. apply IH.
  Qed.

  Lemma nth_firstn_lt (l : list F) n i : (i < n)%nat -> nth i (firstn n l) 0 = nth i l 0.
  Proof.
    revert l i. induction n as [|n IH]; intros l i H; [lia|].
    destruct l as [|x r]; [destruct i; reflexivity|]. destruct i as [|i]; [reflexivity|]. cbn. apply IH. lia.
  Qed.

  (* the extent of an index interval is the sum of its cell widths *)
  Theorem extent_sum_widths edges lo hi : (lo <= hi)%nat -> (hi < length edges)%nat ->
    sumF (slice K (diffs edges) lo hi) = axis_extent K edges lo hi.
  Proof.
    intros H1 H2. unfold slice, axis_extent, Grid.e_at. rewrite <- diffs_skipn.
    rewrite sum_firstn_diffs by (rewrite skipn_length; lia).
    rewrite !nth_skipn. replace (lo + (hi - lo))%nat with hi by lia. rewrite Nat.add_0_r. reflexivity.
  Qed.

  Theorem widths_positive edges i : increasingb edges = true -> (S i < length edges)%nat ->
    flt 0 (nth i (diffs edges) 0).
  Proof.
    intros H Hi. rewrite diffs_nth by exact Hi.
    pose proof (increasing_lt edges H i (S i) ltac:(lia) Hi) as L.
    intros A. apply L. apply fle_0_sub2.
    replace (nth i edges 0 - nth (S i) edges 0) with (- (nth (S i) edges 0 - nth i edges 0)) by ring.
    apply opp_nonneg. exact A.
  Qed.

  Definition sum2 (m : list (list F)) : F := sumF (map sumF m).
  Definition sum3l (m : list (list (list F))) : F := sumF (map sum2 m).

  Lemma sum_outer2 a b : sum2 (outer2 K a b) = sumF a * sumF b.
  Proof.
    unfold sum2, outer2. induction a as [|x r IH]; cbn [map sumF]; [ring|].
    rewrite IH. rewrite (sumF_scal K x b). ring.
  Qed.

  (* the face areas of a slice add up to the product of the two transverse extents *)
  Theorem face_area_total ea eb la ha lb hb :
    (la <= ha)%nat -> (ha < length ea)%nat -> (lb <= hb)%nat -> (hb < length eb)%nat ->
    sum2 (face_area K ea eb la ha lb hb) = axis_extent K ea la ha * axis_extent K eb lb hb.
  Proof.
    intros. unfold face_area. rewrite sum_outer2, !extent_sum_widths by assumption. reflexivity.
  Qed.
  (* every face area is the product of the two widths *)
  Theorem face_area_entry ea eb la ha lb hb i j :
    (i < ha - la)%nat -> (ha < length ea)%nat -> (j < hb - lb)%nat -> (hb < length eb)%nat ->
    nth j (nth i (face_area K ea eb la ha lb hb) []) 0 = nth (la + i) (diffs ea) 0 * nth (lb + j) (diffs eb) 0.
  Proof.
    intros Hi Ha Hj Hb. unfold face_area, outer2, slice.
    set (wa := firstn (ha - la) (skipn la (diffs ea))). set (wb := firstn (hb - lb) (skipn lb (diffs eb))).
    assert (La : length wa = (ha - la)%nat).
    { unfold wa. rewrite firstn_length, skipn_length, diffs_length. lia. }
    assert (Lb : length wb = (hb - lb)%nat).
    { unfold wb. rewrite firstn_length, skipn_length, diffs_length. lia. }
    rewrite (nth_indep _ [] (map (fun y => 0 * y) wb)) by (rewrite map_length; lia).
    rewrite (map_nth (fun x => map (fun y => x * y) wb) wa 0 i).
    rewrite (nth_indep _ 0 (nth i wa 0 * 0)) by (rewrite map_length; lia).
    rewrite (map_nth (fun y => nth i wa 0 * y) wb 0 j).
    unfold wa, wb. rewrite !nth_firstn_lt, !nth_skipn by lia. reflexivity.
  Qed.

  Theorem cell_volume_total ex ey ez x0 x1 y0 y1 z0 z1 :
    (x0 <= x1)%nat -> (x1 < length ex)%nat -> (y0 <= y1)%nat -> (y1 < length ey)%nat ->
    (z0 <= z1)%nat -> (z1 < length ez)%nat ->
    sum3l (cell_volume K ex ey ez x0 x1 y0 y1 z0 z1)
    = axis_extent K ex x0 x1 * axis_extent K ey y0 y1 * axis_extent K ez z0 z1.
  Proof.
    intros. rewrite <- !extent_sum_widths by assumption. unfold cell_volume.
    generalize (slice K (diffs ex) x0 x1) (slice K (diffs ey) y0 y1) (slice K (diffs ez) z0 z1).
    intros a b c. unfold sum3l.
    assert (E2 : forall x, sum2 (map (fun b0 => map (fun c0 => x * b0 * c0) c) b) = x * (sumF b * sumF c)).
    { intros x. unfold sum2. induction b as [|y r IH]; cbn [map sumF]; [ring|]. rewrite IH.
      rewrite (sumF_scal K (x * y) c). ring. }
    induction a as [|x r IH]; cbn [map sumF]; [ring|]. rewrite IH, E2. ring.
  Qed.

  (* ---------- min spacing ---------- *)
  Theorem min_spacing_spec edges : (2 <= length edges)%nat ->
    In (min_spacing_axis K edges) (diffs edges)
    /\ forall w, In w (diffs edges) -> fle K (min_spacing_axis K edges) w.
  Proof.
    intros H. unfold min_spacing_axis. apply minl_spec.
    intros E. pose proof (diffs_length edges) as L. rewrite E in L. cbn in L. lia.
  Qed.
  Theorem min_spacing_pos edges : valid_edges K edges = true -> flt 0 (min_spacing_axis K edges).
  Proof.
    unfold valid_edges. intros H. apply andb_true_iff in H. destruct H as [H1 H2]. apply Nat.leb_le in H1.
    destruct (min_spacing_spec edges H1) as [A _].
    apply (In_nth _ _ 0) in A. destruct A as (i & Hi & E). rewrite <- E.
    apply widths_positive; [exact H2 | rewrite diffs_length in Hi; lia].
  Qed.

  (* ---------- CFL ---------- *)
  Lemma inv_pos (x : F) : flt 0 x -> flt 0 (/ x).
  Proof.
    intros H A. assert (N := pos_neq0 K _ H).
    assert (E : / x = 0).
    { apply fle_antisym; [exact A | apply inv_nonneg; [apply flt_le; exact H | exact N]]. }
    apply (f01 K). replace (f1 K) with (x * / x) by (field; exact N). rewrite E. ring.
  Qed.
  Lemma inv_sq_pos (x : F) : flt 0 x -> flt 0 (1 / (x * x)).
  Proof. intros H. replace (1 / (x * x)) with (/ (x * x)) by (field; apply pos_neq0; exact H). apply inv_pos. apply mul_pos; exact H. Qed.
  Theorem inv_metric_pos ex ey ez :
    valid_edges K ex = true -> valid_edges K ey = true -> valid_edges K ez = true -> flt 0 (inv_metric K ex ey ez).
  Proof.
    intros Hx Hy Hz. unfold inv_metric. cbv zeta.
    apply pos_add_nonneg; [apply pos_add_nonneg|]; [apply inv_sq_pos, min_spacing_pos; assumption | |];
      apply flt_le, inv_sq_pos, min_spacing_pos; assumption.
  Qed.

  (* the float formula equals the square-root-free form, given exact square roots *)
  Theorem cfl_time_step_sq (tolU : F) (rnd14 : F -> F) s3 sm c0 eps8 ex ey ez cf :
    s3 * s3 = f3 -> sm * sm = inv_metric K ex ey ez -> c0 <> 0 -> s3 <> 0 -> sm <> 0 ->
    let dt := cfl_time_step K tolU rnd14 s3 sm c0 eps8 ex ey ez cf in
    (c0 * dt) * (c0 * dt) = cfl_sq K tolU rnd14 eps8 ex ey ez cf.
  Proof.
    intros H3 Hm Nc N3 Nm. unfold cfl_time_step, cfl_sq.
    destruct (uniform_spacing K tolU rnd14 eps8 ex ey ez) as [us|]; cbv zeta.
    - rewrite <- H3. field. split; assumption.
    - rewrite <- Hm. field. split; assumption.
  Qed.

  (* non-uniform branch: (c dt)^2 * sum 1/dmin^2 = courant_factor^2, i.e. dt = cf * CFL limit exactly *)
  Theorem cfl_nonuniform_tight (tolU : F) (rnd14 : F -> F) eps8 ex ey ez cf :
    uniform_spacing K tolU rnd14 eps8 ex ey ez = None -> inv_metric K ex ey ez <> 0 ->
    cfl_sq K tolU rnd14 eps8 ex ey ez cf * inv_metric K ex ey ez = cf * cf.
  Proof. intros H N. unfold cfl_sq. rewrite H. field. exact N. Qed.

  (* uniform branch: the bound holds PROVIDED the stored uniform spacing does not exceed the smallest
     real cell width on every axis (this is what the code does not guarantee, see cfl_uniform_refuted) *)
  Theorem cfl_uniform_bound_partial (tolU : F) (rnd14 : F -> F) eps8 ex ey ez cf us :
    uniform_spacing K tolU rnd14 eps8 ex ey ez = Some us -> fle K 0 us ->
    flt 0 (min_spacing_axis K ex) -> flt 0 (min_spacing_axis K ey) -> flt 0 (min_spacing_axis K ez) ->
    fle K us (min_spacing_axis K ex) -> fle K us (min_spacing_axis K ey) -> fle K us (min_spacing_axis K ez) ->
    fle K (cfl_sq K tolU rnd14 eps8 ex ey ez cf * inv_metric K ex ey ez) (cf * cf).
  Proof.
    intros H U0 Px Py Pz Lx Ly Lz. unfold cfl_sq, inv_metric. rewrite H. cbv zeta.
    set (a := min_spacing_axis K ex) in *. set (b := min_spacing_axis K ey) in *. set (c := min_spacing_axis K ez) in *.
    assert (Na := pos_neq0 K _ Px). assert (Nb := pos_neq0 K _ Py). assert (Nc := pos_neq0 K _ Pz).
    assert (N3 := f3_neq0 K).
    apply fle_0_sub2.
    assert (T : forall m, flt 0 m -> fle K us m -> fle K 0 ((m - us) * (m + us) * (/ m * / m))).
    { intros m Pm Lm. apply fle_mul; [apply fle_mul|].
      - apply fle_0_sub1. exact Lm.
      - apply add_nonneg; [apply flt_le; exact Pm | exact U0].
      - apply sq_nonneg. }
    replace (cf * cf - cf * cf * (us * us) / @f3 K * (1 / (a * a) + 1 / (b * b) + 1 / (c * c)))
      with ((cf * cf) * (/ @f3 K) * ((a - us) * (a + us) * (/ a * / a) + (b - us) * (b + us) * (/ b * / b) + (c - us) * (c + us) * (/ c * / c))).
    2:{ change (@f3 K) with (f1 K + f1 K + f1 K) in *. field. repeat split; try assumption.
        change (f1 K + (f1 K + f1 K) <> f0 K). intro E; apply N3; rewrite <- E; ring. }
    apply fle_mul; [apply fle_mul|].
    - apply sq_nonneg.
    - apply inv_nonneg; [apply flt_le, f3_pos | exact N3].
    - apply add_nonneg; [apply add_nonneg|]; apply T; assumption.
  Qed.

  (* ---------- uniform detection ---------- *)
  Lemma uniform_axis_sound (tolU : F) eps8 sp edges : (2 <= length edges)%nat -> uniform_axis K tolU eps8 sp edges = true ->
    forall w, In w (diffs edges) -> fle K (fabs (w - sp)) (tolU * fabs sp + eps8 * maxl 0 (map fabs edges)).
  Proof.
    intros L H w Hw. unfold uniform_axis in H. cbv zeta in H. apply fleb_spec in H.
    eapply fle_trans; [|exact H].
    assert (Hne : map (fun w0 => fabs (w0 - sp)) (diffs edges) <> []).
    { destruct (diffs edges); [destruct Hw | discriminate]. }
    apply (proj2 (maxl_spec K 0 _ Hne)). apply (in_map (fun w0 => fabs (w0 - sp))). exact Hw.
  Qed.
  Theorem is_uniform_sound (tolU : F) eps8 ex ey ez :
    (2 <= length ex)%nat -> (2 <= length ey)%nat -> (2 <= length ez)%nat ->
    is_uniform K tolU eps8 ex ey ez = true ->
    let sp := spacing0 K ex in
    forall edges, In edges [ex; ey; ez] -> forall w, In w (diffs edges) ->
      fle K (fabs (w - sp)) (tolU * fabs sp + eps8 * maxl 0 (map fabs edges)).
  Proof.
    intros Lx Ly Lz H sp edges He. unfold is_uniform in H. cbv zeta in H.
    apply andb_true_iff in H. destruct H as [H Hz]. apply andb_true_iff in H. destruct H as [Hx Hy].
    destruct He as [<-|[<-|[<-|[]]]]; apply uniform_axis_sound; assumption.
  Qed.

  Lemma uniform_axis_exact (tolU : F) eps8 sp edges : fle K 0 tolU -> fle K 0 eps8 ->
    (forall w, In w (diffs edges) -> w = sp) -> uniform_axis K tolU eps8 sp edges = true.
  Proof.
    intros T E H. unfold uniform_axis. cbv zeta. apply fleb_spec.
    assert (R : fle K 0 (tolU * fabs sp + eps8 * maxl 0 (map fabs edges))).
    { apply add_nonneg; [apply fle_mul; [exact T | apply fabs_nonneg]|].
      apply fle_mul; [exact E|]. destruct edges as [|x r]; [cbn; apply fle_refl|].
      assert (Hne : map fabs (x :: r) <> []) by discriminate.
      destruct (maxl_spec K 0 _ Hne) as [A _]. apply in_map_iff in A. destruct A as (y & <- & _). apply fabs_nonneg. }
    destruct (map (fun w => fabs (w - sp)) (diffs edges)) as [|m r] eqn:Em; [cbn; exact R|].
    assert (Hne : m :: r <> []) by discriminate.
    destruct (maxl_spec K 0 _ Hne) as [A _]. rewrite <- Em in A. apply in_map_iff in A.
    destruct A as (w & Ew & Hw). rewrite <- Em, <- Ew, (H w Hw).
    replace (sp - sp) with (f0 K) by ring. rewrite fabs_0. exact R.
  Qed.
  (* a grid whose widths all equal the first x width is detected as uniform, whatever its size *)
  Theorem exact_uniform_detected (tolU : F) eps8 ex ey ez : fle K 0 tolU -> fle K 0 eps8 ->
    (forall edges, In edges [ex; ey; ez] -> forall w, In w (diffs edges) -> w = spacing0 K ex) ->
    is_uniform K tolU eps8 ex ey ez = true.
  Proof.
    intros T E H. unfold is_uniform. cbv zeta.
    rewrite !uniform_axis_exact; try assumption; try reflexivity; apply H; cbn; auto.
  Qed.

  Lemma fnat_S n : fnat K (S n) = fnat K n + 1. Proof. reflexivity. Qed.
  Lemma diffs_map_seq lower sp n s :
    diffs (map (fun i => lower + sp * fnat K i) (seq s (S n))) = repeat sp n.
  Proof.
    revert s. induction n as [|n IH]; intros s; [reflexivity|].
    change (seq s (S (S n))) with (s :: S s :: seq (S (S s)) n). cbn [map].
    change (diffs (?a :: ?b :: ?r)) with ((b - a) :: diffs (b :: r)).
    cbn [repeat]. f_equal; [rewrite fnat_S; ring|].
    specialize (IH (S s)). cbn [seq map] in IH. exact IH.
  Qed.
  (* RectilinearGrid.uniform(...) has n cells of width exactly `spacing` per axis *)
  Theorem uniform_edges_widths lower sp n : diffs (uniform_edges K lower sp n) = repeat sp n.
  Proof. unfold uniform_edges. apply diffs_map_seq. Qed.

  (* ---------- reduce_symmetric ---------- *)
  Theorem reduce_axis_spec (tolU : F) a sym edges :
    let n := (length edges - 1)%nat in
    match reduce_axis K tolU a sym edges with
    | ROk e' => (sym = 0%Z /\ e' = edges)
                \/ (sym <> 0%Z /\ (2 <= n)%nat /\ Nat.even n = true /\ mirror_close K tolU (diffs edges) = true
                    /\ e' = skipn (n / 2) edges /\ length e' = S (n / 2)
                    /\ (forall i, e_at e' i = e_at edges (n / 2 + i))
                    /\ diffs e' = skipn (n / 2) (diffs edges))
    | RErrOdd b => b = a /\ sym <> 0%Z /\ ((n < 2)%nat \/ Nat.even n = false)
    | RErrAsym b => b = a /\ sym <> 0%Z /\ (2 <= n)%nat /\ Nat.even n = true /\ mirror_close K tolU (diffs edges) = false
    end.
  Proof.
    cbv zeta. unfold reduce_axis. destruct (sym =? 0)%Z eqn:E0.
    - apply Z.eqb_eq in E0. left. split; [exact E0 | reflexivity].
    - apply Z.eqb_neq in E0. cbv zeta.
      destruct ((length edges - 1 <? 2)%nat || negb (Nat.even (length edges - 1))) eqn:E1.
      + split; [reflexivity|]. split; [exact E0|]. apply orb_true_iff in E1. destruct E1 as [E1|E1].
        * left. apply Nat.ltb_lt. exact E1.
        * right. apply negb_true_iff. exact E1.
      + apply orb_false_iff in E1. destruct E1 as [E1 E2]. apply Nat.ltb_ge in E1. apply negb_false_iff in E2.
        destruct (mirror_close K tolU (diffs edges)) eqn:E3; cbn [negb].
        * right. split; [exact E0|]. split; [exact E1|]. split; [exact E2|]. split; [reflexivity|].
          split; [reflexivity|]. split.
          -- rewrite skipn_length. pose proof (Nat.div_lt_upper_bound (length edges - 1) 2 (length edges - 1)) as D.
             assert ((length edges - 1) / 2 <= (length edges - 1))%nat by (apply Nat.div_le_upper_bound; lia).
             assert (2 * ((length edges - 1) / 2) <= length edges - 1)%nat by (apply Nat.mul_div_le; lia).
             apply Nat.even_spec in E2. destruct E2 as [k Ek]. rewrite Ek.
             replace (2 * k / 2)%nat with k by (rewrite Nat.mul_comm, Nat.div_mul; lia). lia.
          -- split; [intros i; unfold Grid.e_at; apply nth_skipn | apply diffs_skipn].
        * split; [reflexivity|]. repeat split; assumption.
  Qed.

  Lemma increasingb_skipn k l : increasingb l = true -> increasingb (skipn k l) = true.
  Proof.
    revert l. induction k as [|k IH]; intros l H; [exact H|].
    destruct l as [|x r]; [reflexivity|]. cbn [skipn]. apply IH.
    destruct r as [|y r']; [reflexivity|]. cbn [Grid.increasingb] in H. apply andb_true_iff in H. apply H.
  Qed.
  (* the reduced axis is again a valid edge array (RectilinearGrid.custom re-validates it) *)
  Theorem reduce_axis_valid (tolU : F) a sym edges e' :
    valid_edges K edges = true -> reduce_axis K tolU a sym edges = ROk e' -> valid_edges K e' = true.
  Proof.
    intros V H. pose proof (reduce_axis_spec tolU a sym edges) as S. cbv zeta in S. rewrite H in S.
    destruct S as [[_ ->]|(_ & H2 & _ & _ & He & Hl & _)]; [exact V|].
    unfold valid_edges in *. apply andb_true_iff in V. destruct V as [V1 V2].
    apply andb_true_iff. split.
    - apply Nat.leb_le. rewrite Hl. assert (1 <= (length edges - 1) / 2)%nat by (apply Nat.div_le_lower_bound; lia). lia.
    - rewrite He. apply increasingb_skipn. exact V2.
  Qed.

  Theorem reduce_symmetric_spec (tolU : F) sx sy sz ex ey ez :
    match reduce_symmetric K tolU sx sy sz ex ey ez with
    | ROk (nx, ny, nz) => reduce_axis K tolU 0 sx ex = ROk nx /\ reduce_axis K tolU 1 sy ey = ROk ny
                          /\ reduce_axis K tolU 2 sz ez = ROk nz
    | RErrOdd a => (a = 0%nat /\ reduce_axis K tolU 0 sx ex = RErrOdd 0) \/ (a = 1%nat /\ reduce_axis K tolU 1 sy ey = RErrOdd 1)
                   \/ (a = 2%nat /\ reduce_axis K tolU 2 sz ez = RErrOdd 2)
    | RErrAsym a => (a = 0%nat /\ reduce_axis K tolU 0 sx ex = RErrAsym 0) \/ (a = 1%nat /\ reduce_axis K tolU 1 sy ey = RErrAsym 1)
                   \/ (a = 2%nat /\ reduce_axis K tolU 2 sz ez = RErrAsym 2)
    end.
  Proof.
    unfold reduce_symmetric.
    pose proof (reduce_axis_spec tolU 0 sx ex) as Sx. pose proof (reduce_axis_spec tolU 1 sy ey) as Sy.
    pose proof (reduce_axis_spec tolU 2 sz ez) as Sz. cbv zeta in Sx, Sy, Sz.
    destruct (reduce_axis K tolU 0 sx ex) as [nx|a|a].
    - destruct (reduce_axis K tolU 1 sy ey) as [ny|a|a].
      + destruct (reduce_axis K tolU 2 sz ez) as [nz|a|a].
        * repeat split.
        * destruct Sz as [-> _]. right; right; split; reflexivity.
        * destruct Sz as [-> _]. right; right; split; reflexivity.
      + destruct Sy as [-> _]. right; left; split; reflexivity.
      + destruct Sy as [-> _]. right; left; split; reflexivity.
    - destruct Sx as [-> _]. left; split; reflexivity.
    - destruct Sx as [-> _]. left; split; reflexivity.
  Qed.
End GridProofs.

(* ---------- the CFL clause fails on the unchanged code (uniform shortcut) ---------- *)
From Coq Require Import QArith Qcanon.

(* (a) an exactly uniform 7.7777777 nm grid: np.round(., 14) rounds the spacing UP *)
Definition wit_edges_a : list Qc := map (fun i => q (77777777 * i) (10 ^ 16)) [0; 1; 2; 3; 4]%Z.
(* (b) a grid that passes the 1e-4 uniformity tolerance but whose first x cell is the widest *)
Definition wit_edges_b : list Qc := [q 0 1; q 100005 100000; q 200005 100000; q 300005 100000].

Definition cfl_exceeds (e : list Qc) (cf : Qc) : bool :=
  is_uniform QcOF q_tolU q_eps8 e e e
  && negb (Qcleb (cfl_sq QcOF q_tolU Qc_rnd14 q_eps8 e e e cf * inv_metric QcOF e e e)%Qc (cf * cf)%Qc).

Theorem cfl_uniform_refuted :
  exists (e : list Qc) (cf : Qc), valid_edges QcOF e = true /\ cfl_exceeds e cf = true.
Proof. exists wit_edges_a, (q 99 100). split; vm_compute; reflexivity. Qed.
Theorem cfl_near_uniform_refuted :
  exists (e : list Qc) (cf : Qc), valid_edges QcOF e = true /\ cfl_exceeds e cf = true.
Proof. exists wit_edges_b, (q 99 100). split; vm_compute; reflexivity. Qed.
