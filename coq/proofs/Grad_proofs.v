(* Grad_proofs.v — C04: the reversible backward loop computes the textbook reverse-mode product of
   per-step pullbacks along the true forward trajectory, provided the backward step reconstructs the
   trajectory (C02/C03) up to an equivalence the pullback does not see. *)
From Coq Require Import ZArith List Bool Lia.
From FV Require Import model.Grad.
Import ListNotations.
Open Scope Z_scope.

Section GradProofs.
  Variables (S C : Type).
  Variable fwd : Z -> S -> S.
  Variable bwd : Z -> S -> S.
  Variable vjp : Z -> S -> C -> C.
  Variable ckpt : Z -> option S.
  Variable x0 : S.
  Variable eqv : S -> S -> Prop.     (* agreement the pullback cannot distinguish (e.g. equality outside absorbing layers) *)

  Fixpoint traj (n : nat) : S := match n with O => x0 | Datatypes.S m => fwd (Z.of_nat m) (traj m) end.

  Hypothesis eqv_refl : forall x, eqv x x.
  (* C02 / C03: a backward step maps any state equivalent to x_{t+1} to one equivalent to x_t *)
  Hypothesis bwd_traj : forall (t : nat) y, eqv y (traj (Datatypes.S t)) -> eqv (bwd (Z.of_nat t) y) (traj t).
  (* the pullback depends on the state only up to eqv *)
  Hypothesis vjp_eqv : forall (t : nat) y c, eqv y (traj t) -> vjp (Z.of_nat t) y c = vjp (Z.of_nat t) (traj t) c.
  (* checkpoints hold the exact forward state *)
  Hypothesis ckpt_ok : forall (t : nat) y, ckpt (Z.of_nat t) = Some y -> eqv y (traj t).

  (* textbook reverse mode: pull the cotangent back through steps T-1, ..., 0 *)
  Fixpoint reverse_mode (T : nat) (c : C) : C :=
    match T with O => c | Datatypes.S n => reverse_mode n (vjp (Z.of_nat n) (traj n) c) end.

  Lemma rev_loop_spec (T : nat) : forall fuel y c, (T <= fuel)%nat -> eqv y (traj T) ->
    exists y', rev_loop S C bwd vjp ckpt cond_src fuel (Z.of_nat T) y c = Some (0, y', reverse_mode T c) /\ eqv y' (traj 0).
  Proof.
    induction T as [|T IH]; intros fuel y c Hf Hy.
    - exists y. destruct fuel; cbn; split; try reflexivity; exact Hy.
    - destruct fuel as [|f]; [lia|].
      cbn [rev_loop]. unfold cond_src at 1.
      replace (0 <? Z.of_nat (Datatypes.S T)) with true by (symmetry; apply Z.ltb_lt; lia).
      unfold reverse_body.
      replace (Z.of_nat (Datatypes.S T) - 1) with (Z.of_nat T) by lia.
      set (y0 := match ckpt (Z.of_nat (Datatypes.S T)) with Some z => z | None => y end).
      assert (Hy0 : eqv y0 (traj (Datatypes.S T))).
      { unfold y0. destruct (ckpt (Z.of_nat (Datatypes.S T))) eqn:E; [apply ckpt_ok; exact E | exact Hy]. }
      pose proof (bwd_traj T y0 Hy0) as Hb.
      destruct (IH f (bwd (Z.of_nat T) y0) (vjp (Z.of_nat T) (bwd (Z.of_nat T) y0) c) ltac:(lia) Hb) as (y' & E & Hy').
      exists y'. split; [|exact Hy'].
      rewrite E. cbn [reverse_mode]. rewrite (vjp_eqv T _ c Hb). reflexivity.
  Qed.

  (* C04: the loop terminates at step 0 with the reverse-mode cotangent, whatever checkpoints are used *)
  Theorem reversible_eq_reverse_mode (T : nat) (c : C) :
    exists y', rev_loop S C bwd vjp ckpt cond_src (Datatypes.S T) (Z.of_nat T) (traj T) c = Some (0, y', reverse_mode T c).
  Proof. destruct (rev_loop_spec T (Datatypes.S T) (traj T) c ltac:(lia) (eqv_refl _)) as (y' & E & _). exists y'. exact E. Qed.
End GradProofs.

(* the snapshot's loop test (>=) runs one extra iteration at time step -1: refuted on a counter system
   where the pullback just counts its applications *)
Theorem reversible_src_old_refuted :
  exists T, rev_loop Z Z (fun _ x => x - 1) (fun _ _ c => c + 1) (fun _ => None) cond_src_old 10 T T 0 <> Some (0, 0, T).
Proof. exists 3. vm_compute. discriminate. Qed.
Example reversible_counter_ok :
  rev_loop Z Z (fun _ x => x - 1) (fun _ _ c => c + 1) (fun _ => None) cond_src 10 3 3 0 = Some (0, 0, 3).
Proof. vm_compute. reflexivity. Qed.
