(* Place_confluence.v — abstract order independence of set-once rule systems, the intended route to C27.

   A rule looks at a partial assignment (state) and DEMANDS values for some variables; demands are
   monotone: once its prerequisites are known (and assignments are never overwritten) a rule keeps
   demanding the same values.  The placement solver's constraint rules and consistency sweeps are of this
   kind (every value is computed from already-set, immutable entries; "set if None, raise if different").
   A schedule (any order of objects/constraints, any number of passes) performs justified steps: it sets
   an unset variable to a demanded value.  A state is closed when every demand is met — exactly what a
   pass that changes nothing and raises nothing establishes (Place_proofs.pass_quiet). *)
From Coq Require Import ZArith List Bool Lia.
From FV Require Import model.Place proofs.Place_proofs.
Import ListNotations.
Open Scope Z_scope.

Definition rule := state -> list (nat * Z).

Definition le (s t : state) : Prop := forall i v, get s i = Some v -> get t i = Some v.

Definition monotone (r : rule) : Prop := forall s t, le s t -> forall d, In d (r s) -> In d (r t).

Definition closed (R : rule -> Prop) (s : state) : Prop :=
  forall r, R r -> forall i v, In (i, v) (r s) -> get s i = Some v.

(* a schedule: any sequence of justified set-once steps *)
Inductive reach (R : rule -> Prop) : state -> state -> Prop :=
| reach_refl s : reach R s s
| reach_step s r i v t : R r -> In (i, v) (r s) -> get s i = None -> reach R (set s i (Some v)) t -> reach R s t.

(* a conflict: some reachable state in which a rule demands a value different from the one already set *)
Definition conflict (R : rule -> Prop) (s0 : state) : Prop :=
  exists s r i v w, reach R s0 s /\ R r /\ In (i, v) (r s) /\ get s i = Some w /\ w <> v.

Lemma le_refl s : le s s.
Proof. intros i v H. exact H. Qed.

Lemma le_trans s t u : le s t -> le t u -> le s u.
Proof. intros H1 H2 i v H. apply H2, H1, H. Qed.

Lemma le_set s i v : get s i = None -> le s (set s i v).
Proof.
  intros Hn j w Hj. destruct (Nat.eq_dec i j) as [<-|Hne]; [congruence|].
  rewrite get_set_other by exact Hne. exact Hj.
Qed.

Lemma set_le s t i v : le s t -> get t i = Some v -> le (set s i (Some v)) t.
Proof.
  intros Hle Ht j w Hj. destruct (Nat.eq_dec i j) as [<-|Hne].
  - destruct (Nat.lt_ge_cases i (length s)) as [Hlt|Hge].
    + rewrite get_set_same in Hj by exact Hlt. congruence.
    + rewrite get_none_beyond in Hj; [discriminate|]. rewrite set_length. exact Hge.
  - rewrite get_set_other in Hj by exact Hne. apply Hle. exact Hj.
Qed.

Lemma reach_le (R : rule -> Prop) s t : reach R s t -> le s t.
Proof.
  induction 1 as [s|s r i v t Hr Hd Hn _ IH]; [apply le_refl|].
  eapply le_trans; [|exact IH]. apply le_set. exact Hn.
Qed.

Lemma reach_length (R : rule -> Prop) s t : reach R s t -> length t = length s.
Proof. induction 1 as [s|s r i v t _ _ _ _ IH]; [reflexivity|]. rewrite IH. apply set_length. Qed.

(* every schedule stays below every closed state above the start *)
Lemma reach_below_closed (R : rule -> Prop) (Hm : forall r, R r -> monotone r) s0 s c :
  reach R s0 s -> le s0 c -> closed R c -> le s c.
Proof.
  induction 1 as [s|s r i v t Hr Hd Hn _ IH]; intros Hle Hc; [exact Hle|].
  apply IH; [|exact Hc]. apply set_le; [exact Hle|].
  eapply Hc; [exact Hr|]. eapply Hm; eauto.
Qed.

Lemma get_ext (s t : state) : length s = length t -> (forall i, get s i = get t i) -> s = t.
Proof.
  revert t. induction s as [|x s IH]; intros [|y t] Hl He; cbn in Hl; try discriminate; [reflexivity|].
  f_equal; [exact (He O)|]. apply IH; [lia|]. intros i. exact (He (S i)).
Qed.

Lemma le_antisym (s t : state) : length s = length t -> le s t -> le t s -> s = t.
Proof.
  intros Hl H1 H2. apply get_ext; [exact Hl|]. intros i.
  destruct (get s i) as [v|] eqn:E.
  - symmetry. apply H1. exact E.
  - destruct (get t i) as [w|] eqn:E'; [|reflexivity]. apply H2 in E'. congruence.
Qed.

(* CONFLUENCE: two schedules that both end in a closed state end in the same state *)
Theorem set_once_confluence (R : rule -> Prop) (Hm : forall r, R r -> monotone r) s0 s1 s2 :
  reach R s0 s1 -> closed R s1 -> reach R s0 s2 -> closed R s2 -> s1 = s2.
Proof.
  intros H1 C1 H2 C2. apply le_antisym.
  - rewrite (reach_length _ _ _ H1), (reach_length _ _ _ H2). reflexivity.
  - eapply reach_below_closed; eauto. eapply reach_le; eauto.
  - eapply reach_below_closed; eauto. eapply reach_le; eauto.
Qed.

(* ... and if some schedule ends closed, no schedule ever meets a conflict: acceptance is order independent,
   PROVIDED acceptance means "closed", i.e. every rule was checked against the final state *)
Theorem closed_excludes_conflict (R : rule -> Prop) (Hm : forall r, R r -> monotone r) s0 c :
  reach R s0 c -> closed R c -> ~ conflict R s0.
Proof.
  intros Hc Cc (s & r & i & v & w & Hs & Hr & Hd & Hg & Hne).
  assert (Hle : le s c) by (eapply reach_below_closed; eauto; eapply reach_le; eauto).
  apply Hle in Hg. assert (In (i, v) (r c)) by (eapply Hm; eauto).
  pose proof (Cc r Hr i v H). congruence.
Qed.

(* Stratified runs: close, apply the (non-monotone) default step [ext] — a FUNCTION of the closed state, like
   _extend_to_inf_if_possible —, close again, ... until [ext] changes nothing.  Deterministic. *)
Inductive run (R : rule -> Prop) (ext : state -> state) : state -> state -> Prop :=
| run_done s c : reach R s c -> closed R c -> ext c = c -> run R ext s c
| run_ext s c t : reach R s c -> closed R c -> ext c <> c -> run R ext (ext c) t -> run R ext s t.

Theorem run_deterministic (R : rule -> Prop) ext (Hm : forall r, R r -> monotone r) s a b :
  run R ext s a -> run R ext s b -> a = b.
Proof.
  intros Ha. revert b. induction Ha as [s c Hr Hc He|s c t Hr Hc He _ IH]; intros b Hb.
  - destruct Hb as [s c' Hr' Hc' He'|s c' t' Hr' Hc' He' Hrun].
    + eapply set_once_confluence; eauto.
    + assert (c = c') by (eapply set_once_confluence; eauto). subst c'. contradiction.
  - destruct Hb as [s c' Hr' Hc' He'|s c' t' Hr' Hc' He' Hrun].
    + assert (c = c') by (eapply set_once_confluence; eauto). subst c'. contradiction.
    + assert (c = c') by (eapply set_once_confluence; eauto). subst c'. apply IH. exact Hrun.
Qed.

(* the rule set of a constraint list does not depend on its order *)
Lemma closed_perm (F : constr -> rule) cs cs' s :
  (forall c, In c cs <-> In c cs') ->
  closed (fun r => exists c, In c cs /\ r = F c) s -> closed (fun r => exists c, In c cs' /\ r = F c) s.
Proof. intros HP Hc r (c & Hin & ->) i v Hd. eapply Hc; eauto. exists c. split; [apply HP; exact Hin|reflexivity]. Qed.

(* ------------------------------------------------------------------ concrete instances: the solver's rules are
   monotone demand rules.  Shown for the grid-coordinate constraint and the two consistency sweeps. *)
Definition grid_rule (o : nat) (es : list (nat * bool * Z)) : rule :=
  fun _ => map (fun x : nat * bool * Z => let '(a, side, v) := x in (vbound o side a, v)) es.

Lemma grid_rule_monotone o es : monotone (grid_rule o es).
Proof. intros s t _ d Hd. exact Hd. Qed.

(* upper := lower + shape, lower := upper - shape, shape := upper - lower *)
Definition sweep_rule (o a : nat) : rule := fun s =>
  (match get s (vshape o a), get s (vlo o a) with Some sz, Some b0 => [(vhi o a, b0 + sz)] | _, _ => [] end) ++
  (match get s (vshape o a), get s (vhi o a) with Some sz, Some b1 => [(vlo o a, b1 - sz)] | _, _ => [] end) ++
  (match get s (vlo o a), get s (vhi o a) with Some b0, Some b1 => [(vshape o a, b1 - b0)] | _, _ => [] end).

Lemma sweep_rule_monotone o a : monotone (sweep_rule o a).
Proof.
  intros s t Hle d. unfold sweep_rule. rewrite !in_app_iff.
  destruct (get s (vshape o a)) as [sz|] eqn:E1; destruct (get s (vlo o a)) as [b0|] eqn:E2;
  destruct (get s (vhi o a)) as [b1|] eqn:E3;
  try (apply Hle in E1; rewrite E1); try (apply Hle in E2; rewrite E2); try (apply Hle in E3; rewrite E3);
  cbn; tauto.
Qed.

(* a state closed under the sweep rule is consistent in the sense of Place_proofs.shape_ok *)
Lemma sweep_closed_shape_ok o a s :
  (forall i v, In (i, v) (sweep_rule o a s) -> get s i = Some v) -> shape_ok s o a.
Proof.
  intros H. unfold shape_ok. unfold sweep_rule in H.
  destruct (get s (vshape o a)) as [sz|] eqn:E1; destruct (get s (vlo o a)) as [b0|] eqn:E2;
  destruct (get s (vhi o a)) as [b1|] eqn:E3; cbn in H; auto.
  - specialize (H (vshape o a) (b1 - b0) ltac:(auto)). congruence.
  - specialize (H (vhi o a) (b0 + sz) ltac:(auto)). congruence.
  - specialize (H (vlo o a) (b1 - sz) ltac:(auto)). congruence.
  - specialize (H (vshape o a) (b1 - b0) ltac:(auto)). congruence.
Qed.
