(* Yee_dissipation.v — C01, second clause: with non-negative electric conductivity the Yee energy
   never increases from one step to the next (ordered field). *)
From Coq Require Import List Arith Lia Field Ring.
From FV Require Import base.Scalar base.Cplx base.Sums base.Order model.Yee model.YeeExec
     proofs.Yee_sbp proofs.Yee_adjoint proofs.Yee_energy.
Import ListNotations.
Local Open Scope fld_scope.

Section Dissipation.
  Variable K : OFld.
  Add Field KFd : (Fth K).
  Local Notation "x <= y" := (fle K x y) : fld_scope.
  Variable sc : scene K.
  Notation C := (C K).
  Notation nx := (nx K sc). Notation ny := (ny K sc). Notation nz := (nz K sc).
  Notation sum3 := (sum3 nx ny nz).
  Hypothesis CS : closed_scene K sc.

  (* sign conditions of a passive conductive medium *)
  Record passive : Prop := {
    pa_cn : 0 <= cn K sc; pa_eta : 0 <= eta0 K sc;
    pa_w : forall i j k, inbox K sc i j k -> 0 <= wE1 K sc i j k /\ 0 <= wE2 K sc i j k /\ 0 <= wE3 K sc i j k;
    pa_ie : forall i j k, inbox K sc i j k -> 0 <= m1 (ieps K sc) i j k /\ 0 <= m2 (ieps K sc) i j k /\ 0 <= m3 (ieps K sc) i j k;
    pa_sig : forall i j k, inbox K sc i j k -> 0 <= m1 (sigE K sc) i j k /\ 0 <= m2 (sigE K sc) i j k /\ 0 <= m3 (sigE K sc) i j k
  }.
  Hypothesis PA : passive.

  Lemma f_nonneg ie s i j k : 0 <= ie i j k -> 0 <= s i j k -> 0 <= fE1 K sc ie s i j k.
  Proof.
    intros Hi Hs. unfold fE1, two. rewrite (Fdiv_def (Fth K)).
    apply fle_mul; [repeat apply fle_mul; try assumption; [exact (pa_cn PA) | exact (pa_eta PA)]|].
    assert (T: (1 : K) + 1 <> 0).
    { intros E. pose proof (two_nonneg K) as A. pose proof (one_nonneg K) as B.
      apply (f01 K). apply fle_antisym; [exact B|].
      pose proof (fle_add K _ _ (1 : K) (fle_opp K _ B)) as D. replace (- (1 : K) + 1) with (0 : K) in D by ring.
      replace (0 + (1 : K)) with (1 : K) in D by ring.
      (* from 1 + 1 = 0: 1 = -1 <= 0 *)
      replace (1 : K) with (- (1 : K)) at 1 by (transitivity (- (1 : K) + ((1 : K) + 1)); [rewrite E; ring | ring]).
      apply fle_opp. exact B. }
    apply inv_nonneg; [apply two_nonneg | exact T].
  Qed.
  Lemma one_plus_nonzero f : 0 <= f -> 1 + f <> 0.
  Proof.
    intros Hf E. pose proof (one_nonneg K) as B.
    assert (F1: f = - (1 : K)) by (transitivity ((1 + f) - 1); [ring | rewrite E; ring]).
    rewrite F1 in Hf. pose proof (fle_opp K _ Hf) as A. replace (- - (1 : K)) with (1 : K) in A by ring.
    apply (f01 K). apply fle_antisym; assumption.
  Qed.

  Lemma E_cell_lossy (w ie m f : K) (e1 x k2 : C) :
    1 + f <> 0 -> ie <> 0 -> (m = 0 \/ m = 1) -> e1 = cscal m x ->
    let e2 := cscal m (cdivr (cadd (cscal (1 - f) e1) (cscal (cn K sc * ie) k2)) (1 + f)) in
    w / ie * cdot e2 e2 - w / ie * cdot e1 e1
    = w * cn K sc * cdot k2 (cadd e1 e2) - w / ie * f * cdot (cadd e1 e2) (cadd e1 e2).
  Proof.
    intros Hf Hie Hm ->. destruct x as [x1 x2], k2 as [k1 k2]. cbv zeta.
    unfold cdot, cadd, cscal, cdivr; cbn [fst snd].
    destruct Hm as [-> | ->]; field; (split; assumption).
  Qed.

  (* the dissipated amount of one step *)
  Definition loss (E1 E2 : V3 K) : K :=
    sum3 (fun i j k => wE1 K sc i j k / m1 (ieps K sc) i j k * fE1 K sc (m1 (ieps K sc)) (m1 (sigE K sc)) i j k
                       * cdot (cadd (vx E1 i j k) (vx E2 i j k)) (cadd (vx E1 i j k) (vx E2 i j k)))
    + sum3 (fun i j k => wE2 K sc i j k / m2 (ieps K sc) i j k * fE1 K sc (m2 (ieps K sc)) (m2 (sigE K sc)) i j k
                       * cdot (cadd (vy E1 i j k) (vy E2 i j k)) (cadd (vy E1 i j k) (vy E2 i j k)))
    + sum3 (fun i j k => wE3 K sc i j k / m3 (ieps K sc) i j k * fE1 K sc (m3 (ieps K sc)) (m3 (sigE K sc)) i j k
                       * cdot (cadd (vz E1 i j k) (vz E2 i j k)) (cadd (vz E1 i j k) (vz E2 i j k))).

  Lemma EE_step_lossy s :
    EE K sc (fE (forward K sc (forward K sc s))) - EE K sc (fE (forward K sc s))
    = cn K sc * dotE K sc (curlH_raw K sc (fH (forward K sc s))) (vadd K (fE (forward K sc s)) (fE (forward K sc (forward K sc s))))
      - loss (fE (forward K sc s)) (fE (forward K sc (forward K sc s))).
  Proof.
    set (s1 := forward K sc s). set (s2 := forward K sc s1).
    unfold EE, dotE, loss.
    match goal with |- (?a + ?b + ?c) - (?a' + ?b' + ?c') = _ => transitivity ((a - a') + (b - b') + (c - c')); [ring|] end.
    rewrite <- !sum3_sub.
    match goal with |- _ = ?c * (?x + ?y + ?z) - (?u + ?v + ?w) => transitivity ((c * x - u) + (c * y - v) + (c * z - w)); [|ring] end.
    rewrite <- !sum3_scal, <- !sum3_sub.
    f_equal; [f_equal|]; apply sum3_ext; intros i j k Hi Hj Hk;
      destruct (fwd_E K sc CS s1 i j k) as (e2x & e2y & e2z); destruct (fwd_E K sc CS s i j k) as (e1x & e1y & e1z);
      destruct (cs_ie K sc CS i j k (conj Hi (conj Hj Hk))) as (i1 & i2 & i3);
      destruct (cs_mE K sc CS i j k (conj Hi (conj Hj Hk))) as (q1 & q2 & q3);
      destruct (pa_ie PA i j k (conj Hi (conj Hj Hk))) as (p1 & p2 & p3);
      destruct (pa_sig PA i j k (conj Hi (conj Hj Hk))) as (g1 & g2 & g3);
      unfold vadd, vmap2; cbn [vx vy vz]; fold s1 in e1x, e1y, e1z; fold s1 s2 in e2x, e2y, e2z.
    - rewrite e2x. unfold updE1.
      rewrite (E_cell_lossy (wE1 K sc i j k) _ _ _ _ _ _ (one_plus_nonzero _ (f_nonneg _ _ i j k p1 g1)) i1 q1 e1x). ring.
    - rewrite e2y. unfold updE1.
      rewrite (E_cell_lossy (wE2 K sc i j k) _ _ _ _ _ _ (one_plus_nonzero _ (f_nonneg _ _ i j k p2 g2)) i2 q2 e1y). ring.
    - rewrite e2z. unfold updE1.
      rewrite (E_cell_lossy (wE3 K sc i j k) _ _ _ _ _ _ (one_plus_nonzero _ (f_nonneg _ _ i j k p3 g3)) i3 q3 e1z). ring.
  Qed.

  Lemma cdot_self_nonneg (a : C) : 0 <= cdot a a.
  Proof. unfold cdot. replace (0 : K) with ((0 : K) + 0) by ring. apply fle_add2; apply sq_nonneg. Qed.

  Lemma loss_nonneg E1 E2 : 0 <= loss E1 E2.
  Proof.
    unfold loss. replace (0 : K) with ((0 : K) + 0 + 0) by ring.
    repeat apply fle_add2; apply sum3_nonneg; intros i j k Hi Hj Hk;
      destruct (cs_ie K sc CS i j k (conj Hi (conj Hj Hk))) as (i1 & i2 & i3);
      destruct (pa_ie PA i j k (conj Hi (conj Hj Hk))) as (p1 & p2 & p3);
      destruct (pa_sig PA i j k (conj Hi (conj Hj Hk))) as (g1 & g2 & g3);
      destruct (pa_w PA i j k (conj Hi (conj Hj Hk))) as (w1 & w2 & w3);
      repeat apply fle_mul; try apply cdot_self_nonneg; try (apply f_nonneg; assumption);
      apply div_nonneg; assumption.
  Qed.

  (* energy balance and monotonicity *)
  Theorem energy_balance s :
    energy2 K sc (fH (forward K sc s)) (forward K sc (forward K sc s))
    = energy2 K sc (fH s) (forward K sc s) - loss (fE (forward K sc s)) (fE (forward K sc (forward K sc s))).
  Proof.
    rewrite !energy2_split.
    pose proof (EE_step_lossy s) as A. pose proof (HH_step K sc CS s) as B.
    rewrite <- (curl_adjoint K sc (cs_gx K sc CS) (cs_gy K sc CS) (cs_gz K sc CS) (cs_wx K sc CS) (cs_wy K sc CS) (cs_wz K sc CS)) in B.
    set (e2 := EE K sc (fE (forward K sc (forward K sc s)))) in *.
    set (e1 := EE K sc (fE (forward K sc s))) in *.
    set (h2 := HH K sc (fH (forward K sc (forward K sc s))) (fH (forward K sc s))) in *.
    set (h1 := HH K sc (fH (forward K sc s)) (fH s)) in *.
    set (d := dotE K sc _ _) in *. set (l := loss _ _) in *.
    transitivity ((e2 - e1) + (h2 - h1) + (e1 + h1)); [ring|]. rewrite A, B. ring.
  Qed.

  Theorem energy_dissipates s :
    energy2 K sc (fH (forward K sc s)) (forward K sc (forward K sc s)) <= energy2 K sc (fH s) (forward K sc s).
  Proof. rewrite energy_balance. apply fle_sub_nonneg. apply loss_nonneg. Qed.
End Dissipation.
