(* DeviceApply_proofs.v — lemmas about model/DeviceApply.v (C18). *)
From Coq Require Import ZArith List Bool Lia Field.
From FV Require Import base.Scalar base.PyNum model.DeviceOverlap model.DeviceApply.
Import ListNotations.
Open Scope Z_scope.

Lemma inb_cell_in b c : inb b c = true <-> cell_in b c.
Proof.
  destruct c as [[x y] z], b as [[[x0 x1] [y0 y1]] [z0 z1]]. unfold inb, cell_in, in_range. cbn.
  rewrite !andb_true_iff, !Z.leb_le, !Z.ltb_lt. tauto.
Qed.

Section ApplyProofs.
  Variable K : Fld.
  Add Field KFa : (Fth K).
  Variable invert : (nat -> K) -> (nat -> K).
  Variable toidx : K -> nat.
  Notation arr := (arr K).
  Notation device := (device K).
  Notation step_perm := (step_perm K invert toidx).
  Notation apply_params := (apply_params K invert toidx).
  Notation perm_value := (perm_value K invert toidx).
  Notation run_history := (run_history K invert toidx).

  Definition outside (devs : list device) (c : cell) : Prop := forall d, In d devs -> inb (dbox K d) c = false.
  Definition agree_outside (devs : list device) (a a' : arr) : Prop := forall k c, outside devs c -> a k c = a' k c.

  (* ---------------------------------------------------------------- frame *)
  Lemma fold_frame (dps : list (device * (cell -> K))) : forall (a : arr) k c,
    (forall dp, In dp dps -> inb (dbox K (fst dp)) c = false) ->
    fold_left step_perm dps a k c = a k c.
  Proof.
    induction dps as [|dp r IH]; intros a k c H; cbn [fold_left]; [reflexivity|].
    rewrite IH by (intros dp' Hd; apply H; right; exact Hd).
    unfold DeviceApply.step_perm, write. rewrite (H dp (or_introl eq_refl)). reflexivity.
  Qed.

  Lemma in_combine_fst (devs : list device) (ps : list (cell -> K)) dp : In dp (combine devs ps) -> In (fst dp) devs.
  Proof. destruct dp as [d p]. intros H. apply in_combine_l in H. exact H. Qed.

  (* cells outside every device keep the value the loop started from *)
  Theorem frame init cur devs ps k c : outside devs c ->
    apply_params init cur devs ps k c = match init with Some i => i k c | None => cur k c end.
  Proof.
    intros H. unfold DeviceApply.apply_params. rewrite fold_frame.
    - destruct init; reflexivity.
    - intros dp Hd. apply H. eapply in_combine_fst, Hd.
  Qed.

  (* ---------------------------------------------------------------- per-cell value *)
  (* value of a cell after the loop = value written by the last device that contains it *)
  Lemma fold_last_writer (dps : list (device * (cell -> K))) : forall (a : arr) pre d p post k c,
    dps = pre ++ (d, p) :: post ->
    inb (dbox K d) c = true ->
    (forall dp, In dp post -> inb (dbox K (fst dp)) c = false) ->
    fold_left step_perm dps a k c = perm_value d p (fold_left step_perm pre a) c k.
  Proof.
    intros a pre d p post k c -> Hin Hpost.
    rewrite fold_left_app. cbn [fold_left]. rewrite fold_frame by exact Hpost.
    unfold DeviceApply.step_perm at 1, write. cbn [fst snd]. rewrite Hin. reflexivity.
  Qed.

  (* continuous, not etched: inverse of the linear blend of the two materials, whatever was there before *)
  Theorem continuous_exact init cur devs ps pre d p post k c :
    combine devs ps = pre ++ (d, p) :: post ->
    kind K d = Continuous -> inb (dbox K d) c = true ->
    (forall dp, In dp post -> inb (dbox K (fst dp)) c = false) ->
    apply_params init cur devs ps k c =
      invert (fun j => blend K (perm K (mat K d 0) j) (perm K (mat K d 1) j) (p (design_index K d c))) k.
  Proof.
    intros E Hk Hin Hpost. unfold DeviceApply.apply_params.
    rewrite (fold_last_writer _ _ pre d p post k c E Hin Hpost).
    unfold DeviceApply.perm_value. rewrite Hk. reflexivity.
  Qed.

  (* discrete: exactly the inverse permittivity of the selected material *)
  Theorem discrete_exact init cur devs ps pre d p post k c :
    combine devs ps = pre ++ (d, p) :: post ->
    kind K d = Discrete -> inb (dbox K d) c = true ->
    (forall dp, In dp post -> inb (dbox K (fst dp)) c = false) ->
    apply_params init cur devs ps k c = invert (perm K (mat K d (toidx (p (design_index K d c))))) k.
  Proof.
    intros E Hk Hin Hpost. unfold DeviceApply.apply_params.
    rewrite (fold_last_writer _ _ pre d p post k c E Hin Hpost).
    unfold DeviceApply.perm_value. rewrite Hk. reflexivity.
  Qed.

  (* etched: blend between the background found at the cell (state before this device) and the etch material *)
  Theorem etched_exact init cur devs ps pre d p post k c :
    combine devs ps = pre ++ (d, p) :: post ->
    kind K d = Etched -> inb (dbox K d) c = true ->
    (forall dp, In dp post -> inb (dbox K (fst dp)) c = false) ->
    let before := fold_left step_perm pre (match init with Some i => i | None => cur end) in
    apply_params init cur devs ps k c =
      invert (fun j => blend K (invert (fun j' => before j' c) j) (perm K (mat K d 0) j) (p (design_index K d c))) k.
  Proof.
    intros E Hk Hin Hpost. cbn zeta. unfold DeviceApply.apply_params.
    rewrite (fold_last_writer _ _ pre d p post k c E Hin Hpost).
    unfold DeviceApply.perm_value. rewrite Hk. reflexivity.
  Qed.

  (* dispersive coefficient stacks: same structure, blend / lookup without inversion *)
  Theorem disp_exact cur devs ps pre d p post k c :
    combine devs ps = pre ++ (d, p) :: post ->
    inb (dbox K d) c = true ->
    (forall dp, In dp post -> inb (dbox K (fst dp)) c = false) ->
    apply_params_disp K toidx cur devs ps k c = disp_value K toidx d p c k.
  Proof.
    intros E Hin Hpost. unfold apply_params_disp. rewrite E, fold_left_app. cbn [fold_left].
    assert (F : forall (dps : list (device * (cell -> K))) (a : arr),
              (forall dp, In dp dps -> inb (dbox K (fst dp)) c = false) ->
              fold_left (step_disp K toidx) dps a k c = a k c).
    { induction dps as [|dp r IH]; intros a H; cbn [fold_left]; [reflexivity|].
      rewrite IH by (intros dp' Hd; apply H; right; exact Hd).
      unfold step_disp, write. rewrite (H dp (or_introl eq_refl)). reflexivity. }
    rewrite F by exact Hpost. unfold step_disp at 1, write. cbn [fst snd]. rewrite Hin. reflexivity.
  Qed.

  Theorem disp_frame cur devs ps k c : outside devs c -> apply_params_disp K toidx cur devs ps k c = cur k c.
  Proof.
    intros H. unfold apply_params_disp.
    assert (G : forall dp, In dp (combine devs ps) -> inb (dbox K (fst dp)) c = false)
      by (intros dp Hd; apply H; eapply in_combine_fst, Hd).
    revert cur G. generalize (combine devs ps).
    induction l as [|dp r IH]; intros a G; cbn [fold_left]; [reflexivity|].
    rewrite IH by (intros dp' Hd; apply G; right; exact Hd).
    unfold step_disp, write. rewrite (G dp (or_introl eq_refl)). reflexivity.
  Qed.

  (* ---------------------------------------------------------------- history independence *)
  Definition no_etch (devs : list device) : Prop := forall d, In d devs -> kind K d <> Etched.

  Lemma perm_value_indep d p (a a' : arr) c : kind K d <> Etched -> perm_value d p a c = perm_value d p a' c.
  Proof. intros H. unfold DeviceApply.perm_value. destruct (kind K d); [reflexivity | congruence | reflexivity]. Qed.

  (* two states that agree outside the devices still to be written end up equal everywhere *)
  Lemma fold_agree (dps : list (device * (cell -> K))) : forall (a a' : arr),
    (forall dp, In dp dps -> kind K (fst dp) <> Etched) ->
    (forall k c, (forall dp, In dp dps -> inb (dbox K (fst dp)) c = false) -> a k c = a' k c) ->
    forall k c, fold_left step_perm dps a k c = fold_left step_perm dps a' k c.
  Proof.
    induction dps as [|dp r IH]; intros a a' Hne Hag k c; cbn [fold_left].
    - apply Hag. intros dp [].
    - apply IH.
      + intros dp' Hd. apply Hne. right. exact Hd.
      + intros k' c' Hout. unfold DeviceApply.step_perm, write.
        destruct (inb (dbox K (fst dp)) c') eqn:E.
        * rewrite (perm_value_indep (fst dp) (snd dp) a a' c') by (apply Hne; left; reflexivity). reflexivity.
        * apply Hag. intros dp' [<-|Hd]; [exact E | apply Hout, Hd].
  Qed.

  Lemma in_combine_ex (devs : list device) : forall (ps : list (cell -> K)) d,
    length ps = length devs -> In d devs -> exists p, In (d, p) (combine devs ps).
  Proof.
    induction devs as [|d' r IH]; intros ps d Hl Hd; [destruct Hd|].
    destruct ps as [|p ps]; [discriminate|]. cbn in Hl. destruct Hd as [->|Hd].
    - exists p. left. reflexivity.
    - destruct (IH ps d ltac:(lia) Hd) as [p' Hp]. exists p'. right. exact Hp.
  Qed.

  (* without a backup (no etching anywhere) the result depends on the incoming state only outside the devices *)
  Lemma apply_params_agree_none (a a' : arr) devs ps :
    length ps = length devs -> no_etch devs -> agree_outside devs a a' ->
    forall k c, apply_params None a devs ps k c = apply_params None a' devs ps k c.
  Proof.
    intros Hl Hne Hag k c. unfold DeviceApply.apply_params. apply fold_agree.
    - intros dp Hd. apply Hne. eapply in_combine_fst, Hd.
    - intros k' c' Hout. apply Hag. intros d Hd.
      destruct (in_combine_ex devs ps d Hl Hd) as [p Hp]. apply (Hout (d, p) Hp).
  Qed.

  Lemma history_frame devs : forall hist (cur : arr), agree_outside devs (run_history None cur devs hist) cur.
  Proof.
    induction hist as [|ps r IH]; intros cur k c Ho; cbn; [reflexivity|].
    change (fold_left _ r ?x) with (run_history None x devs r).
    rewrite (IH _ k c Ho). rewrite frame by exact Ho. reflexivity.
  Qed.

  (* C18: applying a sequence of parameter sets leaves the same array as applying only the last one.
     init = Some _ models the etching backup (present exactly when some device uses etching);
     without it no device may be etched (the code's [using_etching] invariant). *)
  Theorem last_params_win init (cur : arr) devs hist ps :
    (init = None -> no_etch devs) -> length ps = length devs ->
    forall k c, run_history init cur devs (hist ++ [ps]) k c = apply_params init cur devs ps k c.
  Proof.
    intros Hne Hl k c. unfold DeviceApply.run_history. rewrite fold_left_app. cbn [fold_left].
    destruct init as [i|]; [reflexivity|].
    apply apply_params_agree_none; [exact Hl | apply Hne; reflexivity | apply history_frame].
  Qed.
End ApplyProofs.

(* ------------------------------------------------------------------ range of the continuous blend *)
Section Range.
  Variable K : OFld.
  Add Field KFr : (Fth K).
  Local Open Scope fld_scope.
  Notation le := (fle K).

  Lemma le_sub x y : le x y <-> le 0 (y - x).
  Proof.
    split; intros H.
    - pose proof (fle_add K x y (- x) H) as G. replace (x + - x) with (f0 K) in G by ring.
      replace (y + - x) with (y - x) in G by ring. exact G.
    - pose proof (fle_add K 0 (y - x) x H) as G. replace (0 + x) with x in G by ring.
      replace (y - x + x) with y in G by ring. exact G.
  Qed.

  (* p in [0,1]: the blended permittivity lies between the two material values *)
  Theorem blend_range e0 e1 p : le 0 p -> le p 1 -> le e0 e1 ->
    le e0 (blend K e0 e1 p) /\ le (blend K e0 e1 p) e1.
  Proof.
    intros H0 H1 He. unfold blend. apply le_sub in He. apply le_sub in H1. split; apply le_sub.
    - replace (e0 + p * (e1 - e0) - e0) with (p * (e1 - e0)) by ring. apply fle_mul; assumption.
    - replace (e1 - (e0 + p * (e1 - e0))) with ((1 - p) * (e1 - e0)) by ring. apply fle_mul; assumption.
  Qed.
  Theorem blend_range_rev e0 e1 p : le 0 p -> le p 1 -> le e1 e0 ->
    le e1 (blend K e0 e1 p) /\ le (blend K e0 e1 p) e0.
  Proof.
    intros H0 H1 He. unfold blend. apply le_sub in He. apply le_sub in H1. split; apply le_sub.
    - replace (e0 + p * (e1 - e0) - e1) with ((1 - p) * (e0 - e1)) by ring. apply fle_mul; assumption.
    - replace (e0 - (e0 + p * (e1 - e0))) with (p * (e0 - e1)) by ring. apply fle_mul; assumption.
  Qed.

  Lemma le_0_1 : le 0 1.
  Proof.
    destruct (fle_total K 0 1) as [H|H]; [exact H|].
    apply le_sub in H. replace (0 - 1) with (- (1) : K) in H by ring.
    pose proof (fle_mul K _ _ H H) as G. replace (- (1) * - (1)) with (f1 K) in G by ring. exact G.
  Qed.

  (* reciprocal of a positive number is non-negative *)
  Lemma inv_nonneg x : le 0 x -> x <> 0 -> le 0 (/ x).
  Proof.
    intros Hx Hn. destruct (fle_total K 0 (/ x)) as [H|H]; [exact H|].
    apply le_sub in H. replace (0 - / x) with (- / x) in H by ring.
    pose proof (fle_mul K _ _ Hx H) as G. replace (x * - / x) with (- (1) : K) in G by (field; exact Hn).
    exfalso. apply (f01 K). apply fle_antisym; [apply le_0_1|].
    apply le_sub. replace (0 - 1) with (- (1) : K) by ring. exact G.
  Qed.

  (* 0 < a <= b  ->  1/b <= 1/a *)
  Lemma inv_antitone a b : le 0 a -> a <> 0 -> le a b -> b <> 0 -> le (/ b) (/ a).
  Proof.
    intros Ha Hna Hab Hnb. apply le_sub.
    replace (/ a - / b) with ((b - a) * (/ a * / b)) by (field; split; assumption).
    apply fle_mul; [apply (proj1 (le_sub a b)), Hab|].
    apply fle_mul; apply inv_nonneg; try assumption. apply fle_trans with a; assumption.
  Qed.

  (* C18 range: with positive material permittivities e0 <= e1 and p in [0,1] the written inverse permittivity
     lies in [1/e1, 1/e0] *)
  Theorem inv_blend_range e0 e1 p : le 0 p -> le p 1 -> le 0 e0 -> e0 <> 0 -> le e0 e1 ->
    le (/ e1) (/ blend K e0 e1 p) /\ le (/ blend K e0 e1 p) (/ e0).
  Proof.
    intros H0 H1 Hp Hn He. destruct (blend_range e0 e1 p H0 H1 He) as [A B].
    assert (Hb : blend K e0 e1 p <> 0).
    { intros E. rewrite E in A. apply Hn. apply fle_antisym; assumption. }
    assert (H1n : e1 <> 0).
    { intros E. rewrite E in He. apply Hn. apply fle_antisym; assumption. }
    split.
    - apply inv_antitone; try assumption. apply fle_trans with e0; assumption.
    - apply inv_antitone; assumption.
  Qed.
End Range.
