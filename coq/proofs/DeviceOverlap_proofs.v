(* DeviceOverlap_proofs.v — lemmas about model/DeviceOverlap.v (C29). *)
From Coq Require Import ZArith List Bool Lia.
From FV Require Import base.PyNum model.DeviceOverlap.
Import ListNotations.
Open Scope Z_scope.

(* ------------------------------------------------------------------ check_overlap *)
Lemma zrange3 : zrange 3 = [0; 1; 2].
Proof. reflexivity. Qed.

(* per-axis reading of the repaired predicate *)
Lemma check_overlap_axes a b :
  check_overlap a b = true <->
  (forall axis, 0 <= axis < 3 ->
     fst (axis_of b axis) <= snd (axis_of a axis) /\ fst (axis_of a axis) <= snd (axis_of b axis)).
Proof.
  destruct a as [[[a0 a1] [a2 a3]] [a4 a5]], b as [[[b0 b1] [b2 b3]] [b4 b5]].
  assert (E : check_overlap (a0, a1, (a2, a3), (a4, a5)) (b0, b1, (b2, b3), (b4, b5)) =
              (negb ((a1 <? b0) || (b1 <? a0)) && (negb ((a3 <? b2) || (b3 <? a2)) && negb ((a5 <? b4) || (b5 <? a4))))%bool).
  { unfold check_overlap. rewrite zrange3. cbn [for_return axis_of Z.eqb Pos.eqb fst snd].
    destruct ((a1 <? b0) || (b1 <? a0))%bool; [reflexivity|].
    destruct ((a3 <? b2) || (b3 <? a2))%bool; [reflexivity|].
    destruct ((a5 <? b4) || (b5 <? a4))%bool; reflexivity. }
  rewrite E, !andb_true_iff, !negb_true_iff, !orb_false_iff, !Z.ltb_ge.
  split.
  - intros H axis Ha.
    assert (C : axis = 0 \/ axis = 1 \/ axis = 2) by lia.
    destruct C as [-> | [-> | ->]]; cbn; lia.
  - intros H.
    pose proof (H 0 ltac:(lia)) as H0. pose proof (H 1 ltac:(lia)) as H1. pose proof (H 2 ltac:(lia)) as H2.
    cbn in H0, H1, H2. lia.
Qed.

Definition proper (b : box) : Prop := forall axis, 0 <= axis < 3 -> fst (axis_of b axis) <= snd (axis_of b axis).

Lemma well_formed_proper b : well_formed b -> proper b.
Proof. intros H axis Ha. specialize (H axis Ha). lia. Qed.

(* soundness for the property, ALL boxes: boxes that have a common cell are reported *)
Theorem share_cell_overlap a b : share_cell a b -> check_overlap a b = true.
Proof.
  intros [[[x y] z] [Ha Hb]]. apply check_overlap_axes. intros axis Hx.
  unfold cell_in, in_range in Ha, Hb.
  assert (C : axis = 0 \/ axis = 1 \/ axis = 2) by lia.
  destruct C as [-> | [-> | ->]]; lia.
Qed.

(* exact characterisation: true iff the closed boxes have a common grid point *)
Theorem overlap_iff_share_point a b : proper a -> proper b -> (check_overlap a b = true <-> share_point a b).
Proof.
  intros Pa Pb. rewrite check_overlap_axes. unfold share_point, point_in, in_closed. split.
  - intros H.
    exists (Z.max (fst (axis_of a 0)) (fst (axis_of b 0)),
            Z.max (fst (axis_of a 1)) (fst (axis_of b 1)),
            Z.max (fst (axis_of a 2)) (fst (axis_of b 2))).
    pose proof (H 0 ltac:(lia)). pose proof (H 1 ltac:(lia)). pose proof (H 2 ltac:(lia)).
    pose proof (Pa 0 ltac:(lia)). pose proof (Pa 1 ltac:(lia)). pose proof (Pa 2 ltac:(lia)).
    pose proof (Pb 0 ltac:(lia)). pose proof (Pb 1 ltac:(lia)). pose proof (Pb 2 ltac:(lia)).
    repeat split; lia.
  - intros [[[x y] z] [Ha Hb]] axis Hx.
    assert (C : axis = 0 \/ axis = 1 \/ axis = 2) by lia.
    destruct C as [-> | [-> | ->]]; lia.
Qed.

Lemma axis_of_grow b axis : axis_of (grow b) axis = grow1 (axis_of b axis).
Proof. destruct b as [[bx by_] bz]. cbn. destruct (axis =? 0); [reflexivity|]. destruct (axis =? 1); reflexivity. Qed.

(* in terms of cells: true iff self has a cell inside other grown by one cell on every side
   (i.e. the boxes share a cell or touch at a face, edge or corner) *)
Theorem overlap_iff_share_cell_grown a b : well_formed a -> well_formed b ->
  (check_overlap a b = true <-> share_cell a (grow b)).
Proof.
  intros Wa Wb. rewrite check_overlap_axes. unfold share_cell, cell_in, in_range. split.
  - intros H.
    exists (Z.max (fst (axis_of a 0)) (fst (axis_of b 0) - 1),
            Z.max (fst (axis_of a 1)) (fst (axis_of b 1) - 1),
            Z.max (fst (axis_of a 2)) (fst (axis_of b 2) - 1)).
    rewrite !axis_of_grow. unfold grow1. cbn [fst snd].
    pose proof (H 0 ltac:(lia)). pose proof (H 1 ltac:(lia)). pose proof (H 2 ltac:(lia)).
    pose proof (Wa 0 ltac:(lia)). pose proof (Wa 1 ltac:(lia)). pose proof (Wa 2 ltac:(lia)).
    pose proof (Wb 0 ltac:(lia)). pose proof (Wb 1 ltac:(lia)). pose proof (Wb 2 ltac:(lia)).
    repeat split; lia.
  - intros [[[x y] z] [Ha Hb]] axis Hx. rewrite !axis_of_grow in Hb. unfold grow1 in Hb. cbn [fst snd] in Hb.
    assert (C : axis = 0 \/ axis = 1 \/ axis = 2) by lia.
    destruct C as [-> | [-> | ->]]; lia.
Qed.

Lemma share_cell_b_spec a b : share_cell_b a b = true <-> share_cell a b.
Proof.
  unfold share_cell_b. rewrite zrange3. cbn [forallb]. rewrite !andb_true_iff, !Z.ltb_lt.
  unfold share_cell, cell_in, in_range. split.
  - intros (H0 & H1 & H2 & _).
    exists (Z.max (fst (axis_of a 0)) (fst (axis_of b 0)),
            Z.max (fst (axis_of a 1)) (fst (axis_of b 1)),
            Z.max (fst (axis_of a 2)) (fst (axis_of b 2))).
    repeat split; lia.
  - intros [[[x y] z] [Ha Hb]]. repeat split; lia.
Qed.

(* the unchanged source: a box strictly inside the device is not reported; and a box that shares no cell
   (not even a grid point) with the device is reported when one axis range meets *)
Theorem src_old_refuted_inside :
  exists dev obj, well_formed dev /\ well_formed obj /\ share_cell dev obj /\ check_overlap_src_old dev obj = false.
Proof.
  exists ((2, 10), (2, 10), (2, 10)), ((4, 6), (4, 6), (5, 6)).
  split; [|split; [|split]].
  - intros axis H. assert (C : axis = 0 \/ axis = 1 \/ axis = 2) by lia. destruct C as [-> | [-> | ->]]; cbn; lia.
  - intros axis H. assert (C : axis = 0 \/ axis = 1 \/ axis = 2) by lia. destruct C as [-> | [-> | ->]]; cbn; lia.
  - exists (4, 4, 5). unfold cell_in, in_range. cbn. lia.
  - reflexivity.
Qed.

Theorem src_old_one_axis_only :
  exists dev obj, ~ share_point dev obj /\ check_overlap_src_old dev obj = true.
Proof.
  exists ((2, 10), (2, 10), (2, 10)), ((0, 5), (20, 22), (20, 22)). split; [|reflexivity].
  intros [[[x y] z] [Ha Hb]]. unfold point_in, in_closed in Ha, Hb. cbn in Ha, Hb. lia.
Qed.

(* ------------------------------------------------------------------ object loops *)
Section Loops.
  Variables O M Key : Type.
  Variable box_of : O -> box.
  Variable apply : Key -> M -> O -> O.
  Variable split : Key -> Key * Key.
  Variable overlap : box -> box -> bool.
  Notation reapply_loop := (reapply_loop O M Key box_of apply split overlap).
  Notation place_loop := (place_loop O M Key box_of apply split overlap).
  Notation any_overlap := (any_overlap O box_of overlap).

  Lemma reapply_length devs m objs : forall key, length (reapply_loop devs m key objs) = length objs.
  Proof.
    induction objs as [|o r IH]; intros key; cbn; [reflexivity|].
    destruct (any_overlap devs o); [destruct (split key) as [k' sub]|]; cbn; rewrite IH; reflexivity.
  Qed.

  (* positional description of apply_params' loop *)
  Lemma reapply_nth devs m objs : forall key i o, nth_error objs i = Some o ->
    if any_overlap devs o
    then exists k, nth_error (reapply_loop devs m key objs) i = Some (apply k m o)
    else nth_error (reapply_loop devs m key objs) i = Some o.
  Proof.
    induction objs as [|o' r IH]; intros key i o Hi; [destruct i; discriminate|].
    destruct i as [|i]; cbn in Hi.
    - injection Hi as ->. cbn [reapply_loop]. destruct (any_overlap devs o) eqn:E.
      + destruct (split key) as [k' sub]. exists sub. reflexivity.
      + reflexivity.
    - cbn [reapply_loop]. destruct (any_overlap devs o') eqn:E'.
      + destruct (split key) as [k' sub]. cbn [nth_error]. apply IH, Hi.
      + cbn [nth_error]. apply IH, Hi.
  Qed.

  Lemma place_nth devs m objs : forall key i o, nth_error objs i = Some o ->
    if any_overlap devs o
    then nth_error (place_loop devs m key objs) i = Some o
    else exists k, nth_error (place_loop devs m key objs) i = Some (apply k m o).
  Proof.
    induction objs as [|o' r IH]; intros key i o Hi; [destruct i; discriminate|].
    destruct i as [|i]; cbn in Hi.
    - injection Hi as ->. cbn [place_loop]. destruct (any_overlap devs o) eqn:E; cbn [negb].
      + reflexivity.
      + destruct (split key) as [k' sub]. exists sub. reflexivity.
    - cbn [place_loop]. destruct (any_overlap devs o') eqn:E'; cbn [negb].
      + cbn [nth_error]. apply IH, Hi.
      + destruct (split key) as [k' sub]. cbn [nth_error]. apply IH, Hi.
  Qed.

  Lemma any_overlap_true devs o :
    (forall a b, share_cell a b -> overlap a b = true) ->
    (exists d, In d devs /\ share_cell (box_of d) (box_of o)) -> any_overlap devs o = true.
  Proof.
    intros Hsound (d & Hd & Hs). unfold DeviceOverlap.any_overlap. apply existsb_exists.
    exists d. split; [exact Hd | apply Hsound, Hs].
  Qed.

  (* C29, loop level: with a sound overlap test every object whose region shares a cell with some device
     is re-applied against the given (post-device) materials; all others are passed through unchanged *)
  Theorem every_intersecting_object_reapplied devs m key objs i o :
    (forall a b, share_cell a b -> overlap a b = true) ->
    nth_error objs i = Some o ->
    (exists d, In d devs /\ share_cell (box_of d) (box_of o)) ->
    exists k, nth_error (reapply_loop devs m key objs) i = Some (apply k m o).
  Proof.
    intros Hsound Hi Hex. pose proof (reapply_nth devs m objs key i o Hi) as H.
    rewrite (any_overlap_true devs o Hsound Hex) in H. exact H.
  Qed.

  (* place_objects followed by apply_params: every object ends up set up against the final materials.
     agree b m m' : the two material states coincide on the cells of b;
     hypotheses: apply only reads the object's own cells and does not move the object; the device writes
     leave every box that shares no cell with a device unchanged (frame property, C18). *)
  Variable agree : box -> M -> M -> Prop.
  Hypothesis apply_local : forall k o m m', agree (box_of o) m m' -> apply k m o = apply k m' o.
  Hypothesis apply_box : forall k m o, box_of (apply k m o) = box_of o.

  Theorem all_objects_current devs m0 m1 key0 key1 objs i o :
    (forall a b, share_cell a b -> overlap a b = true) ->
    (forall b, (forall d, In d devs -> ~ share_cell (box_of d) b) -> agree b m0 m1) ->
    nth_error objs i = Some o ->
    exists k, nth_error (reapply_loop devs m1 key1 (place_loop devs m0 key0 objs)) i = Some (apply k m1 o).
  Proof.
    intros Hsound Hframe Hi.
    pose proof (place_nth devs m0 objs key0 i o Hi) as Hp.
    destruct (any_overlap devs o) eqn:E.
    - (* not applied at placement, re-applied by apply_params *)
      pose proof (reapply_nth devs m1 _ key1 i o Hp) as Hr. rewrite E in Hr. exact Hr.
    - destruct Hp as [k Hp].
      pose proof (reapply_nth devs m1 _ key1 i _ Hp) as Hr.
      assert (Eb : any_overlap devs (apply k m0 o) = any_overlap devs o).
      { unfold DeviceOverlap.any_overlap. rewrite apply_box. reflexivity. }
      rewrite Eb, E in Hr.
      exists k. rewrite Hr. f_equal. apply apply_local. apply Hframe.
      intros d Hd Hs. assert (any_overlap devs o = true) by (apply any_overlap_true; [exact Hsound | exists d; auto]).
      congruence.
  Qed.
End Loops.

(* instances for the repaired predicate *)
Theorem every_intersecting_object_reapplied_fixed :
  forall (O M Key : Type) (box_of : O -> box) (apply : Key -> M -> O -> O) (split : Key -> Key * Key)
         (devs : list O) (m : M) (key : Key) (objs : list O) (i : nat) (o : O),
  nth_error objs i = Some o ->
  (exists d, In d devs /\ share_cell (box_of d) (box_of o)) ->
  exists k, nth_error (reapply_loop O M Key box_of apply split check_overlap devs m key objs) i = Some (apply k m o).
Proof.
  intros O M Key box_of apply split devs m key objs i o.
  exact (every_intersecting_object_reapplied O M Key box_of apply split check_overlap devs m key objs i o share_cell_overlap).
Qed.

Theorem all_objects_current_fixed :
  forall (O M Key : Type) (box_of : O -> box) (apply : Key -> M -> O -> O) (split : Key -> Key * Key)
         (agree : box -> M -> M -> Prop),
  (forall k o m m', agree (box_of o) m m' -> apply k m o = apply k m' o) ->
  (forall k m o, box_of (apply k m o) = box_of o) ->
  forall devs m0 m1 key0 key1 objs i o,
  (forall b, (forall d, In d devs -> ~ share_cell (box_of d) b) -> agree b m0 m1) ->
  nth_error objs i = Some o ->
  exists k, nth_error (reapply_loop O M Key box_of apply split check_overlap devs m1 key1
                         (place_loop O M Key box_of apply split check_overlap devs m0 key0 objs)) i
            = Some (apply k m1 o).
Proof.
  intros O M Key box_of apply split agree Hloc Hbox devs m0 m1 key0 key1 objs i o Hframe Hi.
  exact (all_objects_current O M Key box_of apply split check_overlap agree Hloc Hbox devs m0 m1 key0 key1 objs i o
           share_cell_overlap Hframe Hi).
Qed.
