(* Yee_lossy_exec.v — the executed conductive full-tensor step (model/YeeFull.v forward_lossyX: per-cell matrices tabulated level by level,
   state tabulated after the step) reads back, in every cell of the box, exactly the functional step forward_lossy that the theorems are about
   (PML-free scenes).  Also the in-box read-back of the executed lossless full-tensor steps. *)
From Coq Require Import List Arith Lia Bool.
From FV Require Import base.Scalar base.Cplx model.Yee model.YeeExec model.YeeFull proofs.YeeExec_proofs proofs.Yee_steps proofs.Yee_reverse
  proofs.Yee_full_reverse proofs.Yee_full_props proofs.Yee_lossy_props proofs.Yee_tile3.
Import ListNotations.
Local Open Scope fld_scope.

Section LossyExec.
  Variable K : Fld.
  Variable sc : scene K.
  Hypothesis Hpml : pmls K sc = [].
  Notation T9 := (T9 K).
  Notation inbx := (inb K sc).
  Notation nX := (nx K sc). Notation nY := (ny K sc). Notation nZ := (nz K sc).

  (* agreement of two tensor fields on the entries the step reads: r, s < 3, cells of the box *)
  Definition ceqB (X Y : T9) : Prop := forall r s, (r < 3)%nat -> (s < 3)%nat -> forall i j k, inbx i j k -> X r s i j k = Y r s i j k.
  Lemma ceqB_refl X : ceqB X X. Proof. intros r s _ _ i j k _; reflexivity. Qed.
  Lemma ceqB_trans X Y Z : ceqB X Y -> ceqB Y Z -> ceqB X Z.
  Proof. intros A B r s Hr Hs i j k Hb. rewrite (A r s Hr Hs i j k Hb). apply B; assumption. Qed.

  Lemma freeze9_ceqB T : ceqB (freeze9 K nX nY nZ T) T.
  Proof.
    intros r s Hr Hs i j k (Hi & Hj & Hk). unfold freeze9.
    destruct (r <? 3) eqn:A; [|apply Nat.ltb_ge in A; lia]. destruct (s <? 3) eqn:B; [|apply Nat.ltb_ge in B; lia].
    destruct (i <? nX) eqn:C1; [|apply Nat.ltb_ge in C1; lia]. destruct (j <? nY) eqn:C2; [|apply Nat.ltb_ge in C2; lia].
    destruct (k <? nZ) eqn:C3; [|apply Nat.ltb_ge in C3; lia]. cbn [andb].
    destruct r as [|[|[|r]]]; [| | |lia]; (destruct s as [|[|[|s]]]; [| | |lia]); cbn [Nat.mul Nat.add nth map seq Nat.div Nat.modulo Nat.divmod fst snd Nat.sub];
      apply get3_tab3; assumption.
  Qed.

  (* the per-cell algebra is pointwise in the cell *)
  Lemma m9mul_ceqB X Y X' Y' : ceqB X X' -> ceqB Y Y' -> ceqB (m9mul K X Y) (m9mul K X' Y').
  Proof.
    intros HX HY r s Hr Hs i j k Hb. unfold m9mul.
    rewrite (HX r 0%nat Hr ltac:(lia) i j k Hb), (HX r 1%nat Hr ltac:(lia) i j k Hb), (HX r 2%nat Hr ltac:(lia) i j k Hb),
            (HY 0%nat s ltac:(lia) Hs i j k Hb), (HY 1%nat s ltac:(lia) Hs i j k Hb), (HY 2%nat s ltac:(lia) Hs i j k Hb). reflexivity.
  Qed.
  Lemma m9lin_ceqB a X b Y X' Y' : ceqB X X' -> ceqB Y Y' -> ceqB (m9lin K a X b Y) (m9lin K a X' b Y').
  Proof. intros HX HY r s Hr Hs i j k Hb. unfold m9lin. rewrite (HX r s Hr Hs i j k Hb), (HY r s Hr Hs i j k Hb). reflexivity. Qed.
  Lemma m9inv_ceqB X Y : ceqB X Y -> ceqB (m9inv K X) (m9inv K Y).
  Proof.
    intros H r s Hr Hs i j k Hb. unfold m9inv, det9, cof.
    assert (E : forall a b, (a < 3)%nat -> (b < 3)%nat -> X a b i j k = Y a b i j k) by (intros a b Ha Hb'; apply H; assumption).
    assert (N3 : forall q, (q < 3)%nat -> (nx3 q < 3)%nat /\ (pv3 q < 3)%nat) by (intros [|[|[|q]]] Hq; cbn [nx3 pv3]; lia).
    destruct (N3 r Hr) as (r1 & r2). destruct (N3 s Hs) as (s1 & s2).
    cbn [nx3 pv3]. rewrite !E by (cbn [nx3 pv3]; lia). reflexivity.
  Qed.

  (* the tabulated matrices are the matrices of the functional model *)
  Definition mats_fun (etaf : car K) (o : option (T9 * T9)) : option (T9 * T9) :=
    match o with Some (T, sg) => Some (lossy_A K sc etaf T sg, lossy_B K sc etaf T sg) | None => None end.
  Definition oeqB (x y : option (T9 * T9)) : Prop :=
    match x, y with Some (A, B), Some (A', B') => ceqB A A' /\ ceqB B B' | None, None => True | _, _ => False end.
  Lemma mats_exec_ok etaf o : oeqB (mats_exec K sc etaf o) (mats_fun etaf o).
  Proof.
    destruct o as [[T sg]|]; cbn [mats_exec mats_fun oeqB]; [|exact I].
    set (fz := freeze9 K nX nY nZ).
    assert (F : forall X Y, ceqB X Y -> ceqB (fz X) Y) by (intros X Y H; eapply ceqB_trans; [apply freeze9_ceqB | exact H]).
    assert (I1 : ceqB (fz (m9inv K (fz (lossy_M1 K sc etaf T sg)))) (m9inv K (lossy_M1 K sc etaf T sg))).
    { apply F, m9inv_ceqB, F, ceqB_refl. }
    split.
    - apply F. unfold lossy_A. apply m9mul_ceqB; [exact I1 | apply F, ceqB_refl].
    - apply F. unfold lossy_B. apply m9lin_ceqB; [|apply ceqB_refl]. apply F, m9mul_ceqB; [exact I1 | apply ceqB_refl].
  Qed.

  (* the half steps read the matrices only at the cell they write *)
  Definition tierME (ab : option (T9 * T9)) : V3 K -> V3 K -> V3 K -> V3 K := match ab with Some (A, B) => stepE_AB K sc A B | None => stepE K sc end.
  Definition tierMH (ab : option (T9 * T9)) : V3 K -> V3 K -> V3 K -> V3 K := match ab with Some (A, B) => stepH_AB K sc A B | None => stepH K sc end.
  Lemma forward_mats_steps abE abH s :
    fE (forward_mats K sc abE abH s) = tierME abE (injE K sc (tstep s)) (fE s) (fH s) /\
    fH (forward_mats K sc abE abH s) = tierMH abH (injH K sc (tstep s)) (fE (forward_mats K sc abE abH s)) (fH s) /\
    tstep (forward_mats K sc abE abH s) = S (tstep s).
  Proof.
    unfold forward_mats. destruct abE as [[Ae Be]|], abH as [[Ah Bh]|]; cbn [upd_E_mats upd_H_mats tierME tierMH];
      unfold update_E_AB, update_H_AB, update_E, update_H, curlH, curlE; rewrite Hpml; cbn; repeat split.
  Qed.
  Lemma tvec1_ceqB avg X Y v : ceqB X Y -> veqB K sc (tvec1 K avg X v) (tvec1 K avg Y v).
  Proof. intros H i j k Hi Hj Hk. assert (Hb : inbx i j k) by (repeat split; assumption). assert (E : forall r s, (r < 3)%nat -> (s < 3)%nat -> X r s i j k = Y r s i j k) by (intros r s Hr Hs; apply H; assumption).
    unfold tvec1, trow1; cbn [vx vy vz]. rewrite !E by lia. repeat split. Qed.
  Lemma veqB_box u v : veqB K sc u v -> veq_box K sc u v.
  Proof. intros H i j k (Hi & Hj & Hk). apply H; assumption. Qed.
  Lemma tvec1_extB avg T u v : (forall f g c l, aeq K sc f g -> aeq K sc (avg f c l) (avg g c l)) -> veqB K sc u v -> veqB K sc (tvec1 K avg T u) (tvec1 K avg T v).
  Proof.
    intros Havg H i j k Hi Hj Hk. assert (Hb : inbx i j k) by (repeat split; assumption).
    assert (L : forall r s, at_loc K avg u r s i j k = at_loc K avg v r s i j k).
    { intros r s. unfold at_loc. destruct (Nat.eqb r s); [apply (comp_ext K sc u v r (veqB_box _ _ H) i j k Hb) | apply (Havg _ _ s r (comp_ext K sc u v s (veqB_box _ _ H)) i j k Hb)]. }
    unfold tvec1, trow1; cbn [vx vy vz]. rewrite !L. repeat split.
  Qed.
  Lemma stepE_AB_ceqB A B A' B' J E H : ceqB A A' -> ceqB B B' -> veqB K sc (stepE_AB K sc A B J E H) (stepE_AB K sc A' B' J E H).
  Proof.
    intros HA HB i j k Hi Hj Hk.
    destruct (tvec1_ceqB (avgE K sc) A A' E HA i j k Hi Hj Hk) as (a1 & a2 & a3).
    destruct (tvec1_ceqB (avgE K sc) B B' (curlH_raw K sc H) HB i j k Hi Hj Hk) as (b1 & b2 & b3).
    unfold stepE_AB, vmask, vadd, vmap2; cbn [vx vy vz]. rewrite a1, a2, a3, b1, b2, b3. repeat split.
  Qed.
  Lemma stepH_AB_ceqB A B A' B' J E E' H : ceqB A A' -> ceqB B B' -> veqB K sc E E' -> veqB K sc (stepH_AB K sc A B J E H) (stepH_AB K sc A' B' J E' H).
  Proof.
    intros HA HB HE i j k Hi Hj Hk.
    destruct (tvec1_ceqB (avgH K sc) A A' H HA i j k Hi Hj Hk) as (a1 & a2 & a3).
    destruct (tvec1_ceqB (avgH K sc) B B' (curlE_raw K sc E) HB i j k Hi Hj Hk) as (b1 & b2 & b3).
    destruct (tvec1_extB (avgH K sc) B' _ _ (avgH_ext K sc) (curlE_raw_extB K sc E E' HE) i j k Hi Hj Hk) as (c1' & c2' & c3').
    unfold stepH_AB, vmask, vadd, vsub, vmap2; cbn [vx vy vz]. rewrite a1, a2, a3, b1, b2, b3, c1', c2', c3'. repeat split.
  Qed.

  Theorem forward_mats_exec e m s :
    veqB K sc (fE (forward_mats K sc (mats_exec K sc (eta0 K sc) e) (mats_exec K sc (1 / eta0 K sc) m) s)) (fE (forward_lossy K sc e m s)) /\
    veqB K sc (fH (forward_mats K sc (mats_exec K sc (eta0 K sc) e) (mats_exec K sc (1 / eta0 K sc) m) s)) (fH (forward_lossy K sc e m s)) /\
    tstep (forward_mats K sc (mats_exec K sc (eta0 K sc) e) (mats_exec K sc (1 / eta0 K sc) m) s) = tstep (forward_lossy K sc e m s).
  Proof.
    destruct (forward_mats_steps (mats_exec K sc (eta0 K sc) e) (mats_exec K sc (1 / eta0 K sc) m) s) as (he & hh & ht).
    destruct (forward_lossy_steps K sc Hpml e m s) as (he' & hh' & ht').
    pose proof (mats_exec_ok (eta0 K sc) e) as OE. pose proof (mats_exec_ok (1 / eta0 K sc) m) as OM.
    assert (A : veqB K sc (fE (forward_mats K sc (mats_exec K sc (eta0 K sc) e) (mats_exec K sc (1 / eta0 K sc) m) s)) (fE (forward_lossy K sc e m s))).
    { rewrite he, he'. destruct e as [[T sg]|]; cbn [mats_exec mats_fun oeqB tierME tierE] in *.
      - destruct OE as (OA & OB). apply stepE_AB_ceqB; assumption.
      - apply veqB_refl. }
    split; [exact A|]. split; [|rewrite ht, ht'; reflexivity].
    rewrite hh, hh'. destruct m as [[T sg]|]; cbn [mats_exec mats_fun oeqB tierMH tierH] in *.
    - destruct OM as (OA & OB). apply stepH_AB_ceqB; assumption.
    - apply (stepH_extB K sc); [apply veqB_refl | exact A | apply veqB_refl].
  Qed.

  (* the executed step (tabulated state) in the box *)
  Theorem forward_lossyX_in_box e m s i j k : (i < nX)%nat -> (j < nY)%nat -> (k < nZ)%nat ->
    vx (fE (forward_lossyX K sc e m s)) i j k = vx (fE (forward_lossy K sc e m s)) i j k /\
    vy (fE (forward_lossyX K sc e m s)) i j k = vy (fE (forward_lossy K sc e m s)) i j k /\
    vz (fE (forward_lossyX K sc e m s)) i j k = vz (fE (forward_lossy K sc e m s)) i j k /\
    vx (fH (forward_lossyX K sc e m s)) i j k = vx (fH (forward_lossy K sc e m s)) i j k /\
    vy (fH (forward_lossyX K sc e m s)) i j k = vy (fH (forward_lossy K sc e m s)) i j k /\
    vz (fH (forward_lossyX K sc e m s)) i j k = vz (fH (forward_lossy K sc e m s)) i j k /\
    tstep (forward_lossyX K sc e m s) = tstep (forward_lossy K sc e m s).
  Proof.
    intros Hi Hj Hk. destruct (forward_mats_exec e m s) as (HE & HH & HT).
    destruct (HE i j k Hi Hj Hk) as (e1 & e2 & e3). destruct (HH i j k Hi Hj Hk) as (h1 & h2 & h3).
    unfold forward_lossyX, freezeS, freezeV; cbn [fE fH tstep vx vy vz].
    rewrite !freeze_in by assumption. repeat split; assumption.
  Qed.
  Theorem forward_fullX_in_box ie9 im9 s i j k : (i < nX)%nat -> (j < nY)%nat -> (k < nZ)%nat ->
    vx (fE (forward_fullX K sc ie9 im9 s)) i j k = vx (fE (forward_full K sc ie9 im9 s)) i j k /\
    vy (fE (forward_fullX K sc ie9 im9 s)) i j k = vy (fE (forward_full K sc ie9 im9 s)) i j k /\
    vz (fE (forward_fullX K sc ie9 im9 s)) i j k = vz (fE (forward_full K sc ie9 im9 s)) i j k /\
    vx (fH (forward_fullX K sc ie9 im9 s)) i j k = vx (fH (forward_full K sc ie9 im9 s)) i j k /\
    vy (fH (forward_fullX K sc ie9 im9 s)) i j k = vy (fH (forward_full K sc ie9 im9 s)) i j k /\
    vz (fH (forward_fullX K sc ie9 im9 s)) i j k = vz (fH (forward_full K sc ie9 im9 s)) i j k /\
    tstep (forward_fullX K sc ie9 im9 s) = tstep (forward_full K sc ie9 im9 s).
  Proof.
    intros Hi Hj Hk. unfold forward_fullX, freezeS, freezeV; cbn [fE fH tstep vx vy vz].
    rewrite !freeze_in by assumption. repeat split.
  Qed.
End LossyExec.
