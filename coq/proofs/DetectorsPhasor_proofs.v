(* DetectorsPhasor_proofs.v — the phasor detectors compute a windowed DFT (C17). *)
From Coq Require Import List Arith Bool Lia Field Ring.
From FV Require Import base.Scalar base.Sums base.DetectorsBase model.Detectors model.DetectorsPhasor proofs.Detectors_proofs.
Import ListNotations.
Local Open Scope fld_scope.

(* ---------------- order-preserving sublists ---------------- *)
Inductive subseq {A} : list A -> list A -> Prop :=
| ss_nil l : subseq [] l
| ss_take x a l : subseq a l -> subseq (x :: a) (x :: l)
| ss_skip x a l : subseq a l -> subseq a (x :: l).

Lemma subseq_in {A} (a l : list A) x : subseq a l -> In x a -> In x l.
Proof. induction 1; cbn; intros H'; [destruct H' | destruct H' as [->|H']; [left; reflexivity | right; auto] | right; auto]. Qed.

Definition memb (l : list nat) (t : nat) : bool := existsb (Nat.eqb t) l.
Lemma memb_in l t : memb l t = true <-> In t l.
Proof.
  unfold memb. rewrite existsb_exists. split.
  - intros (x & Hx & E). apply Nat.eqb_eq in E. subst. exact Hx.
  - intros H. exists t. split; [exact H | apply Nat.eqb_refl].
Qed.

(* filtering a duplicate-free list by membership in one of its sublists returns that sublist *)
Lemma filter_memb_subseq (a l : list nat) : subseq a l -> NoDup l -> filter (memb a) l = a.
Proof.
  induction 1 as [l | x a l Hs IH | x a l Hs IH]; intros Hnd.
  - induction l as [|y l IHl]; [reflexivity|]. cbn. apply IHl. inversion Hnd; assumption.
  - inversion Hnd as [|? ? Hx Hnd']; subst. cbn [filter]. unfold memb at 1. cbn [existsb]. rewrite Nat.eqb_refl. cbn [orb].
    f_equal. rewrite <- (IH Hnd') at 2. apply filter_ext_in. intros t Ht. unfold memb. cbn [existsb].
    destruct (Nat.eqb t x) eqn:E; [apply Nat.eqb_eq in E; subst; contradiction | reflexivity].
  - inversion Hnd as [|? ? Hx Hnd']; subst. cbn [filter].
    destruct (memb a x) eqn:E.
    + apply memb_in in E. exfalso. apply Hx. eapply subseq_in; eauto.
    + apply IH. exact Hnd'.
Qed.

Lemma every_nth_filter_subseq on s : forall l c, subseq (every_nth_aux s c (filter on l)) l.
Proof.
  induction l as [|x l IH]; intros c; cbn; [constructor|].
  destruct (on x); cbn.
  - destruct c; [apply ss_take | apply ss_skip]; apply IH.
  - apply ss_skip. apply IH.
Qed.
Lemma filter_subseq {A} (p : A -> bool) l : subseq (filter p l) l.
Proof. induction l as [|x l IH]; cbn; [constructor|]. destruct (p x); [apply ss_take | apply ss_skip]; exact IH. Qed.

Lemma kept_steps_subseq T on stride : subseq (kept_steps T on stride) (seq 0 T).
Proof. unfold kept_steps, active_steps, every_nth. destruct (Nat.leb stride 1); [apply filter_subseq | apply every_nth_filter_subseq]. Qed.

(* the on-array of the (thinned) detector selects exactly the kept steps, in order *)
Lemma filter_kept_on T on stride : filter (kept_on T on stride) (seq 0 T) = kept_steps T on stride.
Proof. apply (filter_memb_subseq (kept_steps T on stride) (seq 0 T)); [apply kept_steps_subseq | apply seq_NoDup]. Qed.

(* active[::stride]: the j-th kept element is the (j*stride)-th active one *)
Lemma every_nth_aux_nth s d : (1 <= s)%nat -> forall l c j, nth j (every_nth_aux s c l) d = nth (c + j * s) l d.
Proof.
  intros Hs. induction l as [|x l IH]; intros c j; cbn [every_nth_aux].
  - assert (N : forall m, nth m (@nil nat) d = d) by (destruct m; reflexivity). rewrite !N. reflexivity.
  - destruct c as [|c].
    + destruct j as [|j]; [reflexivity|]. cbn [nth]. rewrite IH. cbn [Nat.add Nat.mul].
      replace (s + j * s)%nat with (S (Nat.pred s + j * s)) by lia. reflexivity.
    + rewrite IH. reflexivity.
Qed.
Theorem every_nth_nth s l j d : (1 <= s)%nat -> nth j (every_nth s l) d = nth (j * s) l d.
Proof. intros Hs. unfold every_nth. rewrite every_nth_aux_nth by exact Hs. reflexivity. Qed.

Section PhasorProofs.
  Variable K : Fld.
  Add Field KF_php : (Fth K).
  Notation F := (car K).
  Notation Cx := (Cx K).
  Notation Vec := (Vec K).

  Lemma gated_run_filter {S : Type} (upd : S -> nat -> S) (kept : nat -> bool) : forall l st0,
    fold_left (fun st t => if kept t then upd st t else st) l st0 = fold_left upd (filter kept l) st0.
  Proof. induction l as [|t l IH]; intros st0; cbn; [reflexivity|]. destruct (kept t); cbn; apply IH. Qed.

  (* simulation between two gated runs *)
  Lemma gated_run_rel {S1 S2 : Type} (R : S1 -> S2 -> Prop) (u1 : S1 -> nat -> S1) (u2 : S2 -> nat -> S2) T (kept : nat -> bool) s1 s2 :
    R s1 s2 -> (forall a b t, R a b -> R (u1 a t) (u2 b t)) -> R (gated_run u1 T kept s1) (gated_run u2 T kept s2).
  Proof.
    unfold gated_run. generalize (seq 0 T). intros l. revert s1 s2.
    induction l as [|t l IH]; intros s1 s2 H0 Hstep; cbn; [exact H0|].
    apply IH; [|exact Hstep]. destruct (kept t); [apply Hstep|]; exact H0.
  Qed.

  (* sum over a time range with an on-mask = sum over the filtered list *)
  Lemma sumn_mask_lsum (g : nat -> F) (p : nat -> bool) T :
    sumn T (fun t => g t * (if p t then 1 else 0)) = lsum (map g (filter p (seq 0 T))).
  Proof.
    induction T as [|T IH]; [reflexivity|]. rewrite seq_S, filter_app, map_app, lsum_app. cbn [sumn Nat.add]. rewrite IH.
    cbn [filter]. destruct (p T); cbn [map lsum]; ring.
  Qed.

  Lemma clsum_scale (sc : F) (x w : nat -> F) (e : nat -> Cx) l :
    clsum (map (fun t => cscal (x t * sc * w t) (e t)) l) = cscal sc (clsum (map (fun t => cscal (w t * x t) (e t)) l)).
  Proof. induction l as [|t l IH]; cbn [map clsum]; [apply cx_eq; cbn; ring|]. rewrite IH. apply cx_eq; cbn; ring. Qed.

  Lemma map_ext_in_c {A B} (f g : A -> B) l : (forall x, In x l -> f x = g x) -> map f l = map g l.
  Proof. apply map_ext_in. Qed.

  Section Run.
    Variables (T : nat) (on : nat -> bool) (stride : nat) (pulse : bool) (apod : nat -> F).
    Variables (sel : list nat) (fldE fldH : nat -> Vec) (e : nat -> nat -> Cx).
    Let ks := kept_steps T on stride.

    Lemma win_on_kept t : In t ks -> win T on stride apod t = apod t.
    Proof.
      intros Hin. unfold win, window_arr, kept. replace (kept_on T on stride t) with true; [ring|].
      symmetry. apply memb_in. exact Hin.
    Qed.
    Lemma window_sum_kept : window_sum T (win T on stride apod) = lsum (map apod ks).
    Proof.
      unfold window_sum, win, window_arr. rewrite sumn_mask_lsum. unfold kept. rewrite filter_kept_on. reflexivity.
    Qed.

    (* C17: the accumulated phasor = scale * sum over the kept steps of window * field * phase *)
    Theorem phasor_fold_eq_sum f r i j k :
      phasor_detector_run T on stride pulse false apod sel fldE fldH e (fun _ _ _ _ _ => c0) f r i j k
      = cscal (if pulse then natF (Nat.max 1 stride) else (1 + 1) / lsum (map apod ks))
              (clsum (map (fun t => cscal (apod t * field_spatial sel (fldE t) (fldH t) r i j k) (e t f)) ks)).
    Proof.
      unfold phasor_detector_run, gated_run. rewrite gated_run_filter. unfold kept. rewrite filter_kept_on. fold ks.
      pose proof (phasor_run_spatial_sum K sel fldE fldH e (scale T on stride pulse apod) (win T on stride apod) false ks
                    (fun _ _ _ _ _ => c0) f r i j k) as P.
      unfold phasor_run_spatial in P. rewrite P. clear P. rewrite cadd_0_l.
      unfold contrib, phasor_new.
      rewrite (map_ext_in_c _ (fun t => cscal (field_spatial sel (fldE t) (fldH t) r i j k * scale T on stride pulse apod * apod t) (e t f))).
      2:{ intros t Ht. rewrite win_on_kept by exact Ht. reflexivity. }
      rewrite (clsum_scale (scale T on stride pulse apod) (fun t => field_spatial sel (fldE t) (fldH t) r i j k) apod (fun t => e t f)).
      unfold scale, static_scale. rewrite window_sum_kept. reflexivity.
    Qed.

    (* inverse detectors accumulate the negated sum *)
    Theorem phasor_fold_inverse f r i j k :
      phasor_detector_run T on stride pulse true apod sel fldE fldH e (fun _ _ _ _ _ => c0) f r i j k
      = copp (phasor_detector_run T on stride pulse false apod sel fldE fldH e (fun _ _ _ _ _ => c0) f r i j k).
    Proof.
      unfold phasor_detector_run, gated_run. rewrite !gated_run_filter.
      pose proof (phasor_inverse_from_zero K sel fldE fldH e (scale T on stride pulse apod) (win T on stride apod)
                    (filter (kept T on stride) (seq 0 T)) f r i j k) as P.
      unfold phasor_run_spatial in P. exact P.
    Qed.

    (* repaired closed-surface detector: every stored face is the boundary plane of the PhasorDetector state *)
    Theorem closed_face_is_slice inverse n a side st0F st0S :
      (forall f r i j k, st0F f r i j k = slice_face a (face_pos n a side) (st0S f r) i j k) ->
      forall f r i j k,
        closed_face_run true T on stride pulse inverse apod n a side fldE fldH e st0F f r i j k
        = slice_face a (face_pos n a side)
            (phasor_detector_run T on stride pulse inverse apod [0; 1; 2; 3; 4; 5]%nat fldE fldH e st0S f r) i j k.
    Proof.
      intros H0. unfold closed_face_run, phasor_detector_run.
      apply (gated_run_rel (fun (sF sS : PhS K) => forall f r i j k, sF f r i j k = slice_face a (face_pos n a side) (sS f r) i j k)); [exact H0|].
      intros sF sS t HR f r i j k. unfold closed_face_update, phasor_update_spatial. rewrite HR.
      destruct a as [|[|a]], inverse; reflexivity.
    Qed.
  End Run.

  (* plane Poynting phasor detector: (1/2 in continuous mode) * sum of area * (+/-) Re(E x conj H)_pa *)
  Theorem phasor_poynting_flux_spec (g : Grid K) lo n pa minus continuous (P : nat -> nat -> nat -> nat -> Cx) :
    phasor_poynting_flux n (pf_weights_single g lo n pa) pa minus continuous P
    = (if continuous then half K else 1) *
      sum3s n (fun i j k => sgn minus (phasor_poynting P pa i j k) *
                 match pa with
                 | 0 => wy g (oy lo j) * wz g (oz lo k)
                 | 1 => wx g (ox lo i) * wz g (oz lo k)
                 | _ => wx g (ox lo i) * wy g (oy lo j)
                 end).
  Proof.
    unfold phasor_poynting_flux, pf_weights_single.
    rewrite (sum3s_ext K n _ (fun i j k => sgn minus (phasor_poynting P pa i j k) *
                 match pa with 0 => wy g (oy lo j) * wz g (oz lo k) | 1 => wx g (ox lo i) * wz g (oz lo k) | _ => wx g (ox lo i) * wy g (oy lo j) end)).
    - destruct continuous; ring.
    - intros i j k Hi Hj Hk. rewrite sget_face_area by assumption. reflexivity.
  Qed.
  (* the Poynting phasor is Re(E x conj H): real-part formula of the complex cross product *)
  Theorem phasor_poynting_is_re_cross (P : nat -> nat -> nat -> nat -> Cx) i j k :
    phasor_poynting P 0 i j k = fst (csub (cmul (P 1%nat i j k) (cconj (P 5%nat i j k))) (cmul (P 2%nat i j k) (cconj (P 4%nat i j k)))) /\
    phasor_poynting P 1 i j k = fst (csub (cmul (P 2%nat i j k) (cconj (P 3%nat i j k))) (cmul (P 0%nat i j k) (cconj (P 5%nat i j k)))) /\
    phasor_poynting P 2 i j k = fst (csub (cmul (P 0%nat i j k) (cconj (P 4%nat i j k))) (cmul (P 1%nat i j k) (cconj (P 3%nat i j k)))).
  Proof. unfold phasor_poynting, re_mul_conj. repeat split; cbn; ring. Qed.
End PhasorProofs.

(* the unchanged closed-surface update (window weight omitted) does not store the windowed phasor *)
Lemma closed_face_src_old_refuted :
  exists (apod : nat -> QcF) (E H : nat -> Vec QcF) (e : nat -> nat -> Cx QcF),
    closed_face_run false 2 (fun _ => true) 1 false false apod (2, 2, 2)%nat 0 false E H e (fun _ _ _ _ _ => c0) 0%nat 0%nat 0%nat 0%nat 0%nat
    <> slice_face 0 0 (phasor_detector_run 2 (fun _ => true) 1 false false apod [0; 1; 2; 3; 4; 5]%nat E H e (fun _ _ _ _ _ => c0) 0%nat 0%nat) 0%nat 0%nat 0%nat.
Proof.
  exists (fun t => match t with O => f1 QcF | _ => half QcF end), (fun _ _ _ _ _ => f1 QcF), (fun _ _ _ _ _ => f1 QcF), (fun _ _ => (f1 QcF, f0 QcF)).
  vm_compute. discriminate.
Qed.
