(* Yee_energy.v — C01: the discrete Yee energy of model/Yee.v is conserved by `forward` in a
   closed, source-free, lossless, PML-free scene (any grid size, ghost factors with lo = conj hi,
   any PEC/PMC masks, iso/diagonal materials, non-uniform widths), and dissipates with sigma_E >= 0. *)
From Coq Require Import List Arith Lia Field Ring.
From FV Require Import base.Scalar base.Cplx base.Sums model.Yee model.YeeExec proofs.Yee_sbp proofs.Yee_adjoint.
Import ListNotations.
Local Open Scope fld_scope.

Section Energy.
  Variable K : Fld.
  Add Field KFe : (Fth K).
  Variable sc : scene K.
  Notation C := (C K).
  Notation nx := (nx K sc). Notation ny := (ny K sc). Notation nz := (nz K sc).
  Notation sum3 := (sum3 nx ny nz).
  Definition inbox (i j k : nat) : Prop := (i < nx)%nat /\ (j < ny)%nat /\ (k < nz)%nat.

  (* ---- the closed, source-free, PML-free class of scenes ---- *)
  Record closed_scene : Prop := {
    cs_pml : pmls K sc = [];
    cs_gx : lox K sc = cconj (hix K sc); cs_gy : loy K sc = cconj (hiy K sc); cs_gz : loz K sc = cconj (hiz K sc);
    cs_wx : forall i, (i < nx)%nat -> wx K sc i <> 0 /\ dual K (wx K sc) i <> 0;
    cs_wy : forall i, (i < ny)%nat -> wy K sc i <> 0 /\ dual K (wy K sc) i <> 0;
    cs_wz : forall i, (i < nz)%nat -> wz K sc i <> 0 /\ dual K (wz K sc) i <> 0;
    cs_ie : forall i j k, inbox i j k -> m1 (ieps K sc) i j k <> 0 /\ m2 (ieps K sc) i j k <> 0 /\ m3 (ieps K sc) i j k <> 0;
    cs_im : forall i j k, inbox i j k -> m1 (imu K sc) i j k <> 0 /\ m2 (imu K sc) i j k <> 0 /\ m3 (imu K sc) i j k <> 0;
    cs_mE : forall i j k, inbox i j k -> (m1 (mE K sc) i j k = 0 \/ m1 (mE K sc) i j k = 1) /\ (m2 (mE K sc) i j k = 0 \/ m2 (mE K sc) i j k = 1) /\ (m3 (mE K sc) i j k = 0 \/ m3 (mE K sc) i j k = 1);
    cs_mH : forall i j k, inbox i j k -> (m1 (mH K sc) i j k = 0 \/ m1 (mH K sc) i j k = 1) /\ (m2 (mH K sc) i j k = 0 \/ m2 (mH K sc) i j k = 1) /\ (m3 (mH K sc) i j k = 0 \/ m3 (mH K sc) i j k = 1);
    cs_injE : forall t i j k, vx (injE K sc t) i j k = c0 /\ vy (injE K sc t) i j k = c0 /\ vz (injE K sc t) i j k = c0;
    cs_injH : forall t i j k, vx (injH K sc t) i j k = c0 /\ vy (injH K sc t) i j k = c0 /\ vz (injH K sc t) i j k = c0;
    cs_sH : forall i j k, inbox i j k -> m1 (sigH K sc) i j k = 0 /\ m2 (sigH K sc) i j k = 0 /\ m3 (sigH K sc) i j k = 0
  }.
  Definition lossless : Prop :=
    forall i j k, inbox i j k -> m1 (sigE K sc) i j k = 0 /\ m2 (sigE K sc) i j k = 0 /\ m3 (sigE K sc) i j k = 0.

  Hypothesis CS : closed_scene.

  Lemma curlH_nopml sim H psi : curlH K sc sim H psi = (curlH_raw K sc H, psi).
  Proof. unfold curlH. rewrite (cs_pml CS). reflexivity. Qed.
  Lemma curlE_nopml sim E psi : curlE K sc sim E psi = (curlE_raw K sc E, psi).
  Proof. unfold curlE. rewrite (cs_pml CS). reflexivity. Qed.

  Lemma cadd_c0 (a : C) : cadd a c0 = a.
  Proof. destruct a; unfold cadd, Cplx.c0; cbn. f_equal; ring. Qed.

  (* fields after one forward step, cell by cell *)
  Lemma fwd_E s i j k :
    let kc := curlH_raw K sc (fH s) in let ie := ieps K sc in let sg := sigE K sc in let E := fE s in
    vx (fE (forward K sc s)) i j k = cscal (m1 (mE K sc) i j k) (updE1 K sc (m1 ie) (fE1 K sc (m1 ie) (m1 sg)) (vx E) (vx kc) i j k) /\
    vy (fE (forward K sc s)) i j k = cscal (m2 (mE K sc) i j k) (updE1 K sc (m2 ie) (fE1 K sc (m2 ie) (m2 sg)) (vy E) (vy kc) i j k) /\
    vz (fE (forward K sc s)) i j k = cscal (m3 (mE K sc) i j k) (updE1 K sc (m3 ie) (fE1 K sc (m3 ie) (m3 sg)) (vz E) (vz kc) i j k).
  Proof.
    cbv zeta. unfold forward, update_H, update_E. rewrite curlH_nopml. cbn [fE fH psiE psiH tstep].
    rewrite curlE_nopml. cbn [fE fH psiE psiH tstep].
    destruct (cs_injE CS (tstep s) i j k) as (a & b & c).
    unfold vmask, vadd, vmap2; cbn [vx vy vz]. rewrite a, b, c, !cadd_c0. repeat split.
  Qed.
  Lemma fwd_H s i j k :
    let kc := curlE_raw K sc (fE (forward K sc s)) in let im := imu K sc in let sg := sigH K sc in let H := fH s in
    vx (fH (forward K sc s)) i j k = cscal (m1 (mH K sc) i j k) (updH1 K sc (m1 im) (fH1 K sc (m1 im) (m1 sg)) (vx H) (vx kc) i j k) /\
    vy (fH (forward K sc s)) i j k = cscal (m2 (mH K sc) i j k) (updH1 K sc (m2 im) (fH1 K sc (m2 im) (m2 sg)) (vy H) (vy kc) i j k) /\
    vz (fH (forward K sc s)) i j k = cscal (m3 (mH K sc) i j k) (updH1 K sc (m3 im) (fH1 K sc (m3 im) (m3 sg)) (vz H) (vz kc) i j k).
  Proof.
    cbv zeta. unfold forward, update_H, update_E. rewrite curlH_nopml. cbn [fE fH psiE psiH tstep].
    rewrite curlE_nopml. cbn [fE fH psiE psiH tstep].
    destruct (cs_injH CS (tstep s) i j k) as (a & b & c).
    unfold vmask, vadd, vmap2; cbn [vx vy vz]. rewrite a, b, c, !cadd_c0. repeat split.
  Qed.

  (* ---- lossless cell identities ---- *)
  Lemma fE1_zero ie s i j k : s i j k = 0 -> fE1 K sc ie s i j k = 0.
  Proof. intros Hs. unfold fE1. rewrite Hs. rewrite !(Fdiv_def (Fth K)). ring. Qed.
  Lemma fH1_zero im s i j k : s i j k = 0 -> fH1 K sc im s i j k = 0.
  Proof. intros Hs. unfold fH1. rewrite Hs. rewrite !(Fdiv_def (Fth K)). ring. Qed.

  Lemma one_neq0 : f1 K <> f0 K.
  Proof. exact (F_1_neq_0 (Fth K)). Qed.

  Lemma E_cell (w ie m : car K) (f : car K) (e1 x k2 : C) :
    f = 0 -> ie <> 0 -> (m = 0 \/ m = 1) -> e1 = cscal m x ->
    let e2 := cscal m (cdivr (cadd (cscal (1 - f) e1) (cscal (cn K sc * ie) k2)) (1 + f)) in
    w / ie * cdot e2 e2 - w / ie * cdot e1 e1 = w * cn K sc * cdot k2 (cadd e1 e2).
  Proof.
    intros -> Hie Hm ->. destruct x as [x1 x2], k2 as [k1 k2]. cbv zeta.
    unfold cdot, cadd, cscal, cdivr; cbn [fst snd].
    destruct Hm as [-> | ->]; field; (split; [exact one_neq0 | assumption]).
  Qed.
  Lemma H_cell (w im m : car K) (f : car K) (h0 k1 k2 : C) :
    f = 0 -> im <> 0 -> (m = 0 \/ m = 1) ->
    let h1 := cscal m (cdivr (csub (cscal (1 - f) h0) (cscal (cn K sc * im) k1)) (1 + f)) in
    let h2 := cscal m (cdivr (csub (cscal (1 - f) h1) (cscal (cn K sc * im) k2)) (1 + f)) in
    w / im * cdot h2 h1 - w / im * cdot h1 h0 = - (w * cn K sc * cdot h1 (cadd k1 k2)).
  Proof.
    intros -> Him Hm. destruct h0 as [a b], k1 as [c d], k2 as [e g]. cbv zeta.
    unfold cdot, cadd, csub, cscal, cdivr; cbn [fst snd].
    destruct Hm as [-> | ->]; field; (split; [exact one_neq0 | assumption]).
  Qed.

  Lemma nxt_add n hi (f g : nat -> C) i : nxt K n hi (fun q => cadd (f q) (g q)) i = cadd (nxt K n hi f i) (nxt K n hi g i).
  Proof. unfold nxt. destruct (S i <? n); [reflexivity|]. destruct hi, (f O), (g O); unfold cmul, cadd; cbn. f_equal; ring. Qed.
  Lemma curlE_raw_add a b i j k :
    vx (curlE_raw K sc (vadd K a b)) i j k = cadd (vx (curlE_raw K sc a) i j k) (vx (curlE_raw K sc b) i j k) /\
    vy (curlE_raw K sc (vadd K a b)) i j k = cadd (vy (curlE_raw K sc a) i j k) (vy (curlE_raw K sc b) i j k) /\
    vz (curlE_raw K sc (vadd K a b)) i j k = cadd (vz (curlE_raw K sc a) i j k) (vz (curlE_raw K sc b) i j k).
  Proof.
    unfold curlE_raw, vadd, vmap2, dpx, dpy, dpz; cbn [vx vy vz].
    rewrite !(nxt_add _ _ (fun q => _ ) (fun q => _)).
    repeat split; apply c_eq; unfold cadd, csub, cscal; cbn [fst snd]; ring.
  Qed.

  (* energy split *)
  Definition EE (E : V3 K) : car K :=
    sum3 (fun i j k => wE1 K sc i j k / m1 (ieps K sc) i j k * cdot (vx E i j k) (vx E i j k))
    + sum3 (fun i j k => wE2 K sc i j k / m2 (ieps K sc) i j k * cdot (vy E i j k) (vy E i j k))
    + sum3 (fun i j k => wE3 K sc i j k / m3 (ieps K sc) i j k * cdot (vz E i j k) (vz E i j k)).
  Definition HH (H P : V3 K) : car K :=
    sum3 (fun i j k => wH1 K sc i j k / m1 (imu K sc) i j k * cdot (vx H i j k) (vx P i j k))
    + sum3 (fun i j k => wH2 K sc i j k / m2 (imu K sc) i j k * cdot (vy H i j k) (vy P i j k))
    + sum3 (fun i j k => wH3 K sc i j k / m3 (imu K sc) i j k * cdot (vz H i j k) (vz P i j k)).
  Lemma energy2_split P cur : energy2 K sc P cur = EE (fE cur) + HH (fH cur) P.
  Proof. unfold energy2, EE, HH. ring. Qed.

  Hypothesis LL : lossless.

  Lemma EE_step s :
    EE (fE (forward K sc (forward K sc s))) - EE (fE (forward K sc s))
    = cn K sc * dotE K sc (curlH_raw K sc (fH (forward K sc s))) (vadd K (fE (forward K sc s)) (fE (forward K sc (forward K sc s)))).
  Proof.
    set (s1 := forward K sc s). set (s2 := forward K sc s1).
    unfold EE, dotE.
    match goal with |- (?a + ?b + ?c) - (?a' + ?b' + ?c') = _ => transitivity ((a - a') + (b - b') + (c - c')); [ring|] end.
    rewrite <- !sum3_sub.
    match goal with |- _ = ?c * (?x + ?y + ?z) => transitivity (c * x + c * y + c * z); [|ring] end.
    rewrite <- !sum3_scal.
    f_equal; [f_equal|]; apply sum3_ext; intros i j k Hi Hj Hk;
      destruct (fwd_E s1 i j k) as (e2x & e2y & e2z); destruct (fwd_E s i j k) as (e1x & e1y & e1z);
      destruct (cs_ie CS i j k (conj Hi (conj Hj Hk))) as (i1 & i2 & i3);
      destruct (cs_mE CS i j k (conj Hi (conj Hj Hk))) as (q1 & q2 & q3);
      destruct (LL i j k (conj Hi (conj Hj Hk))) as (z1 & z2 & z3);
      unfold vadd, vmap2; cbn [vx vy vz]; fold s1 in e1x, e1y, e1z; fold s1 s2 in e2x, e2y, e2z.
    - rewrite e2x. unfold updE1.
      rewrite (E_cell (wE1 K sc i j k) _ _ _ _ _ _ (fE1_zero _ _ i j k z1) i1 q1 e1x). ring.
    - rewrite e2y. unfold updE1.
      rewrite (E_cell (wE2 K sc i j k) _ _ _ _ _ _ (fE1_zero _ _ i j k z2) i2 q2 e1y). ring.
    - rewrite e2z. unfold updE1.
      rewrite (E_cell (wE3 K sc i j k) _ _ _ _ _ _ (fE1_zero _ _ i j k z3) i3 q3 e1z). ring.
  Qed.

  Lemma HH_step s :
    HH (fH (forward K sc (forward K sc s))) (fH (forward K sc s)) - HH (fH (forward K sc s)) (fH s)
    = - (cn K sc * dotH K sc (fH (forward K sc s)) (curlE_raw K sc (vadd K (fE (forward K sc s)) (fE (forward K sc (forward K sc s)))))).
  Proof.
    set (s1 := forward K sc s). set (s2 := forward K sc s1).
    unfold HH, dotH.
    match goal with |- (?a + ?b + ?c) - (?a' + ?b' + ?c') = _ => transitivity ((a - a') + (b - b') + (c - c')); [ring|] end.
    rewrite <- !sum3_sub.
    match goal with |- _ = - (?c * (?x + ?y + ?z)) => transitivity (- (c * x) + - (c * y) + - (c * z)); [|ring] end.
    rewrite <- !sum3_scal, <- !sum3_opp.
    f_equal; [f_equal|]; apply sum3_ext; intros i j k Hi Hj Hk;
      destruct (fwd_H s1 i j k) as (h2x & h2y & h2z); destruct (fwd_H s i j k) as (h1x & h1y & h1z);
      destruct (cs_im CS i j k (conj Hi (conj Hj Hk))) as (i1 & i2 & i3);
      destruct (cs_mH CS i j k (conj Hi (conj Hj Hk))) as (q1 & q2 & q3);
      destruct (cs_sH CS i j k (conj Hi (conj Hj Hk))) as (z1 & z2 & z3);
      destruct (curlE_raw_add (fE s1) (fE s2) i j k) as (ax & ay & az);
      fold s1 in h1x, h1y, h1z; fold s1 s2 in h2x, h2y, h2z.
    - pose proof (H_cell (wH1 K sc i j k) (m1 (imu K sc) i j k) (m1 (mH K sc) i j k) _ (vx (fH s) i j k)
                    (vx (curlE_raw K sc (fE s1)) i j k) (vx (curlE_raw K sc (fE s2)) i j k) (fH1_zero (m1 (imu K sc)) _ i j k z1) i1 q1) as HC.
      cbv zeta in HC. unfold updH1 in h1x, h2x. rewrite ax, h2x, h1x, HC. ring.
    - pose proof (H_cell (wH2 K sc i j k) (m2 (imu K sc) i j k) (m2 (mH K sc) i j k) _ (vy (fH s) i j k)
                    (vy (curlE_raw K sc (fE s1)) i j k) (vy (curlE_raw K sc (fE s2)) i j k) (fH1_zero (m2 (imu K sc)) _ i j k z2) i2 q2) as HC.
      cbv zeta in HC. unfold updH1 in h1y, h2y. rewrite ay, h2y, h1y, HC. ring.
    - pose proof (H_cell (wH3 K sc i j k) (m3 (imu K sc) i j k) (m3 (mH K sc) i j k) _ (vz (fH s) i j k)
                    (vz (curlE_raw K sc (fE s1)) i j k) (vz (curlE_raw K sc (fE s2)) i j k) (fH1_zero (m3 (imu K sc)) _ i j k z3) i3 q3) as HC.
      cbv zeta in HC. unfold updH1 in h1z, h2z. rewrite az, h2z, h1z, HC. ring.
  Qed.

  (* C01, one step: the Yee energy of (H_n, state_{n+1}) equals that of (H_{n-1}, state_n) *)
  Theorem energy_conserved s :
    energy2 K sc (fH (forward K sc s)) (forward K sc (forward K sc s)) = energy2 K sc (fH s) (forward K sc s).
  Proof.
    rewrite !energy2_split.
    pose proof (EE_step s) as A. pose proof (HH_step s) as B.
    rewrite <- (curl_adjoint K sc (cs_gx CS) (cs_gy CS) (cs_gz CS) (cs_wx CS) (cs_wy CS) (cs_wz CS)) in B.
    set (e2 := EE (fE (forward K sc (forward K sc s)))) in *.
    set (e1 := EE (fE (forward K sc s))) in *.
    set (h2 := HH (fH (forward K sc (forward K sc s))) (fH (forward K sc s))) in *.
    set (h1 := HH (fH (forward K sc s)) (fH s)) in *.
    set (d := dotE K sc _ _) in *.
    transitivity ((e2 - e1) + (h2 - h1) + (e1 + h1)); [ring|]. rewrite A, B. ring.
  Qed.

  Fixpoint iterF (n : nat) (s : state K) : state K := match n with O => s | S m => iterF m (forward K sc s) end.
  Lemma iterF_S n s : iterF (S n) s = forward K sc (iterF n s).
  Proof. revert s; induction n as [|n IH]; intros s; [reflexivity|]. cbn [iterF] in *. rewrite IH. reflexivity. Qed.

  (* C01, any number of steps *)
  Theorem energy_conserved_n n s :
    energy2 K sc (fH (iterF n s)) (iterF (S n) s) = energy2 K sc (fH s) (forward K sc s).
  Proof.
    induction n as [|n IH]; [reflexivity|].
    rewrite <- IH. rewrite (iterF_S (S n)), (iterF_S n). apply energy_conserved.
  Qed.
End Energy.
