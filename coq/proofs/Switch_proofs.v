(* Switch_proofs.v — lemmas about model/Switch.v (C14). *)
From Coq Require Import ZArith List Bool Lia.
From FV Require Import base.Scalar base.PyNum base.RecorderBase model.Switch.
Import ListNotations.
Open Scope Z_scope.

(* ------------------------------------------------------------------ list helpers *)
Lemma set_at_length' {A} (l : list A) i v : length (set_at l i v) = length l.
Proof. revert i; induction l as [|h t IH]; intros [|i]; cbn; auto. Qed.
Lemma nth_set_at_same' {A} (l : list A) i v d : (i < length l)%nat -> nth i (set_at l i v) d = v.
Proof. revert i; induction l as [|h t IH]; intros [|i] H; cbn in *; try lia; auto. apply IH; lia. Qed.
Lemma nth_set_at_other' {A} (l : list A) i j v d : i <> j -> nth j (set_at l i v) d = nth j l d.
Proof. revert i j; induction l as [|h t IH]; intros [|i] [|j] H; cbn; auto; try lia. Qed.
Lemma zset_length' {A} (l : list A) i v : length (zset l i v) = length l.
Proof. unfold zset. destruct (i <? 0); [reflexivity | apply set_at_length']. Qed.
Lemma znth_zset_same' {A} (l : list A) i v d : 0 <= i < Z.of_nat (length l) -> znth (zset l i v) i d = v.
Proof. intros H. unfold znth, zset. destruct (Z.ltb_spec i 0); [lia|]. apply nth_set_at_same'. lia. Qed.
Lemma znth_zset_other' {A} (l : list A) i j v d : i <> j -> znth (zset l i v) j d = znth l j d.
Proof.
  intros H. unfold znth, zset. destruct (Z.ltb_spec j 0); [reflexivity|].
  destruct (Z.ltb_spec i 0); [reflexivity|]. apply nth_set_at_other'. lia.
Qed.
Lemma znth_nonneg' {A} (l : list A) t d : 0 <= t -> znth l t d = nth (Z.to_nat t) l d.
Proof. intros H. unfold znth. destruct (Z.ltb_spec t 0); [lia | reflexivity]. Qed.
Lemma znth_of_nat' {A} (l : list A) t d : znth l (Z.of_nat t) d = nth t l d.
Proof. rewrite znth_nonneg' by lia. rewrite Nat2Z.id. reflexivity. Qed.
Lemma nth_repeat_same' {A} (x : A) n i : nth i (repeat x n) x = x.
Proof. revert i; induction n as [|n IH]; intros [|i]; cbn; auto. Qed.
Lemma nth_map_seq_Z n i : (i < n)%nat -> nth i (map Z.of_nat (seq 0 n)) 0 = Z.of_nat i.
Proof.
  intros H. assert (G : forall a m j, (j < m)%nat -> nth j (map Z.of_nat (seq a m)) 0 = Z.of_nat (a + j)).
  { intros a m; revert a; induction m as [|m IH]; intros a j Hj; [lia|]. cbn. destruct j as [|j].
    - rewrite Nat.add_0_r. reflexivity.
    - rewrite IH by lia. f_equal. lia. }
  apply (G O n i H).
Qed.

(* ------------------------------------------------------------------ the documented window rule *)
Section Window.
  Variable K : OFld.
  Local Open Scope fld_scope.
  Notation switch := (switch K).

  Definition opt1 (o : option K) : list K := match o with Some x => [x] | None => [] end.
  Definition opt2 (f : K -> K -> K) (a b : option K) : list K :=
    match a, b with Some x, Some y => [f x y] | _, _ => [] end.
  Definition mulp (per : option K) (o : option K) : option K :=
    match o, per with Some a, Some p => Some (a * p) | _, _ => None end.

  (* every way of specifying the start / the end, with the value it denotes *)
  Definition start_specs (sw : switch) : list K :=
    let per := period sw in
    opt1 (start_time sw) ++ opt1 (mulp per (start_after_periods sw))
    ++ opt2 (fun e d => e - d) (end_time sw) (on_for_time sw)
    ++ opt2 (fun e d => e - d) (end_time sw) (mulp per (on_for_periods sw))
    ++ opt2 (fun e d => e - d) (mulp per (end_after_periods sw)) (on_for_time sw)
    ++ opt2 (fun e d => e - d) (mulp per (end_after_periods sw)) (mulp per (on_for_periods sw)).
  Definition end_specs (sw : switch) (dflt_start : option K) : list K :=
    let per := period sw in
    let st := match start_time sw with Some x => Some x | None => dflt_start end in
    opt1 (end_time sw) ++ opt1 (mulp per (end_after_periods sw))
    ++ opt2 (fun s d => s + d) st (on_for_time sw)
    ++ opt2 (fun s d => s + d) st (mulp per (on_for_periods sw))
    ++ opt2 (fun s d => s + d) (mulp per (start_after_periods sw)) (on_for_time sw)
    ++ opt2 (fun s d => s + d) (mulp per (start_after_periods sw)) (mulp per (on_for_periods sw)).
  Definition need_period (sw : switch) : bool :=
    (isS (start_after_periods sw) || isS (end_after_periods sw) || isS (on_for_periods sw)) && negb (isS (period sw)).

  (* the window [lo, hi]: exactly one start specification or the default 0, exactly one end specification
     (an on-duration counts from the default start when no start is specified) or the default +infinity *)
  Definition window (sw : switch) : sres (K * ext K) :=
    if need_period sw then ErrNeedPeriod else
    match start_specs sw with
    | _ :: _ :: _ => ErrStartSpec
    | ss =>
      let dflt := match ss with [] => Some 0 | _ => None end in
      let lo := match ss with [x] => x | _ => 0 end in
      match end_specs sw dflt with
      | _ :: _ :: _ => ErrEndSpec
      | [x] => SOk (lo, Fin x)
      | [] => SOk (lo, PInf)
      end
    end.

  Theorem on_iff_window (sw : switch) (tp : K) :
    is_always_off sw = false ->
    is_on_at_time_step K sw tp =
    sbind (window sw) (fun w => SOk (fleb K (fst w) tp && ext_geb K (snd w) tp)).
  Proof.
    intros Hoff. unfold is_on_at_time_step, window, need_period, start_specs, end_specs. rewrite Hoff.
    destruct sw as [st sap et eap oft ofp per fx off iv]. cbn [Switch.start_time Switch.start_after_periods Switch.end_time
      Switch.end_after_periods Switch.on_for_time Switch.on_for_periods Switch.period] in *.
    destruct st, sap, et, eap, oft, ofp, per; reflexivity.
  Qed.

  Theorem always_off_never_on (sw : switch) tp : is_always_off sw = true -> is_on_at_time_step K sw tp = SOk false.
  Proof. intros H. unfold is_on_at_time_step. rewrite H. reflexivity. Qed.
End Window.

(* ------------------------------------------------------------------ on-list *)
Section OnList.
  Variable K : OFld.
  Notation switch := (switch K).

  Lemma on_steps_spec (sw : switch) dt ts l :
    on_steps K sw dt ts = SOk l ->
    length l = length ts /\ forall i, (i < length ts)%nat -> on_step K sw dt (nth i ts 0) = SOk (nth i l false).
  Proof.
    revert l; induction ts as [|t r IH]; intros l H; cbn in H.
    - inversion H; subst. split; [reflexivity | cbn; intros; lia].
    - destruct (on_step K sw dt t) as [b| | | | | |] eqn:E; cbn in H; try discriminate.
      destruct (on_steps K sw dt r) as [l'| | | | | |] eqn:E'; cbn in H; try discriminate.
      inversion H; subst. destruct (IH l' eq_refl) as [L A]. split; [cbn; lia|].
      intros [|i] Hi; cbn; [exact E | apply A; cbn in Hi; lia].
  Qed.

  (* parameter-driven schedule: entry t is "inside the window and t is a multiple of the interval" *)
  Theorem on_list_window (sw : switch) T dt l :
    fixed_on_time_steps sw = None -> calculate_on_list K sw T dt = SOk l ->
    length l = Z.to_nat T /\ forall t, 0 <= t < T -> on_step K sw dt t = SOk (znth l t false).
  Proof.
    intros Hf H. unfold calculate_on_list in H. rewrite Hf in H.
    destruct (on_steps_spec sw dt _ l H) as [L A]. unfold zrange in *. rewrite map_length, seq_length in *.
    split; [exact L|]. intros t Ht. specialize (A (Z.to_nat t) ltac:(lia)).
    rewrite (nth_map_seq_Z (Z.to_nat T) (Z.to_nat t)) in A by lia. rewrite Z2Nat.id in A by lia.
    rewrite znth_nonneg' by lia. exact A.
  Qed.

  (* fixed schedule: exactly the listed steps (Python indexing: negative entries count from the end) *)
  Lemma set_fixed_spec T fx : forall l l', 0 <= T -> length l = Z.to_nat T -> set_fixed T l fx = SOk l' ->
    length l' = Z.to_nat T /\
    (forall i, In i fx -> - T <= i < T) /\
    forall t, 0 <= t < T -> znth l' t false = (znth l t false || existsb (fun i => (if i <? 0 then T + i else i) =? t) fx).
  Proof.
    induction fx as [|i r IH]; intros l l' HT L H; cbn in H.
    - inversion H; subst. split; [exact L|]. split; [intros ? []|]. intros t Ht. cbn. rewrite orb_false_r. reflexivity.
    - destruct ((i <? - T) || (T <=? i)) eqn:C; [discriminate|].
      apply orb_false_iff in C. destruct C as [C1 C2]. apply Z.ltb_ge in C1. apply Z.leb_gt in C2.
      set (j := if i <? 0 then T + i else i) in *.
      assert (Hj : 0 <= j < T) by (unfold j; destruct (Z.ltb_spec i 0); lia).
      destruct (IH (zset l j true) l' HT ltac:(rewrite zset_length'; exact L) H) as (L' & R & A).
      split; [exact L'|]. split; [intros x [<-|Hx]; [lia | apply R; exact Hx]|].
      intros t Ht. rewrite A by exact Ht. cbn [existsb]. fold j.
      destruct (Z.eqb_spec j t) as [->|Hne].
      + rewrite znth_zset_same' by lia. rewrite orb_true_r. reflexivity.
      + rewrite znth_zset_other' by exact Hne. cbn. reflexivity.
  Qed.
  Theorem on_list_fixed (sw : switch) T dt fx l :
    0 <= T -> fixed_on_time_steps sw = Some fx -> calculate_on_list K sw T dt = SOk l ->
    length l = Z.to_nat T /\ (forall i, In i fx -> - T <= i < T) /\
    forall t, 0 <= t < T -> (znth l t false = true <-> exists i, In i fx /\ t = if i <? 0 then T + i else i).
  Proof.
    intros HT Hf H. unfold calculate_on_list in H. rewrite Hf in H.
    destruct (set_fixed_spec T fx _ l HT ltac:(apply repeat_length) H) as (L & R & A).
    split; [exact L|]. split; [exact R|]. intros t Ht. rewrite A by exact Ht.
    replace (znth (repeat false (Z.to_nat T)) t false) with false.
    2:{ unfold znth. destruct (t <? 0); [reflexivity|]. symmetry. apply nth_repeat_same'. }
    cbn. rewrite existsb_exists. split.
    - intros (i & Hi & E). apply Z.eqb_eq in E. exists i. split; [exact Hi | lia].
    - intros (i & Hi & E). exists i. split; [exact Hi | apply Z.eqb_eq; lia].
  Qed.
  Theorem on_list_fixed_error (sw : switch) T dt fx :
    fixed_on_time_steps sw = Some fx -> (exists i, In i fx /\ (i < - T \/ T <= i)) ->
    forall l, calculate_on_list K sw T dt <> SOk l.
  Proof.
    intros Hf (i & Hi & Hb) l H. unfold calculate_on_list in H. rewrite Hf in H. clear Hf.
    revert H. generalize (repeat false (Z.to_nat T)). induction fx as [|x r IH]; intros l0 H; [destruct Hi|].
    cbn in H. destruct ((x <? - T) || (T <=? x)) eqn:C; [discriminate|].
    destruct Hi as [->|Hi]; [|exact (IH Hi _ H)].
    apply orb_false_iff in C. destruct C as [C1 C2]. apply Z.ltb_ge in C1. apply Z.leb_gt in C2. lia.
  Qed.
End OnList.

(* ------------------------------------------------------------------ index map, gating, detector rows *)
Definition count_on (l : list bool) : Z := num_on l.

Lemma num_on_cons b l : num_on (b :: l) = (if b then 1 else 0) + num_on l.
Proof. unfold num_on. cbn. destruct b; cbn [length]; lia. Qed.
Lemma num_on_nonneg l : 0 <= num_on l. Proof. unfold num_on. lia. Qed.
Lemma num_on_app a b : num_on (a ++ b) = num_on a + num_on b.
Proof. unfold num_on. rewrite filter_app, app_length. lia. Qed.

Lemma idx_from_length c on : length (idx_from c on) = length on.
Proof. revert c; induction on as [|b r IH]; intros c; cbn; [reflexivity|]. destruct b; cbn; rewrite IH; reflexivity. Qed.

(* an off step maps to -1; an on step maps to the number of on steps before it *)
Lemma idx_from_nth on : forall c t, (t < length on)%nat ->
  nth t (idx_from c on) (-1) = if nth t on false then c + num_on (firstn t on) else -1.
Proof.
  induction on as [|b r IH]; intros c t Ht; cbn in Ht; [lia|].
  destruct t as [|t].
  - destruct b; cbn; [unfold num_on; cbn; lia | reflexivity].
  - cbn [firstn nth]. destruct b; cbn [idx_from nth]; rewrite IH by lia; destruct (nth t r false); try reflexivity;
      rewrite num_on_cons; lia.
Qed.
Theorem idx_map_spec on t : (t < length on)%nat ->
  nth t (idx_map on) (-1) = if nth t on false then num_on (firstn t on) else -1.
Proof. intros H. unfold idx_map. rewrite idx_from_nth by exact H. destruct (nth t on false); lia. Qed.

(* on_times lists exactly the on steps, increasing; idx_map sends the i-th on step to i *)
Lemma on_times_from_length t on : Z.of_nat (length (on_times_from t on)) = num_on on.
Proof.
  revert t; induction on as [|b r IH]; intros t; [reflexivity|]. cbn [on_times_from].
  rewrite app_length, Nat2Z.inj_add, IH, num_on_cons. destruct b; cbn; lia.
Qed.
Lemma on_times_from_In t0 on x :
  In x (on_times_from t0 on) <-> t0 <= x < t0 + Z.of_nat (length on) /\ nth (Z.to_nat (x - t0)) on false = true.
Proof.
  revert t0; induction on as [|b r IH]; intros t0; cbn [on_times_from length].
  - split; [intros [] | intros [H _]; lia].
  - rewrite in_app_iff, IH. split.
    + intros [H|[H1 H2]].
      * destruct b; [|destruct H]. destruct H as [<-|[]]. rewrite Z.sub_diag. cbn. split; [lia | reflexivity].
      * split; [lia|]. replace (Z.to_nat (x - t0)) with (S (Z.to_nat (x - (t0 + 1)))) by lia. exact H2.
    + intros [H1 H2]. destruct (Z.eq_dec x t0) as [->|Hne].
      * rewrite Z.sub_diag in H2. cbn in H2. subst b. left. left. reflexivity.
      * right. split; [lia|]. replace (Z.to_nat (x - t0)) with (S (Z.to_nat (x - (t0 + 1)))) in H2 by lia. exact H2.
Qed.
Fixpoint incr_from (lo : Z) (l : list Z) : Prop := match l with [] => True | x :: r => lo <= x /\ incr_from (x + 1) r end.
Lemma incr_from_weaken lo lo' l : lo' <= lo -> incr_from lo l -> incr_from lo' l.
Proof. destruct l; cbn; [auto|]. intros H [A B]. split; [lia | exact B]. Qed.
Lemma on_times_from_incr t on : incr_from t (on_times_from t on).
Proof.
  revert t; induction on as [|b r IH]; intros t; cbn; [exact I|]. destruct b; cbn.
  - split; [lia | apply IH].
  - apply (incr_from_weaken (t + 1)); [lia | apply IH].
Qed.
Lemma idx_on_times_from on : forall c t0 pre, Z.of_nat (length pre) = t0 ->
  map (fun t => znth (pre ++ idx_from c on) t (-1)) (on_times_from t0 on)
  = map (fun i => c + Z.of_nat i) (seq 0 (Z.to_nat (num_on on))).
Proof.
  induction on as [|b r IH]; intros c t0 pre Hp; [reflexivity|].
  cbn [on_times_from idx_from]. rewrite num_on_cons. destruct b.
  - replace (Z.to_nat (1 + num_on r)) with (S (Z.to_nat (num_on r))) by (pose proof (num_on_nonneg r); lia).
    cbn [app map seq]. f_equal.
    + rewrite <- Hp, znth_of_nat', app_nth2 by lia. rewrite Nat.sub_diag. cbn. lia.
    + replace (pre ++ c :: idx_from (c + 1) r) with ((pre ++ [c]) ++ idx_from (c + 1) r) by (rewrite <- app_assoc; reflexivity).
      rewrite (IH (c + 1) (t0 + 1) (pre ++ [c])) by (rewrite app_length; cbn; lia).
      rewrite <- seq_shift, map_map. apply map_ext. intros i. lia.
  - cbn [app]. replace (pre ++ -1 :: idx_from c r) with ((pre ++ [-1]) ++ idx_from c r) by (rewrite <- app_assoc; reflexivity).
    rewrite (IH c (t0 + 1) (pre ++ [-1])) by (rewrite app_length; cbn; lia). reflexivity.
Qed.
(* order-preserving bijection: the on steps, in increasing order, are sent to 0, 1, ..., count-1 *)
Theorem idx_map_bijection on :
  map (fun t => znth (idx_map on) t (-1)) (on_times on) = zrange (num_on on)
  /\ incr_from 0 (on_times on)
  /\ (forall t, In t (on_times on) <-> 0 <= t < Z.of_nat (length on) /\ znth on t false = true)
  /\ (forall t, 0 <= t < Z.of_nat (length on) -> znth on t false = false -> znth (idx_map on) t (-1) = -1).
Proof.
  split; [|split; [|split]].
  - unfold idx_map, on_times. pose proof (idx_on_times_from on 0 0 [] eq_refl) as H. cbn [app] in H. rewrite H.
    unfold zrange. apply map_ext. intros; lia.
  - apply on_times_from_incr.
  - intros t. unfold on_times. rewrite on_times_from_In. rewrite Z.sub_0_r, Z.add_0_l. split.
    + intros [H1 H2]. split; [exact H1|]. rewrite znth_nonneg' by lia. exact H2.
    + intros [H1 H2]. split; [exact H1|]. rewrite znth_nonneg' in H2 by lia. exact H2.
  - intros t Ht Hoff. rewrite znth_nonneg' in Hoff by lia. rewrite znth_nonneg' by lia. rewrite idx_map_spec by lia. rewrite Hoff. reflexivity.
Qed.

(* sources: an off step leaves the state untouched; an on step applies the update with the on-index *)
Theorem off_step_no_injection {S : Type} on idx (upd : Z -> S -> S) t s :
  znth on t false = false -> gated on idx upd t s = s.
Proof. intros H. unfold gated. rewrite H. reflexivity. Qed.
Theorem on_step_injects {S : Type} on (upd : Z -> S -> S) t s :
  0 <= t < Z.of_nat (length on) -> znth on t false = true ->
  gated on (idx_map on) upd t s = upd (num_on (firstn (Z.to_nat t) on)) s.
Proof.
  intros Ht H. unfold gated. rewrite H. f_equal. rewrite znth_nonneg' in H by lia. rewrite znth_nonneg' by lia.
  rewrite idx_map_spec by lia. rewrite H. reflexivity.
Qed.

(* detectors: after the run the state holds exactly one row per on step, in chronological order *)
Lemma set_at_middle {R} (pre : list R) x rest v : set_at (pre ++ x :: rest) (length pre) v = pre ++ v :: rest.
Proof. induction pre as [|p pre IH]; cbn; [reflexivity|]. rewrite IH. reflexivity. Qed.
Lemma zset_middle {R} (pre : list R) x rest v : zset (pre ++ x :: rest) (Z.of_nat (length pre)) v = pre ++ v :: rest.
Proof.
  unfold zset. destruct (Z.ltb_spec (Z.of_nat (length pre)) 0); [lia|]. rewrite Nat2Z.id. apply set_at_middle.
Qed.
Lemma det_fold {R} (obs : Z -> R) : forall on done_on (pre rest : list R),
  Z.of_nat (length pre) = num_on done_on -> Z.of_nat (length rest) = num_on on ->
  fold_left (det_step (done_on ++ on) (idx_map (done_on ++ on)) obs)
            (map Z.of_nat (seq (length done_on) (length on))) (pre ++ rest)
  = pre ++ map obs (on_times_from (Z.of_nat (length done_on)) on).
Proof.
  induction on as [|b r IH]; intros done_on pre rest Hp Hr.
  - cbn in *. unfold num_on in Hr. cbn in Hr. destruct rest; [reflexivity | cbn in Hr; lia].
  - cbn [length seq map fold_left on_times_from].
    assert (Hb : znth (done_on ++ b :: r) (Z.of_nat (length done_on)) false = b).
    { rewrite znth_of_nat', app_nth2 by lia. rewrite Nat.sub_diag. reflexivity. }
    replace (done_on ++ b :: r) with ((done_on ++ [b]) ++ r) in * by (rewrite <- app_assoc; reflexivity).
    unfold det_step at 2. rewrite Hb.
    assert (Hlen : length (done_on ++ [b]) = S (length done_on)) by (rewrite app_length; cbn; lia).
    destruct b.
    + assert (Hi : znth (idx_map ((done_on ++ [true]) ++ r)) (Z.of_nat (length done_on)) (-1) = Z.of_nat (length pre)).
      { rewrite znth_of_nat', idx_map_spec by (rewrite !app_length; cbn; lia).
        rewrite <- app_assoc. rewrite app_nth2 by lia. rewrite Nat.sub_diag. cbn [app nth].
        rewrite firstn_app, Nat.sub_diag, firstn_all. cbn [firstn]. rewrite app_nil_r. symmetry. exact Hp. }
      rewrite Hi. rewrite num_on_cons in Hr. destruct rest as [|x rest']; [cbn [length] in Hr; pose proof (num_on_nonneg r); lia|].
      rewrite zset_middle.
      replace (pre ++ obs (Z.of_nat (length done_on)) :: rest') with ((pre ++ [obs (Z.of_nat (length done_on))]) ++ rest')
        by (rewrite <- app_assoc; reflexivity).
      rewrite <- Hlen. rewrite (IH (done_on ++ [true]) (pre ++ [obs (Z.of_nat (length done_on))]) rest').
      * rewrite <- app_assoc. cbn [app map]. rewrite Hlen. do 4 f_equal. lia.
      * rewrite app_length, num_on_app. cbn [length]. unfold num_on at 2. cbn. lia.
      * cbn [length] in Hr. lia.
    + rewrite <- Hlen. rewrite (IH (done_on ++ [false]) pre rest).
      * cbn [app]. rewrite Hlen. do 3 f_equal. lia.
      * rewrite num_on_app. unfold num_on at 2. cbn. lia.
      * rewrite num_on_cons in Hr. lia.
Qed.
Theorem detector_rows {R} on (obs : Z -> R) zero :
  det_run on obs zero (Z.of_nat (length on)) = map obs (on_times on).
Proof.
  unfold det_run, zrange, on_times. rewrite Nat2Z.id.
  pose proof (det_fold obs on [] [] (repeat zero (Z.to_nat (num_on on))) eq_refl) as H.
  cbn [app length] in H. apply H. rewrite repeat_length. pose proof (num_on_nonneg on). lia.
Qed.
