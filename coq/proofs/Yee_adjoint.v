(* Yee_adjoint.v — the weighted discrete curls of model/Yee.v are mutually adjoint:
   sum wE (curlH H . G) = sum wH (H . curlE G)   for every grid size, ghost factor with lo = conj hi
   (zero halo / periodic / Bloch) and every positive cell-width list (non-uniform grids). *)
From Coq Require Import List Arith Lia Field Ring.
From FV Require Import base.Scalar base.Cplx base.Sums model.Yee proofs.Yee_sbp.
Local Open Scope fld_scope.

Section Adjoint.
  Variable K : Fld.
  Add Field KFa : (Fth K).
  Variable sc : scene K.
  Notation C := (C K).
  Notation nx := (nx K sc). Notation ny := (ny K sc). Notation nz := (nz K sc).
  Notation sum3 := (sum3 nx ny nz).

  Hypothesis Hgx : lox K sc = cconj (hix K sc).
  Hypothesis Hgy : loy K sc = cconj (hiy K sc).
  Hypothesis Hgz : loz K sc = cconj (hiz K sc).
  Hypothesis Hwx : forall i, (i < nx)%nat -> wx K sc i <> 0 /\ dual K (wx K sc) i <> 0.
  Hypothesis Hwy : forall i, (i < ny)%nat -> wy K sc i <> 0 /\ dual K (wy K sc) i <> 0.
  Hypothesis Hwz : forall i, (i < nz)%nat -> wz K sc i <> 0 /\ dual K (wz K sc) i <> 0.

  Lemma pair_x (A : nat -> nat -> car K) (WE WH : nat -> nat -> nat -> car K) (F G : A3 K) :
    (forall i j k, (i < nx)%nat -> (j < ny)%nat -> (k < nz)%nat -> WE i j k * sb K sc (wx K sc) i = A j k) ->
    (forall i j k, (i < nx)%nat -> (j < ny)%nat -> (k < nz)%nat -> WH i j k * sf K sc (wx K sc) i = A j k) ->
    sum3 (fun i j k => WE i j k * cdot (dmx K sc F i j k) (G i j k))
    = - sum3 (fun i j k => WH i j k * cdot (F i j k) (dpx K sc G i j k)).
  Proof.
    intros HE HH.
    transitivity (sum3 (fun i j k => A j k * cdot (csub (F i j k) (prv K nx (cconj (hix K sc)) (fun q => F q j k) i)) (G i j k))).
    { apply sum3_ext; intros i j k Hi Hj Hk. unfold dmx. rewrite cdot_scal_l, <- (HE i j k Hi Hj Hk), Hgx. ring. }
    rewrite sbp3_x. f_equal.
    apply sum3_ext; intros i j k Hi Hj Hk. unfold dpx. rewrite cdot_scal_r, <- (HH i j k Hi Hj Hk). ring.
  Qed.
  Lemma pair_y (A : nat -> nat -> car K) (WE WH : nat -> nat -> nat -> car K) (F G : A3 K) :
    (forall i j k, (i < nx)%nat -> (j < ny)%nat -> (k < nz)%nat -> WE i j k * sb K sc (wy K sc) j = A i k) ->
    (forall i j k, (i < nx)%nat -> (j < ny)%nat -> (k < nz)%nat -> WH i j k * sf K sc (wy K sc) j = A i k) ->
    sum3 (fun i j k => WE i j k * cdot (dmy K sc F i j k) (G i j k))
    = - sum3 (fun i j k => WH i j k * cdot (F i j k) (dpy K sc G i j k)).
  Proof.
    intros HE HH.
    transitivity (sum3 (fun i j k => A i k * cdot (csub (F i j k) (prv K ny (cconj (hiy K sc)) (fun q => F i q k) j)) (G i j k))).
    { apply sum3_ext; intros i j k Hi Hj Hk. unfold dmy. rewrite cdot_scal_l, <- (HE i j k Hi Hj Hk), Hgy. ring. }
    rewrite sbp3_y. f_equal.
    apply sum3_ext; intros i j k Hi Hj Hk. unfold dpy. rewrite cdot_scal_r, <- (HH i j k Hi Hj Hk). ring.
  Qed.
  Lemma pair_z (A : nat -> nat -> car K) (WE WH : nat -> nat -> nat -> car K) (F G : A3 K) :
    (forall i j k, (i < nx)%nat -> (j < ny)%nat -> (k < nz)%nat -> WE i j k * sb K sc (wz K sc) k = A i j) ->
    (forall i j k, (i < nx)%nat -> (j < ny)%nat -> (k < nz)%nat -> WH i j k * sf K sc (wz K sc) k = A i j) ->
    sum3 (fun i j k => WE i j k * cdot (dmz K sc F i j k) (G i j k))
    = - sum3 (fun i j k => WH i j k * cdot (F i j k) (dpz K sc G i j k)).
  Proof.
    intros HE HH.
    transitivity (sum3 (fun i j k => A i j * cdot (csub (F i j k) (prv K nz (cconj (hiz K sc)) (fun q => F i j q) k)) (G i j k))).
    { apply sum3_ext; intros i j k Hi Hj Hk. unfold dmz. rewrite cdot_scal_l, <- (HE i j k Hi Hj Hk), Hgz. ring. }
    rewrite sbp3_z. f_equal.
    apply sum3_ext; intros i j k Hi Hj Hk. unfold dpz. rewrite cdot_scal_r, <- (HH i j k Hi Hj Hk). ring.
  Qed.

  (* weighted inner products of E-type and H-type fields *)
  Definition dotE (a b : V3 K) : car K :=
    sum3 (fun i j k => wE1 K sc i j k * cdot (vx a i j k) (vx b i j k))
    + sum3 (fun i j k => wE2 K sc i j k * cdot (vy a i j k) (vy b i j k))
    + sum3 (fun i j k => wE3 K sc i j k * cdot (vz a i j k) (vz b i j k)).
  Definition dotH (a b : V3 K) : car K :=
    sum3 (fun i j k => wH1 K sc i j k * cdot (vx a i j k) (vx b i j k))
    + sum3 (fun i j k => wH2 K sc i j k * cdot (vy a i j k) (vy b i j k))
    + sum3 (fun i j k => wH3 K sc i j k * cdot (vz a i j k) (vz b i j k)).

  Lemma split_l (W : nat -> nat -> nat -> car K) (a b g : A3 K) :
    sum3 (fun i j k => W i j k * cdot (csub (a i j k) (b i j k)) (g i j k))
    = sum3 (fun i j k => W i j k * cdot (a i j k) (g i j k)) - sum3 (fun i j k => W i j k * cdot (b i j k) (g i j k)).
  Proof. rewrite <- sum3_sub. apply sum3_ext; intros. rewrite cdot_sub_l. ring. Qed.
  Lemma split_r (W : nat -> nat -> nat -> car K) (a b g : A3 K) :
    sum3 (fun i j k => W i j k * cdot (g i j k) (csub (a i j k) (b i j k)))
    = sum3 (fun i j k => W i j k * cdot (g i j k) (a i j k)) - sum3 (fun i j k => W i j k * cdot (g i j k) (b i j k)).
  Proof. rewrite <- sum3_sub. apply sum3_ext; intros. rewrite cdot_sub_r. ring. Qed.

  Theorem curl_adjoint (H G : V3 K) : dotE (curlH_raw K sc H) G = dotH H (curlE_raw K sc G).
  Proof.
    unfold dotE, dotH, curlH_raw, curlE_raw; cbn [vx vy vz].
    rewrite !split_l, !split_r.
    rewrite (pair_y (fun i k => wx K sc i * dual K (wz K sc) k * rf K sc) (wE1 K sc) (wH3 K sc) (vz H) (vx G)).
    2:{ intros i j k Hi Hj Hk. unfold wE1, sb. destruct (Hwy j Hj). field. assumption. }
    2:{ intros i j k Hi Hj Hk. unfold wH3, sf. destruct (Hwy j Hj). field. assumption. }
    rewrite (pair_z (fun i j => wx K sc i * dual K (wy K sc) j * rf K sc) (wE1 K sc) (wH2 K sc) (vy H) (vx G)).
    2:{ intros i j k Hi Hj Hk. unfold wE1, sb. destruct (Hwz k Hk). field. assumption. }
    2:{ intros i j k Hi Hj Hk. unfold wH2, sf. destruct (Hwz k Hk). field. assumption. }
    rewrite (pair_z (fun i j => dual K (wx K sc) i * wy K sc j * rf K sc) (wE2 K sc) (wH1 K sc) (vx H) (vy G)).
    2:{ intros i j k Hi Hj Hk. unfold wE2, sb. destruct (Hwz k Hk). field. assumption. }
    2:{ intros i j k Hi Hj Hk. unfold wH1, sf. destruct (Hwz k Hk). field. assumption. }
    rewrite (pair_x (fun j k => wy K sc j * dual K (wz K sc) k * rf K sc) (wE2 K sc) (wH3 K sc) (vz H) (vy G)).
    2:{ intros i j k Hi Hj Hk. unfold wE2, sb. destruct (Hwx i Hi). field. assumption. }
    2:{ intros i j k Hi Hj Hk. unfold wH3, sf. destruct (Hwx i Hi). field. assumption. }
    rewrite (pair_x (fun j k => dual K (wy K sc) j * wz K sc k * rf K sc) (wE3 K sc) (wH2 K sc) (vy H) (vz G)).
    2:{ intros i j k Hi Hj Hk. unfold wE3, sb. destruct (Hwx i Hi). field. assumption. }
    2:{ intros i j k Hi Hj Hk. unfold wH2, sf. destruct (Hwx i Hi). field. assumption. }
    rewrite (pair_y (fun i k => dual K (wx K sc) i * wz K sc k * rf K sc) (wE3 K sc) (wH1 K sc) (vx H) (vz G)).
    2:{ intros i j k Hi Hj Hk. unfold wE3, sb. destruct (Hwy j Hj). field. assumption. }
    2:{ intros i j k Hi Hj Hk. unfold wH1, sf. destruct (Hwy j Hj). field. assumption. }
    ring.
  Qed.
End Adjoint.
