(* Colocate_proofs.v — lemmas of C15 about model/Colocate.v.
   Part 1: every stage of the padding pipeline is an "axis remap"  new(I) = coef(I) * old(src(I))
           along one axis; hence the padded array is separable:  value = fx(I)*fy(J)*fz(K)*f(sx I, sy J, sz K)
           with per-axis tables (factor, source index) that evolve independently (type Sep).
   Part 2: 1-D evaluation of the tables at interior / low-halo / high-halo indices.
   Part 3: the slice stencil on the padded array = the neighbour-indexed specification.
   Part 4: interior block path = full path restricted. *)
From Coq Require Import List Arith Bool ZArith Lia Field Ring.
From FV Require Import base.Scalar base.Sums base.DetectorsBase model.Detectors model.Colocate.
Import ListNotations.
Local Open Scope fld_scope.

Section ColocateProofs.
  Variable K : Fld.
  Add Field KF_coloc : (Fth K).
  Notation F := (car K).
  Notation A3 := (A3 K).
  Notation Vec := (Vec K).
  Notation PVec := (PVec K).
  Notation Bnd := (Bnd K).

  (* ------------------------------------------------------------------ Part 1: separable form *)
  Definition AM : Type := nat -> nat -> F * nat.     (* component -> padded index -> (factor, padded source index) *)
  Record Sep : Type := mkSep { sx : AM; sy : AM; sz : AM }.
  Definition gax (a : Ax) (m : Sep) : AM := match a with AX => sx m | AY => sy m | AZ => sz m end.
  Definition sax (a : Ax) (v : AM) (m : Sep) : Sep :=
    match a with AX => mkSep v (sy m) (sz m) | AY => mkSep (sx m) v (sz m) | AZ => mkSep (sx m) (sy m) v end.
  Definition realize1 (m : Sep) (f : A3) (c : nat) : A3 := fun I J L =>
    fst (sx m c I) * fst (sy m c J) * fst (sz m c L) * f (pred (snd (sx m c I))) (pred (snd (sy m c J))) (pred (snd (sz m c L))).
  Definition aeq (g h : A3) : Prop := forall I J L, g I J L = h I J L.
  Definition comp_am (r : AM) (m : AM) : AM := fun c I => (fst (r c I) * fst (m c (snd (r c I))), snd (m c (snd (r c I)))).
  Definition step (a : Ax) (r : AM) (m : Sep) : Sep := sax a (comp_am r (gax a m)) m.
  Definition remap1 (a : Ax) (r : nat -> F * nat) (g : A3) : A3 :=
    fun I J L => fst (r (ix a I J L)) * at_ax a (snd (r (ix a I J L))) g I J L.

  Lemma remap1_realize a r m f c g :
    aeq g (realize1 m f c) -> aeq (remap1 a (r c) g) (realize1 (step a r m) f c).
  Proof.
    intros H I J L. unfold remap1, at_ax. destruct a; cbn; rewrite H; unfold realize1, comp_am; cbn; ring.
  Qed.

  Definition r_pad (w : bool) (n : nat) : AM := fun _ I =>
    if Nat.eqb I 0 then (if w then (1, n) else (0, I)) else if Nat.eqb I (S n) then (if w then (1, 1%nat) else (0, I)) else (1, I).
  Definition r_zero : AM := fun _ I => if Nat.eqb I 0 then (0, I) else (1, I).
  Definition r_scale (t : nat) (ph : F) : AM := fun _ I => if Nat.eqb I t then (ph, I) else (1, I).
  Definition r_mirror (comp : nat) (par : F) (s : nat) : AM := fun c I => if Nat.eqb c comp && Nat.eqb I 0 then (par, s) else (1, I).

  Lemma pad_axis_remap a w n g c : aeq (pad_axis a w n g) (remap1 a (r_pad w n c) g).
  Proof.
    intros I J L. unfold pad_axis, remap1, r_pad.
    destruct (Nat.eqb (ix a I J L) 0) eqn:E0; [destruct w; cbn; ring|].
    destruct (Nat.eqb (ix a I J L) (S n)) eqn:E1; [destruct w; cbn; ring|].
    cbn. destruct a; cbn; ring.
  Qed.
  Lemma zero_slab_remap a g c : aeq (zero_slab a g) (remap1 a (r_zero c) g).
  Proof.
    intros I J L. unfold zero_slab, remap1, r_zero. destruct (Nat.eqb (ix a I J L) 0); cbn; [ring|destruct a; cbn; ring].
  Qed.
  Lemma scale_slab_remap a t ph g c : aeq (scale_slab a t ph g) (remap1 a (r_scale t ph c) g).
  Proof.
    intros I J L. unfold scale_slab, remap1, r_scale. destruct (Nat.eqb (ix a I J L) t); cbn; destruct a; cbn; ring.
  Qed.
  Lemma remap1_ext a r g h : aeq g h -> aeq (remap1 a r g) (remap1 a r h).
  Proof. intros H I J L. unfold remap1, at_ax. destruct a; rewrite H; reflexivity. Qed.
  Lemma aeq_trans g h k : aeq g h -> aeq h k -> aeq g k.
  Proof. intros H1 H2 I J L. rewrite H1. apply H2. Qed.

  (* Sep-level pipeline, mirroring the model *)
  Definition m0 : Sep := mkSep (fun _ I => (1, I)) (fun _ I => (1, I)) (fun _ I => (1, I)).
  Definition sep_pad (dims : shape3) (wr : Ax -> bool) (m : Sep) : Sep :=
    step AZ (r_pad (wr AZ) (dimz dims)) (step AY (r_pad (wr AY) (dimy dims)) (step AX (r_pad (wr AX) (dimx dims)) m)).
  Definition sep_symzero (sym : Ax -> Z) (wr : Ax -> bool) (a : Ax) (m : Sep) : Sep :=
    if negb (Z.eqb (sym a) 0) && wr a then step a r_zero m else m.
  Definition sep_corr (dims : shape3) (b : Bnd) (m : Sep) : Sep :=
    match bkind b with
    | BBloch ph cph => if bmax b then step (baxis b) (r_scale (S (adim dims (baxis b))) ph) m else step (baxis b) (r_scale 0 cph) m
    | _ => m
    end.
  Definition sep_pfb (dims : shape3) (bnds : list Bnd) (sym : Ax -> Z) : Sep :=
    let wr := wrap_axis bnds in
    fold_left (fun m b => sep_corr dims b m) bnds
              (sep_symzero sym wr AZ (sep_symzero sym wr AY (sep_symzero sym wr AX (sep_pad dims wr m0)))).
  Definition sep_mcomp (isH : bool) (a : Ax) (wall : Z) (m : Sep) (comp : nat) : Sep :=
    step a (r_mirror comp (zsign (parity isH comp a wall)) (if pairs_on_plane isH comp a wall then 2 else 1)%nat) m.
  Definition sep_mb (isH : bool) (sym : Ax -> Z) (m : Sep) (b : Bnd) : Sep :=
    if negb (bsymwall b) then m
    else if negb (Z.eqb (sym (baxis b)) (-1)) then m
    else fold_left (sep_mcomp isH (baxis b) (sym (baxis b))) [0; 1; 2]%nat m.
  Definition sep_final (dims : shape3) (bnds : list Bnd) (sym : Ax -> Z) (isH : bool) : Sep :=
    fold_left (sep_mb isH sym) bnds (sep_pfb dims bnds sym).

  Lemma embed_realize f c : aeq (embed f) (realize1 m0 f c).
  Proof. intros I J L. unfold embed, realize1, m0; cbn. ring. Qed.

  Lemma pad_fields_sep dims wr f c : aeq (pad_fields dims wr f) (realize1 (sep_pad dims wr m0) f c).
  Proof.
    unfold pad_fields, sep_pad.
    eapply aeq_trans; [apply pad_axis_remap with (c := c)|]. apply remap1_realize.
    eapply aeq_trans; [apply pad_axis_remap with (c := c)|]. apply remap1_realize.
    eapply aeq_trans; [apply pad_axis_remap with (c := c)|]. apply remap1_realize.
    apply embed_realize.
  Qed.

  Lemma sym_zero_sep sym wr a g m f c :
    aeq g (realize1 m f c) -> aeq (sym_zero sym wr a g) (realize1 (sep_symzero sym wr a m) f c).
  Proof.
    intros H. unfold sym_zero, sep_symzero. destruct (negb (Z.eqb (sym a) 0) && wr a); [|exact H].
    eapply aeq_trans; [apply zero_slab_remap with (c := c)|]. apply remap1_realize, H.
  Qed.

  Lemma pad_correction_sep dims b g m f c :
    aeq g (realize1 m f c) -> aeq (pad_correction dims b g) (realize1 (sep_corr dims b m) f c).
  Proof.
    intros H. unfold pad_correction, sep_corr. destruct (bkind b) as [| |ph cph]; try exact H.
    destruct (bmax b); (eapply aeq_trans; [apply scale_slab_remap with (c := c)|]; apply remap1_realize, H).
  Qed.

  Lemma fold_corr_sep dims bnds f c : forall g m,
    aeq g (realize1 m f c) ->
    aeq (fold_left (fun g b => pad_correction dims b g) bnds g) (realize1 (fold_left (fun m b => sep_corr dims b m) bnds m) f c).
  Proof.
    induction bnds as [|b r IH]; intros g m H; cbn; [exact H|]. apply IH, pad_correction_sep, H.
  Qed.

  Lemma pad_for_boundaries_sep dims bnds sym f c :
    aeq (pad_for_boundaries dims bnds sym f) (realize1 (sep_pfb dims bnds sym) f c).
  Proof.
    unfold pad_for_boundaries, sep_pfb. apply fold_corr_sep.
    do 3 apply sym_zero_sep. apply pad_fields_sep.
  Qed.

  (* PVec level *)
  Definition peq (p q : PVec) : Prop := forall c, aeq (p c) (q c).
  Definition realize (m : Sep) (f : Vec) : PVec := fun c => realize1 m (f c) c.

  Lemma mirror_set_remap a comp par s (p : PVec) c : aeq (mirror_set a comp par s p c) (remap1 a (r_mirror comp par s c) (p c)).
  Proof.
    intros I J L. unfold mirror_set, remap1, r_mirror.
    destruct (Nat.eqb c comp && Nat.eqb (ix a I J L) 0); cbn; [reflexivity|destruct a; cbn; ring].
  Qed.

  Lemma mirror_comp_sep isH a wall p m f comp :
    peq p (realize m f) -> peq (mirror_comp isH a wall p comp) (realize (sep_mcomp isH a wall m comp) f).
  Proof.
    intros H c. unfold mirror_comp, sep_mcomp.
    eapply aeq_trans; [apply mirror_set_remap|]. apply (remap1_realize a _ m (f c) c), H.
  Qed.

  Lemma mirror_boundary_sep isH sym p m f b :
    peq p (realize m f) -> peq (mirror_boundary isH sym p b) (realize (sep_mb isH sym m b) f).
  Proof.
    intros H. unfold mirror_boundary, sep_mb.
    destruct (negb (bsymwall b)); [exact H|]. destruct (negb (Z.eqb (sym (baxis b)) (-1))); [exact H|].
    cbn. do 3 apply mirror_comp_sep. exact H.
  Qed.

  Lemma fold_mirror_sep isH sym f bnds : forall p m,
    peq p (realize m f) -> peq (fold_left (mirror_boundary isH sym) bnds p) (realize (fold_left (sep_mb isH sym) bnds m) f).
  Proof.
    induction bnds as [|b r IH]; intros p m H; cbn; [exact H|]. apply IH, mirror_boundary_sep, H.
  Qed.

  Theorem pad_mirror_separable dims bnds sym isH f :
    peq (pad_mirror dims bnds sym isH f) (realize (sep_final dims bnds sym isH) f).
  Proof.
    unfold pad_mirror, sep_final. apply fold_mirror_sep. intros c. apply pad_for_boundaries_sep.
  Qed.

  (* ------------------------------------------------------------------ Part 2: the per-axis tables *)
  Lemma ax_dec (a b : Ax) : {a = b} + {a <> b}.
  Proof. decide equality. Qed.
  Lemma gax_step_same a r m : gax a (step a r m) = comp_am r (gax a m).
  Proof. destruct a; reflexivity. Qed.

  Section Axis.
  Variables (dims : shape3) (bnds0 : list Bnd) (sym : Ax -> Z) (isH : bool) (a : Ax).
  Let n := adim dims a.
  Let wr := wrap_axis bnds0.

  Definition am_corr (m : AM) (b : Bnd) : AM :=
    if ax_eqb (baxis b) a then
      match bkind b with
      | BBloch ph cph => if bmax b then comp_am (r_scale (S n) ph) m else comp_am (r_scale 0 cph) m
      | _ => m
      end
    else m.
  Definition am_wall (m : AM) : AM :=
    fold_left (fun m comp => comp_am (r_mirror comp (zsign (parity isH comp a (sym a))) (if pairs_on_plane isH comp a (sym a) then 2 else 1)%nat) m)
              [0; 1; 2]%nat m.
  Definition am_mb (m : AM) (b : Bnd) : AM :=
    if ax_eqb (baxis b) a then (if negb (bsymwall b) then m else if negb (Z.eqb (sym a) (-1)) then m else am_wall m) else m.
  Definition am1 : AM := comp_am (r_pad (wr a) n) (fun _ I => (1, I)).
  Definition am2 : AM := if negb (Z.eqb (sym a) 0) && wr a then comp_am r_zero am1 else am1.
  Definition am_final (bnds : list Bnd) : AM := fold_left am_mb bnds (fold_left am_corr bnds am2).

  Lemma gax_sep_corr m b : gax a (sep_corr dims b m) = am_corr (gax a m) b.
  Proof.
    unfold sep_corr, am_corr, n. destruct (bkind b); destruct (baxis b), a; cbn; try reflexivity; destruct (bmax b); reflexivity.
  Qed.
  Lemma gax_sep_mb m b : gax a (sep_mb isH sym m b) = am_mb (gax a m) b.
  Proof.
    unfold sep_mb, am_mb, am_wall. destruct (baxis b), a; cbn; destruct (negb (bsymwall b)); try reflexivity;
      match goal with |- context [negb (Z.eqb ?s (-1))] => destruct (negb (Z.eqb s (-1))) end; reflexivity.
  Qed.
  Lemma gax_fold {B} (G : Sep -> B -> Sep) (g : AM -> B -> AM) :
    (forall m b, gax a (G m b) = g (gax a m) b) -> forall l m, gax a (fold_left G l m) = fold_left g l (gax a m).
  Proof. intros H l. induction l as [|b r IH]; intros m; cbn; [reflexivity|]. rewrite IH, H. reflexivity. Qed.
  Lemma gax_pre : gax a (sep_symzero sym wr AZ (sep_symzero sym wr AY (sep_symzero sym wr AX (sep_pad dims wr m0)))) = am2.
  Proof.
    unfold am2, am1, n, sep_symzero, sep_pad.
    destruct a; cbn; destruct (negb (Z.eqb (sym AX) 0) && wr AX), (negb (Z.eqb (sym AY) 0) && wr AY), (negb (Z.eqb (sym AZ) 0) && wr AZ); reflexivity.
  Qed.
  End Axis.

  Lemma gax_final dims bnds sym isH a : gax a (sep_final dims bnds sym isH) = am_final dims bnds sym isH a bnds.
  Proof.
    unfold sep_final, am_final, sep_pfb.
    rewrite (gax_fold a _ _ (gax_sep_mb dims sym isH a)).
    rewrite (gax_fold a _ _ (gax_sep_corr dims a)).
    rewrite gax_pre. reflexivity.
  Qed.

  (* interior invariant *)
  Definition Iint (n : nat) (m : AM) : Prop := forall c I, (1 <= I <= n)%nat -> fst (m c I) = 1 /\ snd (m c I) = I.
  Definition rid (n : nat) (r : AM) : Prop := forall c I, (1 <= I <= n)%nat -> r c I = (1, I).
  Lemma Iint_comp n r m : rid n r -> Iint n m -> Iint n (comp_am r m).
  Proof.
    intros Hr Hm c I HI. unfold comp_am. rewrite (Hr c I HI). cbn. destruct (Hm c I HI) as [-> ->]. split; [ring|reflexivity].
  Qed.
  Lemma neqb_false x y : x <> y -> Nat.eqb x y = false.
  Proof. apply Nat.eqb_neq. Qed.
  Lemma rid_pad w n : rid n (r_pad w n).
  Proof. intros c I HI. unfold r_pad. rewrite !neqb_false by lia. reflexivity. Qed.
  Lemma rid_zero n : rid n r_zero.
  Proof. intros c I HI. unfold r_zero. rewrite neqb_false by lia. reflexivity. Qed.
  Lemma rid_scale_hi n ph : rid n (r_scale (S n) ph).
  Proof. intros c I HI. unfold r_scale. rewrite neqb_false by lia. reflexivity. Qed.
  Lemma rid_scale_lo n ph : rid n (r_scale 0 ph).
  Proof. intros c I HI. unfold r_scale. rewrite neqb_false by lia. reflexivity. Qed.
  Lemma rid_mirror n comp par s : rid n (r_mirror comp par s).
  Proof. intros c I HI. unfold r_mirror. rewrite (neqb_false I 0) by lia. rewrite andb_false_r. reflexivity. Qed.

  Section Axis2.
  Variables (dims : shape3) (bnds0 : list Bnd) (sym : Ax -> Z) (isH : bool) (a : Ax).
  Notation n := (adim dims a).
  Notation amc := (am_corr dims a).
  Notation amb := (am_mb sym isH a).
  Notation amw := (am_wall sym isH a).

  Lemma am2_int : Iint n (am2 dims bnds0 sym a).
  Proof.
    assert (H1 : Iint n (am1 dims bnds0 a)).
    { apply Iint_comp; [apply rid_pad|]. intros c I _. split; reflexivity. }
    unfold am2. destruct (negb (Z.eqb (sym a) 0) && wrap_axis bnds0 a); [apply Iint_comp; [apply rid_zero|exact H1]|exact H1].
  Qed.
  Lemma corr_int bnds : forall m, Iint n m -> Iint n (fold_left amc bnds m).
  Proof.
    induction bnds as [|b r IH]; intros m H; cbn; [exact H|]. apply IH. unfold am_corr.
    destruct (ax_eqb (baxis b) a); [|exact H]. destruct (bkind b); try exact H.
    destruct (bmax b); apply Iint_comp; auto using rid_scale_hi, rid_scale_lo.
  Qed.
  Lemma wall_int m : Iint n m -> Iint n (amw m).
  Proof. intros H. unfold am_wall. cbn. do 3 (apply Iint_comp; [apply rid_mirror|]). exact H. Qed.
  Lemma mb_int bnds : forall m, Iint n m -> Iint n (fold_left amb bnds m).
  Proof.
    induction bnds as [|b r IH]; intros m H; cbn; [exact H|]. apply IH. unfold am_mb.
    destruct (ax_eqb (baxis b) a); [|exact H]. destruct (negb (bsymwall b)); [exact H|].
    destruct (negb (Z.eqb (sym a) (-1))); [exact H|]. apply wall_int, H.
  Qed.
  Lemma final_int : Iint n (am_final dims bnds0 sym isH a bnds0).
  Proof. apply mb_int, corr_int, am2_int. Qed.

  (* a remap that is diagonal at index I with factor x *)
  Lemma comp_am_diag r m c I x : r c I = (x, I) -> fst (comp_am r m c I) = x * fst (m c I) /\ snd (comp_am r m c I) = snd (m c I).
  Proof. intros H. unfold comp_am. rewrite H. cbn. split; reflexivity. Qed.

  (* high halo: index S n *)
  Lemma corr_hi bnds c : forall m,
    fst (fold_left amc bnds m c (S n)) = phase_hi bnds a * fst (m c (S n)) /\ snd (fold_left amc bnds m c (S n)) = snd (m c (S n)).
  Proof.
    induction bnds as [|b r IH]; intros m; cbn [fold_left phase_hi]; [split; [ring|reflexivity]|].
    destruct (IH (amc m b)) as [-> ->]. unfold am_corr.
    destruct (ax_eqb (baxis b) a); cbn [andb].
    - destruct (bkind b) as [| |ph cph]; [split; [ring|reflexivity]..|]. destruct (bmax b).
      + destruct (comp_am_diag (r_scale (S n) ph) m c (S n) ph) as [-> ->]; [unfold r_scale; rewrite Nat.eqb_refl; reflexivity|]. split; [ring|reflexivity].
      + destruct (comp_am_diag (r_scale 0 cph) m c (S n) 1) as [-> ->]; [unfold r_scale; cbn; reflexivity|]. split; [ring|reflexivity].
    - destruct (bkind b); split; try ring; reflexivity.
  Qed.
  Lemma wall_other m c I : I <> 0%nat -> fst (amw m c I) = fst (m c I) /\ snd (amw m c I) = snd (m c I).
  Proof.
    intros HI. unfold am_wall. cbn [fold_left].
    assert (Hd : forall comp par s, r_mirror comp par s c I = (1, I)).
    { intros. unfold r_mirror. rewrite (neqb_false I 0) by exact HI. rewrite andb_false_r. reflexivity. }
    repeat match goal with |- context [comp_am (r_mirror ?comp ?par ?s) ?mm c I] =>
      destruct (comp_am_diag (r_mirror comp par s) mm c I 1 (Hd comp par s)) as [-> ->] end.
    split; [ring|reflexivity].
  Qed.
  Lemma mb_other bnds c I : I <> 0%nat -> forall m,
    fst (fold_left amb bnds m c I) = fst (m c I) /\ snd (fold_left amb bnds m c I) = snd (m c I).
  Proof.
    intros HI. induction bnds as [|b r IH]; intros m; cbn [fold_left]; [split; reflexivity|].
    destruct (IH (amb m b)) as [-> ->]. unfold am_mb.
    destruct (ax_eqb (baxis b) a); [|split; reflexivity]. destruct (negb (bsymwall b)); [split; reflexivity|].
    destruct (negb (Z.eqb (sym a) (-1))); [split; reflexivity|]. apply wall_other, HI.
  Qed.

  Lemma am2_hi c : (fst (am2 dims bnds0 sym a c (S n)) = if wrap_axis bnds0 a then 1 else 0) /\
                   (wrap_axis bnds0 a = true -> snd (am2 dims bnds0 sym a c (S n)) = 1%nat).
  Proof.
    assert (H1 : (fst (am1 dims bnds0 a c (S n)) = if wrap_axis bnds0 a then 1 else 0) /\
                 (wrap_axis bnds0 a = true -> snd (am1 dims bnds0 a c (S n)) = 1%nat)).
    { unfold am1, comp_am, r_pad. cbn [Nat.eqb]. rewrite Nat.eqb_refl. destruct (wrap_axis bnds0 a); cbn; split; try ring; auto; discriminate. }
    unfold am2. destruct (negb (Z.eqb (sym a) 0) && wrap_axis bnds0 a); [|exact H1].
    destruct (comp_am_diag r_zero (am1 dims bnds0 a) c (S n) 1) as [-> ->]; [reflexivity|].
    destruct H1 as [-> H1]. split; [ring|exact H1].
  Qed.

  Lemma final_hi c :
    let p := am_final dims bnds0 sym isH a bnds0 c (S n) in let e := halo_hi bnds0 a in
    (fst p = fst e /\ pred (snd p) = snd e) \/ (fst p = 0 /\ fst e = 0).
  Proof.
    cbv zeta. unfold am_final.
    destruct (mb_other bnds0 c (S n) (Nat.neq_succ_0 _) (fold_left amc bnds0 (am2 dims bnds0 sym a))) as [-> ->].
    destruct (corr_hi bnds0 c (am2 dims bnds0 sym a)) as [-> ->].
    destruct (am2_hi c) as [-> Hs]. unfold halo_hi. destruct (wrap_axis bnds0 a).
    - left. rewrite Hs by reflexivity. cbn. split; [ring|reflexivity].
    - right. cbn. split; [ring|reflexivity].
  Qed.

  (* low halo: index 0 *)
  Lemma corr_lo bnds c : forall m,
    fst (fold_left amc bnds m c 0%nat) = phase_lo bnds a * fst (m c 0%nat) /\ snd (fold_left amc bnds m c 0%nat) = snd (m c 0%nat).
  Proof.
    induction bnds as [|b r IH]; intros m; cbn [fold_left phase_lo]; [split; [ring|reflexivity]|].
    destruct (IH (amc m b)) as [-> ->]. unfold am_corr.
    destruct (ax_eqb (baxis b) a); cbn [andb].
    - destruct (bkind b) as [| |ph cph]; [split; [ring|reflexivity]..|]. destruct (bmax b); cbn [negb].
      + destruct (comp_am_diag (r_scale (S n) ph) m c 0%nat 1) as [-> ->]; [unfold r_scale; cbn; reflexivity|]. split; [ring|reflexivity].
      + destruct (comp_am_diag (r_scale 0 cph) m c 0%nat cph) as [-> ->]; [unfold r_scale; cbn; reflexivity|]. split; [ring|reflexivity].
    - destruct (bkind b); split; try ring; reflexivity.
  Qed.

  Definition wall_par (c : nat) : F := zsign (parity isH c a (sym a)).
  Definition wall_src (c : nat) : nat := if pairs_on_plane isH c a (sym a) then 2%nat else 1%nat.
  Lemma wall_lo m c : (c < 3)%nat -> Iint n m -> (1 <= wall_src c <= n)%nat ->
    fst (amw m c 0%nat) = wall_par c /\ snd (amw m c 0%nat) = wall_src c.
  Proof.
    intros Hc Hm Hs. destruct (Hm c (wall_src c) Hs) as [H1 H2]. unfold wall_par, wall_src in *.
    unfold am_wall. cbn [fold_left].
    destruct c as [|[|[|c]]]; [| | |lia]; unfold comp_am, r_mirror; cbn [Nat.eqb andb fst snd]; rewrite H1, H2; split; try ring; reflexivity.
  Qed.
  Definition has_wall (bnds : list Bnd) : bool := existsb (fun b => bsymwall b && ax_eqb (baxis b) a) bnds.
  Lemma mb_lo bnds c : (c < 3)%nat -> forall m, Iint n m ->
    (Z.eqb (sym a) (-1) && has_wall bnds = true -> (1 <= wall_src c <= n)%nat) ->
    if Z.eqb (sym a) (-1) && has_wall bnds
    then fst (fold_left amb bnds m c 0%nat) = wall_par c /\ snd (fold_left amb bnds m c 0%nat) = wall_src c
    else fst (fold_left amb bnds m c 0%nat) = fst (m c 0%nat) /\ snd (fold_left amb bnds m c 0%nat) = snd (m c 0%nat).
  Proof.
    intros Hc. induction bnds as [|b r IH]; intros m Hm Hs; cbn [fold_left has_wall existsb] in *.
    - rewrite andb_false_r. split; reflexivity.
    - fold (has_wall r) in *. unfold am_mb at 2 4 6 8.
      destruct (ax_eqb (baxis b) a) eqn:Eax; [|rewrite andb_false_r in *; cbn [orb] in *; apply IH; assumption].
      destruct (bsymwall b) eqn:Ew; cbn [negb andb orb] in *; [|apply IH; assumption].
      destruct (Z.eqb (sym a) (-1)) eqn:Es; cbn [negb andb] in *; [|apply (IH m Hm); intros; discriminate].
      specialize (Hs eq_refl).
      pose proof (IH (amw m) (wall_int m Hm) (fun _ => Hs)) as H.
      destruct (wall_lo m c Hc Hm Hs) as [W1 W2].
      destruct (has_wall r); [exact H|]. destruct H as [-> ->]. split; assumption.
  Qed.

  Lemma has_mirror_eq : has_mirror bnds0 sym a = Z.eqb (sym a) (-1) && has_wall bnds0.
  Proof. reflexivity. Qed.

  Lemma am2_lo c :
    (negb (Z.eqb (sym a) 0) && wrap_axis bnds0 a = false /\ wrap_axis bnds0 a = true /\
       fst (am2 dims bnds0 sym a c 0%nat) = 1 /\ snd (am2 dims bnds0 sym a c 0%nat) = n) \/
    ((negb (Z.eqb (sym a) 0) && wrap_axis bnds0 a = true \/ wrap_axis bnds0 a = false) /\ fst (am2 dims bnds0 sym a c 0%nat) = 0).
  Proof.
    unfold am2, am1. destruct (wrap_axis bnds0 a) eqn:Ew.
    - destruct (negb (Z.eqb (sym a) 0)); cbn [andb].
      + right. split; [left; reflexivity|]. unfold comp_am, r_zero, r_pad. cbn. ring.
      + left. repeat split; unfold comp_am, r_pad; cbn; try ring; reflexivity.
    - rewrite andb_false_r. right. split; [right; reflexivity|]. unfold comp_am, r_pad. cbn. ring.
  Qed.

  Lemma zsign_par c : Z.eqb (sym a) (-1) = true ->
    wall_par c = (if Bool.eqb isH (Nat.eqb c (axnat a)) then - (1) else 1) /\
    pred (wall_src c) = (if Bool.eqb isH (Nat.eqb c (axnat a)) then 1 else 0)%nat.
  Proof.
    intros Hs. apply Z.eqb_eq in Hs. unfold wall_par, wall_src, parity, pairs_on_plane, sits_on_plane. rewrite Hs. cbn [Z.eqb andb].
    destruct isH, (Nat.eqb c (axnat a)); cbn; split; reflexivity.
  Qed.

  Lemma final_lo c : (c < 3)%nat -> (1 <= n)%nat -> (has_mirror bnds0 sym a = true -> 2 <= n)%nat ->
    let p := am_final dims bnds0 sym isH a bnds0 c 0%nat in let e := halo_lo dims bnds0 sym isH a c in
    (fst p = fst e /\ pred (snd p) = snd e) \/ (fst p = 0 /\ fst e = 0).
  Proof.
    intros Hc Hn Hm2. cbv zeta. unfold am_final, halo_lo. rewrite has_mirror_eq in *.
    assert (Hsrc : Z.eqb (sym a) (-1) && has_wall bnds0 = true -> (1 <= wall_src c <= n)%nat).
    { intros H. specialize (Hm2 H). unfold wall_src. destruct (pairs_on_plane isH c a (sym a)); lia. }
    pose proof (mb_lo bnds0 c Hc _ (corr_int bnds0 _ am2_int) Hsrc) as H.
    destruct (Z.eqb (sym a) (-1) && has_wall bnds0) eqn:Em.
    - destruct H as [-> ->].
      apply andb_prop in Em. destruct Em as [Es _]. destruct (zsign_par c Es) as [-> ->]. left.
      destruct (Bool.eqb isH (Nat.eqb c (axnat a))); cbn; split; reflexivity.
    - destruct H as [-> ->]. destruct (corr_lo bnds0 c (am2 dims bnds0 sym a)) as [-> ->].
      destruct (am2_lo c) as [(Hz & Hw & H1 & H2)|([Hz|Hw] & H1)].
      + rewrite Hw in *. rewrite andb_true_r in Hz. apply negb_false_iff in Hz. rewrite Hz. left. rewrite H1, H2. cbn. split; [ring|lia].
      + apply andb_prop in Hz. destruct Hz as [Hz Hw]. rewrite Hw. apply negb_true_iff in Hz. rewrite Hz. right. rewrite H1. cbn. split; [ring|reflexivity].
      + rewrite Hw. right. rewrite H1. cbn. split; [ring|reflexivity].
  Qed.
  End Axis2.

  (* ------------------------------------------------------------------ Part 3: padded array = extended field; stencil = specification *)
  Definition pidx (n : nat) (x : XI) : nat := match x with Lo => 0%nat | In i => S i | Hi => S n end.
  Definition xi_ok (n : nat) (x : XI) : Prop := match x with In i => (i < n)%nat | _ => True end.
  (* every axis has a cell; an axis with an electric mirror has two (otherwise the code's source slab 2:3 is the max halo) *)
  Definition wf (dims : shape3) (bnds : list Bnd) (sym : Ax -> Z) : Prop :=
    forall a, (1 <= adim dims a)%nat /\ (has_mirror bnds sym a = true -> (2 <= adim dims a)%nat).

  Lemma axis_table dims bnds sym isH a c x :
    (c < 3)%nat -> (1 <= adim dims a)%nat -> (has_mirror bnds sym a = true -> (2 <= adim dims a)%nat) -> xi_ok (adim dims a) x ->
    let p := gax a (sep_final dims bnds sym isH) c (pidx (adim dims a) x) in let e := ext1 dims bnds sym isH a c x in
    (fst p = fst e /\ pred (snd p) = snd e) \/ (fst p = 0 /\ fst e = 0).
  Proof.
    intros Hc Hn Hm Hx. cbv zeta. rewrite gax_final. destruct x as [|i|]; cbn [pidx ext1].
    - apply final_lo; assumption.
    - left. destruct (final_int dims bnds sym isH a c (S i)) as [-> ->]; [cbn in Hx; lia|]. cbn. split; reflexivity.
    - apply final_hi.
  Qed.

  Theorem pad_mirror_ext dims bnds sym isH f c X Y Z :
    wf dims bnds sym -> (c < 3)%nat -> xi_ok (dimx dims) X -> xi_ok (dimy dims) Y -> xi_ok (dimz dims) Z ->
    pad_mirror dims bnds sym isH f c (pidx (dimx dims) X) (pidx (dimy dims) Y) (pidx (dimz dims) Z) = ext dims bnds sym isH f c X Y Z.
  Proof.
    intros Hwf Hc HX HY HZ. rewrite (pad_mirror_separable dims bnds sym isH f c). unfold realize, realize1, ext.
    destruct (Hwf AX) as [Hx1 Hx2]. destruct (Hwf AY) as [Hy1 Hy2]. destruct (Hwf AZ) as [Hz1 Hz2].
    pose proof (axis_table dims bnds sym isH AX c X Hc Hx1 Hx2 HX) as TX.
    pose proof (axis_table dims bnds sym isH AY c Y Hc Hy1 Hy2 HY) as TY.
    pose proof (axis_table dims bnds sym isH AZ c Z Hc Hz1 Hz2 HZ) as TZ.
    cbv zeta in TX, TY, TZ. cbn [gax adim] in TX, TY, TZ.
    destruct TX as [[X1 X2]|[X1 X2]], TY as [[Y1 Y2]|[Y1 Y2]], TZ as [[Z1 Z2]|[Z1 Z2]];
      rewrite ?X1, ?X2, ?Y1, ?Y2, ?Z1, ?Z2; ring.
  Qed.

  Lemma half_mul x : halfc K * x = x / two K.
  Proof. unfold halfc. rewrite !(Fdiv_def (Fth K)). ring. Qed.

  Lemma bea_edge avg a (cur prev : A3) i j k :
    bea avg zero3 a cur prev i j k = edge_avg avg a (ix a i j k) (cur i j k) (prev i j k).
  Proof.
    unfold bea, edge_avg. destruct avg as [g|].
    - replace (Nat.add (adim zero3 a) (ix a i j k)) with (ix a i j k) by (destruct a; reflexivity).
      rewrite !half_mul. unfold prevw. reflexivity.
    - apply half_mul.
  Qed.

  Lemma idx_in n i : Nat.add i 1 = pidx n (In i).
  Proof. cbn. lia. Qed.
  Lemma idx_back n i : Nat.add i 0 = pidx n (back i).
  Proof. destruct i; cbn; lia. Qed.
  Lemma idx_fwd n k : (k < n)%nat -> Nat.add k 2 = pidx n (fwd n k).
  Proof. intros H. unfold fwd. destruct (Nat.eqb (S k) n) eqn:E; cbn; [apply Nat.eqb_eq in E|]; lia. Qed.
  Lemma ok_in n i : (i < n)%nat -> xi_ok n (In i).
  Proof. intros H; exact H. Qed.
  Lemma ok_back n i : (i < n)%nat -> xi_ok n (back i).
  Proof. destruct i; cbn; [trivial|lia]. Qed.
  Lemma ok_fwd n k : (k < n)%nat -> xi_ok n (fwd n k).
  Proof. intros H. unfold fwd. destruct (Nat.eqb (S k) n) eqn:E; cbn; [trivial|]. apply Nat.eqb_neq in E. lia. Qed.

  Lemma sl_ext dims bnds sym isH f c dx dy dz X Y Z i j k :
    wf dims bnds sym -> (c < 3)%nat ->
    Nat.add i dx = pidx (dimx dims) X -> Nat.add j dy = pidx (dimy dims) Y -> Nat.add k dz = pidx (dimz dims) Z ->
    xi_ok (dimx dims) X -> xi_ok (dimy dims) Y -> xi_ok (dimz dims) Z ->
    sl dx dy dz (pad_mirror dims bnds sym isH f c) i j k = ext dims bnds sym isH f c X Y Z.
  Proof. intros Hwf Hc E1 E2 E3 HX HY HZ. unfold sl. rewrite E1, E2, E3. apply pad_mirror_ext; assumption. Qed.

  Ltac rd := apply sl_ext; auto using idx_in, idx_back, idx_fwd, ok_in, ok_back, ok_fwd with arith.

  Theorem full_E_spec avg dims bnds sym E H Hprev c i j k :
    wf dims bnds sym -> (c < 3)%nat -> (i < dimx dims)%nat -> (j < dimy dims)%nat -> (k < dimz dims)%nat ->
    fst (full_interp avg dims bnds sym E H Hprev) c i j k = spec_E avg dims bnds sym E c i j k.
  Proof.
    intros Hwf Hc Hi Hj Hk. unfold full_interp, interp_E, spec_E, mid. cbn [fst].
    destruct c as [|[|[|c]]]; [| | |lia]; rewrite ?bea_edge; cbn [ix]; repeat f_equal; rd.
  Qed.

  Theorem full_H_spec avg dims bnds sym E H Hprev c i j k :
    wf dims bnds sym -> (c < 3)%nat -> (i < dimx dims)%nat -> (j < dimy dims)%nat -> (k < dimz dims)%nat ->
    snd (full_interp avg dims bnds sym E H Hprev) c i j k = spec_H avg dims bnds sym H Hprev c i j k.
  Proof.
    intros Hwf Hc Hi Hj Hk. unfold full_interp, interp_H, spec_H, mid. cbn [snd].
    change (fun c i j k => (Hprev c i j k + H c i j k) / two K) with (havg Hprev H).
    destruct c as [|[|[|c]]]; [| | |lia]; rewrite ?bea_edge; cbn [ix]; repeat f_equal; rd.
  Qed.

  (* ------------------------------------------------------------------ Part 4: interior block path = full path *)
  Lemma pad_mirror_interior dims bnds sym isH (f : Vec) c I J L :
    (1 <= I <= dimx dims)%nat -> (1 <= J <= dimy dims)%nat -> (1 <= L <= dimz dims)%nat ->
    pad_mirror dims bnds sym isH f c I J L = f c (pred I) (pred J) (pred L).
  Proof.
    intros HI HJ HL. rewrite (pad_mirror_separable dims bnds sym isH f c). unfold realize, realize1.
    pose proof (gax_final dims bnds sym isH AX) as GX. pose proof (gax_final dims bnds sym isH AY) as GY.
    pose proof (gax_final dims bnds sym isH AZ) as GZ. cbn [gax] in GX, GY, GZ. rewrite GX, GY, GZ.
    destruct (final_int dims bnds sym isH AX c I HI) as [-> ->].
    destruct (final_int dims bnds sym isH AY c J HJ) as [-> ->].
    destruct (final_int dims bnds sym isH AZ c L HL) as [-> ->]. ring.
  Qed.

  Definition pshift (o : shape3) (p : PVec) : PVec := fun c I J L => p c (ox o I) (oy o J) (oz o L).
  Definition window (i j k : nat) (p q : PVec) : Prop :=
    forall c I J L, (i <= I <= i + 2)%nat -> (j <= J <= j + 2)%nat -> (k <= L <= k + 2)%nat -> p c I J L = q c I J L.

  Lemma interp_E_window avg rs p q c i j k : window i j k p q -> interp_E avg rs p c i j k = interp_E avg rs q c i j k.
  Proof.
    intros Hw. unfold interp_E, bea, sl. destruct c as [|[|c]]; destruct avg; rewrite !Hw by lia; reflexivity.
  Qed.
  Lemma interp_H_window avg rs p q c i j k : window i j k p q -> interp_H avg rs p c i j k = interp_H avg rs q c i j k.
  Proof.
    intros Hw. unfold interp_H, bea, sl. destruct c as [|[|c]]; destruct avg; rewrite !Hw by lia; reflexivity.
  Qed.
  Lemma interp_E_shift avg o p c i j k : interp_E avg o (pshift o p) c i j k = interp_E avg zero3 p c (ox o i) (oy o j) (oz o k).
  Proof.
    unfold interp_E, pshift, sl, bea, ox, oy, oz. destruct c as [|[|c]]; destruct avg; cbn [adim ix zero3 dimx dimy dimz fst snd Nat.add];
      rewrite <- ?Nat.add_assoc; reflexivity.
  Qed.
  Lemma interp_H_shift avg o p c i j k : interp_H avg o (pshift o p) c i j k = interp_H avg zero3 p c (ox o i) (oy o j) (oz o k).
  Proof.
    unfold interp_H, pshift, sl, bea, ox, oy, oz. destruct c as [|[|c]]; destruct avg; cbn [adim ix zero3 dimx dimy dimz fst snd Nat.add];
      rewrite <- ?Nat.add_assoc; reflexivity.
  Qed.

  Lemma interior_bounds dims lo n : is_interior dims lo n = true ->
    forall a, (1 <= adim lo a)%nat /\ (adim lo a + adim n a <= adim dims a - 1)%nat.
  Proof.
    unfold is_interior, interior_ax. intros H a.
    apply andb_prop in H. destruct H as [H Hz]. apply andb_prop in H. destruct H as [Hx Hy].
    apply andb_prop in Hx, Hy, Hz. destruct Hx as [Hx1 Hx2], Hy as [Hy1 Hy2], Hz as [Hz1 Hz2].
    apply Nat.leb_le in Hx1, Hx2, Hy1, Hy2, Hz1, Hz2. destruct a; split; assumption.
  Qed.

  Lemma block_window dims bnds sym isH lo n (f : Vec) i j k :
    is_interior dims lo n = true -> (i < dimx n)%nat -> (j < dimy n)%nat -> (k < dimz n)%nat ->
    window i j k (block lo f) (pshift lo (pad_mirror dims bnds sym isH f)).
  Proof.
    intros Hin Hi Hj Hk c I J L HI HJ HL. pose proof (interior_bounds dims lo n Hin) as B.
    destruct (B AX) as [Bx1 Bx2], (B AY) as [By1 By2], (B AZ) as [Bz1 Bz2]. cbn [adim] in *.
    unfold pshift, block, ox, oy, oz. rewrite pad_mirror_interior by lia. f_equal; lia.
  Qed.

  Theorem interior_eq_full avg dims bnds sym lo n (E H Hprev : Vec) c i j k :
    is_interior dims lo n = true -> (i < dimx n)%nat -> (j < dimy n)%nat -> (k < dimz n)%nat ->
    fst (path_block avg lo E H Hprev) c i j k = fst (path_full avg dims bnds sym lo E H Hprev) c i j k /\
    snd (path_block avg lo E H Hprev) c i j k = snd (path_full avg dims bnds sym lo E H Hprev) c i j k.
  Proof.
    intros Hin Hi Hj Hk. unfold path_block, path_full, full_interp, restrict, restrict3. cbn [fst snd]. split.
    - rewrite (interp_E_window avg lo _ _ c i j k (block_window dims bnds sym false lo n E i j k Hin Hi Hj Hk)).
      apply interp_E_shift.
    - change (havg (block lo Hprev) (block lo H)) with (block lo (havg Hprev H)).
      rewrite (interp_H_window avg lo _ _ c i j k (block_window dims bnds sym true lo n (havg Hprev H) i j k Hin Hi Hj Hk)).
      apply interp_H_shift.
  Qed.

  (* ------------------------------------------------------------------ the record, whichever path is taken *)
  Definition in_box (dims lo n : shape3) : Prop := forall a, (adim lo a + adim n a <= adim dims a)%nat.

  Theorem detector_fields_spec avg dims bnds sym lo n (E H Hprev : Vec) c i j k :
    wf dims bnds sym -> in_box dims lo n -> (c < 3)%nat -> (i < dimx n)%nat -> (j < dimy n)%nat -> (k < dimz n)%nat ->
    fst (detector_fields true avg dims bnds sym lo n E H Hprev) c i j k = restrict lo (spec_E avg dims bnds sym E) c i j k /\
    snd (detector_fields true avg dims bnds sym lo n E H Hprev) c i j k = restrict lo (spec_H avg dims bnds sym H Hprev) c i j k.
  Proof.
    intros Hwf Hb Hc Hi Hj Hk. unfold detector_fields. cbn [negb].
    pose proof (Hb AX) as BX. pose proof (Hb AY) as BY. pose proof (Hb AZ) as BZ. cbn [adim] in *.
    assert (HF : fst (path_full avg dims bnds sym lo E H Hprev) c i j k = restrict lo (spec_E avg dims bnds sym E) c i j k /\
                 snd (path_full avg dims bnds sym lo E H Hprev) c i j k = restrict lo (spec_H avg dims bnds sym H Hprev) c i j k).
    { unfold path_full, restrict, restrict3, ox, oy, oz. cbn [fst snd]. split; [apply full_E_spec|apply full_H_spec]; auto; lia. }
    destruct (is_interior dims lo n) eqn:Ein; [|exact HF].
    destruct (interior_eq_full avg dims bnds sym lo n E H Hprev c i j k Ein Hi Hj Hk) as [-> ->]. exact HF.
  Qed.

  Theorem detector_fields_raw avg dims bnds sym lo n (E H Hprev : Vec) :
    detector_fields false avg dims bnds sym lo n E H Hprev = (restrict lo E, restrict lo H).
  Proof. reflexivity. Qed.

  (* FieldDetector.update: row r of the record is canonical component (nth r sel) of the co-located fields *)
  Theorem record_spec avg dims bnds sym lo n (E H Hprev : Vec) sel r i j k :
    wf dims bnds sym -> in_box dims lo n -> (nth r sel 0 < 6)%nat -> (i < dimx n)%nat -> (j < dimy n)%nat -> (k < dimz n)%nat ->
    record sel (detector_fields true avg dims bnds sym lo n E H Hprev) r i j k =
    EH (restrict lo (spec_E avg dims bnds sym E)) (restrict lo (spec_H avg dims bnds sym H Hprev)) (nth r sel 0%nat) i j k.
  Proof.
    intros Hwf Hb Hs Hi Hj Hk. unfold record, field_spatial, EH.
    destruct (Nat.ltb (nth r sel 0%nat) 3) eqn:E3.
    - apply Nat.ltb_lt in E3. apply (detector_fields_spec avg dims bnds sym lo n E H Hprev _ i j k); assumption.
    - apply Nat.ltb_ge in E3. apply (detector_fields_spec avg dims bnds sym lo n E H Hprev _ i j k); try assumption. lia.
  Qed.

  (* on a rectilinear grid whose cells all have the same non-zero width the weighted average is the arithmetic mean *)
  Lemma dbl_nonzero (w : F) : w <> 0 -> (1 + 1 : F) <> 0 -> w + w <> 0.
  Proof.
    intros Hw H2 Hc. apply Hw. assert (Hx : w = / (1 + 1) * (w + w)) by (field; exact H2). rewrite Hx, Hc. ring.
  Qed.
  Lemma lerp_equal (cur prev w : F) : w <> 0 -> (1 + 1 : F) <> 0 ->
    (cur * (w / (1 + 1)) + prev * (w / (1 + 1))) / (w / (1 + 1) + w / (1 + 1)) = (cur + prev) / (1 + 1).
  Proof.
    intros Hw H2. pose proof (dbl_nonzero w Hw H2) as Hd. field. repeat split; assumption.
  Qed.
  Theorem edge_avg_equal_widths g a i (cur prev : F) w :
    (forall x, gw g a x = w) -> w <> 0 -> (1 + 1 : F) <> 0 -> edge_avg (Some g) a i cur prev = edge_avg None a i cur prev.
  Proof.
    intros Hw Hw0 H2. unfold edge_avg, two. destruct i; rewrite !Hw; apply lerp_equal; assumption.
  Qed.
End ColocateProofs.
