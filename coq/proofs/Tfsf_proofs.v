(* Tfsf_proofs.v — C13 (structural part): exact nulling of the single-face TFSF injection on the 1-D Yee line. *)
From Coq Require Import ZArith Lia Field Ring.
From FV Require Import base.Scalar model.Tfsf.
Local Open Scope fld_scope.

Section TfsfProofs.
  Variable K : Fld.
  Add Field KFtf : (Fth K).
  Variables c ie im : car K.
  Variable k0 : Z.
  (* an incident wave: any solution of the source-free line, given by its samples (e n, h n) *)
  Variables e h : nat -> line K.
  Hypothesis inc_sol : forall n, step_free K c ie im (e n, h n) = (e (S n), h (S n)).

  Lemma e_next n k : e (S n) k = e n k - c * ie * (h n k - h n (k - 1)%Z).
  Proof. pose proof (inc_sol n) as H. unfold step_free in H. cbn in H. injection H as H1 _. rewrite <- H1. reflexivity. Qed.
  Lemma h_next n k : h (S n) k = h n k - c * im * (e (S n) (k + 1)%Z - e (S n) k).
  Proof.
    pose proof (inc_sol n) as H. unfold step_free in H. cbn in H. injection H as H1 H2. rewrite <- H2. unfold stepH1. rewrite H1. reflexivity.
  Qed.

  Lemma snd_step sign Hinc Einc EH k :
    snd (step_src K c ie im sign k0 Hinc Einc EH) k =
    (if Z.eqb k k0 then stepH1 K c im (fst (step_src K c ie im sign k0 Hinc Einc EH)) (snd EH) k + snd (inject_H K sign c im im Einc 0)
     else stepH1 K c im (fst (step_src K c ie im sign k0 Hinc Einc EH)) (snd EH) k).
  Proof. reflexivity. Qed.

  (* direction '+': total field on E cells k > k0 and H cells k >= k0; exactly zero behind the source *)
  Definition form_plus (n : nat) (EH : line K * line K) : Prop :=
    (forall k, fst EH k = if (k0 <? k)%Z then e n k else 0) /\ (forall k, snd EH k = if (k0 <=? k)%Z then h n k else 0).
  Theorem tfsf_plus_exact n EH : form_plus n EH ->
    form_plus (S n) (step_src K c ie im 1 k0 (h n k0) (e (S n) k0) EH).
  Proof.
    intros [HE HH].
    assert (E2: forall k, fst (step_src K c ie im 1 k0 (h n k0) (e (S n) k0) EH) k = if (k0 <? k)%Z then e (S n) k else 0).
    { intros k. unfold step_src, stepE1, inject_E. cbn [fst snd]. rewrite (HE k), (HH k), (HH (k - 1)%Z).
      destruct (Z.eqb_spec k k0) as [->|Hne].
      - replace (k0 <? k0)%Z with false by (symmetry; apply Z.ltb_irrefl).
        replace (k0 <=? k0)%Z with true by (symmetry; apply Z.leb_refl).
        replace (k0 <=? k0 - 1)%Z with false by (symmetry; apply Z.leb_gt; lia). ring.
      - destruct (k0 <? k)%Z eqn:A.
        + apply Z.ltb_lt in A. replace (k0 <=? k)%Z with true by (symmetry; apply Z.leb_le; lia).
          replace (k0 <=? k - 1)%Z with true by (symmetry; apply Z.leb_le; lia). rewrite e_next. ring.
        + apply Z.ltb_ge in A. replace (k0 <=? k)%Z with false by (symmetry; apply Z.leb_gt; lia).
          replace (k0 <=? k - 1)%Z with false by (symmetry; apply Z.leb_gt; lia). ring. }
    split; [exact E2|].
    intros k. rewrite snd_step. unfold stepH1, inject_H. cbn [snd].
    rewrite (E2 (k + 1)%Z), (E2 k), (HH k).
    destruct (Z.eqb_spec k k0) as [->|Hne].
    - replace (k0 <? k0 + 1)%Z with true by (symmetry; apply Z.ltb_lt; lia).
      replace (k0 <? k0)%Z with false by (symmetry; apply Z.ltb_irrefl).
      replace (k0 <=? k0)%Z with true by (symmetry; apply Z.leb_refl). rewrite h_next. ring.
    - destruct (k0 <=? k)%Z eqn:A.
      + apply Z.leb_le in A. replace (k0 <? k + 1)%Z with true by (symmetry; apply Z.ltb_lt; lia).
        replace (k0 <? k)%Z with true by (symmetry; apply Z.ltb_lt; lia). rewrite h_next. ring.
      + apply Z.leb_gt in A. replace (k0 <? k + 1)%Z with false by (symmetry; apply Z.ltb_ge; lia).
        replace (k0 <? k)%Z with false by (symmetry; apply Z.ltb_ge; lia). ring.
  Qed.

  (* direction '-': total field on E cells k <= k0 and H cells k < k0; exactly zero in front of (above) the source *)
  Definition form_minus (n : nat) (EH : line K * line K) : Prop :=
    (forall k, fst EH k = if (k <=? k0)%Z then e n k else 0) /\ (forall k, snd EH k = if (k <? k0)%Z then h n k else 0).
  Theorem tfsf_minus_exact n EH : form_minus n EH ->
    form_minus (S n) (step_src K c ie im (- (1)) k0 (h n k0) (e (S n) k0) EH).
  Proof.
    intros [HE HH].
    assert (E2: forall k, fst (step_src K c ie im (- (1)) k0 (h n k0) (e (S n) k0) EH) k = if (k <=? k0)%Z then e (S n) k else 0).
    { intros k. unfold step_src, stepE1, inject_E. cbn [fst snd]. rewrite (HE k), (HH k), (HH (k - 1)%Z).
      destruct (Z.eqb_spec k k0) as [->|Hne].
      - replace (k0 <=? k0)%Z with true by (symmetry; apply Z.leb_refl).
        replace (k0 <? k0)%Z with false by (symmetry; apply Z.ltb_irrefl).
        replace (k0 - 1 <? k0)%Z with true by (symmetry; apply Z.ltb_lt; lia). rewrite e_next. ring.
      - destruct (k <=? k0)%Z eqn:A.
        + apply Z.leb_le in A. replace (k <? k0)%Z with true by (symmetry; apply Z.ltb_lt; lia).
          replace (k - 1 <? k0)%Z with true by (symmetry; apply Z.ltb_lt; lia). rewrite e_next. ring.
        + apply Z.leb_gt in A. replace (k <? k0)%Z with false by (symmetry; apply Z.ltb_ge; lia).
          replace (k - 1 <? k0)%Z with false by (symmetry; apply Z.ltb_ge; lia). ring. }
    split; [exact E2|].
    intros k. rewrite snd_step. unfold stepH1, inject_H. cbn [snd].
    rewrite (E2 (k + 1)%Z), (E2 k), (HH k).
    destruct (Z.eqb_spec k k0) as [->|Hne].
    - replace (k0 + 1 <=? k0)%Z with false by (symmetry; apply Z.leb_gt; lia).
      replace (k0 <=? k0)%Z with true by (symmetry; apply Z.leb_refl).
      replace (k0 <? k0)%Z with false by (symmetry; apply Z.ltb_irrefl). ring.
    - destruct (k <? k0)%Z eqn:A.
      + apply Z.ltb_lt in A. replace (k + 1 <=? k0)%Z with true by (symmetry; apply Z.leb_le; lia).
        replace (k <=? k0)%Z with true by (symmetry; apply Z.leb_le; lia). rewrite h_next. ring.
      + apply Z.ltb_ge in A. replace (k + 1 <=? k0)%Z with false by (symmetry; apply Z.leb_gt; lia).
        replace (k <=? k0)%Z with false by (symmetry; apply Z.leb_gt; lia). ring.
  Qed.
End TfsfProofs.
