(* Paint_proofs.v — lemmas about model/Paint.v (C28). *)
From Coq Require Import ZArith List Bool Field Ring Lia Permutation Sorted.
From FV Require Import base.Scalar base.PaintBase model.PaintMaterials model.Paint.
Import ListNotations.

Section PaintProofs.
Variable K : OFld.
Variable rel : K.
Add Field KF : (Fth K).
Local Open Scope fld_scope.
Notation T9 := (T9 K). Notation Mat := (Mat K). Notation RObj := (RObj K).

Lemma one_neq_zero : (1 : K) <> 0.
Proof. intro E. apply (f01 K). symmetry. exact E. Qed.

(* ---------- the 3x3 inverse ---------- *)
Definition mul33 (p r : T9) : T9 :=
  mk9 K (t0 K p * t0 K r + t1 K p * t3 K r + t2 K p * t6 K r) (t0 K p * t1 K r + t1 K p * t4 K r + t2 K p * t7 K r)
        (t0 K p * t2 K r + t1 K p * t5 K r + t2 K p * t8 K r)
        (t3 K p * t0 K r + t4 K p * t3 K r + t5 K p * t6 K r) (t3 K p * t1 K r + t4 K p * t4 K r + t5 K p * t7 K r)
        (t3 K p * t2 K r + t4 K p * t5 K r + t5 K p * t8 K r)
        (t6 K p * t0 K r + t7 K p * t3 K r + t8 K p * t6 K r) (t6 K p * t1 K r + t7 K p * t4 K r + t8 K p * t7 K r)
        (t6 K p * t2 K r + t7 K p * t5 K r + t8 K p * t8 K r).
Definition id33 : T9 := mk9 K 1 0 0 0 1 0 0 0 1.

Lemma inv33_right p : det33 K p <> 0 -> mul33 p (inv33 K p) = id33.
Proof.
  intros H. destruct p as [a b c d e f g h i]. unfold mul33, inv33, id33, det33 in *.
  cbn [t0 t1 t2 t3 t4 t5 t6 t7 t8] in *. f_equal; field; exact H.
Qed.
Lemma inv33_left p : det33 K p <> 0 -> mul33 (inv33 K p) p = id33.
Proof.
  intros H. destruct p as [a b c d e f g h i]. unfold mul33, inv33, id33, det33 in *.
  cbn [t0 t1 t2 t3 t4 t5 t6 t7 t8] in *. f_equal; field; exact H.
Qed.

Lemma inv33_both p : det33 K p <> 0 -> mul33 p (inv33 K p) = id33 /\ mul33 (inv33 K p) p = id33.
Proof. intros H. split; [apply inv33_right | apply inv33_left]; exact H. Qed.

Lemma det_inv33 p : det33 K p <> 0 -> det33 K (inv33 K p) * det33 K p = 1.
Proof. intros H. destruct p; unfold inv33, det33 in *; cbn in *. field. exact H. Qed.

Lemma det_inv33_nonzero p : det33 K p <> 0 -> det33 K (inv33 K p) <> 0.
Proof.
  intros H E. pose proof (det_inv33 p H) as HD. rewrite E in HD.
  apply one_neq_zero. rewrite <- HD. ring.
Qed.

Lemma inv33_invol p : det33 K p <> 0 -> inv33 K (inv33 K p) = p.
Proof.
  intros H. pose proof (det_inv33 p H) as HD.
  assert (Hdn : det33 K (inv33 K p) = / det33 K p).
  { transitivity (det33 K (inv33 K p) * det33 K p * / det33 K p); [field; exact H | rewrite HD; ring]. }
  unfold inv33 at 1. rewrite Hdn.
  destruct p as [a b c d e f g h i]. unfold inv33. cbn [t0 t1 t2 t3 t4 t5 t6 t7 t8].
  set (dp := det33 K _) in *.
  f_equal. all: field_simplify_eq.
  all: try (unfold dp, det33; cbn [t0 t1 t2 t3 t4 t5 t6 t7 t8]; ring).
  all: (split; [exact H | apply one_neq_zero]).
Qed.

(* ---------- vectors per tier ---------- *)
(* the property tensor can be inverted at the tier the array uses *)
Definition vec_ok (t : Tier) : Vec K t -> Prop :=
  match t with
  | Iso => fun a => a <> 0
  | Diag => fun '(a, b, c) => a <> 0 /\ b <> 0 /\ c <> 0
  | Full => fun p => det33 K p <> 0
  end.

Lemma vinv_vinv t v : vec_ok t v -> vinv K t (vinv K t v) = v.
Proof.
  destruct t; cbn.
  - intros H. field. split; [exact H | apply one_neq_zero].
  - destruct v as [[a b] c]. intros (Ha & Hb & Hc). f_equal; [f_equal|]; field; (split; [assumption | apply one_neq_zero]).
  - apply inv33_invol.
Qed.

Lemma vblend_one t p v : vblend K t p 1 v = v.
Proof.
  destruct t; cbn.
  - ring.
  - destruct p as [[p1 p2] p3], v as [[v1 v2] v3]. f_equal; [f_equal|]; ring.
  - destruct p, v. unfold t9_blend, t9_map2. cbn. f_equal; ring.
Qed.
Lemma vblend_zero t p v : vblend K t p 0 v = p.
Proof.
  destruct t; cbn.
  - ring.
  - destruct p as [[p1 p2] p3], v as [[v1 v2] v3]. f_equal; [f_equal|]; ring.
  - destruct p, v. unfold t9_blend, t9_map2. cbn. f_equal; ring.
Qed.

(* ---------- generic painter ---------- *)
Section PainterProofs.
Variable S : Type.
Variable wuni : Mat -> S.
Variable wmul : S -> bool -> Mat -> S.
Variable holds : S -> Mat -> Prop.      (* "the cell holds the encoded value of material m" *)
Variable ok : Mat -> Prop.
Hypothesis H_uni : forall m, holds (wuni m) m.
Hypothesis H_mul_true : forall s m0 m, holds s m0 -> ok m0 -> holds (wmul s true m) m.
Hypothesis H_mul_false : forall s m0 m, holds s m0 -> ok m0 -> holds (wmul s false m) m0.

Notation step := (step K S wuni wmul).
Notation paint_from := (paint_from K S wuni wmul).

Definition top_mat (c : cell) (l : list RObj) (m0 : Mat) : Mat :=
  match last_cover K c l with Some o => r_mat K o | None => m0 end.

Lemma paint_from_written c l : forall st m0,
  holds (st c) m0 -> ok m0 -> Forall (fun o => ok (r_mat K o)) l ->
  holds (paint_from st l c) (top_mat c l m0).
Proof.
  induction l as [|o r IH]; intros st m0 Hh Hok Hall; [exact Hh|].
  inversion Hall as [|? ? Ho Hr]; subst.
  unfold paint_from in *. cbn [fold_left].
  assert (Hnext : exists m1, holds (step st o c) m1 /\ ok m1 /\
            top_mat c (o :: r) m0 = top_mat c r m1).
  { unfold step, top_mat. cbv zeta. cbn [last_cover]. unfold covers, mask_at.
    destruct (in_box c (r_box K o)) eqn:Eb; cbn [andb].
    - destruct (r_mask K o) as [mk|] eqn:Em.
      + destruct (mk (local c (r_box K o))) eqn:Emk.
        * exists (r_mat K o). split; [eapply H_mul_true; eassumption|]. split; [exact Ho|].
          destruct (last_cover K c r); reflexivity.
        * exists m0. split; [eapply H_mul_false; eassumption|]. split; [exact Hok|].
          destruct (last_cover K c r); reflexivity.
      + exists (r_mat K o). split; [apply H_uni|]. split; [exact Ho|].
        destruct (last_cover K c r); reflexivity.
    - exists m0. split; [exact Hh|]. split; [exact Hok|]. destruct (last_cover K c r); reflexivity. }
  destruct Hnext as (m1 & Hh1 & Hok1 & ->). apply IH; assumption.
Qed.

Lemma paint_from_grounded c l : forall st,
  grounded K c l = true -> Forall (fun o => ok (r_mat K o)) l ->
  exists o, last_cover K c l = Some o /\ holds (paint_from st l c) (r_mat K o).
Proof.
  induction l as [|o r IH]; intros st Hg Hall; [discriminate|].
  inversion Hall as [|? ? Ho Hr]; subst.
  cbn [grounded] in Hg. unfold paint_from in *. cbn [fold_left].
  destruct (in_box c (r_box K o)) eqn:Eb.
  - destruct (r_mask K o) as [mk|] eqn:Em; [discriminate|].
    assert (Hs : holds (step st o c) (r_mat K o)).
    { unfold step. cbv zeta. rewrite Eb, Em. apply H_uni. }
    pose proof (paint_from_written c r _ _ Hs Ho Hr) as P. unfold top_mat in P.
    cbn [last_cover]. unfold covers, mask_at. rewrite Eb, Em. cbn [andb].
    destruct (last_cover K c r) as [b|]; eexists; split; try reflexivity; exact P.
  - destruct (IH (step st o) Hg Hr) as (b & Hb & Hp).
    exists b. split; [|exact Hp]. cbn [last_cover]. rewrite Hb. reflexivity.
Qed.
End PainterProofs.

(* ---------- stable sort by placement order: the last covering object of the sorted list is the winner ---------- *)
Notation order_le := (order_le K).
Lemma order_le_total a b : order_le a b = true \/ order_le b a = true.
Proof. unfold Paint.order_le. destruct (Z.leb_spec (r_order K a) (r_order K b)); [left; reflexivity|right]. apply Z.leb_le. lia. Qed.
Lemma order_le_trans a b c : order_le a b = true -> order_le b c = true -> order_le a c = true.
Proof. unfold Paint.order_le. rewrite !Z.leb_le. lia. Qed.

Lemma last_cover_in c l o : last_cover K c l = Some o -> In o l /\ covers K c o = true.
Proof.
  induction l as [|x r IH]; cbn; [discriminate|].
  destruct (last_cover K c r) as [b|].
  - intros E. inversion E; subst. destruct (IH eq_refl). split; [right|]; assumption.
  - destruct (covers K c x) eqn:Ec; [|discriminate]. intros E. inversion E; subst. split; [left; reflexivity | exact Ec].
Qed.

Lemma last_cover_none c l : last_cover K c l = None -> forall o, In o l -> covers K c o = false.
Proof.
  induction l as [|x r IH]; cbn; [intros _ o []|].
  destruct (last_cover K c r) as [b|]; [discriminate|].
  destruct (covers K c x) eqn:Ec; [discriminate|].
  intros _ o [<-|Hin]; [exact Ec | apply IH; [reflexivity | exact Hin]].
Qed.

(* inserting o (which precedes all of s in the original list) into the sorted s *)
Lemma last_cover_insert c o s :
  StronglySorted (fun a b => order_le a b = true) s ->
  last_cover K c (insert order_le o s) =
    match last_cover K c s with
    | Some b => if covers K c o && (r_order K b <? r_order K o)%Z then Some o else Some b
    | None => if covers K c o then Some o else None
    end.
Proof.
  induction 1 as [|y r Hs IH Hall]; cbn [insert last_cover].
  - reflexivity.
  - destruct (order_le o y) eqn:E.
    + (* o goes first: everything after has order >= order o *)
      cbn [last_cover].
      destruct (last_cover K c r) as [b|] eqn:Er.
      * destruct (last_cover_in _ _ _ Er) as [Hin _].
        rewrite Forall_forall in Hall. pose proof (Hall b Hin) as Hyb.
        unfold Paint.order_le in *. apply Z.leb_le in E. apply Z.leb_le in Hyb.
        replace (r_order K b <? r_order K o)%Z with false by (symmetry; apply Z.ltb_ge; lia).
        rewrite andb_false_r. reflexivity.
      * destruct (covers K c y) eqn:Ey.
        -- unfold Paint.order_le in E. apply Z.leb_le in E.
           replace (r_order K y <? r_order K o)%Z with false by (symmetry; apply Z.ltb_ge; lia).
           rewrite andb_false_r. reflexivity.
        -- reflexivity.
    + (* order y < order o: o moves past y *)
      cbn [last_cover]. rewrite IH.
      unfold Paint.order_le in E. apply Z.leb_gt in E.
      destruct (last_cover K c r) as [b|] eqn:Er.
      * destruct (covers K c o && (r_order K b <? r_order K o)%Z); reflexivity.
      * destruct (covers K c o) eqn:Eo; cbn [andb].
        -- destruct (covers K c y); [|reflexivity].
           replace (r_order K y <? r_order K o)%Z with true by (symmetry; apply Z.ltb_lt; lia). reflexivity.
        -- destruct (covers K c y); reflexivity.
Qed.

Lemma last_cover_sorted c l : last_cover K c (sort_objs K l) = winner K c l.
Proof.
  induction l as [|o r IH]; [reflexivity|].
  unfold sort_objs in *. cbn [isort winner].
  rewrite last_cover_insert by (apply isort_sorted; [apply order_le_total | apply order_le_trans]).
  rewrite IH. reflexivity.
Qed.

Lemma winner_none_all c l : winner K c l = None -> forall o, In o l -> covers K c o = false.
Proof.
  induction l as [|x r IH]; cbn [winner]; [intros _ o []|].
  destruct (winner K c r) as [b|].
  - destruct (covers K c x && (r_order K b <? r_order K x)%Z); discriminate.
  - destruct (covers K c x) eqn:Ex; [discriminate|].
    intros _ o [<-|Hin]; [exact Ex | apply IH; [reflexivity|exact Hin]].
Qed.

(* what the winner is, in terms of the unsorted list: it covers the cell, no covering object has a
   higher placement order, and among the covering objects of the same order it is the latest *)
Lemma winner_spec c l o :
  winner K c l = Some o ->
  exists i, nth_error l i = Some o /\ covers K c o = true /\
    forall j o', nth_error l j = Some o' -> covers K c o' = true ->
      (r_order K o' < r_order K o)%Z \/ (r_order K o' = r_order K o /\ (j <= i)%nat).
Proof.
  revert o. induction l as [|x r IH]; intros o; cbn [winner]; [discriminate|].
  destruct (winner K c r) as [b|] eqn:Ew.
  - destruct (IH b eq_refl) as (i & Hi & Hcb & Hmax).
    destruct (covers K c x && (r_order K b <? r_order K x)%Z) eqn:E; intros Eo; inversion Eo; subst.
    + apply andb_prop in E. destruct E as [Ex Elt]. apply Z.ltb_lt in Elt.
      exists 0%nat. split; [reflexivity|]. split; [exact Ex|].
      intros [|j] o' Hj Hc'; cbn in Hj.
      * inversion Hj; subst. right. split; [reflexivity|lia].
      * destruct (Hmax j o' Hj Hc') as [Hlt|[Heq _]]; left; lia.
    + exists (Datatypes.S i). split; [exact Hi|]. split; [exact Hcb|].
      intros [|j] o' Hj Hc'; cbn in Hj.
      * inversion Hj; subst. rewrite Hc' in E. cbn [andb] in E. apply Z.ltb_ge in E.
        destruct (Z.eq_dec (r_order K o') (r_order K o)) as [Heq|Hne]; [right; split; [exact Heq|lia] | left; lia].
      * destruct (Hmax j o' Hj Hc') as [Hlt|[Heq Hle]]; [left; exact Hlt | right; split; [exact Heq|lia]].
  - destruct (covers K c x) eqn:Ex; [|discriminate]. intros Eo; inversion Eo; subst.
    exists 0%nat. split; [reflexivity|]. split; [exact Ex|].
    intros [|j] o' Hj Hc'; cbn in Hj.
    + inversion Hj; subst. right. split; [reflexivity|lia].
    + assert (Hin : In o' r) by (eapply nth_error_In; eassumption).
      rewrite (winner_none_all c r Ew o' Hin) in Hc'. discriminate.
Qed.
End PaintProofs.

Section PaintMain.
Variable K : OFld.
Variable rel : K.
Add Field KF2 : (Fth K).
Local Open Scope fld_scope.
Notation T9 := (T9 K). Notation Mat := (Mat K). Notation RObj := (RObj K).

(* the object list position / order characterisation used in the statements *)
Definition is_top (c : cell) (objs : list RObj) (o : RObj) : Prop :=
  exists i, nth_error objs i = Some o /\ covers K c o = true /\
    forall j o', nth_error objs j = Some o' -> covers K c o' = true ->
      (r_order K o' < r_order K o)%Z \/ (r_order K o' = r_order K o /\ (j <= i)%nat).

Lemma sorted_forall (P : RObj -> Prop) objs : Forall P objs -> Forall P (sort_objs K objs).
Proof. intros H. eapply Permutation_Forall; [apply isort_perm | exact H]. Qed.

(* inverse arrays *)
Definition inv_ok (t : Tier) (prop : Mat -> T9) (o : RObj) : Prop := vec_ok K t (pick K t (prop (r_mat K o))).

Theorem paint_inv_top t prop objs c :
  Forall (inv_ok t prop) objs -> grounded K c (sort_objs K objs) = true ->
  exists o, is_top c objs o /\ paint_inv K t prop objs c = Some (vinv K t (pick K t (prop (r_mat K o)))).
Proof.
  intros Hok Hg. unfold paint_inv.
  destruct (paint_from_grounded K (option (Vec K t)) (inv_wuni K t prop) (inv_wmul K t prop)
              (fun s m => s = Some (vinv K t (pick K t (prop m))))
              (fun m => vec_ok K t (pick K t (prop m)))) with (c := c) (l := sort_objs K objs) (st := fun _ : cell => @None (Vec K t))
    as (o & Hl & Hp).
  - intros m. reflexivity.
  - intros s m0 m -> _. unfold inv_wmul, b2k. rewrite vblend_one. reflexivity.
  - intros s m0 m -> H0. unfold inv_wmul, b2k. rewrite vblend_zero. rewrite (vinv_vinv K t _ H0). reflexivity.
  - exact Hg.
  - apply sorted_forall. exact Hok.
  - exists o. split; [|exact Hp].
    rewrite last_cover_sorted in Hl. apply winner_spec. exact Hl.
Qed.

(* conductivity arrays *)
Theorem paint_cond_top t prop sp objs c :
  grounded K c (sort_objs K objs) = true ->
  exists o, is_top c objs o /\ paint_cond K t prop sp objs c = vscale K t sp (pick K t (prop (r_mat K o))).
Proof.
  intros Hg. unfold paint_cond.
  destruct (paint_from_grounded K (Vec K t) (cond_wuni K t prop sp) (cond_wmul K t prop sp)
              (fun s m => s = vscale K t sp (pick K t (prop m))) (fun _ => True))
    with (c := c) (l := sort_objs K objs) (st := fun _ : cell => vzero K t) as (o & Hl & Hp).
  - intros m. reflexivity.
  - intros s m0 m -> _. unfold cond_wmul, b2k. apply vblend_one.
  - intros s m0 m -> _. unfold cond_wmul, b2k. apply vblend_zero.
  - exact Hg.
  - apply Forall_forall. intros; exact I.
  - exists o. split; [|exact Hp].
    rewrite last_cover_sorted in Hl. apply winner_spec. exact Hl.
Qed.

(* the volume grounds every cell it contains: a uniform object whose slice contains the cell and whose
   placement order is strictly below that of every multi-material object touching the cell *)
Lemma grounded_sorted c v s :
  StronglySorted (fun a b => order_le K a b = true) s ->
  In v s -> r_mask K v = None -> in_box c (r_box K v) = true ->
  (forall o, In o s -> r_mask K o <> None -> in_box c (r_box K o) = true -> (r_order K v < r_order K o)%Z) ->
  grounded K c s = true.
Proof.
  induction 1 as [|o r Hs IH Hall]; intros Hin Hm Hb Hlow; [destruct Hin|].
  cbn [grounded]. destruct (in_box c (r_box K o)) eqn:Eb.
  - destruct (r_mask K o) as [mk|] eqn:Em; [|reflexivity].
    exfalso. assert (Hlt : (r_order K v < r_order K o)%Z).
    { apply Hlow; [left; reflexivity | rewrite Em; discriminate | exact Eb]. }
    destruct Hin as [->|Hin]; [congruence|].
    rewrite Forall_forall in Hall. specialize (Hall v Hin). unfold order_le in Hall. apply Z.leb_le in Hall. lia.
  - destruct Hin as [->|Hin]; [congruence|].
    apply IH; try assumption. intros o' Ho'. apply Hlow. right. exact Ho'.
Qed.

Theorem volume_grounds c v objs :
  In v objs -> r_mask K v = None -> in_box c (r_box K v) = true ->
  (forall o, In o objs -> r_mask K o <> None -> in_box c (r_box K o) = true -> (r_order K v < r_order K o)%Z) ->
  grounded K c (sort_objs K objs) = true.
Proof.
  intros Hin Hm Hb Hlow. apply grounded_sorted with (v := v); try assumption.
  - apply isort_sorted; [apply order_le_total | apply order_le_trans].
  - apply isort_in. exact Hin.
  - intros o Ho. apply Hlow. apply isort_in in Ho. exact Ho.
Qed.
End PaintMain.

Section PaintLookupTiers.
Variable K : OFld.
Variable rel : K.
Local Open Scope fld_scope.
Notation T9 := (T9 K). Notation Mat := (Mat K). Notation RObj := (RObj K).

(* ---------- the multi-material lookup through the sorted material list ---------- *)
Lemma in_combine_seq (l : list Mat) : forall s k v,
  In (k, v) (combine (seq s (length l)) l) <-> ((s <= k)%nat /\ nth_error l (k - s) = Some v).
Proof.
  induction l as [|x r IH]; intros s k v; cbn [length seq combine].
  - split; [intros [] | intros [_ H]; destruct (k - s)%nat; discriminate].
  - cbn [In]. rewrite IH. split.
    + intros [E | [Hle Hn]].
      * inversion E; subst. split; [lia|]. rewrite Nat.sub_diag. reflexivity.
      * split; [lia|]. replace (k - s)%nat with (Datatypes.S (k - Datatypes.S s)) by lia. exact Hn.
    + intros [Hle Hn]. destruct (Nat.eq_dec k s) as [->|Hne].
      * rewrite Nat.sub_diag in Hn. cbn in Hn. inversion Hn; subst. left; reflexivity.
      * right. split; [lia|]. replace (k - s)%nat with (Datatypes.S (k - Datatypes.S s)) in Hn by lia. exact Hn.
Qed.

Lemma index_where_none {A} (p : A -> bool) l : (forall x, In x l -> p x = false) -> index_where p l = None.
Proof.
  induction l as [|x r IH]; intros H; [reflexivity|]. cbn.
  rewrite (H x (or_introl eq_refl)). rewrite IH by (intros y Hy; apply H; right; exact Hy). reflexivity.
Qed.

Theorem multi_material_is_named mats sel : multi_material K mats sel = nth_error mats sel.
Proof.
  unfold multi_material, ordered_tuples.
  set (sorted := isort _ (tagged K mats)).
  assert (Hin : forall k v, In (k, v) sorted <-> nth_error mats k = Some v).
  { intros k v. unfold sorted. rewrite isort_in. unfold tagged. rewrite in_combine_seq.
    rewrite Nat.sub_0_r. split; [intros [_ H]; exact H | intros H; split; [lia | exact H]]. }
  destruct (nth_error mats sel) as [m|] eqn:En.
  - pose proof (index_where_unique (fun k => Nat.eqb k sel) sorted sel m) as U.
    cbv beta in U. destruct (index_where _ sorted) as [i|].
    + apply U; [apply Hin; exact En | apply Nat.eqb_refl |].
      intros k' v' Hk' Ek'. apply Nat.eqb_eq in Ek'. subst k'. apply Hin in Hk'. split; congruence.
    + exfalso. apply U; [apply Hin; exact En | apply Nat.eqb_refl |].
      intros k' v' Hk' Ek'. apply Nat.eqb_eq in Ek'. subst k'. apply Hin in Hk'. split; congruence.
  - rewrite index_where_none; [reflexivity|].
    intros [k v] Hkv. cbn. apply Nat.eqb_neq. intros ->. apply Hin in Hkv. congruence.
Qed.

(* ---------- tiers ---------- *)
Lemma isotropic_is_diagonal p : is_isotropic K rel p = true -> is_diagonal K rel p = true.
Proof. unfold is_isotropic, is_diagonal. intros H. apply andb_prop in H. apply H. Qed.

Lemma forallb_impl {A} (p q : A -> bool) l : (forall x, p x = true -> q x = true) -> forallb p l = true -> forallb q l = true.
Proof. intros H. rewrite !forallb_forall. intros Hp x Hx. apply H, Hp, Hx. Qed.

Theorem tier_of_is_max prop mats :
  tier_of K rel prop mats = fold_right (fun m acc => tier_max (need K rel (prop m)) acc) Iso mats.
Proof.
  induction mats as [|m r IH]; [reflexivity|].
  cbn [fold_right]. rewrite <- IH. unfold tier_of, need. cbn [forallb].
  pose proof (isotropic_is_diagonal (prop m)) as Hm.
  pose proof (forallb_impl (fun m => is_isotropic K rel (prop m)) (fun m => is_diagonal K rel (prop m)) r
                (fun x => isotropic_is_diagonal (prop x))) as Hr.
  destruct (is_isotropic K rel (prop m)); destruct (is_diagonal K rel (prop m));
  destruct (forallb (fun m => is_isotropic K rel (prop m)) r); destruct (forallb (fun m => is_diagonal K rel (prop m)) r);
  cbn; try reflexivity; try (specialize (Hm eq_refl); discriminate); try (specialize (Hr eq_refl); discriminate).
Qed.

(* order on tiers *)
Definition tier_le (a b : Tier) : Prop := (tier_n a <= tier_n b)%Z.
Lemma tier_max_ub a b : tier_le a (tier_max a b) /\ tier_le b (tier_max a b).
Proof. destruct a, b; unfold tier_le; cbn; lia. Qed.
Theorem tier_of_widest prop mats :
  (forall m, In m mats -> tier_le (need K rel (prop m)) (tier_of K rel prop mats)) /\
  (mats = [] \/ exists m, In m mats /\ need K rel (prop m) = tier_of K rel prop mats).
Proof.
  rewrite tier_of_is_max. induction mats as [|m r [IH1 IH2]]; cbn [fold_right].
  - split; [intros m []|left; reflexivity].
  - set (acc := fold_right _ Iso r) in *. split.
    + intros x [<-|Hx]; [apply tier_max_ub|].
      specialize (IH1 x Hx). destruct (tier_max_ub (need K rel (prop m)) acc) as [_ H]. unfold tier_le in *. lia.
    + right. destruct IH2 as [->|(x & Hx & Ex)].
      * exists m. split; [left; reflexivity|]. cbn. destruct (need K rel (prop m)); reflexivity.
      * destruct (need K rel (prop m)) eqn:En, acc eqn:Ea; cbn;
        try (exists m; split; [left; reflexivity | exact En]);
        try (exists x; split; [right; exact Hx | exact Ex]).
Qed.

(* ---------- assemble: the arrays are the tabulated paint functions ---------- *)
Lemma combine_map_self {A B} (f : A -> B) l : combine l (map f l) = map (fun x => (x, f x)) l.
Proof. induction l; cbn; [reflexivity | f_equal; assumption]. Qed.

Theorem assemble_reads_paint shape c0 dt cn objs out robjs :
  assemble K rel shape c0 dt cn objs = Some out -> resolve_all K objs = Some robjs ->
  let mats := all_materials K objs in
  let sp := conductivity_spacing K c0 dt cn in
  let te := tier_of K rel (m_eps K) mats in
  out_eps_n K out = tier_n te /\
  combine (cells shape) (out_eps K out) =
    map (fun c => (c, option_map (vlist K te) (paint_inv K te (m_eps K) robjs c))) (cells shape) /\
  (out_mu K out = MuScalarOne K <-> forall m, In m mats -> is_magnetic K rel m = false) /\
  (forall n a, out_mu K out = MuArray K n a ->
     let tm := tier_of K rel (m_mu K) mats in
     n = tier_n tm /\ combine (cells shape) a = map (fun c => (c, option_map (vlist K tm) (paint_inv K tm (m_mu K) robjs c))) (cells shape)) /\
  (out_sige K out = None <-> forall m, In m mats -> is_econductive K rel m = false) /\
  (forall n a, out_sige K out = Some (n, a) ->
     let ts := tier_of K rel (m_sige K) mats in
     n = tier_n ts /\ combine (cells shape) a = map (fun c => (c, vlist K ts (paint_cond K ts (m_sige K) sp robjs c))) (cells shape)) /\
  (out_sigm K out = None <-> forall m, In m mats -> is_mconductive K rel m = false) /\
  (forall n a, out_sigm K out = Some (n, a) ->
     let ts := tier_of K rel (m_sigm K) mats in
     n = tier_n ts /\ combine (cells shape) a = map (fun c => (c, vlist K ts (paint_cond K ts (m_sigm K) sp robjs c))) (cells shape)).
Proof.
  unfold assemble. intros Ha Hr. rewrite Hr in Ha. inversion Ha as [Hout]; clear Ha. cbn zeta.
  assert (Fb : forall (p : Mat -> bool) l, forallb (fun m => negb (p m)) l = true <-> forall m, In m l -> p m = false).
  { intros p l. rewrite forallb_forall. split; intros H m Hm; specialize (H m Hm); [apply negb_true_iff in H | apply negb_true_iff]; exact H. }
  cbn [out_eps_n out_eps out_mu out_sige out_sigm].
  split; [reflexivity|]. split; [unfold tab_inv; apply combine_map_self|].
  split.
  { rewrite <- Fb. destruct (forallb (fun m => negb (is_magnetic K rel m)) (all_materials K objs)); split; intros H; try reflexivity; try discriminate H. }
  split.
  { intros n a. destruct (forallb (fun m => negb (is_magnetic K rel m)) (all_materials K objs)); [discriminate|].
    intros E; inversion E; subst. split; [reflexivity | unfold tab_inv; apply combine_map_self]. }
  split.
  { rewrite <- Fb. destruct (forallb (fun m => negb (is_econductive K rel m)) (all_materials K objs)); split; intros H; try reflexivity; try discriminate H. }
  split.
  { intros n a. destruct (forallb (fun m => negb (is_econductive K rel m)) (all_materials K objs)); [discriminate|].
    intros E; inversion E; subst. split; [reflexivity | unfold tab_cond; apply combine_map_self]. }
  split.
  { rewrite <- Fb. destruct (forallb (fun m => negb (is_mconductive K rel m)) (all_materials K objs)); split; intros H; try reflexivity; try discriminate H. }
  { intros n a. destruct (forallb (fun m => negb (is_mconductive K rel m)) (all_materials K objs)); [discriminate|].
    intros E; inversion E; subst. split; [reflexivity | unfold tab_cond; apply combine_map_self]. }
Qed.
End PaintLookupTiers.

Section PaintNonMagnetic.
Variable K : OFld.
Add Field KF3 : (Fth K).
Local Open Scope fld_scope.
Notation RObj := (RObj K).

Lemma det_id33 : det33 K (id33 K) = 1.
Proof. unfold det33, id33. cbn [t0 t1 t2 t3 t4 t5 t6 t7 t8]. ring. Qed.
Lemma id33_ok t : vec_ok K t (pick K t (id33 K)).
Proof.
  destruct t; cbn [vec_ok pick].
  - apply one_neq_zero.
  - unfold id33; cbn [t0 t4 t8]. repeat split; apply one_neq_zero.
  - rewrite det_id33. apply one_neq_zero.
Qed.
Lemma vinv_id33 t : vinv K t (pick K t (id33 K)) = pick K t (id33 K).
Proof.
  pose proof (one_neq_zero K) as H1.
  assert (E1 : / (1 : K) = 1) by (field; exact H1).
  destruct t.
  - change (/ (1 : K) = 1). exact E1.
  - change ((/ (1 : K), / (1 : K), / (1 : K)) = ((1 : K), (1 : K), (1 : K))). rewrite E1. reflexivity.
  - change (inv33 K (id33 K) = id33 K). unfold inv33. rewrite det_id33.
    unfold id33; cbn [t0 t1 t2 t3 t4 t5 t6 t7 t8]. f_equal; field; exact H1.
Qed.

(* when every material has the identity permeability exactly, the array the magnetic branch would
   build holds 1 in every grounded cell: storing the scalar 1.0 loses nothing *)
Theorem nonmagnetic_array_would_be_one t objs c :
  Forall (fun o : RObj => m_mu K (r_mat K o) = id33 K) objs -> grounded K c (sort_objs K objs) = true ->
  paint_inv K t (m_mu K) objs c = Some (pick K t (id33 K)).
Proof.
  intros Hid Hg.
  destruct (paint_inv_top K t (m_mu K) objs c) as (o & (i & Hi & _) & Hp).
  - eapply Forall_impl; [|exact Hid]. intros o Ho. unfold inv_ok. rewrite Ho. apply id33_ok.
  - exact Hg.
  - rewrite Hp. rewrite Forall_forall in Hid. rewrite (Hid o (nth_error_In _ _ Hi)). rewrite vinv_id33. reflexivity.
Qed.
End PaintNonMagnetic.
