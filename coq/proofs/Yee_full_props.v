(* Yee_full_props.v — C10 / C11 for the fully anisotropic lossless tiers of model/YeeFull.v (PML-free scenes):
   the forward step with 9-component inverse permittivity and / or permeability is linear in (E, H, source terms), and with
   real ghost factors and real data every imaginary part stays zero. *)
From Coq Require Import List Arith Lia Field Ring.
From FV Require Import base.Scalar base.Cplx model.Yee model.YeeExec model.YeeFull proofs.Yee_steps proofs.Yee_linear proofs.Yee_real.
Import ListNotations.
Local Open Scope fld_scope.

Section FullSteps.
  Variable K : Fld.
  Add Field KFfp : (Fth K).
  Notation C := (C K).
  Variable sc : scene K.
  Hypothesis Hpml : pmls K sc = [].

  (* the two half steps of the full tiers as functions of the fields *)
  Definition stepE_full (T : T9 K) (J E H : V3 K) : V3 K :=
    vmask K (mE K sc) (vadd K (vadd K E (tvec K sc (avgE K sc) T (curlH_raw K sc H))) J).
  Definition stepH_full (T : T9 K) (J E' H : V3 K) : V3 K :=
    vmask K (mH K sc) (vadd K (vsub K H (tvec K sc (avgH K sc) T (curlE_raw K sc E'))) J).
  Definition stepE_gen (ie9 : option (T9 K)) := match ie9 with Some T => stepE_full T | None => stepE K sc end.
  Definition stepH_gen (im9 : option (T9 K)) := match im9 with Some T => stepH_full T | None => stepH K sc end.

  Lemma forward_full_steps ie9 im9 s :
    fE (forward_full K sc ie9 im9 s) = stepE_gen ie9 (injE K sc (tstep s)) (fE s) (fH s) /\
    fH (forward_full K sc ie9 im9 s) = stepH_gen im9 (injH K sc (tstep s)) (fE (forward_full K sc ie9 im9 s)) (fH s) /\
    tstep (forward_full K sc ie9 im9 s) = S (tstep s).
  Proof.
    unfold forward_full. destruct ie9, im9; cbn [upd_E upd_H stepE_gen stepH_gen];
      unfold update_E_full, update_H_full, update_E, update_H, curlH, curlE; rewrite Hpml; cbn; repeat split.
  Qed.

  (* ---- pointwise extensionality ---- *)
  Definition aeqA (f g : A3 K) : Prop := forall i j k, f i j k = g i j k.
  Lemma shp_extA a f g : aeqA f g -> aeqA (shp K sc a f) (shp K sc a g).
  Proof. intros H i j k. destruct a as [|[|a]]; cbn [shp]; apply (nxt_extA K); intros q; apply H. Qed.
  Lemma shm_extA a f g : aeqA f g -> aeqA (shm K sc a f) (shm K sc a g).
  Proof. intros H i j k. destruct a as [|[|a]]; cbn [shm]; apply (prv_extA K); intros q; apply H. Qed.
  Lemma avgE_extA f g c l : aeqA f g -> aeqA (avgE K sc f c l) (avgE K sc g c l).
  Proof. intros H i j k. unfold avgE. rewrite (H i j k), (shp_extA l f g H i j k), (shm_extA c f g H i j k), (shp_extA l _ _ (shm_extA c f g H) i j k). reflexivity. Qed.
  Lemma avgH_extA f g c l : aeqA f g -> aeqA (avgH K sc f c l) (avgH K sc g c l).
  Proof. intros H i j k. unfold avgH. rewrite (H i j k), (shm_extA l f g H i j k), (shp_extA c f g H i j k), (shm_extA l _ _ (shp_extA c f g H) i j k). reflexivity. Qed.
  Lemma comp_extA u v r : veqA K u v -> aeqA (comp K u r) (comp K v r).
  Proof. intros H i j k. destruct (H i j k) as (a & b & c). destruct r as [|[|r]]; cbn [comp]; assumption. Qed.
  Lemma tvec_extA avg T u v : (forall f g c l, aeqA f g -> aeqA (avg f c l) (avg g c l)) -> veqA K u v -> veqA K (tvec K sc avg T u) (tvec K sc avg T v).
  Proof.
    intros Havg H i j k.
    assert (L : forall r s, at_loc K avg u r s i j k = at_loc K avg v r s i j k).
    { intros r s. unfold at_loc. destruct (Nat.eqb r s); [apply (comp_extA u v r H) | apply (Havg _ _ s r (comp_extA u v s H))]. }
    unfold tvec, trow; cbn [vx vy vz]. rewrite !L. repeat split.
  Qed.
  Lemma stepE_full_ext T J J' E E' H H' : veqA K J J' -> veqA K E E' -> veqA K H H' -> veqA K (stepE_full T J E H) (stepE_full T J' E' H').
  Proof.
    intros HJ HE HH i j k. destruct (tvec_extA (avgE K sc) T _ _ avgE_extA (curlH_raw_extA K sc H H' HH) i j k) as (t1 & t2 & t3).
    destruct (HJ i j k) as (j1 & j2 & j3). destruct (HE i j k) as (e1 & e2 & e3).
    unfold stepE_full, vmask, vadd, vmap2; cbn [vx vy vz]. rewrite t1, t2, t3, j1, j2, j3, e1, e2, e3. repeat split.
  Qed.
  Lemma stepH_full_ext T J J' E E' H H' : veqA K J J' -> veqA K E E' -> veqA K H H' -> veqA K (stepH_full T J E H) (stepH_full T J' E' H').
  Proof.
    intros HJ HE HH i j k. destruct (tvec_extA (avgH K sc) T _ _ avgH_extA (curlE_raw_extA K sc E E' HE) i j k) as (t1 & t2 & t3).
    destruct (HJ i j k) as (j1 & j2 & j3). destruct (HH i j k) as (e1 & e2 & e3).
    unfold stepH_full, vmask, vadd, vsub, vmap2; cbn [vx vy vz]. rewrite t1, t2, t3, j1, j2, j3, e1, e2, e3. repeat split.
  Qed.

  (* ---- C10: linearity ---- *)
  Section Lin.
    Variables a b : car K.
    Notation lc := (lc K a b). Notation lcV := (lcV K a b).
    Definition lcA (f g : A3 K) : A3 K := fun i j k => lc (f i j k) (g i j k).
    Ltac cx := apply c_eq; unfold Yee_linear.lc, wmix, half, cadd, csub, cscal, cdivr; cbn [fst snd]; rewrite ?(Fdiv_def (Fth K)); ring.
    Lemma shp_lin d f g : aeqA (shp K sc d (lcA f g)) (lcA (shp K sc d f) (shp K sc d g)).
    Proof. intros i j k. destruct d as [|[|d]]; cbn [shp]; unfold lcA; apply (nxt_lc K a b). Qed.
    Lemma shm_lin d f g : aeqA (shm K sc d (lcA f g)) (lcA (shm K sc d f) (shm K sc d g)).
    Proof. intros i j k. destruct d as [|[|d]]; cbn [shm]; unfold lcA; apply (prv_lc K a b). Qed.
    Lemma avgE_lin f g c l : aeqA (avgE K sc (lcA f g) c l) (lcA (avgE K sc f c l) (avgE K sc g c l)).
    Proof.
      intros i j k. unfold avgE.
      rewrite (shp_lin l f g i j k), (shm_lin c f g i j k), (shp_extA l _ _ (shm_lin c f g) i j k), (shp_lin l _ _ i j k).
      unfold lcA. cx.
    Qed.
    Lemma avgH_lin f g c l : aeqA (avgH K sc (lcA f g) c l) (lcA (avgH K sc f c l) (avgH K sc g c l)).
    Proof.
      intros i j k. unfold avgH.
      rewrite (shm_lin l f g i j k), (shp_lin c f g i j k), (shm_extA l _ _ (shp_lin c f g) i j k), (shm_lin l _ _ i j k).
      unfold lcA. cx.
    Qed.
    Lemma comp_lcV u v r : comp K (lcV u v) r = lcA (comp K u r) (comp K v r).
    Proof. destruct r as [|[|r]]; reflexivity. Qed.
    Lemma tvec_lin avg T u v :
      (forall f g c l, aeqA f g -> aeqA (avg f c l) (avg g c l)) ->
      (forall f g c l, aeqA (avg (lcA f g) c l) (lcA (avg f c l) (avg g c l))) ->
      veqA K (tvec K sc avg T (lcV u v)) (lcV (tvec K sc avg T u) (tvec K sc avg T v)).
    Proof.
      intros Hext Hlin i j k.
      assert (L : forall r s, at_loc K avg (lcV u v) r s i j k = lc (at_loc K avg u r s i j k) (at_loc K avg v r s i j k)).
      { intros r s. unfold at_loc. destruct (Nat.eqb r s); rewrite comp_lcV; [reflexivity | apply Hlin]. }
      unfold tvec, trow, Yee_linear.lcV; cbn [vx vy vz]. rewrite !L. repeat split; cx.
    Qed.
    Lemma stepE_full_lin T J1 J2 E1 E2 H1 H2 :
      veqA K (stepE_full T (lcV J1 J2) (lcV E1 E2) (lcV H1 H2)) (lcV (stepE_full T J1 E1 H1) (stepE_full T J2 E2 H2)).
    Proof.
      intros i j k.
      destruct (tvec_extA (avgE K sc) T _ _ avgE_extA (curlH_lin K sc a b H1 H2) i j k) as (x1 & x2 & x3).
      destruct (tvec_lin (avgE K sc) T (curlH_raw K sc H1) (curlH_raw K sc H2) avgE_extA avgE_lin i j k) as (y1 & y2 & y3).
      unfold stepE_full, vmask, vadd, vmap2; cbn [vx vy vz]. rewrite x1, x2, x3, y1, y2, y3. unfold Yee_linear.lcV; cbn [vx vy vz].
      repeat split; cx.
    Qed.
    Lemma stepH_full_lin T J1 J2 E1 E2 H1 H2 :
      veqA K (stepH_full T (lcV J1 J2) (lcV E1 E2) (lcV H1 H2)) (lcV (stepH_full T J1 E1 H1) (stepH_full T J2 E2 H2)).
    Proof.
      intros i j k.
      destruct (tvec_extA (avgH K sc) T _ _ avgH_extA (curlE_lin K sc a b E1 E2) i j k) as (x1 & x2 & x3).
      destruct (tvec_lin (avgH K sc) T (curlE_raw K sc E1) (curlE_raw K sc E2) avgH_extA avgH_lin i j k) as (y1 & y2 & y3).
      unfold stepH_full, vmask, vadd, vsub, vmap2; cbn [vx vy vz]. rewrite x1, x2, x3, y1, y2, y3. unfold Yee_linear.lcV; cbn [vx vy vz].
      repeat split; cx.
    Qed.
    Lemma stepE_gen_lin ie9 J1 J2 E1 E2 H1 H2 :
      veqA K (stepE_gen ie9 (lcV J1 J2) (lcV E1 E2) (lcV H1 H2)) (lcV (stepE_gen ie9 J1 E1 H1) (stepE_gen ie9 J2 E2 H2)).
    Proof. destruct ie9; cbn [stepE_gen]; [apply stepE_full_lin | apply (stepE_lin K sc a b)]. Qed.
    Lemma stepH_gen_lin im9 J1 J2 E1 E2 H1 H2 :
      veqA K (stepH_gen im9 (lcV J1 J2) (lcV E1 E2) (lcV H1 H2)) (lcV (stepH_gen im9 J1 E1 H1) (stepH_gen im9 J2 E2 H2)).
    Proof. destruct im9; cbn [stepH_gen]; [apply stepH_full_lin | apply (stepH_lin K sc a b)]. Qed.
  End Lin.

  Lemma stepE_gen_ext ie9 J J' E E' H H' : veqA K J J' -> veqA K E E' -> veqA K H H' -> veqA K (stepE_gen ie9 J E H) (stepE_gen ie9 J' E' H').
  Proof. destruct ie9; cbn [stepE_gen]; [apply stepE_full_ext | apply (stepE_ext K sc)]. Qed.
  Lemma stepH_gen_ext im9 J J' E E' H H' : veqA K J J' -> veqA K E E' -> veqA K H H' -> veqA K (stepH_gen im9 J E H) (stepH_gen im9 J' E' H').
  Proof. destruct im9; cbn [stepH_gen]; [apply stepH_full_ext | apply (stepH_ext K sc)]. Qed.
End FullSteps.

Section FullLinear.
  Variable K : Fld.
  Variable sc : scene K.
  Variables a b : car K.
  Hypothesis Hpml : pmls K sc = [].
  Variables ie9 im9 : option (T9 K).
  Fixpoint iterF (s0 : scene K) (n : nat) (st : state K) : state K := match n with O => st | S m => iterF s0 m (forward_full K s0 ie9 im9 st) end.

  (* C10 for the full tiers: any number of steps *)
  Theorem forward_full_linear_n jE1 jH1 jE2 jH2 n : forall s1 s2 s3,
    tstep s2 = tstep s1 -> tstep s3 = tstep s1 ->
    veqA K (fE s3) (lcV K a b (fE s1) (fE s2)) -> veqA K (fH s3) (lcV K a b (fH s1) (fH s2)) ->
    let sc1 := with_inj K sc jE1 jH1 in let sc2 := with_inj K sc jE2 jH2 in
    let sc3 := with_inj K sc (fun t => lcV K a b (jE1 t) (jE2 t)) (fun t => lcV K a b (jH1 t) (jH2 t)) in
    veqA K (fE (iterF sc3 n s3)) (lcV K a b (fE (iterF sc1 n s1)) (fE (iterF sc2 n s2))) /\
    veqA K (fH (iterF sc3 n s3)) (lcV K a b (fH (iterF sc1 n s1)) (fH (iterF sc2 n s2))).
  Proof.
    induction n as [|n IH]; intros s1 s2 s3 T2 T3 HE HH sc1 sc2 sc3; [split; assumption|].
    cbn [iterF].
    destruct (forward_full_steps K sc1 Hpml ie9 im9 s1) as (e1 & h1 & t1).
    destruct (forward_full_steps K sc2 Hpml ie9 im9 s2) as (e2 & h2 & t2).
    destruct (forward_full_steps K sc3 Hpml ie9 im9 s3) as (e3 & h3 & t3).
    assert (EE : veqA K (fE (forward_full K sc3 ie9 im9 s3)) (lcV K a b (fE (forward_full K sc1 ie9 im9 s1)) (fE (forward_full K sc2 ie9 im9 s2)))).
    { rewrite e1, e2, e3. cbn [injE sc1 sc2 sc3 with_inj]. rewrite T2, T3.
      eapply veqA_trans; [| apply (stepE_gen_lin K sc a b ie9 (jE1 (tstep s1)) (jE2 (tstep s1)) (fE s1) (fE s2) (fH s1) (fH s2))].
      apply (stepE_gen_ext K sc ie9); [apply veqA_refl | exact HE | exact HH]. }
    apply IH.
    - rewrite t1, t2, T2. reflexivity.
    - rewrite t1, t3, T3. reflexivity.
    - exact EE.
    - rewrite h1, h2, h3. cbn [injH sc1 sc2 sc3 with_inj]. rewrite T2, T3.
      eapply veqA_trans; [| apply (stepH_gen_lin K sc a b im9 (jH1 (tstep s1)) (jH2 (tstep s1)) _ _ (fH s1) (fH s2))].
      apply (stepH_gen_ext K sc im9); [apply veqA_refl | exact EE | exact HH].
  Qed.
End FullLinear.

(* ---- C11 for the full tiers: real ghost factors, real data and real source terms keep every imaginary part at zero ---- *)
Section FullReal.
  Variable K : Fld.
  Add Field KFfq : (Fth K).
  Notation C := (C K).
  Variable sc : scene K.
  Hypothesis Hpml : pmls K sc = [].
  Hypothesis Ghost : realC K (hix K sc) /\ realC K (hiy K sc) /\ realC K (hiz K sc) /\ realC K (lox K sc) /\ realC K (loy K sc) /\ realC K (loz K sc).
  Hypothesis InjReal : forall t, realV K (injE K sc t) /\ realV K (injH K sc t).
  Definition realA (f : A3 K) : Prop := forall i j k, realC K (f i j k).

  Lemma shp_real a f : realA f -> realA (shp K sc a f).
  Proof. intros R i j k. destruct Ghost as (g1 & g2 & g3 & _). destruct a as [|[|a]]; cbn [shp]; apply (nxt_real K); try assumption; intros q; apply R. Qed.
  Lemma shm_real a f : realA f -> realA (shm K sc a f).
  Proof. intros R i j k. destruct Ghost as (_ & _ & _ & g4 & g5 & g6). destruct a as [|[|a]]; cbn [shm]; apply (prv_real K); try assumption; intros q; apply R. Qed.
  Ltac re := unfold realC, wmix, half, cadd, csub, cscal, cdivr in *; cbn [fst snd] in *.
  Lemma avgE_real f c l : realA f -> realA (avgE K sc f c l).
  Proof.
    intros R i j k. pose proof (R i j k) as r0. pose proof (shp_real l f R i j k) as r1. pose proof (shm_real c f R i j k) as r2.
    pose proof (shp_real l _ (shm_real c f R) i j k) as r3. unfold avgE. re. rewrite r0, r1, r2, r3. ring.
  Qed.
  Lemma avgH_real f c l : realA f -> realA (avgH K sc f c l).
  Proof.
    intros R i j k. pose proof (R i j k) as r0. pose proof (shm_real l f R i j k) as r1. pose proof (shp_real c f R i j k) as r2.
    pose proof (shm_real l _ (shp_real c f R) i j k) as r3. unfold avgH. re. rewrite r0, r1, r2, r3. ring.
  Qed.
  Lemma comp_real v r : realV K v -> realA (comp K v r).
  Proof. intros R i j k. destruct (R i j k) as (a & b & c). destruct r as [|[|r]]; cbn [comp]; assumption. Qed.
  Lemma tvec_real avg T v : (forall f c l, realA f -> realA (avg f c l)) -> realV K v -> realV K (tvec K sc avg T v).
  Proof.
    intros Havg R i j k.
    assert (L : forall r s, realC K (at_loc K avg v r s i j k)).
    { intros r s. unfold at_loc. destruct (Nat.eqb r s); [apply (comp_real v r R) | apply (Havg _ s r (comp_real v s R))]. }
    unfold tvec, trow; cbn [vx vy vz].
    pose proof (L 0%nat 0%nat) as a00. pose proof (L 0%nat 1%nat) as a01. pose proof (L 0%nat 2%nat) as a02.
    pose proof (L 1%nat 0%nat) as a10. pose proof (L 1%nat 1%nat) as a11. pose proof (L 1%nat 2%nat) as a12.
    pose proof (L 2%nat 0%nat) as a20. pose proof (L 2%nat 1%nat) as a21. pose proof (L 2%nat 2%nat) as a22.
    re. repeat split; rewrite ?a00, ?a01, ?a02, ?a10, ?a11, ?a12, ?a20, ?a21, ?a22; ring.
  Qed.
  Lemma stepE_gen_real ie9 J E H : realV K J -> realV K E -> realV K H -> realV K (stepE_gen K sc ie9 J E H).
  Proof.
    intros RJ RE RH. destruct ie9 as [T|]; cbn [stepE_gen]; [|apply (stepE_real K sc Ghost); assumption].
    intros i j k. destruct (tvec_real (avgE K sc) T _ avgE_real (curlH_real K sc Ghost H RH) i j k) as (t1 & t2 & t3).
    destruct (RJ i j k) as (j1 & j2 & j3). destruct (RE i j k) as (e1 & e2 & e3).
    unfold stepE_full, vmask, vadd, vmap2; cbn [vx vy vz]. re. repeat split; rewrite ?t1, ?t2, ?t3, ?j1, ?j2, ?j3, ?e1, ?e2, ?e3; ring.
  Qed.
  Lemma stepH_gen_real im9 J E H : realV K J -> realV K E -> realV K H -> realV K (stepH_gen K sc im9 J E H).
  Proof.
    intros RJ RE RH. destruct im9 as [T|]; cbn [stepH_gen]; [|apply (stepH_real K sc Ghost); assumption].
    intros i j k. destruct (tvec_real (avgH K sc) T _ avgH_real (curlE_real K sc Ghost E RE) i j k) as (t1 & t2 & t3).
    destruct (RJ i j k) as (j1 & j2 & j3). destruct (RH i j k) as (e1 & e2 & e3).
    unfold stepH_full, vmask, vadd, vsub, vmap2; cbn [vx vy vz]. re. repeat split; rewrite ?t1, ?t2, ?t3, ?j1, ?j2, ?j3, ?e1, ?e2, ?e3; ring.
  Qed.

  Variables ie9 im9 : option (T9 K).
  Fixpoint iterFR (n : nat) (s : state K) : state K := match n with O => s | S m => iterFR m (forward_full K sc ie9 im9 s) end.
  Theorem forward_full_real_n n : forall s, realV K (fE s) -> realV K (fH s) -> realV K (fE (iterFR n s)) /\ realV K (fH (iterFR n s)).
  Proof.
    induction n as [|n IH]; intros s RE RH; [split; assumption|]. cbn [iterFR].
    destruct (forward_full_steps K sc Hpml ie9 im9 s) as (e & h & _).
    assert (A : realV K (fE (forward_full K sc ie9 im9 s))) by (rewrite e; apply stepE_gen_real; [apply InjReal | exact RE | exact RH]).
    apply IH; [exact A|]. rewrite h. apply stepH_gen_real; [apply InjReal | exact A | exact RH].
  Qed.
End FullReal.
