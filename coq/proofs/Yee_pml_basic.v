(* Yee_pml_basic.v — elementary facts about interface restoration and field reset (C03). *)
From Coq Require Import List Arith Bool Lia.
From FV Require Import base.Scalar base.Cplx model.Yee.
Import ListNotations.

Section PmlBasic.
  Variable K : Fld.
  Variable sc : scene K.

  Lemma restoreA_iface r f i j k : is_iface K sc i j k = true -> restoreA K sc r f i j k = r i j k.
  Proof. intros H. unfold restoreA. rewrite H. reflexivity. Qed.
  Lemma restoreA_other r f i j k : is_iface K sc i j k = false -> restoreA K sc r f i j k = f i j k.
  Proof. intros H. unfold restoreA. rewrite H. reflexivity. Qed.
  Lemma resetA_pml f i j k : in_any_pml K sc i j k = true -> resetA K sc f i j k = c0.
  Proof. intros H. unfold resetA. rewrite H. reflexivity. Qed.
  Lemma resetA_interior f i j k : in_any_pml K sc i j k = false -> resetA K sc f i j k = f i j k.
  Proof. intros H. unfold resetA. rewrite H. reflexivity. Qed.
  (* an interface cell belongs to its layer *)
  Lemma iface_in_pml i j k : is_iface K sc i j k = true -> in_any_pml K sc i j k = true.
  Proof.
    unfold is_iface, in_any_pml. rewrite !existsb_exists. intros (p & Hp & H). exists p. split; [exact Hp|].
    unfold in_iface in H. apply andb_true_iff in H. tauto.
  Qed.
  (* without absorbing layers the recording backward step is the plain backward step *)
  Lemma backward_rec_nopml rec s : pmls K sc = [] ->
    forall i j k,
      vx (fE (backward_rec K sc rec s)) i j k = vx (fE (backward K sc s)) i j k /\
      vx (fH (backward_rec K sc rec s)) i j k = vx (fH (backward K sc s)) i j k.
  Proof.
    intros Hp i j k. unfold backward_rec, backward, update_E_rev, update_H_rev, curlE, curlH. rewrite Hp. cbn.
    unfold resetA, restoreA, in_any_pml, is_iface. rewrite Hp. cbn. split; reflexivity.
  Qed.
End PmlBasic.
