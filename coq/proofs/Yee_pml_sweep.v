(* Yee_pml_sweep.v — C03: the recorded-interface reverse sweep reconstructs the forward run on every cell outside
   the absorbing layers, at every step.  Layers have kappa = 1 and a = 0 on their interface row (default grading, C12). *)
From Coq Require Import List Arith Bool Lia Field Ring.
From FV Require Import base.Scalar base.Cplx model.Yee proofs.Yee_pml_loop proofs.Yee_reverse.
Import ListNotations.
Local Open Scope fld_scope.

Section Sweep.
  Variable K : Fld.
  Add Field KFsw : (Fth K).
  Notation C := (C K).
  Variable sc : scene K.
  Notation nx := (nx K sc). Notation ny := (ny K sc). Notation nz := (nz K sc).

  (* ---- hypotheses on the scene ---- *)
  Hypothesis HK : forall p, In p (pmls K sc) -> p_kappa1 K p = true.
  Hypothesis HA : forall p, In p (pmls K sc) -> forall i j k, in_iface K p i j k = true ->
                  p_aE K p (pml_depth K p i j k) = 0 /\ p_aH K p (pml_depth K p i j k) = 0.
  (* which axes wrap (periodic / Bloch); a non-wrapping axis has zero ghost factors *)
  Variables wrapx wrapy wrapz : bool.
  Hypothesis Hwx : wrapx = false -> hix K sc = c0 /\ lox K sc = c0.
  Hypothesis Hwy : wrapy = false -> hiy K sc = c0 /\ loy K sc = c0.
  Hypothesis Hwz : wrapz = false -> hiz K sc = c0 /\ loz K sc = c0.
  (* per-cell reversibility conditions (as in C02): 0/1 masks, 1 +- f <> 0 *)
  Record cells_ok : Prop := {
    co_mE : forall i j k, inb K sc i j k -> (m1 (mE K sc) i j k = 0 \/ m1 (mE K sc) i j k = 1) /\ (m2 (mE K sc) i j k = 0 \/ m2 (mE K sc) i j k = 1) /\ (m3 (mE K sc) i j k = 0 \/ m3 (mE K sc) i j k = 1);
    co_mH : forall i j k, inb K sc i j k -> (m1 (mH K sc) i j k = 0 \/ m1 (mH K sc) i j k = 1) /\ (m2 (mH K sc) i j k = 0 \/ m2 (mH K sc) i j k = 1) /\ (m3 (mH K sc) i j k = 0 \/ m3 (mH K sc) i j k = 1);
    co_fE : forall i j k, inb K sc i j k ->
       let f1 := fE1 K sc (m1 (ieps K sc)) (m1 (sigE K sc)) i j k in let f2 := fE1 K sc (m2 (ieps K sc)) (m2 (sigE K sc)) i j k in
       let f3 := fE1 K sc (m3 (ieps K sc)) (m3 (sigE K sc)) i j k in
       (1 + f1 <> 0 /\ 1 - f1 <> 0) /\ (1 + f2 <> 0 /\ 1 - f2 <> 0) /\ (1 + f3 <> 0 /\ 1 - f3 <> 0);
    co_fH : forall i j k, inb K sc i j k ->
       let f1 := fH1 K sc (m1 (imu K sc)) (m1 (sigH K sc)) i j k in let f2 := fH1 K sc (m2 (imu K sc)) (m2 (sigH K sc)) i j k in
       let f3 := fH1 K sc (m3 (imu K sc)) (m3 (sigH K sc)) i j k in
       (1 + f1 <> 0 /\ 1 - f1 <> 0) /\ (1 + f2 <> 0 /\ 1 - f2 <> 0) /\ (1 + f3 <> 0 /\ 1 - f3 <> 0)
  }.
  Hypothesis CO : cells_ok.

  (* ---- cell sets (all decidable) ---- *)
  Definition inI (i j k : nat) : bool := negb (in_any_pml K sc i j k).                       (* outside every layer *)
  Definition cleanb (i j k : nat) : bool := forallb (fun p => implb (in_pml K p i j k) (in_iface K p i j k)) (pmls K sc).
  Definition A1 (i j k : nat) : bool := inI i j k || is_iface K sc i j k.                     (* correct after interface restoration *)
  Definition fwd_ok (A : nat -> nat -> nat -> bool) (i j k : nat) : bool :=
    (if S i <? nx then A (S i) j k else implb wrapx (A O j k)) &&
    (if S j <? ny then A i (S j) k else implb wrapy (A i O k)) &&
    (if S k <? nz then A i j (S k) else implb wrapz (A i j O)).
  Definition bwd_ok (A : nat -> nat -> nat -> bool) (i j k : nat) : bool :=
    (match i with O => implb wrapx (A (nx - 1)%nat j k) | S a => A a j k end) &&
    (match j with O => implb wrapy (A i (ny - 1)%nat k) | S a => A i a k end) &&
    (match k with O => implb wrapz (A i j (nz - 1)%nat) | S a => A i j a end).
  Definition Bset (i j k : nat) : bool := cleanb i j k && A1 i j k && fwd_ok A1 i j k.       (* reverse H update is exact here *)
  Definition Gcell (i j k : nat) : bool := Bset i j k && bwd_ok Bset i j k.
  (* geometry hypothesis: every interior cell has its stencil inside the reconstructible sets *)
  Definition geometry_ok : Prop := forall i j k, inb K sc i j k -> inI i j k = true -> Gcell i j k = true.

  (* psi accumulators vanish on interface rows *)
  Definition psi_zero (psis : list (psi_t K)) : Prop :=
    Forall2 (fun p psi => forall i j k, in_iface K p i j k = true -> fst psi i j k = c0 /\ snd psi i j k = c0) (pmls K sc) psis.

  Lemma inI_clean i j k : inI i j k = true -> cleanb i j k = true.
  Proof.
    unfold inI, cleanb, in_any_pml. intros H. apply negb_true_iff in H. apply forallb_forall. intros p Hp.
    destruct (in_pml K p i j k) eqn:E; [|reflexivity].
    exfalso. assert (existsb (fun p0 => in_pml K p0 i j k) (pmls K sc) = true) by (apply existsb_exists; exists p; split; assumption). congruence.
  Qed.

  Lemma clean_quiet isE psis i j k : psi_zero psis -> cleanb i j k = true ->
    Forall2 (fun p psi => quiet K isE p psi i j k) (pmls K sc) psis.
  Proof.
    unfold psi_zero, cleanb. intros HP HC. rewrite forallb_forall in HC.
    assert (G: forall ps psis', (forall p, In p ps -> In p (pmls K sc)) ->
                Forall2 (fun p psi => forall i j k, in_iface K p i j k = true -> fst psi i j k = c0 /\ snd psi i j k = c0) ps psis' ->
                Forall2 (fun p psi => quiet K isE p psi i j k) ps psis').
    { induction ps as [|p ps IH]; intros psis' Hin HF; inversion HF; subst; constructor.
      - intros Hp. assert (Ip: In p (pmls K sc)) by (apply Hin; left; reflexivity).
        specialize (HC p Ip). rewrite Hp in HC. cbn in HC.
        destruct (HA p Ip i j k HC) as [a1 a2]. destruct (H1 i j k HC) as [z1 z2].
        split; [apply HK; exact Ip|]. split; [destruct isE; assumption|]. split; assumption.
      - apply IH; [intros q Hq; apply Hin; right; exact Hq | assumption]. }
    apply G; [auto | exact HP].
  Qed.

  (* ---- unfolding the updates through the (fst, snd) of the curl pair ---- *)
  Lemma update_E_unfold sim s :
    let kc := fst (curlH K sc sim (fH s) (psiE s)) in let ie := ieps K sc in let sg := sigE K sc in let E := fE s in
    update_E K sc sim s =
    mkSt (tstep s) (vmask K (mE K sc) (vadd K (mkV (updE1 K sc (m1 ie) (fE1 K sc (m1 ie) (m1 sg)) (vx E) (vx kc))
                                                (updE1 K sc (m2 ie) (fE1 K sc (m2 ie) (m2 sg)) (vy E) (vy kc))
                                                (updE1 K sc (m3 ie) (fE1 K sc (m3 ie) (m3 sg)) (vz E) (vz kc))) (injE K sc (tstep s))))
         (fH s) (snd (curlH K sc sim (fH s) (psiE s))) (psiH s).
  Proof. cbv zeta. unfold update_E. destruct (curlH K sc sim (fH s) (psiE s)). reflexivity. Qed.
  Lemma update_H_unfold sim s :
    let kc := fst (curlE K sc sim (fE s) (psiH s)) in let im := imu K sc in let sg := sigH K sc in let H := fH s in
    update_H K sc sim s =
    mkSt (tstep s) (fE s) (vmask K (mH K sc) (vadd K (mkV (updH1 K sc (m1 im) (fH1 K sc (m1 im) (m1 sg)) (vx H) (vx kc))
                                                        (updH1 K sc (m2 im) (fH1 K sc (m2 im) (m2 sg)) (vy H) (vy kc))
                                                        (updH1 K sc (m3 im) (fH1 K sc (m3 im) (m3 sg)) (vz H) (vz kc))) (injH K sc (tstep s))))
         (psiE s) (snd (curlE K sc sim (fE s) (psiH s))).
  Proof. cbv zeta. unfold update_H. destruct (curlE K sc sim (fE s) (psiH s)). reflexivity. Qed.

  (* at a clean cell the curls with CPML are the raw curls *)
  Lemma curlH_clean sim H psis i j k : psi_zero psis -> cleanb i j k = true ->
    vx (fst (curlH K sc sim H psis)) i j k = vx (curlH_raw K sc H) i j k /\
    vy (fst (curlH K sc sim H psis)) i j k = vy (curlH_raw K sc H) i j k /\
    vz (fst (curlH K sc sim H psis)) i j k = vz (curlH_raw K sc H) i j k.
  Proof.
    intros HP HC. unfold curlH.
    pose proof (fun d => pml_loop_quiet K false sim i j k d (pmls K sc) psis (curlH_raw K sc H) (clean_quiet false psis i j k HP HC)) as Q.
    match goal with |- context [pml_loop K false sim (pmls K sc) psis ?d _] => destruct (Q d) as (a & b & c & _) end.
    repeat split; assumption.
  Qed.
  Lemma curlE_clean sim E psis i j k : psi_zero psis -> cleanb i j k = true ->
    vx (fst (curlE K sc sim E psis)) i j k = vx (curlE_raw K sc E) i j k /\
    vy (fst (curlE K sc sim E psis)) i j k = vy (curlE_raw K sc E) i j k /\
    vz (fst (curlE K sc sim E psis)) i j k = vz (curlE_raw K sc E) i j k.
  Proof.
    intros HP HC. unfold curlE.
    pose proof (fun d => pml_loop_quiet K true sim i j k d (pmls K sc) psis (curlE_raw K sc E) (clean_quiet true psis i j k HP HC)) as Q.
    match goal with |- context [pml_loop K true sim (pmls K sc) psis ?d _] => destruct (Q d) as (a & b & c & _) end.
    repeat split; assumption.
  Qed.

  (* ---- locality of the raw curls ---- *)
  Definition agrees (u v : V3 K) (A : nat -> nat -> nat -> bool) : Prop :=
    forall i j k, inb K sc i j k -> A i j k = true -> vx u i j k = vx v i j k /\ vy u i j k = vy v i j k /\ vz u i j k = vz v i j k.

  Lemma cmul_c0 (z : C) : cmul c0 z = c0.
  Proof. destruct z; unfold cmul, Cplx.c0; cbn. f_equal; ring. Qed.

  Lemma nxt_agree n hi (wrap : bool) (f g : nat -> C) i (A : nat -> bool) :
    (i < n)%nat -> (wrap = false -> hi = c0) -> (forall q, (q < n)%nat -> A q = true -> f q = g q) ->
    (if S i <? n then A (S i) else implb wrap (A O)) = true -> nxt K n hi f i = nxt K n hi g i.
  Proof.
    intros Hi Hw Hfg HA'. unfold nxt. destruct (S i <? n) eqn:E.
    - apply Nat.ltb_lt in E. apply Hfg; assumption.
    - destruct wrap; [cbn in HA'; rewrite (Hfg O) by (lia || assumption); reflexivity | rewrite (Hw eq_refl), !cmul_c0; reflexivity].
  Qed.
  Lemma prv_agree n lo (wrap : bool) (f g : nat -> C) i (A : nat -> bool) :
    (i < n)%nat -> (wrap = false -> lo = c0) -> (forall q, (q < n)%nat -> A q = true -> f q = g q) ->
    (match i with O => implb wrap (A (n - 1)%nat) | S a => A a end) = true -> prv K n lo f i = prv K n lo g i.
  Proof.
    intros Hi Hw Hfg HA'. unfold prv. destruct i as [|a].
    - destruct wrap; [cbn in HA'; rewrite (Hfg (n - 1)%nat) by (lia || assumption); reflexivity | rewrite (Hw eq_refl), !cmul_c0; reflexivity].
    - apply Hfg; [lia | assumption].
  Qed.

  Lemma curlE_raw_agree u v A i j k : agrees u v A -> inb K sc i j k -> A i j k = true -> fwd_ok A i j k = true ->
    vx (curlE_raw K sc u) i j k = vx (curlE_raw K sc v) i j k /\
    vy (curlE_raw K sc u) i j k = vy (curlE_raw K sc v) i j k /\
    vz (curlE_raw K sc u) i j k = vz (curlE_raw K sc v) i j k.
  Proof.
    intros HA' (Hi & Hj & Hk) Hc Hf. unfold fwd_ok in Hf. apply andb_true_iff in Hf. destruct Hf as [Hf Fz]. apply andb_true_iff in Hf. destruct Hf as [Fx Fy].
    destruct (HA' i j k (conj Hi (conj Hj Hk)) Hc) as (e1 & e2 & e3).
    unfold curlE_raw, dpx, dpy, dpz; cbn [vx vy vz]. rewrite e1, e2, e3.
    rewrite (nxt_agree ny (hiy K sc) wrapy (fun a => vz u i a k) (fun a => vz v i a k) j (fun a => A i a k) Hj (fun w => proj1 (Hwy w))
               (fun q Hq Aq => proj2 (proj2 (HA' i q k (conj Hi (conj Hq Hk)) Aq))) Fy).
    rewrite (nxt_agree nz (hiz K sc) wrapz (fun a => vy u i j a) (fun a => vy v i j a) k (fun a => A i j a) Hk (fun w => proj1 (Hwz w))
               (fun q Hq Aq => proj1 (proj2 (HA' i j q (conj Hi (conj Hj Hq)) Aq))) Fz).
    rewrite (nxt_agree nz (hiz K sc) wrapz (fun a => vx u i j a) (fun a => vx v i j a) k (fun a => A i j a) Hk (fun w => proj1 (Hwz w))
               (fun q Hq Aq => proj1 (HA' i j q (conj Hi (conj Hj Hq)) Aq)) Fz).
    rewrite (nxt_agree nx (hix K sc) wrapx (fun a => vz u a j k) (fun a => vz v a j k) i (fun a => A a j k) Hi (fun w => proj1 (Hwx w))
               (fun q Hq Aq => proj2 (proj2 (HA' q j k (conj Hq (conj Hj Hk)) Aq))) Fx).
    rewrite (nxt_agree nx (hix K sc) wrapx (fun a => vy u a j k) (fun a => vy v a j k) i (fun a => A a j k) Hi (fun w => proj1 (Hwx w))
               (fun q Hq Aq => proj1 (proj2 (HA' q j k (conj Hq (conj Hj Hk)) Aq))) Fx).
    rewrite (nxt_agree ny (hiy K sc) wrapy (fun a => vx u i a k) (fun a => vx v i a k) j (fun a => A i a k) Hj (fun w => proj1 (Hwy w))
               (fun q Hq Aq => proj1 (HA' i q k (conj Hi (conj Hq Hk)) Aq)) Fy).
    repeat split.
  Qed.
  Lemma curlH_raw_agree u v A i j k : agrees u v A -> inb K sc i j k -> A i j k = true -> bwd_ok A i j k = true ->
    vx (curlH_raw K sc u) i j k = vx (curlH_raw K sc v) i j k /\
    vy (curlH_raw K sc u) i j k = vy (curlH_raw K sc v) i j k /\
    vz (curlH_raw K sc u) i j k = vz (curlH_raw K sc v) i j k.
  Proof.
    intros HA' (Hi & Hj & Hk) Hc Hf. unfold bwd_ok in Hf. apply andb_true_iff in Hf. destruct Hf as [Hf Fz]. apply andb_true_iff in Hf. destruct Hf as [Fx Fy].
    destruct (HA' i j k (conj Hi (conj Hj Hk)) Hc) as (e1 & e2 & e3).
    unfold curlH_raw, dmx, dmy, dmz; cbn [vx vy vz]. rewrite e1, e2, e3.
    rewrite (prv_agree ny (loy K sc) wrapy (fun a => vz u i a k) (fun a => vz v i a k) j (fun a => A i a k) Hj (fun w => proj2 (Hwy w))
               (fun q Hq Aq => proj2 (proj2 (HA' i q k (conj Hi (conj Hq Hk)) Aq))) Fy).
    rewrite (prv_agree nz (loz K sc) wrapz (fun a => vy u i j a) (fun a => vy v i j a) k (fun a => A i j a) Hk (fun w => proj2 (Hwz w))
               (fun q Hq Aq => proj1 (proj2 (HA' i j q (conj Hi (conj Hj Hq)) Aq))) Fz).
    rewrite (prv_agree nz (loz K sc) wrapz (fun a => vx u i j a) (fun a => vx v i j a) k (fun a => A i j a) Hk (fun w => proj2 (Hwz w))
               (fun q Hq Aq => proj1 (HA' i j q (conj Hi (conj Hj Hq)) Aq)) Fz).
    rewrite (prv_agree nx (lox K sc) wrapx (fun a => vz u a j k) (fun a => vz v a j k) i (fun a => A a j k) Hi (fun w => proj2 (Hwx w))
               (fun q Hq Aq => proj2 (proj2 (HA' q j k (conj Hq (conj Hj Hk)) Aq))) Fx).
    rewrite (prv_agree nx (lox K sc) wrapx (fun a => vy u a j k) (fun a => vy v a j k) i (fun a => A a j k) Hi (fun w => proj2 (Hwx w))
               (fun q Hq Aq => proj1 (proj2 (HA' q j k (conj Hq (conj Hj Hk)) Aq))) Fx).
    rewrite (prv_agree ny (loy K sc) wrapy (fun a => vx u i a k) (fun a => vx v i a k) j (fun a => A i a k) Hj (fun w => proj2 (Hwy w))
               (fun q Hq Aq => proj1 (HA' i q k (conj Hi (conj Hq Hk)) Aq)) Fy).
    repeat split.
  Qed.

  (* ---- forward step with absorbing layers, at clean cells ---- *)
  Lemma fE_forward s : fE (forward K sc s) = fE (update_E K sc true s).
  Proof. unfold forward. rewrite update_H_unfold. reflexivity. Qed.
  Lemma fwd_clean_E s i j k : psi_zero (psiE s) -> cleanb i j k = true ->
    let kc := curlH_raw K sc (fH s) in let ie := ieps K sc in let sg := sigE K sc in let E := fE s in let J := injE K sc (tstep s) in
    vx (fE (forward K sc s)) i j k = cscal (m1 (mE K sc) i j k) (cadd (updE1 K sc (m1 ie) (fE1 K sc (m1 ie) (m1 sg)) (vx E) (vx kc) i j k) (vx J i j k)) /\
    vy (fE (forward K sc s)) i j k = cscal (m2 (mE K sc) i j k) (cadd (updE1 K sc (m2 ie) (fE1 K sc (m2 ie) (m2 sg)) (vy E) (vy kc) i j k) (vy J i j k)) /\
    vz (fE (forward K sc s)) i j k = cscal (m3 (mE K sc) i j k) (cadd (updE1 K sc (m3 ie) (fE1 K sc (m3 ie) (m3 sg)) (vz E) (vz kc) i j k) (vz J i j k)).
  Proof.
    intros HP HC. cbv zeta. rewrite fE_forward, update_E_unfold. cbn [fE].
    destruct (curlH_clean true (fH s) (psiE s) i j k HP HC) as (a & b & c).
    unfold vmask, vadd, vmap2, updE1; cbn [vx vy vz]. rewrite a, b, c. repeat split.
  Qed.
  Lemma fwd_clean_H s i j k : psi_zero (psiH s) -> cleanb i j k = true ->
    let kc := curlE_raw K sc (fE (forward K sc s)) in let im := imu K sc in let sg := sigH K sc in let H := fH s in let J := injH K sc (tstep s) in
    vx (fH (forward K sc s)) i j k = cscal (m1 (mH K sc) i j k) (cadd (updH1 K sc (m1 im) (fH1 K sc (m1 im) (m1 sg)) (vx H) (vx kc) i j k) (vx J i j k)) /\
    vy (fH (forward K sc s)) i j k = cscal (m2 (mH K sc) i j k) (cadd (updH1 K sc (m2 im) (fH1 K sc (m2 im) (m2 sg)) (vy H) (vy kc) i j k) (vy J i j k)) /\
    vz (fH (forward K sc s)) i j k = cscal (m3 (mH K sc) i j k) (cadd (updH1 K sc (m3 im) (fH1 K sc (m3 im) (m3 sg)) (vz H) (vz kc) i j k) (vz J i j k)).
  Proof.
    intros HP HC. cbv zeta. rewrite fE_forward. unfold forward. rewrite update_H_unfold. cbn [fH].
    assert (P: psiH (update_E K sc true s) = psiH s) by (rewrite update_E_unfold; reflexivity).
    assert (T: tstep (update_E K sc true s) = tstep s) by (rewrite update_E_unfold; reflexivity).
    assert (Hh: fH (update_E K sc true s) = fH s) by (rewrite update_E_unfold; reflexivity).
    rewrite P, T, Hh.
    destruct (curlE_clean true (fE (update_E K sc true s)) (psiH s) i j k HP HC) as (a & b & c).
    unfold vmask, vadd, vmap2, updH1; cbn [vx vy vz]. rewrite a, b, c. repeat split.
  Qed.

  Lemma iface_facts : forall p, In p (pmls K sc) -> p_kappa1 K p = true /\ forall i j k, in_iface K p i j k = true ->
       in_pml K p i j k = true /\ p_aE K p (pml_depth K p i j k) = 0 /\ p_aH K p (pml_depth K p i j k) = 0.
  Proof.
    intros p Hp. split; [apply HK; exact Hp|]. intros i j k Hi. destruct (HA p Hp i j k Hi) as [a1 a2].
    split; [unfold in_iface in Hi; apply andb_true_iff in Hi; tauto | split; assumption].
  Qed.
  Lemma forward_psi_zero s : psi_zero (psiE s) -> psi_zero (psiH s) -> psi_zero (psiE (forward K sc s)) /\ psi_zero (psiH (forward K sc s)).
  Proof.
    intros PE PH. unfold forward. rewrite update_H_unfold. cbn [psiE psiH].
    assert (P: psiH (update_E K sc true s) = psiH s) by (rewrite update_E_unfold; reflexivity).
    assert (Q: psiE (update_E K sc true s) = snd (curlH K sc true (fH s) (psiE s))) by (rewrite update_E_unfold; reflexivity).
    rewrite P, Q. unfold curlH, curlE, psi_zero. split.
    - apply (pml_loop_psi_zero K false true _ (fun p => in_iface K p)); [exact iface_facts | exact PE].
    - apply (pml_loop_psi_zero K true true _ (fun p => in_iface K p)); [exact iface_facts | exact PH].
  Qed.

  (* ---- reverse updates through (fst, snd) of the curl pair ---- *)
  Lemma update_H_rev_unfold t s :
    let kc := fst (curlE K sc false (fE s) (psiH s)) in let im := imu K sc in let sg := sigH K sc in let H := vsub K (fH s) (injH K sc t) in
    update_H_rev K sc t s =
    mkSt (tstep s) (fE s) (vmask K (mH K sc) (mkV (revH1 K sc (m1 im) (fH1 K sc (m1 im) (m1 sg)) (vx H) (vx kc))
                                                (revH1 K sc (m2 im) (fH1 K sc (m2 im) (m2 sg)) (vy H) (vy kc))
                                                (revH1 K sc (m3 im) (fH1 K sc (m3 im) (m3 sg)) (vz H) (vz kc)))) (psiE s) (psiH s).
  Proof. cbv zeta. unfold update_H_rev. destruct (curlE K sc false (fE s) (psiH s)). reflexivity. Qed.
  Lemma update_E_rev_unfold t s :
    let kc := fst (curlH K sc false (fH s) (psiE s)) in let ie := ieps K sc in let sg := sigE K sc in let E := vsub K (fE s) (injE K sc t) in
    update_E_rev K sc t s =
    mkSt (tstep s) (vmask K (mE K sc) (mkV (revE1 K sc (m1 ie) (fE1 K sc (m1 ie) (m1 sg)) (vx E) (vx kc))
                                         (revE1 K sc (m2 ie) (fE1 K sc (m2 ie) (m2 sg)) (vy E) (vy kc))
                                         (revE1 K sc (m3 ie) (fE1 K sc (m3 ie) (m3 sg)) (vz E) (vz kc)))) (fH s) (psiE s) (psiH s).
  Proof. cbv zeta. unfold update_E_rev. destruct (curlH K sc false (fH s) (psiE s)). reflexivity. Qed.

  Lemma A1_of_inI i j k : inI i j k = true -> A1 i j k = true.
  Proof. intros H. unfold A1. rewrite H. reflexivity. Qed.

  (* ---- one reverse step reconstructs the interior ---- *)
  Hypothesis GEO : geometry_ok.

  Theorem reverse_step F R rec :
    wall_compatible K sc F ->
    psi_zero (psiE F) -> psi_zero (psiH F) -> psi_zero (psiE R) -> psi_zero (psiH R) ->
    tstep R = S (tstep F) -> rec (tstep F) = (fE (forward K sc F), fH (forward K sc F)) ->
    agrees (fE R) (fE (forward K sc F)) inI -> agrees (fH R) (fH (forward K sc F)) inI ->
    let R' := backward_rec K sc rec R in
    tstep R' = tstep F /\ agrees (fE R') (fE F) inI /\ agrees (fH R') (fH F) inI /\ psiE R' = psiE R /\ psiH R' = psiH R.
  Proof.
    intros [WE WH] PEF PHF PER PHR HT Hrec AgE AgH.
    set (F' := forward K sc F) in *.
    unfold backward_rec. rewrite HT. cbn [Nat.pred]. rewrite Hrec. cbn [fst snd].
    set (E1 := restoreV K sc (fE F') (fE R)). set (H1 := restoreV K sc (fH F') (fH R)).
    set (s1 := mkSt (S (tstep F)) E1 H1 (psiE R) (psiH R)).
    (* (1) after interface restoration the fields are those of F' on A1 *)
    assert (S1E : agrees E1 (fE F') A1).
    { intros i j k Hb HA1. unfold E1, restoreV, restoreA; cbn [vx vy vz].
      destruct (is_iface K sc i j k) eqn:I1; [repeat split|].
      unfold A1 in HA1. rewrite I1, orb_false_r in HA1. exact (AgE i j k Hb HA1). }
    assert (S1H : agrees H1 (fH F') A1).
    { intros i j k Hb HA1. unfold H1, restoreV, restoreA; cbn [vx vy vz].
      destruct (is_iface K sc i j k) eqn:I1; [repeat split|].
      unfold A1 in HA1. rewrite I1, orb_false_r in HA1. exact (AgH i j k Hb HA1). }
    (* (2) the reverse H update is exact on Bset *)
    rewrite (update_H_rev_unfold (tstep F) s1). cbn [fE fH psiE psiH tstep s1].
    set (HR := vmask K (mH K sc) _).
    assert (S2 : agrees HR (fH F) Bset).
    { intros i j k Hb HB. unfold Bset in HB. apply andb_true_iff in HB. destruct HB as [HB Hfw]. apply andb_true_iff in HB. destruct HB as [Hcl HA1].
      destruct (curlE_clean false E1 (psiH R) i j k PHR Hcl) as (c1 & c2 & c3).
      destruct (curlE_raw_agree E1 (fE F') A1 i j k S1E Hb HA1 Hfw) as (d1 & d2 & d3).
      destruct (fwd_clean_H F i j k PHF Hcl) as (f1 & f2 & f3). fold F' in f1, f2, f3.
      destruct (S1H i j k Hb HA1) as (h1 & h2 & h3).
      destruct (co_mH CO i j k Hb) as (q1 & q2 & q3). destruct (co_fH CO i j k Hb) as ((a1 & a2) & (b1 & b2) & (e1 & e2)).
      destruct (WH i j k Hb) as (w1 & w2 & w3).
      unfold HR, vmask, revH1, vsub, vmap2; cbn [vx vy vz].
      rewrite c1, c2, c3, d1, d2, d3, h1, h2, h3, f1, f2, f3. unfold updH1.
      repeat split; apply (H_rev_cell K sc); assumption. }
    (* (3) the reverse E update is exact on the interior *)
    set (sH := mkSt (S (tstep F)) E1 HR (psiE R) (psiH R)).
    rewrite (update_E_rev_unfold (tstep F) sH). cbn [fE fH psiE psiH tstep sH].
    split; [reflexivity|]. split; [|split; [|split; reflexivity]].
    - intros i j k Hb HI. pose proof (GEO i j k Hb HI) as G. unfold Gcell in G. apply andb_true_iff in G. destruct G as [GB Gbw].
      pose proof (inI_clean i j k HI) as Hcl.
      destruct (curlH_clean false HR (psiE R) i j k PER Hcl) as (c1 & c2 & c3).
      destruct (curlH_raw_agree HR (fH F) Bset i j k S2 Hb GB Gbw) as (d1 & d2 & d3).
      destruct (fwd_clean_E F i j k PEF Hcl) as (f1 & f2 & f3). fold F' in f1, f2, f3.
      destruct (S1E i j k Hb (A1_of_inI i j k HI)) as (h1 & h2 & h3).
      destruct (co_mE CO i j k Hb) as (q1 & q2 & q3). destruct (co_fE CO i j k Hb) as ((a1 & a2) & (b1 & b2) & (e1 & e2)).
      destruct (WE i j k Hb) as (w1 & w2 & w3).
      unfold resetV, resetA; cbn [vx vy vz]. unfold inI in HI. apply negb_true_iff in HI. rewrite HI.
      unfold vmask, revE1, vsub, vmap2; cbn [vx vy vz].
      rewrite c1, c2, c3, d1, d2, d3, h1, h2, h3, f1, f2, f3. unfold updE1.
      repeat split; apply (E_rev_cell K sc); assumption.
    - intros i j k Hb HI. pose proof (GEO i j k Hb HI) as G. unfold Gcell in G. apply andb_true_iff in G. destruct G as [GB _].
      unfold resetV, resetA; cbn [vx vy vz]. unfold inI in HI. apply negb_true_iff in HI. rewrite HI.
      exact (S2 i j k Hb GB).
  Qed.

  (* ---- the whole sweep ---- *)
  Fixpoint traj (F0 : state K) (n : nat) : state K := match n with O => F0 | S m => forward K sc (traj F0 m) end.
  Fixpoint rsweep (rec : nat -> V3 K * V3 K) (j : nat) (R : state K) : state K :=
    match j with O => R | S m => backward_rec K sc rec (rsweep rec m R) end.

  Lemma forward_wall_pml s : wall_compatible K sc (forward K sc s).
  Proof.
    split; intros i j k Hb.
    - rewrite fE_forward, update_E_unfold. cbn [fE]. unfold vmask; cbn [vx vy vz].
      repeat split; intros ->; apply c_eq; unfold cscal, Cplx.c0; cbn [fst snd]; ring.
    - unfold forward. rewrite update_H_unfold. cbn [fH]. unfold vmask; cbn [vx vy vz].
      repeat split; intros ->; apply c_eq; unfold cscal, Cplx.c0; cbn [fst snd]; ring.
  Qed.
  Lemma traj_facts F0 : wall_compatible K sc F0 -> psi_zero (psiE F0) -> psi_zero (psiH F0) -> tstep F0 = O ->
    forall n, wall_compatible K sc (traj F0 n) /\ psi_zero (psiE (traj F0 n)) /\ psi_zero (psiH (traj F0 n)) /\ tstep (traj F0 n) = n.
  Proof.
    intros W PE PH T0. induction n as [|n (IW & IE & IH & IT)]; [split; [exact W|]; split; [exact PE|]; split; [exact PH | exact T0]|].
    cbn [traj]. destruct (forward_psi_zero (traj F0 n) IE IH) as [A B].
    split; [apply forward_wall_pml|]. split; [exact A|]. split; [exact B|]. cbn. rewrite IT. reflexivity.
  Qed.

  Theorem reverse_sweep_interior F0 T : wall_compatible K sc F0 -> psi_zero (psiE F0) -> psi_zero (psiH F0) -> tstep F0 = O ->
    let rec := fun t => (fE (traj F0 (S t)), fH (traj F0 (S t))) in
    forall j, (j <= T)%nat ->
    let R := rsweep rec j (traj F0 T) in
    tstep R = (T - j)%nat /\ agrees (fE R) (fE (traj F0 (T - j))) inI /\ agrees (fH R) (fH (traj F0 (T - j))) inI /\
    psiE R = psiE (traj F0 T) /\ psiH R = psiH (traj F0 T).
  Proof.
    intros W PE PH T0 rec. pose proof (traj_facts F0 W PE PH T0) as TF.
    induction j as [|j IH]; intros Hj; cbv zeta.
    - cbn [rsweep]. rewrite Nat.sub_0_r. destruct (TF T) as (_ & _ & _ & tt).
      split; [exact tt|]. split; [intros i j k _ _; repeat split|]. split; [intros i j k _ _; repeat split|]. split; reflexivity.
    - cbn [rsweep]. destruct (IH ltac:(lia)) as (t1 & aE & aH & pE & pH).
      set (R := rsweep rec j (traj F0 T)) in *.
      set (F := traj F0 (T - S j)).
      assert (EF: traj F0 (T - j) = forward K sc F) by (unfold F; replace (T - j)%nat with (S (T - S j)) by lia; reflexivity).
      destruct (TF (T - S j)%nat) as (wF & peF & phF & tF). fold F in wF, peF, phF, tF.
      destruct (TF T) as (_ & peT & phT & _).
      rewrite EF in aE, aH.
      assert (Hr: rec (tstep F) = (fE (forward K sc F), fH (forward K sc F))).
      { unfold rec. rewrite tF. replace (S (T - S j)) with (T - j)%nat by lia. rewrite EF. reflexivity. }
      destruct (reverse_step F R rec wF peF phF ltac:(rewrite pE; exact peT) ltac:(rewrite pH; exact phT)
                  ltac:(rewrite t1, tF; lia) Hr aE aH) as (r1 & r2 & r3 & r4 & r5).
      split; [rewrite r1; exact tF|]. split; [exact r2|]. split; [exact r3|]. split; [rewrite r4; exact pE | rewrite r5; exact pH].
  Qed.
End Sweep.

(* boolean check of the geometry hypothesis over the whole box (used for concrete scenes) *)
Section GeoCheck.
  Variable K : Fld.
  Variable sc : scene K.
  Variables wrapx wrapy wrapz : bool.
  Definition geometry_okb : bool :=
    forallb (fun i => forallb (fun j => forallb (fun k =>
      implb (inI K sc i j k) (Gcell K sc wrapx wrapy wrapz i j k)) (seq 0 (nz K sc))) (seq 0 (ny K sc))) (seq 0 (nx K sc)).
  Lemma geometry_okb_sound : geometry_okb = true -> geometry_ok K sc wrapx wrapy wrapz.
  Proof.
    unfold geometry_okb, geometry_ok. intros H i j k (Hi & Hj & Hk) HI.
    rewrite forallb_forall in H. specialize (H i ltac:(apply in_seq; lia)).
    rewrite forallb_forall in H. specialize (H j ltac:(apply in_seq; lia)).
    rewrite forallb_forall in H. specialize (H k ltac:(apply in_seq; lia)).
    rewrite HI in H. exact H.
  Qed.
End GeoCheck.
