(* DesignTransforms_Sym_proofs.v — C21: every design symmetry transform is the averaging projector
   S x = (x + x∘sigma)/2 of an involution sigma of the index box that preserves sums. *)
From Coq Require Import List Arith Bool Lia Field Ring.
From FV Require Import base.Scalar base.Sums base.DesignTransformsBase model.DesignTransforms_Sym.
Import ListNotations.
Local Open Scope fld_scope.

(* ---------- index maps ---------- *)
Definition maps_box (s : idx) (sg : idx -> idx) : Prop := forall p, inb s p -> inb s (sg p).
Definition invol_box (s : idx) (sg : idx -> idx) : Prop := forall p, inb s p -> sg (sg p) = p.
Definition good (s : idx) (sg : idx -> idx) : Prop := maps_box s sg /\ invol_box s sg.

Ltac idx_crush :=
  repeat match goal with
  | p : idx |- _ => destruct p as [[? ?] ?]
  | a : axis |- _ => destruct a
  end; unfold inb, flip, swap, seti, geti in *; cbn in *;
  repeat split; try lia; try (repeat f_equal; lia).

Lemma flip_good s a : good s (flip s a).
Proof. split; intros p H; idx_crush. Qed.
Lemma flip2_good s a b : good s (fun p => flip s a (flip s b p)).
Proof. split; intros p H; idx_crush. Qed.
Lemma flip3_good s : good s (fun p => flip s AX (flip s AY (flip s AZ p))).
Proof. split; intros p H; idx_crush. Qed.
Lemma swap_good s a b : geti s a = geti s b -> good s (swap a b).
Proof. intros E. split; intros p H; idx_crush. Qed.
Lemma anti_good s a b : geti s a = geti s b -> good s (fun p => flip s a (flip s b (swap a b p))).
Proof. intros E. split; intros p H; idx_crush. Qed.

Lemma diag_good s a b mm sg : diag s a b mm = Some sg -> good s sg.
Proof. unfold diag. destruct (Nat.eqb_spec (geti s a) (geti s b)) as [E|]; [|discriminate].
  destruct mm; intros H; injection H as <-; [apply swap_good | apply anti_good]; exact E. Qed.

Lemma on_plane_inv {A} s (f : axis -> axis -> option A) r :
  on_plane s f = Some r -> exists v, vaxis s = Some v /\ f (fst (plane_axes v)) (snd (plane_axes v)) = Some r.
Proof. unfold on_plane. destruct (vaxis s) as [v|]; [|discriminate]. intros H. exists v. split; [reflexivity|].
  destruct (plane_axes v); exact H. Qed.

Theorem sigma_good t s sg : sigma t s = Some sg -> good s sg.
Proof.
  destruct t as [ | | |mm|m| | |pl mm]; cbn [sigma]; intros H.
  - apply on_plane_inv in H. destruct H as [v [_ H]]. injection H as <-. apply flip_good.
  - apply on_plane_inv in H. destruct H as [v [_ H]]. injection H as <-. apply flip_good.
  - apply on_plane_inv in H. destruct H as [v [_ H]]. injection H as <-. apply flip2_good.
  - apply on_plane_inv in H. destruct H as [v [_ H]]. eapply diag_good; exact H.
  - destruct m; try discriminate; injection H as <-; apply flip_good.
  - injection H as <-; apply flip_good.
  - injection H as <-; apply flip3_good.
  - destruct pl; try discriminate; eapply diag_good; exact H.
Qed.

(* when is the transform defined (the call neither raises nor changes the shape) *)
Definition has_singleton (s : idx) : Prop := geti s AX = 1%nat \/ geti s AY = 1%nat \/ geti s AZ = 1%nat.
Definition square2d (s : idx) : Prop :=
  match vaxis s with Some v => geti s (fst (plane_axes v)) = geti s (snd (plane_axes v)) | None => False end.
Definition valid (t : sym) (s : idx) : Prop :=
  match t with
  | Horizontal2D | Vertical2D | Point2D => has_singleton s
  | Diagonal2D _ => has_singleton s /\ square2d s
  | Horizontal3D m => m <> MBad
  | Vertical3D | Point3D => True
  | Diagonal3D PXY _ => geti s AX = geti s AY
  | Diagonal3D PXZ _ => geti s AX = geti s AZ
  | Diagonal3D PYZ _ => geti s AY = geti s AZ
  | Diagonal3D PBad _ => False
  end.

Lemma vaxis_some s : has_singleton s <-> exists v, vaxis s = Some v.
Proof. destruct s as [[nx ny] nz]. unfold has_singleton, vaxis; cbn.
  destruct (Nat.eqb_spec nx 1); [split; eauto|]. destruct (Nat.eqb_spec ny 1); [split; eauto|].
  destruct (Nat.eqb_spec nz 1); [split; eauto|]. split; [lia|]. intros [v H]; discriminate. Qed.

Lemma diag_some s a b mm : (exists sg, diag s a b mm = Some sg) <-> geti s a = geti s b.
Proof. unfold diag. destruct (Nat.eqb_spec (geti s a) (geti s b)) as [E|E]; split; eauto.
  - intros [sg H]; discriminate.
  - intros H; contradiction. Qed.

Theorem sigma_defined t s : (exists sg, sigma t s = Some sg) <-> valid t s.
Proof.
  destruct t as [ | | |mm|m| | |pl mm]; cbn [sigma valid].
  1-3: rewrite vaxis_some; unfold on_plane; split;
       [ intros [sg H]; destruct (vaxis s) as [v|]; [eauto|discriminate]
       | intros [v ->]; destruct (plane_axes v); eauto ].
  - unfold square2d, on_plane. rewrite vaxis_some. split.
    + intros [sg H]. destruct (vaxis s) as [v|]; [|discriminate]. split; [eauto|].
      destruct (plane_axes v) as [a b]; cbn. apply (diag_some s a b mm). eauto.
    + intros [[v E] H]. rewrite E in *. destruct (plane_axes v) as [a b]; cbn in H. apply diag_some. exact H.
  - destruct m; split; intros H; try discriminate; eauto.
    + destruct H as [sg H]; discriminate.
    + congruence.
  - split; eauto.
  - split; eauto.
  - destruct pl; try apply diag_some. split; [intros [sg H]; discriminate | tauto].
Qed.

(* ---------- sums ---------- *)
Section SymProofs.
  Variable K : Fld.
  Add Field KFsym : (Fth K).
  Notation F := (car K).
  Hypothesis two_neq0 : (1 + 1 : F) <> 0.

  Definition sumpres (s : idx) (sg : idx -> idx) : Prop :=
    forall x : idx -> F, sum3i K s (fun p => x (sg p)) = sum3i K s x.

  Lemma sumpres_comp s f g : sumpres s f -> sumpres s g -> sumpres s (fun p => f (g p)).
  Proof. intros Hf Hg x. rewrite (Hg (fun p => x (f p))). apply Hf. Qed.

  Lemma flip_sumpres s a : sumpres s (flip s a).
  Proof. destruct s as [[nx ny] nz]. intros x. unfold sum3i, sum3, flip, seti, geti. destruct a.
    - apply (sumn_rev K nx (fun i => sumn ny (fun j => sumn nz (fun k => x (i, j, k))))).
    - apply sumn_ext; intros i _. apply (sumn_rev K ny (fun j => sumn nz (fun k => x (i, j, k)))).
    - apply sumn_ext; intros i _. apply sumn_ext; intros j _. apply (sumn_rev K nz (fun k => x (i, j, k))). Qed.

  Lemma swap_sumpres s a b : geti s a = geti s b ->
    (a, b) = (AX, AY) \/ (a, b) = (AX, AZ) \/ (a, b) = (AY, AZ) -> sumpres s (swap a b).
  Proof. destruct s as [[nx ny] nz]. intros E Hab x. unfold sum3i, sum3, swap, seti, geti in *.
    destruct Hab as [H|[H|H]]; injection H as -> ->; cbn in *; subst.
    - apply (sumn_swap K ny ny (fun i j => sumn nz (fun k => x (j, i, k)))).
    - rewrite (sumn_ext K nz _ (fun i => sumn nz (fun k => sumn ny (fun j => x (k, j, i)))))
        by (intros i _; apply (sumn_swap K ny nz (fun j k => x (k, j, i)))).
      rewrite (sumn_swap K nz nz (fun i k => sumn ny (fun j => x (k, j, i)))).
      apply sumn_ext; intros i _. apply (sumn_swap K nz ny (fun k j => x (i, j, k))).
    - apply sumn_ext; intros i _. apply (sumn_swap K nz nz (fun j k => x (i, k, j))). Qed.

  Definition ordered_pair (a b : axis) : Prop := (a, b) = (AX, AY) \/ (a, b) = (AX, AZ) \/ (a, b) = (AY, AZ).

  Lemma diag_sumpres s a b mm sg : ordered_pair a b -> diag s a b mm = Some sg -> sumpres s sg.
  Proof. intros Hab. unfold diag. destruct (Nat.eqb_spec (geti s a) (geti s b)) as [E|]; [|discriminate].
    destruct mm; intros H; injection H as <-.
    - apply swap_sumpres; assumption.
    - apply (sumpres_comp s (flip s a) (fun p => flip s b (swap a b p))); [apply flip_sumpres|].
      apply (sumpres_comp s (flip s b) (swap a b)); [apply flip_sumpres | apply swap_sumpres; assumption]. Qed.

  Lemma plane_axes_ordered v : ordered_pair (fst (plane_axes v)) (snd (plane_axes v)).
  Proof. unfold ordered_pair. destruct v; cbn; auto. Qed.

  Theorem sigma_sumpres t s sg : sigma t s = Some sg -> sumpres s sg.
  Proof.
    destruct t as [ | | |mm|m| | |pl mm]; cbn [sigma]; intros H.
    - apply on_plane_inv in H. destruct H as [v [_ H]]. injection H as <-. apply flip_sumpres.
    - apply on_plane_inv in H. destruct H as [v [_ H]]. injection H as <-. apply flip_sumpres.
    - apply on_plane_inv in H. destruct H as [v [_ H]]. injection H as <-.
      apply (sumpres_comp s (flip s _) (flip s _)); apply flip_sumpres.
    - apply on_plane_inv in H. destruct H as [v [_ H]]. eapply diag_sumpres; [apply plane_axes_ordered | exact H].
    - destruct m; try discriminate; injection H as <-; apply flip_sumpres.
    - injection H as <-; apply flip_sumpres.
    - injection H as <-. apply (sumpres_comp s (flip s AX) (fun p => flip s AY (flip s AZ p))); [apply flip_sumpres|].
      apply (sumpres_comp s (flip s AY) (flip s AZ)); apply flip_sumpres.
    - destruct pl; try discriminate; (eapply diag_sumpres; [|exact H]); unfold ordered_pair; auto.
  Qed.

  (* ---------- the averaging projector on index functions ---------- *)
  Lemma sym_fn_invariant s sg x p : good s sg -> inb s p -> sym_fn K sg x (sg p) = sym_fn K sg x p.
  Proof. intros [_ Hi] Hp. unfold sym_fn. rewrite (Hi p Hp). field. exact two_neq0. Qed.

  Lemma sym_fn_fix sg x p : x (sg p) = x p -> sym_fn K sg x p = x p.
  Proof. intros E. unfold sym_fn. rewrite E. field. exact two_neq0. Qed.

  Lemma sum3i_ext s x y : (forall p, inb s p -> x p = y p) -> sum3i K s x = sum3i K s y.
  Proof. destruct s as [[nx ny] nz]. intros H. unfold sum3i. apply sum3_ext. intros i j k Hi Hj Hk. apply H.
    unfold inb; cbn. auto. Qed.

  Lemma sym_fn_sum s sg x : sumpres s sg -> sum3i K s (sym_fn K sg x) = sum3i K s x.
  Proof. intros Hs. pose proof (Hs x) as E. destruct s as [[nx ny] nz]. unfold sum3i in *.
    rewrite (sum3_ext K nx ny nz _ (fun i j k => / (1 + 1) * (x (i, j, k) + x (sg (i, j, k)))))
      by (intros; unfold sym_fn; field; exact two_neq0).
    rewrite (sum3_scal K nx ny nz (/ (1 + 1)) (fun i j k => x (i, j, k) + x (sg (i, j, k)))).
    rewrite (sum3_add K nx ny nz (fun i j k => x (i, j, k)) (fun i j k => x (sg (i, j, k)))).
    rewrite E. field. exact two_neq0. Qed.

  (* ---------- the executed (tabulated) transform ---------- *)
  Lemma get3i_tab3i s f p : inb s p -> get3i K (tab3i K s f) p = f p.
  Proof. destruct s as [[nx ny] nz], p as [[i j] k]. unfold inb; cbn. intros [Hi [Hj Hk]].
    apply (get3_tab3 0 nx ny nz (fun i j k => f (i, j, k))); assumption. Qed.
  Lemma tab3i_ext s f g : (forall p, inb s p -> f p = g p) -> tab3i K s f = tab3i K s g.
  Proof. destruct s as [[nx ny] nz]. intros H. unfold tab3i. apply tab3_ext. intros. apply H. unfold inb; cbn; auto. Qed.
  Lemma tab3i_get3i s l : shape3i K s l -> tab3i K s (get3i K l) = l.
  Proof. destruct s as [[nx ny] nz]. unfold shape3i, tab3i, get3i. apply tab3_get3. Qed.
  Lemma tab3i_shape s f : shape3i K s (tab3i K s f).
  Proof. destruct s as [[nx ny] nz]. apply tab3_shape. Qed.

  Lemma sym_exec_inv t s l y : sym_exec K t s l = Some y ->
    exists sg, sigma t s = Some sg /\ y = tab3i K s (sym_fn K sg (get3i K l)).
  Proof. unfold sym_exec. destruct (sigma t s) as [sg|]; [|discriminate]. intros H; injection H as <-. eauto. Qed.

  Theorem sym_exec_shape t s l y : sym_exec K t s l = Some y -> shape3i K s y.
  Proof. intros H. apply sym_exec_inv in H. destruct H as [sg [_ ->]]. apply tab3i_shape. Qed.

  Theorem sym_exec_invariant t s l y sg : sym_exec K t s l = Some y -> sigma t s = Some sg ->
    forall p, inb s p -> inb s (sg p) /\ get3i K y (sg p) = get3i K y p.
  Proof. intros H Hs p Hp. apply sym_exec_inv in H. destruct H as [sg' [Hs' ->]]. rewrite Hs in Hs'. injection Hs' as <-.
    pose proof (sigma_good t s sg Hs) as G. split; [apply G; exact Hp|].
    rewrite !get3i_tab3i by (try apply G; exact Hp). apply (sym_fn_invariant s); assumption. Qed.

  Theorem sym_exec_fixes_symmetric t s l y sg : sym_exec K t s l = Some y -> sigma t s = Some sg ->
    shape3i K s l -> (forall p, inb s p -> get3i K l (sg p) = get3i K l p) -> y = l.
  Proof. intros H Hs Hl Hsym. apply sym_exec_inv in H. destruct H as [sg' [Hs' ->]]. rewrite Hs in Hs'. injection Hs' as <-.
    rewrite <- (tab3i_get3i s l Hl) at 2. apply tab3i_ext. intros p Hp. apply sym_fn_fix. apply Hsym. exact Hp. Qed.

  Theorem sym_exec_idempotent t s l y : sym_exec K t s l = Some y -> sym_exec K t s y = Some y.
  Proof. intros H. apply sym_exec_inv in H. destruct H as [sg [Hs ->]]. unfold sym_exec. rewrite Hs. f_equal.
    pose proof (sigma_good t s sg Hs) as G.
    apply tab3i_ext. intros p Hp. unfold sym_fn at 1.
    rewrite !get3i_tab3i by (try apply G; exact Hp).
    rewrite (sym_fn_invariant s sg _ p G Hp). field. exact two_neq0. Qed.

  Theorem sym_exec_sum t s l y : sym_exec K t s l = Some y -> sum3i K s (get3i K y) = sum3i K s (get3i K l).
  Proof. intros H. apply sym_exec_inv in H. destruct H as [sg [Hs ->]].
    rewrite (sum3i_ext s _ (sym_fn K sg (get3i K l))) by (intros; apply get3i_tab3i; assumption).
    apply sym_fn_sum. eapply sigma_sumpres. exact Hs. Qed.

  Theorem sym_exec_mean t s l y : sym_exec K t s l = Some y -> mean3 K s y = mean3 K s l.
  Proof. intros H. destruct s as [[nx ny] nz]. unfold mean3. rewrite (sym_exec_sum t _ l y H). reflexivity. Qed.
End SymProofs.
