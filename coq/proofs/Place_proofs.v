(* Place_proofs.v — soundness of the (repaired) placement solver: a successful run ends with a pass in
   which no rule changed anything and no rule raised, hence every constraint relation holds in the
   final state.  Also: the specification of the argmin snapping. *)
From Coq Require Import ZArith List Bool Lia.
From FV Require Import model.Place model.PlaceSpec.
Import ListNotations.
Open Scope Z_scope.

(* ------------------------------------------------------------------ argmin *)
Lemma argmin_scan_spec f : forall k i best bestv,
  0 <= best < i -> bestv = f best ->
  (forall l, 0 <= l < i -> f best <= f l) -> (forall l, 0 <= l < best -> f best < f l) ->
  let b := argmin_scan f k i best bestv in
  0 <= b < i + Z.of_nat k /\ (forall l, 0 <= l < i + Z.of_nat k -> f b <= f l) /\ (forall l, 0 <= l < b -> f b < f l).
Proof.
  induction k as [|k IH]; intros i best bestv Hb Hv Hmin Hfirst; cbn [argmin_scan].
  - cbn. repeat split; try lia. intros l Hl. apply Hmin. lia. exact Hfirst.
  - subst bestv. destruct (Z.ltb_spec (f i) (f best)) as [Hlt|Hge].
    + specialize (IH (i + 1) i (f i)). cbv zeta in IH.
      destruct IH as (H1 & H2 & H3); try lia; try reflexivity.
      * intros l Hl. destruct (Z.eq_dec l i) as [->|Hne]; [lia|]. specialize (Hmin l). lia.
      * intros l Hl. specialize (Hmin l). lia.
      * cbv zeta. repeat split; try lia. intros l Hl. apply H2. lia. exact H3.
    + specialize (IH (i + 1) best (f best)). cbv zeta in IH.
      destruct IH as (H1 & H2 & H3); try lia; try reflexivity.
      * intros l Hl. destruct (Z.eq_dec l i) as [->|Hne]; [lia|]. apply Hmin. lia.
      * exact Hfirst.
      * cbv zeta. repeat split; try lia. intros l Hl. apply H2. lia. exact H3.
Qed.

Lemma argmin_first_spec f cnt : 0 <= cnt -> first_argmin f cnt (argmin_first f cnt).
Proof.
  intros Hc. unfold argmin_first, first_argmin.
  pose proof (argmin_scan_spec f (Z.to_nat cnt) 1 0 (f 0)) as H. cbv zeta in H.
  destruct H as (H1 & H2 & H3); try lia; try reflexivity.
  - intros l Hl. replace l with 0 by lia. lia.
  - rewrite Z2Nat.id in * by lia. repeat split; try lia.
    + intros l Hl. apply H2. lia.
    + exact H3.
Qed.

Lemma first_argmin_ext f g cnt b : (forall l, f l = g l) -> first_argmin f cnt b -> first_argmin g cnt b.
Proof.
  intros E (H1 & H2 & H3). repeat split; try lia.
  - intros l Hl. rewrite <- !E. apply H2. exact Hl.
  - intros l Hl. rewrite <- !E. apply H3. exact Hl.
Qed.

(* the first minimiser is unique: snapping is a function of its inputs *)
Lemma first_argmin_unique f cnt b b' : first_argmin f cnt b -> first_argmin f cnt b' -> b = b'.
Proof.
  intros (H1 & H2 & H3) (H1' & H2' & H3').
  destruct (Z.lt_trichotomy b b') as [Hlt|[Heq|Hgt]]; [|exact Heq|].
  - specialize (H3' b). specialize (H2 b'). lia.
  - specialize (H3 b'). specialize (H2' b). lia.
Qed.

Lemma nearest_edge_spec e a c : 0 <= N e a -> nearest_spec e a c (nearest_edge e a c).
Proof. intros H. apply argmin_first_spec. exact H. Qed.

(* closed form of nearest-edge snapping inside the grid: an exact multiple of the spacing snaps to itself *)
Lemma nearest_edge_exact e a i : 0 < D e -> 0 <= i <= N e a -> nearest_edge e a (2 * D e * i) = i.
Proof.
  intros HD Hi. pose proof (nearest_edge_spec e a (2 * D e * i) ltac:(lia)) as (H1 & H2 & H3).
  specialize (H2 i Hi). cbv beta in H2. rewrite (Z.sub_diag (2 * D e * i)) in H2. cbn [Z.abs] in H2.
  set (b := nearest_edge e a (2 * D e * i)) in *.
  assert (Hz : 2 * D e * b - 2 * D e * i = 0) by lia.
  assert (Hz' : 2 * D e * (b - i) = 0) by lia.
  apply Z.mul_eq_0 in Hz'. lia.
Qed.

(* ------------------------------------------------------------------ get / set *)
Lemma get_set_same st : forall i v, (i < length st)%nat -> get (set st i v) i = v.
Proof. induction st as [|x r IH]; intros [|i] v H; cbn in *; try lia; auto. apply IH. lia. Qed.

Lemma get_set_other st : forall i j v, i <> j -> get (set st i v) j = get st j.
Proof.
  induction st as [|x r IH]; intros [|i] [|j] v H; cbn; auto; try congruence.
Qed.

Lemma set_length st : forall i v, length (set st i v) = length st.
Proof. induction st as [|x r IH]; intros [|i] v; cbn; auto. Qed.

Lemma get_none_beyond st : forall i, (length st <= i)%nat -> get st i = None.
Proof. induction st as [|x r IH]; intros [|i] H; cbn in *; auto; try lia. apply IH. lia. Qed.

(* ------------------------------------------------------------------ quiet rule applications *)
Lemma set_or_check_quiet st i v st' : set_or_check st i v = (st', false, false) -> st' = st /\ get st i = Some v.
Proof.
  unfold set_or_check. destruct (get st i) as [w|]; [|discriminate].
  destruct (Z.eqb_spec w v); intros H; inversion H; subst; auto.
Qed.

Lemma fold_entries_chg {E} (f : E -> state -> res) : forall es st chg st' c x,
  fold_entries f es st chg = (st', c, x) -> chg = true -> c = true.
Proof.
  induction es as [|y r IH]; intros st chg st' c x H Hc; cbn in H.
  - inversion H; subst; auto.
  - destruct (f y st) as [[st1 c1] x1]. destruct x1.
    + inversion H; subst. reflexivity.
    + eapply IH; eauto. subst. reflexivity.
Qed.

Lemma fold_entries_quiet {E} (f : E -> state -> res) (P : state -> E -> Prop) :
  (forall y st st', f y st = (st', false, false) -> st' = st /\ P st y) ->
  forall es st st', fold_entries f es st false = (st', false, false) -> st' = st /\ Forall (P st) es.
Proof.
  intros Hf. induction es as [|y r IH]; intros st st' H; cbn in H.
  - inversion H; subst; auto.
  - destruct (f y st) as [[st1 c1] x1] eqn:E1. destruct x1; [discriminate|].
    destruct c1.
    + exfalso. apply fold_entries_chg in H; [discriminate|reflexivity].
    + cbn in H. destruct (Hf _ _ _ E1) as [-> HP]. destruct (IH _ _ H) as [-> HF]. auto.
Qed.

Lemma grid_entry_quiet o y st st' : grid_entry o y st = (st', false, false) -> st' = st /\ holds_grid st o y.
Proof. destruct y as [[a side] v]. cbn. apply set_or_check_quiet. Qed.

Lemma real_entry_quiet e o y st st' : 0 <= N e (fst (fst y)) ->
  real_entry e o y st = (st', false, false) -> st' = st /\ holds_real e st o y.
Proof.
  destruct y as [[a side] c]. cbn. intros HN H. apply set_or_check_quiet in H. destruct H as [-> H].
  split; auto. eexists. split; [exact H|]. apply nearest_edge_spec. exact HN.
Qed.

Lemma pos_entry_quiet e o other y st st' :
  pos_entry e o other y st = (st', false, false) -> st' = st /\ holds_pos e st o other y.
Proof.
  destruct y as [[[[a qn] pn] m] g]. unfold pos_entry, holds_pos.
  destruct (get st (vlo other a)) as [ol|] eqn:Eol; [|intros H; inversion H; subst; split; auto; intros; discriminate].
  destruct (get st (vhi other a)) as [oh|] eqn:Eoh; [|intros H; inversion H; subst; split; auto; intros; discriminate].
  destruct (get st (vshape o a)) as [s|] eqn:Es; [|intros H; inversion H; subst; split; auto; intros; discriminate].
  unfold anchor_coord.
  destruct (edge_np (N e a) ol) as [l|] eqn:El; [|discriminate].
  destruct (edge_np (N e a) oh) as [h|] eqn:Eh; [|discriminate].
  unfold bounds_for_anchor.
  destruct (Z.leb_spec s 0) as [|Hs]; [discriminate|].
  destruct (Z.ltb_spec (N e a - s) 0) as [|HN]; [discriminate|].
  set (b0 := argmin_first _ _).
  destruct (set_or_check st (vlo o a) b0) as [[st1 c1] x1] eqn:E1.
  destruct x1; [discriminate|].
  destruct (set_or_check st1 (vhi o a) (b0 + s)) as [[st2 c2] x2] eqn:E2.
  intros H. inversion H; subst. apply orb_false_iff in H2. destruct H2 as [-> ->].
  apply set_or_check_quiet in E1. destruct E1 as [-> G1].
  apply set_or_check_quiet in E2. destruct E2 as [-> G2].
  split; auto. intros ol' oh' s' H1' H2' H3'. inversion H1'; inversion H2'; inversion H3'; subst ol' oh' s'.
  exists l, h, b0. split; [auto|]. split; [auto|]. split; [lia|]. split; [auto|]. split; [auto|].
  eapply first_argmin_ext; [|apply argmin_first_spec; lia].
  intros k. cbv beta. unfold anchor_of. f_equal. ring.
Qed.

Lemma size_entry_quiet e o other y st st' : 0 <= N e (fst (fst (fst (fst y)))) ->
  size_entry e o other y st = (st', false, false) -> st' = st /\ holds_size e st o other y.
Proof.
  destruct y as [[[[a oa] prn] off] goff]. unfold size_entry, holds_size. cbn [fst]. intros HN.
  destruct (get st (vshape other oa)) as [so|] eqn:Eso; [|intros H; inversion H; subst; split; auto; intros; discriminate].
  destruct (get st (vlo other oa)) as [ol|] eqn:Eol; [|intros H; inversion H; subst; split; auto; intros; discriminate].
  destruct (get st (vhi other oa)) as [oh|] eqn:Eoh; [|intros H; inversion H; subst; split; auto; intros; discriminate].
  unfold length_to_cells.
  destruct (Z.ltb_spec (2 * axis_cells e oa ol oh * prn + off + 2 * D e * goff) 0) as [|Ht]; [discriminate|].
  intros H. apply set_or_check_quiet in H. destruct H as [-> G].
  split; auto. intros so' ol' oh' H1 H2 H3. inversion H2; inversion H3; subst ol' oh'.
  cbv zeta. split; [lia|]. eexists. split; [exact G|]. apply nearest_edge_spec. exact HN.
Qed.

Lemma ext_apply_quiet e o other a dir pn off goff st st' : 0 <= N e a ->
  ext_apply e o other a dir pn off goff st = (st', false, false) ->
  st' = st /\ holds e st (CExt o other a dir pn off goff).
Proof.
  intros HN. unfold ext_apply, holds. destruct other as [ot|].
  - destruct (get st (vlo ot a)) as [ol|] eqn:Eol; [|intros H; inversion H; subst; split; auto; intros; discriminate].
    destruct (get st (vhi ot a)) as [oh|] eqn:Eoh; [|intros H; inversion H; subst; split; auto; intros; discriminate].
    unfold anchor_coord.
    destruct (edge_np (N e a) ol) as [l|] eqn:El; [|discriminate].
    destruct (edge_np (N e a) oh) as [h|] eqn:Eh; [|discriminate].
    intros H. apply set_or_check_quiet in H. destruct H as [-> G]. split; auto.
    intros ol' oh' H1 H2. inversion H1; inversion H2; subst ol' oh'.
    exists l, h. eexists. split; [auto|]. split; [auto|]. split; [exact G|]. apply nearest_edge_spec. exact HN.
  - destruct (get st (vbound (vol e) dir a)) as [v|] eqn:Ev; [|discriminate].
    intros H. apply set_or_check_quiet in H. destruct H as [-> G]. split; auto. exists v. auto.
Qed.


Lemma apply_constr_quiet e c st st' : grid_ok e ->
  apply_constr e c st = (st', false, false) -> st' = st /\ holds e st c.
Proof.
  intros HG. destruct c as [o es|o es|o other es|o other es|o other a dir pn off goff]; cbn [apply_constr holds].
  - apply (fold_entries_quiet (grid_entry o) (fun s => holds_grid s o)). intros y s s'. apply grid_entry_quiet.
  - apply (fold_entries_quiet (real_entry e o) (fun s => holds_real e s o)). intros y s s'. apply real_entry_quiet. apply HG.
  - apply (fold_entries_quiet (pos_entry e o other) (fun s => holds_pos e s o other)). intros y s s'. apply pos_entry_quiet.
  - apply (fold_entries_quiet (size_entry e o other) (fun s => holds_size e s o other)). intros y s s'. apply size_entry_quiet. apply HG.
  - apply ext_apply_quiet. apply HG.
Qed.

(* ------------------------------------------------------------------ the constraint loop *)
Lemma run_constraints_errs e : forall cs st errs rs ch st' errs' rs' ch',
  run_constraints e cs st errs rs ch = (st', errs', rs', ch') -> exists x, errs' = errs ++ x.
Proof.
  induction cs as [|c r IH]; intros st errs rs ch st' errs' rs' ch' H; cbn in H.
  - inversion H; subst. exists []. rewrite app_nil_r. reflexivity.
  - destruct (apply_constr e c st) as [[st1 r1] x1]. apply IH in H. destruct H as [x Hx].
    destruct x1; [|eauto]. exists ([cobj c] ++ x). rewrite Hx, app_assoc. reflexivity.
Qed.

Lemma run_constraints_quiet e (HG : grid_ok e) : forall cs st errs rs ch st' errs' rs' ch',
  run_constraints e cs st errs rs ch = (st', errs', rs', ch') -> errs' = [] -> ch' = false ->
  st' = st /\ errs = [] /\ ch = false /\ Forall (holds e st) cs.
Proof.
  induction cs as [|c r IH]; intros st errs rs ch st' errs' rs' ch' H He Hc; cbn in H.
  - inversion H; subst. auto.
  - destruct (apply_constr e c st) as [[st1 r1] x1] eqn:E1.
    destruct x1.
    + apply run_constraints_errs in H. destruct H as [x Hx]. rewrite He in Hx.
      destruct errs; cbn in Hx; discriminate.
    + destruct (IH _ _ _ _ _ _ _ _ H He Hc) as (-> & -> & Hch & HF).
      apply orb_false_iff in Hch. destruct Hch as [-> ->].
      destruct (apply_constr_quiet _ _ _ _ HG E1) as [-> Hh]. auto.
Qed.

(* ------------------------------------------------------------------ the two consistency sweeps *)
Lemma per_object_axis_quiet f (P : state -> nat -> nat -> Prop) :
  (forall o a st errs rs st' errs' rs', f o a (st, errs, rs) = (st', errs', rs') -> errs' = [] -> rs' = false ->
     st' = st /\ errs = [] /\ rs = false /\ P st o a) ->
  forall ord st errs rs st' errs' rs', per_object_axis f ord (st, errs, rs) = (st', errs', rs') ->
  errs' = [] -> rs' = false ->
  st' = st /\ errs = [] /\ rs = false /\ forall o, In o ord -> forall a, In a axes -> P st o a.
Proof.
  intros Hf. unfold per_object_axis.
  induction ord as [|o r IH]; intros st errs rs st' errs' rs' H He Hr; cbn [fold_left] in H.
  - inversion H; subst. repeat split; auto. intros o [].
  - cbn [axes fold_left] in H.
    destruct (f o 0%nat (st, errs, rs)) as [[s1 e1] r1] eqn:F0.
    destruct (f o 1%nat (s1, e1, r1)) as [[s2 e2] r2] eqn:F1.
    destruct (f o 2%nat (s2, e2, r2)) as [[s3 e3] r3] eqn:F2.
    destruct (IH _ _ _ _ _ _ H He Hr) as (-> & -> & -> & HP).
    destruct (Hf _ _ _ _ _ _ _ _ F2 eq_refl eq_refl) as (-> & -> & -> & P2).
    destruct (Hf _ _ _ _ _ _ _ _ F1 eq_refl eq_refl) as (-> & -> & -> & P1).
    destruct (Hf _ _ _ _ _ _ _ _ F0 eq_refl eq_refl) as (-> & -> & -> & P0).
    repeat split; auto. intros o' [<-|Hin] a Ha.
    + cbn in Ha. destruct Ha as [<-|[<-|[<-|[]]]]; assumption.
    + apply HP; assumption.
Qed.

(* what a quiet sweep establishes for one object/axis *)
Definition shape_ok (st : state) (o a : nat) : Prop :=
  match get st (vshape o a), get st (vlo o a), get st (vhi o a) with
  | Some s, Some b0, Some b1 => s = b1 - b0
  | Some _, Some _, None | Some _, None, Some _ => False
  | None, Some _, Some _ => False
  | _, _, _ => True
  end.

Lemma app_nil_inv {A} (l : list A) x : l ++ [x] = [] -> False.
Proof. destruct l; discriminate. Qed.

Lemma slices_from_shapes_1_quiet o a st errs rs st' errs' rs' :
  slices_from_shapes_1 o a (st, errs, rs) = (st', errs', rs') -> errs' = [] -> rs' = false ->
  st' = st /\ errs = [] /\ rs = false /\
  match get st (vshape o a), get st (vlo o a), get st (vhi o a) with
  | Some s, Some b0, Some b1 => s = b1 - b0
  | Some _, Some _, None | Some _, None, Some _ => False
  | _, _, _ => True
  end.
Proof.
  unfold slices_from_shapes_1.
  destruct (get st (vshape o a)) as [s|]; [|intros H; inversion H; subst; auto].
  destruct (get st (vlo o a)) as [b0|], (get st (vhi o a)) as [b1|]; intros H He Hr.
  - destruct (Z.eqb_spec s (b1 - b0)); inversion H; subst; auto. exfalso. eapply app_nil_inv; eauto.
  - inversion H; subst. discriminate.
  - inversion H; subst. discriminate.
  - inversion H; subst. auto.
Qed.

Lemma shapes_from_slices_1_quiet o a st errs rs st' errs' rs' :
  shapes_from_slices_1 o a (st, errs, rs) = (st', errs', rs') -> errs' = [] -> rs' = false ->
  st' = st /\ errs = [] /\ rs = false /\
  match get st (vlo o a), get st (vhi o a), get st (vshape o a) with
  | Some b0, Some b1, Some s => b1 - b0 = s
  | Some _, Some _, None => False
  | _, _, _ => True
  end.
Proof.
  unfold shapes_from_slices_1.
  destruct (get st (vlo o a)) as [b0|]; [|intros H; inversion H; subst; auto].
  destruct (get st (vhi o a)) as [b1|]; [|intros H; inversion H; subst; auto].
  destruct (get st (vshape o a)) as [s|]; intros H He Hr.
  - destruct (Z.eqb_spec (b1 - b0) s); inversion H; subst; auto. exfalso. eapply app_nil_inv; eauto.
  - inversion H; subst. discriminate.
Qed.

(* ------------------------------------------------------------------ one pass, extension *)
Lemma pass_quiet e (HG : grid_ok e) cs st errs st' errs' :
  pass e cs st errs = (st', errs', false) -> errs' = [] ->
  st' = st /\ errs = [] /\ Forall (holds e st) cs /\
  forall o, In o (order e) -> forall a, In a axes -> shape_ok st o a.
Proof.
  unfold pass, slices_from_shapes, shapes_from_slices. intros H He.
  destruct (per_object_axis slices_from_shapes_1 (order e) (st, errs, false)) as [[st1 errs1] r1] eqn:E1.
  destruct (per_object_axis shapes_from_slices_1 (order e) (st1, errs1, false)) as [[st2 errs2] r2] eqn:E2.
  destruct (run_constraints e cs st2 errs2 r2 (r1 || r2)) as [[[st3 errs3] rs3] ch3] eqn:E3.
  inversion H; subst st3 errs3 ch3.
  destruct (run_constraints_quiet e HG _ _ _ _ _ _ _ _ _ E3 He eq_refl) as (-> & -> & Hor & HF).
  apply orb_false_iff in Hor. destruct Hor as [-> ->].
  destruct (per_object_axis_quiet _ _ shapes_from_slices_1_quiet _ _ _ _ _ _ _ E2 eq_refl eq_refl) as (-> & -> & _ & P2).
  destruct (per_object_axis_quiet _ _ slices_from_shapes_1_quiet _ _ _ _ _ _ _ E1 eq_refl eq_refl) as (-> & -> & _ & P1).
  repeat split; auto. intros o Ho a Ha. specialize (P1 o Ho a Ha). specialize (P2 o Ho a Ha).
  unfold shape_ok. destruct (get st (vshape o a)), (get st (vlo o a)), (get st (vhi o a)); auto; lia.
Qed.

Lemma extend_step_quiet (c : state -> nat -> bool) (upd : state -> nat -> state) : forall ord st rs st',
  fold_left (fun (acc : state * bool) (o : nat) =>
     let '(st, rs) := acc in if c st o then (upd st o, true) else acc) ord (st, rs) = (st', false) ->
  st' = st /\ rs = false.
Proof.
  induction ord as [|o r IH]; intros st rs st' H; cbn [fold_left] in H.
  - inversion H; auto.
  - destruct (c st o).
    + apply IH in H. destruct H; discriminate.
    + apply IH in H. exact H.
Qed.

Lemma extend_axis_quiet e cs st rs a st' :
  extend_axis e cs (st, rs) a = (st', false) -> st' = st /\ rs = false.
Proof.
  unfold extend_axis. cbn [fst]. intros H.
  match type of H with fold_left ?f _ (fold_left ?g _ _) = _ =>
    destruct (fold_left g (order e) (st, rs)) as [s1 r1] eqn:E1 end.
  apply (extend_step_quiet
           (fun s o => can_extend cs st a o true && negb (is_some (get s (vbound o true a))))
           (fun s o => set s (vbound o true a) (get s (vshape (vol e) a)))) in H.
  destruct H as [-> ->].
  apply (extend_step_quiet
           (fun s o => can_extend cs st a o false && negb (is_some (get s (vbound o false a))))
           (fun s o => set s (vbound o false a) (Some 0))) in E1.
  exact E1.
Qed.

Lemma extend_quiet e cs st st' : extend e cs st = (st', false) -> st' = st.
Proof.
  unfold extend. cbn [axes fold_left]. intros H.
  destruct (extend_axis e cs (st, false) 0%nat) as [s1 r1] eqn:E0.
  destruct (extend_axis e cs (s1, r1) 1%nat) as [s2 r2] eqn:E1.
  apply extend_axis_quiet in H. destruct H as [-> ->].
  apply extend_axis_quiet in E1. destruct E1 as [-> ->].
  apply extend_axis_quiet in E0. destruct E0 as [-> _]. reflexivity.
Qed.

(* ------------------------------------------------------------------ the loop *)
Lemma filter_nil_forall {A} (p : A -> bool) l : filter p l = [] -> forall x, In x l -> p x = false.
Proof.
  induction l as [|y r IH]; cbn; intros H x Hx; [contradiction|].
  destruct (p y) eqn:E; [discriminate|]. destruct Hx as [<-|Hx]; auto.
Qed.

Lemma slices_known_spec st o : slices_known st o = true ->
  forall a, In a axes -> exists lo hi, get st (vlo o a) = Some lo /\ get st (vhi o a) = Some hi.
Proof.
  unfold slices_known. rewrite forallb_forall. intros H a Ha. specialize (H a Ha).
  apply andb_true_iff in H. destruct H as [H1 H2].
  destruct (get st (vlo o a)) as [lo|]; [|discriminate]. destruct (get st (vhi o a)) as [hi|]; [|discriminate].
  eauto.
Qed.

Theorem iterate_success e (HG : grid_ok e) cs : forall fuel st errs stf,
  iterate false e cs fuel st errs = (stf, [], true) ->
  Forall (holds e stf) cs /\ forall o, In o (order e) -> resolved_obj e stf o.
Proof.
  induction fuel as [|f IH]; intros st errs stf H; cbn [iterate] in H; [discriminate|].
  cbn [andb] in H.
  destruct (pass e cs st errs) as [[st3 errs3] ch] eqn:EP.
  destruct ch; [eapply IH; eauto|].
  destruct (extend e cs st3) as [st4 ch4] eqn:EE.
  destruct ch4; [eapply IH; eauto|].
  inversion H; subst stf. unfold handle_unresolved in H2.
  apply app_eq_nil in H2. destruct H2 as [-> Hfil].
  apply extend_quiet in EE. subst st4.
  destruct (pass_quiet e HG _ _ _ _ _ EP eq_refl) as (-> & -> & HF & HS).
  split; [exact HF|].
  intros o Ho a Ha.
  pose proof (filter_nil_forall _ _ Hfil o Ho) as Hk. apply negb_false_iff in Hk.
  destruct (slices_known_spec _ _ Hk a Ha) as (lo & hi & Hlo & Hhi).
  specialize (HS o Ho a Ha). unfold shape_ok in HS. rewrite Hlo, Hhi in HS.
  exists lo, hi. repeat split; auto.
  destruct (get st (vshape o a)) as [s|]; [subst; reflexivity|contradiction].
Qed.

(* ------------------------------------------------------------------ final validation against the volume *)
Lemma bounds_errors_nil e st : forall ord errs,
  fold_left (fun errs o =>
      if Nat.eqb o (vol e) then errs
      else if negb (slices_known st o) then (if existsb (Nat.eqb o) errs then errs else errs ++ [o])
      else if forallb (fun a =>
                match get st (vlo o a), get st (vhi o a), get st (vlo (vol e) a), get st (vhi (vol e) a) with
                | Some s1, Some s2, Some v1, Some v2 => (v1 <=? s1) && (s2 <=? v2) && (s1 <? s2)
                | _, _, _, _ => false
                end) axes
           then errs else errs ++ [o]) ord errs = [] ->
  errs = [] /\ forall o, In o ord -> o <> vol e -> inside_volume e st o.
Proof.
  induction ord as [|o r IH]; intros errs H; cbn [fold_left] in H.
  - split; auto. intros o [].
  - apply IH in H. destruct H as [H HI].
    destruct (Nat.eqb_spec o (vol e)) as [Heq|Hne].
    + split; auto. intros o' [<-|Hin] Hn; [contradiction|auto].
    + destruct (slices_known st o) eqn:Hk; cbn [negb] in H.
      * match type of H with (if ?c then _ else _) = _ => destruct c eqn:Hall end.
        2:{ exfalso. eapply app_nil_inv; eauto. }
        split; auto. intros o' [<-|Hin] Hn; [|auto].
        intros a Ha. rewrite forallb_forall in Hall. specialize (Hall a Ha).
        destruct (get st (vlo o a)) as [s1|]; [|discriminate].
        destruct (get st (vhi o a)) as [s2|]; [|discriminate].
        destruct (get st (vlo (vol e) a)) as [v1|]; [|discriminate].
        destruct (get st (vhi (vol e) a)) as [v2|]; [|discriminate].
        apply andb_true_iff in Hall. destruct Hall as [Hall H3]. apply andb_true_iff in Hall. destruct Hall as [H1 H2'].
        exists s1, s2, v1, v2. repeat split; auto; lia.
      * destruct (existsb (Nat.eqb o) errs) eqn:Hex.
        -- subst errs. discriminate.
        -- exfalso. eapply app_nil_inv; eauto.
Qed.

Theorem resolve_success e (HG : grid_ok e) cs fuel st :
  resolve false e cs fuel = (st, [], true) ->
  Forall (holds e st) cs /\
  (forall o, In o (order e) -> resolved_obj e st o) /\
  (forall o, In o (order e) -> o <> vol e -> inside_volume e st o).
Proof.
  unfold resolve, solve. destruct (iterate false e cs fuel _ []) as [[st1 errs1] conv] eqn:EI.
  intros H. inversion H; subst st1 conv. unfold bounds_errors in H2.
  apply bounds_errors_nil in H2. destruct H2 as [-> HI].
  destruct (iterate_success e HG cs _ _ _ _ EI) as [HF HR]. auto.
Qed.
