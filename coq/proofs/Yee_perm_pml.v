(* Yee_perm_pml.v — C08 with absorbing layers: the CPML loop and the full forward step of model/Yee.v commute with the cyclic
   relabelling of the axes (layers are relabelled with the scene: axis a -> (a+1) mod 3, slice extents permuted).
   Statements are pointwise (cell by cell), because the layer-membership test of the relabelled layer is the same boolean
   conjunction in a different order. *)
From Coq Require Import List Arith Bool Lia.
From FV Require Import base.Scalar base.Cplx model.Yee proofs.Yee_steps proofs.Yee_perm proofs.Yee_pml_loop proofs.Yee_pml_sweep.
Import ListNotations.

Section PermPml.
  Variable K : Fld.
  Notation PV := (PV K). Notation PM := (PM K).
  Notation eqA := (eqA K). Notation eqV := (eqV K). Notation eqP := (eqP K).
  Definition Paxis (a : nat) : nat := match a with O => 1 | S O => 2 | _ => 0 end.
  Definition Ppml (p : pml K) : pml K :=
    mkPml K (Paxis (p_axis K p)) (p_min K p) (p_z0 K p) (p_z1 K p) (p_x0 K p) (p_x1 K p) (p_y0 K p) (p_y1 K p)
      (p_aE K p) (p_bE K p) (p_ikE K p) (p_aH K p) (p_bH K p) (p_ikH K p) (p_kappa1 K p).
  Definition PP (q : psi_t K) : psi_t K := (P (fst q), P (snd q)).
  Definition axis_ok (p : pml K) : Prop := (p_axis K p < 3)%nat.

  Definition Pscene_pml (sc : scene K) : scene K :=
    mkScene K (nz K sc) (nx K sc) (ny K sc) (hiz K sc) (hix K sc) (hiy K sc) (loz K sc) (lox K sc) (loy K sc)
      (wz K sc) (wx K sc) (wy K sc) (rf K sc) (PM (ieps K sc)) (PM (imu K sc)) (PM (sigE K sc)) (PM (sigH K sc))
      (eta0 K sc) (cn K sc) (PM (mE K sc)) (PM (mH K sc)) (map Ppml (pmls K sc)) (fun t => PV (injE K sc t)) (fun t => PV (injH K sc t)).

  Lemma in_pml_perm p i j k : in_pml K (Ppml p) i j k = in_pml K p j k i.
  Proof.
    unfold in_pml, Ppml; cbn [p_x0 p_x1 p_y0 p_y1 p_z0 p_z1].
    generalize (p_z0 K p <=? i), (i <? p_z1 K p), (p_x0 K p <=? j), (j <? p_x1 K p), (p_y0 K p <=? k), (k <? p_y1 K p).
    intros [] [] [] [] [] []; reflexivity.
  Qed.
  Lemma depth_perm p i j k : axis_ok p -> pml_depth K (Ppml p) i j k = pml_depth K p j k i.
  Proof. unfold axis_ok, pml_depth, Ppml; cbn. destruct (p_axis K p) as [|[|[|a]]]; intros H; try reflexivity; lia. Qed.

  Lemma pml_apply_perm isE sim p d1 d2 d1' d2' psi psi' : axis_ok p ->
    eqA d1' (P d1) -> eqA d2' (P d2) -> eqP psi' (PP psi) ->
    let r := pml_apply K isE sim p d1 d2 psi in let r' := pml_apply K isE sim (Ppml p) d1' d2' psi' in
    eqA (fst (fst r')) (P (fst (fst r))) /\ eqA (snd (fst r')) (P (snd (fst r))) /\ eqP (snd r') (PP (snd r)).
  Proof.
    intros Hax H1 H2 [P1 P2]. cbv zeta. unfold pml_apply. cbn [fst snd].
    repeat split; intros i j k; unfold P, PP; cbn [fst snd];
      rewrite in_pml_perm, (depth_perm p i j k Hax), ?(H1 i j k), ?(H2 i j k), ?(P1 i j k), ?(P2 i j k); reflexivity.
  Qed.
  Lemma add_corr_perm ax c c' k1 k2 k1' k2' : (ax < 3)%nat -> eqV c' (PV c) -> eqA k1' (P k1) -> eqA k2' (P k2) ->
    eqV (add_corr K (Paxis ax) c' k1' k2') (PV (add_corr K ax c k1 k2)).
  Proof.
    intros H (X & Y & Z) A B. destruct ax as [|[|[|ax]]]; try lia; unfold add_corr, Paxis, Yee_pml_loop.eqV, Yee_perm.PV; cbn [vx vy vz];
      repeat split; intros i j k; unfold P; rewrite ?(X i j k), ?(Y i j k), ?(Z i j k), ?(A i j k), ?(B i j k); reflexivity.
  Qed.

  Lemma pml_loop_perm isE sim (dsel dsel' : nat -> A3 K * A3 K) :
    (forall a, (a < 3)%nat -> eqA (fst (dsel' (Paxis a))) (P (fst (dsel a))) /\ eqA (snd (dsel' (Paxis a))) (P (snd (dsel a)))) ->
    forall ps psis psis' c c', Forall axis_ok ps -> Forall2 (fun q q' => eqP q' (PP q)) psis psis' -> eqV c' (PV c) ->
    eqV (fst (pml_loop K isE sim (map Ppml ps) psis' dsel' c')) (PV (fst (pml_loop K isE sim ps psis dsel c))) /\
    Forall2 (fun q q' => eqP q' (PP q)) (snd (pml_loop K isE sim ps psis dsel c)) (snd (pml_loop K isE sim (map Ppml ps) psis' dsel' c')).
  Proof.
    intros Hd. induction ps as [|p ps IH]; intros psis psis' c c' HF HQ Hc.
    - cbn. split; assumption.
    - inversion HF as [|? ? Hp HF']; subst.
      destruct HQ as [|psi psi' psis0 psis0' Hq HQ']; [cbn; split; [assumption | constructor]|].
      cbn [map pml_loop].
      assert (E: p_axis K (Ppml p) = Paxis (p_axis K p)) by reflexivity. rewrite E.
      destruct (Hd (p_axis K p) Hp) as [D1 D2].
      destruct (dsel (p_axis K p)) as [d1 d2]. destruct (dsel' (Paxis (p_axis K p))) as [d1' d2']. cbn [fst snd] in D1, D2.
      pose proof (pml_apply_perm isE sim p d1 d2 d1' d2' psi psi' Hp D1 D2 Hq) as (A1 & A2 & A3).
      destruct (pml_apply K isE sim p d1 d2 psi) as [[k1 k2] q]. destruct (pml_apply K isE sim (Ppml p) d1' d2' psi') as [[k1' k2'] q'].
      cbn [fst snd] in A1, A2, A3.
      destruct (IH psis0 psis0' _ _ HF' HQ' (add_corr_perm (p_axis K p) c c' k1 k2 k1' k2' Hp Hc A1 A2)) as [R1 R2].
      destruct (pml_loop K isE sim ps psis0 dsel (add_corr K (p_axis K p) c k1 k2)) as [r rest].
      destruct (pml_loop K isE sim (map Ppml ps) psis0' dsel' (add_corr K (Paxis (p_axis K p)) c' k1' k2')) as [r' rest']. cbn [fst snd] in *.
      split; [exact R1 | constructor; assumption].
  Qed.

  Variable sc : scene K.
  Hypothesis Hax : Forall axis_ok (pmls K sc).
  Definition rel_psis (qs qs' : list (psi_t K)) : Prop := Forall2 (fun q q' => eqP q' (PP q)) qs qs'.

  (* difference operators of the relabelled scene on pointwise-relabelled fields *)
  Lemma nxt_ptw n hi (f g : nat -> C K) i : (forall q, f q = g q) -> nxt K n hi f i = nxt K n hi g i.
  Proof. intros H. unfold nxt. rewrite !H. reflexivity. Qed.
  Lemma prv_ptw n lo (f g : nat -> C K) i : (forall q, f q = g q) -> prv K n lo f i = prv K n lo g i.
  Proof. intros H. unfold prv. destruct i; rewrite ?H; reflexivity. Qed.

  Lemma dm_perm (u u' : A3 K) : eqA u' (P u) ->
    eqA (dmx K (Pscene_pml sc) u') (P (dmz K sc u)) /\ eqA (dmy K (Pscene_pml sc) u') (P (dmx K sc u)) /\ eqA (dmz K (Pscene_pml sc) u') (P (dmy K sc u)).
  Proof.
    intros H. repeat split; intros i j k; unfold dmx, dmy, dmz, P; cbn [nx ny nz lox loy loz wx wy wz rf Pscene_pml]; rewrite (H i j k); unfold P.
    - rewrite (prv_ptw _ _ (fun a => u' a j k) (fun a => u j k a)) by (intros q; apply H). reflexivity.
    - rewrite (prv_ptw _ _ (fun a => u' i a k) (fun a => u a k i)) by (intros q; apply H). reflexivity.
    - rewrite (prv_ptw _ _ (fun a => u' i j a) (fun a => u j a i)) by (intros q; apply H). reflexivity.
  Qed.
  Lemma dp_perm (u u' : A3 K) : eqA u' (P u) ->
    eqA (dpx K (Pscene_pml sc) u') (P (dpz K sc u)) /\ eqA (dpy K (Pscene_pml sc) u') (P (dpx K sc u)) /\ eqA (dpz K (Pscene_pml sc) u') (P (dpy K sc u)).
  Proof.
    intros H. repeat split; intros i j k; unfold dpx, dpy, dpz, P; cbn [nx ny nz hix hiy hiz wx wy wz rf Pscene_pml]; rewrite (H i j k); unfold P.
    - rewrite (nxt_ptw _ _ (fun a => u' a j k) (fun a => u j k a)) by (intros q; apply H). reflexivity.
    - rewrite (nxt_ptw _ _ (fun a => u' i a k) (fun a => u a k i)) by (intros q; apply H). reflexivity.
    - rewrite (nxt_ptw _ _ (fun a => u' i j a) (fun a => u j a i)) by (intros q; apply H). reflexivity.
  Qed.

  Lemma curlH_raw_perm H H' : eqV H' (PV H) -> eqV (curlH_raw K (Pscene_pml sc) H') (PV (curlH_raw K sc H)).
  Proof.
    intros (X & Y & Z). cbn [vx vy vz Yee_perm.PV] in X, Y, Z.
    destruct (dm_perm _ _ X) as (x1 & x2 & x3). destruct (dm_perm _ _ Y) as (y1 & y2 & y3). destruct (dm_perm _ _ Z) as (z1 & z2 & z3).
    unfold curlH_raw, Yee_pml_loop.eqV, Yee_perm.PV; cbn [vx vy vz].
    repeat split; intros i j k; unfold P; rewrite ?(z2 i j k), ?(y3 i j k), ?(x3 i j k), ?(z1 i j k), ?(y1 i j k), ?(x2 i j k); reflexivity.
  Qed.
  Lemma curlE_raw_perm E E' : eqV E' (PV E) -> eqV (curlE_raw K (Pscene_pml sc) E') (PV (curlE_raw K sc E)).
  Proof.
    intros (X & Y & Z). cbn [vx vy vz Yee_perm.PV] in X, Y, Z.
    destruct (dp_perm _ _ X) as (x1 & x2 & x3). destruct (dp_perm _ _ Y) as (y1 & y2 & y3). destruct (dp_perm _ _ Z) as (z1 & z2 & z3).
    unfold curlE_raw, Yee_pml_loop.eqV, Yee_perm.PV; cbn [vx vy vz].
    repeat split; intros i j k; unfold P; rewrite ?(z2 i j k), ?(y3 i j k), ?(x3 i j k), ?(z1 i j k), ?(y1 i j k), ?(x2 i j k); reflexivity.
  Qed.

  Lemma curlH_perm sim H H' qs qs' : eqV H' (PV H) -> rel_psis qs qs' ->
    eqV (fst (curlH K (Pscene_pml sc) sim H' qs')) (PV (fst (curlH K sc sim H qs))) /\
    rel_psis (snd (curlH K sc sim H qs)) (snd (curlH K (Pscene_pml sc) sim H' qs')).
  Proof.
    intros HH HQ. pose proof HH as (X & Y & Z). cbn [vx vy vz Yee_perm.PV] in X, Y, Z.
    destruct (dm_perm _ _ X) as (x1 & x2 & x3). destruct (dm_perm _ _ Y) as (y1 & y2 & y3). destruct (dm_perm _ _ Z) as (z1 & z2 & z3).
    unfold curlH. cbn [pmls Pscene_pml].
    apply pml_loop_perm; [| exact Hax | exact HQ | apply curlH_raw_perm; exact HH].
    intros [|[|[|a]]] Ha; try lia; cbv beta iota; cbn [fst snd Paxis]; split; assumption.
  Qed.
  Lemma curlE_perm sim E E' qs qs' : eqV E' (PV E) -> rel_psis qs qs' ->
    eqV (fst (curlE K (Pscene_pml sc) sim E' qs')) (PV (fst (curlE K sc sim E qs))) /\
    rel_psis (snd (curlE K sc sim E qs)) (snd (curlE K (Pscene_pml sc) sim E' qs')).
  Proof.
    intros HH HQ. pose proof HH as (X & Y & Z). cbn [vx vy vz Yee_perm.PV] in X, Y, Z.
    destruct (dp_perm _ _ X) as (x1 & x2 & x3). destruct (dp_perm _ _ Y) as (y1 & y2 & y3). destruct (dp_perm _ _ Z) as (z1 & z2 & z3).
    unfold curlE. cbn [pmls Pscene_pml].
    apply pml_loop_perm; [| exact Hax | exact HQ | apply curlE_raw_perm; exact HH].
    intros [|[|[|a]]] Ha; try lia; cbv beta iota; cbn [fst snd Paxis]; split; assumption.
  Qed.

  (* states related by the relabelling *)
  Definition rel_state (s s' : state K) : Prop :=
    tstep s' = tstep s /\ eqV (fE s') (PV (fE s)) /\ eqV (fH s') (PV (fH s)) /\ rel_psis (psiE s) (psiE s') /\ rel_psis (psiH s) (psiH s').

  (* C08 with absorbing layers: one step preserves the relation, hence any number of steps *)
  Theorem forward_perm_pml s s' : rel_state s s' -> rel_state (forward K sc s) (forward K (Pscene_pml sc) s').
  Proof.
    intros (HT & HE & HH & PE & PH).
    destruct (curlH_perm true (fH s) (fH s') (psiE s) (psiE s') HH PE) as (KC & PE').
    assert (EE: eqV (fE (forward K (Pscene_pml sc) s')) (PV (fE (forward K sc s)))).
    { rewrite !fE_forward, !update_E_unfold. cbn [fE].
      destruct KC as (k1 & k2 & k3). destruct HE as (e1 & e2 & e3). cbn [vx vy vz Yee_perm.PV] in k1, k2, k3, e1, e2, e3.
      unfold Yee_pml_loop.eqV, Yee_perm.PV, vmask, vadd, vmap2, updE1, fE1; cbn [vx vy vz m1 m2 m3 injE cn ieps sigE mE eta0 Pscene_pml Yee_perm.PM Yee_perm.PV].
      rewrite HT. repeat split; intros i j k; unfold P; rewrite ?(e1 i j k), ?(e2 i j k), ?(e3 i j k), ?(k1 i j k), ?(k2 i j k), ?(k3 i j k); reflexivity. }
    destruct (curlE_perm true (fE (forward K sc s)) (fE (forward K (Pscene_pml sc) s')) (psiH s) (psiH s') EE PH) as (KE & PH').
    assert (A: forall scx st, psiH (update_E K scx true st) = psiH st /\ tstep (update_E K scx true st) = tstep st /\ fH (update_E K scx true st) = fH st /\
                              psiE (update_E K scx true st) = snd (curlH K scx true (fH st) (psiE st)))
      by (intros; rewrite update_E_unfold; repeat split).
    destruct (A sc s) as (a1 & b1 & c1 & d1). destruct (A (Pscene_pml sc) s') as (a2 & b2 & c2 & d2).
    split; [cbn; rewrite HT; reflexivity|]. split; [exact EE|]. split; [|split].
    - unfold forward. rewrite !update_H_unfold. cbn [fH]. rewrite a1, a2, b1, b2, c1, c2, <- !fE_forward.
      destruct KE as (k1 & k2 & k3). destruct HH as (h1 & h2 & h3). cbn [vx vy vz Yee_perm.PV] in k1, k2, k3, h1, h2, h3.
      unfold Yee_pml_loop.eqV, Yee_perm.PV, vmask, vadd, vmap2, updH1, fH1; cbn [vx vy vz m1 m2 m3 injH cn imu sigH mH eta0 Pscene_pml Yee_perm.PM Yee_perm.PV].
      rewrite HT. repeat split; intros i j k; unfold P; rewrite ?(h1 i j k), ?(h2 i j k), ?(h3 i j k), ?(k1 i j k), ?(k2 i j k), ?(k3 i j k); reflexivity.
    - unfold forward. rewrite !update_H_unfold. cbn [psiE]. rewrite d1, d2. exact PE'.
    - unfold forward. rewrite !update_H_unfold. cbn [psiH]. rewrite a1, a2, <- !fE_forward. exact PH'.
  Qed.

  Fixpoint iterQ (s0 : scene K) (n : nat) (st : state K) : state K := match n with O => st | S m => iterQ s0 m (forward K s0 st) end.
  Theorem forward_perm_pml_n n : forall s s', rel_state s s' -> rel_state (iterQ sc n s) (iterQ (Pscene_pml sc) n s').
  Proof. induction n as [|n IH]; intros s s' R; [exact R|]. cbn [iterQ]. apply IH. apply forward_perm_pml. exact R. Qed.
End PermPml.
