(* Yee_perm_pml.v — C08 with absorbing layers: the CPML loop and the full forward step of model/Yee.v commute with the cyclic
   relabelling of the axes (layers are relabelled with the scene: axis a -> (a+1) mod 3, slice extents permuted). *)
From Coq Require Import List Arith Lia.
From FV Require Import base.Scalar base.Cplx model.Yee proofs.Yee_steps proofs.Yee_perm proofs.Yee_pml_sweep.
Import ListNotations.

Section PermPml.
  Variable K : Fld.
  Notation P := (@P). Notation PV := (PV K). Notation PM := (PM K).
  Definition Paxis (a : nat) : nat := match a with O => 1 | S O => 2 | _ => 0 end.
  Definition Ppml (p : pml K) : pml K :=
    mkPml K (Paxis (p_axis K p)) (p_min K p) (p_z0 K p) (p_z1 K p) (p_x0 K p) (p_x1 K p) (p_y0 K p) (p_y1 K p)
      (p_aE K p) (p_bE K p) (p_ikE K p) (p_aH K p) (p_bH K p) (p_ikH K p) (p_kappa1 K p).
  Definition PP (q : psi_t K) : psi_t K := (P (fst q), P (snd q)).
  Definition PD (d : A3 K * A3 K) : A3 K * A3 K := (P (fst d), P (snd d)).
  Definition axis_ok (p : pml K) : Prop := (p_axis K p < 3)%nat.

  (* the relabelled scene, layers included *)
  Definition Pscene_pml (sc : scene K) : scene K :=
    mkScene K (nz K sc) (nx K sc) (ny K sc) (hiz K sc) (hix K sc) (hiy K sc) (loz K sc) (lox K sc) (loy K sc)
      (wz K sc) (wx K sc) (wy K sc) (rf K sc) (PM (ieps K sc)) (PM (imu K sc)) (PM (sigE K sc)) (PM (sigH K sc))
      (eta0 K sc) (cn K sc) (PM (mE K sc)) (PM (mH K sc)) (map Ppml (pmls K sc)) (fun t => PV (injE K sc t)) (fun t => PV (injH K sc t)).

  Lemma pml_apply_perm isE sim p d1 d2 psi : axis_ok p ->
    pml_apply K isE sim (Ppml p) (P d1) (P d2) (PP psi) =
    (PD (fst (pml_apply K isE sim p d1 d2 psi)), PP (snd (pml_apply K isE sim p d1 d2 psi))).
  Proof.
    intros Hax. unfold axis_ok in Hax. destruct p as [ax mn x0 x1 y0 y1 z0 z1 aE bE ikE aH bH ikH k1]. cbn in Hax.
    destruct ax as [|[|[|ax]]]; [reflexivity | reflexivity | reflexivity | lia].
  Qed.
  Lemma add_corr_perm ax c k1 k2 : (ax < 3)%nat -> add_corr K (Paxis ax) (PV c) (P k1) (P k2) = PV (add_corr K ax c k1 k2).
  Proof. intros H. destruct ax as [|[|[|ax]]]; [reflexivity | reflexivity | reflexivity | lia]. Qed.

  Lemma pml_loop_perm isE sim (dsel dsel' : nat -> A3 K * A3 K) :
    (forall a, (a < 3)%nat -> dsel' (Paxis a) = PD (dsel a)) ->
    forall ps psis c, Forall axis_ok ps ->
    pml_loop K isE sim (map Ppml ps) (map PP psis) dsel' (PV c) =
    (PV (fst (pml_loop K isE sim ps psis dsel c)), map PP (snd (pml_loop K isE sim ps psis dsel c))).
  Proof.
    intros Hd. induction ps as [|p ps IH]; intros psis c HF.
    - cbn. reflexivity.
    - destruct psis as [|psi psis]; [cbn; reflexivity|].
      inversion HF as [|? ? Hp HF']; subst. cbn [map pml_loop].
      assert (E: p_axis K (Ppml p) = Paxis (p_axis K p)) by reflexivity. rewrite E, (Hd (p_axis K p) Hp).
      destruct (dsel (p_axis K p)) as [d1 d2]. unfold PD at 1. cbn [fst snd].
      rewrite (pml_apply_perm isE sim p d1 d2 psi Hp).
      destruct (pml_apply K isE sim p d1 d2 psi) as [[k1 k2] psi']. cbn [fst snd PD].
      rewrite (add_corr_perm (p_axis K p) c k1 k2 Hp), (IH psis (add_corr K (p_axis K p) c k1 k2) HF').
      destruct (pml_loop K isE sim ps psis dsel (add_corr K (p_axis K p) c k1 k2)) as [c' rest]. reflexivity.
  Qed.

  Variable sc : scene K.
  Hypothesis Hax : Forall axis_ok (pmls K sc).

  Lemma curlH_perm sim H psis :
    curlH K (Pscene_pml sc) sim (PV H) (map PP psis) = (PV (fst (curlH K sc sim H psis)), map PP (snd (curlH K sc sim H psis))).
  Proof.
    unfold curlH at 1. cbn [pmls Pscene_pml].
    rewrite (pml_loop_perm false sim
      (fun a => match a with O => (dmx K sc (vz H), dmx K sc (vy H)) | S O => (dmy K sc (vx H), dmy K sc (vz H)) | _ => (dmz K sc (vy H), dmz K sc (vx H)) end)
      _ ltac:(intros [|[|[|a]]] Ha; [reflexivity | reflexivity | reflexivity | lia]) (pmls K sc) psis (curlH_raw K sc H) Hax).
    reflexivity.
  Qed.
  Lemma curlE_perm sim E psis :
    curlE K (Pscene_pml sc) sim (PV E) (map PP psis) = (PV (fst (curlE K sc sim E psis)), map PP (snd (curlE K sc sim E psis))).
  Proof.
    unfold curlE at 1. cbn [pmls Pscene_pml].
    rewrite (pml_loop_perm true sim
      (fun a => match a with O => (dpx K sc (vz E), dpx K sc (vy E)) | S O => (dpy K sc (vx E), dpy K sc (vz E)) | _ => (dpz K sc (vy E), dpz K sc (vx E)) end)
      _ ltac:(intros [|[|[|a]]] Ha; [reflexivity | reflexivity | reflexivity | lia]) (pmls K sc) psis (curlE_raw K sc E) Hax).
    reflexivity.
  Qed.

  Definition Pstate_pml (s : state K) : state K := mkSt (tstep s) (PV (fE s)) (PV (fH s)) (map PP (psiE s)) (map PP (psiH s)).

  (* one full step, CPML included: an equality of states *)
  Theorem forward_perm_pml s : forward K (Pscene_pml sc) (Pstate_pml s) = Pstate_pml (forward K sc s).
  Proof.
    unfold forward. rewrite !update_H_unfold, !update_E_unfold. cbn [fE fH psiE psiH tstep Pstate_pml].
    rewrite curlH_perm. cbn [fst snd].
    match goal with |- context [curlE K (Pscene_pml sc) true ?e (map PP (psiH s))] =>
      change e with (PV (vmask K (mE K sc) (vadd K (mkV (updE1 K sc (m1 (ieps K sc)) (fE1 K sc (m1 (ieps K sc)) (m1 (sigE K sc))) (vx (fE s)) (vx (fst (curlH K sc true (fH s) (psiE s)))))
                                                        (updE1 K sc (m2 (ieps K sc)) (fE1 K sc (m2 (ieps K sc)) (m2 (sigE K sc))) (vy (fE s)) (vy (fst (curlH K sc true (fH s) (psiE s)))))
                                                        (updE1 K sc (m3 (ieps K sc)) (fE1 K sc (m3 (ieps K sc)) (m3 (sigE K sc))) (vz (fE s)) (vz (fst (curlH K sc true (fH s) (psiE s))))))
                                                   (injE K sc (tstep s))))) end.
    rewrite curlE_perm. cbn [fst snd]. reflexivity.
  Qed.

  Fixpoint iterQ (s0 : scene K) (n : nat) (st : state K) : state K := match n with O => st | S m => iterQ s0 m (forward K s0 st) end.
  Theorem forward_perm_pml_n n : forall s, iterQ (Pscene_pml sc) n (Pstate_pml s) = Pstate_pml (iterQ sc n s).
  Proof. induction n as [|n IH]; intros s; [reflexivity|]. cbn [iterQ]. rewrite forward_perm_pml. apply IH. Qed.
End PermPml.
