(* PaintShapes_proofs.v — lemmas about model/PaintShapes.v (C43). *)
From Coq Require Import ZArith List Bool Field Ring Lia.
From FV Require Import base.Scalar model.PaintShapes.
Import ListNotations.

Section ShapesProofs.
Variable K : OFld.
Add Field KFs : (Fth K).
Local Open Scope fld_scope.
Notation Axis := (Axis K). Notation pt := (pt K).

(* ---------- a little order theory of the abstract ordered field ---------- *)
Lemma zero_le_one : fle K 0 1.
Proof.
  destruct (fle_total K 0 1) as [H|H]; [exact H|].
  (* 1 <= 0  ->  0 <= -1  ->  0 <= (-1)*(-1) = 1 *)
  assert (Hm : fle K 0 (- (1))).
  { pose proof (fle_add K 1 0 (- (1)) H) as A.
    replace (1 + - (1)) with (0 : K) in A by ring. replace (0 + - (1)) with (- (1) : K) in A by ring. exact A. }
  pose proof (fle_mul K _ _ Hm Hm) as P. replace (- (1) * - (1)) with (1 : K) in P by ring. exact P.
Qed.
Lemma two_neq_zero : (1 + 1 : K) <> 0.
Proof.
  intros E. pose proof zero_le_one as H01.
  pose proof (fle_add K 0 1 1 H01) as A. replace (0 + 1) with (1 : K) in A by ring. rewrite E in A.
  apply (f01 K). apply (fle_antisym K); assumption.
Qed.
Lemma half_double x : half K * x + half K * x = x.
Proof. unfold half. field. exact two_neq_zero. Qed.

Lemma fle_add_iff a b d : fle K (a + d) (b + d) <-> fle K a b.
Proof.
  split; intros H; [|apply (fle_add K); exact H].
  pose proof (fle_add K _ _ (- d) H) as A.
  replace (a + d + - d) with a in A by ring. replace (b + d + - d) with b in A by ring. exact A.
Qed.
Lemma fleb_add_r a b d : fleb K (a + d) (b + d) = fleb K a b.
Proof.
  destruct (fleb K a b) eqn:E.
  - apply (fleb_spec K). apply fle_add_iff. apply (fleb_spec K). exact E.
  - destruct (fleb K (a + d) (b + d)) eqn:E2; [|reflexivity].
    apply (fleb_spec K) in E2. apply fle_add_iff in E2. apply (fleb_spec K) in E2. congruence.
Qed.

(* ---------- local versus absolute coordinates ---------- *)
Lemma local_vs_abs (a : Axis) i : local_center K a i - local_mid K a = abs_center K a i - abs_mid K a.
Proof.
  unfold local_center, local_mid, real_extent, abs_center, abs_mid.
  set (e1 := ax_edge K a (ax_lo K a + i)). set (e2 := ax_edge K a (ax_lo K a + i + 1)).
  set (el := ax_edge K a (ax_lo K a)). set (eh := ax_edge K a (ax_hi K a)).
  rewrite <- (half_double el) at 1. ring.
Qed.
Lemma local_center_abs (a : Axis) i : local_center K a i + ax_edge K a (ax_lo K a) = abs_center K a i.
Proof. unfold local_center, abs_center. ring. Qed.
Lemma local_mid_abs (a : Axis) : local_mid K a + ax_edge K a (ax_lo K a) = abs_mid K a.
Proof.
  unfold local_mid, real_extent, abs_mid.
  set (el := ax_edge K a (ax_lo K a)). rewrite <- (half_double el) at 2. ring.
Qed.

(* ---------- sphere / ellipsoid ---------- *)
Theorem sphere_mask_is_inclusion (ax ay az : Axis) rx ry rz i j k :
  sphere_mask K ax ay az rx ry rz i j k =
  in_ellipsoid K (abs_mid K ax) (abs_mid K ay) (abs_mid K az) rx ry rz
                 (abs_center K ax i) (abs_center K ay j) (abs_center K az k).
Proof.
  unfold sphere_mask, sphere_sum, ell_term, in_ellipsoid. rewrite !local_vs_abs. reflexivity.
Qed.

(* ---------- cylinder ---------- *)
Theorem cyl_mask_is_inclusion axis (ah av : Axis) r i j k :
  cyl_mask K axis ah av r i j k =
  in_disc K (abs_mid K ah) (abs_mid K av) r
            (abs_center K ah (fst (transverse axis i j k))) (abs_center K av (snd (transverse axis i j k))).
Proof.
  unfold cyl_mask. destruct (transverse axis i j k) as [a b]. cbn [fst snd].
  unfold cyl_mask2, cyl_sum, in_disc. rewrite !local_vs_abs. reflexivity.
Qed.
Theorem cyl_mask_extruded (ah av : Axis) r i j k d :
  cyl_mask K 0 ah av r d j k = cyl_mask K 0 ah av r i j k /\
  cyl_mask K 1 ah av r i d k = cyl_mask K 1 ah av r i j k /\
  cyl_mask K 2 ah av r i j d = cyl_mask K 2 ah av r i j k.
Proof. repeat split; reflexivity. Qed.

(* ---------- polygon: the crossing rule is translation invariant ---------- *)
Lemma crosses_shift (d t v0 v1 : pt) :
  crosses K (shift K d t) (shift K d v0) (shift K d v1) = crosses K t v0 v1.
Proof.
  destruct d as [dx dy], t as [tx ty], v0 as [x0 y0], v1 as [x1 y1]. unfold shift, crosses. cbn [fst snd].
  rewrite !fleb_add_r.
  replace ((x1 + dx - (tx + dx)) * (y0 + dy - (y1 + dy))) with ((x1 - tx) * (y0 - y1)) by ring.
  replace ((y1 + dy - (ty + dy)) * (x0 + dx - (x1 + dx))) with ((y1 - ty) * (x0 - x1)) by ring.
  reflexivity.
Qed.
Lemma crossings_shift (d t : pt) rest : forall first prev,
  crossings_from K (shift K d t) (shift K d first) (shift K d prev) (map (shift K d) rest) =
  crossings_from K t first prev rest.
Proof.
  induction rest as [|v r IH]; intros first prev; cbn [map crossings_from].
  - apply crosses_shift.
  - rewrite crosses_shift, IH. reflexivity.
Qed.
Theorem inside_evenodd_shift (d : pt) verts t :
  inside_evenodd K (map (shift K d) verts) (shift K d t) = inside_evenodd K verts t.
Proof. destruct verts as [|v r]; [reflexivity|]. cbn [map inside_evenodd]. apply crossings_shift. Qed.

(* the mask computed in object-local coordinates is the crossing rule applied to the polygon placed
   with its origin at the centre of the slice, at the absolute cell centre *)
Theorem poly_mask_is_absolute_rule axis (ah av : Axis) verts i j k :
  poly_mask K axis ah av verts i j k =
  inside_evenodd K (map (shift K (abs_mid K ah, abs_mid K av)) verts)
                   (abs_center K ah (fst (transverse axis i j k)), abs_center K av (snd (transverse axis i j k))).
Proof.
  unfold poly_mask. destruct (transverse axis i j k) as [a b]. cbn [fst snd]. unfold poly_mask2.
  rewrite <- (inside_evenodd_shift (ax_edge K ah (ax_lo K ah), ax_edge K av (ax_lo K av))).
  f_equal.
  - rewrite map_map. apply map_ext. intros [x y]. unfold shift. cbn [fst snd].
    rewrite <- !local_mid_abs. f_equal; ring.
  - unfold shift. cbn [fst snd]. rewrite !local_center_abs. reflexivity.
Qed.
Theorem poly_mask_extruded (ah av : Axis) verts i j k d :
  poly_mask K 0 ah av verts d j k = poly_mask K 0 ah av verts i j k /\
  poly_mask K 1 ah av verts i d k = poly_mask K 1 ah av verts i j k /\
  poly_mask K 2 ah av verts i j d = poly_mask K 2 ah av verts i j k.
Proof. repeat split; reflexivity. Qed.

(* the even-odd rule is a parity: reversing the orientation of a single edge does not matter for the
   straddle test, and a degenerate edge never toggles *)
Lemma crosses_degenerate (t v : pt) : crosses K t v v = false.
Proof. destruct t, v. unfold crosses. rewrite eqb_reflx. reflexivity. Qed.
End ShapesProofs.
