(* Yee_full_perm.v — C08 for the fully anisotropic lossless tiers (model/YeeFull.v, PML-free scenes): the forward step with
   9-component inverse permittivity and / or permeability is equivariant under the cyclic relabelling x -> y -> z -> x.
   In the relabelled scene component r of a vector is component sg r of the original (sg 0 = 2, sg 1 = 0, sg 2 = 1) and the
   tensor entry (r, s) is the original entry (sg r, sg s) with relabelled indices. *)
From Coq Require Import List Arith Lia Field Ring.
From FV Require Import base.Scalar base.Cplx model.Yee model.YeeExec model.YeeFull proofs.Yee_steps proofs.Yee_perm proofs.Yee_full_props.
Import ListNotations.
Local Open Scope fld_scope.

Section FullPerm.
  Variable K : Fld.
  Add Field KFfpp : (Fth K).
  Variable sc : scene K.
  Notation P := (@P _). Notation PV := (PV K). Notation Psc := (Pscene K sc).

  Definition sg (r : nat) : nat := match r with O => 2 | S O => 0 | _ => 1 end.
  Definition PT (T : T9 K) : T9 K := fun r s => P (T (sg r) (sg s)).
  Definition PTo (o : option (T9 K)) : option (T9 K) := match o with Some T => Some (PT T) | None => None end.

  Lemma shp_perm a f : shp K Psc a (P f) = P (shp K sc (sg a) f).
  Proof. destruct a as [|[|a]]; reflexivity. Qed.
  Lemma shm_perm a f : shm K Psc a (P f) = P (shm K sc (sg a) f).
  Proof. destruct a as [|[|a]]; reflexivity. Qed.
  Lemma avgE_perm f c l : avgE K Psc (P f) c l = P (avgE K sc f (sg c) (sg l)).
  Proof. unfold avgE. rewrite (shm_perm c f), (shp_perm l f), (shp_perm l (shm K sc (sg c) f)). destruct c as [|[|c]]; reflexivity. Qed.
  Lemma avgH_perm f c l : avgH K Psc (P f) c l = P (avgH K sc f (sg c) (sg l)).
  Proof. unfold avgH. rewrite (shp_perm c f), (shm_perm l f), (shm_perm l (shp K sc (sg c) f)). destruct l as [|[|l]]; reflexivity. Qed.
  Lemma comp_perm v r : comp K (PV v) r = P (comp K v (sg r)).
  Proof. destruct r as [|[|r]]; reflexivity. Qed.

  Ltac cx := apply c_eq; unfold cadd, csub, cscal; cbn [fst snd]; ring.

  (* the relabelled tensor applied to the relabelled co-located vector is the relabelled product (the three terms of a row are
     summed in a different order, hence equality in the field and not syntactically) *)
  Lemma tvecE_perm T v : veqA K (tvec K Psc (avgE K Psc) (PT T) (PV v)) (PV (tvec K sc (avgE K sc) T v)).
  Proof.
    intros i j k. unfold tvec, trow, at_loc; cbn [vx vy vz Nat.eqb]. rewrite !comp_perm, !avgE_perm.
    unfold Yee_perm.PV, PT, at_loc; cbn [vx vy vz sg Nat.eqb comp cn Pscene]; unfold Yee_perm.P. repeat split; cx.
  Qed.
  Lemma tvecH_perm T v : veqA K (tvec K Psc (avgH K Psc) (PT T) (PV v)) (PV (tvec K sc (avgH K sc) T v)).
  Proof.
    intros i j k. unfold tvec, trow, at_loc; cbn [vx vy vz Nat.eqb]. rewrite !comp_perm, !avgH_perm.
    unfold Yee_perm.PV, PT, at_loc; cbn [vx vy vz sg Nat.eqb comp cn Pscene]; unfold Yee_perm.P. repeat split; cx.
  Qed.

  Lemma stepE_full_perm T J E H : veqA K (stepE_full K Psc (PT T) (PV J) (PV E) (PV H)) (PV (stepE_full K sc T J E H)).
  Proof.
    intros i j k. destruct (tvecE_perm T (curlH_raw K sc H) i j k) as (x1 & x2 & x3).
    unfold stepE_full. change (curlH_raw K Psc (PV H)) with (PV (curlH_raw K sc H)).
    unfold vmask, vadd, vmap2; cbn [vx vy vz]. rewrite x1, x2, x3. repeat split.
  Qed.
  Lemma stepH_full_perm T J E H : veqA K (stepH_full K Psc (PT T) (PV J) (PV E) (PV H)) (PV (stepH_full K sc T J E H)).
  Proof.
    intros i j k. destruct (tvecH_perm T (curlE_raw K sc E) i j k) as (x1 & x2 & x3).
    unfold stepH_full. change (curlE_raw K Psc (PV E)) with (PV (curlE_raw K sc E)).
    unfold vmask, vadd, vsub, vmap2; cbn [vx vy vz]. rewrite x1, x2, x3. repeat split.
  Qed.
  Lemma veqA_refl' v : veqA K v v. Proof. intros i j k; repeat split. Qed.
  Lemma veqA_trans' u v w : veqA K u v -> veqA K v w -> veqA K u w.
  Proof. intros A B i j k. destruct (A i j k) as (a1 & a2 & a3), (B i j k) as (b1 & b2 & b3). rewrite a1, a2, a3. auto. Qed.
  Lemma stepE_gen_perm o J E H : veqA K (stepE_gen K Psc (PTo o) (PV J) (PV E) (PV H)) (PV (stepE_gen K sc o J E H)).
  Proof. destruct o as [T|]; cbn [PTo stepE_gen]; [apply stepE_full_perm | rewrite (stepE_perm K sc); apply veqA_refl']. Qed.
  Lemma stepH_gen_perm o J E H : veqA K (stepH_gen K Psc (PTo o) (PV J) (PV E) (PV H)) (PV (stepH_gen K sc o J E H)).
  Proof. destruct o as [T|]; cbn [PTo stepH_gen]; [apply stepH_full_perm | rewrite (stepH_perm K sc); apply veqA_refl']. Qed.

  Hypothesis Hpml : pmls K sc = [].
  Variables ie9 im9 : option (T9 K).
  Notation itA := (iterF K ie9 im9 sc). Notation itB := (iterF K (PTo ie9) (PTo im9) Psc).

  (* any number of steps with either tier fully anisotropic *)
  Theorem forward_full_perm_n n : forall s s',
    veqA K (fE s') (PV (fE s)) -> veqA K (fH s') (PV (fH s)) -> tstep s' = tstep s ->
    veqA K (fE (itB n s')) (PV (fE (itA n s))) /\ veqA K (fH (itB n s')) (PV (fH (itA n s))) /\ tstep (itB n s') = tstep (itA n s).
  Proof.
    induction n as [|n IH]; intros s s' HE HH HT; [cbn [iterF]; split; [exact HE | split; [exact HH | exact HT]]|].
    cbn [iterF].
    destruct (forward_full_steps K sc Hpml ie9 im9 s) as (e & h & t).
    destruct (forward_full_steps K Psc eq_refl (PTo ie9) (PTo im9) s') as (e' & h' & t').
    assert (A : veqA K (fE (forward_full K Psc (PTo ie9) (PTo im9) s')) (PV (fE (forward_full K sc ie9 im9 s)))).
    { rewrite e', e, HT. eapply veqA_trans'; [|apply stepE_gen_perm].
      apply (stepE_gen_ext K Psc); [cbn [injE Pscene]; apply veqA_refl' | exact HE | exact HH]. }
    apply IH; [exact A| |rewrite t', t, HT; reflexivity].
    rewrite h', h, HT. eapply veqA_trans'; [|apply stepH_gen_perm].
    apply (stepH_gen_ext K Psc); [cbn [injH Pscene]; apply veqA_refl' | exact A | exact HH].
  Qed.
End FullPerm.
