(* Yee_full_perm.v — C08 for the fully anisotropic lossless tiers (model/YeeFull.v, PML-free scenes): the forward step with
   9-component inverse permittivity and / or permeability is equivariant under the cyclic relabelling x -> y -> z -> x.
   In the relabelled scene component r of a vector is component sg r of the original (sg 0 = 2, sg 1 = 0, sg 2 = 1) and the
   tensor entry (r, s) is the original entry (sg r, sg s) with relabelled indices. *)
From Coq Require Import List Arith Lia Field Ring.
From FV Require Import base.Scalar base.Cplx model.Yee model.YeeExec model.YeeFull proofs.Yee_steps proofs.Yee_perm proofs.Yee_full_props proofs.Yee_lossy_props.
Import ListNotations.
Local Open Scope fld_scope.

Section FullPerm.
  Variable K : Fld.
  Add Field KFfpp : (Fth K).
  Variable sc : scene K.
  Notation P := (@P _). Notation PV := (PV K). Notation Psc := (Pscene K sc).

  Definition sg (r : nat) : nat := match r with O => 2 | S O => 0 | _ => 1 end.
  Definition PT (T : T9 K) : T9 K := fun r s => P (T (sg r) (sg s)).
  Definition PTo (o : option (T9 K)) : option (T9 K) := match o with Some T => Some (PT T) | None => None end.

  Lemma shp_perm a f : shp K Psc a (P f) = P (shp K sc (sg a) f).
  Proof. destruct a as [|[|a]]; reflexivity. Qed.
  Lemma shm_perm a f : shm K Psc a (P f) = P (shm K sc (sg a) f).
  Proof. destruct a as [|[|a]]; reflexivity. Qed.
  Lemma avgE_perm f c l : avgE K Psc (P f) c l = P (avgE K sc f (sg c) (sg l)).
  Proof. unfold avgE. rewrite (shm_perm c f), (shp_perm l f), (shp_perm l (shm K sc (sg c) f)). destruct c as [|[|c]]; reflexivity. Qed.
  Lemma avgH_perm f c l : avgH K Psc (P f) c l = P (avgH K sc f (sg c) (sg l)).
  Proof. unfold avgH. rewrite (shp_perm c f), (shm_perm l f), (shm_perm l (shp K sc (sg c) f)). destruct l as [|[|l]]; reflexivity. Qed.
  Lemma comp_perm v r : comp K (PV v) r = P (comp K v (sg r)).
  Proof. destruct r as [|[|r]]; reflexivity. Qed.

  Ltac cx := apply c_eq; unfold cadd, csub, cscal; cbn [fst snd]; ring.

  (* the relabelled tensor applied to the relabelled co-located vector is the relabelled product (the three terms of a row are
     summed in a different order, hence equality in the field and not syntactically) *)
  Lemma tvecE_perm T v : veqA K (tvec K Psc (avgE K Psc) (PT T) (PV v)) (PV (tvec K sc (avgE K sc) T v)).
  Proof.
    intros i j k. unfold tvec, trow, at_loc; cbn [vx vy vz Nat.eqb]. rewrite !comp_perm, !avgE_perm.
    unfold Yee_perm.PV, PT, at_loc; cbn [vx vy vz sg Nat.eqb comp cn Pscene]; unfold Yee_perm.P. repeat split; cx.
  Qed.
  Lemma tvecH_perm T v : veqA K (tvec K Psc (avgH K Psc) (PT T) (PV v)) (PV (tvec K sc (avgH K sc) T v)).
  Proof.
    intros i j k. unfold tvec, trow, at_loc; cbn [vx vy vz Nat.eqb]. rewrite !comp_perm, !avgH_perm.
    unfold Yee_perm.PV, PT, at_loc; cbn [vx vy vz sg Nat.eqb comp cn Pscene]; unfold Yee_perm.P. repeat split; cx.
  Qed.

  Lemma stepE_full_perm T J E H : veqA K (stepE_full K Psc (PT T) (PV J) (PV E) (PV H)) (PV (stepE_full K sc T J E H)).
  Proof.
    intros i j k. destruct (tvecE_perm T (curlH_raw K sc H) i j k) as (x1 & x2 & x3).
    unfold stepE_full. change (curlH_raw K Psc (PV H)) with (PV (curlH_raw K sc H)).
    unfold vmask, vadd, vmap2; cbn [vx vy vz]. rewrite x1, x2, x3. repeat split.
  Qed.
  Lemma stepH_full_perm T J E H : veqA K (stepH_full K Psc (PT T) (PV J) (PV E) (PV H)) (PV (stepH_full K sc T J E H)).
  Proof.
    intros i j k. destruct (tvecH_perm T (curlE_raw K sc E) i j k) as (x1 & x2 & x3).
    unfold stepH_full. change (curlE_raw K Psc (PV E)) with (PV (curlE_raw K sc E)).
    unfold vmask, vadd, vsub, vmap2; cbn [vx vy vz]. rewrite x1, x2, x3. repeat split.
  Qed.
  Lemma veqA_refl' v : veqA K v v. Proof. intros i j k; repeat split. Qed.
  Lemma veqA_trans' u v w : veqA K u v -> veqA K v w -> veqA K u w.
  Proof. intros A B i j k. destruct (A i j k) as (a1 & a2 & a3), (B i j k) as (b1 & b2 & b3). rewrite a1, a2, a3. auto. Qed.
  Lemma stepE_gen_perm o J E H : veqA K (stepE_gen K Psc (PTo o) (PV J) (PV E) (PV H)) (PV (stepE_gen K sc o J E H)).
  Proof. destruct o as [T|]; cbn [PTo stepE_gen]; [apply stepE_full_perm | rewrite (stepE_perm K sc); apply veqA_refl']. Qed.
  Lemma stepH_gen_perm o J E H : veqA K (stepH_gen K Psc (PTo o) (PV J) (PV E) (PV H)) (PV (stepH_gen K sc o J E H)).
  Proof. destruct o as [T|]; cbn [PTo stepH_gen]; [apply stepH_full_perm | rewrite (stepH_perm K sc); apply veqA_refl']. Qed.

  Hypothesis Hpml : pmls K sc = [].
  Variables ie9 im9 : option (T9 K).
  Notation itA := (iterF K ie9 im9 sc). Notation itB := (iterF K (PTo ie9) (PTo im9) Psc).

  (* any number of steps with either tier fully anisotropic *)
  Theorem forward_full_perm_n n : forall s s',
    veqA K (fE s') (PV (fE s)) -> veqA K (fH s') (PV (fH s)) -> tstep s' = tstep s ->
    veqA K (fE (itB n s')) (PV (fE (itA n s))) /\ veqA K (fH (itB n s')) (PV (fH (itA n s))) /\ tstep (itB n s') = tstep (itA n s).
  Proof.
    induction n as [|n IH]; intros s s' HE HH HT; [cbn [iterF]; split; [exact HE | split; [exact HH | exact HT]]|].
    cbn [iterF].
    destruct (forward_full_steps K sc Hpml ie9 im9 s) as (e & h & t).
    destruct (forward_full_steps K Psc eq_refl (PTo ie9) (PTo im9) s') as (e' & h' & t').
    assert (A : veqA K (fE (forward_full K Psc (PTo ie9) (PTo im9) s')) (PV (fE (forward_full K sc ie9 im9 s)))).
    { rewrite e', e, HT. eapply veqA_trans'; [|apply stepE_gen_perm].
      apply (stepE_gen_ext K Psc); [cbn [injE Pscene]; apply veqA_refl' | exact HE | exact HH]. }
    apply IH; [exact A| |rewrite t', t, HT; reflexivity].
    rewrite h', h, HT. eapply veqA_trans'; [|apply stepH_gen_perm].
    apply (stepH_gen_ext K Psc); [cbn [injH Pscene]; apply veqA_refl' | exact A | exact HH].
  Qed.
End FullPerm.

(* ---- the conductive fully anisotropic tiers ---- *)
Section LossyPerm.
  Variable K : Fld.
  Add Field KFlpp : (Fth K).
  Variable sc : scene K.
  Notation P := (@P _). Notation PV := (PV K). Notation Psc := (Pscene K sc).
  Notation PT := (PT K). Notation sg := sg.
  Definition PTp (o : option (T9 K * T9 K)) : option (T9 K * T9 K) := match o with Some (T, s) => Some (PT T, PT s) | None => None end.
  Definition teq (X Y : T9 K) : Prop := forall r s, (r < 3)%nat -> (s < 3)%nat -> forall i j k, X r s i j k = Y r s i j k.

  (* per-cell 3x3 algebra commutes with the relabelling (entries (r, s) with r, s < 3) *)
  Lemma cof_perm M r s : (r < 3)%nat -> (s < 3)%nat -> forall i j k, cof K (PT M) r s i j k = P (cof K M (sg r) (sg s)) i j k.
  Proof. intros Hr Hs i j k. destruct r as [|[|[|r]]]; [| | |lia]; (destruct s as [|[|[|s]]]; [| | |lia]); reflexivity. Qed.
  Lemma det9_perm M i j k : det9 K (PT M) i j k = P (det9 K M) i j k.
  Proof. unfold det9, cof, Yee_full_perm.PT, Yee_perm.P; cbn [nx3 pv3 Yee_full_perm.sg]. ring. Qed.
  Lemma m9inv_perm M : teq (m9inv K (PT M)) (PT (m9inv K M)).
  Proof.
    intros r s Hr Hs i j k. unfold m9inv. rewrite (cof_perm M s r Hs Hr), det9_perm. reflexivity.
  Qed.
  Lemma m9mul_perm X Y X' Y' : teq X' (PT X) -> teq Y' (PT Y) -> teq (m9mul K X' Y') (PT (m9mul K X Y)).
  Proof.
    intros HX HY r s Hr Hs i j k. unfold m9mul.
    rewrite (HX r 0%nat Hr ltac:(lia)), (HX r 1%nat Hr ltac:(lia)), (HX r 2%nat Hr ltac:(lia)),
            (HY 0%nat s ltac:(lia) Hs), (HY 1%nat s ltac:(lia) Hs), (HY 2%nat s ltac:(lia) Hs).
    unfold Yee_full_perm.PT, Yee_perm.P; cbn [Yee_full_perm.sg]. ring.
  Qed.
  Lemma m9lin_perm a X b Y X' Y' : teq X' (PT X) -> teq Y' (PT Y) -> teq (m9lin K a X' b Y') (PT (m9lin K a X b Y)).
  Proof. intros HX HY r s Hr Hs i j k. unfold m9lin. rewrite (HX r s Hr Hs), (HY r s Hr Hs). reflexivity. Qed.
  Lemma m9id_perm : teq (m9id K) (PT (m9id K)).
  Proof. intros r s Hr Hs i j k. destruct r as [|[|[|r]]]; [| | |lia]; (destruct s as [|[|[|s]]]; [| | |lia]); reflexivity. Qed.
  Lemma teq_refl X : teq X X. Proof. intros r s _ _ i j k; reflexivity. Qed.
  Lemma teq_trans X Y Z : teq X Y -> teq Y Z -> teq X Z.
  Proof. intros A B r s Hr Hs i j k. rewrite (A r s Hr Hs), (B r s Hr Hs). reflexivity. Qed.
  Lemma m9inv_teq X Y : teq X Y -> teq (m9inv K X) (m9inv K Y).
  Proof.
    intros H r s Hr Hs i j k. unfold m9inv, det9, cof.
    assert (E : forall a b, (a < 3)%nat -> (b < 3)%nat -> X a b i j k = Y a b i j k) by (intros a b Ha Hb; apply H; assumption).
    assert (N3 : forall q, (q < 3)%nat -> (nx3 q < 3)%nat /\ (pv3 q < 3)%nat) by (intros [|[|[|q]]] Hq; cbn [nx3 pv3]; lia).
    destruct (N3 r Hr) as (r1 & r2). destruct (N3 s Hs) as (s1 & s2).
    cbn [nx3 pv3].
    rewrite !E by (cbn [nx3 pv3]; lia). reflexivity.
  Qed.
  Lemma lossy_M1_perm etaf T s : teq (lossy_M1 K Psc etaf (PT T) (PT s)) (PT (lossy_M1 K sc etaf T s)).
  Proof. unfold lossy_M1. cbn [cn Pscene]. apply m9lin_perm; [apply m9id_perm | apply m9mul_perm; apply teq_refl]. Qed.
  Lemma lossy_M2_perm etaf T s : teq (lossy_M2 K Psc etaf (PT T) (PT s)) (PT (lossy_M2 K sc etaf T s)).
  Proof. unfold lossy_M2. cbn [cn Pscene]. apply m9lin_perm; [apply m9id_perm | apply m9mul_perm; apply teq_refl]. Qed.
  Lemma lossy_A_perm etaf T s : teq (lossy_A K Psc etaf (PT T) (PT s)) (PT (lossy_A K sc etaf T s)).
  Proof.
    unfold lossy_A. apply m9mul_perm; [|apply lossy_M2_perm].
    eapply teq_trans; [apply m9inv_teq, lossy_M1_perm | apply m9inv_perm].
  Qed.
  Lemma lossy_B_perm etaf T s : teq (lossy_B K Psc etaf (PT T) (PT s)) (PT (lossy_B K sc etaf T s)).
  Proof.
    unfold lossy_B. cbn [cn Pscene]. apply m9lin_perm; [|apply m9id_perm].
    apply m9mul_perm; [|apply teq_refl]. eapply teq_trans; [apply m9inv_teq, lossy_M1_perm | apply m9inv_perm].
  Qed.

  Ltac cx := apply c_eq; unfold cadd, csub, cscal; cbn [fst snd]; ring.
  (* tvec1 reads only entries (r, s) with r, s < 3 *)
  Lemma tvec1_teq avg X Y v : teq X Y -> veqA K (tvec1 K avg X v) (tvec1 K avg Y v).
  Proof. intros H i j k. unfold tvec1, trow1; cbn [vx vy vz]. rewrite !H by lia. repeat split. Qed.
  Lemma tvec1E_perm T v : veqA K (tvec1 K (avgE K Psc) (PT T) (PV v)) (PV (tvec1 K (avgE K sc) T v)).
  Proof.
    intros i j k. unfold tvec1, trow1, at_loc; cbn [vx vy vz Nat.eqb]. rewrite !comp_perm, !avgE_perm.
    unfold Yee_perm.PV, Yee_full_perm.PT, at_loc; cbn [vx vy vz Yee_full_perm.sg Nat.eqb comp]; unfold Yee_perm.P. repeat split; cx.
  Qed.
  Lemma tvec1H_perm T v : veqA K (tvec1 K (avgH K Psc) (PT T) (PV v)) (PV (tvec1 K (avgH K sc) T v)).
  Proof.
    intros i j k. unfold tvec1, trow1, at_loc; cbn [vx vy vz Nat.eqb]. rewrite !comp_perm, !avgH_perm.
    unfold Yee_perm.PV, Yee_full_perm.PT, at_loc; cbn [vx vy vz Yee_full_perm.sg Nat.eqb comp]; unfold Yee_perm.P. repeat split; cx.
  Qed.
  Lemma stepE_AB_perm A B A' B' J E H : teq A' (PT A) -> teq B' (PT B) ->
    veqA K (stepE_AB K Psc A' B' (PV J) (PV E) (PV H)) (PV (stepE_AB K sc A B J E H)).
  Proof.
    intros HA HB i j k.
    destruct (tvec1_teq (avgE K Psc) A' (PT A) (PV E) HA i j k) as (a1 & a2 & a3).
    destruct (tvec1E_perm A E i j k) as (b1 & b2 & b3).
    destruct (tvec1_teq (avgE K Psc) B' (PT B) (PV (curlH_raw K sc H)) HB i j k) as (c1' & c2' & c3').
    destruct (tvec1E_perm B (curlH_raw K sc H) i j k) as (d1 & d2 & d3).
    unfold stepE_AB. change (curlH_raw K Psc (PV H)) with (PV (curlH_raw K sc H)).
    unfold vmask, vadd, vmap2; cbn [vx vy vz]. rewrite a1, a2, a3, b1, b2, b3, c1', c2', c3', d1, d2, d3. repeat split.
  Qed.
  Lemma stepH_AB_perm A B A' B' J E H : teq A' (PT A) -> teq B' (PT B) ->
    veqA K (stepH_AB K Psc A' B' (PV J) (PV E) (PV H)) (PV (stepH_AB K sc A B J E H)).
  Proof.
    intros HA HB i j k.
    destruct (tvec1_teq (avgH K Psc) A' (PT A) (PV H) HA i j k) as (a1 & a2 & a3).
    destruct (tvec1H_perm A H i j k) as (b1 & b2 & b3).
    destruct (tvec1_teq (avgH K Psc) B' (PT B) (PV (curlE_raw K sc E)) HB i j k) as (c1' & c2' & c3').
    destruct (tvec1H_perm B (curlE_raw K sc E) i j k) as (d1 & d2 & d3).
    unfold stepH_AB. change (curlE_raw K Psc (PV E)) with (PV (curlE_raw K sc E)).
    unfold vmask, vadd, vsub, vmap2; cbn [vx vy vz]. rewrite a1, a2, a3, b1, b2, b3, c1', c2', c3', d1, d2, d3. repeat split.
  Qed.
  Lemma tierE_perm o J E H : veqA K (tierE K Psc (PTp o) (PV J) (PV E) (PV H)) (PV (tierE K sc o J E H)).
  Proof.
    destruct o as [[T s]|]; cbn [PTp tierE].
    - cbn [eta0 Pscene]. apply stepE_AB_perm; [apply lossy_A_perm | apply lossy_B_perm].
    - rewrite (stepE_perm K sc). apply veqA_refl'.
  Qed.
  Lemma tierH_perm o J E H : veqA K (tierH K Psc (PTp o) (PV J) (PV E) (PV H)) (PV (tierH K sc o J E H)).
  Proof.
    destruct o as [[T s]|]; cbn [PTp tierH].
    - cbn [eta0 Pscene]. apply stepH_AB_perm; [apply lossy_A_perm | apply lossy_B_perm].
    - rewrite (stepH_perm K sc). apply veqA_refl'.
  Qed.

  Hypothesis Hpml : pmls K sc = [].
  Variables e m : option (T9 K * T9 K).
  Notation itA := (iterL K e m sc). Notation itB := (iterL K (PTp e) (PTp m) Psc).
  Theorem forward_lossy_perm_n n : forall s s',
    veqA K (fE s') (PV (fE s)) -> veqA K (fH s') (PV (fH s)) -> tstep s' = tstep s ->
    veqA K (fE (itB n s')) (PV (fE (itA n s))) /\ veqA K (fH (itB n s')) (PV (fH (itA n s))) /\ tstep (itB n s') = tstep (itA n s).
  Proof.
    induction n as [|n IH]; intros s s' HE HH HT; [cbn [iterL]; split; [exact HE | split; [exact HH | exact HT]]|].
    cbn [iterL].
    destruct (forward_lossy_steps K sc Hpml e m s) as (he & hh & t).
    destruct (forward_lossy_steps K Psc eq_refl (PTp e) (PTp m) s') as (he' & hh' & t').
    assert (A : veqA K (fE (forward_lossy K Psc (PTp e) (PTp m) s')) (PV (fE (forward_lossy K sc e m s)))).
    { rewrite he', he, HT. eapply veqA_trans'; [|apply tierE_perm].
      apply (tierE_ext K Psc); [cbn [injE Pscene]; apply veqA_refl' | exact HE | exact HH]. }
    apply IH; [exact A| |rewrite t', t, HT; reflexivity].
    rewrite hh', hh, HT. eapply veqA_trans'; [|apply tierH_perm].
    apply (tierH_ext K Psc); [cbn [injH Pscene]; apply veqA_refl' | exact A | exact HH].
  Qed.
End LossyPerm.
