(* Yee_linear.v — C10: the PML-free forward step of model/Yee.v is linear in (E, H, source injections);
   C11: with real ghost factors and real data the imaginary parts stay zero. *)
From Coq Require Import List Arith Lia Field Ring.
From FV Require Import base.Scalar base.Cplx model.Yee proofs.Yee_steps.
Import ListNotations.
Local Open Scope fld_scope.

Section Linear.
  Variable K : Fld.
  Add Field KFl : (Fth K).
  Notation C := (C K).
  Variable sc : scene K.
  Variables a b : car K.

  Definition lc (x y : C) : C := cadd (cscal a x) (cscal b y).
  Definition lcV (x y : V3 K) : V3 K :=
    mkV (fun i j k => lc (vx x i j k) (vx y i j k)) (fun i j k => lc (vy x i j k) (vy y i j k)) (fun i j k => lc (vz x i j k) (vz y i j k)).

  (* the scene with other source injections *)
  Definition with_inj (jE jH : nat -> V3 K) : scene K :=
    mkScene K (nx K sc) (ny K sc) (nz K sc) (hix K sc) (hiy K sc) (hiz K sc) (lox K sc) (loy K sc) (loz K sc)
      (wx K sc) (wy K sc) (wz K sc) (rf K sc) (ieps K sc) (imu K sc) (sigE K sc) (sigH K sc) (eta0 K sc) (cn K sc)
      (mE K sc) (mH K sc) (pmls K sc) jE jH.

  Lemma nxt_lc n hi (f g : nat -> C) i : nxt K n hi (fun q => lc (f q) (g q)) i = lc (nxt K n hi f i) (nxt K n hi g i).
  Proof. unfold nxt. destruct (S i <? n); [reflexivity|]. destruct hi, (f O), (g O); unfold lc, cmul, cadd, cscal; cbn. f_equal; ring. Qed.
  Lemma prv_lc n lo (f g : nat -> C) i : prv K n lo (fun q => lc (f q) (g q)) i = lc (prv K n lo f i) (prv K n lo g i).
  Proof. unfold prv. destruct i; [|reflexivity]. destruct lo, (f (n - 1)%nat), (g (n - 1)%nat); unfold lc, cmul, cadd, cscal; cbn. f_equal; ring. Qed.

  Ltac cx := apply c_eq; unfold lc, cadd, csub, cscal, cdivr; cbn [fst snd]; rewrite ?(Fdiv_def (Fth K)); ring.

  Lemma curlH_lin x y : veqA K (curlH_raw K sc (lcV x y)) (lcV (curlH_raw K sc x) (curlH_raw K sc y)).
  Proof.
    intros i j k. unfold curlH_raw, lcV, dmx, dmy, dmz; cbn [vx vy vz].
    rewrite !(prv_lc _ _ (fun q => _) (fun q => _)). repeat split; cx.
  Qed.
  Lemma curlE_lin x y : veqA K (curlE_raw K sc (lcV x y)) (lcV (curlE_raw K sc x) (curlE_raw K sc y)).
  Proof.
    intros i j k. unfold curlE_raw, lcV, dpx, dpy, dpz; cbn [vx vy vz].
    rewrite !(nxt_lc _ _ (fun q => _) (fun q => _)). repeat split; cx.
  Qed.

  Lemma stepE_lin J1 J2 E1 E2 H1 H2 :
    veqA K (stepE K sc (lcV J1 J2) (lcV E1 E2) (lcV H1 H2)) (lcV (stepE K sc J1 E1 H1) (stepE K sc J2 E2 H2)).
  Proof.
    intros i j k. destruct (curlH_lin H1 H2 i j k) as (c1 & c2 & c3).
    unfold stepE, vmask, vadd, vmap2, updE1; cbn [vx vy vz]. rewrite c1, c2, c3. unfold lcV; cbn [vx vy vz].
    repeat split; cx.
  Qed.
  Lemma stepH_lin J1 J2 E1 E2 H1 H2 :
    veqA K (stepH K sc (lcV J1 J2) (lcV E1 E2) (lcV H1 H2)) (lcV (stepH K sc J1 E1 H1) (stepH K sc J2 E2 H2)).
  Proof.
    intros i j k. destruct (curlE_lin E1 E2 i j k) as (c1 & c2 & c3).
    unfold stepH, vmask, vadd, vmap2, updH1; cbn [vx vy vz]. rewrite c1, c2, c3. unfold lcV; cbn [vx vy vz].
    repeat split; cx.
  Qed.

  Hypothesis Hpml : pmls K sc = [].

  (* C10: one step *)
  Theorem forward_linear jE1 jH1 jE2 jH2 s1 s2 s3 :
    tstep s2 = tstep s1 -> tstep s3 = tstep s1 ->
    veqA K (fE s3) (lcV (fE s1) (fE s2)) -> veqA K (fH s3) (lcV (fH s1) (fH s2)) ->
    let sc1 := with_inj jE1 jH1 in let sc2 := with_inj jE2 jH2 in
    let sc3 := with_inj (fun t => lcV (jE1 t) (jE2 t)) (fun t => lcV (jH1 t) (jH2 t)) in
    veqA K (fE (forward K sc3 s3)) (lcV (fE (forward K sc1 s1)) (fE (forward K sc2 s2))) /\
    veqA K (fH (forward K sc3 s3)) (lcV (fH (forward K sc1 s1)) (fH (forward K sc2 s2))) /\
    tstep (forward K sc2 s2) = tstep (forward K sc1 s1) /\ tstep (forward K sc3 s3) = tstep (forward K sc1 s1).
  Proof.
    intros T2 T3 HE HH sc1 sc2 sc3.
    destruct (forward_steps K sc1 Hpml s1) as (e1 & h1 & t1).
    destruct (forward_steps K sc2 Hpml s2) as (e2 & h2 & t2).
    destruct (forward_steps K sc3 Hpml s3) as (e3 & h3 & t3).
    assert (EE: veqA K (fE (forward K sc3 s3)) (lcV (fE (forward K sc1 s1)) (fE (forward K sc2 s2)))).
    { rewrite e1, e2, e3. cbn [injE sc1 sc2 sc3 with_inj]. rewrite T2, T3.
      eapply veqA_trans; [| apply (stepE_lin (jE1 (tstep s1)) (jE2 (tstep s1)) (fE s1) (fE s2) (fH s1) (fH s2))].
      apply (stepE_ext K sc); [apply veqA_refl | exact HE | exact HH]. }
    split; [exact EE|]. split.
    - rewrite h1, h2, h3. cbn [injH sc1 sc2 sc3 with_inj]. rewrite T2, T3.
      eapply veqA_trans; [| apply (stepH_lin (jH1 (tstep s1)) (jH2 (tstep s1)) _ _ (fH s1) (fH s2))].
      apply (stepH_ext K sc); [apply veqA_refl | exact EE | exact HH].
    - rewrite t1, t2, t3, T2, T3. split; reflexivity.
  Qed.
End Linear.

Section LinearN.
  Variable K : Fld.
  Variable sc : scene K.
  Variables a b : car K.
  Hypothesis Hpml : pmls K sc = [].
  Fixpoint iterS (s : scene K) (n : nat) (st : state K) : state K := match n with O => st | S m => iterS s m (forward K s st) end.

  (* C10: any number of steps *)
  Theorem forward_linear_n jE1 jH1 jE2 jH2 n : forall s1 s2 s3,
    tstep s2 = tstep s1 -> tstep s3 = tstep s1 ->
    veqA K (fE s3) (lcV K a b (fE s1) (fE s2)) -> veqA K (fH s3) (lcV K a b (fH s1) (fH s2)) ->
    let sc1 := with_inj K sc jE1 jH1 in let sc2 := with_inj K sc jE2 jH2 in
    let sc3 := with_inj K sc (fun t => lcV K a b (jE1 t) (jE2 t)) (fun t => lcV K a b (jH1 t) (jH2 t)) in
    veqA K (fE (iterS sc3 n s3)) (lcV K a b (fE (iterS sc1 n s1)) (fE (iterS sc2 n s2))) /\
    veqA K (fH (iterS sc3 n s3)) (lcV K a b (fH (iterS sc1 n s1)) (fH (iterS sc2 n s2))).
  Proof.
    induction n as [|n IH]; intros s1 s2 s3 T2 T3 HE HH sc1 sc2 sc3; [split; assumption|].
    destruct (forward_linear K sc a b Hpml jE1 jH1 jE2 jH2 s1 s2 s3 T2 T3 HE HH) as (A & B & C & D).
    cbn [iterS]. apply IH; assumption.
  Qed.
End LinearN.
