(* Yee_metric_pml.v — C38 with absorbing layers: a scene whose cell widths all equal the reference spacing steps exactly like
   its uniform description, CPML loop and psi accumulators included. *)
From Coq Require Import List Arith Lia Field Ring.
From FV Require Import base.Scalar base.Cplx model.Yee proofs.Yee_steps proofs.Yee_metric proofs.Yee_pml_loop proofs.Yee_pml_sweep.
Import ListNotations.
Local Open Scope fld_scope.

Section MetricPml.
  Variable K : Fld.
  Add Field KFmp : (Fth K).
  Variable sc : scene K.
  Hypothesis Htwo : two K <> 0.
  Hypothesis Hrf : rf K sc <> 0.
  Hypothesis Hwx : forall i, wx K sc i = rf K sc.
  Hypothesis Hwy : forall i, wy K sc i = rf K sc.
  Hypothesis Hwz : forall i, wz K sc i = rf K sc.
  Notation U := (unit_metric K sc).
  Notation eqAx := (eqAx K). Notation eqVx := (eqVx K). Notation eqPx := (eqPx K).

  Lemma nxt_pt n hi (f g : nat -> C K) i : (forall q, f q = g q) -> nxt K n hi f i = nxt K n hi g i.
  Proof. intros H. unfold nxt. rewrite !H. reflexivity. Qed.
  Lemma prv_pt n lo (f g : nat -> C K) i : (forall q, f q = g q) -> prv K n lo f i = prv K n lo g i.
  Proof. intros H. unfold prv. destruct i; rewrite ?H; reflexivity. Qed.

  Lemma dm_metric (u u' : A3 K) : eqAx u' u ->
    eqAx (dmx K U u') (dmx K sc u) /\ eqAx (dmy K U u') (dmy K sc u) /\ eqAx (dmz K U u') (dmz K sc u).
  Proof.
    intros H. repeat split; intros i j k; unfold dmx, dmy, dmz; cbn [nx ny nz lox loy loz wx wy wz unit_metric];
      rewrite ?(sb_one K sc Htwo Hrf _ _ Hwx), ?(sb_one K sc Htwo Hrf _ _ Hwy), ?(sb_one K sc Htwo Hrf _ _ Hwz), ?(sb_unit K sc Htwo), (H i j k).
    - rewrite (prv_pt _ _ (fun a => u' a j k) (fun a => u a j k)) by (intros q; apply H). reflexivity.
    - rewrite (prv_pt _ _ (fun a => u' i a k) (fun a => u i a k)) by (intros q; apply H). reflexivity.
    - rewrite (prv_pt _ _ (fun a => u' i j a) (fun a => u i j a)) by (intros q; apply H). reflexivity.
  Qed.
  Lemma dp_metric (u u' : A3 K) : eqAx u' u ->
    eqAx (dpx K U u') (dpx K sc u) /\ eqAx (dpy K U u') (dpy K sc u) /\ eqAx (dpz K U u') (dpz K sc u).
  Proof.
    intros H. repeat split; intros i j k; unfold dpx, dpy, dpz; cbn [nx ny nz hix hiy hiz wx wy wz unit_metric];
      rewrite ?(sf_one K sc Hrf _ _ Hwx), ?(sf_one K sc Hrf _ _ Hwy), ?(sf_one K sc Hrf _ _ Hwz), ?(sf_unit K sc), (H i j k).
    - rewrite (nxt_pt _ _ (fun a => u' a j k) (fun a => u a j k)) by (intros q; apply H). reflexivity.
    - rewrite (nxt_pt _ _ (fun a => u' i a k) (fun a => u i a k)) by (intros q; apply H). reflexivity.
    - rewrite (nxt_pt _ _ (fun a => u' i j a) (fun a => u i j a)) by (intros q; apply H). reflexivity.
  Qed.

  Lemma curlH_metric_pml sim H H' q q' : eqVx H' H -> Forall2 eqPx q' q ->
    eqVx (fst (curlH K U sim H' q')) (fst (curlH K sc sim H q)) /\ Forall2 eqPx (snd (curlH K U sim H' q')) (snd (curlH K sc sim H q)).
  Proof.
    intros (X & Y & Z) HQ.
    destruct (dm_metric _ _ X) as (x1 & x2 & x3). destruct (dm_metric _ _ Y) as (y1 & y2 & y3). destruct (dm_metric _ _ Z) as (z1 & z2 & z3).
    unfold curlH. cbn [pmls unit_metric]. apply pml_loop_ext; [| exact HQ |].
    - intros [|[|n]]; cbv beta iota; cbn [fst snd]; split; assumption.
    - unfold curlH_raw, Yee_pml_loop.eqVx; cbn [vx vy vz]. repeat split; intros i j k;
        rewrite ?(z2 i j k), ?(y3 i j k), ?(x3 i j k), ?(z1 i j k), ?(y1 i j k), ?(x2 i j k); reflexivity.
  Qed.
  Lemma curlE_metric_pml sim E E' q q' : eqVx E' E -> Forall2 eqPx q' q ->
    eqVx (fst (curlE K U sim E' q')) (fst (curlE K sc sim E q)) /\ Forall2 eqPx (snd (curlE K U sim E' q')) (snd (curlE K sc sim E q)).
  Proof.
    intros (X & Y & Z) HQ.
    destruct (dp_metric _ _ X) as (x1 & x2 & x3). destruct (dp_metric _ _ Y) as (y1 & y2 & y3). destruct (dp_metric _ _ Z) as (z1 & z2 & z3).
    unfold curlE. cbn [pmls unit_metric]. apply pml_loop_ext; [| exact HQ |].
    - intros [|[|n]]; cbv beta iota; cbn [fst snd]; split; assumption.
    - unfold curlE_raw, Yee_pml_loop.eqVx; cbn [vx vy vz]. repeat split; intros i j k;
        rewrite ?(z2 i j k), ?(y3 i j k), ?(x3 i j k), ?(z1 i j k), ?(y1 i j k), ?(x2 i j k); reflexivity.
  Qed.

  Definition same_state (s s' : state K) : Prop :=
    tstep s' = tstep s /\ eqVx (fE s') (fE s) /\ eqVx (fH s') (fH s) /\ Forall2 eqPx (psiE s') (psiE s) /\ Forall2 eqPx (psiH s') (psiH s).

  Theorem forward_metric_pml s s' : same_state s s' -> same_state (forward K sc s) (forward K U s').
  Proof.
    intros (HT & HE & HH & PE & PH).
    destruct (curlH_metric_pml true (fH s) (fH s') (psiE s) (psiE s') HH PE) as (KC & PE').
    assert (EE: eqVx (fE (forward K U s')) (fE (forward K sc s))).
    { rewrite !fE_forward, !update_E_unfold. cbn [fE].
      destruct KC as (k1 & k2 & k3). destruct HE as (e1 & e2 & e3).
      unfold Yee_pml_loop.eqVx, vmask, vadd, vmap2, updE1, fE1; cbn [vx vy vz m1 m2 m3 injE cn ieps sigE mE eta0 unit_metric].
      rewrite HT. repeat split; intros i j k; rewrite ?(e1 i j k), ?(e2 i j k), ?(e3 i j k), ?(k1 i j k), ?(k2 i j k), ?(k3 i j k); reflexivity. }
    destruct (curlE_metric_pml true (fE (forward K sc s)) (fE (forward K U s')) (psiH s) (psiH s') EE PH) as (KE & PH').
    assert (A: forall scx st, psiH (update_E K scx true st) = psiH st /\ tstep (update_E K scx true st) = tstep st /\ fH (update_E K scx true st) = fH st /\
                              psiE (update_E K scx true st) = snd (curlH K scx true (fH st) (psiE st)))
      by (intros; rewrite update_E_unfold; repeat split).
    destruct (A sc s) as (a1 & b1 & c1 & d1). destruct (A U s') as (a2 & b2 & c2 & d2).
    split; [cbn; rewrite HT; reflexivity|]. split; [exact EE|]. split; [|split].
    - unfold forward. rewrite !update_H_unfold. cbn [fH]. rewrite a1, a2, b1, b2, c1, c2, <- !fE_forward.
      destruct KE as (k1 & k2 & k3). destruct HH as (h1 & h2 & h3).
      unfold Yee_pml_loop.eqVx, vmask, vadd, vmap2, updH1, fH1; cbn [vx vy vz m1 m2 m3 injH cn imu sigH mH eta0 unit_metric].
      rewrite HT. repeat split; intros i j k; rewrite ?(h1 i j k), ?(h2 i j k), ?(h3 i j k), ?(k1 i j k), ?(k2 i j k), ?(k3 i j k); reflexivity.
    - unfold forward. rewrite !update_H_unfold. cbn [psiE]. rewrite d1, d2. exact PE'.
    - unfold forward. rewrite !update_H_unfold. cbn [psiH]. rewrite a1, a2, <- !fE_forward. exact PH'.
  Qed.
  Theorem forward_metric_pml_n n : forall s s', same_state s s' -> same_state (iterM K sc n s) (iterM K U n s').
  Proof. induction n as [|n IH]; intros s s' R; [exact R|]. cbn [iterM]. apply IH. apply forward_metric_pml. exact R. Qed.
End MetricPml.
