(* Yee_lossy_props.v — C10 / C11 for the conductive fully anisotropic tiers of model/YeeFull.v (forward_lossy, PML-free scenes):
   with per-cell 3x3 update matrices A = M1^-1 M2 and B = c M1^-1 T the forward step is linear in (E, H, source terms), and with real
   ghost factors, real data and real source terms every imaginary part stays zero.  The matrices are arbitrary real tensor fields in
   the step lemmas (nothing about the solve is needed), so the statements hold in particular for lossy_A / lossy_B. *)
From Coq Require Import List Arith Lia Field Ring.
From FV Require Import base.Scalar base.Cplx model.Yee model.YeeExec model.YeeFull proofs.Yee_steps proofs.Yee_linear proofs.Yee_real proofs.Yee_full_props.
Import ListNotations.
Local Open Scope fld_scope.

Section LossySteps.
  Variable K : Fld.
  Add Field KFlp : (Fth K).
  Variable sc : scene K.
  Hypothesis Hpml : pmls K sc = [].
  Notation T9 := (T9 K).

  Definition stepE_AB (A B : T9) (J E H : V3 K) : V3 K :=
    vmask K (mE K sc) (vadd K (vadd K (tvec1 K (avgE K sc) A E) (tvec1 K (avgE K sc) B (curlH_raw K sc H))) J).
  Definition stepH_AB (A B : T9) (J E' H : V3 K) : V3 K :=
    vmask K (mH K sc) (vadd K (vsub K (tvec1 K (avgH K sc) A H) (tvec1 K (avgH K sc) B (curlE_raw K sc E'))) J).
  Definition tierE (e : option (T9 * T9)) : V3 K -> V3 K -> V3 K -> V3 K :=
    match e with Some (T, sg) => stepE_AB (lossy_A K sc (eta0 K sc) T sg) (lossy_B K sc (eta0 K sc) T sg) | None => stepE K sc end.
  Definition tierH (m : option (T9 * T9)) : V3 K -> V3 K -> V3 K -> V3 K :=
    match m with Some (T, sg) => stepH_AB (lossy_A K sc (1 / eta0 K sc) T sg) (lossy_B K sc (1 / eta0 K sc) T sg) | None => stepH K sc end.

  Lemma forward_lossy_steps e m s :
    fE (forward_lossy K sc e m s) = tierE e (injE K sc (tstep s)) (fE s) (fH s) /\
    fH (forward_lossy K sc e m s) = tierH m (injH K sc (tstep s)) (fE (forward_lossy K sc e m s)) (fH s) /\
    tstep (forward_lossy K sc e m s) = S (tstep s).
  Proof.
    unfold forward_lossy. destruct e as [[Te se]|], m as [[Tm sm]|]; cbn [upd_E_lossy upd_H_lossy tierE tierH];
      unfold update_E_AB, update_H_AB, update_E, update_H, curlH, curlE; rewrite Hpml; cbn; repeat split.
  Qed.

  (* ---- extensionality ---- *)
  Lemma tvec1_extA avg T u v : (forall f g c l, aeqA K f g -> aeqA K (avg f c l) (avg g c l)) -> veqA K u v -> veqA K (tvec1 K avg T u) (tvec1 K avg T v).
  Proof.
    intros Havg H i j k.
    assert (L : forall r s, at_loc K avg u r s i j k = at_loc K avg v r s i j k).
    { intros r s. unfold at_loc. destruct (Nat.eqb r s); [apply (comp_extA K u v r H) | apply (Havg _ _ s r (comp_extA K u v s H))]. }
    unfold tvec1, trow1; cbn [vx vy vz]. rewrite !L. repeat split.
  Qed.
  Lemma stepE_AB_ext A B J J' E E' H H' : veqA K J J' -> veqA K E E' -> veqA K H H' -> veqA K (stepE_AB A B J E H) (stepE_AB A B J' E' H').
  Proof.
    intros HJ HE HH i j k.
    destruct (tvec1_extA (avgE K sc) A _ _ (avgE_extA K sc) HE i j k) as (a1 & a2 & a3).
    destruct (tvec1_extA (avgE K sc) B _ _ (avgE_extA K sc) (curlH_raw_extA K sc H H' HH) i j k) as (t1 & t2 & t3).
    destruct (HJ i j k) as (j1 & j2 & j3).
    unfold stepE_AB, vmask, vadd, vmap2; cbn [vx vy vz]. rewrite a1, a2, a3, t1, t2, t3, j1, j2, j3. repeat split.
  Qed.
  Lemma stepH_AB_ext A B J J' E E' H H' : veqA K J J' -> veqA K E E' -> veqA K H H' -> veqA K (stepH_AB A B J E H) (stepH_AB A B J' E' H').
  Proof.
    intros HJ HE HH i j k.
    destruct (tvec1_extA (avgH K sc) A _ _ (avgH_extA K sc) HH i j k) as (a1 & a2 & a3).
    destruct (tvec1_extA (avgH K sc) B _ _ (avgH_extA K sc) (curlE_raw_extA K sc E E' HE) i j k) as (t1 & t2 & t3).
    destruct (HJ i j k) as (j1 & j2 & j3).
    unfold stepH_AB, vmask, vadd, vsub, vmap2; cbn [vx vy vz]. rewrite a1, a2, a3, t1, t2, t3, j1, j2, j3. repeat split.
  Qed.
  Lemma tierE_ext e J J' E E' H H' : veqA K J J' -> veqA K E E' -> veqA K H H' -> veqA K (tierE e J E H) (tierE e J' E' H').
  Proof. destruct e as [[T sg]|]; cbn [tierE]; [apply stepE_AB_ext | apply (stepE_ext K sc)]. Qed.
  Lemma tierH_ext m J J' E E' H H' : veqA K J J' -> veqA K E E' -> veqA K H H' -> veqA K (tierH m J E H) (tierH m J' E' H').
  Proof. destruct m as [[T sg]|]; cbn [tierH]; [apply stepH_AB_ext | apply (stepH_ext K sc)]. Qed.

  (* ---- C10: linearity ---- *)
  Section Lin.
    Variables a b : car K.
    Notation lc := (lc K a b). Notation lcV := (lcV K a b). Notation lcA := (lcA K a b).
    Ltac cx := apply c_eq; unfold Yee_linear.lc, cadd, csub, cscal, cdivr; cbn [fst snd]; rewrite ?(Fdiv_def (Fth K)); ring.
    Lemma tvec1_lin avg T u v :
      (forall f g c l, aeqA K f g -> aeqA K (avg f c l) (avg g c l)) ->
      (forall f g c l, aeqA K (avg (lcA f g) c l) (lcA (avg f c l) (avg g c l))) ->
      veqA K (tvec1 K avg T (lcV u v)) (lcV (tvec1 K avg T u) (tvec1 K avg T v)).
    Proof.
      intros Hext Hlin i j k.
      assert (L : forall r s, at_loc K avg (lcV u v) r s i j k = lc (at_loc K avg u r s i j k) (at_loc K avg v r s i j k)).
      { intros r s. unfold at_loc. destruct (Nat.eqb r s); rewrite (comp_lcV K a b); [reflexivity | apply Hlin]. }
      unfold tvec1, trow1, Yee_linear.lcV; cbn [vx vy vz]. rewrite !L. repeat split; cx.
    Qed.
    Lemma stepE_AB_lin A B J1 J2 E1 E2 H1 H2 :
      veqA K (stepE_AB A B (lcV J1 J2) (lcV E1 E2) (lcV H1 H2)) (lcV (stepE_AB A B J1 E1 H1) (stepE_AB A B J2 E2 H2)).
    Proof.
      intros i j k.
      destruct (tvec1_lin (avgE K sc) A E1 E2 (avgE_extA K sc) (avgE_lin K sc a b) i j k) as (a1 & a2 & a3).
      destruct (tvec1_extA (avgE K sc) B _ _ (avgE_extA K sc) (curlH_lin K sc a b H1 H2) i j k) as (x1 & x2 & x3).
      destruct (tvec1_lin (avgE K sc) B (curlH_raw K sc H1) (curlH_raw K sc H2) (avgE_extA K sc) (avgE_lin K sc a b) i j k) as (y1 & y2 & y3).
      unfold stepE_AB, vmask, vadd, vmap2; cbn [vx vy vz]. rewrite a1, a2, a3, x1, x2, x3, y1, y2, y3. unfold Yee_linear.lcV; cbn [vx vy vz].
      repeat split; cx.
    Qed.
    Lemma stepH_AB_lin A B J1 J2 E1 E2 H1 H2 :
      veqA K (stepH_AB A B (lcV J1 J2) (lcV E1 E2) (lcV H1 H2)) (lcV (stepH_AB A B J1 E1 H1) (stepH_AB A B J2 E2 H2)).
    Proof.
      intros i j k.
      destruct (tvec1_lin (avgH K sc) A H1 H2 (avgH_extA K sc) (avgH_lin K sc a b) i j k) as (a1 & a2 & a3).
      destruct (tvec1_extA (avgH K sc) B _ _ (avgH_extA K sc) (curlE_lin K sc a b E1 E2) i j k) as (x1 & x2 & x3).
      destruct (tvec1_lin (avgH K sc) B (curlE_raw K sc E1) (curlE_raw K sc E2) (avgH_extA K sc) (avgH_lin K sc a b) i j k) as (y1 & y2 & y3).
      unfold stepH_AB, vmask, vadd, vsub, vmap2; cbn [vx vy vz]. rewrite a1, a2, a3, x1, x2, x3, y1, y2, y3. unfold Yee_linear.lcV; cbn [vx vy vz].
      repeat split; cx.
    Qed.
    Lemma tierE_lin e J1 J2 E1 E2 H1 H2 : veqA K (tierE e (lcV J1 J2) (lcV E1 E2) (lcV H1 H2)) (lcV (tierE e J1 E1 H1) (tierE e J2 E2 H2)).
    Proof. destruct e as [[T sg]|]; cbn [tierE]; [apply stepE_AB_lin | apply (stepE_lin K sc a b)]. Qed.
    Lemma tierH_lin m J1 J2 E1 E2 H1 H2 : veqA K (tierH m (lcV J1 J2) (lcV E1 E2) (lcV H1 H2)) (lcV (tierH m J1 E1 H1) (tierH m J2 E2 H2)).
    Proof. destruct m as [[T sg]|]; cbn [tierH]; [apply stepH_AB_lin | apply (stepH_lin K sc a b)]. Qed.
  End Lin.
End LossySteps.

Section LossyLinear.
  Variable K : Fld.
  Variable sc : scene K.
  Variables a b : car K.
  Hypothesis Hpml : pmls K sc = [].
  Variables e m : option (T9 K * T9 K).
  Fixpoint iterL (s0 : scene K) (n : nat) (st : state K) : state K := match n with O => st | S p => iterL s0 p (forward_lossy K s0 e m st) end.

  (* lossy_A / lossy_B read only cn and eta0 of the scene: the three scenes of the superposition share them *)
  Theorem forward_lossy_linear_n jE1 jH1 jE2 jH2 n : forall s1 s2 s3,
    tstep s2 = tstep s1 -> tstep s3 = tstep s1 ->
    veqA K (fE s3) (lcV K a b (fE s1) (fE s2)) -> veqA K (fH s3) (lcV K a b (fH s1) (fH s2)) ->
    let sc1 := with_inj K sc jE1 jH1 in let sc2 := with_inj K sc jE2 jH2 in
    let sc3 := with_inj K sc (fun t => lcV K a b (jE1 t) (jE2 t)) (fun t => lcV K a b (jH1 t) (jH2 t)) in
    veqA K (fE (iterL sc3 n s3)) (lcV K a b (fE (iterL sc1 n s1)) (fE (iterL sc2 n s2))) /\
    veqA K (fH (iterL sc3 n s3)) (lcV K a b (fH (iterL sc1 n s1)) (fH (iterL sc2 n s2))).
  Proof.
    induction n as [|n IH]; intros s1 s2 s3 T2 T3 HE HH sc1 sc2 sc3; [split; assumption|].
    cbn [iterL].
    destruct (forward_lossy_steps K sc1 Hpml e m s1) as (e1 & h1 & t1).
    destruct (forward_lossy_steps K sc2 Hpml e m s2) as (e2 & h2 & t2).
    destruct (forward_lossy_steps K sc3 Hpml e m s3) as (e3 & h3 & t3).
    assert (EE : veqA K (fE (forward_lossy K sc3 e m s3)) (lcV K a b (fE (forward_lossy K sc1 e m s1)) (fE (forward_lossy K sc2 e m s2)))).
    { rewrite e1, e2, e3. cbn [injE sc1 sc2 sc3 with_inj]. rewrite T2, T3.
      eapply veqA_trans; [| apply (tierE_lin K sc a b e (jE1 (tstep s1)) (jE2 (tstep s1)) (fE s1) (fE s2) (fH s1) (fH s2))].
      apply (tierE_ext K sc e); [apply veqA_refl | exact HE | exact HH]. }
    apply IH.
    - rewrite t1, t2, T2. reflexivity.
    - rewrite t1, t3, T3. reflexivity.
    - exact EE.
    - rewrite h1, h2, h3. cbn [injH sc1 sc2 sc3 with_inj]. rewrite T2, T3.
      eapply veqA_trans; [| apply (tierH_lin K sc a b m (jH1 (tstep s1)) (jH2 (tstep s1)) _ _ (fH s1) (fH s2))].
      apply (tierH_ext K sc m); [apply veqA_refl | exact EE | exact HH].
  Qed.
End LossyLinear.

(* ---- C11 for the conductive full tiers ---- *)
Section LossyReal.
  Variable K : Fld.
  Add Field KFlq : (Fth K).
  Variable sc : scene K.
  Hypothesis Hpml : pmls K sc = [].
  Hypothesis Ghost : realC K (hix K sc) /\ realC K (hiy K sc) /\ realC K (hiz K sc) /\ realC K (lox K sc) /\ realC K (loy K sc) /\ realC K (loz K sc).
  Hypothesis InjReal : forall t, realV K (injE K sc t) /\ realV K (injH K sc t).
  Ltac re := unfold realC, cadd, csub, cscal, cdivr in *; cbn [fst snd] in *.

  Lemma tvec1_real avg (T : T9 K) v : (forall f c l, realA K f -> realA K (avg f c l)) -> realV K v -> realV K (tvec1 K avg T v).
  Proof.
    intros Havg R i j k.
    assert (L : forall r s, realC K (at_loc K avg v r s i j k)).
    { intros r s. unfold at_loc. destruct (Nat.eqb r s); [apply (comp_real K v r R) | apply (Havg _ s r (comp_real K v s R))]. }
    unfold tvec1, trow1; cbn [vx vy vz].
    pose proof (L 0%nat 0%nat) as a00. pose proof (L 0%nat 1%nat) as a01. pose proof (L 0%nat 2%nat) as a02.
    pose proof (L 1%nat 0%nat) as a10. pose proof (L 1%nat 1%nat) as a11. pose proof (L 1%nat 2%nat) as a12.
    pose proof (L 2%nat 0%nat) as a20. pose proof (L 2%nat 1%nat) as a21. pose proof (L 2%nat 2%nat) as a22.
    re. repeat split; rewrite ?a00, ?a01, ?a02, ?a10, ?a11, ?a12, ?a20, ?a21, ?a22; ring.
  Qed.
  Lemma stepE_AB_real A B J E H : realV K J -> realV K E -> realV K H -> realV K (stepE_AB K sc A B J E H).
  Proof.
    intros RJ RE RH i j k.
    destruct (tvec1_real (avgE K sc) A _ (avgE_real K sc Ghost) RE i j k) as (a1 & a2 & a3).
    destruct (tvec1_real (avgE K sc) B _ (avgE_real K sc Ghost) (curlH_real K sc Ghost H RH) i j k) as (t1 & t2 & t3).
    destruct (RJ i j k) as (j1 & j2 & j3).
    unfold stepE_AB, vmask, vadd, vmap2; cbn [vx vy vz]. re. repeat split; rewrite ?a1, ?a2, ?a3, ?t1, ?t2, ?t3, ?j1, ?j2, ?j3; ring.
  Qed.
  Lemma stepH_AB_real A B J E H : realV K J -> realV K E -> realV K H -> realV K (stepH_AB K sc A B J E H).
  Proof.
    intros RJ RE RH i j k.
    destruct (tvec1_real (avgH K sc) A _ (avgH_real K sc Ghost) RH i j k) as (a1 & a2 & a3).
    destruct (tvec1_real (avgH K sc) B _ (avgH_real K sc Ghost) (curlE_real K sc Ghost E RE) i j k) as (t1 & t2 & t3).
    destruct (RJ i j k) as (j1 & j2 & j3).
    unfold stepH_AB, vmask, vadd, vsub, vmap2; cbn [vx vy vz]. re. repeat split; rewrite ?a1, ?a2, ?a3, ?t1, ?t2, ?t3, ?j1, ?j2, ?j3; ring.
  Qed.
  Lemma tierE_real e J E H : realV K J -> realV K E -> realV K H -> realV K (tierE K sc e J E H).
  Proof. destruct e as [[T sg]|]; cbn [tierE]; [apply stepE_AB_real | apply (stepE_real K sc Ghost)]. Qed.
  Lemma tierH_real m J E H : realV K J -> realV K E -> realV K H -> realV K (tierH K sc m J E H).
  Proof. destruct m as [[T sg]|]; cbn [tierH]; [apply stepH_AB_real | apply (stepH_real K sc Ghost)]. Qed.

  Variables e m : option (T9 K * T9 K).
  Fixpoint iterLR (n : nat) (s : state K) : state K := match n with O => s | S p => iterLR p (forward_lossy K sc e m s) end.
  Theorem forward_lossy_real_n n : forall s, realV K (fE s) -> realV K (fH s) -> realV K (fE (iterLR n s)) /\ realV K (fH (iterLR n s)).
  Proof.
    induction n as [|n IH]; intros s RE RH; [split; assumption|]. cbn [iterLR].
    destruct (forward_lossy_steps K sc Hpml e m s) as (he & hh & _).
    assert (A : realV K (fE (forward_lossy K sc e m s))) by (rewrite he; apply tierE_real; [apply InjReal | exact RE | exact RH]).
    apply IH; [exact A|]. rewrite hh. apply tierH_real; [apply InjReal | exact A | exact RH].
  Qed.
End LossyReal.

(* ---- the per-cell 3x3 algebra: the adjugate formula is the inverse, so A = M1^-1 M2 and B = c M1^-1 T solve the source's linear systems ---- *)
Section Solve.
  Variable K : Fld.
  Add Field KFls : (Fth K).
  Variable sc : scene K.
  Lemma m9inv_right (M : T9 K) i j k : det9 K M i j k <> 0 ->
    forall r s, (r < 3)%nat -> (s < 3)%nat -> m9mul K M (m9inv K M) r s i j k = m9id K r s i j k.
  Proof.
    intros Hd r s Hr Hs.
    destruct r as [|[|[|r]]]; [| | |lia]; (destruct s as [|[|[|s]]]; [| | |lia]);
      unfold m9mul, m9inv, m9id, det9, cof in *; cbn [nx3 pv3 Nat.eqb] in *; field; exact Hd.
  Qed.
  Lemma m9inv_left (M : T9 K) i j k : det9 K M i j k <> 0 ->
    forall r s, (r < 3)%nat -> (s < 3)%nat -> m9mul K (m9inv K M) M r s i j k = m9id K r s i j k.
  Proof.
    intros Hd r s Hr Hs.
    destruct r as [|[|[|r]]]; [| | |lia]; (destruct s as [|[|[|s]]]; [| | |lia]);
      unfold m9mul, m9inv, m9id, det9, cof in *; cbn [nx3 pv3 Nat.eqb] in *; field; exact Hd.
  Qed.
  (* M1 A = M2 and M1 B = c T : what jnp.linalg.solve(M1, M2) and c * jnp.linalg.solve(M1, T) return *)
  Theorem lossy_A_solves etaf (T sg : T9 K) i j k : det9 K (lossy_M1 K sc etaf T sg) i j k <> 0 ->
    forall r s, (r < 3)%nat -> (s < 3)%nat ->
    m9mul K (lossy_M1 K sc etaf T sg) (lossy_A K sc etaf T sg) r s i j k = lossy_M2 K sc etaf T sg r s i j k.
  Proof.
    intros Hd r s Hr Hs. unfold lossy_A.
    set (M1 := lossy_M1 K sc etaf T sg) in *. set (M2 := lossy_M2 K sc etaf T sg).
    assert (E : forall q, (q < 3)%nat -> m9mul K M1 (m9inv K M1) r q i j k = m9id K r q i j k) by (intros q Hq; apply m9inv_right; assumption).
    pose proof (E 0%nat ltac:(lia)) as e0. pose proof (E 1%nat ltac:(lia)) as e1. pose proof (E 2%nat ltac:(lia)) as e2.
    unfold m9mul in *.
    transitivity ((M1 r 0%nat i j k * m9inv K M1 0%nat 0%nat i j k + M1 r 1%nat i j k * m9inv K M1 1%nat 0%nat i j k + M1 r 2%nat i j k * m9inv K M1 2%nat 0%nat i j k) * M2 0%nat s i j k
                + (M1 r 0%nat i j k * m9inv K M1 0%nat 1%nat i j k + M1 r 1%nat i j k * m9inv K M1 1%nat 1%nat i j k + M1 r 2%nat i j k * m9inv K M1 2%nat 1%nat i j k) * M2 1%nat s i j k
                + (M1 r 0%nat i j k * m9inv K M1 0%nat 2%nat i j k + M1 r 1%nat i j k * m9inv K M1 1%nat 2%nat i j k + M1 r 2%nat i j k * m9inv K M1 2%nat 2%nat i j k) * M2 2%nat s i j k); [ring|].
    rewrite e0, e1, e2. unfold m9id.
    destruct r as [|[|[|r]]]; [| | |lia]; cbn [Nat.eqb]; ring.
  Qed.
End Solve.
