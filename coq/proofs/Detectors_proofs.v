(* Detectors_proofs.v — lemmas about model/Detectors.v used by C16 (and the phasor sums reused by C17). *)
From Coq Require Import List Arith Bool Lia Field Ring.
From FV Require Import base.Scalar base.Sums base.DetectorsBase model.Detectors.
Import ListNotations.
Local Open Scope fld_scope.

(* ---------------- shape arithmetic of the Poynting weights ---------------- *)
Lemma stack_three (a b c : shape3) :
  stack_shape [a; b; c] <> None <-> (shape_eqb a b = true /\ shape_eqb a c = true).
Proof.
  unfold stack_shape. cbn [forallb]. destruct (shape_eqb a b), (shape_eqb a c); cbn; split; intros H; try tauto; try discriminate.
  all: try (destruct H; discriminate). all: exfalso; apply H; reflexivity.
Qed.

Lemma shape_eqb_true a b : shape_eqb a b = true <-> a = b.
Proof.
  destruct a as [[a1 a2] a3], b as [[b1 b2] b3]. unfold shape_eqb, dimx, dimy, dimz; cbn.
  rewrite !andb_true_iff, !Nat.eqb_eq. split; [intros [[-> ->] ->]; reflexivity | intros E; inversion E; auto].
Qed.

Section DetProofs.
  Variable K : Fld.
  Add Field KF_detp : (Fth K).
  Notation F := (car K).
  Notation Vec := (Vec K).
  Notation Cx := (Cx K).

  Lemma fdiv_def (p q : F) : p / q = p * / q.
  Proof. apply (Fdiv_def (Fth K)). Qed.

  (* the unchanged placement (jnp.stack of the raw per-axis arrays) succeeds iff the region is one cell *)
  Theorem pf_weights_src_old_ok_iff (g : Grid K) lo n :
    pf_weights_all_src_old g lo n <> None <-> n = (1, 1, 1)%nat.
  Proof.
    unfold pf_weights_all_src_old.
    set (s := stack_shape _).
    assert (Hs : s <> None <-> n = (1,1,1)%nat).
    { unfold s. rewrite stack_three, !shape_eqb_true. destruct n as [[nx ny] nz]. cbn.
      split.
      - intros [A B]. inversion A. inversion B. subst. reflexivity.
      - intros E. inversion E. split; reflexivity. }
    destruct s; split; intros H.
    - apply Hs. discriminate.
    - discriminate.
    - exfalso. apply H. reflexivity.
    - apply Hs in H. exfalso. apply H. reflexivity.
  Qed.

  Lemma bidx_lt n i : (i < n)%nat -> bidx n i = i.
  Proof. unfold bidx. destruct (Nat.eqb n 1) eqn:E; [apply Nat.eqb_eq in E; lia | reflexivity]. Qed.
  Lemma bidx_one i : bidx 1 i = 0%nat.
  Proof. reflexivity. Qed.

  Lemma can_broadcast_face n a : can_broadcast_to (set_dim n a 1) n = true.
  Proof.
    destruct n as [[nx ny] nz]. destruct a as [|[|a]]; unfold can_broadcast_to, set_dim, dimx, dimy, dimz; cbn;
      rewrite ?Nat.eqb_refl, ?orb_true_r; reflexivity.
  Qed.

  (* the repaired placement always succeeds, every weight array has the detector's grid shape, and its
     entries are the face-area entries read with numpy broadcasting *)
  Theorem pf_weights_all_ok (g : Grid K) lo n :
    exists W, pf_weights_all g lo n = Some W /\
      forall a, sshape (W a) = n /\
        forall i j k, (i < dimx n)%nat -> (j < dimy n)%nat -> (k < dimz n)%nat ->
          sget (W a) i j k = sget (face_area g lo n (Nat.min a 2)) i j k.
  Proof.
    unfold pf_weights_all, broadcast_to. cbn [sshape face_area]. rewrite !can_broadcast_face.
    cbn [sshape]. unfold stack_shape. cbn [forallb].
    assert (E : shape_eqb n n = true) by (apply shape_eqb_true; reflexivity). rewrite E. cbn.
    eexists; split; [reflexivity|]. intros a. split.
    - destruct a as [|[|a]]; reflexivity.
    - intros i j k Hi Hj Hk.
      destruct a as [|[|a]]; cbn [Nat.min]; unfold sget at 1; cbn [sshape sdat];
        rewrite (bidx_lt _ _ Hi), (bidx_lt _ _ Hj), (bidx_lt _ _ Hk); reflexivity.
  Qed.

  (* explicit entries of the face-area arrays *)
  Lemma sget_face_area (g : Grid K) lo n a i j k :
    (i < dimx n)%nat -> (j < dimy n)%nat -> (k < dimz n)%nat ->
    sget (face_area g lo n a) i j k =
      match a with
      | 0 => wy g (oy lo j) * wz g (oz lo k)
      | 1 => wx g (ox lo i) * wz g (oz lo k)
      | _ => wx g (ox lo i) * wy g (oy lo j)
      end.
  Proof.
    intros Hi Hj Hk. destruct n as [[nx ny] nz]. unfold dimx, dimy, dimz in *; cbn in *.
    destruct a as [|[|a]]; unfold sget, face_area, set_dim, dimx, dimy, dimz; cbn;
      rewrite ?(bidx_lt _ _ Hi), ?(bidx_lt _ _ Hj), ?(bidx_lt _ _ Hk); reflexivity.
  Qed.

  (* ---------------- sums ---------------- *)
  Lemma sum3s_ext n (g h : A3 K) :
    (forall i j k, (i < dimx n)%nat -> (j < dimy n)%nat -> (k < dimz n)%nat -> g i j k = h i j k) -> sum3s n g = sum3s n h.
  Proof. apply sum3_ext. Qed.
  Lemma sum3s_opp n (g : A3 K) : sum3s n (fun i j k => - g i j k) = - sum3s n g.
  Proof. apply sum3_opp. Qed.
  Lemma sum3s_add n (g h : A3 K) : sum3s n (fun i j k => g i j k + h i j k) = sum3s n g + sum3s n h.
  Proof. apply sum3_add. Qed.
  Lemma sum3s_sub n (g h : A3 K) : sum3s n (fun i j k => g i j k - h i j k) = sum3s n g - sum3s n h.
  Proof. apply sum3_sub. Qed.
  Lemma sum3s_scal n c (g : A3 K) : sum3s n (fun i j k => c * g i j k) = c * sum3s n g.
  Proof. apply sum3_scal. Qed.

  (* ---------------- weighted mean ---------------- *)
  Theorem wmean_add n (vol g h : A3 K) : wmean n vol (fun i j k => g i j k + h i j k) = wmean n vol g + wmean n vol h.
  Proof.
    unfold wmean. rewrite !fdiv_def.
    rewrite (sum3s_ext n _ (fun i j k => g i j k * vol i j k + h i j k * vol i j k)) by (intros; ring).
    rewrite sum3s_add. ring.
  Qed.
  Theorem wmean_sub n (vol g h : A3 K) : wmean n vol (fun i j k => g i j k - h i j k) = wmean n vol g - wmean n vol h.
  Proof.
    unfold wmean. rewrite !fdiv_def.
    rewrite (sum3s_ext n _ (fun i j k => g i j k * vol i j k - h i j k * vol i j k)) by (intros; ring).
    rewrite sum3s_sub. ring.
  Qed.
  Theorem wmean_scal n (vol : A3 K) c (g : A3 K) : wmean n vol (fun i j k => c * g i j k) = c * wmean n vol g.
  Proof.
    unfold wmean. rewrite !fdiv_def.
    rewrite (sum3s_ext n _ (fun i j k => c * (g i j k * vol i j k))) by (intros; ring).
    rewrite sum3s_scal. ring.
  Qed.
  (* a constant field is reproduced exactly whenever the total volume is non-zero *)
  Theorem wmean_const n (vol : A3 K) (c : F) : sum3s n vol <> 0 -> wmean n vol (fun _ _ _ => c) = c.
  Proof.
    intros Hv. unfold wmean. rewrite sum3s_scal. field. exact Hv.
  Qed.

  (* C16 (a): reduced field record = cell-volume weighted mean of the spatial record, per recorded row *)
  Theorem field_reduced_is_mean n (g : Grid K) lo sel (E H : Vec) r :
    field_reduced n (cell_volume g lo) sel E H r
    = sum3s n (fun i j k => field_spatial sel E H r i j k * (wx g (ox lo i) * wy g (oy lo j) * wz g (oz lo k)))
      / sum3s n (fun i j k => wx g (ox lo i) * wy g (oy lo j) * wz g (oz lo k)).
  Proof. reflexivity. Qed.
  (* the recorded rows are the canonical components in canonical order *)
  Theorem field_spatial_row sel (E H : Vec) r c :
    nth r sel 0%nat = c -> field_spatial sel E H r = if Nat.ltb c 3 then E c else H (c - 3)%nat.
  Proof. intros <-. reflexivity. Qed.

  (* C16 (b): reduced energy = volume-weighted sum of the spatial energy; additive over a split of the region *)
  Theorem energy_reduced_is_sum n (g : Grid K) lo (en : A3 K) :
    energy_reduced n (cell_volume g lo) en = sum3s n (fun i j k => en i j k * (wx g (ox lo i) * wy g (oy lo j) * wz g (oz lo k))).
  Proof. reflexivity. Qed.
  Theorem energy_reduced_split_x (g : Grid K) lx ly lz n1 n2 ny nz (en : A3 K) :
    energy_reduced ((n1 + n2)%nat, ny, nz) (cell_volume g (lx, ly, lz)) en
    = energy_reduced (n1, ny, nz) (cell_volume g (lx, ly, lz)) en
      + energy_reduced (n2, ny, nz) (cell_volume g ((lx + n1)%nat, ly, lz)) (fun i j k => en (n1 + i)%nat j k).
  Proof.
    unfold energy_reduced, sum3s, sum3, dimx, dimy, dimz; cbn [fst snd]. rewrite sumn_split. f_equal.
    apply sumn_ext; intros i Hi. apply sumn_ext; intros j Hj. apply sumn_ext; intros k Hk.
    unfold cell_volume, ox, oy, oz, dimx, dimy, dimz; cbn [fst snd]. rewrite Nat.add_assoc. reflexivity.
  Qed.

  (* C16 (c): reduced Poynting flux = area-weighted sum of the spatial flux (explicit transverse areas) *)
  Theorem pf_single_reduced_is_area_sum (g : Grid K) lo n pa minus (E H : Vec) :
    pf_single_reduced n (pf_weights_single g lo n pa) pa minus E H
    = sum3s n (fun i j k => pf_single_spatial pa minus E H i j k *
                 match pa with
                 | 0 => wy g (oy lo j) * wz g (oz lo k)
                 | 1 => wx g (ox lo i) * wz g (oz lo k)
                 | _ => wx g (ox lo i) * wy g (oy lo j)
                 end).
  Proof.
    unfold pf_single_reduced, pf_weights_single. apply sum3s_ext; intros i j k Hi Hj Hk.
    rewrite sget_face_area by assumption. reflexivity.
  Qed.

  (* C16 (d): the minus direction negates, spatially and reduced, single and all components *)
  Theorem pf_minus_negates_spatial pa (E H : Vec) i j k :
    pf_single_spatial pa true E H i j k = - pf_single_spatial pa false E H i j k.
  Proof. reflexivity. Qed.
  Theorem pf_minus_negates_reduced n W pa (E H : Vec) :
    pf_single_reduced n W pa true E H = - pf_single_reduced n W pa false E H.
  Proof.
    unfold pf_single_reduced, pf_single_spatial, sgn. rewrite <- sum3s_opp. apply sum3s_ext; intros; ring.
  Qed.
  Theorem pf_all_minus_negates_reduced n W (E H : Vec) c :
    pf_all_reduced n W true E H c = - pf_all_reduced n W false E H c.
  Proof.
    unfold pf_all_reduced, pf_all_spatial, sgn. rewrite <- sum3s_opp. apply sum3s_ext; intros; ring.
  Qed.

  (* C16 (e): single-component output = propagation component of the all-component output (repaired placement) *)
  Theorem pf_single_is_component_spatial pa minus (E H : Vec) :
    pf_single_spatial pa minus E H = pf_all_spatial minus E H pa.
  Proof. reflexivity. Qed.
  Theorem pf_single_is_component_reduced (g : Grid K) lo n W pa minus (E H : Vec) :
    (pa < 3)%nat -> pf_weights_all g lo n = Some W ->
    pf_single_reduced n (pf_weights_single g lo n pa) pa minus E H = pf_all_reduced n W minus E H pa.
  Proof.
    intros Hpa HW. destruct (pf_weights_all_ok g lo n) as (W' & HW' & Hsp). rewrite HW in HW'. inversion HW'; subst W'.
    unfold pf_single_reduced, pf_all_reduced, pf_weights_single. apply sum3s_ext; intros i j k Hi Hj Hk.
    destruct (Hsp pa) as [_ Hg]. rewrite Hg by assumption. replace (Nat.min pa 2) with pa; [reflexivity|].
    destruct pa as [|[|[|pa]]]; try reflexivity. lia.
  Qed.

  (* ---------------- closed surface ---------------- *)
  Definition face_flux (g : Grid K) (lo n : shape3) (a pos : nat) (E H : Vec) : F :=
    let lo' := set_dim lo a (dim lo a + pos)%nat in
    let n' := set_dim n a 1 in
    pf_single_reduced n' (pf_weights_single g lo' n' a) a false (restrict lo' E) (restrict lo' H).

  Lemma sumn_one (f : nat -> F) : sumn 1 f = f 0%nat.
  Proof. cbn. ring. Qed.

  Lemma face_flux_eq (g : Grid K) lo n a pos (E H : Vec) :
    (a < 3)%nat -> (1 <= dimx n)%nat -> (1 <= dimy n)%nat -> (1 <= dimz n)%nat ->
    face_flux g lo n a pos E H
    = face_sum n a (fun i j k => cross (restrict lo E) (restrict lo H) a i j k * sget (face_area g lo n a) i j k) pos.
  Proof.
    intros Ha Hx Hy Hz. destruct n as [[nx ny] nz], lo as [[lx ly] lz]. unfold dimx, dimy, dimz in *; cbn [fst snd] in *.
    unfold face_flux, pf_single_reduced, pf_weights_single, pf_single_spatial, sgn, sum3s, sum3.
    destruct a as [|[|[|a]]]; [| | |lia]; unfold set_dim, dim, dimx, dimy, dimz, face_sum; cbn [fst snd].
    - rewrite sumn_one. apply sumn_ext; intros j Hj. apply sumn_ext; intros k Hk.
      unfold sget, face_area, set_dim, dimx, dimy, dimz, cross, restrict, restrict3, ox, oy, oz, dimx, dimy, dimz; cbn [fst snd sshape sdat].
      rewrite !Nat.add_0_r. reflexivity.
    - apply sumn_ext; intros i Hi. rewrite sumn_one. apply sumn_ext; intros k Hk.
      unfold sget, face_area, set_dim, dimx, dimy, dimz, cross, restrict, restrict3, ox, oy, oz, dimx, dimy, dimz; cbn [fst snd sshape sdat].
      rewrite !Nat.add_0_r. reflexivity.
    - apply sumn_ext; intros i Hi. apply sumn_ext; intros j Hj. rewrite sumn_one.
      unfold sget, face_area, set_dim, dimx, dimy, dimz, cross, restrict, restrict3, ox, oy, oz, dimx, dimy, dimz; cbn [fst snd sshape sdat].
      rewrite !Nat.add_0_r. reflexivity.
  Qed.

  (* C16 (f): the closed-surface record over all three axes = signed sum of the six face detectors *)
  Theorem closed_eq_six_faces (g : Grid K) lo n (E H : Vec) :
    (1 <= dimx n)%nat -> (1 <= dimy n)%nat -> (1 <= dimz n)%nat ->
    closed_net g lo n (Some [0; 1; 2]%nat) false (restrict lo E) (restrict lo H)
    = (face_flux g lo n 0 (dimx n - 1) E H - face_flux g lo n 0 0 E H)
      + (face_flux g lo n 1 (dimy n - 1) E H - face_flux g lo n 1 0 E H)
      + (face_flux g lo n 2 (dimz n - 1) E H - face_flux g lo n 2 0 E H).
  Proof.
    intros Hx Hy Hz. rewrite !face_flux_eq by (assumption || lia).
    unfold closed_net, closed_axes, net_box, sgn. cbn [fold_left dim].
    rewrite <- !Nat.sub_1_r. ring.
  Qed.

  (* a face pair on a size-one axis cancels: the default axes give the same value as all three axes *)
  Theorem closed_default_axes (g : Grid K) lo n inward (E H : Vec) :
    (1 <= dimx n)%nat -> (1 <= dimy n)%nat -> (1 <= dimz n)%nat ->
    closed_net g lo n None inward E H = closed_net g lo n (Some [0; 1; 2]%nat) inward E H.
  Proof.
    intros Hx Hy Hz. unfold closed_net. f_equal. unfold closed_axes, default_axes. cbn [filter dim].
    assert (P : forall d, (1 <= d)%nat -> Nat.ltb 1 d = false -> Nat.pred d = 0%nat).
    { intros d Hd Hl. apply Nat.ltb_ge in Hl. lia. }
    destruct (Nat.ltb 1 (dimx n)) eqn:Ex, (Nat.ltb 1 (dimy n)) eqn:Ey, (Nat.ltb 1 (dimz n)) eqn:Ez;
      unfold net_box; cbn [fold_left dim];
      rewrite ?(P _ Hx Ex), ?(P _ Hy Ey), ?(P _ Hz Ez); ring.
  Qed.

  (* inward orientation negates *)
  Theorem closed_inward_negates (g : Grid K) lo n axes (E H : Vec) :
    closed_net g lo n axes true E H = - closed_net g lo n axes false E H.
  Proof. reflexivity. Qed.

  (* ---------------- phasor accumulation ---------------- *)
  Section Run.
    Variables (sel : list nat) (fldE fldH : nat -> Vec) (e : nat -> nat -> Cx) (scale : F) (w : nat -> F).
    Definition contrib (t f r i j k : nat) : Cx := phasor_new sel (fldE t) (fldH t) (e t) scale (w t) f r i j k.

    (* spatial run = initial state +/- the sum of the contributions of the recorded steps *)
    Theorem phasor_run_spatial_sum inverse steps : forall st0 f r i j k,
      phasor_run_spatial inverse sel fldE fldH e scale w steps st0 f r i j k
      = (if inverse then csub else cadd) (st0 f r i j k) (clsum (map (fun t => contrib t f r i j k) steps)).
    Proof.
      unfold phasor_run_spatial. induction steps as [|t steps IH]; intros st0 f r i j k; cbn [fold_left map clsum].
      - destruct inverse; apply cx_eq; cbn; ring.
      - rewrite IH. unfold phasor_update_spatial, contrib. destruct inverse; apply cx_eq; cbn; ring.
    Qed.

    (* C16 (g): the inverse detector subtracts exactly what the forward one adds *)
    Theorem phasor_inverse_subtracts steps st0 f r i j k :
      cadd (phasor_run_spatial false sel fldE fldH e scale w steps st0 f r i j k)
           (phasor_run_spatial true sel fldE fldH e scale w steps st0 f r i j k)
      = cadd (st0 f r i j k) (st0 f r i j k).
    Proof. rewrite !phasor_run_spatial_sum. apply cx_eq; cbn; ring. Qed.
    Corollary phasor_inverse_from_zero steps f r i j k :
      phasor_run_spatial true sel fldE fldH e scale w steps (fun _ _ _ _ _ => c0) f r i j k
      = copp (phasor_run_spatial false sel fldE fldH e scale w steps (fun _ _ _ _ _ => c0) f r i j k).
    Proof. rewrite !phasor_run_spatial_sum. apply cx_eq; cbn; ring. Qed.

    Lemma cwmean_add n vol (a b : nat -> nat -> nat -> Cx) :
      cwmean n vol (fun i j k => cadd (a i j k) (b i j k)) = cadd (cwmean n vol a) (cwmean n vol b).
    Proof. unfold cwmean, cadd. cbn [fst snd]. rewrite <- !wmean_add. reflexivity. Qed.
    Lemma cwmean_sub n vol (a b : nat -> nat -> nat -> Cx) :
      cwmean n vol (fun i j k => csub (a i j k) (b i j k)) = csub (cwmean n vol a) (cwmean n vol b).
    Proof. unfold cwmean, csub. cbn [fst snd]. rewrite <- !wmean_sub. reflexivity. Qed.

    (* C16 (a'): the reduced phasor run is the volume-weighted mean of the spatial run, step list arbitrary *)
    Theorem phasor_reduced_is_mean n vol inverse steps : forall (stR : PhR K) (stS : PhS K),
      (forall f r, stR f r = cwmean n vol (stS f r)) ->
      forall f r,
        phasor_run_reduced n vol inverse sel fldE fldH e scale w steps stR f r
        = cwmean n vol (phasor_run_spatial inverse sel fldE fldH e scale w steps stS f r).
    Proof.
      unfold phasor_run_reduced, phasor_run_spatial.
      induction steps as [|t steps IH]; intros stR stS H0 f r; cbn [fold_left]; [apply H0|].
      apply IH. intros f' r'. unfold phasor_update_reduced, phasor_update_spatial. rewrite H0.
      destruct inverse; [rewrite cwmean_sub | rewrite cwmean_add]; reflexivity.
    Qed.
  End Run.

  (* ---------------- packaged statements (props/C16.v) ---------------- *)
  Lemma wmean_linear_const n (vol g h : A3 K) (c : F) :
    wmean n vol (fun i j k => g i j k + h i j k) = wmean n vol g + wmean n vol h /\
    wmean n vol (fun i j k => c * g i j k) = c * wmean n vol g /\
    (sum3s n vol <> 0 -> wmean n vol (fun _ _ _ => c) = c).
  Proof. split; [apply wmean_add | split; [apply wmean_scal | apply wmean_const]]. Qed.
  Lemma minus_direction_negates n W Wall pa (E H : Vec) :
    (forall i j k, pf_single_spatial pa true E H i j k = - pf_single_spatial pa false E H i j k) /\
    pf_single_reduced n W pa true E H = - pf_single_reduced n W pa false E H /\
    (forall c, pf_all_reduced n Wall true E H c = - pf_all_reduced n Wall false E H c).
  Proof.
    split; [intros; apply pf_minus_negates_spatial | split; [apply pf_minus_negates_reduced | intros; apply pf_all_minus_negates_reduced]].
  Qed.
  Lemma single_is_component_of_all (g : Grid K) lo n W pa minus (E H : Vec) :
    (pa < 3)%nat -> pf_weights_all g lo n = Some W ->
    pf_single_spatial pa minus E H = pf_all_spatial minus E H pa /\
    pf_single_reduced n (pf_weights_single g lo n pa) pa minus E H = pf_all_reduced n W minus E H pa.
  Proof. intros. split; [apply pf_single_is_component_spatial | apply pf_single_is_component_reduced; assumption]. Qed.
  Lemma closed_default_axes_and_orientation (g : Grid K) lo n axes inward (E H : Vec) :
    (1 <= dimx n)%nat -> (1 <= dimy n)%nat -> (1 <= dimz n)%nat ->
    closed_net g lo n None inward E H = closed_net g lo n (Some [0; 1; 2]%nat) inward E H /\
    closed_net g lo n axes true E H = - closed_net g lo n axes false E H.
  Proof. intros. split; [apply closed_default_axes; assumption | apply closed_inward_negates]. Qed.
End DetProofs.

(* the unchanged placement fails on a concrete plane region (witness of probe B.17) *)
Lemma keep_all_src_old_refuted :
  exists (g : Grid QcF) lo n, (1 < dimx n * dimy n * dimz n)%nat /\ pf_weights_all_src_old g lo n = None.
Proof.
  exists (mkGrid (K:=QcF) (fun _ => f1 QcF) (fun _ => f1 QcF) (fun _ => f1 QcF)), (2, 1, 3)%nat, (4, 5, 1)%nat.
  split; [vm_compute; repeat constructor | vm_compute; reflexivity].
Qed.
