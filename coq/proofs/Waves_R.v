(* Waves_R.v — the real-number instance of the ordered-field interface with the genuine cos / exp:
   shows that the hypotheses of the C41 amplitude theorems are satisfiable (non-vacuity). *)
From Coq Require Import Reals RealField Lra ZArith.
From FV Require Import base.Scalar.
Open Scope R_scope.
Definition RF : Fld := Build_Fld R 0 1 Rplus Rmult Rminus Ropp Rdiv Rinv Rfield.
Definition Rleb (x y : R) : bool := if Rle_dec x y then true else false.
Lemma Rleb_spec x y : Rleb x y = true <-> x <= y.
Proof. unfold Rleb. destruct (Rle_dec x y); split; auto; discriminate. Qed.
Definition ROF : OFld.
Proof.
  refine (Build_OFld RF Rle Rleb Rleb_spec Rle_refl Rle_trans Rle_antisym _ _ _ _).
  - intros x y. destruct (Rle_dec x y); [left; assumption | right; lra].
  - intros x y z H. cbn. lra.
  - intros x y Hx Hy. cbn. apply Rmult_le_pos; assumption.
  - cbn. lra.
Defined.
Lemma R_cos_bounds : forall x : R, - (1) <= cos x /\ cos x <= 1.
Proof. intros x. pose proof (COS_bound x). lra. Qed.
Lemma R_exp_bounds : forall y : R, 0 <= y -> 0 <= exp (- y) /\ exp (- y) <= 1.
Proof.
  intros y Hy. split; [left; apply exp_pos|].
  rewrite <- exp_0. destruct Hy as [Hy|<-]; [left; apply exp_increasing; lra | rewrite Ropp_0; right; reflexivity].
Qed.
