(* Yee_steps.v — the PML-free forward step of model/Yee.v written as explicit functions of the fields
   (stepE, stepH), its pointwise extensionality, and the link to `forward`.  Shared by C08–C11. *)
From Coq Require Import List Arith Lia Field Ring.
From FV Require Import base.Scalar base.Cplx model.Yee.
Import ListNotations.
Local Open Scope fld_scope.

Section Steps.
  Variable K : Fld.
  Add Field KFst : (Fth K).
  Notation C := (C K).
  Variable sc : scene K.

  Definition veqA (x y : V3 K) : Prop := forall i j k, vx x i j k = vx y i j k /\ vy x i j k = vy y i j k /\ vz x i j k = vz y i j k.
  Lemma veqA_refl x : veqA x x. Proof. intros i j k; repeat split. Qed.
  Lemma veqA_sym x y : veqA x y -> veqA y x. Proof. intros H i j k; destruct (H i j k) as (a & b & c); repeat split; congruence. Qed.
  Lemma veqA_trans x y z : veqA x y -> veqA y z -> veqA x z.
  Proof. intros H G i j k; destruct (H i j k) as (a & b & c); destruct (G i j k) as (d & e & f); repeat split; congruence. Qed.

  Definition stepE (J E H : V3 K) : V3 K :=
    let kc := curlH_raw K sc H in let ie := ieps K sc in let sg := sigE K sc in
    vmask K (mE K sc) (vadd K (mkV (updE1 K sc (m1 ie) (fE1 K sc (m1 ie) (m1 sg)) (vx E) (vx kc))
                                   (updE1 K sc (m2 ie) (fE1 K sc (m2 ie) (m2 sg)) (vy E) (vy kc))
                                   (updE1 K sc (m3 ie) (fE1 K sc (m3 ie) (m3 sg)) (vz E) (vz kc))) J).
  Definition stepH (J E' H : V3 K) : V3 K :=
    let kc := curlE_raw K sc E' in let im := imu K sc in let sg := sigH K sc in
    vmask K (mH K sc) (vadd K (mkV (updH1 K sc (m1 im) (fH1 K sc (m1 im) (m1 sg)) (vx H) (vx kc))
                                   (updH1 K sc (m2 im) (fH1 K sc (m2 im) (m2 sg)) (vy H) (vy kc))
                                   (updH1 K sc (m3 im) (fH1 K sc (m3 im) (m3 sg)) (vz H) (vz kc))) J).

  Hypothesis Hpml : pmls K sc = [].

  Lemma forward_steps s :
    fE (forward K sc s) = stepE (injE K sc (tstep s)) (fE s) (fH s) /\
    fH (forward K sc s) = stepH (injH K sc (tstep s)) (fE (forward K sc s)) (fH s) /\
    tstep (forward K sc s) = S (tstep s).
  Proof. unfold forward, update_H, update_E, curlH, curlE. rewrite Hpml. cbn. repeat split. Qed.

  Lemma nxt_extA n hi (f g : nat -> C) i : (forall q, f q = g q) -> nxt K n hi f i = nxt K n hi g i.
  Proof. intros H. unfold nxt. rewrite !H. reflexivity. Qed.
  Lemma prv_extA n lo (f g : nat -> C) i : (forall q, f q = g q) -> prv K n lo f i = prv K n lo g i.
  Proof. intros H. unfold prv. destruct i; rewrite ?H; reflexivity. Qed.

  Lemma curlH_raw_extA x y : veqA x y -> veqA (curlH_raw K sc x) (curlH_raw K sc y).
  Proof.
    intros H i j k. unfold curlH_raw, dmx, dmy, dmz; cbn [vx vy vz].
    destruct (H i j k) as (ex & ey & ez). rewrite ex, ey, ez.
    rewrite (prv_extA _ _ (fun a => vz x i a k) (fun a => vz y i a k)) by (intros q; apply (H i q k)).
    rewrite (prv_extA _ _ (fun a => vy x i j a) (fun a => vy y i j a)) by (intros q; apply (H i j q)).
    rewrite (prv_extA _ _ (fun a => vx x i j a) (fun a => vx y i j a)) by (intros q; apply (H i j q)).
    rewrite (prv_extA _ _ (fun a => vz x a j k) (fun a => vz y a j k)) by (intros q; apply (H q j k)).
    rewrite (prv_extA _ _ (fun a => vy x a j k) (fun a => vy y a j k)) by (intros q; apply (H q j k)).
    rewrite (prv_extA _ _ (fun a => vx x i a k) (fun a => vx y i a k)) by (intros q; apply (H i q k)).
    repeat split.
  Qed.
  Lemma curlE_raw_extA x y : veqA x y -> veqA (curlE_raw K sc x) (curlE_raw K sc y).
  Proof.
    intros H i j k. unfold curlE_raw, dpx, dpy, dpz; cbn [vx vy vz].
    destruct (H i j k) as (ex & ey & ez). rewrite ex, ey, ez.
    rewrite (nxt_extA _ _ (fun a => vz x i a k) (fun a => vz y i a k)) by (intros q; apply (H i q k)).
    rewrite (nxt_extA _ _ (fun a => vy x i j a) (fun a => vy y i j a)) by (intros q; apply (H i j q)).
    rewrite (nxt_extA _ _ (fun a => vx x i j a) (fun a => vx y i j a)) by (intros q; apply (H i j q)).
    rewrite (nxt_extA _ _ (fun a => vz x a j k) (fun a => vz y a j k)) by (intros q; apply (H q j k)).
    rewrite (nxt_extA _ _ (fun a => vy x a j k) (fun a => vy y a j k)) by (intros q; apply (H q j k)).
    rewrite (nxt_extA _ _ (fun a => vx x i a k) (fun a => vx y i a k)) by (intros q; apply (H i q k)).
    repeat split.
  Qed.

  Lemma stepE_ext J J' E E' H H' : veqA J J' -> veqA E E' -> veqA H H' -> veqA (stepE J E H) (stepE J' E' H').
  Proof.
    intros HJ HE HH i j k. pose proof (curlH_raw_extA H H' HH i j k) as (c1 & c2 & c3).
    destruct (HJ i j k) as (j1 & j2 & j3). destruct (HE i j k) as (e1 & e2 & e3).
    unfold stepE, vmask, vadd, vmap2, updE1; cbn [vx vy vz]. rewrite c1, c2, c3, j1, j2, j3, e1, e2, e3. repeat split.
  Qed.
  Lemma stepH_ext J J' E E' H H' : veqA J J' -> veqA E E' -> veqA H H' -> veqA (stepH J E H) (stepH J' E' H').
  Proof.
    intros HJ HE HH i j k. pose proof (curlE_raw_extA E E' HE i j k) as (c1 & c2 & c3).
    destruct (HJ i j k) as (j1 & j2 & j3). destruct (HH i j k) as (e1 & e2 & e3).
    unfold stepH, vmask, vadd, vmap2, updH1; cbn [vx vy vz]. rewrite c1, c2, c3, j1, j2, j3, e1, e2, e3. repeat split.
  Qed.
End Steps.
