(* Yee_tile3.v — C09: the 3-D lift of the tiling lemmas of Yee_tile.v.  A PML-free scene of Nx x Ny x Nz cells with ghost
   factors (hi, lo) per axis is tiled mx x my x mz times: materials, widths, masks are repeated, fields and source terms of
   copy (qx,qy,qz) are multiplied by hix^qx * hiy^qy * hiz^qz, the big domain carries ghost factors hi^m / lo^m.
   On every cell of the big box the forward step of the tiled scene is the tiled forward step of the unit cell, for any
   number of steps.  Per axis either m = 1 (any halo, e.g. a wall) or lo * hi = 1 (periodic 1/1, Bloch phase / conj phase)
   and the first and last cell widths agree (the source's dual width at cell 0 is w0, not (w0 + w_{N-1})/2). *)
From Coq Require Import List Arith Lia Field Ring.
From FV Require Import base.Scalar base.Cplx model.Yee model.YeeExec model.YeeFull proofs.Yee_steps proofs.Yee_tile proofs.Yee_reverse proofs.Yee_full_reverse proofs.Yee_full_props proofs.Yee_lossy_props.
Import ListNotations.
Local Open Scope fld_scope.

Section BoxExt.
  (* the PML-free step only reads cells of the box *)
  Variable K : Fld.
  Notation C := (C K).
  Variable sc : scene K.
  Definition veqB (x y : V3 K) : Prop := forall i j k, (i < nx K sc)%nat -> (j < ny K sc)%nat -> (k < nz K sc)%nat ->
    vx x i j k = vx y i j k /\ vy x i j k = vy y i j k /\ vz x i j k = vz y i j k.
  Lemma nxt_extB n hi (f g : nat -> C) i : (i < n)%nat -> (forall q, (q < n)%nat -> f q = g q) -> nxt K n hi f i = nxt K n hi g i.
  Proof.
    intros Hi H. unfold nxt. destruct (S i <? n) eqn:A.
    - apply Nat.ltb_lt in A. rewrite H by exact A. reflexivity.
    - rewrite H by lia. reflexivity.
  Qed.
  Lemma prv_extB n lo (f g : nat -> C) i : (i < n)%nat -> (forall q, (q < n)%nat -> f q = g q) -> prv K n lo f i = prv K n lo g i.
  Proof. intros Hi H. unfold prv. destruct i; rewrite H by lia; reflexivity. Qed.

  Lemma curlH_raw_extB x y : veqB x y -> veqB (curlH_raw K sc x) (curlH_raw K sc y).
  Proof.
    intros H i j k Hi Hj Hk. unfold curlH_raw, dmx, dmy, dmz; cbn [vx vy vz].
    destruct (H i j k Hi Hj Hk) as (ex & ey & ez). rewrite ex, ey, ez.
    rewrite (prv_extB _ _ (fun a => vz x i a k) (fun a => vz y i a k) j Hj) by (intros q Hq; apply (H i q k Hi Hq Hk)).
    rewrite (prv_extB _ _ (fun a => vy x i j a) (fun a => vy y i j a) k Hk) by (intros q Hq; apply (H i j q Hi Hj Hq)).
    rewrite (prv_extB _ _ (fun a => vx x i j a) (fun a => vx y i j a) k Hk) by (intros q Hq; apply (H i j q Hi Hj Hq)).
    rewrite (prv_extB _ _ (fun a => vz x a j k) (fun a => vz y a j k) i Hi) by (intros q Hq; apply (H q j k Hq Hj Hk)).
    rewrite (prv_extB _ _ (fun a => vy x a j k) (fun a => vy y a j k) i Hi) by (intros q Hq; apply (H q j k Hq Hj Hk)).
    rewrite (prv_extB _ _ (fun a => vx x i a k) (fun a => vx y i a k) j Hj) by (intros q Hq; apply (H i q k Hi Hq Hk)).
    repeat split.
  Qed.
  Lemma curlE_raw_extB x y : veqB x y -> veqB (curlE_raw K sc x) (curlE_raw K sc y).
  Proof.
    intros H i j k Hi Hj Hk. unfold curlE_raw, dpx, dpy, dpz; cbn [vx vy vz].
    destruct (H i j k Hi Hj Hk) as (ex & ey & ez). rewrite ex, ey, ez.
    rewrite (nxt_extB _ _ (fun a => vz x i a k) (fun a => vz y i a k) j Hj) by (intros q Hq; apply (H i q k Hi Hq Hk)).
    rewrite (nxt_extB _ _ (fun a => vy x i j a) (fun a => vy y i j a) k Hk) by (intros q Hq; apply (H i j q Hi Hj Hq)).
    rewrite (nxt_extB _ _ (fun a => vx x i j a) (fun a => vx y i j a) k Hk) by (intros q Hq; apply (H i j q Hi Hj Hq)).
    rewrite (nxt_extB _ _ (fun a => vz x a j k) (fun a => vz y a j k) i Hi) by (intros q Hq; apply (H q j k Hq Hj Hk)).
    rewrite (nxt_extB _ _ (fun a => vy x a j k) (fun a => vy y a j k) i Hi) by (intros q Hq; apply (H q j k Hq Hj Hk)).
    rewrite (nxt_extB _ _ (fun a => vx x i a k) (fun a => vx y i a k) j Hj) by (intros q Hq; apply (H i q k Hi Hq Hk)).
    repeat split.
  Qed.
  Lemma stepE_extB J J' E E' H H' : veqB J J' -> veqB E E' -> veqB H H' -> veqB (stepE K sc J E H) (stepE K sc J' E' H').
  Proof.
    intros HJ HE HH i j k Hi Hj Hk. pose proof (curlH_raw_extB H H' HH i j k Hi Hj Hk) as (c1 & c2 & c3).
    destruct (HJ i j k Hi Hj Hk) as (j1 & j2 & j3). destruct (HE i j k Hi Hj Hk) as (e1 & e2 & e3).
    unfold stepE, vmask, vadd, vmap2, updE1; cbn [vx vy vz]. rewrite c1, c2, c3, j1, j2, j3, e1, e2, e3. repeat split.
  Qed.
  Lemma stepH_extB J J' E E' H H' : veqB J J' -> veqB E E' -> veqB H H' -> veqB (stepH K sc J E H) (stepH K sc J' E' H').
  Proof.
    intros HJ HE HH i j k Hi Hj Hk. pose proof (curlE_raw_extB E E' HE i j k Hi Hj Hk) as (c1 & c2 & c3).
    destruct (HJ i j k Hi Hj Hk) as (j1 & j2 & j3). destruct (HH i j k Hi Hj Hk) as (e1 & e2 & e3).
    unfold stepH, vmask, vadd, vmap2, updH1; cbn [vx vy vz]. rewrite c1, c2, c3, j1, j2, j3, e1, e2, e3. repeat split.
  Qed.
  Lemma veqB_trans x y z : veqB x y -> veqB y z -> veqB x z.
  Proof. intros H G i j k Hi Hj Hk; destruct (H i j k Hi Hj Hk) as (a & b & c); destruct (G i j k Hi Hj Hk) as (d & e & f); repeat split; congruence. Qed.
  Lemma veqB_refl x : veqB x x. Proof. intros i j k _ _ _; repeat split. Qed.
End BoxExt.

Section Tile1.
  (* one-axis reads of an array that is tiled along this axis and carries a factor c constant along it *)
  Variable K : Fld.
  Add Field KFt1 : (Fth K).
  Notation C := (C K).
  Variables (N m : nat) (phi psi c : C) (h : nat -> C).
  Hypothesis HN : (0 < N)%nat.
  Definition tl1 (a : nat) : C := cmul (cmul (cpow K phi (a / N)) c) (h (a mod N)).

  Lemma nxt_scale n hi (d : C) (g : nat -> C) i : nxt K n hi (fun a => cmul d (g a)) i = cmul d (nxt K n hi g i).
  Proof.
    unfold nxt. destruct (S i <? n); [reflexivity|].
    destruct hi, d, (g O). unfold cmul; cbn [fst snd]. f_equal; ring.
  Qed.
  Lemma prv_scale n lo (d : C) (g : nat -> C) i : prv K n lo (fun a => cmul d (g a)) i = cmul d (prv K n lo g i).
  Proof.
    unfold prv. destruct i; [|reflexivity].
    destruct lo, d, (g (n - 1)%nat). unfold cmul; cbn [fst snd]. f_equal; ring.
  Qed.

  Lemma tl1_tiled a : tl1 a = tiled K N phi (fun r => cmul c (h r)) a.
  Proof. unfold tl1, tiled. symmetry. apply cmul_assoc. Qed.

  Lemma nxt_tile1 i : (i < m * N)%nat ->
    nxt K (m * N) (cpow K phi m) tl1 i = cmul (cmul (cpow K phi (i / N)) c) (nxt K N phi h (i mod N)).
  Proof.
    intros Hi. rewrite (nxt_extA K _ _ tl1 (tiled K N phi (fun r => cmul c (h r))) i tl1_tiled).
    assert (Hq: (i / N < m)%nat) by (apply Nat.div_lt_upper_bound; lia).
    assert (Hr: (i mod N < N)%nat) by (apply Nat.mod_upper_bound; lia).
    pose proof (nxt_tiled K N m phi (fun r => cmul c (h r)) HN (i / N) (i mod N) Hq Hr) as T.
    replace (i / N * N + i mod N)%nat with i in T by (rewrite (Nat.div_mod i N) at 1 by lia; lia).
    rewrite T, nxt_scale. apply cmul_assoc.
  Qed.

  Hypothesis Hinv : m = 1%nat \/ cmul psi phi = c1.
  Lemma prv_tile1 i : (i < m * N)%nat ->
    prv K (m * N) (cpow K psi m) tl1 i = cmul (cmul (cpow K phi (i / N)) c) (prv K N psi h (i mod N)).
  Proof.
    intros Hi. destruct Hinv as [M1 | Hinv'].
    - subst m. assert (Hi' : (i < N)%nat) by lia.
      rewrite Nat.div_small, Nat.mod_small by exact Hi'. unfold prv. destruct i as [|i].
      + unfold tl1. replace (1 * N - 1)%nat with (N - 1)%nat by lia.
        rewrite Nat.div_small, Nat.mod_small by lia. cbn [cpow].
        destruct psi, c, (h (N - 1)%nat). unfold cmul, Cplx.c1; cbn [fst snd]. f_equal; ring.
      + unfold tl1. rewrite Nat.div_small, Nat.mod_small by lia. reflexivity.
    - rewrite (prv_extA K _ _ tl1 (tiled K N phi (fun r => cmul c (h r))) i tl1_tiled).
      assert (Hq: (i / N < m)%nat) by (apply Nat.div_lt_upper_bound; lia).
      assert (Hr: (i mod N < N)%nat) by (apply Nat.mod_upper_bound; lia).
      pose proof (prv_tiled K N m phi (fun r => cmul c (h r)) HN psi Hinv' (i / N) (i mod N) Hq Hr) as T.
      replace (i / N * N + i mod N)%nat with i in T by (rewrite (Nat.div_mod i N) at 1 by lia; lia).
      rewrite T, prv_scale. apply cmul_assoc.
  Qed.
End Tile1.

Section Tile3.
  Variable K : Fld.
  Add Field KFt3 : (Fth K).
  Notation C := (C K).
  Variable sc : scene K.
  Variables mx my mz : nat.
  Notation Nx := (nx K sc). Notation Ny := (ny K sc). Notation Nz := (nz K sc).
  Hypothesis HNx : (0 < Nx)%nat. Hypothesis HNy : (0 < Ny)%nat. Hypothesis HNz : (0 < Nz)%nat.
  Hypothesis Hx : mx = 1%nat \/ cmul (lox K sc) (hix K sc) = c1.
  Hypothesis Hy : my = 1%nat \/ cmul (loy K sc) (hiy K sc) = c1.
  Hypothesis Hz : mz = 1%nat \/ cmul (loz K sc) (hiz K sc) = c1.
  Hypothesis Hwx : mx = 1%nat \/ wx K sc (Nx - 1)%nat = wx K sc O.
  Hypothesis Hwy : my = 1%nat \/ wy K sc (Ny - 1)%nat = wy K sc O.
  Hypothesis Hwz : mz = 1%nat \/ wz K sc (Nz - 1)%nat = wz K sc O.

  Definition px (i : nat) : C := cpow K (hix K sc) (i / Nx).
  Definition py (j : nat) : C := cpow K (hiy K sc) (j / Ny).
  Definition pz (k : nat) : C := cpow K (hiz K sc) (k / Nz).
  Definition ph (i j k : nat) : C := cmul (px i) (cmul (py j) (pz k)).
  Definition TA (f : A3 K) : A3 K := fun i j k => cmul (ph i j k) (f (i mod Nx) (j mod Ny) (k mod Nz)).
  Definition TR (f : R3 K) : R3 K := fun i j k => f (i mod Nx) (j mod Ny) (k mod Nz).
  Definition TV (v : V3 K) : V3 K := mkV (TA (vx v)) (TA (vy v)) (TA (vz v)).
  Definition TM (m : M3 K) : M3 K := mkM (TR (m1 m)) (TR (m2 m)) (TR (m3 m)).
  Definition Tw (N : nat) (w : nat -> car K) : nat -> car K := fun i => w (i mod N).

  Definition Tscene : scene K :=
    mkScene K (mx * Nx) (my * Ny) (mz * Nz)
      (cpow K (hix K sc) mx) (cpow K (hiy K sc) my) (cpow K (hiz K sc) mz)
      (cpow K (lox K sc) mx) (cpow K (loy K sc) my) (cpow K (loz K sc) mz)
      (Tw Nx (wx K sc)) (Tw Ny (wy K sc)) (Tw Nz (wz K sc)) (rf K sc)
      (TM (ieps K sc)) (TM (imu K sc)) (TM (sigE K sc)) (TM (sigH K sc)) (eta0 K sc) (cn K sc)
      (TM (mE K sc)) (TM (mH K sc)) [] (fun t => TV (injE K sc t)) (fun t => TV (injH K sc t)).

  (* the three factorizations of the phase *)
  Lemma ph_x i j k : ph i j k = cmul (px i) (cmul (py j) (pz k)). Proof. reflexivity. Qed.
  Lemma ph_y i j k : ph i j k = cmul (py j) (cmul (px i) (pz k)).
  Proof. unfold ph. rewrite !cmul_assoc. f_equal. apply cmul_comm. Qed.
  Lemma ph_z i j k : ph i j k = cmul (pz k) (cmul (px i) (py j)).
  Proof. unfold ph. rewrite (cmul_comm K (pz k)). rewrite !cmul_assoc. reflexivity. Qed.

  (* dual widths across the seam *)
  Lemma dual_tile N m (w : nat -> car K) i : (0 < N)%nat -> (i < m * N)%nat -> (m = 1%nat \/ w (N - 1)%nat = w O) ->
    dual K (Tw N w) i = dual K w (i mod N).
  Proof.
    intros HN Hi Hw. unfold dual, Tw. f_equal. f_equal.
    destruct i as [|i]; [cbn [Nat.pred]; rewrite Nat.mod_small by lia; reflexivity|]. cbn [Nat.pred].
    destruct (Nat.eq_dec (S i mod N) 0) as [E|E].
    - rewrite E. cbn [Nat.pred].
      destruct Hw as [M1|Hw]; [subst m; rewrite Nat.mod_small in E by lia; discriminate|].
      rewrite <- Hw. f_equal.
      pose proof (Nat.div_mod (S i) N ltac:(lia)) as D. rewrite E in D.
      assert (S i / N <> 0)%nat by (intros Z; rewrite Z in D; lia).
      replace i with ((S i / N - 1) * N + (N - 1))%nat at 1 by nia.
      rewrite Nat.add_comm, Nat.mod_add by lia. apply Nat.mod_small; lia.
    - pose proof (Nat.div_mod (S i) N ltac:(lia)) as D.
      assert (i = N * (S i / N) + (S i mod N - 1))%nat by lia.
      f_equal. rewrite H at 1. rewrite Nat.mul_comm, Nat.add_comm, Nat.mod_add by lia.
      rewrite Nat.mod_small; [lia|]. pose proof (Nat.mod_upper_bound (S i) N ltac:(lia)). lia.
  Qed.

  Ltac cx := apply c_eq; unfold ph, cadd, csub, cscal, cdivr, cmul; cbn [fst snd]; rewrite ?(Fdiv_def (Fth K)); ring.

  Definition inB (i j k : nat) : Prop := (i < mx * Nx)%nat /\ (j < my * Ny)%nat /\ (k < mz * Nz)%nat.

  (* ---- forward differences ---- *)
  Lemma dpx_tile f i j k : (i < mx * Nx)%nat ->
    dpx K Tscene (TA f) i j k = cmul (ph i j k) (dpx K sc f (i mod Nx) (j mod Ny) (k mod Nz)).
  Proof.
    intros Hi. unfold dpx. cbn [nx hix wx Tscene rf]. unfold sf, Tw. cbn [rf Tscene].
    rewrite (nxt_extA K _ _ (fun a => TA f a j k) (tl1 K Nx (hix K sc) (cmul (py j) (pz k)) (fun a => f a (j mod Ny) (k mod Nz)))) by reflexivity.
    rewrite (nxt_tile1 K Nx mx (hix K sc) _ _ HNx i Hi). unfold TA. fold (px i). cx.
  Qed.
  Lemma dpy_tile f i j k : (j < my * Ny)%nat ->
    dpy K Tscene (TA f) i j k = cmul (ph i j k) (dpy K sc f (i mod Nx) (j mod Ny) (k mod Nz)).
  Proof.
    intros Hj. unfold dpy. cbn [ny hiy wy Tscene rf]. unfold sf, Tw. cbn [rf Tscene].
    rewrite (nxt_extA K _ _ (fun a => TA f i a k) (tl1 K Ny (hiy K sc) (cmul (px i) (pz k)) (fun a => f (i mod Nx) a (k mod Nz)))).
    2:{ intros q. unfold TA, tl1. rewrite ph_y. fold (py q). rewrite cmul_assoc. reflexivity. }
    rewrite (nxt_tile1 K Ny my (hiy K sc) _ _ HNy j Hj). unfold TA. fold (py j). cx.
  Qed.
  Lemma dpz_tile f i j k : (k < mz * Nz)%nat ->
    dpz K Tscene (TA f) i j k = cmul (ph i j k) (dpz K sc f (i mod Nx) (j mod Ny) (k mod Nz)).
  Proof.
    intros Hk. unfold dpz. cbn [nz hiz wz Tscene rf]. unfold sf, Tw. cbn [rf Tscene].
    rewrite (nxt_extA K _ _ (fun a => TA f i j a) (tl1 K Nz (hiz K sc) (cmul (px i) (py j)) (fun a => f (i mod Nx) (j mod Ny) a))).
    2:{ intros q. unfold TA, tl1. rewrite ph_z. fold (pz q). rewrite cmul_assoc. reflexivity. }
    rewrite (nxt_tile1 K Nz mz (hiz K sc) _ _ HNz k Hk). unfold TA. fold (pz k). cx.
  Qed.

  (* ---- backward differences ---- *)
  Lemma sb_tile N m w i : (0 < N)%nat -> (i < m * N)%nat -> (m = 1%nat \/ w (N - 1)%nat = w O) ->
    sb K Tscene (Tw N w) i = sb K sc w (i mod N).
  Proof. intros HN Hi Hw. unfold sb. cbn [rf Tscene]. rewrite (dual_tile N m w i HN Hi Hw). reflexivity. Qed.

  Lemma dmx_tile f i j k : (i < mx * Nx)%nat ->
    dmx K Tscene (TA f) i j k = cmul (ph i j k) (dmx K sc f (i mod Nx) (j mod Ny) (k mod Nz)).
  Proof.
    intros Hi. unfold dmx. cbn [nx lox wx Tscene]. rewrite (sb_tile Nx mx _ i HNx Hi Hwx).
    rewrite (prv_extA K _ _ (fun a => TA f a j k) (tl1 K Nx (hix K sc) (cmul (py j) (pz k)) (fun a => f a (j mod Ny) (k mod Nz)))) by reflexivity.
    rewrite (prv_tile1 K Nx mx (hix K sc) (lox K sc) _ _ HNx Hx i Hi). unfold TA. fold (px i). cx.
  Qed.
  Lemma dmy_tile f i j k : (j < my * Ny)%nat ->
    dmy K Tscene (TA f) i j k = cmul (ph i j k) (dmy K sc f (i mod Nx) (j mod Ny) (k mod Nz)).
  Proof.
    intros Hj. unfold dmy. cbn [ny loy wy Tscene]. rewrite (sb_tile Ny my _ j HNy Hj Hwy).
    rewrite (prv_extA K _ _ (fun a => TA f i a k) (tl1 K Ny (hiy K sc) (cmul (px i) (pz k)) (fun a => f (i mod Nx) a (k mod Nz)))).
    2:{ intros q. unfold TA, tl1. rewrite ph_y. fold (py q). rewrite cmul_assoc. reflexivity. }
    rewrite (prv_tile1 K Ny my (hiy K sc) (loy K sc) _ _ HNy Hy j Hj). unfold TA. fold (py j). cx.
  Qed.
  Lemma dmz_tile f i j k : (k < mz * Nz)%nat ->
    dmz K Tscene (TA f) i j k = cmul (ph i j k) (dmz K sc f (i mod Nx) (j mod Ny) (k mod Nz)).
  Proof.
    intros Hk. unfold dmz. cbn [nz loz wz Tscene]. rewrite (sb_tile Nz mz _ k HNz Hk Hwz).
    rewrite (prv_extA K _ _ (fun a => TA f i j a) (tl1 K Nz (hiz K sc) (cmul (px i) (py j)) (fun a => f (i mod Nx) (j mod Ny) a))).
    2:{ intros q. unfold TA, tl1. rewrite ph_z. fold (pz q). rewrite cmul_assoc. reflexivity. }
    rewrite (prv_tile1 K Nz mz (hiz K sc) (loz K sc) _ _ HNz Hz k Hk). unfold TA. fold (pz k). cx.
  Qed.

  (* ---- curls ---- *)
  Lemma curlE_tile E i j k : inB i j k ->
    vx (curlE_raw K Tscene (TV E)) i j k = cmul (ph i j k) (vx (curlE_raw K sc E) (i mod Nx) (j mod Ny) (k mod Nz)) /\
    vy (curlE_raw K Tscene (TV E)) i j k = cmul (ph i j k) (vy (curlE_raw K sc E) (i mod Nx) (j mod Ny) (k mod Nz)) /\
    vz (curlE_raw K Tscene (TV E)) i j k = cmul (ph i j k) (vz (curlE_raw K sc E) (i mod Nx) (j mod Ny) (k mod Nz)).
  Proof.
    intros (Hi & Hj & Hk). unfold curlE_raw, TV; cbn [vx vy vz].
    rewrite !dpx_tile, !dpy_tile, !dpz_tile by assumption. repeat split; cx.
  Qed.
  Lemma curlH_tile H i j k : inB i j k ->
    vx (curlH_raw K Tscene (TV H)) i j k = cmul (ph i j k) (vx (curlH_raw K sc H) (i mod Nx) (j mod Ny) (k mod Nz)) /\
    vy (curlH_raw K Tscene (TV H)) i j k = cmul (ph i j k) (vy (curlH_raw K sc H) (i mod Nx) (j mod Ny) (k mod Nz)) /\
    vz (curlH_raw K Tscene (TV H)) i j k = cmul (ph i j k) (vz (curlH_raw K sc H) (i mod Nx) (j mod Ny) (k mod Nz)).
  Proof.
    intros (Hi & Hj & Hk). unfold curlH_raw, TV; cbn [vx vy vz].
    rewrite !dmx_tile, !dmy_tile, !dmz_tile by assumption. repeat split; cx.
  Qed.

  (* ---- the two half steps on exactly tiled arguments ---- *)
  Lemma stepE_tile J E H i j k : inB i j k ->
    vx (stepE K Tscene (TV J) (TV E) (TV H)) i j k = vx (TV (stepE K sc J E H)) i j k /\
    vy (stepE K Tscene (TV J) (TV E) (TV H)) i j k = vy (TV (stepE K sc J E H)) i j k /\
    vz (stepE K Tscene (TV J) (TV E) (TV H)) i j k = vz (TV (stepE K sc J E H)) i j k.
  Proof.
    intros HB. destruct (curlH_tile H i j k HB) as (c1 & c2 & c3).
    unfold stepE, vmask, vadd, vmap2, updE1, fE1; cbn [vx vy vz ieps sigE mE Tscene cn eta0 TM m1 m2 m3].
    rewrite c1, c2, c3. unfold TV, TA, TR; cbn [vx vy vz]. repeat split; cx.
  Qed.
  Lemma stepH_tile J E H i j k : inB i j k ->
    vx (stepH K Tscene (TV J) (TV E) (TV H)) i j k = vx (TV (stepH K sc J E H)) i j k /\
    vy (stepH K Tscene (TV J) (TV E) (TV H)) i j k = vy (TV (stepH K sc J E H)) i j k /\
    vz (stepH K Tscene (TV J) (TV E) (TV H)) i j k = vz (TV (stepH K sc J E H)) i j k.
  Proof.
    intros HB. destruct (curlE_tile E i j k HB) as (c1 & c2 & c3).
    unfold stepH, vmask, vadd, vmap2, updH1, fH1; cbn [vx vy vz imu sigH mH Tscene cn eta0 TM m1 m2 m3].
    rewrite c1, c2, c3. unfold TV, TA, TR; cbn [vx vy vz]. repeat split; cx.
  Qed.


  (* ================= the fully anisotropic lossless tiers (model/YeeFull.v) ================= *)
  Definition TT (T : T9 K) : T9 K := fun r s => TR (T r s).
  Definition TTo (T : option (T9 K)) : option (T9 K) := match T with Some t => Some (TT t) | None => None end.
  Notation inBx := (inb K Tscene).

  (* one-cell shifts of a tiled array are the tiled shifts, on the big box *)
  Lemma shp_tile a f i j k : (a <= 2)%nat -> inB i j k -> shp K Tscene a (TA f) i j k = TA (shp K sc a f) i j k.
  Proof.
    intros Ha (Hi & Hj & Hk). destruct a as [|[|[|a]]]; [| | |lia]; cbn [shp nx ny nz hix hiy hiz Tscene].
    - rewrite (nxt_extA K _ _ (fun q => TA f q j k) (tl1 K Nx (hix K sc) (cmul (py j) (pz k)) (fun q => f q (j mod Ny) (k mod Nz)))) by reflexivity.
      rewrite (nxt_tile1 K Nx mx (hix K sc) _ _ HNx i Hi). reflexivity.
    - rewrite (nxt_extA K _ _ (fun q => TA f i q k) (tl1 K Ny (hiy K sc) (cmul (px i) (pz k)) (fun q => f (i mod Nx) q (k mod Nz)))).
      2:{ intros q. unfold TA, tl1. rewrite ph_y. fold (py q). rewrite cmul_assoc. reflexivity. }
      rewrite (nxt_tile1 K Ny my (hiy K sc) _ _ HNy j Hj). unfold TA. rewrite ph_y. fold (py j). rewrite cmul_assoc. reflexivity.
    - rewrite (nxt_extA K _ _ (fun q => TA f i j q) (tl1 K Nz (hiz K sc) (cmul (px i) (py j)) (fun q => f (i mod Nx) (j mod Ny) q))).
      2:{ intros q. unfold TA, tl1. rewrite ph_z. fold (pz q). rewrite cmul_assoc. reflexivity. }
      rewrite (nxt_tile1 K Nz mz (hiz K sc) _ _ HNz k Hk). unfold TA. rewrite ph_z. fold (pz k). rewrite cmul_assoc. reflexivity.
  Qed.
  Lemma shm_tile a f i j k : (a <= 2)%nat -> inB i j k -> shm K Tscene a (TA f) i j k = TA (shm K sc a f) i j k.
  Proof.
    intros Ha (Hi & Hj & Hk). destruct a as [|[|[|a]]]; [| | |lia]; cbn [shm nx ny nz lox loy loz Tscene].
    - rewrite (prv_extA K _ _ (fun q => TA f q j k) (tl1 K Nx (hix K sc) (cmul (py j) (pz k)) (fun q => f q (j mod Ny) (k mod Nz)))) by reflexivity.
      rewrite (prv_tile1 K Nx mx (hix K sc) (lox K sc) _ _ HNx Hx i Hi). reflexivity.
    - rewrite (prv_extA K _ _ (fun q => TA f i q k) (tl1 K Ny (hiy K sc) (cmul (px i) (pz k)) (fun q => f (i mod Nx) q (k mod Nz)))).
      2:{ intros q. unfold TA, tl1. rewrite ph_y. fold (py q). rewrite cmul_assoc. reflexivity. }
      rewrite (prv_tile1 K Ny my (hiy K sc) (loy K sc) _ _ HNy Hy j Hj). unfold TA. rewrite ph_y. fold (py j). rewrite cmul_assoc. reflexivity.
    - rewrite (prv_extA K _ _ (fun q => TA f i j q) (tl1 K Nz (hiz K sc) (cmul (px i) (py j)) (fun q => f (i mod Nx) (j mod Ny) q))).
      2:{ intros q. unfold TA, tl1. rewrite ph_z. fold (pz q). rewrite cmul_assoc. reflexivity. }
      rewrite (prv_tile1 K Nz mz (hiz K sc) (loz K sc) _ _ HNz Hz k Hk). unfold TA. rewrite ph_z. fold (pz k). rewrite cmul_assoc. reflexivity.
  Qed.
  Lemma inB_inb i j k : inB i j k <-> inBx i j k.
  Proof. unfold inB, inb. cbn [nx ny nz Tscene]. tauto. Qed.

  Lemma predw_tile N m (w : nat -> car K) i : (0 < N)%nat -> (i < m * N)%nat -> (m = 1%nat \/ w (N - 1)%nat = w O) ->
    Tw N w (Nat.pred i) = w (Nat.pred (i mod N)).
  Proof.
    intros HN Hi Hw. unfold Tw.
    destruct i as [|i]; [cbn [Nat.pred]; rewrite Nat.mod_small by lia; reflexivity|]. cbn [Nat.pred].
    destruct (Nat.eq_dec (S i mod N) 0) as [E|E].
    - rewrite E. cbn [Nat.pred].
      destruct Hw as [M1|Hw]; [subst m; rewrite Nat.mod_small in E by lia; discriminate|].
      rewrite <- Hw. f_equal.
      pose proof (Nat.div_mod (S i) N ltac:(lia)) as D. rewrite E in D.
      assert (S i / N <> 0)%nat by (intros Z; rewrite Z in D; lia).
      replace i with ((S i / N - 1) * N + (N - 1))%nat at 1 by nia.
      rewrite Nat.add_comm, Nat.mod_add by lia. apply Nat.mod_small; lia.
    - pose proof (Nat.div_mod (S i) N ltac:(lia)) as D.
      assert (i = N * (S i / N) + (S i mod N - 1))%nat by lia.
      f_equal. rewrite H at 1. rewrite Nat.mul_comm, Nat.add_comm, Nat.mod_add by lia.
      rewrite Nat.mod_small; [lia|]. pose proof (Nat.mod_upper_bound (S i) N ltac:(lia)). lia.
  Qed.
  (* the averaging weights of the tiled grid are the tiled weights (the width before cell 0 of a copy needs the seam hypothesis) *)
  Lemma wsel_tile c i j k : wsel K Tscene c i j k = wsel K sc c (i mod Nx) (j mod Ny) (k mod Nz).
  Proof. destruct c as [|[|c]]; reflexivity. Qed.
  Lemma pwsel_tile c i j k : inB i j k -> pwsel K Tscene c i j k = pwsel K sc c (i mod Nx) (j mod Ny) (k mod Nz).
  Proof.
    intros (Hi & Hj & Hk). destruct c as [|[|c]]; cbn [pwsel wx wy wz Tscene].
    - apply (predw_tile Nx mx _ i HNx Hi Hwx).
    - apply (predw_tile Ny my _ j HNy Hj Hwy).
    - apply (predw_tile Nz mz _ k HNz Hk Hwz).
  Qed.
  Ltac cxw := apply c_eq; unfold ph, wmix, half, cadd, csub, cscal, cdivr, cmul; cbn [fst snd]; rewrite ?(Fdiv_def (Fth K)); ring.

  Lemma avgE_tile f c l i j k : (c <= 2)%nat -> (l <= 2)%nat -> inB i j k ->
    avgE K Tscene (TA f) c l i j k = TA (avgE K sc f c l) i j k.
  Proof.
    intros Hc Hl HB. unfold avgE. rewrite (shp_tile l f i j k Hl HB), (shm_tile c f i j k Hc HB).
    assert (E : aeq K Tscene (shm K Tscene c (TA f)) (TA (shm K sc c f))).
    { intros a b d Hb. apply shm_tile; [exact Hc | apply inB_inb; exact Hb]. }
    rewrite (shp_ext K Tscene l _ _ E i j k (proj1 (inB_inb i j k) HB)), (shp_tile l _ i j k Hl HB).
    rewrite (wsel_tile c i j k), (pwsel_tile c i j k HB).
    unfold TA, avgE. cbn [rf cn Tscene]. cxw.
  Qed.
  Lemma avgH_tile f c l i j k : (c <= 2)%nat -> (l <= 2)%nat -> inB i j k ->
    avgH K Tscene (TA f) c l i j k = TA (avgH K sc f c l) i j k.
  Proof.
    intros Hc Hl HB. unfold avgH. rewrite (shm_tile l f i j k Hl HB), (shp_tile c f i j k Hc HB).
    assert (E : aeq K Tscene (shp K Tscene c (TA f)) (TA (shp K sc c f))).
    { intros a b d Hb. apply shp_tile; [exact Hc | apply inB_inb; exact Hb]. }
    rewrite (shm_ext K Tscene l _ _ E i j k (proj1 (inB_inb i j k) HB)), (shm_tile l _ i j k Hl HB).
    rewrite (wsel_tile l i j k), (pwsel_tile l i j k HB).
    unfold TA, avgH. cxw.
  Qed.

  Lemma comp_TV v r : comp K (TV v) r = TA (comp K v r).
  Proof. destruct r as [|[|r]]; reflexivity. Qed.
  Lemma at_loc_tileE v r s i j k : (r <= 2)%nat -> (s <= 2)%nat -> inB i j k ->
    at_loc K (avgE K Tscene) (TV v) r s i j k = TA (at_loc K (avgE K sc) v r s) i j k.
  Proof.
    intros Hr Hs HB. unfold at_loc. destruct (Nat.eqb r s); rewrite comp_TV; [reflexivity | apply avgE_tile; assumption].
  Qed.
  Lemma at_loc_tileH v r s i j k : (r <= 2)%nat -> (s <= 2)%nat -> inB i j k ->
    at_loc K (avgH K Tscene) (TV v) r s i j k = TA (at_loc K (avgH K sc) v r s) i j k.
  Proof.
    intros Hr Hs HB. unfold at_loc. destruct (Nat.eqb r s); rewrite comp_TV; [reflexivity | apply avgH_tile; assumption].
  Qed.
  Lemma tvecE_tile T v i j k : inB i j k ->
    vx (tvec K Tscene (avgE K Tscene) (TT T) (TV v)) i j k = TA (vx (tvec K sc (avgE K sc) T v)) i j k /\
    vy (tvec K Tscene (avgE K Tscene) (TT T) (TV v)) i j k = TA (vy (tvec K sc (avgE K sc) T v)) i j k /\
    vz (tvec K Tscene (avgE K Tscene) (TT T) (TV v)) i j k = TA (vz (tvec K sc (avgE K sc) T v)) i j k.
  Proof.
    intros HB. unfold tvec, trow; cbn [vx vy vz cn Tscene]. unfold TT, TR.
    rewrite !at_loc_tileE by (lia || exact HB). unfold TA. repeat split; cx.
  Qed.
  Lemma tvecH_tile T v i j k : inB i j k ->
    vx (tvec K Tscene (avgH K Tscene) (TT T) (TV v)) i j k = TA (vx (tvec K sc (avgH K sc) T v)) i j k /\
    vy (tvec K Tscene (avgH K Tscene) (TT T) (TV v)) i j k = TA (vy (tvec K sc (avgH K sc) T v)) i j k /\
    vz (tvec K Tscene (avgH K Tscene) (TT T) (TV v)) i j k = TA (vz (tvec K sc (avgH K sc) T v)) i j k.
  Proof.
    intros HB. unfold tvec, trow; cbn [vx vy vz cn Tscene]. unfold TT, TR.
    rewrite !at_loc_tileH by (lia || exact HB). unfold TA. repeat split; cx.
  Qed.

  (* curls of tiled fields as box equalities of vector fields *)
  Lemma curlH_tileB H : veqB K Tscene (curlH_raw K Tscene (TV H)) (TV (curlH_raw K sc H)).
  Proof. intros i j k Hi Hj Hk. apply curlH_tile. repeat split; assumption. Qed.
  Lemma curlE_tileB E : veqB K Tscene (curlE_raw K Tscene (TV E)) (TV (curlE_raw K sc E)).
  Proof. intros i j k Hi Hj Hk. apply curlE_tile. repeat split; assumption. Qed.
  Lemma veqB_veq u v : veqB K Tscene u v -> veq_box K Tscene u v.
  Proof. intros H i j k (Hi & Hj & Hk). apply H; assumption. Qed.
  Lemma veq_veqB u v : veq_box K Tscene u v -> veqB K Tscene u v.
  Proof. intros H i j k Hi Hj Hk. apply H. repeat split; assumption. Qed.

  Lemma stepE_full_tile T J E H i j k : inB i j k ->
    vx (stepE_full K Tscene (TT T) (TV J) (TV E) (TV H)) i j k = vx (TV (stepE_full K sc T J E H)) i j k /\
    vy (stepE_full K Tscene (TT T) (TV J) (TV E) (TV H)) i j k = vy (TV (stepE_full K sc T J E H)) i j k /\
    vz (stepE_full K Tscene (TT T) (TV J) (TV E) (TV H)) i j k = vz (TV (stepE_full K sc T J E H)) i j k.
  Proof.
    intros HB.
    destruct (tvec_ext K Tscene (avgE K Tscene) (TT T) _ _ (avgE_ext K Tscene) (veqB_veq _ _ (curlH_tileB H)) i j k (proj1 (inB_inb i j k) HB)) as (a1 & a2 & a3).
    destruct (tvecE_tile T (curlH_raw K sc H) i j k HB) as (b1 & b2 & b3).
    unfold stepE_full, vmask, vadd, vmap2; cbn [vx vy vz mE Tscene TM m1 m2 m3]. rewrite a1, a2, a3, b1, b2, b3.
    unfold TV, TA, TR; cbn [vx vy vz]. repeat split; cx.
  Qed.
  Lemma stepH_full_tile T J E H i j k : inB i j k ->
    vx (stepH_full K Tscene (TT T) (TV J) (TV E) (TV H)) i j k = vx (TV (stepH_full K sc T J E H)) i j k /\
    vy (stepH_full K Tscene (TT T) (TV J) (TV E) (TV H)) i j k = vy (TV (stepH_full K sc T J E H)) i j k /\
    vz (stepH_full K Tscene (TT T) (TV J) (TV E) (TV H)) i j k = vz (TV (stepH_full K sc T J E H)) i j k.
  Proof.
    intros HB.
    destruct (tvec_ext K Tscene (avgH K Tscene) (TT T) _ _ (avgH_ext K Tscene) (veqB_veq _ _ (curlE_tileB E)) i j k (proj1 (inB_inb i j k) HB)) as (a1 & a2 & a3).
    destruct (tvecH_tile T (curlE_raw K sc E) i j k HB) as (b1 & b2 & b3).
    unfold stepH_full, vmask, vadd, vsub, vmap2; cbn [vx vy vz mH Tscene TM m1 m2 m3]. rewrite a1, a2, a3, b1, b2, b3.
    unfold TV, TA, TR; cbn [vx vy vz]. repeat split; cx.
  Qed.

  (* box extensionality of the full half steps on the supercell *)
  Lemma stepE_full_extB T J J' E E' H H' : veqB K Tscene J J' -> veqB K Tscene E E' -> veqB K Tscene H H' ->
    veqB K Tscene (stepE_full K Tscene T J E H) (stepE_full K Tscene T J' E' H').
  Proof.
    intros HJ HE HH i j k Hi Hj Hk. assert (Hb : inBx i j k) by (repeat split; assumption).
    destruct (tvec_ext K Tscene (avgE K Tscene) T _ _ (avgE_ext K Tscene) (veqB_veq _ _ (curlH_raw_extB K Tscene H H' HH)) i j k Hb) as (t1 & t2 & t3).
    destruct (HJ i j k Hi Hj Hk) as (j1 & j2 & j3). destruct (HE i j k Hi Hj Hk) as (e1 & e2 & e3).
    unfold stepE_full, vmask, vadd, vmap2; cbn [vx vy vz]. rewrite t1, t2, t3, j1, j2, j3, e1, e2, e3. repeat split.
  Qed.
  Lemma stepH_full_extB T J J' E E' H H' : veqB K Tscene J J' -> veqB K Tscene E E' -> veqB K Tscene H H' ->
    veqB K Tscene (stepH_full K Tscene T J E H) (stepH_full K Tscene T J' E' H').
  Proof.
    intros HJ HE HH i j k Hi Hj Hk. assert (Hb : inBx i j k) by (repeat split; assumption).
    destruct (tvec_ext K Tscene (avgH K Tscene) T _ _ (avgH_ext K Tscene) (veqB_veq _ _ (curlE_raw_extB K Tscene E E' HE)) i j k Hb) as (t1 & t2 & t3).
    destruct (HJ i j k Hi Hj Hk) as (j1 & j2 & j3). destruct (HH i j k Hi Hj Hk) as (e1 & e2 & e3).
    unfold stepH_full, vmask, vadd, vsub, vmap2; cbn [vx vy vz]. rewrite t1, t2, t3, j1, j2, j3, e1, e2, e3. repeat split.
  Qed.

  Hypothesis Hpml : pmls K sc = [].

  (* the supercell state agrees with the tiled unit-cell state on the big box *)
  Definition tiles (S s : state K) : Prop :=
    veqB K Tscene (fE S) (TV (fE s)) /\ veqB K Tscene (fH S) (TV (fH s)) /\ tstep S = tstep s.

  Theorem forward_tiles S s : tiles S s -> tiles (forward K Tscene S) (forward K sc s).
  Proof.
    intros (HE & HH & HT).
    destruct (forward_steps K sc Hpml s) as (e & h & t).
    destruct (forward_steps K Tscene eq_refl S) as (e' & h' & t').
    assert (A : veqB K Tscene (fE (forward K Tscene S)) (TV (fE (forward K sc s)))).
    { rewrite e', e. cbn [injE Tscene]. rewrite HT.
      eapply veqB_trans; [apply (stepE_extB K Tscene _ (TV (injE K sc (tstep s))) _ (TV (fE s)) _ (TV (fH s))); [apply veqB_refl | exact HE | exact HH]|].
      intros i j k Hi Hj Hk. apply stepE_tile. repeat split; assumption. }
    split; [exact A|]. split.
    - rewrite h', h. cbn [injH Tscene]. rewrite HT.
      eapply veqB_trans; [apply (stepH_extB K Tscene _ (TV (injH K sc (tstep s))) _ (TV (fE (forward K sc s))) _ (TV (fH s))); [apply veqB_refl | exact A | exact HH]|].
      intros i j k Hi Hj Hk. apply stepH_tile. repeat split; assumption.
    - rewrite t', t, HT. reflexivity.
  Qed.

  Fixpoint iterT (s0 : scene K) (n : nat) (st : state K) : state K := match n with O => st | S p => iterT s0 p (forward K s0 st) end.
  Theorem forward_tiles_n n : forall S s, tiles S s -> tiles (iterT Tscene n S) (iterT sc n s).
  Proof. induction n as [|n IH]; intros S s H; [exact H|]. cbn [iterT]. apply IH, forward_tiles, H. Qed.

  (* the supercell statement for the full tiers: tiled tensors TT T on the supercell *)
  Theorem forward_full_tiles ie9 im9 S s : tiles S s -> tiles (forward_full K Tscene (TTo ie9) (TTo im9) S) (forward_full K sc ie9 im9 s).
  Proof.
    intros (HE & HH & HT).
    destruct (forward_full_steps K sc Hpml ie9 im9 s) as (e & h & t).
    destruct (forward_full_steps K Tscene eq_refl (TTo ie9) (TTo im9) S) as (e' & h' & t').
    assert (A : veqB K Tscene (fE (forward_full K Tscene (TTo ie9) (TTo im9) S)) (TV (fE (forward_full K sc ie9 im9 s)))).
    { rewrite e', e. cbn [injE Tscene]. rewrite HT. destruct ie9 as [T|]; cbn [TTo stepE_gen].
      - eapply veqB_trans; [apply (stepE_full_extB (TT T) _ (TV (injE K sc (tstep s))) _ (TV (fE s)) _ (TV (fH s))); [apply veqB_refl | exact HE | exact HH]|].
        intros i j k Hi Hj Hk. apply stepE_full_tile. repeat split; assumption.
      - eapply veqB_trans; [apply (stepE_extB K Tscene _ (TV (injE K sc (tstep s))) _ (TV (fE s)) _ (TV (fH s))); [apply veqB_refl | exact HE | exact HH]|].
        intros i j k Hi Hj Hk. apply stepE_tile. repeat split; assumption. }
    split; [exact A|]. split.
    - rewrite h', h. cbn [injH Tscene]. rewrite HT. destruct im9 as [T|]; cbn [TTo stepH_gen].
      + eapply veqB_trans; [apply (stepH_full_extB (TT T) _ (TV (injH K sc (tstep s))) _ (TV (fE (forward_full K sc ie9 (Some T) s))) _ (TV (fH s))); [apply veqB_refl | exact A | exact HH]|].
        intros i j k Hi Hj Hk. apply stepH_full_tile. repeat split; assumption.
      + eapply veqB_trans; [apply (stepH_extB K Tscene _ (TV (injH K sc (tstep s))) _ (TV (fE (forward_full K sc ie9 None s))) _ (TV (fH s))); [apply veqB_refl | exact A | exact HH]|].
        intros i j k Hi Hj Hk. apply stepH_tile. repeat split; assumption.
    - rewrite t', t, HT. reflexivity.
  Qed.
  Fixpoint iterTF (s0 : scene K) (e m : option (T9 K)) (n : nat) (st : state K) : state K :=
    match n with O => st | S p => iterTF s0 e m p (forward_full K s0 e m st) end.
  Theorem forward_full_tiles_n ie9 im9 n : forall S s, tiles S s -> tiles (iterTF Tscene (TTo ie9) (TTo im9) n S) (iterTF sc ie9 im9 n s).
  Proof. induction n as [|n IH]; intros S s H; [exact H|]. cbn [iterTF]. apply IH, forward_full_tiles, H. Qed.
  (* ================= the conductive fully anisotropic tiers (model/YeeFull.v forward_lossy) ================= *)
  Definition TTp (e : option (T9 K * T9 K)) : option (T9 K * T9 K) := match e with Some (T, sg) => Some (TT T, TT sg) | None => None end.
  (* the update matrices of the tiled material are the tiled update matrices (per-cell algebra; Courant number and impedance are shared) *)
  Lemma lossy_A_tile etaf T sg : lossy_A K Tscene etaf (TT T) (TT sg) = TT (lossy_A K sc etaf T sg).
  Proof. reflexivity. Qed.
  Lemma lossy_B_tile etaf T sg : lossy_B K Tscene etaf (TT T) (TT sg) = TT (lossy_B K sc etaf T sg).
  Proof. reflexivity. Qed.
  Lemma tvec1_ext_box avg T u v : (forall f g c l, aeq K Tscene f g -> aeq K Tscene (avg f c l) (avg g c l)) -> veq_box K Tscene u v ->
    veq_box K Tscene (tvec1 K avg T u) (tvec1 K avg T v).
  Proof.
    intros Havg H i j k Hb.
    assert (L : forall r s, at_loc K avg u r s i j k = at_loc K avg v r s i j k).
    { intros r s. unfold at_loc. destruct (Nat.eqb r s); [apply (comp_ext K Tscene u v r H i j k Hb) | apply (Havg _ _ s r (comp_ext K Tscene u v s H) i j k Hb)]. }
    unfold tvec1, trow1; cbn [vx vy vz]. rewrite !L. repeat split.
  Qed.
  Lemma tvec1E_tile T v i j k : inB i j k ->
    vx (tvec1 K (avgE K Tscene) (TT T) (TV v)) i j k = TA (vx (tvec1 K (avgE K sc) T v)) i j k /\
    vy (tvec1 K (avgE K Tscene) (TT T) (TV v)) i j k = TA (vy (tvec1 K (avgE K sc) T v)) i j k /\
    vz (tvec1 K (avgE K Tscene) (TT T) (TV v)) i j k = TA (vz (tvec1 K (avgE K sc) T v)) i j k.
  Proof.
    intros HB. unfold tvec1, trow1; cbn [vx vy vz]. unfold TT, TR.
    rewrite !at_loc_tileE by (lia || exact HB). unfold TA. repeat split; cx.
  Qed.
  Lemma tvec1H_tile T v i j k : inB i j k ->
    vx (tvec1 K (avgH K Tscene) (TT T) (TV v)) i j k = TA (vx (tvec1 K (avgH K sc) T v)) i j k /\
    vy (tvec1 K (avgH K Tscene) (TT T) (TV v)) i j k = TA (vy (tvec1 K (avgH K sc) T v)) i j k /\
    vz (tvec1 K (avgH K Tscene) (TT T) (TV v)) i j k = TA (vz (tvec1 K (avgH K sc) T v)) i j k.
  Proof.
    intros HB. unfold tvec1, trow1; cbn [vx vy vz]. unfold TT, TR.
    rewrite !at_loc_tileH by (lia || exact HB). unfold TA. repeat split; cx.
  Qed.
  Lemma stepE_AB_extB A B J J' E E' H H' : veqB K Tscene J J' -> veqB K Tscene E E' -> veqB K Tscene H H' ->
    veqB K Tscene (stepE_AB K Tscene A B J E H) (stepE_AB K Tscene A B J' E' H').
  Proof.
    intros HJ HE HH i j k Hi Hj Hk. assert (Hb : inBx i j k) by (repeat split; assumption).
    destruct (tvec1_ext_box (avgE K Tscene) A _ _ (avgE_ext K Tscene) (veqB_veq _ _ HE) i j k Hb) as (a1 & a2 & a3).
    destruct (tvec1_ext_box (avgE K Tscene) B _ _ (avgE_ext K Tscene) (veqB_veq _ _ (curlH_raw_extB K Tscene H H' HH)) i j k Hb) as (t1 & t2 & t3).
    destruct (HJ i j k Hi Hj Hk) as (j1 & j2 & j3).
    unfold stepE_AB, vmask, vadd, vmap2; cbn [vx vy vz]. rewrite a1, a2, a3, t1, t2, t3, j1, j2, j3. repeat split.
  Qed.
  Lemma stepH_AB_extB A B J J' E E' H H' : veqB K Tscene J J' -> veqB K Tscene E E' -> veqB K Tscene H H' ->
    veqB K Tscene (stepH_AB K Tscene A B J E H) (stepH_AB K Tscene A B J' E' H').
  Proof.
    intros HJ HE HH i j k Hi Hj Hk. assert (Hb : inBx i j k) by (repeat split; assumption).
    destruct (tvec1_ext_box (avgH K Tscene) A _ _ (avgH_ext K Tscene) (veqB_veq _ _ HH) i j k Hb) as (a1 & a2 & a3).
    destruct (tvec1_ext_box (avgH K Tscene) B _ _ (avgH_ext K Tscene) (veqB_veq _ _ (curlE_raw_extB K Tscene E E' HE)) i j k Hb) as (t1 & t2 & t3).
    destruct (HJ i j k Hi Hj Hk) as (j1 & j2 & j3).
    unfold stepH_AB, vmask, vadd, vsub, vmap2; cbn [vx vy vz]. rewrite a1, a2, a3, t1, t2, t3, j1, j2, j3. repeat split.
  Qed.
  Lemma stepE_AB_tile A B J E H i j k : inB i j k ->
    vx (stepE_AB K Tscene (TT A) (TT B) (TV J) (TV E) (TV H)) i j k = vx (TV (stepE_AB K sc A B J E H)) i j k /\
    vy (stepE_AB K Tscene (TT A) (TT B) (TV J) (TV E) (TV H)) i j k = vy (TV (stepE_AB K sc A B J E H)) i j k /\
    vz (stepE_AB K Tscene (TT A) (TT B) (TV J) (TV E) (TV H)) i j k = vz (TV (stepE_AB K sc A B J E H)) i j k.
  Proof.
    intros HB.
    destruct (tvec1_ext_box (avgE K Tscene) (TT B) _ _ (avgE_ext K Tscene) (veqB_veq _ _ (curlH_tileB H)) i j k (proj1 (inB_inb i j k) HB)) as (a1 & a2 & a3).
    destruct (tvec1E_tile B (curlH_raw K sc H) i j k HB) as (b1 & b2 & b3).
    destruct (tvec1E_tile A E i j k HB) as (c1' & c2' & c3').
    unfold stepE_AB, vmask, vadd, vmap2; cbn [vx vy vz mE Tscene TM m1 m2 m3]. rewrite a1, a2, a3, b1, b2, b3, c1', c2', c3'.
    unfold TV, TA, TR; cbn [vx vy vz]. repeat split; cx.
  Qed.
  Lemma stepH_AB_tile A B J E H i j k : inB i j k ->
    vx (stepH_AB K Tscene (TT A) (TT B) (TV J) (TV E) (TV H)) i j k = vx (TV (stepH_AB K sc A B J E H)) i j k /\
    vy (stepH_AB K Tscene (TT A) (TT B) (TV J) (TV E) (TV H)) i j k = vy (TV (stepH_AB K sc A B J E H)) i j k /\
    vz (stepH_AB K Tscene (TT A) (TT B) (TV J) (TV E) (TV H)) i j k = vz (TV (stepH_AB K sc A B J E H)) i j k.
  Proof.
    intros HB.
    destruct (tvec1_ext_box (avgH K Tscene) (TT B) _ _ (avgH_ext K Tscene) (veqB_veq _ _ (curlE_tileB E)) i j k (proj1 (inB_inb i j k) HB)) as (a1 & a2 & a3).
    destruct (tvec1H_tile B (curlE_raw K sc E) i j k HB) as (b1 & b2 & b3).
    destruct (tvec1H_tile A H i j k HB) as (c1' & c2' & c3').
    unfold stepH_AB, vmask, vadd, vsub, vmap2; cbn [vx vy vz mH Tscene TM m1 m2 m3]. rewrite a1, a2, a3, b1, b2, b3, c1', c2', c3'.
    unfold TV, TA, TR; cbn [vx vy vz]. repeat split; cx.
  Qed.

  Theorem forward_lossy_tiles e m S s : tiles S s -> tiles (forward_lossy K Tscene (TTp e) (TTp m) S) (forward_lossy K sc e m s).
  Proof.
    intros (HE & HH & HT).
    destruct (forward_lossy_steps K sc Hpml e m s) as (he & hh & t).
    destruct (forward_lossy_steps K Tscene eq_refl (TTp e) (TTp m) S) as (he' & hh' & t').
    assert (A : veqB K Tscene (fE (forward_lossy K Tscene (TTp e) (TTp m) S)) (TV (fE (forward_lossy K sc e m s)))).
    { rewrite he', he. cbn [injE Tscene]. rewrite HT. destruct e as [[T sg]|]; cbn [TTp tierE].
      - rewrite lossy_A_tile, lossy_B_tile. cbn [eta0 Tscene].
        eapply veqB_trans; [apply (stepE_AB_extB _ _ _ (TV (injE K sc (tstep s))) _ (TV (fE s)) _ (TV (fH s))); [apply veqB_refl | exact HE | exact HH]|].
        intros i j k Hi Hj Hk. apply stepE_AB_tile. repeat split; assumption.
      - eapply veqB_trans; [apply (stepE_extB K Tscene _ (TV (injE K sc (tstep s))) _ (TV (fE s)) _ (TV (fH s))); [apply veqB_refl | exact HE | exact HH]|].
        intros i j k Hi Hj Hk. apply stepE_tile. repeat split; assumption. }
    split; [exact A|]. split.
    - rewrite hh', hh. cbn [injH Tscene]. rewrite HT. destruct m as [[T sg]|]; cbn [TTp tierH].
      + rewrite lossy_A_tile, lossy_B_tile. cbn [eta0 Tscene].
        eapply veqB_trans; [apply (stepH_AB_extB _ _ _ (TV (injH K sc (tstep s))) _ (TV (fE (forward_lossy K sc e (Some (T, sg)) s))) _ (TV (fH s))); [apply veqB_refl | exact A | exact HH]|].
        intros i j k Hi Hj Hk. apply stepH_AB_tile. repeat split; assumption.
      + eapply veqB_trans; [apply (stepH_extB K Tscene _ (TV (injH K sc (tstep s))) _ (TV (fE (forward_lossy K sc e None s))) _ (TV (fH s))); [apply veqB_refl | exact A | exact HH]|].
        intros i j k Hi Hj Hk. apply stepH_tile. repeat split; assumption.
    - rewrite t', t, HT. reflexivity.
  Qed.
  Fixpoint iterTL (s0 : scene K) (e m : option (T9 K * T9 K)) (n : nat) (st : state K) : state K :=
    match n with O => st | S p => iterTL s0 e m p (forward_lossy K s0 e m st) end.
  Theorem forward_lossy_tiles_n e m n : forall S s, tiles S s -> tiles (iterTL Tscene (TTp e) (TTp m) n S) (iterTL sc e m n s).
  Proof. induction n as [|n IH]; intros S s H; [exact H|]. cbn [iterTL]. apply IH, forward_lossy_tiles, H. Qed.
End Tile3.
