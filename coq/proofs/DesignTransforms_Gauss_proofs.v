(* DesignTransforms_Gauss_proofs.v — C22: the padded, normalised-kernel convolution of GaussianSmoothing2D is
   linear in (design, paddings), fixes constants, is a convex combination (range) and commutes with mirroring. *)
From Coq Require Import List Arith Bool Lia Field Ring.
From FV Require Import base.Scalar base.Sums base.DesignTransformsBase base.DesignTransformsOrd
  model.DesignTransforms_Sym model.DesignTransforms_Gauss proofs.DesignTransforms_Sym_proofs.
Import ListNotations.
Local Open Scope fld_scope.

Lemma ppos_mid P n r i : ppos_of P n r = Mid i -> (i < n)%nat /\ i = (r - P)%nat /\ (P <= r)%nat.
Proof. unfold ppos_of. destruct (Nat.ltb_spec r P) as [A|A]; [discriminate|]. destruct (Nat.ltb_spec r (P + n)) as [B|B]; [|discriminate].
  intros E; injection E as <-. lia. Qed.

Ltac ppos_cases :=
  unfold ppos_of; repeat match goal with |- context [(?a <? ?b)%nat] => destruct (Nat.ltb_spec a b) end; try lia.

Section GaussF.
  Variable K : Fld.
  Add Field KFgauss : (Fth K).
  Notation F := (car K).
  Variable g : nat -> nat -> F.
  Variable P : nat.
  Variables nx ny : nat.
  Hypothesis nx_pos : (0 < nx)%nat.
  Hypothesis ny_pos : (0 < ny)%nat.

  (* ---------- every padded entry is an entry of the design or of a padding array that is in use ---------- *)
  Lemma pad1_ind (Q : F -> Prop) pd x :
    (forall i j, (i < nx)%nat -> (j < ny)%nat -> Q (x i j)) ->
    (use_l0 K pd = true -> forall j, (j < ny)%nat -> Q (l0 K pd j)) ->
    (use_h0 K pd = true -> forall j, (j < ny)%nat -> Q (h0 K pd j)) ->
    (use_l1 K pd = true -> forall i, (i < nx)%nat -> Q (l1 K pd i)) ->
    (use_h1 K pd = true -> forall i, (i < nx)%nat -> Q (h1 K pd i)) ->
    forall r c, Q (pad1 K P nx ny pd x r c).
  Proof. intros Hx Hl0 Hh0 Hl1 Hh1 r c.
    assert (H0 : forall r j, (j < ny)%nat -> Q (pad0 K P nx pd x r j)).
    { intros r' j Hj. unfold pad0. destruct (ppos_of P nx r') as [|i|] eqn:E.
      - destruct (use_l0 K pd) eqn:U; [apply Hl0; auto | apply Hx; lia].
      - apply ppos_mid in E. apply Hx; [lia | exact Hj].
      - destruct (use_h0 K pd) eqn:U; [apply Hh0; auto | apply Hx; lia]. }
    assert (He : forall p, (forall i, (i < nx)%nat -> Q (p i)) -> forall r, Q (extended K P nx p r)).
    { intros p Hp r'. unfold extended. destruct (ppos_of P nx r') as [|i|] eqn:E; try (apply Hp; lia).
      apply ppos_mid in E. apply Hp; lia. }
    unfold pad1. destruct (ppos_of P ny c) as [|j|] eqn:E.
    - destruct (use_l1 K pd) eqn:U; [apply He; apply Hl1; reflexivity | apply H0; lia].
    - apply ppos_mid in E. apply H0; lia.
    - destruct (use_h1 K pd) eqn:U; [apply He; apply Hh1; reflexivity | apply H0; lia]. Qed.

  (* ---------- linearity in (design, paddings) ---------- *)
  Definition pads_comb (c d : F) (p q : pads K) : pads K :=
    {| use_l0 := use_l0 K p; l0 := fun j => c * l0 K p j + d * l0 K q j;
       use_h0 := use_h0 K p; h0 := fun j => c * h0 K p j + d * h0 K q j;
       use_l1 := use_l1 K p; l1 := fun i => c * l1 K p i + d * l1 K q i;
       use_h1 := use_h1 K p; h1 := fun i => c * h1 K p i + d * h1 K q i |}.
  Definition same_flags (p q : pads K) : Prop :=
    use_l0 K p = use_l0 K q /\ use_h0 K p = use_h0 K q /\ use_l1 K p = use_l1 K q /\ use_h1 K p = use_h1 K q.

  Lemma pad1_linear c d p q x y r cc : same_flags p q ->
    pad1 K P nx ny (pads_comb c d p q) (fun i j => c * x i j + d * y i j) r cc
    = c * pad1 K P nx ny p x r cc + d * pad1 K P nx ny q y r cc.
  Proof. intros [E1 [E2 [E3 E4]]]. unfold pad1, pad0, extended, pads_comb; cbn.
    rewrite <- E1, <- E2, <- E3, <- E4.
    destruct (ppos_of P ny cc); destruct (ppos_of P nx r);
      destruct (use_l0 K p), (use_h0 K p), (use_l1 K p), (use_h1 K p); reflexivity. Qed.

  Theorem smooth_linear c d p q x y i j : same_flags p q ->
    smooth K g P nx ny (pads_comb c d p q) (fun i j => c * x i j + d * y i j) i j
    = c * smooth K g P nx ny p x i j + d * smooth K g P nx ny q y i j.
  Proof. intros Hf. unfold smooth, smooth_k.
    rewrite <- !(sumn_scal K). rewrite <- (sumn_add K). apply sumn_ext; intros a _.
    rewrite <- !(sumn_scal K). rewrite <- (sumn_add K). apply sumn_ext; intros b _.
    rewrite (pad1_linear c d p q x y _ _ Hf). ring. Qed.

  (* affine in the design for fixed paddings *)
  Theorem smooth_affine lam p x y i j :
    smooth K g P nx ny p (fun i j => lam * x i j + (1 - lam) * y i j) i j
    = lam * smooth K g P nx ny p x i j + (1 - lam) * smooth K g P nx ny p y i j.
  Proof. rewrite <- (smooth_linear lam (1 - lam) p p x y i j) by (repeat split).
    unfold smooth, smooth_k. apply sumn_ext; intros a _. apply sumn_ext; intros b _. f_equal.
    unfold pad1, pad0, extended, pads_comb; cbn.
    destruct (ppos_of P ny _); destruct (ppos_of P nx _);
      destruct (use_l0 K p), (use_h0 K p), (use_l1 K p), (use_h1 K p); ring. Qed.

  (* ---------- constants ---------- *)
  Hypothesis gsum_nz : gsum K g P <> 0.

  Lemma smooth_alt pd x i j :
    smooth K g P nx ny pd x i j
    = sumn (ksize P) (fun a => sumn (ksize P) (fun b => g a b * pad1 K P nx ny pd x (i + 2 * P - a) (j + 2 * P - b))) / gsum K g P.
  Proof. unfold smooth, smooth_k, kern.
    replace (sumn (ksize P) (fun a => sumn (ksize P) (fun b => g a b * pad1 K P nx ny pd x (i + 2 * P - a) (j + 2 * P - b))) / gsum K g P)
      with (/ gsum K g P * sumn (ksize P) (fun a => sumn (ksize P) (fun b => g a b * pad1 K P nx ny pd x (i + 2 * P - a) (j + 2 * P - b))))
      by (field; exact gsum_nz).
    rewrite <- (sumn_scal K). apply sumn_ext; intros a _. rewrite <- (sumn_scal K). apply sumn_ext; intros b _.
    field. exact gsum_nz. Qed.

  Definition all_entries (Q : F -> Prop) (pd : pads K) (x : nat -> nat -> F) : Prop :=
    (forall i j, (i < nx)%nat -> (j < ny)%nat -> Q (x i j)) /\
    (use_l0 K pd = true -> forall j, (j < ny)%nat -> Q (l0 K pd j)) /\
    (use_h0 K pd = true -> forall j, (j < ny)%nat -> Q (h0 K pd j)) /\
    (use_l1 K pd = true -> forall i, (i < nx)%nat -> Q (l1 K pd i)) /\
    (use_h1 K pd = true -> forall i, (i < nx)%nat -> Q (h1 K pd i)).

  Theorem smooth_const c pd x i j : all_entries (fun v => v = c) pd x -> smooth K g P nx ny pd x i j = c.
  Proof. intros [H1 [H2 [H3 [H4 H5]]]]. rewrite smooth_alt.
    rewrite (sumn_ext K (ksize P) _ (fun a => c * sumn (ksize P) (fun b => g a b))).
    - rewrite (sumn_scal K). fold (gsum K g P). field. exact gsum_nz.
    - intros a _. rewrite <- (sumn_scal K). apply sumn_ext; intros b _.
      rewrite (pad1_ind (fun v => v = c) pd x H1 H2 H3 H4 H5). ring. Qed.

  (* ---------- mirroring ---------- *)
  Definition pads_m0 (p : pads K) : pads K :=
    {| use_l0 := use_h0 K p; l0 := h0 K p; use_h0 := use_l0 K p; h0 := l0 K p;
       use_l1 := use_l1 K p; l1 := fun i => l1 K p (nx - 1 - i)%nat;
       use_h1 := use_h1 K p; h1 := fun i => h1 K p (nx - 1 - i)%nat |}.
  Definition pads_m1 (p : pads K) : pads K :=
    {| use_l0 := use_l0 K p; l0 := fun j => l0 K p (ny - 1 - j)%nat;
       use_h0 := use_h0 K p; h0 := fun j => h0 K p (ny - 1 - j)%nat;
       use_l1 := use_h1 K p; l1 := h1 K p; use_h1 := use_l1 K p; h1 := l1 K p |}.

  Lemma pad0_m0 p x r j : (r < nx + 2 * P)%nat ->
    pad0 K P nx (pads_m0 p) (fun i j => x (nx - 1 - i)%nat j) r j = pad0 K P nx p x (nx + 2 * P - 1 - r)%nat j.
  Proof. intros Hr. unfold pad0, pads_m0; cbn. ppos_cases; try reflexivity;
    repeat match goal with |- context [if ?b then _ else _] => destruct b end; try reflexivity; f_equal; lia. Qed.
  Lemma extended_m0 (l : nat -> F) r : (r < nx + 2 * P)%nat ->
    extended K P nx (fun i => l (nx - 1 - i)%nat) r = extended K P nx l (nx + 2 * P - 1 - r)%nat.
  Proof. intros Hr. unfold extended. ppos_cases; f_equal; lia. Qed.
  Lemma pad1_m0 p x r c : (r < nx + 2 * P)%nat ->
    pad1 K P nx ny (pads_m0 p) (fun i j => x (nx - 1 - i)%nat j) r c = pad1 K P nx ny p x (nx + 2 * P - 1 - r)%nat c.
  Proof. intros Hr. unfold pad1. destruct (ppos_of P ny c); rewrite ?pad0_m0 by exact Hr; cbn [use_l1 use_h1 l1 h1 pads_m0];
    rewrite ?extended_m0 by exact Hr; reflexivity. Qed.

  Theorem smooth_mirror0 p x i j : (forall a b, (a <= 2 * P)%nat -> g (2 * P - a)%nat b = g a b) -> (i < nx)%nat ->
    smooth K g P nx ny (pads_m0 p) (fun i j => x (nx - 1 - i)%nat j) i j = smooth K g P nx ny p x (nx - 1 - i)%nat j.
  Proof. intros Hg Hi. unfold smooth at 2. unfold smooth_k.
    rewrite <- (sumn_rev K (ksize P)). unfold smooth, smooth_k. apply sumn_ext; intros a Ha. unfold ksize in Ha.
    apply sumn_ext; intros b _. rewrite pad1_m0 by lia. unfold kern.
    replace (ksize P - 1 - a)%nat with (2 * P - a)%nat by (unfold ksize; lia). rewrite Hg by lia.
    do 2 f_equal. lia. Qed.

  Lemma pad0_m1 p x r j : (j < ny)%nat ->
    pad0 K P nx (pads_m1 p) (fun i j => x i (ny - 1 - j)%nat) r j = pad0 K P nx p x r (ny - 1 - j)%nat.
  Proof. intros Hj. unfold pad0, pads_m1; cbn. destruct (ppos_of P nx r); reflexivity. Qed.
  Lemma pad1_m1 p x r c : (c < ny + 2 * P)%nat ->
    pad1 K P nx ny (pads_m1 p) (fun i j => x i (ny - 1 - j)%nat) r c = pad1 K P nx ny p x r (ny + 2 * P - 1 - c)%nat.
  Proof. intros Hc. unfold pad1. cbn [use_l1 use_h1 l1 h1 pads_m1].
    ppos_cases; rewrite ?pad0_m1 by lia;
    repeat match goal with |- context [if ?b then _ else _] => destruct b end; try reflexivity; f_equal; lia. Qed.

  Theorem smooth_mirror1 p x i j : (forall a b, (b <= 2 * P)%nat -> g a (2 * P - b)%nat = g a b) -> (j < ny)%nat ->
    smooth K g P nx ny (pads_m1 p) (fun i j => x i (ny - 1 - j)%nat) i j = smooth K g P nx ny p x i (ny - 1 - j)%nat.
  Proof. intros Hg Hj. unfold smooth, smooth_k. apply sumn_ext; intros a _.
    rewrite <- (sumn_rev K (ksize P) (fun b => kern K g P a b * pad1 K P nx ny p x (i + 2 * P - a) (ny - 1 - j + 2 * P - b))).
    apply sumn_ext; intros b Hb. unfold ksize in Hb. rewrite pad1_m1 by lia. unfold kern.
    replace (ksize P - 1 - b)%nat with (2 * P - b)%nat by (unfold ksize; lia). rewrite Hg by lia.
    do 2 f_equal. lia. Qed.
End GaussF.

(* ---------- range (ordered field) ---------- *)
Section GaussO.
  Variable K : OFld.
  Add Field KFgaussO : (Fth K).
  Notation F := (car K).
  Variable g : nat -> nat -> F.
  Variable P : nat.
  Variables nx ny : nat.
  Hypothesis nx_pos : (0 < nx)%nat.
  Hypothesis ny_pos : (0 < ny)%nat.
  Hypothesis g_nonneg : forall a b, (a < ksize P)%nat -> (b < ksize P)%nat -> 0 <= g a b.
  Hypothesis gsum_nz : gsum K g P <> 0.

  Theorem smooth_range lo hi pd x i j : all_entries K nx ny (fun v => lo <= v /\ v <= hi) pd x ->
    lo <= smooth K g P nx ny pd x i j /\ smooth K g P nx ny pd x i j <= hi.
  Proof. intros [H1 [H2 [H3 [H4 H5]]]]. rewrite (smooth_alt K g P nx ny gsum_nz).
    pose proof (pad1_ind K P nx ny nx_pos ny_pos (fun v => lo <= v /\ v <= hi) pd x H1 H2 H3 H4 H5) as Hp.
    apply div_bounds.
    - unfold gsum. apply sumn_nonneg; intros a Ha. apply sumn_nonneg; intros b Hb. apply g_nonneg; assumption.
    - exact gsum_nz.
    - unfold gsum. rewrite <- (sumn_scal K). apply sumn_le; intros a Ha.
      apply (wavg_bounds K (ksize P) (fun b => g a b) _ lo hi); [intros b Hb; apply g_nonneg; assumption | intros b Hb; apply Hp].
    - unfold gsum. rewrite <- (sumn_scal K). apply sumn_le; intros a Ha.
      apply (wavg_bounds K (ksize P) (fun b => g a b) _ lo hi); [intros b Hb; apply g_nonneg; assumption | intros b Hb; apply Hp]. Qed.
End GaussO.

(* ---------- transfer to the executed (list-level) function ---------- *)
Section GaussExec.
  Variable K : Fld.
  Notation F := (car K).

  Lemma vaxis_extent s v : vaxis s = Some v -> geti s v = 1%nat.
  Proof. destruct s as [[nx ny] nz]. unfold vaxis; cbn.
    destruct (Nat.eqb_spec nx 1); [intros H; injection H as <-; assumption|].
    destruct (Nat.eqb_spec ny 1); [intros H; injection H as <-; assumption|].
    destruct (Nat.eqb_spec nz 1); [intros H; injection H as <-; assumption|]. discriminate. Qed.

  Lemma embed_inb s v i j : vaxis s = Some v ->
    (i < geti s (fst (plane_axes v)))%nat -> (j < geti s (snd (plane_axes v)))%nat ->
    inb s (embed (fst (plane_axes v)) (snd (plane_axes v)) i j).
  Proof. intros Hv Hi Hj. pose proof (vaxis_extent s v Hv) as E. destruct s as [[nx ny] nz].
    destruct v; unfold inb, embed, seti, geti in *; cbn in *; lia. Qed.

  Lemma embed_proj s v p : vaxis s = Some v -> inb s p ->
    embed (fst (plane_axes v)) (snd (plane_axes v)) (geti p (fst (plane_axes v))) (geti p (snd (plane_axes v))) = p.
  Proof. intros Hv Hp. pose proof (vaxis_extent s v Hv) as E. destruct s as [[nx ny] nz], p as [[i j] k].
    destruct v; unfold inb, embed, seti, geti in *; cbn in *; repeat f_equal; lia. Qed.

  Definition pad_all (Q : F -> Prop) (p : option (list F)) : Prop := forall l, p = Some l -> Forall Q l.

  (* what [gauss_exec] returns: defined exactly under the listed conditions, and each entry is [smooth] *)
  Theorem gauss_exec_spec gl std pl0 ph0 pl1 ph1 s l y :
    gauss_exec K gl std pl0 ph0 pl1 ph1 s l = Some y ->
    exists v, vaxis s = Some v /\
      let a := fst (plane_axes v) in let b := snd (plane_axes v) in
      std <> 0%nat /\ shape2 (ksize (3 * std)) (ksize (3 * std)) gl /\
      pad_len_ok K pl0 (geti s b) = true /\ pad_len_ok K ph0 (geti s b) = true /\
      pad_len_ok K pl1 (geti s a) = true /\ pad_len_ok K ph1 (geti s a) = true /\
      shape3i K s y /\
      forall p, inb s p ->
        get3i K y p = smooth K (get2 0 gl) (3 * std) (geti s a) (geti s b) (mk_pads K pl0 ph0 pl1 ph1)
                        (fun i j => get3i K l (embed a b i j)) (geti p a) (geti p b).
  Proof. unfold gauss_exec. destruct (vaxis s) as [v|] eqn:Hv; [|discriminate]. destruct (plane_axes v) as [a b] eqn:Hab.
    destruct (negb (std =? 0)%nat && _ && _ && _ && _ && _) eqn:C; [|discriminate].
    intros H; injection H as <-. exists v. split; [reflexivity|]. cbv zeta. rewrite Hab. cbn [fst snd].
    repeat (apply andb_true_iff in C; destruct C as [C ?]).
    apply negb_true_iff in C. apply Nat.eqb_neq in C.
    split; [exact C|]. split; [apply shape2b_spec; assumption|].
    do 4 (split; [assumption|]). split; [apply tab3i_shape|].
    intros p Hp. rewrite (get3i_tab3i) by exact Hp. unfold smooth, smooth_k.
    apply sumn_ext; intros a' Ha. apply sumn_ext; intros b' Hb. rewrite get2_tab2 by assumption. reflexivity.
  Qed.
End GaussExec.

Section GaussExec2.
  Variable K : Fld.
  Add Field KFgauss2 : (Fth K).
  Notation F := (car K).

  Lemma pad_entry (Q : F -> Prop) p n : pad_len_ok K p n = true -> pad_all K Q p ->
    fst (opt_pad K p) = true -> forall j, (j < n)%nat -> Q (snd (opt_pad K p) j).
  Proof. destruct p as [l|]; cbn; [|discriminate]. intros Hl Ha _ j Hj. apply Nat.eqb_eq in Hl.
    specialize (Ha l eq_refl). rewrite Forall_forall in Ha. apply Ha. unfold get1. apply nth_In. lia. Qed.

  Lemma exec_all_entries (Q : F -> Prop) pl0 ph0 pl1 ph1 s v l :
    vaxis s = Some v ->
    pad_len_ok K pl0 (geti s (snd (plane_axes v))) = true -> pad_len_ok K ph0 (geti s (snd (plane_axes v))) = true ->
    pad_len_ok K pl1 (geti s (fst (plane_axes v))) = true -> pad_len_ok K ph1 (geti s (fst (plane_axes v))) = true ->
    (forall p, inb s p -> Q (get3i K l p)) ->
    pad_all K Q pl0 -> pad_all K Q ph0 -> pad_all K Q pl1 -> pad_all K Q ph1 ->
    all_entries K (geti s (fst (plane_axes v))) (geti s (snd (plane_axes v))) Q (mk_pads K pl0 ph0 pl1 ph1)
      (fun i j => get3i K l (embed (fst (plane_axes v)) (snd (plane_axes v)) i j)).
  Proof. intros Hv L1 L2 L3 L4 Hx A1 A2 A3 A4. unfold all_entries, mk_pads; cbn.
    split; [intros i j Hi Hj; apply Hx; apply embed_inb; assumption|].
    split; [apply pad_entry; assumption|]. split; [apply pad_entry; assumption|].
    split; apply pad_entry; assumption. Qed.

  Theorem gauss_exec_const gl std pl0 ph0 pl1 ph1 s l y c :
    gauss_exec K gl std pl0 ph0 pl1 ph1 s l = Some y ->
    gsum K (get2 0 gl) (3 * std) <> 0 ->
    (forall p, inb s p -> get3i K l p = c) ->
    pad_all K (fun v => v = c) pl0 -> pad_all K (fun v => v = c) ph0 ->
    pad_all K (fun v => v = c) pl1 -> pad_all K (fun v => v = c) ph1 ->
    forall p, inb s p -> get3i K y p = c.
  Proof. intros H Hg Hx A1 A2 A3 A4 p Hp. apply gauss_exec_spec in H. destruct H as [v [Hv H]]. cbv zeta in H.
    destruct H as [_ [_ [L1 [L2 [L3 [L4 [_ Hy]]]]]]]. rewrite (Hy p Hp).
    assert (Hp' := Hp). destruct Hp' as [B1 [B2 B3]].
    apply (smooth_const K); try assumption.
    - destruct s as [[? ?] ?], p as [[? ?] ?]; destruct v; cbn in *; lia.
    - destruct s as [[? ?] ?], p as [[? ?] ?]; destruct v; cbn in *; lia.
    - apply exec_all_entries; assumption. Qed.
End GaussExec2.

Section GaussExecO.
  Variable K : OFld.
  Add Field KFgaussO2 : (Fth K).
  Notation F := (car K).

  Lemma get2_forall (Q : F -> Prop) n m (gl : list (list F)) a b : shape2 n m gl -> Forall (Forall Q) gl ->
    (a < n)%nat -> (b < m)%nat -> Q (get2 0 gl a b).
  Proof. intros [Hl Hs] Hq Ha Hb. unfold get2. rewrite Forall_forall in Hq, Hs.
    assert (Hin : In (nth a gl []) gl) by (apply nth_In; lia).
    specialize (Hq _ Hin). specialize (Hs _ Hin). unfold shape1 in Hs. rewrite Forall_forall in Hq. apply Hq. apply nth_In. lia. Qed.

  Theorem gauss_exec_range gl std pl0 ph0 pl1 ph1 s l y lo hi :
    gauss_exec K gl std pl0 ph0 pl1 ph1 s l = Some y ->
    Forall (Forall (fun v => 0 <= v)) gl -> gsum K (get2 0 gl) (3 * std) <> 0 ->
    (forall p, inb s p -> lo <= get3i K l p /\ get3i K l p <= hi) ->
    pad_all K (fun v => lo <= v /\ v <= hi) pl0 -> pad_all K (fun v => lo <= v /\ v <= hi) ph0 ->
    pad_all K (fun v => lo <= v /\ v <= hi) pl1 -> pad_all K (fun v => lo <= v /\ v <= hi) ph1 ->
    forall p, inb s p -> lo <= get3i K y p /\ get3i K y p <= hi.
  Proof. intros H Hn Hg Hx A1 A2 A3 A4 p Hp. apply gauss_exec_spec in H. destruct H as [v [Hv H]]. cbv zeta in H.
    destruct H as [_ [Hs [L1 [L2 [L3 [L4 [_ Hy]]]]]]]. rewrite (Hy p Hp).
    assert (Hp' := Hp). destruct Hp' as [B1 [B2 B3]].
    apply (smooth_range K); try assumption.
    - destruct s as [[? ?] ?], p as [[? ?] ?]; destruct v; cbn in *; lia.
    - destruct s as [[? ?] ?], p as [[? ?] ?]; destruct v; cbn in *; lia.
    - intros a b Ha Hb. apply (get2_forall (fun v => 0 <= v) _ _ gl a b Hs Hn Ha Hb).
    - apply (exec_all_entries K (fun v => lo <= v /\ v <= hi)); assumption. Qed.
End GaussExecO.
