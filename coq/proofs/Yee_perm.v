(* Yee_perm.v — C08: the (PML-free) forward step of model/Yee.v is equivariant under the cyclic relabelling of
   the axes x -> y -> z -> x.  After the relabelling the new x axis is the old z axis, so an array f becomes
   (P f) i j k = f j k i and a vector field (vx, vy, vz) becomes (P vz, P vx, P vy). *)
From Coq Require Import List Arith.
From FV Require Import base.Scalar base.Cplx model.Yee proofs.Yee_steps.
Import ListNotations.

Section Perm.
  Variable K : Fld.
  Definition P {X} (f : nat -> nat -> nat -> X) : nat -> nat -> nat -> X := fun i j k => f j k i.
  Definition PV (v : V3 K) : V3 K := mkV (P (vz v)) (P (vx v)) (P (vy v)).
  Definition PM (m : M3 K) : M3 K := mkM (P (m3 m)) (P (m1 m)) (P (m2 m)).
  Definition Pscene (sc : scene K) : scene K :=
    mkScene K (nz K sc) (nx K sc) (ny K sc) (hiz K sc) (hix K sc) (hiy K sc) (loz K sc) (lox K sc) (loy K sc)
      (wz K sc) (wx K sc) (wy K sc) (rf K sc) (PM (ieps K sc)) (PM (imu K sc)) (PM (sigE K sc)) (PM (sigH K sc))
      (eta0 K sc) (cn K sc) (PM (mE K sc)) (PM (mH K sc)) [] (fun t => PV (injE K sc t)) (fun t => PV (injH K sc t)).
  Definition Pstate (s : state K) : state K := mkSt (tstep s) (PV (fE s)) (PV (fH s)) (psiE s) (psiH s).

  Variable sc : scene K.
  Lemma stepE_perm J E H : stepE K (Pscene sc) (PV J) (PV E) (PV H) = PV (stepE K sc J E H).
  Proof. reflexivity. Qed.
  Lemma stepH_perm J E H : stepH K (Pscene sc) (PV J) (PV E) (PV H) = PV (stepH K sc J E H).
  Proof. reflexivity. Qed.

  Hypothesis Hpml : pmls K sc = [].
  Theorem forward_perm s :
    fE (forward K (Pscene sc) (Pstate s)) = PV (fE (forward K sc s)) /\
    fH (forward K (Pscene sc) (Pstate s)) = PV (fH (forward K sc s)) /\
    tstep (forward K (Pscene sc) (Pstate s)) = tstep (forward K sc s).
  Proof.
    destruct (forward_steps K sc Hpml s) as (e & h & t).
    destruct (forward_steps K (Pscene sc) eq_refl (Pstate s)) as (e' & h' & t').
    assert (A: fE (forward K (Pscene sc) (Pstate s)) = PV (fE (forward K sc s))).
    { rewrite e', e. cbn [fE fH tstep Pstate injE Pscene]. apply stepE_perm. }
    split; [exact A|]. split.
    - rewrite h', A, h. cbn [fE fH tstep Pstate injH Pscene]. apply stepH_perm.
    - rewrite t', t. reflexivity.
  Qed.
  Fixpoint iterP (s0 : scene K) (n : nat) (st : state K) : state K := match n with O => st | S m => iterP s0 m (forward K s0 st) end.

  (* any number of steps, from any state of the relabelled scene whose fields are the relabelled fields *)
  Theorem forward_perm_n n : forall s s',
    fE s' = PV (fE s) -> fH s' = PV (fH s) -> tstep s' = tstep s ->
    fE (iterP (Pscene sc) n s') = PV (fE (iterP sc n s)) /\ fH (iterP (Pscene sc) n s') = PV (fH (iterP sc n s)) /\
    tstep (iterP (Pscene sc) n s') = tstep (iterP sc n s).
  Proof.
    induction n as [|n IH]; intros s s' HE HH HT; [repeat split; assumption|].
    cbn [iterP]. apply IH.
    - destruct (forward_steps K sc Hpml s) as (e & h & t). destruct (forward_steps K (Pscene sc) eq_refl s') as (e' & h' & t').
      rewrite e', e, HE, HH, HT. cbn [injE Pscene]. apply stepE_perm.
    - destruct (forward_steps K sc Hpml s) as (e & h & t). destruct (forward_steps K (Pscene sc) eq_refl s') as (e' & h' & t').
      rewrite h', h, e', e, HE, HH, HT. cbn [injE injH Pscene]. rewrite stepE_perm. apply stepH_perm.
    - destruct (forward_steps K sc Hpml s) as (e & h & t). destruct (forward_steps K (Pscene sc) eq_refl s') as (e' & h' & t').
      rewrite t', t, HT. reflexivity.
  Qed.
End Perm.
