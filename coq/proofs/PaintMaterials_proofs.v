(* PaintMaterials_proofs.v — lemmas about model/PaintMaterials.v (C39). *)
From Coq Require Import ZArith List Bool Field Ring Lia Permutation.
From FV Require Import base.Scalar base.PaintBase model.PaintMaterials.
Import ListNotations.

Section MaterialsProofs.
Variable K : OFld.
Variable rel : K.
Add Field KFm : (Fth K).
Local Open Scope fld_scope.
Notation T9 := (T9 K). Notation Mat := (Mat K). Notation PyVal := (PyVal K).

(* ---------- normalisation: the four input forms ---------- *)
Definition tensor (a b c d e f g h i : PyVal) : NormResult K := NOk [a; b; c; d; e; f; g; h; i].
Definition Z0 : PyVal := PFloat (0 : K).

(* a scalar float x, the 3-tuple (x,x,x), the 9-tuple diag(x,x,x) and the nested 3x3 diag(x,x,x)
   all normalise to (x,0,0,0,x,0,0,0,x) *)
Lemma normalize_isotropic_forms (x : K) :
  let X := PFloat x in
  normalize K X = tensor X Z0 Z0 Z0 X Z0 Z0 Z0 X /\
  normalize K (PTuple [X; X; X]) = tensor X Z0 Z0 Z0 X Z0 Z0 Z0 X /\
  normalize K (PTuple [X; Z0; Z0; Z0; X; Z0; Z0; Z0; X]) = tensor X Z0 Z0 Z0 X Z0 Z0 Z0 X /\
  normalize K (PTuple [PTuple [X; Z0; Z0]; PTuple [Z0; X; Z0]; PTuple [Z0; Z0; X]]) = tensor X Z0 Z0 Z0 X Z0 Z0 Z0 X.
Proof. cbv zeta. repeat split; reflexivity. Qed.

(* an int scalar is accepted and broadcast (a 3-tuple of ints is NOT: see normalize_int_triple_rejected) *)
Lemma normalize_int_scalar (n : Z) :
  normalize K (PInt n) = tensor (PInt n) Z0 Z0 Z0 (PInt n) Z0 Z0 Z0 (PInt n).
Proof. reflexivity. Qed.
Lemma normalize_int_triple_rejected (a b c : Z) : normalize K (PTuple [PInt a; PInt b; PInt c]) = NValueError.
Proof. reflexivity. Qed.

(* the float 3-tuple (a,b,c), the 9-tuple diag(a,b,c) and the nested diag(a,b,c) agree *)
Lemma normalize_diagonal_forms (a b c : K) :
  let A := PFloat a in let B := PFloat b in let C := PFloat c in
  normalize K (PTuple [A; B; C]) = tensor A Z0 Z0 Z0 B Z0 Z0 Z0 C /\
  normalize K (PTuple [A; Z0; Z0; Z0; B; Z0; Z0; Z0; C]) = tensor A Z0 Z0 Z0 B Z0 Z0 Z0 C /\
  normalize K (PTuple [PTuple [A; Z0; Z0]; PTuple [Z0; B; Z0]; PTuple [Z0; Z0; C]]) = tensor A Z0 Z0 Z0 B Z0 Z0 Z0 C.
Proof. cbv zeta. repeat split; reflexivity. Qed.

(* the flat 9-tuple and the nested 3x3 tuple agree for every nine entries (row-major) *)
Lemma normalize_full_forms (a b c d e f g h i : PyVal) :
  normalize K (PTuple [a; b; c; d; e; f; g; h; i]) = tensor a b c d e f g h i /\
  normalize K (PTuple [PTuple [a; b; c]; PTuple [d; e; f]; PTuple [g; h; i]]) = tensor a b c d e f g h i.
Proof. split; reflexivity. Qed.

(* tuples of any other length are rejected *)
Lemma normalize_bad_length (l : list PyVal) : length l <> 3%nat -> length l <> 9%nat -> normalize K (PTuple l) = NValueError.
Proof.
  intros H3 H9. unfold normalize.
  destruct l as [|a [|b [|c [|d l]]]]; try reflexivity; try (exfalso; apply H3; reflexivity).
  destruct (Nat.eqb (length (a :: b :: c :: d :: l)) 9) eqn:E; [apply Nat.eqb_eq in E; contradiction | reflexivity].
Qed.

(* ---------- predicates ---------- *)
Lemma feqb_refl (x : K) : feqb K x x = true.
Proof. unfold feqb. assert (H : fleb K x x = true) by (apply (fleb_spec K), (fle_refl K)). rewrite H. reflexivity. Qed.
Lemma isclose_refl (x : K) : isclose K rel x x = true.
Proof. unfold isclose. rewrite feqb_refl. reflexivity. Qed.

(* the normal forms satisfy the predicates *)
Lemma diag_is_diagonal a b c : is_diagonal K rel (t9_diag K a b c) = true.
Proof. unfold is_diagonal, offdiag_zero, t9_diag. cbn [t1 t2 t3 t5 t6 t7]. rewrite isclose_refl. reflexivity. Qed.
Lemma scalar_is_isotropic x : is_isotropic K rel (t9_diag K x x x) = true.
Proof.
  unfold is_isotropic. fold (is_diagonal K rel (t9_diag K x x x)). rewrite diag_is_diagonal.
  unfold t9_diag. cbn [t0 t4 t8]. rewrite isclose_refl. reflexivity.
Qed.
Lemma isotropic_implies_diagonal p : is_isotropic K rel p = true -> is_diagonal K rel p = true.
Proof. unfold is_isotropic, is_diagonal. intros H. apply andb_prop in H. apply H. Qed.
Lemma diag_isotropic_iff a b c :
  is_isotropic K rel (t9_diag K a b c) = isclose K rel a b && isclose K rel b c.
Proof.
  unfold is_isotropic. fold (is_diagonal K rel (t9_diag K a b c)). rewrite diag_is_diagonal.
  unfold t9_diag. cbn [t0 t4 t8]. rewrite andb_true_r. reflexivity.
Qed.
Lemma identity_not_magnetic m : m_mu K m = t9_diag K 1 1 1 -> is_magnetic K rel m = false.
Proof. intros E. unfold is_magnetic. rewrite E. unfold t9_diag. cbn [t0 t1 t2 t3 t4 t5 t6 t7 t8]. rewrite !isclose_refl. reflexivity. Qed.
Lemma zero_not_conductive m : m_sige K m = t9_diag K 0 0 0 -> is_econductive K rel m = false.
Proof. intros E. unfold is_econductive, all_close_zero. rewrite E. unfold t9_diag, t9_list. cbn. rewrite !isclose_refl. reflexivity. Qed.

(* ---------- one common order ---------- *)
Section Order.
Variable N : Type.
Lemma names_and_materials_aligned (mats : list (N * Mat)) :
  combine (ordered_names K mats) (ordered_materials K mats) = ordered_tuples K mats.
Proof.
  unfold ordered_names, ordered_materials. induction (ordered_tuples K mats) as [|[n m] r IH]; cbn; [reflexivity | f_equal; exact IH].
Qed.
Lemma allowed_in_common_order (prop : Mat -> T9) (mats : list (N * Mat)) iso diag :
  allowed K prop mats iso diag = map (fun m => components K iso diag (prop m)) (ordered_materials K mats).
Proof. unfold allowed, ordered_materials. rewrite map_map. reflexivity. Qed.
Lemma ordered_is_permutation (mats : list (N * Mat)) : Permutation mats (ordered_tuples K mats).
Proof. apply isort_perm. Qed.
(* stability: materials with equal sort keys keep their dictionary (insertion) order *)
Lemma key_le_refl k : key_le K k k = true.
Proof.
  destruct k as [[[a b] c] d]. unfold key_le, fltb.
  assert (R : forall x : K, fleb K x x = true) by (intros x; apply (fleb_spec K), (fle_refl K)).
  rewrite !R. reflexivity.
Qed.
Lemma ordered_is_stable (mats : list (N * Mat)) (k : K * K * K * K) (keyb : K * K * K * K -> bool) :
  (forall k', keyb k' = true -> k' = k) ->
  filter (fun o => keyb (mkey K (snd o))) (ordered_tuples K mats) = filter (fun o => keyb (mkey K (snd o))) mats.
Proof.
  intros Hk. apply isort_stable. intros x y Hx Hy. unfold named_le.
  rewrite (Hk _ Hx), (Hk _ Hy). apply key_le_refl.
Qed.
End Order.

(* ---------- from_complex_permittivity ---------- *)
Lemma t9_map_map (f g : K -> K) (p : T9) : (forall x, f (g x) = x) -> t9_map K f (t9_map K g p) = p.
Proof. intros H. destruct p. unfold t9_map. cbn. rewrite !H. reflexivity. Qed.

Theorem from_complex_reproduces tol9 two_pi c0 eps0 mu0 r eps_re eps_im mu_re mu_im m :
  from_complex K tol9 two_pi c0 eps0 mu0 r eps_re eps_im mu_re mu_im = MOk K m ->
  let w := resolve_omega K two_pi c0 r in
  w * eps0 <> 0 -> w * mu0 <> 0 ->
  complex_eps_at K eps0 w m = (eps_re, eps_im) /\ complex_mu_at K mu0 w m = (mu_re, mu_im).
Proof.
  unfold from_complex. destruct (singular K tol9 eps_re || singular K tol9 mu_re); [discriminate|].
  intros E; inversion E; subst; clear E. cbv zeta. intros He Hm.
  unfold complex_eps_at, complex_mu_at. cbn [m_eps m_mu m_sige m_sigm].
  set (w := resolve_omega K two_pi c0 r) in *.
  assert (Q : forall d x : K, d <> 0 -> d * x / d = x) by (intros d x Hd; field; exact Hd).
  split; f_equal; apply t9_map_map; intros x; apply Q; assumption.
Qed.
End MaterialsProofs.

(* the conjunctions stated in props/C39.v *)
Lemma rejections_all (K : OFld) :
  (forall l : list (PyVal K), length l <> 3%nat -> length l <> 9%nat -> normalize K (PTuple l) = NValueError) /\
  (forall a b c : Z, normalize K (PTuple [@PInt K a; PInt b; PInt c]) = NValueError) /\
  (forall n : Z, normalize K (@PInt K n) = tensor K (PInt n) (Z0 K) (Z0 K) (Z0 K) (PInt n) (Z0 K) (Z0 K) (Z0 K) (PInt n)).
Proof. exact (conj (normalize_bad_length K) (conj (normalize_int_triple_rejected K) (normalize_int_scalar K))). Qed.

Lemma predicates_agree_all (K : OFld) (rel : K) :
  (forall x, is_isotropic K rel (t9_diag K x x x) = true) /\
  (forall a b c, is_diagonal K rel (t9_diag K a b c) = true) /\
  (forall a b c, is_isotropic K rel (t9_diag K a b c) = isclose K rel a b && isclose K rel b c) /\
  (forall p, is_isotropic K rel p = true -> is_diagonal K rel p = true) /\
  (forall m, m_mu K m = t9_diag K (f1 K) (f1 K) (f1 K) -> is_magnetic K rel m = false) /\
  (forall m, m_sige K m = t9_diag K (f0 K) (f0 K) (f0 K) -> is_econductive K rel m = false).
Proof.
  exact (conj (scalar_is_isotropic K rel) (conj (diag_is_diagonal K rel) (conj (diag_isotropic_iff K rel)
          (conj (isotropic_implies_diagonal K rel) (conj (identity_not_magnetic K rel) (zero_not_conductive K rel)))))).
Qed.

Lemma common_order_all (K : OFld) (N : Type) (mats : list (N * Mat K)) :
  combine (ordered_names K mats) (ordered_materials K mats) = ordered_tuples K mats /\
  (forall prop iso diag, allowed K prop mats iso diag = map (fun m => components K iso diag (prop m)) (ordered_materials K mats)) /\
  Permutation mats (ordered_tuples K mats) /\
  (forall k keyb, (forall k', keyb k' = true -> k' = k) ->
     filter (fun o => keyb (mkey K (snd o))) (ordered_tuples K mats) = filter (fun o => keyb (mkey K (snd o))) mats).
Proof.
  exact (conj (names_and_materials_aligned K N mats)
          (conj (fun prop iso diag => allowed_in_common_order K N prop mats iso diag)
          (conj (ordered_is_permutation K N mats) (ordered_is_stable K N mats)))).
Qed.
