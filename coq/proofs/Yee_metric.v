(* Yee_metric.v — C38: with equal cell widths along every axis (w = reference spacing) all metric factors of
   model/Yee.v are 1, so an explicit rectilinear / quasi-uniform description with equal spacings steps exactly
   like the uniform description (w = 1, reference 1). *)
From Coq Require Import List Arith Lia Field Ring.
From FV Require Import base.Scalar base.Cplx model.Yee proofs.Yee_steps.
Import ListNotations.
Local Open Scope fld_scope.

Section Metric.
  Variable K : Fld.
  Add Field KFm : (Fth K).
  Variable sc : scene K.
  Hypothesis Htwo : two K <> 0.
  Hypothesis Hrf : rf K sc <> 0.
  Hypothesis Hwx : forall i, wx K sc i = rf K sc.
  Hypothesis Hwy : forall i, wy K sc i = rf K sc.
  Hypothesis Hwz : forall i, wz K sc i = rf K sc.

  (* the same scene described by a uniform grid *)
  Definition unit_metric : scene K :=
    mkScene K (nx K sc) (ny K sc) (nz K sc) (hix K sc) (hiy K sc) (hiz K sc) (lox K sc) (loy K sc) (loz K sc)
      (fun _ => 1) (fun _ => 1) (fun _ => 1) 1 (ieps K sc) (imu K sc) (sigE K sc) (sigH K sc) (eta0 K sc) (cn K sc)
      (mE K sc) (mH K sc) (pmls K sc) (injE K sc) (injH K sc).

  Lemma sf_one w i : (forall q, w q = rf K sc) -> sf K sc w i = 1.
  Proof. intros H. unfold sf. rewrite H. field. exact Hrf. Qed.
  Lemma sb_one w i : (forall q, w q = rf K sc) -> sb K sc w i = 1.
  Proof.
    intros H. unfold sb.
    assert (D: dual K w i = rf K sc).
    { unfold dual. rewrite !H. unfold two in *. field. exact Htwo. }
    rewrite D. field. exact Hrf.
  Qed.
  Lemma sf_unit i : sf K unit_metric (fun _ => 1) i = 1.
  Proof. unfold sf; cbn. field. exact (F_1_neq_0 (Fth K)). Qed.
  Lemma sb_unit i : sb K unit_metric (fun _ => 1) i = 1.
  Proof.
    unfold sb. assert (D: dual K (fun _ : nat => f1 K) i = 1) by (unfold dual, two in *; field; exact Htwo).
    rewrite D. cbn. field. exact (F_1_neq_0 (Fth K)).
  Qed.

  Lemma curlE_metric E : veqA K (curlE_raw K sc E) (curlE_raw K unit_metric E).
  Proof.
    intros i j k. unfold curlE_raw, dpx, dpy, dpz; cbn [vx vy vz wx wy wz unit_metric nx ny nz hix hiy hiz].
    rewrite !(sf_one _ _ Hwx), !(sf_one _ _ Hwy), !(sf_one _ _ Hwz), !sf_unit. repeat split.
  Qed.
  Lemma curlH_metric H : veqA K (curlH_raw K sc H) (curlH_raw K unit_metric H).
  Proof.
    intros i j k. unfold curlH_raw, dmx, dmy, dmz; cbn [vx vy vz wx wy wz unit_metric nx ny nz lox loy loz].
    rewrite !(sb_one _ _ Hwx), !(sb_one _ _ Hwy), !(sb_one _ _ Hwz), !sb_unit. repeat split.
  Qed.

  Lemma stepE_metric J E H : veqA K (stepE K sc J E H) (stepE K unit_metric J E H).
  Proof.
    intros i j k. destruct (curlH_metric H i j k) as (c1 & c2 & c3).
    unfold stepE, vmask, vadd, vmap2, updE1, fE1; cbn [vx vy vz]. rewrite c1, c2, c3. repeat split.
  Qed.
  Lemma stepH_metric J E H : veqA K (stepH K sc J E H) (stepH K unit_metric J E H).
  Proof.
    intros i j k. destruct (curlE_metric E i j k) as (c1 & c2 & c3).
    unfold stepH, vmask, vadd, vmap2, updH1, fH1; cbn [vx vy vz]. rewrite c1, c2, c3. repeat split.
  Qed.

  Hypothesis Hpml : pmls K sc = [].
  Theorem forward_metric s s' : tstep s' = tstep s -> veqA K (fE s) (fE s') -> veqA K (fH s) (fH s') ->
    veqA K (fE (forward K sc s)) (fE (forward K unit_metric s')) /\ veqA K (fH (forward K sc s)) (fH (forward K unit_metric s')) /\
    tstep (forward K unit_metric s') = tstep (forward K sc s).
  Proof.
    intros HT HE HH.
    destruct (forward_steps K sc Hpml s) as (e & h & t). destruct (forward_steps K unit_metric Hpml s') as (e' & h' & t').
    assert (A: veqA K (fE (forward K sc s)) (fE (forward K unit_metric s'))).
    { rewrite e, e', HT. cbn [injE unit_metric].
      eapply veqA_trans; [apply stepE_metric|]. apply stepE_ext; [apply veqA_refl | exact HE | exact HH]. }
    split; [exact A|]. split; [|rewrite t, t', HT; reflexivity].
    rewrite h, h', HT. cbn [injH unit_metric].
    eapply veqA_trans; [apply stepH_metric|]. apply stepH_ext; [apply veqA_refl | exact A | exact HH].
  Qed.

  Fixpoint iterM (s0 : scene K) (n : nat) (st : state K) : state K := match n with O => st | S m => iterM s0 m (forward K s0 st) end.
  Theorem forward_metric_n n : forall s s', tstep s' = tstep s -> veqA K (fE s) (fE s') -> veqA K (fH s) (fH s') ->
    veqA K (fE (iterM sc n s)) (fE (iterM unit_metric n s')) /\ veqA K (fH (iterM sc n s)) (fH (iterM unit_metric n s')).
  Proof.
    induction n as [|n IH]; intros s s' HT HE HH; [split; assumption|].
    destruct (forward_metric s s' HT HE HH) as (A & B & C). cbn [iterM]. apply IH; assumption.
  Qed.
End Metric.
