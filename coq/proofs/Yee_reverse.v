(* Yee_reverse.v — C02: one backward step exactly undoes one forward step, for every PML-free,
   non-dispersive scene of model/Yee.v: any source injections and schedules (injE/injH arbitrary),
   any ghost factors, masks, iso/diagonal materials with electric and magnetic conductivity
   (1 +- f <> 0), uniform or non-uniform grids, and any wall-compatible state. *)
From Coq Require Import List Arith Lia Field Ring.
From FV Require Import base.Scalar base.Cplx base.Sums model.Yee.
Import ListNotations.
Local Open Scope fld_scope.

Section Reverse.
  Variable K : Fld.
  Add Field KFr : (Fth K).
  Variable sc : scene K.
  Notation C := (C K).
  Notation nx := (nx K sc). Notation ny := (ny K sc). Notation nz := (nz K sc).
  Definition inb (i j k : nat) : Prop := (i < nx)%nat /\ (j < ny)%nat /\ (k < nz)%nat.

  Record reversible_scene : Prop := {
    rs_pml : pmls K sc = [];
    rs_mE : forall i j k, inb i j k -> (m1 (mE K sc) i j k = 0 \/ m1 (mE K sc) i j k = 1) /\ (m2 (mE K sc) i j k = 0 \/ m2 (mE K sc) i j k = 1) /\ (m3 (mE K sc) i j k = 0 \/ m3 (mE K sc) i j k = 1);
    rs_mH : forall i j k, inb i j k -> (m1 (mH K sc) i j k = 0 \/ m1 (mH K sc) i j k = 1) /\ (m2 (mH K sc) i j k = 0 \/ m2 (mH K sc) i j k = 1) /\ (m3 (mH K sc) i j k = 0 \/ m3 (mH K sc) i j k = 1);
    rs_fE : forall i j k, inb i j k ->
       let f1 := fE1 K sc (m1 (ieps K sc)) (m1 (sigE K sc)) i j k in let f2 := fE1 K sc (m2 (ieps K sc)) (m2 (sigE K sc)) i j k in
       let f3 := fE1 K sc (m3 (ieps K sc)) (m3 (sigE K sc)) i j k in
       (1 + f1 <> 0 /\ 1 - f1 <> 0) /\ (1 + f2 <> 0 /\ 1 - f2 <> 0) /\ (1 + f3 <> 0 /\ 1 - f3 <> 0);
    rs_fH : forall i j k, inb i j k ->
       let f1 := fH1 K sc (m1 (imu K sc)) (m1 (sigH K sc)) i j k in let f2 := fH1 K sc (m2 (imu K sc)) (m2 (sigH K sc)) i j k in
       let f3 := fH1 K sc (m3 (imu K sc)) (m3 (sigH K sc)) i j k in
       (1 + f1 <> 0 /\ 1 - f1 <> 0) /\ (1 + f2 <> 0 /\ 1 - f2 <> 0) /\ (1 + f3 <> 0 /\ 1 - f3 <> 0)
  }.
  (* wall conditions: where a post-update mask is 0 the field is 0 *)
  Definition wall_ok (m : M3 K) (v : V3 K) : Prop :=
    forall i j k, inb i j k -> (m1 m i j k = 0 -> vx v i j k = c0) /\ (m2 m i j k = 0 -> vy v i j k = c0) /\ (m3 m i j k = 0 -> vz v i j k = c0).
  Definition wall_compatible (s : state K) : Prop := wall_ok (mE K sc) (fE s) /\ wall_ok (mH K sc) (fH s).
  Definition veq_box (a b : V3 K) : Prop :=
    forall i j k, inb i j k -> vx a i j k = vx b i j k /\ vy a i j k = vy b i j k /\ vz a i j k = vz b i j k.

  Hypothesis RS : reversible_scene.

  Lemma curlH_nopml' sim H psi : curlH K sc sim H psi = (curlH_raw K sc H, psi).
  Proof. unfold curlH. rewrite (rs_pml RS). reflexivity. Qed.
  Lemma curlE_nopml' sim E psi : curlE K sc sim E psi = (curlE_raw K sc E, psi).
  Proof. unfold curlE. rewrite (rs_pml RS). reflexivity. Qed.

  (* the backward difference operators only read in-box cells *)
  Lemma prv_ext n lo (f g : nat -> C) i : (i < n)%nat -> (forall q, (q < n)%nat -> f q = g q) -> prv K n lo f i = prv K n lo g i.
  Proof. intros Hi H. unfold prv. destruct i as [|q]; [rewrite H by lia; reflexivity | apply H; lia]. Qed.
  Lemma curlH_raw_ext (a b : V3 K) : veq_box a b -> veq_box (curlH_raw K sc a) (curlH_raw K sc b).
  Proof.
    intros H i j k (Hi & Hj & Hk). unfold curlH_raw, dmx, dmy, dmz; cbn [vx vy vz].
    destruct (H i j k (conj Hi (conj Hj Hk))) as (ex & ey & ez).
    rewrite (prv_ext ny (loy K sc) (fun q => vz a i q k) (fun q => vz b i q k) j Hj) by (intros q Hq; apply (H i q k); repeat split; assumption).
    rewrite (prv_ext nz (loz K sc) (fun q => vy a i j q) (fun q => vy b i j q) k Hk) by (intros q Hq; apply (H i j q); repeat split; assumption).
    rewrite (prv_ext nz (loz K sc) (fun q => vx a i j q) (fun q => vx b i j q) k Hk) by (intros q Hq; apply (H i j q); repeat split; assumption).
    rewrite (prv_ext nx (lox K sc) (fun q => vz a q j k) (fun q => vz b q j k) i Hi) by (intros q Hq; apply (H q j k); repeat split; assumption).
    rewrite (prv_ext nx (lox K sc) (fun q => vy a q j k) (fun q => vy b q j k) i Hi) by (intros q Hq; apply (H q j k); repeat split; assumption).
    rewrite (prv_ext ny (loy K sc) (fun q => vx a i q k) (fun q => vx b i q k) j Hj) by (intros q Hq; apply (H i q k); repeat split; assumption).
    rewrite ex, ey, ez. repeat split.
  Qed.

  (* cell identities *)
  Lemma H_rev_cell (im m f : car K) (h k inj : C) :
    1 + f <> 0 -> 1 - f <> 0 -> (m = 0 \/ m = 1) -> (m = 0 -> h = c0) ->
    let h' := cscal m (cadd (cdivr (csub (cscal (1 - f) h) (cscal (cn K sc * im) k)) (1 + f)) inj) in
    cscal m (cdivr (cadd (cscal (1 + f) (csub h' inj)) (cscal (cn K sc * im) k)) (1 - f)) = h.
  Proof.
    intros Hp Hm Hmask Hw. cbv zeta. destruct Hmask as [-> | ->].
    - rewrite (Hw eq_refl). unfold cscal, Cplx.c0; cbn [fst snd]. f_equal; ring.
    - destruct h as [a b], k as [c d], inj as [e g]. unfold cscal, cdivr, cadd, csub; cbn [fst snd].
      f_equal; field; split; assumption.
  Qed.
  Lemma E_rev_cell (ie m f : car K) (e k inj : C) :
    1 + f <> 0 -> 1 - f <> 0 -> (m = 0 \/ m = 1) -> (m = 0 -> e = c0) ->
    let e' := cscal m (cadd (cdivr (cadd (cscal (1 - f) e) (cscal (cn K sc * ie) k)) (1 + f)) inj) in
    cscal m (cdivr (csub (cscal (1 + f) (csub e' inj)) (cscal (cn K sc * ie) k)) (1 - f)) = e.
  Proof.
    intros Hp Hm Hmask Hw. cbv zeta. destruct Hmask as [-> | ->].
    - rewrite (Hw eq_refl). unfold cscal, Cplx.c0; cbn [fst snd]. f_equal; ring.
    - destruct e as [a b], k as [c d], inj as [u g]. unfold cscal, cdivr, cadd, csub; cbn [fst snd].
      f_equal; field; split; assumption.
  Qed.

  (* forward, cell by cell (sources included) *)
  Lemma fwdE s i j k :
    let kc := curlH_raw K sc (fH s) in let ie := ieps K sc in let sg := sigE K sc in let E := fE s in let J := injE K sc (tstep s) in
    vx (fE (forward K sc s)) i j k = cscal (m1 (mE K sc) i j k) (cadd (updE1 K sc (m1 ie) (fE1 K sc (m1 ie) (m1 sg)) (vx E) (vx kc) i j k) (vx J i j k)) /\
    vy (fE (forward K sc s)) i j k = cscal (m2 (mE K sc) i j k) (cadd (updE1 K sc (m2 ie) (fE1 K sc (m2 ie) (m2 sg)) (vy E) (vy kc) i j k) (vy J i j k)) /\
    vz (fE (forward K sc s)) i j k = cscal (m3 (mE K sc) i j k) (cadd (updE1 K sc (m3 ie) (fE1 K sc (m3 ie) (m3 sg)) (vz E) (vz kc) i j k) (vz J i j k)).
  Proof.
    cbv zeta. unfold forward, update_H, update_E. rewrite curlH_nopml'. cbn [fE fH psiE psiH tstep].
    rewrite curlE_nopml'. cbn [fE fH psiE psiH tstep]. unfold vmask, vadd, vmap2; cbn [vx vy vz]. repeat split.
  Qed.
  Lemma fwdH s i j k :
    let kc := curlE_raw K sc (fE (forward K sc s)) in let im := imu K sc in let sg := sigH K sc in let H := fH s in let J := injH K sc (tstep s) in
    vx (fH (forward K sc s)) i j k = cscal (m1 (mH K sc) i j k) (cadd (updH1 K sc (m1 im) (fH1 K sc (m1 im) (m1 sg)) (vx H) (vx kc) i j k) (vx J i j k)) /\
    vy (fH (forward K sc s)) i j k = cscal (m2 (mH K sc) i j k) (cadd (updH1 K sc (m2 im) (fH1 K sc (m2 im) (m2 sg)) (vy H) (vy kc) i j k) (vy J i j k)) /\
    vz (fH (forward K sc s)) i j k = cscal (m3 (mH K sc) i j k) (cadd (updH1 K sc (m3 im) (fH1 K sc (m3 im) (m3 sg)) (vz H) (vz kc) i j k) (vz J i j k)).
  Proof.
    cbv zeta. unfold forward, update_H, update_E. rewrite curlH_nopml'. cbn [fE fH psiE psiH tstep].
    rewrite curlE_nopml'. cbn [fE fH psiE psiH tstep]. unfold vmask, vadd, vmap2; cbn [vx vy vz]. repeat split.
  Qed.

  (* backward, cell by cell *)
  Lemma bwdH s i j k :
    let t := Nat.pred (tstep s) in
    let kc := curlE_raw K sc (fE s) in let im := imu K sc in let sg := sigH K sc in let J := injH K sc t in
    vx (fH (backward K sc s)) i j k = cscal (m1 (mH K sc) i j k) (revH1 K sc (m1 im) (fH1 K sc (m1 im) (m1 sg)) (vx (vsub K (fH s) J)) (vx kc) i j k) /\
    vy (fH (backward K sc s)) i j k = cscal (m2 (mH K sc) i j k) (revH1 K sc (m2 im) (fH1 K sc (m2 im) (m2 sg)) (vy (vsub K (fH s) J)) (vy kc) i j k) /\
    vz (fH (backward K sc s)) i j k = cscal (m3 (mH K sc) i j k) (revH1 K sc (m3 im) (fH1 K sc (m3 im) (m3 sg)) (vz (vsub K (fH s) J)) (vz kc) i j k).
  Proof.
    cbv zeta. unfold backward, update_E_rev, update_H_rev. rewrite curlE_nopml'. cbn [fE fH psiE psiH tstep].
    rewrite curlH_nopml'. cbn [fE fH psiE psiH tstep]. unfold vmask; cbn [vx vy vz]. repeat split.
  Qed.
  Lemma bwdE s i j k :
    let t := Nat.pred (tstep s) in
    let kc := curlH_raw K sc (fH (backward K sc s)) in let ie := ieps K sc in let sg := sigE K sc in let J := injE K sc t in
    vx (fE (backward K sc s)) i j k = cscal (m1 (mE K sc) i j k) (revE1 K sc (m1 ie) (fE1 K sc (m1 ie) (m1 sg)) (vx (vsub K (fE s) J)) (vx kc) i j k) /\
    vy (fE (backward K sc s)) i j k = cscal (m2 (mE K sc) i j k) (revE1 K sc (m2 ie) (fE1 K sc (m2 ie) (m2 sg)) (vy (vsub K (fE s) J)) (vy kc) i j k) /\
    vz (fE (backward K sc s)) i j k = cscal (m3 (mE K sc) i j k) (revE1 K sc (m3 ie) (fE1 K sc (m3 ie) (m3 sg)) (vz (vsub K (fE s) J)) (vz kc) i j k).
  Proof.
    cbv zeta. unfold backward, update_E_rev, update_H_rev. rewrite curlE_nopml'. cbn [fE fH psiE psiH tstep].
    rewrite curlH_nopml'. cbn [fE fH psiE psiH tstep]. unfold vmask; cbn [vx vy vz]. repeat split.
  Qed.

  Lemma tstep_fwd s : tstep (forward K sc s) = S (tstep s).
  Proof. reflexivity. Qed.

  Theorem backward_forward_H s : wall_compatible s -> veq_box (fH (backward K sc (forward K sc s))) (fH s).
  Proof.
    intros [WE WH] i j k Hb.
    destruct (bwdH (forward K sc s) i j k) as (bx & by_ & bz). rewrite tstep_fwd in bx, by_, bz. cbn [Nat.pred] in bx, by_, bz.
    destruct (fwdH s i j k) as (fx & fy & fz).
    destruct (rs_mH RS i j k Hb) as (q1 & q2 & q3). destruct (rs_fH RS i j k Hb) as ((a1 & a2) & (b1 & b2) & (c1 & c2)).
    destruct (WH i j k Hb) as (w1 & w2 & w3).
    unfold revH1, vsub, vmap2 in bx, by_, bz; cbn [vx vy vz] in bx, by_, bz. unfold updH1 in fx, fy, fz.
    rewrite bx, by_, bz, fx, fy, fz.
    repeat split; apply H_rev_cell; assumption.
  Qed.

  Theorem backward_forward_E s : wall_compatible s -> veq_box (fE (backward K sc (forward K sc s))) (fE s).
  Proof.
    intros W i j k Hb. pose proof (backward_forward_H s W) as HH. destruct W as [WE WH].
    destruct (bwdE (forward K sc s) i j k) as (bx & by_ & bz). rewrite tstep_fwd in bx, by_, bz. cbn [Nat.pred] in bx, by_, bz.
    destruct (curlH_raw_ext _ _ HH i j k Hb) as (cx & cy & cz).
    destruct (fwdE s i j k) as (fx & fy & fz).
    destruct (rs_mE RS i j k Hb) as (q1 & q2 & q3). destruct (rs_fE RS i j k Hb) as ((a1 & a2) & (b1 & b2) & (c1 & c2)).
    destruct (WE i j k Hb) as (w1 & w2 & w3).
    unfold revE1, vsub, vmap2 in bx, by_, bz; cbn [vx vy vz] in bx, by_, bz. unfold updE1 in fx, fy, fz.
    rewrite bx, by_, bz, cx, cy, cz, fx, fy, fz.
    repeat split; apply E_rev_cell; assumption.
  Qed.

  Theorem backward_forward_id s : wall_compatible s ->
    let s' := backward K sc (forward K sc s) in
    tstep s' = tstep s /\ veq_box (fE s') (fE s) /\ veq_box (fH s') (fH s).
  Proof. intros W. cbv zeta. split; [reflexivity|]. split; [apply backward_forward_E | apply backward_forward_H]; exact W. Qed.

  (* forward preserves wall compatibility, so the statement applies at every time step of a run *)
  Lemma forward_wall s : wall_compatible (forward K sc s).
  Proof.
    split; intros i j k Hb.
    - destruct (fwdE s i j k) as (fx & fy & fz). rewrite fx, fy, fz.
      repeat split; intros ->; unfold cscal, Cplx.c0; cbn [fst snd]; f_equal; ring.
    - destruct (fwdH s i j k) as (fx & fy & fz). rewrite fx, fy, fz.
      repeat split; intros ->; unfold cscal, Cplx.c0; cbn [fst snd]; f_equal; ring.
  Qed.
End Reverse.
