(* Yee_sbp.v — summation by parts for the ghost-cell reads of model/Yee.v (any ghost factor with
   lo = conj hi: zero halo, periodic wrap, Bloch phase), lifted to 3-D sums. *)
From Coq Require Import List Arith Lia Field Ring.
From FV Require Import base.Scalar base.Cplx base.Sums model.Yee.
Local Open Scope fld_scope.

Section SBP.
  Variable K : Fld.
  Add Field KFs : (Fth K).
  Notation C := (C K).

  Lemma cdot_add_l (a b c : C) : cdot (cadd a b) c = cdot a c + cdot b c.
  Proof. unfold cdot, cadd; cbn; ring. Qed.
  Lemma cdot_sub_l (a b c : C) : cdot (csub a b) c = cdot a c - cdot b c.
  Proof. unfold cdot, csub; cbn; ring. Qed.
  Lemma cdot_sub_r (a b c : C) : cdot c (csub a b) = cdot c a - cdot c b.
  Proof. unfold cdot, csub; cbn; ring. Qed.
  Lemma cdot_scal_l r (a b : C) : cdot (cscal r a) b = r * cdot a b.
  Proof. unfold cdot, cscal; cbn; ring. Qed.
  Lemma cdot_scal_r r (a b : C) : cdot a (cscal r b) = r * cdot a b.
  Proof. unfold cdot, cscal; cbn; ring. Qed.
  Lemma cconj_invol (a : C) : cconj (cconj a) = a.
  Proof. destruct a; unfold cconj; cbn. f_equal. ring. Qed.

  (* shifted sums: sum_{i<n} cdot (prv f i) (g i) = sum_{i<n} cdot (f i) (nxt g i) *)
  Lemma shift_sum n hi (f g : nat -> C) :
    sumn n (fun i => cdot (prv K n (cconj hi) f i) (g i)) = sumn n (fun i => cdot (f i) (nxt K n hi g i)).
  Proof.
    destruct n as [|m]; [reflexivity|].
    (* split both sums: left = boundary + sum_{i<m} cdot (f i) (g (S i)); right = same + boundary *)
    assert (L: forall q, (q <= m)%nat ->
      sumn (S q) (fun i => cdot (prv K (S m) (cconj hi) f i) (g i))
      = cdot (cmul (cconj hi) (f m)) (g O) + sumn q (fun i => cdot (f i) (g (S i)))).
    { induction q as [|q IH]; intros Hq.
      - cbn. replace (m - 0)%nat with m by lia. ring.
      - change (sumn (S (S q)) ?g) with (sumn (S q) g + g (S q)).
        cbn [sumn] in IH |- *. rewrite IH by lia. cbn [prv]. ring. }
    assert (R: forall q, (q <= m)%nat ->
      sumn q (fun i => cdot (f i) (nxt K (S m) hi g i)) = sumn q (fun i => cdot (f i) (g (S i)))).
    { intros q Hq. apply sumn_ext. intros i Hi. unfold nxt.
      destruct (S i <? S m) eqn:E; [reflexivity|]. apply Nat.ltb_ge in E. lia. }
    rewrite (L m (le_n m)).
    cbn [sumn]. rewrite (R m (le_n m)).
    unfold nxt at 1. replace (S m <? S m) with false by (symmetry; apply Nat.ltb_irrefl).
    rewrite cdot_phase, cconj_invol. ring.
  Qed.

  (* 1-D summation by parts *)
  Lemma sbp1 n hi (f g : nat -> C) :
    sumn n (fun i => cdot (csub (f i) (prv K n (cconj hi) f i)) (g i))
    = - sumn n (fun i => cdot (f i) (csub (nxt K n hi g i) (g i))).
  Proof.
    transitivity (sumn n (fun i => cdot (f i) (g i)) - sumn n (fun i => cdot (prv K n (cconj hi) f i) (g i))).
    { rewrite <- sumn_sub. apply sumn_ext; intros. apply cdot_sub_l. }
    rewrite shift_sum.
    transitivity (- (sumn n (fun i => cdot (f i) (nxt K n hi g i)) - sumn n (fun i => cdot (f i) (g i)))); [ring|].
    f_equal. rewrite <- sumn_sub. apply sumn_ext; intros. symmetry. apply cdot_sub_r.
  Qed.

  (* weighted 3-D versions: the weight may depend on the two other indices only *)
  Variables nx ny nz : nat.
  Notation sum3 := (sum3 nx ny nz).
  Lemma sbp3_z hi (a : nat -> nat -> car K) (f g : A3 K) :
    sum3 (fun i j k => a i j * cdot (csub (f i j k) (prv K nz (cconj hi) (fun q => f i j q) k)) (g i j k))
    = - sum3 (fun i j k => a i j * cdot (f i j k) (csub (nxt K nz hi (fun q => g i j q) k) (g i j k))).
  Proof.
    unfold Sums.sum3. rewrite <- sumn_opp. apply sumn_ext; intros i _. rewrite <- sumn_opp. apply sumn_ext; intros j _.
    rewrite !sumn_scal. rewrite (sbp1 nz hi (fun q => f i j q) (fun q => g i j q)). ring.
  Qed.
  Lemma sbp3_y hi (a : nat -> nat -> car K) (f g : A3 K) :
    sum3 (fun i j k => a i k * cdot (csub (f i j k) (prv K ny (cconj hi) (fun q => f i q k) j)) (g i j k))
    = - sum3 (fun i j k => a i k * cdot (f i j k) (csub (nxt K ny hi (fun q => g i q k) j) (g i j k))).
  Proof.
    unfold Sums.sum3. rewrite <- sumn_opp. apply sumn_ext; intros i _.
    rewrite (sumn_swap K ny nz), (sumn_swap K ny nz). rewrite <- sumn_opp. apply sumn_ext; intros k _.
    rewrite !sumn_scal. rewrite (sbp1 ny hi (fun q => f i q k) (fun q => g i q k)). ring.
  Qed.
  Lemma sbp3_x hi (a : nat -> nat -> car K) (f g : A3 K) :
    sum3 (fun i j k => a j k * cdot (csub (f i j k) (prv K nx (cconj hi) (fun q => f q j k) i)) (g i j k))
    = - sum3 (fun i j k => a j k * cdot (f i j k) (csub (nxt K nx hi (fun q => g q j k) i) (g i j k))).
  Proof.
    unfold Sums.sum3.
    rewrite (sumn_swap K nx ny), (sumn_swap K nx ny). rewrite <- sumn_opp. apply sumn_ext; intros j _.
    rewrite (sumn_swap K nx nz), (sumn_swap K nx nz). rewrite <- sumn_opp. apply sumn_ext; intros k _.
    rewrite !sumn_scal. rewrite (sbp1 nx hi (fun q => f q j k) (fun q => g q j k)). ring.
  Qed.
End SBP.
