(* MorphBrush_proofs.v — C25 (partial): structure of the brush generator's result, monotone touches,
   termination under the feasibility (progress) hypothesis, bounded-exhaustive feasibility. *)
From Coq Require Import List ZArith Arith Bool Lia.
From FV Require Import base.Util base.MorphBase model.MorphBrush.
Import ListNotations.

Section BrushP.
  Variables nx ny bs : nat.
  Variable brush : arr2.
  Variable design : nat -> nat -> Z.
  Notation D := (dil nx ny bs brush).
  Notation cells := (cells2 nx ny).
  Notation BODY := (body nx ny bs brush design).

  Lemma in_cells2 p q : In (p, q) cells <-> p < nx /\ q < ny.
  Proof.
    unfold cells2. rewrite in_flat_map. split.
    - intros (i & Hi & H). apply in_map_iff in H. destruct H as (j & E & Hj). inversion E; subst. rewrite in_seq in *. lia.
    - intros [Hp Hq]. exists p. split; [apply in_seq; lia|]. apply in_map. apply in_seq. lia.
  Qed.

  Lemma get2_mk2_in f i j : i < nx -> j < ny -> get2 (mk2 nx ny f) i j = f i j.
  Proof. intros Hi Hj. rewrite get2_mk2. apply Nat.ltb_lt in Hi, Hj. rewrite Hi, Hj. reflexivity. Qed.

  (* a pixel is set by dilate(touches, brush) iff it lies in the (clipped) brush footprint of some touch *)
  Lemma dil_spec t i j : i < nx -> j < ny ->
    (get2 (D t) i j = true <-> exists p q, p < nx /\ q < ny /\ get2 t p q = true /\ bget bs brush i j p q = true).
  Proof.
    intros Hi Hj. unfold dil. rewrite get2_mk2_in by assumption. rewrite existsb_exists. split.
    - intros ([p q] & Hin & H). apply in_cells2 in Hin. cbn in H. apply andb_true_iff in H. exists p, q. tauto.
    - intros (p & q & Hp & Hq & Ht & Hb). exists (p, q). split; [apply in_cells2; tauto|]. cbn. rewrite Ht, Hb. reflexivity.
  Qed.

  (* solid region = union of the in-domain parts of brush footprints centred at the solid touches *)
  Theorem generator_solid_union fuel r : generator nx ny bs brush design fuel = Some r ->
    exists tv ts, generator_touches nx ny bs brush design fuel = Some (tv, ts) /\
      forall i j, i < nx -> j < ny ->
        (get2 r i j = true <-> exists p q, p < nx /\ q < ny /\ get2 ts p q = true /\ bget bs brush i j p q = true).
  Proof.
    unfold generator, generator_touches. destruct (loop nx ny bs brush design fuel _) as [[tv ts]|]; [|discriminate].
    intros E. inversion E; subst. exists tv, ts. split; [reflexivity|]. intros i j Hi Hj. apply dil_spec; assumption.
  Qed.

  (* at exit every pixel lies in a solid or in a void footprint *)
  Lemma loop_exit_covered : forall fuel st r, loop nx ny bs brush design fuel st = Some r ->
    covered nx ny bs brush (fst r) (snd r) = true.
  Proof.
    induction fuel as [|f IH]; intros st r H; cbn in H; [discriminate|].
    destruct (covered nx ny bs brush (fst st) (snd st)) eqn:C; [inversion H; subst; exact C | apply (IH _ _ H)].
  Qed.

  Theorem generator_exit_covered fuel tv ts : generator_touches nx ny bs brush design fuel = Some (tv, ts) ->
    forall i j, i < nx -> j < ny -> get2 (D ts) i j = true \/ get2 (D tv) i j = true.
  Proof.
    intros H i j Hi Hj. apply loop_exit_covered in H. cbn in H. unfold covered, all2 in H. rewrite forallb_forall in H.
    specialize (H (i, j) (proj2 (in_cells2 i j) (conj Hi Hj))). cbn in H. unfold bor in H. rewrite get2_mk2_in in H by assumption.
    apply orb_true_iff in H. exact H.
  Qed.

  (* touches are only ever added *)
  Lemma select_grows ms mv tv ts i j : i < nx -> j < ny ->
    let r := select nx ny design ms mv tv ts in
    (get2 tv i j = true -> get2 (fst r) i j = true) /\ (get2 ts i j = true -> get2 (snd r) i j = true).
  Proof.
    intros Hi Hj. unfold select. destruct (gt_opt _ _); cbn [fst snd]; unfold set2; split; intros H; try exact H;
      rewrite get2_mk2_in by assumption; rewrite H; apply orb_true_r.
  Qed.

  Theorem body_grows tv ts i j : i < nx -> j < ny ->
    (get2 tv i j = true -> get2 (fst (BODY (tv, ts))) i j = true) /\ (get2 ts i j = true -> get2 (snd (BODY (tv, ts))) i j = true).
  Proof.
    intros Hi Hj. unfold body. cbv zeta.
    match goal with |- context [if any2 nx ny ?a then _ else _] => destruct (any2 nx ny a) end.
    - cbn [fst snd]. unfold bor. split; intros H; rewrite get2_mk2_in by assumption; rewrite H; reflexivity.
    - match goal with |- context [if any2 nx ny ?a then _ else _] => destruct (any2 nx ny a) end; apply select_grows; assumption.
  Qed.

  (* ---- termination under the feasibility hypothesis: while not everything is covered, an iteration adds a touch *)
  Definition mu (st : arr2 * arr2) : nat :=
    count (fun pq => get2 (fst st) (fst pq) (snd pq)) cells + count (fun pq => get2 (snd st) (fst pq) (snd pq)) cells.
  Definition init : arr2 * arr2 := (zeros2 nx ny, zeros2 nx ny).
  Definition progress : Prop := forall n, let st := Nat.iter n BODY init in
    covered nx ny bs brush (fst st) (snd st) = false -> mu st < mu (BODY st).

  Lemma mu_bound st : mu st <= length cells + length cells.
  Proof.
    unfold mu.
    assert (H1 := count_le_length (fun pq : nat * nat => get2 (fst st) (fst pq) (snd pq)) cells).
    assert (H2 := count_le_length (fun pq : nat * nat => get2 (snd st) (fst pq) (snd pq)) cells).
    apply Nat.add_le_mono; assumption.
  Qed.

  Lemma loop_terminates : progress -> forall fuel n, length cells + length cells - mu (Nat.iter n BODY init) < fuel ->
    exists r, loop nx ny bs brush design fuel (Nat.iter n BODY init) = Some r.
  Proof.
    intros P. induction fuel as [|f IH]; intros n Hf; [lia|]. cbn [loop].
    destruct (covered nx ny bs brush (fst (Nat.iter n BODY init)) (snd (Nat.iter n BODY init))) eqn:C; [eexists; reflexivity|].
    specialize (P n C). cbv zeta in P. specialize (IH (S n)).
    change (Nat.iter (S n) BODY init) with (BODY (Nat.iter n BODY init)) in IH. apply IH.
    pose proof (mu_bound (BODY (Nat.iter n BODY init))) as B.
    remember (mu (BODY (Nat.iter n BODY init))) as a. remember (mu (Nat.iter n BODY init)) as b.
    remember (length cells + length cells) as c. clear - P B Hf. lia.
  Qed.

  Theorem generator_terminates : progress -> exists r, generator nx ny bs brush design (length cells + length cells + 1) = Some r.
  Proof.
    intros P. destruct (loop_terminates P (length cells + length cells + 1) 0) as [[tv ts] Hr]; [lia|].
    change (Nat.iter 0 BODY init) with init in Hr. unfold generator. unfold init in Hr. rewrite Hr. eexists; reflexivity.
  Qed.
End BrushP.

(* ------------------------------------------------------------------ bounded-exhaustive feasibility *)
(* two-level designs (values -1 / +1) given as a flat bool list *)
Definition design_of (ny : nat) (l : list bool) : nat -> nat -> Z := fun i j => if nth (i * ny + j) l false then 1%Z else (-1)%Z.
(* terminates, and the void region (complement of the result) is exactly the union of the void touches' footprints,
   i.e. solid and void footprints are disjoint and cover everything *)
Definition brush_ok_b (nx ny bs : nat) (brush : arr2) (l : list bool) : bool :=
  match generator_touches nx ny bs brush (design_of ny l) (2 * (nx * ny) + 1) with
  | Some (tv, ts) => arr2_eqb (bnot nx ny (dil nx ny bs brush ts)) (dil nx ny bs brush tv)
  | None => false
  end.
Definition plus3 : arr2 := [[false; true; false]; [true; true; true]; [false; true; false]].   (* circular_brush(2.5) *)
Definition dot1 : arr2 := [[true]].                                                              (* circular_brush(1) *)
(* all_blists *)
Fixpoint all_blists (n : nat) : list (list bool) :=
  match n with 0 => [[]] | S n' => flat_map (fun l => [false :: l; true :: l]) (all_blists n') end.
(* (extent, brush) pairs of the bounded family: circular_brush(2.5) up to 3x3, circular_brush(1) up to 2x3 *)
Definition brush_family : list (nat * nat * nat * arr2) :=
  map (fun s => (fst s, snd s, 3, plus3)) [(1, 1); (1, 3); (3, 1); (2, 2); (2, 3); (3, 2); (3, 3)] ++
  map (fun s => (fst s, snd s, 1, dot1)) [(1, 1); (1, 3); (2, 2); (2, 3)].
Definition brush_bounded_b : bool :=
  forallb (fun f => let '(nx, ny, bs, brush) := f in forallb (brush_ok_b nx ny bs brush) (all_blists (nx * ny))) brush_family.

Lemma in_all_blists2 l : In l (all_blists (length l)).
Proof.
  induction l as [|b l IH]; cbn; [left; reflexivity|]. apply in_flat_map. exists l. split; [exact IH|].
  destruct b; cbn; tauto.
Qed.

Lemma brush_bounded_ok : brush_bounded_b = true.
Proof. vm_compute. reflexivity. Qed.

(* for every two-level design on the listed boxes and the brushes circular_brush(1), circular_brush(2.5): the loop stops,
   and a pixel is void (not in the result) exactly when it lies in the footprint of a void touch *)
Lemma brush_bounded_spec nx ny bs brush l : In (nx, ny, bs, brush) brush_family -> length l = nx * ny ->
  exists tv ts, generator_touches nx ny bs brush (design_of ny l) (2 * (nx * ny) + 1) = Some (tv, ts) /\
    forall i j, i < nx -> j < ny -> get2 (dil nx ny bs brush tv) i j = negb (get2 (dil nx ny bs brush ts) i j).
Proof.
  intros Hs Hl. pose proof brush_bounded_ok as H. unfold brush_bounded_b in H.
  rewrite forallb_forall in H. specialize (H _ Hs). cbn beta iota in H. rewrite forallb_forall in H.
  specialize (H l). rewrite <- Hl in H. specialize (H (in_all_blists2 l)).
  unfold brush_ok_b in H. destruct (generator_touches nx ny bs brush (design_of ny l) (2 * (nx * ny) + 1)) as [[tv ts]|]; [|discriminate].
  exists tv, ts. split; [reflexivity|]. intros i j Hi Hj. apply arr2_eqb_spec in H. rewrite <- H.
  unfold bnot. rewrite get2_mk2_in by assumption. reflexivity.
Qed.
