(* Symmetry_det_proofs.v — unfold_fields and unfold_detector_states level lemmas (C32). *)
From Coq Require Import ZArith List Bool Lia Arith Field Ring.
From FV Require Import base.Scalar model.Symmetry proofs.Symmetry_proofs.
Import ListNotations.

Section Det.
  Variable K : Fld.
  Add Field KF3 : (Fth K).
  Notation arr := (arr K).
  Notation unfold_at := (unfold_at K).
  Notation restrict_at := (restrict_at K).
  Notation sum_all := (sum_all K).
  Notation count_all := (count_all K).
  Notation mean_all := (mean_all K).
  Notation KofNat := (KofNat K).
  Notation KofZ := (KofZ K).

  (* ------------------------------------------------------------------ mapi_from *)
  Lemma mapi_from_length {X Y} (h : Z -> X -> Y) l : forall i, length (mapi_from i h l) = length l.
  Proof. induction l; intros i; cbn; [reflexivity | rewrite IHl; reflexivity]. Qed.
  Lemma mapi_from_map_out {X Y W} (g : Y -> W) (h : Z -> X -> Y) l : forall i,
    map g (mapi_from i h l) = mapi_from i (fun c x => g (h c x)) l.
  Proof. induction l; intros i; cbn; [reflexivity | rewrite IHl; reflexivity]. Qed.
  Lemma mapi_from_map_in {X Y W} (g : W -> X) (h : Z -> X -> Y) l : forall i,
    mapi_from i h (map g l) = mapi_from i (fun c x => h c (g x)) l.
  Proof. induction l; intros i; cbn; [reflexivity | rewrite IHl; reflexivity]. Qed.
  Lemma mapi_from_ext {X Y} (P : X -> Prop) (h h' : Z -> X -> Y) l : Forall P l -> (forall c x, P x -> h c x = h' c x) ->
    forall i, mapi_from i h l = mapi_from i h' l.
  Proof. induction 1; intros E i; cbn; [reflexivity|]. rewrite E by assumption. rewrite IHForall by assumption. reflexivity. Qed.
  Lemma mapi_from_id {X} (h : Z -> X -> X) l : (forall c x, h c x = x) -> forall i, mapi_from i h l = l.
  Proof. intros E. induction l; intros i; cbn; [reflexivity | rewrite E, IHl; reflexivity]. Qed.
  Lemma mapi_from_nth_error {X Y} (h : Z -> X -> Y) l : forall i c,
    nth_error (mapi_from i h l) c = option_map (h (i + Z.of_nat c)%Z) (nth_error l c).
  Proof.
    induction l as [|x l IH]; intros i c; destruct c; try reflexivity.
    - cbn. rewrite Z.add_0_r. reflexivity.
    - cbn [mapi_from nth_error]. rewrite IH. f_equal. f_equal. lia.
  Qed.

  Lemma mapi_from_const {X Y} (g : X -> Y) l : forall i, mapi_from i (fun _ x => g x) l = map g l.
  Proof. induction l; intros i; cbn; [reflexivity | rewrite IHl; reflexivity]. Qed.

  (* ------------------------------------------------------------------ unfold_fields *)
  Lemma unfold_fields_axis_length ft a w f : length f <= 3 -> length (unfold_fields_axis K ft a w f) = length f.
  Proof. intros H. unfold unfold_fields_axis. rewrite mapi_from_length, firstn_all2 by exact H. reflexivity. Qed.

  Lemma restrict_unfold_fields_axis ft a w f : length f <= 3 ->
    map (restrict_at 3 a) (unfold_fields_axis K ft a w f) = f.
  Proof.
    intros H. unfold unfold_fields_axis. rewrite firstn_all2 by exact H. rewrite mapi_from_map_out.
    apply mapi_from_id. intros c x. apply restrict_unfold_at.
  Qed.

  Lemma nth_error_firstn' {X} (l : list X) : forall n c, c < n -> nth_error (firstn n l) c = nth_error l c.
  Proof. induction l as [|x l IH]; intros n c H; [destruct n; destruct c; reflexivity|]. destruct n; [lia|]. destruct c; [reflexivity|]. cbn. apply IH. lia. Qed.

  (* component c of the result is component c of the input mirrored with the table values *)
  Lemma unfold_fields_axis_component ft a w f c : c < 3 ->
    nth_error (unfold_fields_axis K ft a w f) c =
      option_map (unfold_at 3 a (KofZ (parity_z ft (Z.of_nat c) (Z.of_nat a) w))
                            (mirror_pairs_on_plane ft (Z.of_nat c) (Z.of_nat a) w)) (nth_error f c).
  Proof.
    intros H. unfold unfold_fields_axis. rewrite mapi_from_nth_error. cbn [Z.add].
    rewrite nth_error_firstn' by exact H. reflexivity.
  Qed.

  Lemma restrict_unfold_axes_list ft (s : sym3) l : forall f, length f <= 3 ->
    restrict_fields K l (fold_left (fun f a => unfold_fields_axis K ft a (sym_get s a) f) l f) = f.
  Proof.
    induction l as [|a l IH]; intros f H; [reflexivity|].
    change (restrict_fields K (a :: l) (fold_left (fun f a => unfold_fields_axis K ft a (sym_get s a) f) (a :: l) f))
      with (map (restrict_at 3 a) (restrict_fields K l (fold_left (fun f a => unfold_fields_axis K ft a (sym_get s a) f) l
                                                                   (unfold_fields_axis K ft a (sym_get s a) f)))).
    rewrite IH by (rewrite unfold_fields_axis_length by exact H; exact H).
    apply restrict_unfold_fields_axis. exact H.
  Qed.

  Lemma restrict_unfold_fields ft s f u : length f <= 3 -> unfold_fields K ft s f = Some u ->
    restrict_fields K (touched_axes s) u = f.
  Proof.
    intros H. unfold unfold_fields. destruct (negb (has_symmetry s)); [discriminate|].
    destruct (negb (sym_ok s)); [discriminate|]. intros E. injection E as <-. apply restrict_unfold_axes_list. exact H.
  Qed.

  (* the error behaviour: nothing to unfold / a wall value outside {-1,0,1} *)
  Lemma unfold_fields_defined ft s f : unfold_fields K ft s f <> None <-> has_symmetry s = true /\ sym_ok s = true.
  Proof.
    unfold unfold_fields. destruct (has_symmetry s); destruct (sym_ok s); cbn; split; try (intros [? ?]; discriminate); try congruence; auto.
  Qed.

  (* ------------------------------------------------------------------ detectors *)
  Lemma fold_left_ext_in {X Y} (f g : X -> Y -> X) l : (forall x y, In y l -> f x y = g x y) -> forall x, fold_left f l x = fold_left g l x.
  Proof. induction l as [|y l IH]; intros E x; cbn; [reflexivity|]. rewrite E by (left; reflexivity). apply IH. intros; apply E; right; assumption. Qed.
  Lemma fold_left_map' {X Y W} (f : X -> Y -> X) (g : W -> Y) l : forall x, fold_left f (map g l) x = fold_left (fun x w => f x (g w)) l x.
  Proof. induction l; intros x; cbn; [reflexivity | apply IHl]. Qed.

  Lemma touched_axes_lt s : Forall (fun a => a < 3) (touched_axes s).
  Proof. unfold touched_axes. apply Forall_forall. intros a H. apply filter_In in H. destruct H as [H _]. cbn in H. lia. Qed.

  Lemma unfold_block_off r touched ax sign onax b : (forall a, onax a = false) ->
    unfold_block K r touched ax sign onax b = unfold_axes K r ax sign (touched_axes touched) b.
  Proof. intros H. unfold unfold_block, unfold_axes. apply fold_left_ext_in. intros x a _. rewrite H. reflexivity. Qed.

  Lemma reduce_factor_sum sgn l : reduce_factor K false (map sgn l) = prod_axes K (fun a => 1 + KofZ (sgn a))%F l 1%F.
  Proof. unfold reduce_factor, prod_axes. rewrite fold_left_map'. reflexivity. Qed.
  Lemma reduce_factor_mean sgn l : reduce_factor K true (map sgn l) = prod_axes K (fun a => (1 + KofZ (sgn a)) / (1 + 1))%F l 1%F.
  Proof. unfold reduce_factor, prod_axes. rewrite fold_left_map'. reflexivity. Qed.

  Definition nonempty_blocks (v : list (list (arr 3))) : Prop :=
    Forall (Forall (fun b => KofNat (count_all 3 b) <> 0%F)) v.

  (* the detector clause: with no on-plane axis, reducing the unfolded record = rescaling the reduced value *)
  Lemma reduce_unfold_sum exact touched sgn v : (forall a, colocated_on_plane exact touched a = false) ->
    reduce_state K false (unfold_spatial K exact touched sgn v) = unfold_reduced K false touched sgn (reduce_state K false v).
  Proof.
    intros Hoff. unfold reduce_state, unfold_spatial, unfold_reduced. rewrite !map_map. apply map_ext. intros comps.
    rewrite mapi_from_map_out, mapi_from_map_in. apply mapi_from_ext with (P := fun _ => True); [apply Forall_forall; auto|].
    intros ci b _. rewrite unfold_block_off by exact Hoff.
    rewrite sum_unfold_axes by (eapply Forall_impl; [|apply touched_axes_lt]; auto).
    unfold touched_parities. rewrite reduce_factor_sum. ring.
  Qed.

  Lemma reduce_unfold_mean exact touched sgn v : (forall a, colocated_on_plane exact touched a = false) ->
    (1 + 1)%F <> (0%F : K) -> nonempty_blocks v ->
    reduce_state K true (unfold_spatial K exact touched sgn v) = unfold_reduced K true touched sgn (reduce_state K true v).
  Proof.
    intros Hoff H2 Hne. unfold reduce_state, unfold_spatial, unfold_reduced. rewrite !map_map.
    apply map_ext_Forall with (P := Forall (fun b => KofNat (count_all 3 b) <> 0%F)); [exact Hne|]. intros comps Hc.
    rewrite mapi_from_map_out, mapi_from_map_in. apply mapi_from_ext with (P := fun b => KofNat (count_all 3 b) <> 0%F); [exact Hc|].
    intros ci b Hb. rewrite unfold_block_off by exact Hoff.
    rewrite mean_unfold_axes; [| eapply Forall_impl; [|apply touched_axes_lt]; auto | exact Hb | exact H2].
    unfold touched_parities. rewrite reduce_factor_mean. ring.
  Qed.

  (* energy: state * 2**count is the sum rescaling with parity +1 on every touched axis *)
  Lemma energy_factor touched (v : list (list K)) :
    map (map (fun x => (x * Nat.iter (length (touched_axes touched)) (fun y => y * (1 + 1)) 1)%F)) v =
    unfold_reduced K false touched (fun _ _ => 1%Z) v.
  Proof.
    unfold unfold_reduced. apply map_ext. intros comps.
    assert (E: forall l, reduce_factor K false (map (fun _ : nat => 1%Z) l) = Nat.iter (length l) (fun y => (y * (1 + 1))%F) 1%F).
    { intros l. rewrite reduce_factor_sum. induction l as [|a l IH]; [reflexivity|].
      rewrite prod_axes_cons, IH. cbn [length KofZ Pos.iter]. change (Nat.iter (S (length l)) (fun y : K => (y * (1 + 1))%F) 1%F) with ((Nat.iter (length l) (fun y : K => (y * (1 + 1))%F) 1%F) * (1 + 1))%F. ring. }
    unfold touched_parities. rewrite E.
    symmetry. apply mapi_from_const.
  Qed.

  (* spatial detector kind -> its reduce_volume=True twin and whether the reduction is a mean *)
  Definition reduced_kind (k : det_kind) : option (det_kind * bool) :=
    match k with
    | DPhasor pr false => Some (DPhasor pr true, true)
    | DField pr false => Some (DField pr true, true)
    | DEnergy false false => Some (DEnergy false true, false)
    | DPoynting ka false p => Some (DPoynting ka true p, false)
    | _ => None
    end.

  Lemma reduced_detector_consistent k k' mean exact touched v :
    reduced_kind k = Some (k', mean) ->
    (forall a, colocated_on_plane exact touched a = false) ->
    (mean = true -> (1 + 1)%F <> (0%F : K) /\ nonempty_blocks v) ->
    exists v', unfold_one_detector K k exact touched (SSpatial K v) = Some (SSpatial K v') /\
               unfold_one_detector K k' exact touched (SReduced K (reduce_state K mean v)) = Some (SReduced K (reduce_state K mean v')).
  Proof.
    intros Hk Hoff Hm.
    destruct k as [pr [|] | pr [|] | [|] [|] | ka [|] p | ]; cbn in Hk; try discriminate; injection Hk as <- <-.
    - destruct (Hm eq_refl) as [H2 Hne]. eexists; split; [reflexivity|]. cbn. rewrite reduce_unfold_mean by assumption. reflexivity.
    - destruct (Hm eq_refl) as [H2 Hne]. eexists; split; [reflexivity|]. cbn. rewrite reduce_unfold_mean by assumption. reflexivity.
    - eexists; split; [reflexivity|]. cbn [unfold_one_detector]. rewrite energy_factor, reduce_unfold_sum by assumption. reflexivity.
    - eexists; split; [reflexivity|]. cbn. rewrite reduce_unfold_sum by assumption. reflexivity.
  Qed.

  (* a detector no plane clipped is returned unchanged *)
  Lemma untouched_unchanged k exact st : unfold_detector_state K k exact (0, 0, 0)%Z st = Some st.
  Proof. reflexivity. Qed.
End Det.
