(* MorphFilter_proofs.v — C24: the separable box filter + rounding is the strict majority of the box
   neighbourhood of the padded design; argmin returns a minimiser; allowed pillar columns. *)
From Coq Require Import List ZArith Bool Lia QArith Qcanon.
From FV Require Import base.Scalar base.PyNum base.Util base.MorphBase model.MorphFilter.
Import ListNotations.
Open Scope Z_scope.

(* ------------------------------------------------------------------ rounding = strict majority *)
Lemma round_majority S K : 0 < K -> Z.odd K = true -> 0 <= S <= K ->
  (py_round_div S K =? 1) = (K <? 2 * S).
Proof.
  intros HK Hodd HS. unfold py_round_div.
  assert (HKo : exists h, K = 2 * h + 1) by (apply Z.odd_spec; apply Zodd_bool_iff; exact Hodd || (rewrite Zodd_bool_iff in *; assumption)).
  destruct HKo as [h Hh].
  destruct (Z.eq_dec S K) as [->|Hne].
  - rewrite Z_div_same_full by lia. rewrite Z_mod_same_full. rewrite Z.mul_0_r.
    destruct (0 <? K) eqn:E0; [|apply Z.ltb_ge in E0; lia].
    destruct (K <? 2 * K) eqn:E1; [reflexivity | apply Z.ltb_ge in E1; lia].
  - assert (HSlt : S < K) by lia. rewrite Z.div_small by lia. rewrite Z.mod_small by lia.
    destruct (2 * S <? K) eqn:E1; [apply Z.ltb_lt in E1 | apply Z.ltb_ge in E1].
    + destruct (K <? 2 * S) eqn:E2; [apply Z.ltb_lt in E2; lia | reflexivity].
    + assert (K < 2 * S) by lia. destruct (K <? 2 * S) eqn:E2; [|apply Z.ltb_ge in E2; lia].
      destruct (K <? 2 * S) eqn:E3; [reflexivity | apply Z.ltb_ge in E3; lia].
Qed.

(* ------------------------------------------------------------------ sums *)
Lemma zsum_ext l f h : (forall x, In x l -> f x = h x) -> zsum l f = zsum l h.
Proof.
  induction l as [|x l IH]; intros H; unfold zsum in *; cbn [fold_right]; [reflexivity|].
  rewrite (H x) by (left; reflexivity). f_equal. apply IH. intros y Hy. apply H. right; exact Hy.
Qed.
Lemma zsum_zero l : zsum l (fun _ => 0) = 0.
Proof. induction l as [|x l IH]; unfold zsum in *; cbn [fold_right]; [reflexivity|]. rewrite IH. reflexivity. Qed.
Lemma zsum_bounds l f M : 0 <= M -> (forall x, 0 <= f x <= M) -> 0 <= zsum l f <= Z.of_nat (length l) * M.
Proof.
  intros HM H. induction l as [|x l IH]; [cbn; lia|]. unfold zsum in *. cbn [fold_right length]. specialize (H x). rewrite Nat2Z.inj_succ. nia.
Qed.
Lemma length_window k i : 0 <= k -> Z.of_nat (length (window k i)) = k.
Proof. intros H. unfold window, zrange. rewrite !map_length, seq_length. lia. Qed.

Section Median.
  Variables nx ny nz : Z.
  Variables px py pz : pad_axis.
  Variables k0 k1 k2 : Z.
  Variable a : arr3.
  Notation E := (ext nx ny nz px py pz a).

  Lemma ext_out i j k : inpad3 nx ny nz px py pz i j k = false -> E i j k = false.
  Proof. unfold inpad3, ext. intros ->. reflexivity. Qed.

  Lemma conv0_eq i j k : in_padded nx px i = true ->
    conv0 nx ny nz px py pz k0 a i j k = zsum (window k0 i) (fun i' => b2z (E i' j k)).
  Proof.
    intros Hi. unfold conv0. destruct (inpad3 nx ny nz px py pz i j k) eqn:P; [reflexivity|].
    rewrite (zsum_ext _ _ (fun _ => 0)); [rewrite zsum_zero; reflexivity|].
    intros i' _. rewrite ext_out; [reflexivity|]. unfold inpad3 in *. rewrite Hi in P. cbn [andb] in P.
    destruct (in_padded nx px i'); [exact P | reflexivity].
  Qed.

  Lemma conv1_eq i j k : in_padded nx px i = true -> in_padded ny py j = true ->
    conv1 nx ny nz px py pz k0 k1 a i j k = zsum (window k1 j) (fun j' => zsum (window k0 i) (fun i' => b2z (E i' j' k))).
  Proof.
    intros Hi Hj. unfold conv1. destruct (inpad3 nx ny nz px py pz i j k) eqn:P.
    - apply zsum_ext. intros j' _. apply conv0_eq. exact Hi.
    - rewrite (zsum_ext _ _ (fun _ => 0)); [rewrite zsum_zero; reflexivity|]. intros j' _.
      rewrite (zsum_ext _ _ (fun _ => 0)); [rewrite zsum_zero; reflexivity|]. intros i' _.
      rewrite ext_out; [reflexivity|]. unfold inpad3 in *. rewrite Hi, Hj in P. cbn [andb] in P. rewrite P.
      rewrite !andb_false_r. reflexivity.
  Qed.

  Lemma conv2_eq i j k : inpad3 nx ny nz px py pz i j k = true ->
    conv2 nx ny nz px py pz k0 k1 k2 a i j k = boxsum nx ny nz px py pz k0 k1 k2 a i j k.
  Proof.
    intros P. unfold conv2, boxsum. rewrite P. apply zsum_ext. intros k' _.
    unfold inpad3 in P. apply andb_true_iff in P. destruct P as [P _]. apply andb_true_iff in P. destruct P as [Hi Hj].
    apply conv1_eq; assumption.
  Qed.

  Lemma boxsum_bounds i j k : 0 <= k0 -> 0 <= k1 -> 0 <= k2 ->
    0 <= boxsum nx ny nz px py pz k0 k1 k2 a i j k <= k0 * k1 * k2.
  Proof.
    intros H0 H1 H2. unfold boxsum.
    assert (B0 : forall j' k', 0 <= zsum (window k0 i) (fun i' => b2z (E i' j' k')) <= k0).
    { intros j' k'. pose proof (zsum_bounds (window k0 i) (fun i' => b2z (E i' j' k')) 1 ltac:(lia)) as B.
      rewrite length_window in B by lia. assert (forall x, 0 <= b2z (E x j' k') <= 1) by (intros x; destruct (E x j' k'); cbn; lia). specialize (B H). lia. }
    assert (B1 : forall k', 0 <= zsum (window k1 j) (fun j' => zsum (window k0 i) (fun i' => b2z (E i' j' k'))) <= k1 * k0).
    { intros k'. pose proof (zsum_bounds (window k1 j) (fun j' => zsum (window k0 i) (fun i' => b2z (E i' j' k'))) k0 H0 (fun j' => B0 j' k')) as B.
      rewrite length_window in B by lia. exact B. }
    pose proof (zsum_bounds (window k2 k) _ (k1 * k0) ltac:(nia) B1) as B. rewrite length_window in B by lia. nia.
  Qed.

  (* the filtered value is 1 exactly when more than half of the box neighbourhood (of the padded design) is 1 *)
  Theorem median_at_majority i j k : 0 < k0 -> 0 < k1 -> 0 < k2 -> Z.odd (k0 * k1 * k2) = true ->
    inpad3 nx ny nz px py pz i j k = true ->
    median_at nx ny nz px py pz k0 k1 k2 a i j k = (k0 * k1 * k2 <? 2 * boxsum nx ny nz px py pz k0 k1 k2 a i j k).
  Proof.
    intros H0 H1 H2 Hodd P. unfold median_at. rewrite (conv2_eq i j k P).
    apply round_majority; [nia | exact Hodd | apply boxsum_bounds; lia].
  Qed.

  Lemma inside_inpad n p i : 0 <= i < n -> in_padded n p i = true.
  Proof. intros H. unfold in_padded, locate. replace ((0 <=? i) && (i <? n)) with true; [reflexivity|]. symmetry. apply andb_true_iff. split; [apply Z.leb_le | apply Z.ltb_lt]; lia. Qed.

  Theorem median_filter_majority i j k : 0 < k0 -> 0 < k1 -> 0 < k2 -> Z.odd (k0 * k1 * k2) = true ->
    (Z.of_nat i < nx) -> (Z.of_nat j < ny) -> (Z.of_nat k < nz) ->
    get3 (median_filter nx ny nz px py pz k0 k1 k2 a) i j k =
      (k0 * k1 * k2 <? 2 * boxsum nx ny nz px py pz k0 k1 k2 a (Z.of_nat i) (Z.of_nat j) (Z.of_nat k)).
  Proof.
    intros H0 H1 H2 Hodd Hi Hj Hk. unfold median_filter. rewrite get3_mk3.
    replace ((i <? Z.to_nat nx)%nat && (j <? Z.to_nat ny)%nat && (k <? Z.to_nat nz)%nat) with true.
    - apply median_at_majority; try assumption. unfold inpad3. rewrite !inside_inpad by lia. reflexivity.
    - symmetry. rewrite !andb_true_iff, !Nat.ltb_lt. lia.
  Qed.
End Median.

(* ------------------------------------------------------------------ argmin *)
Section ArgminP.
  Variable K : OFld.
  Notation "x <= y" := (fle K x y).

  Lemma argmin_from_spec d : forall rest pre best bv,
    (best < length pre)%nat -> nth best (pre ++ rest) d = bv -> (forall x, In x pre -> bv <= x) ->
    let r := argmin_from K best bv (length pre) rest in
    (r < length (pre ++ rest))%nat /\ forall x, In x (pre ++ rest) -> nth r (pre ++ rest) d <= x.
  Proof.
    induction rest as [|y rest IH]; intros pre best bv Hb Hn Hle; cbn [argmin_from].
    - rewrite app_nil_r in *. split; [exact Hb|]. intros x Hx. rewrite Hn. apply Hle; exact Hx.
    - assert (E : pre ++ y :: rest = (pre ++ [y]) ++ rest) by (rewrite <- app_assoc; reflexivity).
      assert (L : length (pre ++ [y]) = S (length pre)) by (rewrite app_length; cbn; lia).
      destruct (fleb K bv y) eqn:C.
      + apply fleb_spec in C. specialize (IH (pre ++ [y]) best bv). rewrite L in IH. rewrite E. apply IH.
        * lia.
        * rewrite <- E. exact Hn.
        * intros x Hx. apply in_app_or in Hx. destruct Hx as [Hx|[<-|[]]]; [apply Hle; exact Hx | exact C].
      + assert (C' : y <= bv).
        { destruct (fle_total K bv y) as [T|T]; [apply fleb_spec in T; congruence | exact T]. }
        specialize (IH (pre ++ [y]) (length pre) y). rewrite L in IH. rewrite E. apply IH.
        * lia.
        * rewrite <- E. rewrite app_nth2 by lia. rewrite Nat.sub_diag. reflexivity.
        * intros x Hx. apply in_app_or in Hx. destruct Hx as [Hx|[<-|[]]]; [|apply fle_refl].
          apply (fle_trans K _ bv); [exact C' | apply Hle; exact Hx].
  Qed.

  (* jnp.argmin: the returned index is in range and its value is <= every entry *)
  Theorem argmin_spec d l : l <> [] ->
    (argmin K l < length l)%nat /\ forall x, In x l -> nth (argmin K l) l d <= x.
  Proof.
    destruct l as [|x0 rest]; [congruence|]. intros _. unfold argmin.
    apply (argmin_from_spec d rest [x0] 0%nat x0); [cbn; lia | reflexivity|].
    intros x [<-|[]]. apply fle_refl.
  Qed.

  (* PillarDiscretization: the chosen allowed column minimises the configured distance *)
  Theorem pillar_choice_min euclid inv_perm allowed v : allowed <> [] ->
    let ds := pillar_dists K euclid inv_perm allowed v in
    let c := pillar_choice K euclid inv_perm allowed v in
    (c < length allowed)%nat /\ forall q, (q < length allowed)%nat -> nth c ds (f0 K) <= nth q ds (f0 K).
  Proof.
    intros Hne ds c. assert (Hl : length ds = length allowed) by (unfold ds, pillar_dists; apply map_length).
    assert (Hd : ds <> []) by (intros E; apply Hne; destruct allowed; [reflexivity | discriminate]).
    destruct (argmin_spec (f0 K) ds Hd) as [H1 H2]. split; [rewrite <- Hl; exact H1|].
    intros q Hq. apply H2. apply nth_In. rewrite Hl. exact Hq.
  Qed.
End ArgminP.

(* ------------------------------------------------------------------ allowed columns *)
Section Allowed.
  Local Open Scope nat_scope.

  Lemma in_product vals n : forall p, In p (product vals n) <-> length p = n /\ Forall (fun v => In v vals) p.
  Proof.
    induction n as [|n IH]; intros p; cbn [product].
    - split.
      + intros [<-|[]]. split; constructor.
      + intros [H _]. destruct p; [left; reflexivity | discriminate].
    - rewrite in_flat_map. split.
      + intros (v & Hv & H). apply in_map_iff in H. destruct H as (p' & <- & Hp'). apply IH in Hp'. destruct Hp' as [Hl Hf].
        split; [cbn; lia | constructor; assumption].
      + intros [Hl Hf]. destruct p as [|v p']; [discriminate|]. inversion Hf; subst. exists v. split; [assumption|].
        apply in_map. apply IH. split; [cbn in Hl; lia | assumption].
  Qed.

  Lemma in_valid nm bg v : In v (filter (fun v => negb (v =? bg)) (seq 0 nm)) <-> v < nm /\ v <> bg.
  Proof. rewrite filter_In, in_seq, negb_true_iff, Nat.eqb_neq. lia. Qed.

  Lemma nth_firstn_lt {A} (d : A) : forall n q l, q < n -> nth q (firstn n l) d = nth q l d.
  Proof. induction n as [|n IH]; intros q l H; [lia|]. destruct l as [|x l]; [destruct q; reflexivity|]. destruct q; [reflexivity|]. cbn. apply IH. lia. Qed.
  Lemma nth_skipn_add {A} (d : A) : forall n l q, nth q (skipn n l) d = nth (n + q) l d.
  Proof. induction n as [|n IH]; intros l q; [reflexivity|]. destruct l as [|x l]; [destruct q; reflexivity|]. cbn. apply IH. Qed.
  Lemma in_firstn {A} n (l : list A) x : In x (firstn n l) -> In x l.
  Proof. intros H. rewrite <- (firstn_skipn n l). apply in_or_app. left; exact H. Qed.
  Lemma nth_repeat_any (bg i q : nat) : nth q (repeat bg i) bg = bg.
  Proof.
    destruct (lt_dec q i) as [H|H].
    - apply (repeat_spec i bg). apply nth_In. rewrite repeat_length. exact H.
    - apply nth_overflow. rewrite repeat_length. lia.
  Qed.

  Lemma dn_spec bg col : distinct_non_bg_le1 bg col = true <->
    (forall v w, In v col -> In w col -> v <> bg -> w <> bg -> v = w).
  Proof.
    unfold distinct_non_bg_le1.
    assert (F : forall x, In x (filter (fun v => negb (v =? bg)) col) <-> In x col /\ x <> bg).
    { intros x. rewrite filter_In, negb_true_iff, Nat.eqb_neq. tauto. }
    destruct (filter (fun v => negb (v =? bg)) col) as [|v0 r].
    - split; [|reflexivity]. intros _ v w Hv _ Hvb _. exfalso. apply (proj2 (F v)). split; assumption.
    - split.
      + intros H v w Hv Hw Hvb Hwb. rewrite forallb_forall in H.
        assert (E : forall x, In x col -> x <> bg -> x = v0).
        { intros x Hx Hxb. destruct (proj2 (F x) (conj Hx Hxb)) as [<-|Hr]; [reflexivity|]. apply Nat.eqb_eq. apply H. exact Hr. }
        rewrite (E v Hv Hvb), (E w Hw Hwb). reflexivity.
      + intros H. apply forallb_forall. intros w Hw. apply Nat.eqb_eq.
        destruct (proj1 (F v0) (or_introl eq_refl)) as [H0 H0b]. destruct (proj1 (F w) (or_intror Hw)) as [H1 H1b].
        apply H; assumption.
  Qed.

  Lemma allowed_all_char L nm bg col : bg < nm -> (exists v, v < nm /\ v <> bg) ->
    (In col (allowed_columns L nm bg false) <->
     length col = L /\ (forall v, In v col -> v < nm) /\
     (exists t, t <= L /\ forall q, q < L -> (nth q col bg = bg <-> L - t <= q))).
  Proof.
    intros Hbg (v0 & Hv0 & Hv0b). unfold allowed_columns. rewrite in_flat_map. split.
    - intros (perm & Hp & H). apply in_map_iff in H. destruct H as (i & <- & Hi). apply in_seq in Hi.
      apply in_product in Hp. destruct Hp as [Hl Hf]. rewrite Forall_forall in Hf.
      assert (Lf : length (firstn (L - i) perm) = L - i) by (rewrite firstn_length; lia).
      split; [rewrite app_length, Lf, repeat_length; lia|]. split.
      + intros v Hv. apply in_app_or in Hv. destruct Hv as [Hv|Hv].
        * apply in_firstn in Hv. apply Hf in Hv. apply in_valid in Hv. tauto.
        * apply repeat_spec in Hv. subst. exact Hbg.
      + exists i. split; [lia|]. intros q Hq. destruct (lt_dec q (L - i)) as [Hlt|Hge].
        * rewrite app_nth1 by lia. split; [|lia]. intros E. exfalso.
          assert (Hin : In (nth q (firstn (L - i) perm) bg) (firstn (L - i) perm)) by (apply nth_In; lia).
          apply in_firstn in Hin. apply Hf in Hin. apply in_valid in Hin. tauto.
        * rewrite app_nth2 by lia. rewrite nth_repeat_any. split; [lia | reflexivity].
    - intros (Hl & Hv & t & Ht & Hs).
      exists (firstn (L - t) col ++ repeat v0 t).
      assert (Lf : length (firstn (L - t) col) = L - t) by (rewrite firstn_length; lia).
      split.
      + apply in_product. split; [rewrite app_length, Lf, repeat_length; lia|]. apply Forall_forall. intros x Hx.
        apply in_valid. apply in_app_or in Hx. destruct Hx as [Hx|Hx].
        * split; [apply Hv; apply (in_firstn _ _ _ Hx)|]. destruct (In_nth _ _ bg Hx) as (q & Hq & <-). rewrite Lf in Hq.
          rewrite nth_firstn_lt by exact Hq. intros E. apply (Hs q ltac:(lia)) in E. lia.
        * apply repeat_spec in Hx. subst. tauto.
      + apply in_map_iff. exists t. split; [|apply in_seq; lia].
        rewrite firstn_app, Lf. rewrite (firstn_all2 (firstn (L - t) col)) by lia. rewrite Nat.sub_diag. cbn [firstn]. rewrite app_nil_r.
        transitivity (firstn (L - t) col ++ skipn (L - t) col); [|apply firstn_skipn]. f_equal. symmetry.
        apply (nth_ext _ _ bg bg); [rewrite skipn_length, repeat_length; lia|].
        intros q Hq. rewrite skipn_length in Hq. rewrite nth_skipn_add, nth_repeat_any. apply Hs; lia.
  Qed.

  Theorem allowed_columns_char L nm bg single col : bg < nm -> (exists v, v < nm /\ v <> bg) ->
    (In col (allowed_columns L nm bg single) <-> col_spec L nm bg single col).
  Proof.
    intros Hbg Hv. unfold col_spec. destruct single.
    - assert (E : allowed_columns L nm bg true = filter (distinct_non_bg_le1 bg) (allowed_columns L nm bg false)) by reflexivity.
      rewrite E, filter_In, (allowed_all_char L nm bg col Hbg Hv), dn_spec. split.
      + intros [(A & B & C) D]. repeat split; try assumption. intros _. exact D.
      + intros (A & B & C & D). split; [repeat split; assumption | apply D; reflexivity].
    - rewrite (allowed_all_char L nm bg col Hbg Hv). split.
      + intros (A & B & C). repeat split; try assumption. discriminate.
      + intros (A & B & C & _). repeat split; assumption.
  Qed.
End Allowed.
