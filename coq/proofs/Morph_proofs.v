(* Morph_proofs.v — C23: the repaired flood fill terminates and equals face-connected reachability;
   remove_floating_polymer keeps exactly the connected material; connect_holes_and_structures
   leaves no floating material; the code before fixes/C23.patch is refuted. *)
From Coq Require Import List Arith Bool Lia.
From FV Require Import base.Util base.MorphBase model.Morph.
Import ListNotations.

(* ------------------------------------------------------------------ cells *)
Lemma length_flat_map_const {A B} (f : A -> list B) c l :
  (forall x, length (f x) = c) -> length (flat_map f l) = length l * c.
Proof. intros H. induction l as [|x l IH]; cbn; [reflexivity|]. rewrite app_length, H, IH. lia. Qed.

Lemma length_cells3 nx ny nz : length (cells3 nx ny nz) = nx * ny * nz.
Proof.
  unfold cells3. rewrite (length_flat_map_const _ (ny * nz)).
  - rewrite seq_length. lia.
  - intros i. rewrite (length_flat_map_const _ nz).
    + rewrite seq_length. reflexivity.
    + intros j. rewrite map_length, seq_length. reflexivity.
Qed.

Lemma in_cells3 nx ny nz x : In x (cells3 nx ny nz) <-> inbox nx ny nz x.
Proof.
  destruct x as [[i j] k]. unfold cells3, inbox. rewrite in_flat_map. split.
  - intros (a & Ha & H). rewrite in_flat_map in H. destruct H as (b & Hb & H). rewrite in_map_iff in H.
    destruct H as (c & E & Hc). inversion E; subst. rewrite in_seq in *. lia.
  - intros (Hi & Hj & Hk). exists i. split; [apply in_seq; lia|]. rewrite in_flat_map. exists j.
    split; [apply in_seq; lia|]. rewrite in_map_iff. exists k. split; [reflexivity | apply in_seq; lia].
Qed.

Definition inb (nx ny nz i j k : nat) : bool := (i <? nx) && (j <? ny) && (k <? nz).
Lemma inb_true nx ny nz i j k : inb nx ny nz i j k = true <-> i < nx /\ j < ny /\ k < nz.
Proof. unfold inb. rewrite !andb_true_iff, !Nat.ltb_lt. tauto. Qed.

Lemma g_mk3 nx ny nz f i j k : g (mk3 nx ny nz f) (i, j, k) = inb nx ny nz i j k && f i j k.
Proof. cbn [g]. rewrite get3_mk3. unfold inb. destruct ((i <? nx) && (j <? ny) && (k <? nz)); reflexivity. Qed.

Lemma wf3_mk3 nx ny nz f : wf3 nx ny nz (mk3 nx ny nz f).
Proof.
  unfold wf3. apply mk3_ext. intros i j k Hi Hj Hk. rewrite get3_mk3.
  apply Nat.ltb_lt in Hi, Hj, Hk. rewrite Hi, Hj, Hk. reflexivity.
Qed.

Lemma wf3_inbox nx ny nz t x : wf3 nx ny nz t -> g t x = true -> inbox nx ny nz x.
Proof.
  intros H. destruct x as [[i j] k]. rewrite H, g_mk3. intros E. apply andb_true_iff in E.
  apply inb_true. tauto.
Qed.

Lemma wf3_ext nx ny nz a b : wf3 nx ny nz a -> wf3 nx ny nz b ->
  (forall x, In x (cells3 nx ny nz) -> g a x = g b x) -> a = b.
Proof.
  intros Ha Hb H. rewrite Ha, Hb. apply mk3_ext. intros i j k Hi Hj Hk.
  apply (H (i, j, k)). apply in_cells3. cbn. lia.
Qed.

(* ------------------------------------------------------------------ dilation *)
Definition near2 (i j a b : nat) : Prop :=
  (a = i /\ b = j) \/ (b = j /\ (a = S i \/ i = S a)) \/ (a = i /\ (b = S j \/ j = S b)).

Lemma dil4_true f i j : dil4 f i j = true <-> exists a b, f a b = true /\ near2 i j a b.
Proof.
  unfold dil4, near2. split.
  - intros H. repeat (apply orb_true_iff in H; destruct H as [H|H]).
    + exists i, j. tauto.
    + destruct i as [|i']; [discriminate|]. exists i', j. cbn in H. intuition.
    + exists (S i), j. intuition.
    + destruct j as [|j']; [discriminate|]. exists i, j'. cbn in H. intuition.
    + exists i, (S j). intuition.
  - intros (a & b & H & [[-> ->]|[[-> [->| ->]]|[-> [->| ->]]]]); cbn [pm]; rewrite H; repeat rewrite orb_true_r; reflexivity.
Qed.

Lemma dil4_self f i j : f i j = true -> dil4 f i j = true.
Proof. intros H. apply dil4_true. exists i, j. split; [exact H | left; tauto]. Qed.

Section Flood.
  Variables nx ny nz : nat.
  Notation cells := (cells3 nx ny nz).
  Notation WF := (wf3 nx ny nz).

  Lemma g_step_xy m t i j k : g (step_xy nx ny nz m t) (i, j, k) =
    inb nx ny nz i j k && (dil4 (fun a b => get3 t a b k) i j && get3 m i j k).
  Proof. apply g_mk3. Qed.
  Lemma g_step_xz m t i j k : g (step_xz nx ny nz m t) (i, j, k) =
    inb nx ny nz i j k && (dil4 (fun a c => get3 t a j c) i k && get3 m i j k).
  Proof. apply g_mk3. Qed.
  Lemma g_step_yz m t i j k : g (step_yz nx ny nz m t) (i, j, k) =
    inb nx ny nz i j k && (dil4 (fun b c => get3 t i b c) j k && get3 m i j k).
  Proof. apply g_mk3. Qed.

  Definition sub (m c : arr3) : Prop := forall x, g c x = true -> g m x = true.

  Lemma sweep_wf m t : WF (sweep nx ny nz m t).
  Proof. apply wf3_mk3. Qed.
  Lemma sweep_sub m t : sub m (sweep nx ny nz m t).
  Proof.
    intros [[i j] k]. unfold sweep. rewrite g_step_yz. intros H.
    apply andb_true_iff in H. destruct H as [_ H]. apply andb_true_iff in H. apply H.
  Qed.

  (* every step keeps the cells it already has, as far as they are mask cells inside the box *)
  Lemma step_xy_keep m t x : In x cells -> g t x = true -> g m x = true -> g (step_xy nx ny nz m t) x = true.
  Proof.
    destruct x as [[i j] k]. intros Hin Ht Hm. rewrite g_step_xy. apply in_cells3 in Hin.
    rewrite (proj2 (inb_true _ _ _ _ _ _) Hin). cbn [andb]. cbn [g] in Ht, Hm. rewrite Hm, andb_true_r.
    apply (dil4_self (fun a b => get3 t a b k)). exact Ht.
  Qed.
  Lemma step_xz_keep m t x : In x cells -> g t x = true -> g m x = true -> g (step_xz nx ny nz m t) x = true.
  Proof.
    destruct x as [[i j] k]. intros Hin Ht Hm. rewrite g_step_xz. apply in_cells3 in Hin.
    rewrite (proj2 (inb_true _ _ _ _ _ _) Hin). cbn [andb]. cbn [g] in Ht, Hm. rewrite Hm, andb_true_r.
    apply (dil4_self (fun a c => get3 t a j c)). exact Ht.
  Qed.
  Lemma step_yz_keep m t x : In x cells -> g t x = true -> g m x = true -> g (step_yz nx ny nz m t) x = true.
  Proof.
    destruct x as [[i j] k]. intros Hin Ht Hm. rewrite g_step_yz. apply in_cells3 in Hin.
    rewrite (proj2 (inb_true _ _ _ _ _ _) Hin). cbn [andb]. cbn [g] in Ht, Hm. rewrite Hm, andb_true_r.
    apply (dil4_self (fun b c => get3 t i b c)). exact Ht.
  Qed.
  Lemma sweep_keep m t x : In x cells -> g t x = true -> g m x = true -> g (sweep nx ny nz m t) x = true.
  Proof.
    intros Hin Ht Hm. unfold sweep. apply step_yz_keep; [exact Hin | | exact Hm].
    apply step_xz_keep; [exact Hin | | exact Hm]. apply step_xy_keep; assumption.
  Qed.

  (* termination of the while loop, with the result a fixpoint and an iterate *)
  Lemma flood_total m c0 : exists r k, flood nx ny nz m c0 = Some r /\ r = Nat.iter (S k) (sweep nx ny nz m) c0 /\
    sweep nx ny nz m r = r /\ WF r /\ sub m r.
  Proof.
    unfold flood, ncells. rewrite <- (length_cells3 nx ny nz).
    apply (iterate_until_stable_total arr3_eqb arr3_eqb_spec cells g WF (wf3_ext nx ny nz) (sweep nx ny nz m) (sub m)).
    - intros c. apply sweep_wf.
    - intros c _. apply sweep_sub.
    - intros c _ Hs x Hin Hc. apply sweep_keep; [exact Hin | exact Hc | apply Hs; exact Hc].
    - apply sweep_sub.
  Qed.

  Section Reach.
    Variables m c0 : arr3.
    Hypothesis m_wf : WF m.
    Notation R := (reach (g m) (g c0)).
    (* the first masked xy-dilation of the seed only produces reachable cells *)
    Hypothesis seed_ok : forall i j k a b, g c0 (a, b, k) = true -> near2 i j a b -> g m (i, j, k) = true -> R (i, j, k).

    Lemma step_xy_sound t : (forall x, g t x = true -> g c0 x = true \/ R x) ->
      forall x, g (step_xy nx ny nz m t) x = true -> R x.
    Proof.
      intros H [[i j] k]. rewrite g_step_xy. intros E. apply andb_true_iff in E. destruct E as [_ E].
      apply andb_true_iff in E. destruct E as [D Hm]. apply dil4_true in D. destruct D as (a & b & Ht & N).
      destruct (H (a, b, k) Ht) as [Hs|Hr]; [apply (seed_ok i j k a b); assumption|].
      destruct N as [[-> ->]|N]; [exact Hr|].
      apply (reach_step _ _ (a, b, k)); [exact Hr | | exact Hm]. cbn. destruct N as [[-> N]|[-> N]]; [left | right; left]; intuition.
    Qed.
    Lemma step_xz_sound t : (forall x, g t x = true -> R x) -> forall x, g (step_xz nx ny nz m t) x = true -> R x.
    Proof.
      intros H [[i j] k]. rewrite g_step_xz. intros E. apply andb_true_iff in E. destruct E as [_ E].
      apply andb_true_iff in E. destruct E as [D Hm]. apply dil4_true in D. destruct D as (a & c & Ht & N).
      assert (Hr := H (a, j, c) Ht). destruct N as [[-> ->]|N]; [exact Hr|].
      apply (reach_step _ _ (a, j, c)); [exact Hr | | exact Hm]. cbn. destruct N as [[-> N]|[-> N]]; [left | right; right]; intuition.
    Qed.
    Lemma step_yz_sound t : (forall x, g t x = true -> R x) -> forall x, g (step_yz nx ny nz m t) x = true -> R x.
    Proof.
      intros H [[i j] k]. rewrite g_step_yz. intros E. apply andb_true_iff in E. destruct E as [_ E].
      apply andb_true_iff in E. destruct E as [D Hm]. apply dil4_true in D. destruct D as (b & c & Ht & N).
      assert (Hr := H (i, b, c) Ht). destruct N as [[-> ->]|N]; [exact Hr|].
      apply (reach_step _ _ (i, b, c)); [exact Hr | | exact Hm]. cbn. destruct N as [[-> N]|[-> N]]; [right; left | right; right]; intuition.
    Qed.
    Lemma sweep_sound t : (forall x, g t x = true -> g c0 x = true \/ R x) -> forall x, g (sweep nx ny nz m t) x = true -> R x.
    Proof. intros H. unfold sweep. apply step_yz_sound. apply step_xz_sound. apply step_xy_sound. exact H. Qed.

    Lemma iter_sound k : forall x, g (Nat.iter (S k) (sweep nx ny nz m) c0) x = true -> R x.
    Proof.
      induction k as [|k IH]; cbn [Nat.iter nat_rect].
      - apply sweep_sound. intros x Hx. left; exact Hx.
      - apply sweep_sound. intros x Hx. right. apply IH. exact Hx.
    Qed.

    Lemma iter_seed k x : In x cells -> g c0 x = true -> g m x = true -> g (Nat.iter (S k) (sweep nx ny nz m) c0) x = true.
    Proof.
      intros Hin Hs Hm. induction k as [|k IH]; cbn [Nat.iter nat_rect].
      - apply sweep_keep; assumption.
      - apply sweep_keep; assumption.
    Qed.

    (* a fixpoint of the sweep inside the mask is closed under face adjacency within the mask *)
    Lemma fix_closed r : sweep nx ny nz m r = r -> WF r -> sub m r ->
      forall x y, g r x = true -> adj x y -> g m y = true -> g r y = true.
    Proof.
      intros Hfix Hwf Hsub x y Hx A Hy. rewrite <- Hfix. unfold sweep.
      assert (Hinx : In x cells) by (apply in_cells3; apply (wf3_inbox _ _ _ r); assumption).
      assert (Hiny : In y cells) by (apply in_cells3; apply (wf3_inbox _ _ _ m); assumption).
      assert (Hmx : g m x = true) by (apply Hsub; exact Hx).
      destruct x as [[i j] k], y as [[a b] c].
      assert (Iy : inb nx ny nz a b c = true) by (apply inb_true; apply in_cells3 in Hiny; exact Hiny).
      cbn in A. destruct A as [(-> & -> & A)|[(-> & -> & A)|(-> & -> & A)]].
      - (* x-neighbour: found by the xy dilation *)
        apply step_yz_keep; [exact Hiny | | exact Hy]. apply step_xz_keep; [exact Hiny | | exact Hy].
        rewrite g_step_xy, Iy. cbn [andb]. cbn [g] in Hy. rewrite Hy, andb_true_r.
        apply dil4_true. exists i, b. split; [exact Hx|]. right; left. intuition.
      - (* y-neighbour: xy dilation *)
        apply step_yz_keep; [exact Hiny | | exact Hy]. apply step_xz_keep; [exact Hiny | | exact Hy].
        rewrite g_step_xy, Iy. cbn [andb]. cbn [g] in Hy. rewrite Hy, andb_true_r.
        apply dil4_true. exists a, j. split; [exact Hx|]. right; right. intuition.
      - (* z-neighbour: xz dilation *)
        apply step_yz_keep; [exact Hiny | | exact Hy].
        rewrite g_step_xz, Iy. cbn [andb]. cbn [g] in Hy. rewrite Hy, andb_true_r.
        apply dil4_true. exists a, k. split; [|right; right; intuition].
        apply (step_xy_keep m r (a, b, k)); assumption.
    Qed.

    Theorem flood_spec : exists r, flood nx ny nz m c0 = Some r /\ WF r /\ forall x, g r x = true <-> R x.
    Proof.
      destruct (flood_total m c0) as (r & k & Hr & Hk & Hfix & Hwf & Hsub).
      exists r. split; [exact Hr|]. split; [exact Hwf|]. intros x. split.
      - rewrite Hk. apply iter_sound.
      - intros H. induction H as [x Hs Hm | x y _ IH A Hm].
        + rewrite Hk. apply iter_seed; [|exact Hs | exact Hm]. apply in_cells3. apply (wf3_inbox _ _ _ m); assumption.
        + apply (fix_closed r Hfix Hwf Hsub x y); assumption.
    Qed.
  End Reach.

  Lemma reach_seed_ext (m s1 s2 : cell -> bool) : (forall x, m x = true -> s1 x = s2 x) ->
    forall x, reach m s1 x -> reach m s2 x.
  Proof.
    intros H x R. induction R as [x Hs Hm | x y _ IH A Hm].
    - apply reach_seed; [rewrite <- H; assumption | exact Hm].
    - apply (reach_step _ _ x); assumption.
  Qed.
  Lemma reach_in_m (m s : cell -> bool) x : reach m s x -> m x = true.
  Proof. intros R. destruct R; assumption. Qed.

  Lemma g_bottom i j k : g (bottom nx ny nz) (i, j, k) = inb nx ny nz i j k && (k =? 0).
  Proof. apply g_mk3. Qed.

  (* compute_polymer_connection (repaired) = reachability from the bottom layer *)
  Theorem polymer_connection_spec m : WF m ->
    exists r, polymer_connection nx ny nz m = Some r /\ WF r /\ forall x, g r x = true <-> reach (g m) is_bottom x.
  Proof.
    intros Hwf. unfold polymer_connection.
    assert (Hseed : forall x, g m x = true -> g (bottom nx ny nz) x = is_bottom x).
    { intros [[i j] k] Hm. rewrite g_bottom. apply (wf3_inbox _ _ _ m _ Hwf) in Hm. apply inb_true in Hm. rewrite Hm. reflexivity. }
    destruct (flood_spec m (bottom nx ny nz) Hwf) as (r & Hr & Hw & Hs).
    - intros i j k a b Hb N Hm. apply reach_seed; [|exact Hm].
      rewrite (Hseed _ Hm). rewrite g_bottom in Hb. apply andb_true_iff in Hb. cbn. apply Hb.
    - exists r. split; [exact Hr|]. split; [exact Hw|]. intros x. rewrite Hs. split; apply reach_seed_ext.
      + exact Hseed.
      + intros y Hy. symmetry. apply Hseed. exact Hy.
  Qed.

  Lemma wf_inv3 m : WF (inv3 nx ny nz m).
  Proof. apply wf3_mk3. Qed.

  (* compute_air_connection (repaired) = background cells reachable from the side faces and the top *)
  Theorem air_connection_spec m :
    exists r, air_connection nx ny nz m = Some r /\ WF r /\
      forall x, g r x = true <-> reach (air nx ny nz m) (is_side nx ny nz) x.
  Proof.
    unfold air_connection, air. set (a := inv3 nx ny nz m).
    assert (Hseed : forall x, g a x = true -> g (and3 nx ny nz (sides nx ny nz) a) x = is_side nx ny nz x).
    { intros [[i j] k] Ha. unfold and3, sides. rewrite g_mk3. cbn [g] in Ha. rewrite Ha, andb_true_r.
      rewrite get3_mk3. assert (Hin := wf3_inbox _ _ _ a (i, j, k) (wf_inv3 m) Ha). apply inb_true in Hin.
      rewrite Hin. unfold inb in Hin. rewrite Hin. reflexivity. }
    assert (Hsub : forall x, g (and3 nx ny nz (sides nx ny nz) a) x = true -> g a x = true).
    { intros [[i j] k]. unfold and3. rewrite g_mk3. intros H. apply andb_true_iff in H. destruct H as [_ H].
      apply andb_true_iff in H. apply H. }
    destruct (flood_spec a (and3 nx ny nz (sides nx ny nz) a) (wf_inv3 m)) as (r & Hr & Hw & Hs).
    - intros i j k p q Hc N Hm.
      assert (R0 : reach (g a) (g (and3 nx ny nz (sides nx ny nz) a)) (p, q, k)) by (apply reach_seed; [exact Hc | apply Hsub; exact Hc]).
      destruct N as [[-> ->]|N]; [exact R0|].
      apply (reach_step _ _ (p, q, k)); [exact R0 | | exact Hm]. cbn. destruct N as [[-> N]|[-> N]]; [left | right; left]; intuition.
    - exists r. split; [exact Hr|]. split; [exact Hw|]. intros x. rewrite Hs. split; apply reach_seed_ext.
      + exact Hseed.
      + intros y Hy. symmetry. apply Hseed. exact Hy.
  Qed.

  (* remove_floating_polymer (repaired) keeps exactly the material connected to the bottom layer *)
  Theorem remove_floating_spec m : WF m ->
    exists r, remove_floating nx ny nz m = Some r /\ WF r /\ forall x, g r x = true <-> reach (g m) is_bottom x.
  Proof.
    intros Hwf. destruct (polymer_connection_spec m Hwf) as (c & Hc & Hcw & Hs).
    unfold remove_floating. rewrite Hc. exists (remove_with nx ny nz m c). split; [reflexivity|]. split; [apply wf3_mk3|].
    intros [[i j] k]. unfold remove_with. rewrite g_mk3. rewrite <- Hs. cbn [g]. split.
    - intros H. apply andb_true_iff in H. destruct H as [_ H]. destruct (get3 m i j k), (get3 c i j k); cbn in H; congruence.
    - intros H. assert (Hm : g m (i, j, k) = true) by (apply (reach_in_m _ is_bottom); apply Hs; exact H).
      assert (Hin := wf3_inbox _ _ _ c (i, j, k) Hcw H). apply inb_true in Hin. cbn [g] in Hm. rewrite Hin, Hm, H. reflexivity.
  Qed.

  (* restricting the design to its reachable part does not change reachability *)
  Lemma reach_restrict (m r s : cell -> bool) : (forall x, r x = true <-> reach m s x) -> forall x, reach m s x -> reach r s x.
  Proof.
    intros H x R. induction R as [x Hs Hm | x y R0 IH A Hm].
    - apply reach_seed; [exact Hs|]. apply H. apply reach_seed; assumption.
    - apply (reach_step _ _ x); [exact IH | exact A|]. apply H. apply (reach_step _ _ x); assumption.
  Qed.

  Lemma fold_opt_wf step m l r : (forall m i m', step m i = Some m' -> WF m') -> WF m ->
    fold_opt step m l = Some r -> WF r.
  Proof.
    intros Hs. revert m. induction l as [|i l IH]; intros m Hm H; cbn in H.
    - inversion H; subst; exact Hm.
    - destruct (step m i) as [m'|] eqn:E; [|discriminate]. apply (IH m'); [apply (Hs m i); exact E | exact H].
  Qed.

  Lemma polymer_pass_step_wf m i m' : polymer_pass_step nx ny nz m i = Some m' -> WF m'.
  Proof.
    unfold polymer_pass_step. destruct (polymer_connection nx ny nz m); [|discriminate].
    destruct (connect_slice _ _ _ _ _ _) as [[nm nu]|]; [|discriminate]. intros E; inversion E. apply wf3_mk3.
  Qed.
  Lemma air_pass_step_wf m i m' : air_pass_step nx ny nz m i = Some m' -> WF m'.
  Proof.
    unfold air_pass_step. destruct (air_connection nx ny nz m); [|discriminate].
    destruct (connect_slice _ _ _ _ _ _) as [[nm nu]|]; [|discriminate]. intros E; inversion E. apply wf3_mk3.
  Qed.

  (* connect_holes_and_structures (repaired): no floating material in the result *)
  Theorem connect_no_floating m r : connect_holes nx ny nz m = Some r ->
    WF r /\ forall x, g r x = true -> reach (g r) is_bottom x.
  Proof.
    unfold connect_holes. destruct (fold_opt (polymer_pass_step nx ny nz) _ _) as [m1|] eqn:E1; [|discriminate].
    destruct (fold_opt (air_pass_step nx ny nz) m1 _) as [m2|] eqn:E2; [|discriminate]. intros H.
    assert (W1 : WF m1) by (apply (fold_opt_wf _ _ _ _ polymer_pass_step_wf (wf3_mk3 nx ny nz (get3 m)) E1)).
    assert (W2 : WF m2) by (apply (fold_opt_wf _ _ _ _ air_pass_step_wf W1 E2)).
    destruct (remove_floating_spec m2 W2) as (r' & Hr' & Hw & Hs). rewrite Hr' in H. inversion H; subst r'.
    split; [exact Hw|]. intros x Hx. apply (reach_restrict (g m2)); [exact Hs | apply Hs; exact Hx].
  Qed.
End Flood.

(* ------------------------------------------------------------------ the code before the fix is refuted *)
(* 3x3x3: one seed cell in the bottom layer under a serpentine in the middle layer (8 material cells) *)
Definition serpentine3 : arr3 :=
  [[[true; true; false]; [false; true; false]; [false; true; false]];
   [[false; false; false]; [false; false; false]; [false; true; false]];
   [[false; true; false]; [false; true; false]; [false; true; false]]].

Theorem remove_floating_src_old_refuted :
  exists m x r, wf3 3 3 3 m /\ reach (g m) is_bottom x /\ remove_floating_src_old 3 3 3 m = Some r /\ g r x = false.
Proof.
  exists serpentine3, (2, 0, 1). eexists. split; [reflexivity|]. split; [|split; [vm_compute; reflexivity | reflexivity]].
  destruct (remove_floating_spec 3 3 3 serpentine3 eq_refl) as (r & Hr & _ & Hs). apply Hs.
  vm_compute in Hr. inversion Hr. reflexivity.
Qed.

(* a design with a single layer loses all its material (the seed layer is the zero padding) *)
Theorem remove_floating_src_old_one_layer_refuted :
  exists m x r, wf3 1 1 1 m /\ reach (g m) is_bottom x /\ remove_floating_src_old 1 1 1 m = Some r /\ g r x = false.
Proof.
  exists [[[true]]], (0, 0, 0). eexists. split; [reflexivity|]. split; [|split; [vm_compute; reflexivity | reflexivity]].
  apply reach_seed; reflexivity.
Qed.

(* thin designs crash (ValueError of convolve2d) *)
Theorem remove_floating_src_old_crash : forall m, remove_floating_src_old 2 4 4 m = None.
Proof. intros m. reflexivity. Qed.

(* ------------------------------------------------------------------ bounded-exhaustive feasibility of connect_holes *)
Lemma in_all_blists l : In l (all_blists (length l)).
Proof.
  induction l as [|b l IH]; cbn; [left; reflexivity|]. apply in_flat_map. exists l. split; [exact IH|].
  destruct b; cbn; tauto.
Qed.

Lemma feasible_b_spec nx ny nz r : wf3 nx ny nz r -> feasible_b nx ny nz r = true ->
  (forall x, g r x = true -> reach (g r) is_bottom x) /\
  (forall x, inbox nx ny nz x -> g r x = false -> reach (air nx ny nz r) (is_side nx ny nz) x).
Proof.
  intros Hwf. unfold feasible_b.
  destruct (polymer_connection_spec nx ny nz r Hwf) as (pc & Hpc & _ & Hps).
  destruct (air_connection_spec nx ny nz r) as (ac & Hac & _ & Has).
  rewrite Hpc, Hac. intros H. rewrite forallb_forall in H. split.
  - intros x Hx. apply Hps. assert (Hin := wf3_inbox _ _ _ r x Hwf Hx). apply in_cells3 in Hin.
    specialize (H x Hin). rewrite Hx in H. exact H.
  - intros x Hin Hx. apply Has. apply in_cells3 in Hin. specialize (H x Hin). rewrite Hx in H. exact H.
Qed.

Lemma family_ok_spec nx ny nz fam : forallb (connect_feasible_b nx ny nz) fam = true ->
  forall l, In l fam ->
  exists r, connect_holes nx ny nz (of_flat nx ny nz l) = Some r /\
    (forall x, g r x = true -> reach (g r) is_bottom x) /\
    (forall x, inbox nx ny nz x -> g r x = false -> reach (air nx ny nz r) (is_side nx ny nz) x).
Proof.
  intros H l Hl. rewrite forallb_forall in H. specialize (H l Hl).
  unfold connect_feasible_b in H. destruct (connect_holes nx ny nz (of_flat nx ny nz l)) as [r|] eqn:E; [|discriminate].
  exists r. split; [reflexivity|]. apply feasible_b_spec; [|exact H]. apply (connect_no_floating nx ny nz _ r E).
Qed.

Definition bounded_ok (shapes : list (nat * nat * nat)) : bool :=
  forallb (fun s => let '(nx, ny, nz) := s in forallb (connect_feasible_b nx ny nz) (all_blists (nx * ny * nz))) shapes.

Lemma bounded_ok_spec shapes : bounded_ok shapes = true ->
  forall nx ny nz, In (nx, ny, nz) shapes -> forall l, length l = nx * ny * nz ->
  exists r, connect_holes nx ny nz (of_flat nx ny nz l) = Some r /\
    (forall x, g r x = true -> reach (g r) is_bottom x) /\
    (forall x, inbox nx ny nz x -> g r x = false -> reach (air nx ny nz r) (is_side nx ny nz) x).
Proof.
  intros H nx ny nz Hs l Hl. unfold bounded_ok in H. rewrite forallb_forall in H. specialize (H _ Hs). cbn in H.
  apply (family_ok_spec nx ny nz _ H). rewrite <- Hl. apply in_all_blists.
Qed.

(* all shapes with at most 8 cells, and the three 12-cell boxes 2x2x3 (in these every cell touches a side
   face or the top, so the background clause only says that the loops terminate and nothing is lost) *)
Definition small_shapes : list (nat * nat * nat) :=
  filter (fun s => let '(a, b, c) := s in (1 <=? a * b * c) && (a * b * c <=? 8))
         (flat_map (fun a => flat_map (fun b => map (fun c => (a, b, c)) (seq 1 8)) (seq 1 8)) (seq 1 8))
  ++ [(2, 2, 3); (2, 3, 2); (3, 2, 2)].

Lemma small_shapes_ok : bounded_ok small_shapes = true.
Proof. vm_compute. reflexivity. Qed.

(* 3x3x2 slabs — the smallest box with an interior cell, (1,1,0), that can be enclosed: every top layer
   (2^9), centre cell either way, bottom ring solid or with exactly one background cell (9 rings) *)
Definition ring_cfgs : list (list bool) :=
  repeat true 8 :: map (fun p => map (fun q => negb (q =? p)) (seq 0 8)) (seq 0 8).
Definition slab_design (ring : list bool) (centre : bool) (top : list bool) : list bool :=
  flat_map (fun p => [ (if p =? 4 then centre else nth (if p <? 4 then p else p - 1) ring true); nth p top false ]) (seq 0 9).
Definition slab_family : list (list bool) :=
  flat_map (fun ring => flat_map (fun centre => map (slab_design ring centre) (all_blists 9)) [false; true]) ring_cfgs.

Lemma slab_family_ok : forallb (connect_feasible_b 3 3 2) slab_family = true.
Proof. vm_compute. reflexivity. Qed.
