(* Waves_proofs.v — lemmas about model/Waves.v (C41). *)
From Coq Require Import ZArith List Bool Lia Field Ring QArith Qcanon Qround.
From FV Require Import base.Scalar base.RecorderBase model.Waves proofs.Recorder_proofs.
Import ListNotations.
Open Scope Z_scope.

Section WavesProofs.
  Variable K : OFld.
  Add Field KF : (Fth K).
  Local Open Scope fld_scope.
  Notation "x <= y" := (fle K x y) : fld_scope.

  (* ---------------- ordered-field facts from the OFld interface ---------------- *)
  Lemma le_sub x y : x <= y <-> 0 <= y - x.
  Proof.
    split; intros H.
    - pose proof (fle_add K x y (- x) H) as G. replace (x + - x) with (0 : K) in G by ring.
      replace (y + - x) with (y - x) in G by ring. exact G.
    - pose proof (fle_add K 0 (y - x) x H) as G. replace (0 + x) with x in G by ring.
      replace (y - x + x) with y in G by ring. exact G.
  Qed.
  Lemma sq_nonneg x : 0 <= x * x.
  Proof.
    destruct (fle_total K 0 x) as [H|H].
    - apply fle_mul; exact H.
    - assert (G : 0 <= - x) by (apply le_sub in H; replace (0 - x) with (- x) in H by ring; exact H).
      replace (x * x) with ((- x) * (- x)) by ring. apply fle_mul; exact G.
  Qed.
  Lemma zero_le_one : (0 : K) <= 1.
  Proof. replace (1 : K) with ((1 : K) * 1) by ring. apply sq_nonneg. Qed.
  Lemma add_nonneg x y : 0 <= x -> 0 <= y -> 0 <= x + y.
  Proof.
    intros Hx Hy. pose proof (fle_add K 0 x y Hx) as G. replace (0 + y) with y in G by ring.
    exact (fle_trans K 0 y (x + y) Hy G).
  Qed.
  Lemma inv_nonneg x : 0 <= x -> x <> 0 -> 0 <= / x.
  Proof.
    intros Hx Hn. replace (/ x) with (x * (/ x * / x)) by (field; exact Hn).
    apply fle_mul; [exact Hx | apply sq_nonneg].
  Qed.

  Lemma div1_nz (x : K) : x <> 0 -> 1 / x <> 0.
  Proof.
    intros H E. assert (G : 1 / x * x = 1) by (field; exact H). rewrite E in G. apply (f01 K). rewrite <- G. ring.
  Qed.

  (* ---------------- wave descriptions ---------------- *)
  Variable c0 : K.
  Hypothesis c0_nz : c0 <> 0.
  Definition wave_nz (w : wave K) : Prop := match w with Period p => p <> 0 | Wavelength l => l <> 0 | Frequency f => f <> 0 end.

  Theorem period_frequency (w : wave K) : wave_nz w -> get_period K c0 w * get_frequency K c0 w = 1.
  Proof. destruct w; cbn; intros H; field; repeat split; auto. Qed.
  Theorem wavelength_period (w : wave K) : wave_nz w -> get_wavelength K c0 w = c0 * get_period K c0 w.
  Proof. destruct w; cbn; intros H; field; repeat split; auto. Qed.
  Theorem wave_roundtrip (w : wave K) : wave_nz w ->
    get_period K c0 (Frequency (get_frequency K c0 w)) = get_period K c0 w /\
    get_period K c0 (Wavelength (get_wavelength K c0 w)) = get_period K c0 w.
  Proof. destruct w; cbn; intros H; split; field; repeat split; auto; try (intros E; apply (f01 K); symmetry; exact E). Qed.

  (* ---------------- ramp and envelopes ---------------- *)
  Lemma clip01_bounds x : 0 <= clip01 K x /\ clip01 K x <= 1.
  Proof.
    unfold clip01. destruct (fleb K 0 x) eqn:A.
    - apply fleb_spec in A. destruct (fleb K x 1) eqn:B.
      + apply fleb_spec in B. split; assumption.
      + split; [apply zero_le_one | apply fle_refl].
    - destruct (fleb K 0 1) eqn:B.
      + apply fleb_spec in B. split; [apply fle_refl | exact B].
      + split; [apply zero_le_one | apply fle_refl].
  Qed.
  Lemma clip01_zero : clip01 K 0 = 0.
  Proof.
    unfold clip01. replace (fleb K 0 0) with true by (symmetry; apply fleb_spec, fle_refl).
    replace (fleb K 0 1) with true by (symmetry; apply fleb_spec, zero_le_one). reflexivity.
  Qed.
  Lemma clip01_id x : 0 <= x -> x <= 1 -> clip01 K x = x.
  Proof.
    intros A B. unfold clip01. replace (fleb K 0 x) with true by (symmetry; apply fleb_spec; exact A).
    replace (fleb K x 1) with true by (symmetry; apply fleb_spec; exact B). reflexivity.
  Qed.
  Lemma clip01_sat x : 1 <= x -> clip01 K x = 1.
  Proof.
    intros A. unfold clip01.
    replace (fleb K 0 x) with true by (symmetry; apply fleb_spec; exact (fle_trans K 0 1 x zero_le_one A)).
    destruct (fleb K x 1) eqn:B; [|reflexivity]. apply fleb_spec in B. apply fle_antisym; assumption.
  Qed.
  Lemma clip01_mono x y : x <= y -> clip01 K x <= clip01 K y.
  Proof.
    intros H. destruct (fle_total K 1 y) as [Hy|Hy].
    - rewrite (clip01_sat y Hy). apply clip01_bounds.
    - destruct (fle_total K 0 x) as [Hx|Hx].
      + rewrite (clip01_id x Hx (fle_trans K x y 1 H Hy)), (clip01_id y (fle_trans K 0 x y Hx H) Hy). exact H.
      + assert (E : clip01 K x = 0).
        { unfold clip01. destruct (fleb K 0 x) eqn:A.
          - apply fleb_spec in A. assert (x = 0) by (apply fle_antisym; assumption). subst x.
            replace (fleb K 0 1) with true by (symmetry; apply fleb_spec, zero_le_one). reflexivity.
          - replace (fleb K 0 1) with true by (symmetry; apply fleb_spec, zero_le_one). reflexivity. }
        rewrite E. apply clip01_bounds.
  Qed.

  (* r in [0,1], -1 <= c <= 1  ->  -1 <= r*c <= 1 *)
  Lemma mul_unit_bounds r c : 0 <= r -> r <= 1 -> - (1) <= c -> c <= 1 -> - (1) <= r * c /\ r * c <= 1.
  Proof.
    intros R0 R1 C0 C1. apply le_sub in R1. apply le_sub in C0. apply le_sub in C1. split; apply le_sub.
    - replace (r * c - - (1)) with ((1 - r) + r * (c - - (1))) by ring. apply add_nonneg; [exact R1 | apply fle_mul; assumption].
    - replace (1 - r * c) with ((1 - r) + r * (1 - c)) by ring. apply add_nonneg; [exact R1 | apply fle_mul; assumption].
  Qed.

  Variable cosf expf : K -> K.
  Variable two_pi : K.
  Hypothesis cos_bounds : forall x, - (1) <= cosf x /\ cosf x <= 1.
  Hypothesis exp_bounds : forall y, 0 <= y -> 0 <= expf (- y) /\ expf (- y) <= 1.

  (* continuous-wave profile: ramps from 0 (at t = 0) to full amplitude (from nstart periods on, monotonically)
     and never exceeds unit amplitude *)
  Theorem ramp_bounds t d : 0 <= linear_rampup K t d /\ linear_rampup K t d <= 1.
  Proof. apply clip01_bounds. Qed.
  Theorem ramp_start d : d <> 0 -> linear_rampup K 0 d = 0.
  Proof. intros H. unfold linear_rampup. replace (0 / d) with (0 : K) by (field; exact H). apply clip01_zero. Qed.
  Theorem ramp_full t d : 0 <= d -> d <> 0 -> d <= t -> linear_rampup K t d = 1.
  Proof.
    intros D0 Dn H. unfold linear_rampup. apply clip01_sat. apply le_sub. apply le_sub in H.
    replace (t / d - 1) with ((t - d) * / d) by (field; exact Dn). apply fle_mul; [exact H | apply inv_nonneg; assumption].
  Qed.
  Theorem ramp_mono t1 t2 d : 0 <= d -> d <> 0 -> t1 <= t2 -> linear_rampup K t1 d <= linear_rampup K t2 d.
  Proof.
    intros D0 Dn H. unfold linear_rampup. apply clip01_mono. apply le_sub. apply le_sub in H.
    replace (t2 / d - t1 / d) with ((t2 - t1) * / d) by (field; exact Dn). apply fle_mul; [exact H | apply inv_nonneg; assumption].
  Qed.
  Theorem single_frequency_bounded own nstart t period ph :
    - (1) <= single_frequency K cosf two_pi own nstart t period ph /\ single_frequency K cosf two_pi own nstart t period ph <= 1.
  Proof.
    unfold single_frequency. destruct (ramp_bounds t (nstart * period)) as [A B].
    destruct (cos_bounds (two_pi * t / period + ph + own)) as [C D]. apply mul_unit_bounds; assumption.
  Qed.

  (* Gaussian pulse: the envelope lies in [0,1] for every sigma <> 0, so |envelope * carrier| <= 1 *)
  Theorem gaussian_envelope_bounded t center sigma : sigma <> 0 ->
    0 <= gaussian_envelope K expf t center sigma /\ gaussian_envelope K expf t center sigma <= 1.
  Proof.
    intros Hs. unfold gaussian_envelope.
    assert (H2 : (1 + 1 : K) <> 0).
    { intros E. pose proof zero_le_one as Z. pose proof (fle_add K 0 1 1 Z) as G. rewrite E in G.
      replace (0 + 1) with (1 : K) in G by ring. apply (f01 K). apply fle_antisym; assumption. }
    assert (Hss : sigma * sigma <> 0).
    { intros E. apply Hs. assert (G : sigma = sigma * sigma * / sigma) by (field; exact Hs). rewrite E in G. rewrite G. ring. }
    assert (X : - ((t - center) * (t - center)) / ((1 + 1) * (sigma * sigma))
                = - (((t - center) * (t - center)) * (/ (1 + 1) * / (sigma * sigma)))) by (field; split; [exact Hs | exact H2]).
    rewrite X.
    apply exp_bounds. apply fle_mul; [apply sq_nonneg|]. apply fle_mul.
    - apply inv_nonneg; [apply add_nonneg; apply zero_le_one | exact H2].
    - apply inv_nonneg; [apply sq_nonneg | exact Hss].
  Qed.
  Theorem gaussian_pulse_bounded width center shift t ph :
    two_pi * get_frequency K c0 width <> 0 ->
    - (1) <= gaussian_pulse K c0 cosf expf two_pi width center shift t ph /\
    gaussian_pulse K c0 cosf expf two_pi width center shift t ph <= 1.
  Proof.
    intros Hw. unfold gaussian_pulse. cbv zeta.
    assert (Hs : 1 / (two_pi * get_frequency K c0 width) <> 0).
    { apply div1_nz. exact Hw. }
    destruct (gaussian_envelope_bounded t ((1 + 1 + 1 + 1 + 1 + 1) * (1 / (two_pi * get_frequency K c0 width)))
                (1 / (two_pi * get_frequency K c0 width)) Hs) as [A B].
    destruct (cos_bounds (two_pi * get_frequency K c0 center * t + ph + shift)) as [C D].
    apply mul_unit_bounds; assumption.
  Qed.

End WavesProofs.

Section CustomSignal.
  Variable K : OFld.
  Add Field KF2 : (Fth K).
  Local Open Scope fld_scope.
  (* ---------------- sampled custom signal ---------------- *)
  Variable floorf : K -> Z.
  Hypothesis floor_int : forall i : Z, floorf (fofZ i) = i.

  (* in linear mode the value between two samples is the straight line through them, whatever the fraction *)
  Theorem custom_linear signal dt start outside t :
    let idx := (t - start) / dt in let i := floorf idx in
    (0 <= i < Z.of_nat (length signal) - 1)%Z ->
    custom_signal K floorf signal dt start outside false t
    = znth signal i 0 + (idx - fofZ i) * (znth signal (i + 1)%Z 0 - znth signal i 0).
  Proof.
    clear floor_int. cbv zeta. intros H. unfold custom_signal. cbv zeta.
    set (i := floorf ((t - start) / dt)) in *.
    replace ((0 <=? i)%Z && (i <? Z.of_nat (length signal))%Z) with true
      by (symmetry; apply andb_true_iff; split; [apply Z.leb_le | apply Z.ltb_lt]; lia).
    replace (Z.max 0 (Z.min i (Z.of_nat (length signal) - 1))) with i by lia.
    replace (Z.max 0 (Z.min (i + 1) (Z.of_nat (length signal) - 1))) with (i + 1)%Z by lia. ring.
  Qed.
  (* at a sample time the sample itself is returned (both modes; the last sample included) *)
  Theorem custom_at_sample signal dt start outside nearest (i : Z) :
    dt <> 0 -> (0 <= i < Z.of_nat (length signal))%Z ->
    (nearest = true -> fleb K (1 / (1 + 1)) 0 = false) ->
    custom_signal K floorf signal dt start outside nearest (start + fofZ i * dt) = znth signal i 0.
  Proof.
    intros Hdt Hi Hn. unfold custom_signal. cbv zeta.
    replace ((start + fofZ i * dt - start) / dt) with (fofZ i : K) by (field; exact Hdt).
    rewrite floor_int.
    replace ((0 <=? i)%Z && (i <? Z.of_nat (length signal))%Z) with true
      by (symmetry; apply andb_true_iff; split; [apply Z.leb_le | apply Z.ltb_lt]; lia).
    replace (Z.max 0 (Z.min i (Z.of_nat (length signal) - 1))) with i by lia.
    replace (fofZ i - fofZ i) with (0 : K) by ring.
    destruct nearest; [rewrite (Hn eq_refl); reflexivity | ring].
  Qed.
  Theorem custom_outside (signal : list K) (dt start outside : K) nearest (t : K) :
    let i := floorf ((t - start) / dt) in (i < 0 \/ Z.of_nat (length signal) <= i)%Z ->
    custom_signal K floorf signal dt start outside nearest t = outside.
  Proof.
    clear floor_int. cbv zeta. intros H. unfold custom_signal. cbv zeta. set (i := floorf ((t - start) / dt)) in *.
    replace ((0 <=? i)%Z && (i <? Z.of_nat (length signal))%Z) with false; [reflexivity|].
    symmetry. apply andb_false_iff. destruct H; [left; apply Z.leb_gt | right; apply Z.ltb_ge]; lia.
  Qed.
End CustomSignal.

(* executable instance: floor on Qc *)
Definition Qc_floor (x : Qc) : Z := Qfloor (this x).
Lemma Qc_floor_int i : Qc_floor (fofZ (K := QcF) i) = i.
Proof. rewrite fofZ_Qc. unfold Qc_floor, Q2Qc. cbn [this]. rewrite (Qfloor_comp _ _ (Qred_correct _)). apply Qfloor_Z. Qed.
