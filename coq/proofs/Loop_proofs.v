(* Loop_proofs.v — lemmas about the loop drivers (C05, C06, C07). *)
From Coq Require Import ZArith List Bool Lia.
From FV Require Import base.PyNum model.Loop.
Import ListNotations.
Open Scope Z_scope.

(* ---------- slice boundaries ---------- *)
Definition bnd (T k i : Z) := py_round_div (i * T) k.

Lemma bnd_partition T k :
  1 <= k <= T ->
  bnd T k 0 = 0 /\ bnd T k k = T /\ forall i, 0 <= i < k -> bnd T k i < bnd T k (i + 1).
Proof.
  intros [Hk HT]. unfold bnd. repeat split.
  - rewrite prd_exact; [|lia|exists 0; ring]. rewrite Z.mul_0_l. apply Z.div_0_l. lia.
  - rewrite prd_exact; [|lia|exists T; ring]. rewrite Z.mul_comm. apply Z.div_mul. lia.
  - intros i Hi.
    destruct (Z.eq_dec T k) as [->|Hne].
    + rewrite !prd_exact; try lia; try (eexists; reflexivity).
      rewrite !Z.div_mul by lia. lia.
    + apply prd_strict; nia.
Qed.

Lemma bnd_single T : 0 <= T -> bnd T 1 0 = 0 /\ bnd T 1 1 = T.
Proof.
  intros HT. unfold bnd. split.
  - rewrite prd_exact; [|lia|exists 0; ring]. reflexivity.
  - rewrite prd_exact; [|lia|exists T; ring]. rewrite Z.mul_1_l. apply Z.div_1_r.
Qed.

Lemma zrange_nth n i d : 0 <= i < n -> nth (Z.to_nat i) (zrange n) d = i.
Proof.
  intros Hi. unfold zrange.
  rewrite (nth_indep _ d (Z.of_nat 0)) by (rewrite map_length, seq_length; lia).
  rewrite map_nth, seq_nth by lia. lia.
Qed.

Lemma slice_boundaries_length T k : 0 <= k -> length (slice_boundaries T k) = Z.to_nat (k + 1).
Proof. intros. unfold slice_boundaries, zrange. rewrite !map_length, seq_length. reflexivity. Qed.

(* sortedness as a structural predicate on the list *)
Fixpoint increasing_from (lo : Z) (l : list Z) : Prop :=
  match l with [] => True | x :: r => lo < x /\ increasing_from x r end.
Definition partition_of (a b : Z) (l : list Z) : Prop :=
  match l with [] => False | x :: r => x = a /\ increasing_from a r /\ last l a = b end.
Fixpoint weakly_from (lo : Z) (l : list Z) : Prop :=
  match l with [] => True | x :: r => lo <= x /\ weakly_from x r end.

Lemma increasing_weakly lo l : increasing_from lo l -> weakly_from lo l.
Proof. revert lo; induction l as [|x r IH]; cbn; intros lo H; [exact I|]. destruct H; split; [lia|auto]. Qed.

Lemma map_seq_increasing (f : Z -> Z) (n : nat) (s : nat) :
  (forall i, Z.of_nat s <= i < Z.of_nat (s + n) -> f i < f (i + 1)) ->
  increasing_from (f (Z.of_nat s)) (map f (map Z.of_nat (seq (S s) n))).
Proof.
  revert s. induction n as [|n IH]; intros s H; cbn; [exact I|].
  split.
  - replace (Z.pos (Pos.of_succ_nat s)) with (Z.of_nat s + 1) by lia. apply H. lia.
  - specialize (IH (S s)). cbn [Z.of_nat] in IH. apply IH. intros i Hi. apply H. lia.
Qed.

Lemma last_map_seq (f : Z -> Z) (n : nat) d : last (map f (map Z.of_nat (seq 0 (S n)))) d = f (Z.of_nat n).
Proof.
  rewrite seq_S, !map_app. cbn [map]. rewrite last_last. reflexivity.
Qed.

Theorem slice_boundaries_partition T k :
  1 <= k <= T -> partition_of 0 T (slice_boundaries T k).
Proof.
  intros H. destruct (bnd_partition T k H) as (B0 & Bk & Binc).
  unfold slice_boundaries, zrange.
  replace (Z.to_nat (k + 1)) with (S (Z.to_nat k)) by lia.
  unfold partition_of. cbn [seq map].
  split; [exact B0|]. split.
  - pose proof (map_seq_increasing (bnd T k) (Z.to_nat k) 0) as G. cbn [Z.of_nat] in G.
    rewrite B0 in G. apply G. intros i Hi. apply Binc. lia.
  - assert (E: forall d, last (map (bnd T k) (map Z.of_nat (seq 0 (S (Z.to_nat k))))) d = T).
    { intros d. rewrite last_map_seq. rewrite Z2Nat.id by lia. exact Bk. }
    apply E.
Qed.

Theorem slice_boundaries_single T : 0 <= T -> slice_boundaries T 1 = [0; T].
Proof.
  intros HT. destruct (bnd_single T HT) as [A B]. unfold slice_boundaries, zrange.
  change (Z.to_nat (1 + 1)) with 2%nat. cbn [seq map Z.of_nat].
  unfold bnd in A, B. rewrite A. change (Z.pos (Pos.of_succ_nat 0)) with 1. rewrite B. reflexivity.
Qed.

(* ---------- loops ---------- *)
Section LoopProofs.
  Variable S : Type.
  Variable fwd : S -> S.
  Variable step_of : S -> Z.
  Hypothesis step_fwd : forall s, step_of (fwd s) = step_of s + 1.

  Fixpoint iter (n : nat) (s : S) : S := match n with O => s | Datatypes.S m => iter m (fwd s) end.
  Lemma iter_plus a b s : iter (a + b) s = iter b (iter a s).
  Proof. revert s; induction a as [|a IH]; intros s; cbn; [reflexivity | apply IH]. Qed.
  Lemma step_iter n s : step_of (iter n s) = step_of s + Z.of_nat n.
  Proof. revert s; induction n as [|n IH]; intros s; cbn [iter]; [lia|]. rewrite IH, step_fwd. lia. Qed.

  (* a bounded loop whose condition is "target > step" runs exactly min(fuel, target - step) steps *)
  Lemma while_upto fuel hi s :
    while_loop S fuel (fun s => hi >? step_of s) fwd s
    = iter (Nat.min fuel (Z.to_nat (hi - step_of s))) s.
  Proof.
    revert s. induction fuel as [|f IH]; intros s; cbn [while_loop]; [reflexivity|].
    destruct (hi >? step_of s) eqn:C.
    - apply Z.gtb_lt in C. rewrite IH, step_fwd.
      replace (Z.to_nat (hi - step_of s)) with (Datatypes.S (Z.to_nat (hi - (step_of s + 1)))) by lia.
      reflexivity.
    - assert (hi <= step_of s) by (destruct (Z.gtb_spec hi (step_of s)); [discriminate | lia]).
      replace (Z.to_nat (hi - step_of s)) with O by lia. rewrite Nat.min_0_r. reflexivity.
  Qed.
  Lemma while_lt fuel T s :
    while_loop S fuel (fun s => step_of s <? T) fwd s = iter (Nat.min fuel (Z.to_nat (T - step_of s))) s.
  Proof.
    rewrite <- while_upto. revert s. induction fuel as [|f IH]; intros s; cbn [while_loop]; [reflexivity|].
    rewrite Z.gtb_ltb. destruct (step_of s <? T); [apply IH | reflexivity].
  Qed.

  Lemma segment_spec lo hi s : step_of s = lo -> lo <= hi -> segment S fwd step_of lo hi s = iter (Z.to_nat (hi - lo)) s.
  Proof. intros E H. unfold segment. rewrite while_upto, E, Nat.min_id. reflexivity. Qed.

  Lemma segmented_cons lo hi rest s :
    fst (segmented S fwd step_of (lo :: hi :: rest) s) = fst (segmented S fwd step_of (hi :: rest) (segment S fwd step_of lo hi s)).
  Proof.
    destruct rest as [|y r]; [reflexivity|].
    change (segmented S fwd step_of (lo :: hi :: y :: r) s)
      with (let '(sf, cks) := segmented S fwd step_of (hi :: y :: r) (segment S fwd step_of lo hi s) in
            (sf, segment S fwd step_of lo hi s :: cks)).
    destruct (segmented S fwd step_of (hi :: y :: r) (segment S fwd step_of lo hi s)); reflexivity.
  Qed.

  Lemma last_weakly l : forall lo, weakly_from lo l -> lo <= last l lo.
  Proof.
    induction l as [|a l IH]; intros lo H; cbn [last]; [lia|]. destruct H as [H1 H2].
    destruct l as [|b l']; [exact H1|]. specialize (IH a H2).
    replace (last (b :: l') lo) with (last (b :: l') a); [lia|].
    clear. generalize b. induction l' as [|c l'' IHl]; intros b0; [reflexivity|]. apply (IHl c).
  Qed.
  Lemma last_cons_default (l : list Z) a d d' : last (a :: l) d = last (a :: l) d'.
  Proof. revert a; induction l as [|b l IH]; intros a; [reflexivity|]. apply (IH b). Qed.

  Lemma segmented_spec bs : forall s lo,
    match bs with [] => False | x :: r => x = lo /\ weakly_from lo r end ->
    step_of s = lo ->
    fst (segmented S fwd step_of bs s) = iter (Z.to_nat (last bs lo - lo)) s.
  Proof.
    induction bs as [|x r IH]; intros s lo Hp Hs; [destruct Hp|].
    destruct Hp as [-> Hw].
    destruct r as [|hi rest].
    - cbn. rewrite Z.sub_diag. reflexivity.
    - rewrite segmented_cons. destruct Hw as [Hle Hw'].
      set (s' := segment S fwd step_of lo hi s).
      assert (Es' : s' = iter (Z.to_nat (hi - lo)) s) by (apply segment_spec; assumption).
      rewrite (IH s' hi (conj eq_refl Hw')).
      2:{ rewrite Es', step_iter, Hs. lia. }
      rewrite Es', <- iter_plus. f_equal.
      pose proof (last_weakly rest hi Hw') as Hl.
      change (last (lo :: hi :: rest) lo) with (last (hi :: rest) lo).
      rewrite (last_cons_default rest hi lo hi).
      assert (hi <= last (hi :: rest) hi).
      { destruct rest as [|y r']; [cbn; lia|]. change (last (hi :: y :: r') hi) with (last (y :: r') hi). exact Hl. }
      lia.
  Qed.

  (* C05: the forward result is the same whatever the gradient configuration *)
  Theorem run_fdtd_independent g T s0 :
    0 <= T -> step_of s0 = 0 ->
    match g with Reversible n => 0 <= n | _ => True end ->     (* GradientConfig.__post_init__ rejects n < 0 *)
    match run_fdtd S fwd step_of g T s0 with
    | Ok r => r = iter (Z.to_nat T) s0 /\ step_of r = T
    | ErrTooManyCheckpoints => exists n, g = Reversible n /\ 0 < n /\ T < n + 1
    end.
  Proof.
    intros HT H0 Hg.
    assert (P: iter (Z.to_nat T) s0 = iter (Z.to_nat T) s0 /\ step_of (iter (Z.to_nat T) s0) = T)
      by (split; [reflexivity | rewrite step_iter, H0; lia]).
    assert (Pl: plain_run S fwd step_of T s0 = iter (Z.to_nat T) s0).
    { unfold plain_run. rewrite while_lt, H0, Z.sub_0_r, Nat.min_id. reflexivity. }
    destruct g as [|n|n]; cbn [run_fdtd]; try (rewrite Pl; exact P).
    destruct ((0 <? n) && (T <? n + 1)) eqn:C.
    - apply andb_true_iff in C. destruct C as [C1 C2]. apply Z.ltb_lt in C1, C2. exists n; repeat split; assumption.
    - assert (Hk: n <= 0 \/ (0 < n /\ n + 1 <= T)).
      { apply andb_false_iff in C. destruct C as [C|C]; apply Z.ltb_ge in C; lia. }
      assert (E: fst (segmented S fwd step_of (slice_boundaries T (n + 1)) s0) = iter (Z.to_nat T) s0).
      { destruct (Z.eq_dec n 0) as [->|Hn].
        - cbn [Z.add]. rewrite slice_boundaries_single by lia. cbn. rewrite segment_spec by lia. f_equal; lia.
        - destruct Hk as [Hneg|[Hp Hle]].
          + exfalso. cbn in Hg. lia.
          + pose proof (slice_boundaries_partition T (n + 1) ltac:(lia)) as PP.
            destruct (slice_boundaries T (n + 1)) as [|b0 r] eqn:EB; [destruct PP|].
            destruct PP as (-> & Hinc & Hlast).
            rewrite (segmented_spec (0 :: r) s0 0); [| split; [reflexivity | apply increasing_weakly; exact Hinc] | exact H0].
            rewrite Hlast. f_equal; lia. }
      rewrite E. exact P.
  Qed.
End LoopProofs.
