(* Heap_proofs.v — lemmas about model/Heap.v (C40). *)
From Coq Require Import ZArith List Bool Lia.
From FV Require Import model.Heap.
Import ListNotations.
Open Scope Z_scope.

(* s' keeps every object of s (same content at every old address) and only adds objects *)
Definition extends (s s' : store) : Prop :=
  (length s <= length s')%nat /\ forall a, (a < length s)%nat -> nth_error s' a = nth_error s a.

Lemma extends_refl s : extends s s.
Proof. split; [lia | reflexivity]. Qed.
Lemma extends_trans a b c : extends a b -> extends b c -> extends a c.
Proof. intros [L1 H1] [L2 H2]. split; [lia|]. intros x Hx. rewrite H2 by lia. apply H1. exact Hx. Qed.

Lemma set_nth_length {A} n (x : A) l : length (set_nth n x l) = length l.
Proof. revert n; induction l as [|y r IH]; intros n; [destruct n; reflexivity|]. destruct n; cbn; [reflexivity | rewrite IH; reflexivity]. Qed.
Lemma set_nth_same {A} n (x : A) l : (n < length l)%nat -> nth_error (set_nth n x l) n = Some x.
Proof. revert n; induction l as [|y r IH]; intros n H; [cbn in H; lia|]. destruct n; cbn; [reflexivity | apply IH; cbn in H; lia]. Qed.
Lemma set_nth_other {A} n m (x : A) l : n <> m -> nth_error (set_nth n x l) m = nth_error l m.
Proof.
  revert n m; induction l as [|y r IH]; intros n m H; [destruct n; reflexivity|].
  destruct n, m; cbn; try reflexivity; try congruence. apply IH. congruence.
Qed.

Lemma assoc_set_same k v l : assoc k (assoc_set k v l) = Some v.
Proof.
  induction l as [|[k' x] r IH]; cbn; [rewrite Z.eqb_refl; reflexivity|].
  destruct (k =? k') eqn:E; cbn; [rewrite Z.eqb_refl; reflexivity | rewrite E; exact IH].
Qed.
Lemma assoc_set_other k k' v l : k <> k' -> assoc k' (assoc_set k v l) = assoc k' l.
Proof.
  intros H. induction l as [|[k0 x] r IH]; cbn.
  - destruct (k' =? k) eqn:E; [apply Z.eqb_eq in E; congruence | reflexivity].
  - destruct (k =? k0) eqn:E; cbn.
    + apply Z.eqb_eq in E. subst k0. destruct (k' =? k) eqn:E2; [apply Z.eqb_eq in E2; congruence | reflexivity].
    + destruct (k' =? k0); [reflexivity | exact IH].
Qed.
Lemma norm_idx_lt i n j : norm_idx i n = Some j -> (j < n)%nat.
Proof.
  unfold norm_idx. destruct ((0 <=? _) && (_ <? _)) eqn:E; [|discriminate].
  intros H. injection H as <-. apply andb_true_iff in E. destruct E as [E1 E2]. apply Z.leb_le in E1. apply Z.ltb_lt in E2. lia.
Qed.

(* the updated copy written by [step] *)
Definition updated (c : content) (o : op) (cur : addr) : option content :=
  match c, o with
  | CClass n fs, Attr k => Some (CClass n (assoc_set k cur fs))
  | CList items, Idx i => match norm_idx i (length items) with Some j => Some (CList (set_nth j cur items)) | None => None end
  | CDict es, Key k => Some (CDict (assoc_set k cur es))
  | _, _ => None
  end.

Lemma step_spec s p o cur s' c' : step s p o cur = Ok (s', c') ->
  exists c u, nth_error s p = Some c /\ updated c o cur = Some u
    /\ c' = length s /\ s' = s ++ [u].
Proof.
  unfold step. destruct (nth_error s p) as [c|] eqn:E; [|discriminate].
  assert (W : forall x u, write (s ++ [x]) (length s) u = s ++ [u]).
  { intros x u. unfold write. clear. induction s as [|y r IH]; cbn; [reflexivity | rewrite IH; reflexivity]. }
  destruct c as [v|n fs|items|es]; destruct o as [k|i|k]; try discriminate.
  - intros H. injection H as <- <-. exists (CClass n fs), (CClass n (assoc_set k cur fs)). rewrite W. repeat split; reflexivity.
  - destruct (norm_idx i (length items)) as [j|] eqn:Ej; [|discriminate].
    intros H. injection H as <- <-. exists (CList items), (CList (set_nth j cur items)). rewrite W. cbn. rewrite Ej. repeat split; reflexivity.
  - intros H. injection H as <- <-. exists (CDict es), (CDict (assoc_set k cur es)). rewrite W. repeat split; reflexivity.
Qed.

Lemma extends_app s x : extends s (s ++ x).
Proof. split; [rewrite app_length; lia|]. intros a H. apply nth_error_app1. exact H. Qed.

Lemma step_extends s p o cur s' c' : step s p o cur = Ok (s', c') -> extends s s' /\ c' = length s /\ length s' = S (length s).
Proof.
  intros H. destruct (step_spec _ _ _ _ _ _ H) as (c & u & _ & _ & -> & ->).
  split; [apply extends_app|]. split; [reflexivity|]. rewrite app_length. cbn. lia.
Qed.

Lemma rebuild_extends pl : forall s cur s' c', rebuild s pl cur = Ok (s', c') -> extends s s'.
Proof.
  induction pl as [|[p o] r IH]; intros s cur s' c' H; cbn in H.
  - injection H as <- <-. apply extends_refl.
  - destruct (rebuild s r cur) as [[s1 c1]|] eqn:E; [|discriminate].
    eapply extends_trans; [eapply IH; exact E | apply (step_extends _ _ _ _ _ _ H)].
Qed.

(* ---- T1: the functional update leaves every pre-existing object unchanged ---- *)
Theorem aset_frame s root ops v create s' r' : aset s root ops v create = Ok (s', r') ->
  (length s <= length s')%nat /\ forall a, (a < length s)%nat -> nth_error s' a = nth_error s a.
Proof.
  unfold aset. destruct (nth_error s root) as [[| | |]|]; try discriminate.
  destruct (walk s root ops create) as [pl|]; [|discriminate].
  intros H. exact (rebuild_extends _ _ _ _ _ H).
Qed.

(* reading a child only inspects the parent object *)
Lemma child_same s s' a o : nth_error s' a = nth_error s a -> child s' a o = child s a o.
Proof. intros H. unfold child. rewrite H. reflexivity. Qed.
Lemma child_in_range s a o c : child s a o = Some c -> (a < length s)%nat.
Proof. unfold child. destruct (nth_error s a) eqn:E; [intros _; apply nth_error_Some; congruence | discriminate]. Qed.
Lemma lookup_ext s s' : extends s s' -> forall ops a c, lookup s a ops = Some c -> lookup s' a ops = Some c.
Proof.
  intros [_ X] ops. induction ops as [|o r IH]; intros a c H; [exact H|]. cbn in *.
  destruct (child s a o) as [d|] eqn:E; [|discriminate].
  rewrite (child_same s s' a o) by (apply X; eapply child_in_range; exact E). rewrite E. apply IH. exact H.
Qed.

Lemma step_child s p o cur s' c' : step s p o cur = Ok (s', c') -> child s' c' o = Some cur.
Proof.
  intros H. destruct (step_spec _ _ _ _ _ _ H) as (c & u & Hc & Hu & -> & ->).
  unfold child. rewrite nth_error_app2 by lia. rewrite Nat.sub_diag. cbn [nth_error].
  destruct c as [v|n fs|items|es]; destruct o as [k|i|k]; cbn in Hu; try discriminate.
  - injection Hu as <-. apply assoc_set_same.
  - destruct (norm_idx i (length items)) as [j|] eqn:Ej; [|discriminate]. injection Hu as <-.
    rewrite set_nth_length, Ej. apply set_nth_same. eapply norm_idx_lt. exact Ej.
  - injection Hu as <-. apply assoc_set_same.
Qed.

(* ---- T2: the new root reaches the new value at the path ---- *)
Lemma rebuild_get pl : forall s cur s' c', rebuild s pl cur = Ok (s', c') -> lookup s' c' (map snd pl) = Some cur.
Proof.
  induction pl as [|[p o] r IH]; intros s cur s' c' H; cbn in H.
  - injection H as <- <-. reflexivity.
  - destruct (rebuild s r cur) as [[s1 c1]|] eqn:E; [|discriminate].
    cbn [map snd lookup]. rewrite (step_child _ _ _ _ _ _ H).
    eapply lookup_ext; [apply (step_extends _ _ _ _ _ _ H) | apply (IH _ _ _ _ E)].
Qed.

Lemma walk_length ops : forall s cur create pl, walk s cur ops create = Ok pl -> length pl = length ops.
Proof.
  induction ops as [|o r IH]; intros s cur create pl H; [discriminate|].
  destruct r as [|o2 r'].
  - cbn in H. destruct (child s cur o); [|destruct (create && creatable s cur o)]; try discriminate; injection H as <-; reflexivity.
  - change (walk s cur (o :: o2 :: r') create) with
      (match child s cur o with Some c => match walk s c (o2 :: r') create with Ok l => Ok (cur :: l) | Err => Err end | None => Err end) in H.
    destruct (child s cur o) as [c|]; [|discriminate].
    destruct (walk s c (o2 :: r') create) as [l|] eqn:E; [|discriminate]. injection H as <-.
    cbn [length]. f_equal. eapply IH. exact E.
Qed.
Lemma map_snd_combine {A B} (l : list A) (m : list B) : length l = length m -> map snd (combine l m) = m.
Proof. revert m; induction l as [|x r IH]; intros [|y m] H; cbn in *; try lia; [reflexivity|]. f_equal. apply IH. lia. Qed.

Theorem aset_get s root ops v create s' r' : aset s root ops v create = Ok (s', r') -> lookup s' r' ops = Some v.
Proof.
  unfold aset. destruct (nth_error s root) as [[| | |]|]; try discriminate.
  destruct (walk s root ops create) as [pl|] eqn:W; [|discriminate].
  intros H. pose proof (rebuild_get _ _ _ _ _ H) as G.
  rewrite map_snd_combine in G by (eapply walk_length; exact W). exact G.
Qed.

(* ---- T3/T4: on-path objects are fresh, have the same type, and share all other slots ---- *)
(* the parents recorded by the first loop are the objects along the path in the ORIGINAL store *)
Fixpoint chain (s : store) (cur : addr) (pl : list (addr * op)) : Prop :=
  match pl with
  | [] => True
  | (p, o) :: r => p = cur /\ (cur < length s)%nat
                   /\ match r with [] => True | (p2, _) :: _ => child s cur o = Some p2 end /\
                   match r with [] => True | (p2, _) :: _ => chain s p2 r end
  end.

Lemma walk_chain ops : forall s cur create pl, walk s cur ops create = Ok pl -> chain s cur (combine pl ops).
Proof.
  induction ops as [|o r IH]; intros s cur create pl H; [discriminate|].
  destruct r as [|o2 r'].
  - cbn in H.
    assert (R : (cur < length s)%nat).
    { destruct (child s cur o) eqn:E; [eapply child_in_range; exact E|].
      destruct (create && creatable s cur o) eqn:C; [|discriminate]. apply andb_true_iff in C. destruct C as [_ C].
      unfold creatable in C. destruct (nth_error s cur) eqn:N; [apply nth_error_Some; congruence | destruct o; discriminate]. }
    destruct (child s cur o); [|destruct (create && creatable s cur o)]; try discriminate; injection H as <-; cbn; auto.
  - change (walk s cur (o :: o2 :: r') create) with
      (match child s cur o with Some c => match walk s c (o2 :: r') create with Ok l => Ok (cur :: l) | Err => Err end | None => Err end) in H.
    destruct (child s cur o) as [c|] eqn:Ec; [|discriminate].
    destruct (walk s c (o2 :: r') create) as [l|] eqn:E; [|discriminate]. injection H as <-.
    pose proof (IH s c create l E) as Ch. pose proof (walk_length _ _ _ _ _ E) as L.
    destruct l as [|p2 l']; [cbn in L; lia|].
    cbn [combine] in *. cbn [chain]. split; [reflexivity|]. split; [eapply child_in_range; exact Ec|].
    destruct Ch as [-> Ch]. split; [exact Ec|]. cbn [chain]. split; [reflexivity | exact Ch].
Qed.

Definition kind_eq (a b : content) : Prop :=
  match a, b with
  | CLeaf _, CLeaf _ => True
  | CClass n _, CClass m _ => n = m
  | CList x, CList y => length x = length y
  | CDict _, CDict _ => True
  | _, _ => False
  end.
(* o' addresses a different slot of the object than o *)
Definition other_slot (c : content) (o o' : op) : Prop :=
  match o, o' with
  | Attr k, Attr k' => k <> k'
  | Key k, Key k' => k <> k'
  | Idx i, Idx i' => match c with CList items => norm_idx i (length items) <> norm_idx i' (length items) | _ => True end
  | _, _ => True
  end.

Lemma step_sibling s p o cur s' c' : step s p o cur = Ok (s', c') ->
  exists c u, nth_error s p = Some c /\ nth_error s' c' = Some u /\ kind_eq c u
    /\ forall o', other_slot c o o' -> child s' c' o' = child s p o'.
Proof.
  intros H. destruct (step_spec _ _ _ _ _ _ H) as (c & u & Hc & Hu & -> & ->).
  assert (N : nth_error (s ++ [u]) (length s) = Some u) by (rewrite nth_error_app2 by lia; rewrite Nat.sub_diag; reflexivity).
  exists c, u. split; [exact Hc|]. split; [exact N|].
  destruct c as [v|n fs|items|es]; destruct o as [k|i|k]; cbn in Hu; try discriminate.
  - injection Hu as <-. split; [reflexivity|]. intros o' Ho'. unfold child. rewrite N, Hc.
    destruct o' as [k'|i'|k']; try reflexivity. apply assoc_set_other. exact Ho'.
  - destruct (norm_idx i (length items)) as [j|] eqn:Ej; [|discriminate]. injection Hu as <-.
    split; [cbn; rewrite set_nth_length; reflexivity|]. intros o' Ho'. unfold child. rewrite N, Hc.
    destruct o' as [k'|i'|k']; try reflexivity. cbn in Ho'. rewrite set_nth_length.
    destruct (norm_idx i' (length items)) as [j'|] eqn:Ej'; [|reflexivity].
    apply set_nth_other. rewrite Ej in Ho'. congruence.
  - injection Hu as <-. split; [reflexivity|]. intros o' Ho'. unfold child. rewrite N, Hc.
    destruct o' as [k'|i'|k']; try reflexivity. apply assoc_set_other. exact Ho'.
Qed.

Lemma rebuild_path pl : forall s p0 cur s' c',
  chain s p0 pl -> rebuild s pl cur = Ok (s', c') ->
  forall pre o post, map snd pl = pre ++ o :: post ->
  exists a a' c u,
    lookup s p0 pre = Some a /\ lookup s' c' pre = Some a'
    /\ (length s <= a')%nat /\ (a' < length s')%nat
    /\ nth_error s a = Some c /\ nth_error s' a' = Some u /\ kind_eq c u
    /\ forall o', other_slot c o o' -> child s' a' o' = child s a o'.
Proof.
  induction pl as [|[p o0] r IH]; intros s p0 cur s' c' Ch H pre o post E.
  - destruct pre; discriminate.
  - cbn in H. destruct (rebuild s r cur) as [[s1 c1]|] eqn:R; [|discriminate].
    pose proof (rebuild_extends _ _ _ _ _ R) as X1.
    pose proof (step_extends _ _ _ _ _ _ H) as (X2 & Ec' & L').
    cbn [chain] in Ch. destruct Ch as (-> & Hp0 & Hc & Hr).
    destruct pre as [|o1 pre'].
    + cbn in E. injection E as -> _.
      destruct (step_sibling _ _ _ _ _ _ H) as (c & u & Hc1 & Hu & Hk & Hs).
      assert (Hp : nth_error s1 p0 = nth_error s p0) by (apply X1; exact Hp0).
      exists p0, c', c, u. cbn [lookup]. repeat split; try reflexivity.
      * destruct X1. lia.
      * lia.
      * rewrite <- Hp. exact Hc1.
      * exact Hu.
      * exact Hk.
      * intros o' Ho'. rewrite (Hs o' Ho'). apply child_same. exact Hp.
    + cbn in E. injection E as -> E.
      destruct r as [|[p2 o2] r']; [destruct pre'; discriminate|].
      destruct (IH s p2 cur s1 c1 Hr R pre' o post E) as (a & a' & c & u & A1 & A2 & A3 & A4 & A5 & A6 & A7 & A8).
      exists a, a', c, u. cbn [lookup]. rewrite Hc, (step_child _ _ _ _ _ _ H).
      split; [exact A1|]. split; [eapply lookup_ext; [exact X2 | exact A2]|].
      split; [exact A3|]. split; [destruct X2; lia|]. split; [exact A5|].
      assert (Ha' : nth_error s' a' = nth_error s1 a') by (apply X2; exact A4).
      split; [rewrite Ha'; exact A6|]. split; [exact A7|].
      intros o' Ho'. rewrite <- (A8 o' Ho'). apply child_same. exact Ha'.
Qed.

Theorem aset_path s root ops v create s' r' : aset s root ops v create = Ok (s', r') ->
  forall pre o post, ops = pre ++ o :: post ->
  exists a a' c u,
    lookup s root pre = Some a /\ lookup s' r' pre = Some a'
    /\ (length s <= a')%nat /\ (a' < length s')%nat
    /\ nth_error s a = Some c /\ nth_error s' a' = Some u /\ kind_eq c u
    /\ forall o', other_slot c o o' -> child s' a' o' = child s a o'.
Proof.
  unfold aset. destruct (nth_error s root) as [[| | |]|]; try discriminate.
  destruct (walk s root ops create) as [pl|] eqn:W; [|discriminate].
  intros H pre o post E.
  eapply (rebuild_path _ _ _ _ _ _ (walk_chain _ _ _ _ _ W) H).
  rewrite map_snd_combine by (eapply walk_length; exact W). exact E.
Qed.

(* the result is an object of the same class as self (the final assert of aset) *)
Theorem aset_type s root ops v create s' r' : aset s root ops v create = Ok (s', r') ->
  exists n fs fs', nth_error s root = Some (CClass n fs) /\ nth_error s' r' = Some (CClass n fs') /\ (length s <= r')%nat.
Proof.
  intros H. destruct ops as [|o post].
  - unfold aset in H. destruct (nth_error s root) as [[| | |]|]; discriminate.
  - destruct (aset_path _ _ _ _ _ _ _ H [] o post eq_refl) as (a & a' & c & u & A1 & A2 & A3 & _ & A5 & A6 & A7 & _).
    cbn in A1, A2. injection A1 as <-. injection A2 as <-.
    unfold aset in H. rewrite A5 in H. destruct c as [|n fs| |]; try discriminate.
    destruct u as [|m fs'| |]; try (destruct A7; fail). cbn in A7. subst m. exists n, fs, fs'. auto.
Qed.
