(* Yee_pml_geometry.v — C03: the geometry hypothesis of the reverse-sweep theorem holds for EVERY face-slab configuration:
   each CPML layer spans the full transverse extent of the box, touches its own face (min side: starts at 0; max side:
   ends at n), and lies on a non-wrapping axis.  Any number of layers, any thicknesses, corners and edges included.
   (Per-scene evaluation of geometry_okb is then only needed for layer lists that are not of this form.) *)
From Coq Require Import List Arith Bool Lia.
From FV Require Import base.Scalar base.Cplx model.Yee proofs.Yee_reverse proofs.Yee_pml_sweep.
Import ListNotations.

Section Geometry.
  Variable K : Fld.
  Variable sc : scene K.
  Variables wrapx wrapy wrapz : bool.
  Notation nx := (nx K sc). Notation ny := (ny K sc). Notation nz := (nz K sc).
  Notation pml := (pml K).

  Definition cell : Type := (nat * nat * nat)%type.
  Definition ap {X} (A : nat -> nat -> nat -> X) (c : cell) : X := let '(i, j, k) := c in A i j k.
  Definition coord (a : nat) (c : cell) : nat := let '(i, j, k) := c in match a with O => i | S O => j | _ => k end.
  Definition setc (a v : nat) (c : cell) : cell := let '(i, j, k) := c in match a with O => (v, j, k) | S O => (i, v, k) | _ => (i, j, v) end.
  Definition n_a (a : nat) : nat := match a with O => nx | S O => ny | _ => nz end.
  Definition wrap_a (a : nat) : bool := match a with O => wrapx | S O => wrapy | _ => wrapz end.
  Definition lo_a (p : pml) : nat := match p_axis K p with O => p_x0 K p | S O => p_y0 K p | _ => p_z0 K p end.
  Definition hi_a (p : pml) : nat := match p_axis K p with O => p_x1 K p | S O => p_y1 K p | _ => p_z1 K p end.
  Definition inbc (c : cell) : Prop := ap (inb K sc) c.

  Record face_slab (p : pml) : Prop := {
    fs_axis : (p_axis K p <= 2)%nat;
    fs_full : match p_axis K p with
              | O => p_y0 K p = O /\ p_y1 K p = ny /\ p_z0 K p = O /\ p_z1 K p = nz
              | S O => p_x0 K p = O /\ p_x1 K p = nx /\ p_z0 K p = O /\ p_z1 K p = nz
              | _ => p_x0 K p = O /\ p_x1 K p = nx /\ p_y0 K p = O /\ p_y1 K p = ny
              end;
    fs_side : if p_min K p then lo_a p = O else hi_a p = n_a (p_axis K p);
    fs_nowrap : wrap_a (p_axis K p) = false
  }.
  Hypothesis SL : forall p, In p (pmls K sc) -> face_slab p.

  (* ---- a slab contains a cell of the box iff the cell's coordinate along the slab's axis lies in [lo, hi) ---- *)
  Lemma in_pml_slab p c : face_slab p -> inbc c ->
    ap (in_pml K p) c = (lo_a p <=? coord (p_axis K p) c) && (coord (p_axis K p) c <? hi_a p).
  Proof.
    intros [Ha Hf _ _] Hb. destruct c as [[i j] k]. destruct Hb as (Hi & Hj & Hk). unfold ap, in_pml, lo_a, hi_a, coord.
    destruct (p_axis K p) as [|[|[|a]]]; [| | |lia].
    - destruct Hf as (-> & -> & -> & ->). cbn [Nat.leb]. apply Nat.ltb_lt in Hj, Hk. rewrite Hj, Hk. rewrite !andb_true_r. reflexivity.
    - destruct Hf as (-> & -> & -> & ->). cbn [Nat.leb]. apply Nat.ltb_lt in Hi, Hk. rewrite Hi, Hk. cbn [andb]. rewrite !andb_true_r. reflexivity.
    - destruct Hf as (-> & -> & -> & ->). cbn [Nat.leb]. apply Nat.ltb_lt in Hi, Hj. rewrite Hi, Hj. cbn [andb]. reflexivity.
  Qed.
  Lemma in_iface_slab p c : face_slab p -> ap (in_iface K p) c =
    ap (in_pml K p) c && (if p_min K p then S (coord (p_axis K p) c) =? hi_a p else coord (p_axis K p) c =? lo_a p).
  Proof.
    intros [Ha _ _ _]. destruct c as [[i j] k]. unfold ap, in_iface, lo_a, hi_a, coord.
    destruct (p_axis K p) as [|[|[|a]]]; reflexivity.
  Qed.

  Lemma coord_setc_same a v c : (a <= 2)%nat -> coord a (setc a v c) = v.
  Proof. destruct c as [[i j] k]. destruct a as [|[|[|a]]]; cbn; intros; try reflexivity; lia. Qed.
  Lemma coord_setc_other a b v c : (a <= 2)%nat -> (b <= 2)%nat -> a <> b -> coord b (setc a v c) = coord b c.
  Proof. destruct c as [[i j] k]. destruct a as [|[|[|a]]], b as [|[|[|b]]]; cbn; intros; try reflexivity; lia. Qed.
  Lemma inbc_setc a v c : (a <= 2)%nat -> inbc c -> (v < n_a a)%nat -> inbc (setc a v c).
  Proof. destruct c as [[i j] k]. unfold inbc, ap, inb, n_a, setc. destruct a as [|[|[|a]]]; intros; cbn; try lia. Qed.
  Lemma inbc_coord a c : (a <= 2)%nat -> inbc c -> (coord a c < n_a a)%nat.
  Proof. destruct c as [[i j] k]. unfold inbc, ap, inb, n_a, coord. destruct a as [|[|[|a]]]; intros; cbn; try lia. Qed.

  (* cell sets of Yee_pml_sweep on triples *)
  Definition inIc c := ap (inI K sc) c.
  Definition A1c c := ap (A1 K sc) c.
  Definition Bsetc c := ap (Bset K sc wrapx wrapy wrapz) c.

  Lemma inIc_spec c : inIc c = true <-> forall p, In p (pmls K sc) -> ap (in_pml K p) c = false.
  Proof.
    destruct c as [[i j] k]. unfold inIc, ap, inI, in_any_pml. rewrite negb_true_iff. split.
    - intros H p Hp. destruct (in_pml K p i j k) eqn:E; [|reflexivity].
      assert (existsb (fun p0 => in_pml K p0 i j k) (pmls K sc) = true) by (apply existsb_exists; exists p; split; assumption). congruence.
    - intros H. destruct (existsb _ _) eqn:E; [|reflexivity]. apply existsb_exists in E. destruct E as (p & Hp & E). rewrite (H p Hp) in E. discriminate.
  Qed.
  Lemma is_iface_intro p c : In p (pmls K sc) -> ap (in_iface K p) c = true -> ap (is_iface K sc) c = true.
  Proof. destruct c as [[i j] k]. unfold ap, is_iface. intros Hp H. apply existsb_exists. exists p. split; assumption. Qed.
  Lemma A1c_of_inI c : inIc c = true -> A1c c = true.
  Proof. destruct c as [[i j] k]. unfold A1c, inIc, ap, A1. intros ->. reflexivity. Qed.
  Lemma A1c_of_iface c : ap (is_iface K sc) c = true -> A1c c = true.
  Proof. destruct c as [[i j] k]. unfold A1c, ap, A1. intros ->. apply orb_true_r. Qed.

  (* changing one coordinate of an interior cell to a value outside every slab of that axis keeps it interior *)
  Lemma inIc_setc a v c : (a <= 2)%nat -> inbc c -> (v < n_a a)%nat -> inIc c = true ->
    (forall p, In p (pmls K sc) -> p_axis K p = a -> (lo_a p <=? v) && (v <? hi_a p) = false) -> inIc (setc a v c) = true.
  Proof.
    intros Ha Hb Hv HI Hfree. apply inIc_spec. intros p Hp. pose proof (SL p Hp) as FS.
    rewrite (in_pml_slab p _ FS (inbc_setc a v c Ha Hb Hv)).
    destruct (Nat.eq_dec (p_axis K p) a) as [E|E].
    - rewrite E, coord_setc_same by exact Ha. apply Hfree; assumption.
    - rewrite coord_setc_other by (try exact Ha; try (apply (fs_axis p FS)); congruence).
      rewrite <- (in_pml_slab p c FS Hb). apply (proj1 (inIc_spec c) HI p Hp).
  Qed.
  Lemma nowrap_free a v : wrap_a a = true -> forall p, In p (pmls K sc) -> p_axis K p = a -> (lo_a p <=? v) && (v <? hi_a p) = false.
  Proof. intros W p Hp E. pose proof (fs_nowrap p (SL p Hp)) as N. rewrite E in N. congruence. Qed.

  (* a cell that is NOT interior but differs from an interior cell only in coordinate a lies in a slab of axis a *)
  Lemma not_inI_setc a v c : (a <= 2)%nat -> inbc c -> (v < n_a a)%nat -> inIc c = true -> inIc (setc a v c) = false ->
    exists p, In p (pmls K sc) /\ p_axis K p = a /\ (lo_a p <=? v) && (v <? hi_a p) = true.
  Proof.
    intros Ha Hb Hv HI HN.
    destruct (existsb (fun p => (p_axis K p =? a) && ((lo_a p <=? v) && (v <? hi_a p))) (pmls K sc)) eqn:E.
    - apply existsb_exists in E. destruct E as (p & Hp & E). apply andb_true_iff in E. destruct E as (E1 & E2).
      exists p. split; [exact Hp|]. split; [apply Nat.eqb_eq; exact E1 | exact E2].
    - exfalso. rewrite (inIc_setc a v c Ha Hb Hv HI) in HN; [discriminate|].
      intros p Hp Ea. destruct ((lo_a p <=? v) && (v <? hi_a p)) eqn:F; [|reflexivity].
      assert (existsb (fun p => (p_axis K p =? a) && ((lo_a p <=? v) && (v <? hi_a p))) (pmls K sc) = true).
      { apply existsb_exists. exists p. split; [exact Hp|]. rewrite F, (proj2 (Nat.eqb_eq _ _) Ea). reflexivity. }
      congruence.
  Qed.

  (* interior cells are outside the [lo, hi) range of every slab, along the slab's axis *)
  Lemma inI_out c p : inbc c -> inIc c = true -> In p (pmls K sc) ->
    (lo_a p <=? coord (p_axis K p) c) && (coord (p_axis K p) c <? hi_a p) = false.
  Proof. intros Hb HI Hp. rewrite <- (in_pml_slab p c (SL p Hp) Hb). apply (proj1 (inIc_spec c) HI p Hp). Qed.

  (* ---- forward neighbour along axis a of an interior cell: interior or on the interface row of a max-side slab ---- *)
  Lemma fwd_axis a c : (a <= 2)%nat -> inbc c -> inIc c = true ->
    (if S (coord a c) <? n_a a then A1c (setc a (S (coord a c)) c) else implb (wrap_a a) (A1c (setc a O c))) = true.
  Proof.
    intros Ha Hb HI. pose proof (inbc_coord a c Ha Hb) as Hx.
    destruct (S (coord a c) <? n_a a) eqn:E.
    - apply Nat.ltb_lt in E. destruct (inIc (setc a (S (coord a c)) c)) eqn:N; [apply A1c_of_inI; exact N|].
      destruct (not_inI_setc a _ c Ha Hb E HI N) as (p & Hp & Ea & R).
      apply A1c_of_iface. apply (is_iface_intro p _ Hp).
      pose proof (SL p Hp) as FS. rewrite (in_iface_slab p _ FS), (in_pml_slab p _ FS (inbc_setc a _ c Ha Hb E)).
      rewrite Ea, coord_setc_same by exact Ha. rewrite R. cbn [andb].
      pose proof (inI_out c p Hb HI Hp) as O'. rewrite Ea in O'.
      apply andb_true_iff in R. destruct R as (R1 & R2). apply Nat.leb_le in R1. apply Nat.ltb_lt in R2.
      assert (L : (coord a c < lo_a p)%nat).
      { destruct (Nat.lt_ge_cases (coord a c) (lo_a p)) as [L|L]; [exact L|]. exfalso.
        rewrite (proj2 (Nat.leb_le _ _) L), (proj2 (Nat.ltb_lt _ _) (ltac:(lia) : (coord a c < hi_a p)%nat)) in O'. discriminate. }
      destruct (p_min K p) eqn:M.
      + pose proof (fs_side p FS) as S0. rewrite M in S0. lia.
      + apply Nat.eqb_eq. lia.
    - destruct (wrap_a a) eqn:W; [|reflexivity]. cbn [implb]. apply A1c_of_inI.
      apply (inIc_setc a O c Ha Hb ltac:(lia) HI). apply nowrap_free. exact W.
  Qed.

  Lemma fwd_ok_interior c : inbc c -> inIc c = true -> ap (fwd_ok K sc wrapx wrapy wrapz (A1 K sc)) c = true.
  Proof.
    intros Hb HI. pose proof (fwd_axis 0 c ltac:(lia) Hb HI) as F0. pose proof (fwd_axis 1 c ltac:(lia) Hb HI) as F1.
    pose proof (fwd_axis 2 c ltac:(lia) Hb HI) as F2. destruct c as [[i j] k].
    unfold ap, fwd_ok. cbn [coord setc n_a wrap_a] in F0, F1, F2. unfold A1c, ap in F0, F1, F2. rewrite F0, F1, F2. reflexivity.
  Qed.
  Lemma Bset_interior c : inbc c -> inIc c = true -> Bsetc c = true.
  Proof.
    intros Hb HI. pose proof (fwd_ok_interior c Hb HI) as F. pose proof (A1c_of_inI c HI) as A. destruct c as [[i j] k].
    unfold Bsetc, ap, Bset. unfold ap in F. unfold A1c, ap in A. rewrite F, A.
    rewrite (inI_clean K sc i j k HI). reflexivity.
  Qed.

  (* ---- the backward neighbour along axis a (coordinate y = x - 1) of an interior cell, when it is not interior:
          it lies on the interface row of min-side slabs of axis a only, and the reverse H update is exact there ---- *)
  Lemma Bset_below a c y : (a <= 2)%nat -> inbc c -> inIc c = true -> coord a c = S y -> inIc (setc a y c) = false -> Bsetc (setc a y c) = true.
  Proof.
    intros Ha Hb HI Hxy N.
    assert (Hy : (y < n_a a)%nat) by (pose proof (inbc_coord a c Ha Hb); lia).
    set (c' := setc a y c). assert (Hb' : inbc c') by (apply inbc_setc; assumption).
    (* every slab containing c' has axis a, is a min-side slab and has c' on its interface row *)
    assert (IF : forall q, In q (pmls K sc) -> ap (in_pml K q) c' = true -> ap (in_iface K q) c' = true).
    { intros q Hq Q. pose proof (SL q Hq) as FS. rewrite (in_iface_slab q c' FS), Q. cbn [andb].
      rewrite (in_pml_slab q c' FS Hb') in Q.
      destruct (Nat.eq_dec (p_axis K q) a) as [E|E].
      - rewrite E in *. unfold c' in *. rewrite coord_setc_same in * by exact Ha.
        pose proof (inI_out c q Hb HI Hq) as O'. rewrite E, Hxy in O'.
        apply andb_true_iff in Q. destruct Q as (Q1 & Q2). apply Nat.leb_le in Q1. apply Nat.ltb_lt in Q2.
        assert (L : (hi_a q <= S y)%nat).
        { destruct (Nat.lt_ge_cases (S y) (hi_a q)) as [L|L]; [|exact L]. exfalso.
          rewrite (proj2 (Nat.leb_le _ _) (ltac:(lia) : (lo_a q <= S y)%nat)), (proj2 (Nat.ltb_lt _ _) L) in O'. discriminate. }
        destruct (p_min K q) eqn:M.
        + apply Nat.eqb_eq. lia.
        + pose proof (fs_side q FS) as S0. rewrite M, E in S0. pose proof (inbc_coord a c Ha Hb). lia.
      - exfalso. unfold c' in Q. rewrite coord_setc_other in Q by (try exact Ha; try (apply (fs_axis q FS)); congruence).
        rewrite (inI_out c q Hb HI Hq) in Q. discriminate. }
    destruct (not_inI_setc a y c Ha Hb Hy HI N) as (p & Hp & Ea & R).
    pose proof (SL p Hp) as FSp.
    assert (Pin : ap (in_pml K p) c' = true).
    { rewrite (in_pml_slab p c' FSp Hb'), Ea. unfold c'. rewrite coord_setc_same by exact Ha. exact R. }
    assert (Pif : ap (in_iface K p) c' = true) by (apply IF; assumption).
    (* p is a min-side slab whose last row is y *)
    assert (Pmin : p_min K p = true /\ hi_a p = S y).
    { rewrite (in_iface_slab p c' FSp), Pin in Pif. cbn [andb] in Pif. rewrite Ea in Pif. unfold c' in Pif. rewrite coord_setc_same in Pif by exact Ha.
      destruct (p_min K p) eqn:M.
      - split; [reflexivity|]. apply Nat.eqb_eq in Pif. lia.
      - exfalso. apply Nat.eqb_eq in Pif. pose proof (inI_out c p Hb HI Hp) as O'. rewrite Ea, Hxy in O'.
        pose proof (fs_side p FSp) as S0. rewrite M, Ea in S0. pose proof (inbc_coord a c Ha Hb).
        rewrite (proj2 (Nat.leb_le _ _) (ltac:(lia) : (lo_a p <= S y)%nat)), (proj2 (Nat.ltb_lt _ _) (ltac:(lia) : (S y < hi_a p)%nat)) in O'. discriminate. }
    destruct Pmin as (Pm & Phi).
    (* every cell of the box whose a-coordinate is y lies on p's interface row *)
    assert (ROW : forall d, inbc d -> coord a d = y -> A1c d = true).
    { intros d Hd Hyd. apply A1c_of_iface. apply (is_iface_intro p d Hp).
      rewrite (in_iface_slab p d FSp), (in_pml_slab p d FSp Hd), Ea, Hyd, R, Pm. cbn [andb]. apply Nat.eqb_eq. lia. }
    assert (CL : ap (cleanb K sc) c' = true).
    { destruct c' as [[i j] k] eqn:Ec. unfold ap, cleanb. apply forallb_forall. intros q Hq.
      destruct (in_pml K q i j k) eqn:Q; [|reflexivity]. cbn [implb]. apply (IF q Hq). exact Q. }
    assert (FW : ap (fwd_ok K sc wrapx wrapy wrapz (A1 K sc)) c' = true).
    { (* along a: the interior cell c itself; along the other axes: cells of the same row *)
      assert (G : forall b, (b <= 2)%nat ->
                (if S (coord b c') <? n_a b then A1c (setc b (S (coord b c')) c') else implb (wrap_a b) (A1c (setc b O c'))) = true).
      { intros b Hb2. destruct (Nat.eq_dec b a) as [E|E].
        - subst b. unfold c'. rewrite coord_setc_same by exact Ha.
          pose proof (inbc_coord a c Ha Hb) as Hx. rewrite (proj2 (Nat.ltb_lt _ _) (ltac:(lia) : (S y < n_a a)%nat)).
          replace (setc a (S y) (setc a y c)) with c; [apply A1c_of_inI; exact HI|].
          destruct c as [[i j] k]. destruct a as [|[|[|a]]]; cbn in Hxy |- *; subst; reflexivity.
        - destruct (S (coord b c') <? n_a b) eqn:F.
          + apply Nat.ltb_lt in F. apply ROW; [apply inbc_setc; assumption|].
            rewrite coord_setc_other by (assumption || congruence). unfold c'. apply coord_setc_same. exact Ha.
          + destruct (wrap_a b); [|reflexivity]. cbn [implb]. pose proof (inbc_coord b c' Hb2 Hb').
            apply ROW; [apply inbc_setc; try assumption; lia|].
            rewrite coord_setc_other by (assumption || congruence). unfold c'. apply coord_setc_same. exact Ha. }
      pose proof (G 0%nat ltac:(lia)) as G0. pose proof (G 1%nat ltac:(lia)) as G1. pose proof (G 2%nat ltac:(lia)) as G2.
      destruct c' as [[i j] k]. unfold ap, fwd_ok. cbn [coord setc n_a wrap_a] in G0, G1, G2. unfold A1c, ap in G0, G1, G2. rewrite G0, G1, G2. reflexivity. }
    pose proof (ROW c' Hb' ltac:(unfold c'; apply coord_setc_same; exact Ha)) as AA.
    destruct c' as [[i j] k]. unfold Bsetc, ap, Bset. unfold ap in CL, FW. unfold A1c, ap in AA. rewrite CL, AA, FW. reflexivity.
  Qed.

  Lemma bwd_axis a c : (a <= 2)%nat -> inbc c -> inIc c = true ->
    (match coord a c with O => implb (wrap_a a) (Bsetc (setc a (n_a a - 1) c)) | S y => Bsetc (setc a y c) end) = true.
  Proof.
    intros Ha Hb HI. pose proof (inbc_coord a c Ha Hb) as Hx. destruct (coord a c) as [|y] eqn:E.
    - destruct (wrap_a a) eqn:W; [|reflexivity]. cbn [implb].
      assert (V : (n_a a - 1 < n_a a)%nat) by lia.
      apply Bset_interior; [apply inbc_setc; assumption|]. apply (inIc_setc a _ c Ha Hb V HI). apply nowrap_free. exact W.
    - destruct (inIc (setc a y c)) eqn:N.
      + apply Bset_interior; [apply inbc_setc; try assumption; lia | exact N].
      + apply (Bset_below a c y Ha Hb HI E N).
  Qed.

  (* ---- main result ---- *)
  Theorem slab_geometry_ok : geometry_ok K sc wrapx wrapy wrapz.
  Proof.
    intros i j k Hb HI. set (c := (i, j, k) : cell).
    pose proof (Bset_interior c Hb HI) as B.
    pose proof (bwd_axis 0 c ltac:(lia) Hb HI) as B0. pose proof (bwd_axis 1 c ltac:(lia) Hb HI) as B1. pose proof (bwd_axis 2 c ltac:(lia) Hb HI) as B2.
    unfold Gcell, bwd_ok. unfold Bsetc, ap, c in B. rewrite B. cbn [andb].
    unfold c in B0, B1, B2. cbn [coord setc n_a wrap_a] in B0, B1, B2. unfold Bsetc, ap in B0, B1, B2.
    rewrite B0, B1, B2. reflexivity.
  Qed.
End Geometry.
