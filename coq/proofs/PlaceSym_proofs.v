(* PlaceSym_proofs.v — interval arithmetic of the symmetry reduction (model/PlaceSym.v). *)
From Coq Require Import ZArith List Bool Lia.
From FV Require Import model.PlaceSym.
Import ListNotations.
Open Scope Z_scope.

Lemma sym_cells_ok_spec n : sym_cells_ok n = true <-> 2 <= n /\ exists k, n = 2 * k.
Proof.
  unfold sym_cells_ok. rewrite andb_true_iff, Z.leb_le, Z.eqb_eq. split.
  - intros [H1 H2]. split; [exact H1|]. exists (n / 2). pose proof (Z.div_mod n 2 ltac:(lia)). lia.
  - intros [H1 [k ->]]. split; [exact H1|]. rewrite Z.mul_comm. apply Z.mod_mul. lia.
Qed.

(* non-symmetric axis: nothing changes, the shift is the volume's lower bound *)
Lemma reduce_vol_axis_nosym vs : reduce_vol_axis 0 vs = Some (fst vs, vs).
Proof. destruct vs. reflexivity. Qed.

(* symmetric axis: accepted iff the cell count is even and >= 2; the plane is in the middle, the reduced
   volume is [0, n/2) — the UPPER half [m, vs1) of the full interval shifted by m *)
Lemma reduce_vol_axis_sym sym vs0 vs1 : sym <> 0 ->
  match reduce_vol_axis sym (vs0, vs1) with
  | Some (m, (a, b)) => 2 <= vs1 - vs0 /\ 2 * (m - vs0) = vs1 - vs0 /\ a = 0 /\ b = vs1 - m /\ 2 * b = vs1 - vs0
  | None => vs1 - vs0 < 2 \/ (vs1 - vs0) mod 2 = 1
  end.
Proof.
  intros Hs. unfold reduce_vol_axis. destruct (Z.eqb_spec sym 0); [contradiction|].
  destruct (sym_cells_ok (vs1 - vs0)) eqn:E.
  - apply sym_cells_ok_spec in E. destruct E as [H1 [k Hk]].
    assert ((vs1 - vs0) / 2 = k) by (rewrite Hk, Z.mul_comm; apply Z.div_mul; lia).
    repeat split; lia.
  - unfold sym_cells_ok in E. apply andb_false_iff in E. destruct E as [E|E].
    + apply Z.leb_gt in E. left. lia.
    + apply Z.eqb_neq in E. right. pose proof (Z.mod_pos_bound (vs1 - vs0) 2 ltac:(lia)). lia.
Qed.

(* clipping of one object interval on a symmetric axis: the kept cells are exactly the object's cells in the
   kept half of the volume, renumbered from the plane; the unclipped extent is shifted by the plane index;
   the object is dropped iff it has no cell in the kept half *)
Lemma reduce_obj_axis_sym sym m vs1 s0 s1 : sym <> 0 ->
  let '(c, u, drop) := reduce_obj_axis sym m vs1 (s0, s1) in
  (forall i, fst c <= i < snd c <-> (0 <= i /\ s0 <= i + m < s1 /\ i + m < vs1)) /\
  u = (s0 - m, s1 - m) /\
  fst c = Z.max (fst u) 0 /\ snd c = Z.min (snd u) (vs1 - m) /\
  (drop = true <-> forall i, ~ (m <= i < vs1 /\ s0 <= i < s1)).
Proof.
  intros Hs. unfold reduce_obj_axis. destruct (Z.eqb_spec sym 0); [contradiction|]. cbn [fst snd].
  split; [intros i; lia|]. split; [reflexivity|]. split; [lia|]. split; [lia|].
  rewrite Z.leb_le. split.
  - intros H i. lia.
  - intros H.
    destruct (Z_le_gt_dec (Z.min s1 vs1 - m) (Z.max s0 m - m)) as [|Hgt]; [assumption|].
    exfalso. apply (H (Z.max s0 m)). lia.
Qed.

Lemma reduce_obj_axis_nosym m vs1 s : reduce_obj_axis 0 m vs1 s = (s, s, false).
Proof. destruct s. reflexivity. Qed.

(* an object inside the volume and entirely in the kept half is only shifted; one entirely below the plane is dropped;
   one that crosses the plane starts at 0 and has a negative unreduced start *)
Lemma reduce_obj_axis_cases sym m vs1 s0 s1 : sym <> 0 -> s0 < s1 -> s1 <= vs1 -> m < vs1 ->
  let '(c, u, drop) := reduce_obj_axis sym m vs1 (s0, s1) in
  (m <= s0 -> c = u /\ drop = false) /\
  (s1 <= m -> drop = true) /\
  (s0 < m < s1 -> c = (0, s1 - m) /\ fst u < 0 /\ drop = false).
Proof.
  intros Hs H1 H2 H3. unfold reduce_obj_axis. destruct (Z.eqb_spec sym 0); [contradiction|].
  split; [|split].
  - intros G. split; [f_equal; lia|]. apply Z.leb_gt. lia.
  - intros G. apply Z.leb_le. lia.
  - intros G. split; [f_equal; lia|]. split; [cbn; lia|]. apply Z.leb_gt. lia.
Qed.

(* the three-axis function is the per-axis function on every axis *)
Lemma reduce_slices_3 s0 s1 s2 v0 v1 v2 objs :
  reduce_slices [s0; s1; s2] [v0; v1; v2] objs =
  match reduce_vol_axis s0 v0, reduce_vol_axis s1 v1, reduce_vol_axis s2 v2 with
  | Some (m0, n0), Some (m1, n1), Some (m2, n2) =>
      Some {| r_vol := [n0; n1; n2];
              r_vol_unreduced := [shift_axis s0 m0 v0; shift_axis s1 m1 v1; shift_axis s2 m2 v2];
              r_shape := [snd n0 - fst n0; snd n1 - fst n1; snd n2 - fst n2];
              r_objs := map (reduce_obj [s0; s1; s2] [m0; m1; m2] [v0; v1; v2]) objs |}
  | _, _, _ => None
  end.
Proof.
  unfold reduce_slices. cbn [combine map fst snd all_some].
  destruct (reduce_vol_axis s0 v0) as [[m0 n0]|]; [|reflexivity].
  destruct (reduce_vol_axis s1 v1) as [[m1 n1]|]; [|reflexivity].
  destruct (reduce_vol_axis s2 v2) as [[m2 n2]|]; reflexivity.
Qed.

Lemma reduce_obj_3 s0 s1 s2 m0 m1 m2 v0 v1 v2 x0 x1 x2 :
  reduce_obj [s0; s1; s2] [m0; m1; m2] [v0; v1; v2] [x0; x1; x2] =
  let '(c0, u0, d0) := reduce_obj_axis s0 m0 (snd v0) x0 in
  let '(c1, u1, d1) := reduce_obj_axis s1 m1 (snd v1) x1 in
  let '(c2, u2, d2) := reduce_obj_axis s2 m2 (snd v2) x2 in
  if d0 || d1 || d2 then None else Some ([c0; c1; c2], [u0; u1; u2]).
Proof.
  unfold reduce_obj. cbn [combine map3 fst snd].
  destruct (reduce_obj_axis s0 m0 (snd v0) x0) as [[c0 u0] d0].
  destruct (reduce_obj_axis s1 m1 (snd v1) x1) as [[c1 u1] d1].
  destruct (reduce_obj_axis s2 m2 (snd v2) x2) as [[c2 u2] d2].
  cbn. destruct d0, d1, d2; reflexivity.
Qed.

(* a PEC wall exactly on the electric (-1) planes; it is one cell thick at the reduced min edge and spans the
   reduced volume transversally *)
Lemma walls_3 s0 s1 s2 n0 n1 n2 :
  walls [s0; s1; s2] [n0; n1; n2] =
  (if s0 =? -1 then [(0%nat, [(0, 1); (0, n1); (0, n2)])] else []) ++
  (if s1 =? -1 then [(1%nat, [(0, n0); (0, 1); (0, n2)])] else []) ++
  (if s2 =? -1 then [(2%nat, [(0, n0); (0, n1); (0, 1)])] else []).
Proof. unfold walls. cbn. destruct (s0 =? -1), (s1 =? -1), (s2 =? -1); reflexivity. Qed.

Lemma walls_electric_only sym shape a sl : In (a, sl) (walls sym shape) -> nth a sym 0 = -1 /\ (a < 3)%nat.
Proof.
  unfold walls. rewrite in_flat_map. intros (b & Hb & Hin).
  destruct (Z.eqb_spec (nth b sym 0) (-1)) as [E|E]; [|contradiction].
  destruct Hin as [Hin|[]]. inversion Hin; subst. split; [exact E|].
  cbn in Hb. destruct Hb as [<-|[<-|[<-|[]]]]; lia.
Qed.

Lemma walls_every_electric sym shape a : (a < 3)%nat -> nth a sym 0 = -1 -> exists sl, In (a, sl) (walls sym shape).
Proof.
  intros Ha E. eexists. unfold walls. rewrite in_flat_map. exists a. split.
  - cbn. destruct a as [|[|[|a]]]; auto; lia.
  - rewrite E. cbn. left. reflexivity.
Qed.
