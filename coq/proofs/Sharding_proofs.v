From Coq Require Import List Arith Lia.
From FV Require Import model.Sharding.
Import ListNotations.

Lemma chunks_concat {X} c k : forall (l : list X), length l = c * k -> concat (chunks c k l) = l.
Proof.
  induction k as [|k IH]; intros l H; cbn.
  - rewrite Nat.mul_0_r in H. destruct l; [reflexivity | discriminate].
  - rewrite IH; [apply firstn_skipn|]. rewrite skipn_length. lia.
Qed.
Lemma chunks_length {X} c k : forall (l : list X), length l = c * k -> Forall (fun p => length p = c) (chunks c k l) /\ length (chunks c k l) = k.
Proof.
  induction k as [|k IH]; intros l H; cbn; [split; [constructor | reflexivity]|].
  destruct (IH (skipn c l)) as [A B]; [rewrite skipn_length; lia|].
  split; [constructor; [rewrite firstn_length; lia | exact A] | rewrite B; reflexivity].
Qed.

Theorem gather_shard_id {X} d (l : list X) parts : shard_axis d l = Some parts ->
  gather parts = l /\ length parts = d /\ Forall (fun p => length p = length l / d) parts.
Proof.
  unfold shard_axis. destruct (d =? 0) eqn:D; [discriminate|]. apply Nat.eqb_neq in D.
  destruct (length l mod d =? 0) eqn:M; [|discriminate]. apply Nat.eqb_eq in M. intros E. inversion E; subst parts; clear E.
  assert (L: length l = length l / d * d).
  { pose proof (Nat.div_mod (length l) d D). lia. }
  destruct (chunks_length (length l / d) d l L) as [A B].
  split; [apply chunks_concat; exact L | split; [exact B | exact A]].
Qed.
Theorem shard_rejects {X} d (l : list X) : shard_axis d l = None <-> d = 0 \/ length l mod d <> 0.
Proof.
  unfold shard_axis. destruct (d =? 0) eqn:D.
  - apply Nat.eqb_eq in D. split; [left; exact D | reflexivity].
  - apply Nat.eqb_neq in D. destruct (length l mod d =? 0) eqn:M.
    + apply Nat.eqb_eq in M. split; [discriminate | intros [H|H]; contradiction].
    + apply Nat.eqb_neq in M. split; [right; exact M | reflexivity].
Qed.
Lemma concat_map_map {X Y} (f : X -> Y) (ps : list (list X)) : concat (map (map f) ps) = map f (concat ps).
Proof. induction ps as [|p ps IH]; cbn; [reflexivity|]. rewrite IH, map_app. reflexivity. Qed.
(* device-count independence of any cell-wise computation *)
Theorem on_devices_independent {X Y} d d' (f : X -> Y) (l : list X) r r' :
  on_devices d f l = Some r -> on_devices d' f l = Some r' -> r = r' /\ r = map f l.
Proof.
  unfold on_devices. destruct (shard_axis d l) as [p|] eqn:E; [|discriminate]. destruct (shard_axis d' l) as [p'|] eqn:E'; [|discriminate].
  intros A B. inversion A; inversion B; subst.
  destruct (gather_shard_id d l p E) as (G & _). destruct (gather_shard_id d' l p' E') as (G' & _).
  unfold gather in *. rewrite !concat_map_map, G, G'. split; reflexivity.
Qed.
