(* YeeExec_proofs.v — the executed (tabulated) step reads back exactly the functional step in the box,
   so the correspondence check compares the very values the theorems are about. *)
From Coq Require Import List Arith Bool Lia.
From FV Require Import base.Scalar base.Cplx model.Yee model.YeeExec.
Import ListNotations.

Section Freeze.
  Context {X : Type}.
  Lemma nth_map_seq (g : nat -> X) n i d : i < n -> nth i (map g (seq 0 n)) d = g i.
  Proof.
    intros H. rewrite (nth_indep _ d (g 0)) by (rewrite map_length, seq_length; lia).
    rewrite (map_nth g (seq 0 n) 0 i). rewrite seq_nth by lia. reflexivity.
  Qed.
  Lemma nth_map_seq' {Y} (g : nat -> Y) n i d : i < n -> nth i (map g (seq 0 n)) d = g i.
  Proof.
    intros H. rewrite (nth_indep _ d (g 0)) by (rewrite map_length, seq_length; lia).
    rewrite (map_nth g (seq 0 n) 0 i). rewrite seq_nth by lia. reflexivity.
  Qed.
  Lemma get3_tab3 (d : X) nx ny nz f i j k : i < nx -> j < ny -> k < nz -> get3 d (tab3 nx ny nz f) i j k = f i j k.
  Proof. intros Hi Hj Hk. unfold get3, tab3. rewrite !nth_map_seq' by assumption. reflexivity. Qed.
  Lemma freeze_in (d : X) nx ny nz f i j k : i < nx -> j < ny -> k < nz -> freeze d nx ny nz f i j k = f i j k.
  Proof.
    intros Hi Hj Hk. unfold freeze.
    destruct (i <? nx) eqn:A; [|apply Nat.ltb_ge in A; lia].
    destruct (j <? ny) eqn:B; [|apply Nat.ltb_ge in B; lia].
    destruct (k <? nz) eqn:C; [|apply Nat.ltb_ge in C; lia]. cbn. apply get3_tab3; assumption.
  Qed.
End Freeze.

Section Exec.
  Variable K : Fld.
  Variable sc : scene K.
  Theorem forwardX_in_box s i j k : i < nx K sc -> j < ny K sc -> k < nz K sc ->
    vx (fE (forwardX K sc s)) i j k = vx (fE (forward K sc s)) i j k /\
    vy (fE (forwardX K sc s)) i j k = vy (fE (forward K sc s)) i j k /\
    vz (fE (forwardX K sc s)) i j k = vz (fE (forward K sc s)) i j k /\
    vx (fH (forwardX K sc s)) i j k = vx (fH (forward K sc s)) i j k /\
    vy (fH (forwardX K sc s)) i j k = vy (fH (forward K sc s)) i j k /\
    vz (fH (forwardX K sc s)) i j k = vz (fH (forward K sc s)) i j k /\
    tstep (forwardX K sc s) = tstep (forward K sc s).
  Proof.
    intros Hi Hj Hk. unfold forwardX, freezeS, freezeV; cbn [fE fH tstep vx vy vz].
    rewrite !freeze_in by assumption. repeat split.
  Qed.
  Theorem backwardX_in_box s i j k : i < nx K sc -> j < ny K sc -> k < nz K sc ->
    vx (fE (backwardX K sc s)) i j k = vx (fE (backward K sc s)) i j k /\
    vy (fE (backwardX K sc s)) i j k = vy (fE (backward K sc s)) i j k /\
    vz (fE (backwardX K sc s)) i j k = vz (fE (backward K sc s)) i j k /\
    vx (fH (backwardX K sc s)) i j k = vx (fH (backward K sc s)) i j k /\
    vy (fH (backwardX K sc s)) i j k = vy (fH (backward K sc s)) i j k /\
    vz (fH (backwardX K sc s)) i j k = vz (fH (backward K sc s)) i j k /\
    tstep (backwardX K sc s) = tstep (backward K sc s).
  Proof.
    intros Hi Hj Hk. unfold backwardX, freezeS, freezeV; cbn [fE fH tstep vx vy vz].
    rewrite !freeze_in by assumption. repeat split.
  Qed.
End Exec.
