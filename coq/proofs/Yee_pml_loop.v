(* Yee_pml_loop.v — cell-level facts about the CPML loop of model/Yee.v (curl_E / curl_H with absorbing layers):
   where every layer's correction vanishes the curl is the raw curl, and the psi accumulators of cells whose `a`
   coefficient is zero stay zero. *)
From Coq Require Import List Arith Bool Lia Field Ring.
From FV Require Import base.Scalar base.Cplx model.Yee.
Import ListNotations.
Local Open Scope fld_scope.

Section PmlLoop.
  Variable K : Fld.
  Add Field KFpl : (Fth K).
  Notation C := (C K).
  Variable sc : scene K.

  Lemma cadd_0_r (z : C) : cadd z c0 = z.
  Proof. destruct z; unfold cadd, Cplx.c0; cbn. f_equal; ring. Qed.
  Lemma csub_0_r (z : C) : csub z c0 = z.
  Proof. destruct z; unfold csub, Cplx.c0; cbn. f_equal; ring. Qed.
  Lemma cscal_c0 r : cscal r (c0 (K:=K)) = c0.
  Proof. unfold cscal, Cplx.c0; cbn. f_equal; ring. Qed.
  Lemma cscal_0 (z : C) : cscal 0 z = c0.
  Proof. destruct z; unfold cscal, Cplx.c0; cbn. f_equal; ring. Qed.
  Lemma cadd_00 : cadd (c0 (K:=K)) c0 = c0.
  Proof. apply cadd_0_r. Qed.

  (* the layer contributes nothing at the cell: either the cell is outside its slice, or kappa = 1, a = 0 and psi = 0 there *)
  Definition quiet (isE : bool) (p : pml K) (psi : psi_t K) (i j k : nat) : Prop :=
    in_pml K p i j k = true ->
    p_kappa1 K p = true /\ (if isE then p_aH K p (pml_depth K p i j k) else p_aE K p (pml_depth K p i j k)) = 0 /\
    fst psi i j k = c0 /\ snd psi i j k = c0.

  Lemma pml_apply_quiet isE sim p d1 d2 psi i j k : quiet isE p psi i j k ->
    fst (fst (pml_apply K isE sim p d1 d2 psi)) i j k = c0 /\ snd (fst (pml_apply K isE sim p d1 d2 psi)) i j k = c0 /\
    fst (snd (pml_apply K isE sim p d1 d2 psi)) i j k = fst psi i j k /\ snd (snd (pml_apply K isE sim p d1 d2 psi)) i j k = snd psi i j k.
  Proof.
    intros Q. unfold pml_apply. cbn [fst snd].
    unfold quiet in Q. destruct (in_pml K p i j k) eqn:E; [|repeat split].
    destruct (Q eq_refl) as (Hk & Ha & P1 & P2).
    unfold cpml_step. rewrite Hk, P1, P2.
    destruct isE; rewrite Ha; destruct sim; cbn [fst snd]; rewrite ?cscal_c0, ?cscal_0, ?cadd_00; repeat split.
  Qed.

  Lemma add_corr_quiet a c k1 k2 i j k : k1 i j k = c0 -> k2 i j k = c0 ->
    vx (add_corr K a c k1 k2) i j k = vx c i j k /\ vy (add_corr K a c k1 k2) i j k = vy c i j k /\ vz (add_corr K a c k1 k2) i j k = vz c i j k.
  Proof.
    intros H1 H2. unfold add_corr. destruct a as [|[|a]]; cbn [vx vy vz]; rewrite ?H1, ?H2, ?cadd_0_r, ?csub_0_r; repeat split.
  Qed.

  (* where every layer is quiet, the CPML loop leaves the curl and the accumulators of that cell untouched *)
  Lemma pml_loop_quiet isE sim i j k dsel : forall ps psis c,
    Forall2 (fun p psi => quiet isE p psi i j k) ps psis ->
    vx (fst (pml_loop K isE sim ps psis dsel c)) i j k = vx c i j k /\
    vy (fst (pml_loop K isE sim ps psis dsel c)) i j k = vy c i j k /\
    vz (fst (pml_loop K isE sim ps psis dsel c)) i j k = vz c i j k /\
    Forall2 (fun psi psi' => fst psi' i j k = fst psi i j k /\ snd psi' i j k = snd psi i j k) psis (snd (pml_loop K isE sim ps psis dsel c)).
  Proof.
    induction ps as [|p ps IH]; intros psis c HF.
    - inversion HF; subst. cbn. repeat split. constructor.
    - inversion HF as [|? psi ? psis' Q HF']; subst. cbn [pml_loop].
      destruct (dsel (p_axis K p)) as [d1 d2].
      pose proof (pml_apply_quiet isE sim p d1 d2 psi i j k Q) as (A1 & A2 & A3 & A4).
      destruct (pml_apply K isE sim p d1 d2 psi) as [[k1 k2] psi'] eqn:EA. cbn [fst snd] in A1, A2, A3, A4.
      destruct (add_corr_quiet (p_axis K p) c k1 k2 i j k A1 A2) as (B1 & B2 & B3).
      destruct (IH psis' (add_corr K (p_axis K p) c k1 k2) HF') as (C1 & C2 & C3 & C4).
      destruct (pml_loop K isE sim ps psis' dsel (add_corr K (p_axis K p) c k1 k2)) as [c' rest] eqn:EL. cbn [fst snd] in *.
      repeat split; try congruence. constructor; [split; assumption | exact C4].
  Qed.

  (* structure of the new accumulators, layer by layer (any cell) *)
  Lemma pml_loop_psi isE sim dsel : forall ps psis c, length psis = length ps ->
    Forall2 (fun (pp : pml K * psi_t K) psi' =>
               psi' = snd (pml_apply K isE sim (fst pp) (fst (dsel (p_axis K (fst pp)))) (snd (dsel (p_axis K (fst pp)))) (snd pp)))
            (combine ps psis) (snd (pml_loop K isE sim ps psis dsel c)).
  Proof.
    induction ps as [|p ps IH]; intros psis c HL.
    - destruct psis; [constructor | discriminate].
    - destruct psis as [|psi psis]; [discriminate|]. injection HL as HL. cbn [pml_loop combine].
      destruct (dsel (p_axis K p)) as [d1 d2] eqn:ED.
      destruct (pml_apply K isE sim p d1 d2 psi) as [[k1 k2] psi'] eqn:EA.
      specialize (IH psis (add_corr K (p_axis K p) c k1 k2) HL).
      destruct (pml_loop K isE sim ps psis dsel (add_corr K (p_axis K p) c k1 k2)) as [c' rest] eqn:EL. cbn [fst snd] in *.
      constructor; [cbn [fst snd]; rewrite ED; cbn [fst snd]; rewrite EA; reflexivity | exact IH].
  Qed.

  (* accumulators stay zero on cells where kappa = 1, a = 0 (interface rows under default grading) *)
  Lemma pml_loop_psi_zero isE sim dsel (Z : pml K -> nat -> nat -> nat -> bool) : forall ps psis c,
    (forall p, In p ps -> p_kappa1 K p = true /\ forall i j k, Z p i j k = true ->
               in_pml K p i j k = true /\ p_aE K p (pml_depth K p i j k) = 0 /\ p_aH K p (pml_depth K p i j k) = 0) ->
    Forall2 (fun p psi => forall i j k, Z p i j k = true -> fst psi i j k = c0 /\ snd psi i j k = c0) ps psis ->
    Forall2 (fun p psi => forall i j k, Z p i j k = true -> fst psi i j k = c0 /\ snd psi i j k = c0) ps (snd (pml_loop K isE sim ps psis dsel c)).
  Proof.
    induction ps as [|p ps IH]; intros psis c Hp HF.
    - inversion HF; subst. cbn. constructor.
    - inversion HF as [|? psi ? psis' Q HF']; subst. cbn [pml_loop].
      destruct (dsel (p_axis K p)) as [d1 d2].
      destruct (pml_apply K isE sim p d1 d2 psi) as [[k1 k2] psi'] eqn:EA.
      specialize (IH psis' (add_corr K (p_axis K p) c k1 k2) (fun q Hq => Hp q (or_intror Hq)) HF').
      destruct (pml_loop K isE sim ps psis' dsel (add_corr K (p_axis K p) c k1 k2)) as [c' rest]. cbn [snd] in *.
      constructor; [|exact IH].
      intros i j k HZ. destruct (Hp p (or_introl eq_refl)) as [Hk Hz]. destruct (Hz i j k HZ) as (Hin & a1 & a2). destruct (Q i j k HZ) as [z1 z2].
      assert (E: psi' = snd (pml_apply K isE sim p d1 d2 psi)) by (rewrite EA; reflexivity).
      rewrite E. clear E EA HF Q. destruct psi as [q1 q2]. cbn [fst snd] in z1, z2. unfold pml_apply. cbn [fst snd]. rewrite Hin. unfold cpml_step.
      destruct isE; cbn [fst snd]; rewrite ?Hk, ?z1, ?z2, ?a1, ?a2; destruct sim; cbn [fst snd]; rewrite ?cscal_c0, ?cscal_0, ?cadd_00; split; reflexivity.
  Qed.

  (* ---- linearity of the CPML loop: inputs (derivatives, accumulators, curl) combined as a*x + b*y give outputs combined the same way ---- *)
  Section LoopLinear.
  Variables a b : car K.
  Definition lc2 (x y : C) : C := cadd (cscal a x) (cscal b y).
  Definition lcA (x y : A3 K) : A3 K := fun i j k => lc2 (x i j k) (y i j k).
  Definition lcVl (x y : V3 K) : V3 K := mkV (lcA (vx x) (vx y)) (lcA (vy x) (vy y)) (lcA (vz x) (vz y)).
  Definition eqA (x y : A3 K) : Prop := forall i j k, x i j k = y i j k.
  Definition eqV (x y : V3 K) : Prop := eqA (vx x) (vx y) /\ eqA (vy x) (vy y) /\ eqA (vz x) (vz y).
  Definition eqP (x y : psi_t K) : Prop := eqA (fst x) (fst y) /\ eqA (snd x) (snd y).
  Definition lcP (x y : psi_t K) : psi_t K := (lcA (fst x) (fst y), lcA (snd x) (snd y)).

  Lemma cpml_step_lin ca cb ik k1 sim d1 d2 p1 p2 :
    cpml_step K ca cb ik k1 sim (lc2 d1 d2) (lc2 p1 p2) =
    (lc2 (fst (cpml_step K ca cb ik k1 sim d1 p1)) (fst (cpml_step K ca cb ik k1 sim d2 p2)),
     lc2 (snd (cpml_step K ca cb ik k1 sim d1 p1)) (snd (cpml_step K ca cb ik k1 sim d2 p2))).
  Proof.
    unfold cpml_step. destruct d1, d2, p1, p2. destruct k1, sim; cbn [fst snd]; f_equal; apply c_eq; unfold lc2, cadd, cscal; cbn [fst snd]; ring.
  Qed.

  Lemma pml_apply_lin isE sim p d1 d2 e1 e2 d1' e1' (ps1 ps2 ps3 : psi_t K) :
    eqA d1' (lcA d1 d2) -> eqA e1' (lcA e1 e2) -> eqP ps3 (lcP ps1 ps2) ->
    let r1 := pml_apply K isE sim p d1 e1 ps1 in let r2 := pml_apply K isE sim p d2 e2 ps2 in let r3 := pml_apply K isE sim p d1' e1' ps3 in
    eqA (fst (fst r3)) (lcA (fst (fst r1)) (fst (fst r2))) /\ eqA (snd (fst r3)) (lcA (snd (fst r1)) (snd (fst r2))) /\
    eqP (snd r3) (lcP (snd r1) (snd r2)).
  Proof.
    intros Hd He [Hp1 Hp2]. cbv zeta. unfold pml_apply; cbn [fst snd].
    assert (Z: lc2 c0 c0 = c0) by (apply c_eq; unfold lc2, cadd, cscal, Cplx.c0; cbn [fst snd]; ring).
    repeat split; intros i j k; unfold lcA, lcP; cbn [fst snd]; rewrite ?Hd, ?He, ?Hp1, ?Hp2; unfold lcA; cbn [fst snd];
      destruct (in_pml K p i j k); rewrite ?Z; try reflexivity;
      destruct isE; cbv beta iota zeta; unfold lcP, lcA; cbn [fst snd]; rewrite cpml_step_lin; reflexivity.
  Qed.

  Lemma add_corr_lin ax c1 c2 c3 k1 k2 k3 l1 l2 l3 :
    eqV c3 (lcVl c1 c2) -> eqA k3 (lcA k1 k2) -> eqA l3 (lcA l1 l2) ->
    eqV (add_corr K ax c3 k3 l3) (lcVl (add_corr K ax c1 k1 l1) (add_corr K ax c2 k2 l2)).
  Proof.
    intros (X & Y & Z) Hk Hl. unfold add_corr. destruct ax as [|[|ax]]; unfold eqV, lcVl, lcA; cbn [vx vy vz];
      repeat split; intros i j k; rewrite ?X, ?Y, ?Z, ?Hk, ?Hl; unfold lcVl, lcA; cbn [vx vy vz]; try reflexivity;
      apply c_eq; unfold lcVl, lcA, lc2, cadd, csub, cscal; cbn [fst snd vx vy vz]; ring.
  Qed.

  Lemma pml_loop_lin isE sim (ds1 ds2 ds3 : nat -> A3 K * A3 K) :
    (forall n, eqA (fst (ds3 n)) (lcA (fst (ds1 n)) (fst (ds2 n))) /\ eqA (snd (ds3 n)) (lcA (snd (ds1 n)) (snd (ds2 n)))) ->
    forall ps (q1 q2 q3 : list (psi_t K)) c1 c2 c3,
    length q1 = length ps -> length q2 = length ps -> length q3 = length ps ->
    (forall n, n < length ps -> eqP (nth n q3 (fun _ _ _ => c0, fun _ _ _ => c0)) (lcP (nth n q1 (fun _ _ _ => c0, fun _ _ _ => c0)) (nth n q2 (fun _ _ _ => c0, fun _ _ _ => c0)))) ->
    eqV c3 (lcVl c1 c2) ->
    let r1 := pml_loop K isE sim ps q1 ds1 c1 in let r2 := pml_loop K isE sim ps q2 ds2 c2 in let r3 := pml_loop K isE sim ps q3 ds3 c3 in
    eqV (fst r3) (lcVl (fst r1) (fst r2)) /\
    length (snd r1) = length ps /\ length (snd r2) = length ps /\ length (snd r3) = length ps /\
    (forall n, n < length ps -> eqP (nth n (snd r3) (fun _ _ _ => c0, fun _ _ _ => c0)) (lcP (nth n (snd r1) (fun _ _ _ => c0, fun _ _ _ => c0)) (nth n (snd r2) (fun _ _ _ => c0, fun _ _ _ => c0)))).
  Proof.
    intros Hds. induction ps as [|p ps IH]; intros q1 q2 q3 c1 c2 c3 L1 L2 L3 Hq Hc; cbv zeta.
    - destruct q1, q2, q3; try discriminate. cbn. split; [exact Hc|]. split; [reflexivity|]. split; [reflexivity|]. split; [reflexivity|]. intros m Hm; inversion Hm.
    - destruct q1 as [|s1 q1], q2 as [|s2 q2], q3 as [|s3 q3]; try discriminate.
      injection L1 as L1. injection L2 as L2. injection L3 as L3. cbn [pml_loop].
      destruct (Hds (p_axis K p)) as [Hd He].
      destruct (ds1 (p_axis K p)) as [d1 e1]. destruct (ds2 (p_axis K p)) as [d2 e2]. destruct (ds3 (p_axis K p)) as [d3 e3]. cbn [fst snd] in Hd, He.
      pose proof (pml_apply_lin isE sim p d1 d2 e1 e2 d3 e3 s1 s2 s3 Hd He (Hq O ltac:(cbn; lia))) as (A1 & A2 & A3).
      destruct (pml_apply K isE sim p d1 e1 s1) as [[k1 l1] s1'].
      destruct (pml_apply K isE sim p d2 e2 s2) as [[k2 l2] s2'].
      destruct (pml_apply K isE sim p d3 e3 s3) as [[k3 l3] s3']. cbn [fst snd] in A1, A2, A3.
      pose proof (add_corr_lin (p_axis K p) c1 c2 c3 k1 k2 k3 l1 l2 l3 Hc A1 A2) as HC.
      specialize (IH q1 q2 q3 _ _ _ L1 L2 L3 (fun m Hm => Hq (S m) ltac:(cbn; lia)) HC). cbv zeta in IH.
      destruct (pml_loop K isE sim ps q1 ds1 (add_corr K (p_axis K p) c1 k1 l1)) as [r1 t1].
      destruct (pml_loop K isE sim ps q2 ds2 (add_corr K (p_axis K p) c2 k2 l2)) as [r2 t2].
      destruct (pml_loop K isE sim ps q3 ds3 (add_corr K (p_axis K p) c3 k3 l3)) as [r3 t3]. cbn [fst snd] in *.
      destruct IH as (I1 & I2 & I3 & I4 & I5).
      split; [exact I1|]. split; [cbn; lia|]. split; [cbn; lia|]. split; [cbn; lia|].
      intros m Hm. destruct m as [|m]; [exact A3 | apply I5; cbn in Hm; lia].
  Qed.
  End LoopLinear.

  (* ---- the CPML loop respects pointwise equality of its inputs, also across scenes that share the layer list ---- *)
  Definition eqAx (x y : A3 K) : Prop := forall i j k, x i j k = y i j k.
  Definition eqVx (x y : V3 K) : Prop := eqAx (vx x) (vx y) /\ eqAx (vy x) (vy y) /\ eqAx (vz x) (vz y).
  Definition eqPx (x y : psi_t K) : Prop := eqAx (fst x) (fst y) /\ eqAx (snd x) (snd y).
  Lemma pml_loop_ext isE sim (ds ds' : nat -> A3 K * A3 K) :
    (forall n, eqAx (fst (ds' n)) (fst (ds n)) /\ eqAx (snd (ds' n)) (snd (ds n))) ->
    forall ps q q' c c', Forall2 eqPx q' q -> eqVx c' c ->
    eqVx (fst (pml_loop K isE sim ps q' ds' c')) (fst (pml_loop K isE sim ps q ds c)) /\
    Forall2 eqPx (snd (pml_loop K isE sim ps q' ds' c')) (snd (pml_loop K isE sim ps q ds c)).
  Proof.
    intros Hd. induction ps as [|p ps IH]; intros q q' c c' HQ Hc.
    - cbn. split; assumption.
    - destruct HQ as [|s' s q0' q0 Hs HQ']; [cbn; split; [assumption | constructor]|]. cbn [pml_loop].
      destruct (Hd (p_axis K p)) as [D1 D2]. destruct (ds (p_axis K p)) as [d1 d2]. destruct (ds' (p_axis K p)) as [d1' d2']. cbn [fst snd] in D1, D2.
      assert (A: eqAx (fst (fst (pml_apply K isE sim p d1' d2' s'))) (fst (fst (pml_apply K isE sim p d1 d2 s))) /\
                 eqAx (snd (fst (pml_apply K isE sim p d1' d2' s'))) (snd (fst (pml_apply K isE sim p d1 d2 s))) /\
                 eqPx (snd (pml_apply K isE sim p d1' d2' s')) (snd (pml_apply K isE sim p d1 d2 s))).
      { destruct Hs as [S1 S2]. unfold pml_apply; cbn [fst snd]. repeat split; intros i j k; cbn [fst snd]; rewrite ?(D1 i j k), ?(D2 i j k), ?(S1 i j k), ?(S2 i j k); reflexivity. }
      destruct A as (A1 & A2 & A3).
      destruct (pml_apply K isE sim p d1 d2 s) as [[k1 k2] t]. destruct (pml_apply K isE sim p d1' d2' s') as [[k1' k2'] t']. cbn [fst snd] in A1, A2, A3.
      assert (AC: eqVx (add_corr K (p_axis K p) c' k1' k2') (add_corr K (p_axis K p) c k1 k2)).
      { destruct Hc as (X & Y & Z). unfold add_corr. destruct (p_axis K p) as [|[|ax]]; unfold eqVx; cbn [vx vy vz];
          repeat split; intros i j k; rewrite ?(X i j k), ?(Y i j k), ?(Z i j k), ?(A1 i j k), ?(A2 i j k); reflexivity. }
      destruct (IH q0 q0' _ _ HQ' AC) as [R1 R2].
      destruct (pml_loop K isE sim ps q0 ds (add_corr K (p_axis K p) c k1 k2)) as [r rest].
      destruct (pml_loop K isE sim ps q0' ds' (add_corr K (p_axis K p) c' k1' k2')) as [r' rest']. cbn [fst snd] in *.
      split; [exact R1 | constructor; assumption].
  Qed.
End PmlLoop.
