(* Yee_pml_loop.v — cell-level facts about the CPML loop of model/Yee.v (curl_E / curl_H with absorbing layers):
   where every layer's correction vanishes the curl is the raw curl, and the psi accumulators of cells whose `a`
   coefficient is zero stay zero. *)
From Coq Require Import List Arith Bool Lia Field Ring.
From FV Require Import base.Scalar base.Cplx model.Yee.
Import ListNotations.
Local Open Scope fld_scope.

Section PmlLoop.
  Variable K : Fld.
  Add Field KFpl : (Fth K).
  Notation C := (C K).
  Variable sc : scene K.

  Lemma cadd_0_r (z : C) : cadd z c0 = z.
  Proof. destruct z; unfold cadd, Cplx.c0; cbn. f_equal; ring. Qed.
  Lemma csub_0_r (z : C) : csub z c0 = z.
  Proof. destruct z; unfold csub, Cplx.c0; cbn. f_equal; ring. Qed.
  Lemma cscal_c0 r : cscal r (c0 (K:=K)) = c0.
  Proof. unfold cscal, Cplx.c0; cbn. f_equal; ring. Qed.
  Lemma cscal_0 (z : C) : cscal 0 z = c0.
  Proof. destruct z; unfold cscal, Cplx.c0; cbn. f_equal; ring. Qed.
  Lemma cadd_00 : cadd (c0 (K:=K)) c0 = c0.
  Proof. apply cadd_0_r. Qed.

  (* the layer contributes nothing at the cell: either the cell is outside its slice, or kappa = 1, a = 0 and psi = 0 there *)
  Definition quiet (isE : bool) (p : pml K) (psi : psi_t K) (i j k : nat) : Prop :=
    in_pml K p i j k = true ->
    p_kappa1 K p = true /\ (if isE then p_aH K p (pml_depth K p i j k) else p_aE K p (pml_depth K p i j k)) = 0 /\
    fst psi i j k = c0 /\ snd psi i j k = c0.

  Lemma pml_apply_quiet isE sim p d1 d2 psi i j k : quiet isE p psi i j k ->
    fst (fst (pml_apply K isE sim p d1 d2 psi)) i j k = c0 /\ snd (fst (pml_apply K isE sim p d1 d2 psi)) i j k = c0 /\
    fst (snd (pml_apply K isE sim p d1 d2 psi)) i j k = fst psi i j k /\ snd (snd (pml_apply K isE sim p d1 d2 psi)) i j k = snd psi i j k.
  Proof.
    intros Q. unfold pml_apply. cbn [fst snd].
    unfold quiet in Q. destruct (in_pml K p i j k) eqn:E; [|repeat split].
    destruct (Q eq_refl) as (Hk & Ha & P1 & P2).
    unfold cpml_step. rewrite Hk, P1, P2.
    destruct isE; rewrite Ha; destruct sim; cbn [fst snd]; rewrite ?cscal_c0, ?cscal_0, ?cadd_00; repeat split.
  Qed.

  Lemma add_corr_quiet a c k1 k2 i j k : k1 i j k = c0 -> k2 i j k = c0 ->
    vx (add_corr K a c k1 k2) i j k = vx c i j k /\ vy (add_corr K a c k1 k2) i j k = vy c i j k /\ vz (add_corr K a c k1 k2) i j k = vz c i j k.
  Proof.
    intros H1 H2. unfold add_corr. destruct a as [|[|a]]; cbn [vx vy vz]; rewrite ?H1, ?H2, ?cadd_0_r, ?csub_0_r; repeat split.
  Qed.

  (* where every layer is quiet, the CPML loop leaves the curl and the accumulators of that cell untouched *)
  Lemma pml_loop_quiet isE sim i j k dsel : forall ps psis c,
    Forall2 (fun p psi => quiet isE p psi i j k) ps psis ->
    vx (fst (pml_loop K isE sim ps psis dsel c)) i j k = vx c i j k /\
    vy (fst (pml_loop K isE sim ps psis dsel c)) i j k = vy c i j k /\
    vz (fst (pml_loop K isE sim ps psis dsel c)) i j k = vz c i j k /\
    Forall2 (fun psi psi' => fst psi' i j k = fst psi i j k /\ snd psi' i j k = snd psi i j k) psis (snd (pml_loop K isE sim ps psis dsel c)).
  Proof.
    induction ps as [|p ps IH]; intros psis c HF.
    - inversion HF; subst. cbn. repeat split. constructor.
    - inversion HF as [|? psi ? psis' Q HF']; subst. cbn [pml_loop].
      destruct (dsel (p_axis K p)) as [d1 d2].
      pose proof (pml_apply_quiet isE sim p d1 d2 psi i j k Q) as (A1 & A2 & A3 & A4).
      destruct (pml_apply K isE sim p d1 d2 psi) as [[k1 k2] psi'] eqn:EA. cbn [fst snd] in A1, A2, A3, A4.
      destruct (add_corr_quiet (p_axis K p) c k1 k2 i j k A1 A2) as (B1 & B2 & B3).
      destruct (IH psis' (add_corr K (p_axis K p) c k1 k2) HF') as (C1 & C2 & C3 & C4).
      destruct (pml_loop K isE sim ps psis' dsel (add_corr K (p_axis K p) c k1 k2)) as [c' rest] eqn:EL. cbn [fst snd] in *.
      repeat split; try congruence. constructor; [split; assumption | exact C4].
  Qed.

  (* structure of the new accumulators, layer by layer (any cell) *)
  Lemma pml_loop_psi isE sim dsel : forall ps psis c, length psis = length ps ->
    Forall2 (fun (pp : pml K * psi_t K) psi' =>
               psi' = snd (pml_apply K isE sim (fst pp) (fst (dsel (p_axis K (fst pp)))) (snd (dsel (p_axis K (fst pp)))) (snd pp)))
            (combine ps psis) (snd (pml_loop K isE sim ps psis dsel c)).
  Proof.
    induction ps as [|p ps IH]; intros psis c HL.
    - destruct psis; [constructor | discriminate].
    - destruct psis as [|psi psis]; [discriminate|]. injection HL as HL. cbn [pml_loop combine].
      destruct (dsel (p_axis K p)) as [d1 d2] eqn:ED.
      destruct (pml_apply K isE sim p d1 d2 psi) as [[k1 k2] psi'] eqn:EA.
      specialize (IH psis (add_corr K (p_axis K p) c k1 k2) HL).
      destruct (pml_loop K isE sim ps psis dsel (add_corr K (p_axis K p) c k1 k2)) as [c' rest] eqn:EL. cbn [fst snd] in *.
      constructor; [cbn [fst snd]; rewrite ED; cbn [fst snd]; rewrite EA; reflexivity | exact IH].
  Qed.

  (* accumulators stay zero on cells where kappa = 1, a = 0 (interface rows under default grading) *)
  Lemma pml_loop_psi_zero isE sim dsel (Z : pml K -> nat -> nat -> nat -> bool) : forall ps psis c,
    (forall p, In p ps -> p_kappa1 K p = true /\ forall i j k, Z p i j k = true ->
               in_pml K p i j k = true /\ p_aE K p (pml_depth K p i j k) = 0 /\ p_aH K p (pml_depth K p i j k) = 0) ->
    Forall2 (fun p psi => forall i j k, Z p i j k = true -> fst psi i j k = c0 /\ snd psi i j k = c0) ps psis ->
    Forall2 (fun p psi => forall i j k, Z p i j k = true -> fst psi i j k = c0 /\ snd psi i j k = c0) ps (snd (pml_loop K isE sim ps psis dsel c)).
  Proof.
    induction ps as [|p ps IH]; intros psis c Hp HF.
    - inversion HF; subst. cbn. constructor.
    - inversion HF as [|? psi ? psis' Q HF']; subst. cbn [pml_loop].
      destruct (dsel (p_axis K p)) as [d1 d2].
      destruct (pml_apply K isE sim p d1 d2 psi) as [[k1 k2] psi'] eqn:EA.
      specialize (IH psis' (add_corr K (p_axis K p) c k1 k2) (fun q Hq => Hp q (or_intror Hq)) HF').
      destruct (pml_loop K isE sim ps psis' dsel (add_corr K (p_axis K p) c k1 k2)) as [c' rest]. cbn [snd] in *.
      constructor; [|exact IH].
      intros i j k HZ. destruct (Hp p (or_introl eq_refl)) as [Hk Hz]. destruct (Hz i j k HZ) as (Hin & a1 & a2). destruct (Q i j k HZ) as [z1 z2].
      assert (E: psi' = snd (pml_apply K isE sim p d1 d2 psi)) by (rewrite EA; reflexivity).
      rewrite E. clear E EA HF Q. destruct psi as [q1 q2]. cbn [fst snd] in z1, z2. unfold pml_apply. cbn [fst snd]. rewrite Hin. unfold cpml_step.
      destruct isE; cbn [fst snd]; rewrite ?Hk, ?z1, ?z2, ?a1, ?a2; destruct sim; cbn [fst snd]; rewrite ?cscal_c0, ?cscal_0, ?cadd_00; split; reflexivity.
  Qed.
End PmlLoop.
