(* YeeDisp_proofs.v — C36 (structural part): polarisation follows the documented recurrence; cells with all-zero pole
   coefficients and zero stored polarisation evolve exactly like non-dispersive cells. *)
From Coq Require Import List Arith Bool Lia Field Ring.
From FV Require Import base.Scalar base.Cplx model.Yee model.YeeDisp proofs.Yee_steps.
Import ListNotations.
Local Open Scope fld_scope.

Section DispProofs.
  Variable K : Fld.
  Add Field KFdi : (Fth K).
  Notation C := (C K).
  Variable sc : scene K.

  (* P^{n+1} = c1 P^n + c2 P^{n-1} + c3 E^n, P_prev' = P_curr, pole by pole *)
  Theorem P_follows_recurrence ps st t E H : length st = length ps ->
    let st' := snd (update_E_disp K sc ps st t E H) in
    length st' = length ps /\
    forall n p s, nth_error ps n = Some p -> nth_error st n = Some s ->
      nth_error st' n = Some (phat K p s E, fst s).
  Proof.
    intros HL. cbn [snd update_E_disp]. revert st HL. induction ps as [|p ps IH]; intros st HL.
    - destruct st; [|discriminate]. split; [reflexivity|]. intros n q s Hq. destruct n; discriminate.
    - destruct st as [|s st]; [discriminate|]. cbn [advance]. injection HL as HL. destruct (IH st HL) as [L R].
      split; [cbn; rewrite L; reflexivity|]. intros n q s0 Hq Hs. destruct n as [|n]; cbn in *.
      + injection Hq as <-. injection Hs as <-. reflexivity.
      + apply (R n q s0 Hq Hs).
  Qed.

  (* a cell where every pole has c1 = c2 = c3 = 0 and the stored polarisation is 0 *)
  Definition inert_cell (ps : list (pole K)) (st : list (pstate K)) (i j k : nat) : Prop :=
    Forall (fun p => m1 (pc1 p) i j k = 0 /\ m2 (pc1 p) i j k = 0 /\ m3 (pc1 p) i j k = 0 /\
                     m1 (pc2 p) i j k = 0 /\ m2 (pc2 p) i j k = 0 /\ m3 (pc2 p) i j k = 0 /\
                     m1 (pc3 p) i j k = 0 /\ m2 (pc3 p) i j k = 0 /\ m3 (pc3 p) i j k = 0) ps /\
    Forall (fun s : pstate K => vx (fst s) i j k = c0 /\ vy (fst s) i j k = c0 /\ vz (fst s) i j k = c0 /\
                                vx (snd s) i j k = c0 /\ vy (snd s) i j k = c0 /\ vz (snd s) i j k = c0) st.

  Lemma c0_scal r : cscal r (c0 (K:=K)) = c0.
  Proof. unfold cscal, Cplx.c0; cbn. f_equal; ring. Qed.
  Lemma scal0 (z : C) : cscal 0 z = c0.
  Proof. destruct z; unfold cscal, Cplx.c0; cbn. f_equal; ring. Qed.
  Lemma cadd00 : cadd (c0 (K:=K)) c0 = c0.
  Proof. unfold cadd, Cplx.c0; cbn. f_equal; ring. Qed.
  Lemma csub00 : csub (c0 (K:=K)) c0 = c0.
  Proof. unfold csub, Cplx.c0; cbn. f_equal; ring. Qed.

  Lemma delta_inert ps : forall st E i j k, inert_cell ps st i j k ->
    vx (delta K ps st E) i j k = c0 /\ vy (delta K ps st E) i j k = c0 /\ vz (delta K ps st E) i j k = c0.
  Proof.
    induction ps as [|p ps IH]; intros st E i j k [HP HS]; [repeat split|].
    destruct st as [|s st]; [repeat split|].
    inversion HP as [|? ? (a1&a2&a3&b1&b2&b3&d1&d2&d3) HP']; subst. inversion HS as [|? ? (x1&x2&x3&y1&y2&y3) HS']; subst.
    destruct (IH st E i j k (conj HP' HS')) as (r1 & r2 & r3).
    cbn [delta]. unfold vadd, vsub, vmap2, phat, phat1; cbn [vx vy vz].
    rewrite r1, r2, r3, a1, a2, a3, b1, b2, b3, d1, d2, d3, x1, x2, x3, y1, y2, y3.
    repeat (rewrite ?scal0, ?c0_scal, ?cadd00, ?csub00).
    repeat split.
  Qed.
  Lemma advance_inert ps : forall st E i j k, inert_cell ps st i j k ->
    Forall (fun s : pstate K => vx (fst s) i j k = c0 /\ vy (fst s) i j k = c0 /\ vz (fst s) i j k = c0 /\
                                vx (snd s) i j k = c0 /\ vy (snd s) i j k = c0 /\ vz (snd s) i j k = c0) (advance K ps st E).
  Proof.
    induction ps as [|p ps IH]; intros st E i j k [HP HS]; [constructor|].
    destruct st as [|s st]; [constructor|].
    inversion HP as [|? ? (a1&a2&a3&b1&b2&b3&d1&d2&d3) HP']; subst. inversion HS as [|? ? (x1&x2&x3&y1&y2&y3) HS']; subst.
    cbn [advance]. constructor; [|apply IH; split; assumption].
    unfold phat, phat1; cbn [fst snd vx vy vz].
    rewrite a1, a2, a3, b1, b2, b3, d1, d2, d3, x1, x2, x3, y1, y2, y3.
    repeat (rewrite ?scal0, ?c0_scal, ?cadd00). repeat split; assumption.
  Qed.

  (* C36: an inert cell evolves exactly like the same cell without dispersion, and stays inert *)
  Theorem zero_coeff_cell_plain ps st t E H i j k : inert_cell ps st i j k ->
    let r := update_E_disp K sc ps st t E H in
    vx (fst r) i j k = vx (stepE K sc (injE K sc t) E H) i j k /\
    vy (fst r) i j k = vy (stepE K sc (injE K sc t) E H) i j k /\
    vz (fst r) i j k = vz (stepE K sc (injE K sc t) E H) i j k /\
    inert_cell ps (snd r) i j k.
  Proof.
    intros HI. destruct (delta_inert ps st E i j k HI) as (d1 & d2 & d3).
    cbn [update_E_disp fst snd]. unfold stepE, vmask, vadd, vmap2, updE1d, updE1; cbn [vx vy vz].
    rewrite d1, d2, d3. repeat (rewrite ?c0_scal).
    assert (Z: forall z : C, cadd z c0 = z) by (intros [a b]; unfold cadd, Cplx.c0; cbn; f_equal; ring).
    rewrite !Z. repeat split.
    - exact (proj1 HI).
    - apply advance_inert. exact HI.
  Qed.
End DispProofs.
