(* DeviceIndex_proofs.v — lemmas about model/DeviceIndex.v (C19). *)
From Coq Require Import ZArith List Bool Arith QArith Qcanon Qabs Lia Field.
From FV Require Import base.Scalar base.PyNum model.DeviceIndex.
Import ListNotations.
Local Open Scope nat_scope.

(* ------------------------------------------------------------------ indices / shapes *)
Lemma in_indices_range s : forall idx, In idx (indices s) -> Forall2 lt idx s.
Proof.
  induction s as [|d s IH]; intros idx H; cbn in H.
  - destruct H as [<-|[]]. constructor.
  - apply in_flat_map in H. destruct H as (i & Hi & H). apply in_map_iff in H.
    destruct H as (t & <- & Ht). apply in_seq in Hi. constructor; [lia | auto].
Qed.

Lemma range_in_indices s : forall idx, Forall2 lt idx s -> In idx (indices s).
Proof.
  induction s as [|d s IH]; intros idx H; inversion H; subst; cbn.
  - left; reflexivity.
  - apply in_flat_map. exists x. split; [apply in_seq; lia|]. apply in_map. auto.
Qed.

Lemma indices_length s : length (indices s) = prod s.
Proof.
  induction s as [|d s IH]; [reflexivity|].
  change (prod (d :: s)) with (d * prod s). cbn [indices].
  assert (G : forall st, length (flat_map (fun i => map (cons i) (indices s)) (seq st d)) = d * prod s).
  { induction d as [|d IHd]; intros st; [reflexivity|]. cbn [seq flat_map].
    rewrite app_length, map_length, IH, IHd. reflexivity. }
  apply G.
Qed.

Lemma Forall2_length {A B} {R : A -> B -> Prop} {l1 l2} : Forall2 R l1 l2 -> length l1 = length l2.
Proof. induction 1; cbn; congruence. Qed.

Lemma zero1_id s : forall idx, Forall2 lt idx s -> zero1 s idx = idx.
Proof.
  induction s as [|d s IH]; intros idx H; inversion H; subst; cbn; [reflexivity|].
  rewrite IH by assumption. destruct (d =? 1) eqn:E; [|reflexivity].
  apply Nat.eqb_eq in E. f_equal. lia.
Qed.

Lemma bidx_same_rank s idx : Forall2 lt idx s -> bidx s idx = idx.
Proof.
  intros H. unfold bidx. rewrite (Forall2_length H), Nat.sub_diag. cbn. apply zero1_id, H.
Qed.

Lemma bdim_refl x : bdim x x = Some x.
Proof. unfold bdim. rewrite Nat.eqb_refl. reflexivity. Qed.

Lemma bshape_rev_refl s : bshape_rev s s = Some s.
Proof. induction s as [|d s IH]; cbn; [reflexivity|]. rewrite bdim_refl, IH. reflexivity. Qed.

Lemma bshape_refl s : bshape s s = Some s.
Proof. unfold bshape. rewrite bshape_rev_refl. cbn. rewrite rev_involutive. reflexivity. Qed.

Lemma bdim_1_l n : bdim 1 n = Some n.
Proof. unfold bdim. destruct (1 =? n) eqn:E; [apply Nat.eqb_eq in E; subst|]; reflexivity. Qed.

(* (s ++ [1]) against (n,)  ->  s ++ [n] *)
Lemma bshape_rev_nil_r a : bshape_rev a [] = Some a.
Proof. destruct a; reflexivity. Qed.

Lemma bshape_expand_vec s n : bshape (s ++ [1]) [n] = Some (s ++ [n]).
Proof.
  unfold bshape. rewrite rev_app_distr. cbn [rev app bshape_rev]. rewrite bdim_1_l, bshape_rev_nil_r.
  cbn. rewrite rev_involutive. reflexivity.
Qed.

Lemma Forall2_lt_app a b x y : Forall2 lt a b -> x < y -> Forall2 lt (a ++ [x]) (b ++ [y]).
Proof. intros H Hx. apply Forall2_app; [exact H | constructor; [exact Hx | constructor]]. Qed.

Lemma map_nth_seq {A B} (g : A -> B) (l : list A) d : map (fun j => g (nth j l d)) (seq 0 (length l)) = map g l.
Proof.
  rewrite <- (map_map (fun j => nth j l d) g). f_equal.
  induction l as [|a l IH]; [reflexivity|]. cbn. f_equal. rewrite <- seq_shift, map_map. exact IH.
Qed.

(* ------------------------------------------------------------------ ordered-field facts *)
Section Order.
  Variable K : OFld.
  Add Field KFo : (Fth K).
  Notation le := (fle K).

  Lemma fleb_false x y : fleb K x y = false -> le y x.
  Proof.
    intros H. destruct (fle_total K x y) as [T|T]; [|exact T].
    apply (fleb_spec K) in T. congruence.
  Qed.
  Lemma flt_true x y : flt K x y = true <-> ~ le y x.
  Proof.
    unfold flt. rewrite negb_true_iff. split.
    - intros H C. apply (fleb_spec K) in C. congruence.
    - intros H. destruct (fleb K y x) eqn:E; [|reflexivity]. apply (fleb_spec K) in E. contradiction.
  Qed.
  Lemma flt_false x y : flt K x y = false <-> le y x.
  Proof.
    unfold flt. rewrite negb_false_iff. apply (fleb_spec K).
  Qed.
  Lemma not_le_le x y : ~ le y x -> le x y.
  Proof. intros H. destruct (fle_total K x y); [assumption|contradiction]. Qed.

  (* ---------------------------------------------------------------- argmin *)
  (* invariant-carrying statement: L = pre ++ l is the whole slice, i = |pre| positions are processed *)
  Lemma argmin_from_spec (d : K) : forall l pre best bi,
    bi < length pre -> nth bi pre d = best ->
    (forall j, j < length pre -> le best (nth j pre d)) ->
    (forall j, j < bi -> ~ le (nth j pre d) best) ->
    let L := pre ++ l in
    let r := argmin_from K best bi (length pre) l in
    r < length L /\ (forall j, j < length L -> le (nth r L d) (nth j L d)) /\
    (forall j, j < r -> ~ le (nth j L d) (nth r L d)).
  Proof.
    induction l as [|x l IH]; intros pre best bi Hbi Hb Hmin Hstrict; cbn zeta.
    - cbn [argmin_from]. rewrite app_nil_r. subst best. repeat split; auto.
    - cbn [argmin_from].
      assert (EL : pre ++ x :: l = (pre ++ [x]) ++ l) by (rewrite <- app_assoc; reflexivity).
      assert (Ei : S (length pre) = length (pre ++ [x])) by (rewrite app_length; cbn; lia).
      destruct (flt K x best) eqn:C.
      + apply flt_true in C. rewrite EL, Ei.
        apply IH.
        * rewrite app_length; cbn; lia.
        * rewrite app_nth2, Nat.sub_diag by lia. reflexivity.
        * intros j Hj. rewrite app_length in Hj. cbn in Hj.
          destruct (Nat.eq_dec j (length pre)) as [->|Hne].
          -- rewrite app_nth2, Nat.sub_diag by lia. apply fle_refl.
          -- rewrite app_nth1 by lia. apply fle_trans with best; [apply not_le_le; exact C | apply Hmin; lia].
        * intros j Hj. rewrite app_nth1 by lia. intros Hle. apply C.
          apply fle_trans with (nth j pre d); [apply Hmin; lia | exact Hle].
      + apply flt_false in C. rewrite EL, Ei.
        apply IH.
        * rewrite app_length; cbn; lia.
        * rewrite app_nth1 by lia. exact Hb.
        * intros j Hj. rewrite app_length in Hj. cbn in Hj.
          destruct (Nat.eq_dec j (length pre)) as [->|Hne].
          -- rewrite app_nth2, Nat.sub_diag by lia. exact C.
          -- rewrite app_nth1 by lia. apply Hmin; lia.
        * intros j Hj. rewrite app_nth1 by lia. apply Hstrict; exact Hj.
  Qed.

  Theorem argmin_spec (d : K) l : l <> [] ->
    let r := argmin K l in
    r < length l /\ (forall j, j < length l -> le (nth r l d) (nth j l d)) /\
    (forall j, j < r -> ~ le (nth j l d) (nth r l d)).
  Proof.
    destruct l as [|x l]; [congruence|]. intros _. cbn zeta. unfold argmin.
    apply (argmin_from_spec d l [x] x 0); cbn; try lia; try reflexivity.
    - intros j Hj. assert (j = 0) by lia. subst. apply fle_refl.
  Qed.

  (* ---------------------------------------------------------------- straight-through estimator *)
  Lemma ste_nd_same_shape (x y : nd K) : shp y = shp x ->
    exists r, ste_nd K x y = Some r /\ shp r = shp x /\
      forall idx, Forall2 lt idx (shp x) -> fn r idx = fn y idx.
  Proof.
    intros Hs. unfold ste_nd, bcast2. cbn. rewrite bshape_refl. cbn. rewrite Hs, bshape_refl.
    eexists. split; [reflexivity|]. split; [reflexivity|].
    intros idx Hi. unfold bget. cbn [fn shp]. rewrite Hs. rewrite !(bidx_same_rank _ _ Hi). ring.
  Qed.

  Theorem ste_dual_spec (v dv y dy : K) : ste_dual K (v, dv) (y, dy) = (y, dv).
  Proof. unfold ste_dual, dadd, dsub, sg. cbn. f_equal; ring. Qed.

  (* ---------------------------------------------------------------- ClosestIndex, repaired source *)
  Lemma removelast_snoc {A} (l : list A) x : removelast (l ++ [x]) = l.
  Proof. apply removelast_last. Qed.

  Lemma bidx_vec_last n idx j : j < n -> bidx [n] (idx ++ [j]) = [j].
  Proof.
    intros Hj. unfold bidx. rewrite app_length. cbn [length].
    replace (length idx + 1 - 1) with (length idx) by lia.
    rewrite skipn_app, skipn_all, Nat.sub_diag. cbn.
    destruct (n =? 1) eqn:E; [apply Nat.eqb_eq in E; f_equal; lia | reflexivity].
  Qed.

  Lemma zero1_app s : forall idx t u, length idx = length s ->
    zero1 (s ++ t) (idx ++ u) = zero1 s idx ++ zero1 t u.
  Proof.
    induction s as [|d s IH]; intros [|i idx] t u H; cbn in *; try discriminate; [reflexivity|].
    rewrite IH by lia. reflexivity.
  Qed.

  Lemma bidx_expand s idx j : Forall2 lt idx s -> bidx (s ++ [1]) (idx ++ [j]) = idx ++ [0].
  Proof.
    intros H. unfold bidx. rewrite !app_length, (Forall2_length H), Nat.sub_diag. cbn [skipn].
    rewrite zero1_app by (apply (Forall2_length H)). rewrite zero1_id by exact H. reflexivity.
  Qed.

  Lemma closest_inv_fixed_spec (al : list K) s (x : list nat -> K) : al <> [] ->
    exists r, closest_inv K (allowed_fixed K al) (mknd s x) = Some r /\ shp r = s /\
      forall idx, Forall2 lt idx s -> fn r idx = nearest K al (x idx).
  Proof.
    intros Hal. unfold closest_inv, bcast2, allowed_fixed. cbn [shp expand_last of_flat].
    rewrite bshape_expand_vec. unfold argmin_last. cbn [shp]. rewrite rev_app_distr. cbn [rev app].
    destruct (length al =? 0) eqn:E; [apply Nat.eqb_eq in E; destruct al; [congruence|discriminate]|].
    eexists. split; [reflexivity|]. split; [cbn; apply rev_involutive|].
    intros idx Hi. cbn [fn]. unfold nearest. f_equal.
    rewrite <- (map_nth_seq (absdiff K (x idx)) al (f0 K)).
    apply map_ext_in. intros j Hj. apply in_seq in Hj.
    unfold bget, expand_last, of_flat. cbn [shp fn].
    rewrite (bidx_expand s idx j Hi), removelast_snoc, bidx_vec_last by lia.
    cbn [off prod fold_right]. f_equal. f_equal. lia.
  Qed.

  Theorem call_inv_fixed_spec (al : list K) s (x : list nat -> K) : al <> [] ->
    exists out, call_inv_fixed K al (mknd s x) = Some out /\ shp out = s /\ forall idx, Forall2 lt idx s -> fn out idx = fnat K (nearest K al (x idx)).
  Proof.
    intros Hal. destruct (closest_inv_fixed_spec al s x Hal) as (r & Hr & Hs & Hv).
    unfold call_inv_fixed, call_inv. rewrite Hr.
    destruct (ste_nd_same_shape (mknd s x) (map_nd (fnat K) r)) as (o & Ho & Hso & Hvo); [cbn; exact Hs|].
    exists o. split; [exact Ho|]. split; [exact Hso|].
    intros idx Hi. rewrite Hvo by exact Hi. cbn. rewrite Hv by exact Hi. reflexivity.
  Qed.

  (* the semantic content of [nearest]: a minimiser of |x - a_i|, the lowest index among the minimisers *)
  Theorem nearest_spec (al : list K) (x : K) : al <> [] ->
    let r := nearest K al x in
    r < length al /\ (forall j, j < length al -> le (absdiff K x (nth r al (f0 K))) (absdiff K x (nth j al (f0 K)))) /\ (forall j, j < r -> ~ le (absdiff K x (nth j al (f0 K))) (absdiff K x (nth r al (f0 K)))).
  Proof.
    intros Hal. cbn zeta. unfold nearest.
    assert (Hm : map (absdiff K x) al <> []) by (destruct al; [congruence | discriminate]).
    destruct (argmin_spec (absdiff K x (f0 K)) _ Hm) as (H1 & H2 & H3).
    rewrite map_length in *. set (r := argmin K (map (absdiff K x) al)) in *.
    split; [exact H1|]. split.
    - intros j Hj. specialize (H2 j Hj). rewrite !map_nth in H2. exact H2.
    - intros j Hj. specialize (H3 j Hj). rewrite !map_nth in H3. exact H3.
  Qed.
End Order.

(* ------------------------------------------------------------------ integer mode (Qc) *)
Local Open Scope Z_scope.

(* nearest-integer property of clip(round-half-even) on exact numerator / denominator *)
Lemma clip_round_nearest_Z p q n j :
  0 < q -> 1 <= n -> 0 <= j <= n - 1 ->
  let r := zclip (py_round_div p q) 0 (n - 1) in
  0 <= r <= n - 1 /\ Z.abs (p - r * q) <= Z.abs (p - j * q).
Proof.
  intros Hq Hn Hj. cbn zeta. unfold zclip.
  destruct (prd_bounds p q Hq) as [U L]. set (r0 := py_round_div p q) in *.
  split; [lia|].
  destruct (Z_lt_le_dec r0 0) as [Neg|NN].
  - replace (Z.min (Z.max r0 0) (n - 1)) with 0 by lia. nia.
  - destruct (Z_lt_le_dec (n - 1) r0) as [Big|In].
    + replace (Z.min (Z.max r0 0) (n - 1)) with (n - 1) by lia. nia.
    + replace (Z.min (Z.max r0 0) (n - 1)) with r0 by lia.
      destruct (Z.eq_dec j r0) as [->|Hne]; [lia|].
      assert (q <= 2 * Z.abs (p - j * q)) by nia.
      assert (2 * Z.abs (p - r0 * q) <= q) by nia. lia.
Qed.

Lemma this_sub_Z (x : Qc) (r : Z) :
  (this (x - ZtoQc r)%Qc == (Qnum (this x) - r * Zpos (Qden (this x))) # Qden (this x))%Q.
Proof.
  unfold Qcminus, Qcplus, Qcopp, ZtoQc, Q2Qc. cbn [this].
  rewrite !Qred_correct. destruct x as [[p qd] c]. cbn [this Qnum Qden].
  unfold Qeq, Qplus, Qopp, inject_Z. cbn [Qnum Qden]. rewrite Pos.mul_1_r. ring.
Qed.

Lemma this_fabs (a : Qc) : (this (fabs QcOF a) == Qabs (this a))%Q.
Proof.
  unfold fabs. cbn [fleb QcOF ofld f0 QcF fopp car]. unfold Qcleb.
  destruct (Qle_bool (this 0%Qc) (this a)) eqn:E.
  - apply Qle_bool_iff in E. symmetry. apply Qabs_pos. exact E.
  - assert (H : (this a <= 0)%Q).
    { destruct (Qlt_le_dec 0 (this a)) as [H|H]; [|exact H].
      apply Qlt_le_weak, Qle_bool_iff in H. change (this 0%Qc) with 0%Q in E. congruence. }
    unfold Qcopp, Q2Qc. cbn [this]. rewrite Qred_correct. symmetry. apply Qabs_neg. exact H.
Qed.

Lemma fabs_le_of_Z (x : Qc) (r j : Z) :
  let p := Qnum (this x) in let q := Zpos (Qden (this x)) in
  Z.abs (p - r * q) <= Z.abs (p - j * q) ->
  fle QcOF (fabs QcOF (x - ZtoQc r)%Qc) (fabs QcOF (x - ZtoQc j)%Qc).
Proof.
  cbn zeta. intros H. cbn [fle QcOF]. unfold Qcle.
  rewrite !this_fabs, !this_sub_Z. unfold Qabs, Qle. cbn [Qnum Qden].
  apply Z.mul_le_mono_nonneg_r; [lia | exact H].
Qed.

(* integer mode: the result is an integer of [0, n-1] nearest to the input *)
Theorem closest_int_spec (n : Z) (x : Qc) : 1 <= n ->
  let r := closest_int n x in
  0 <= r <= n - 1 /\
  forall j, 0 <= j <= n - 1 -> fle QcOF (fabs QcOF (x - ZtoQc r)%Qc) (fabs QcOF (x - ZtoQc j)%Qc).
Proof.
  intros Hn. cbn zeta. unfold closest_int, qround.
  split.
  - apply (clip_round_nearest_Z (Qnum (this x)) (Zpos (Qden (this x))) n 0); lia.
  - intros j Hj. apply fabs_le_of_Z.
    apply (clip_round_nearest_Z (Qnum (this x)) (Zpos (Qden (this x))) n j); lia.
Qed.

(* integer mode is round-half-even followed by clipping, literally *)
Theorem closest_int_is_clip_round n x :
  closest_int n x = Z.min (Z.max (py_round_div (Qnum (this x)) (Zpos (Qden (this x)))) 0) (n - 1).
Proof. reflexivity. Qed.

Local Open Scope nat_scope.
Theorem call_int_spec (n : Z) s (x : list nat -> Qc) :
  exists out, call_int n (mknd s x) = Some out /\ shp out = s /\
    forall idx, Forall2 lt idx s -> fn out idx = ZtoQc (closest_int n (x idx)).
Proof.
  unfold call_int.
  destruct (ste_nd_same_shape QcOF (mknd s x) (map_nd (fun v => ZtoQc (closest_int n v)) (mknd s x)) eq_refl)
    as (o & Ho & Hs & Hv).
  exists o. split; [exact Ho|]. split; [exact Hs|]. intros idx Hi. rewrite Hv by exact Hi. reflexivity.
Qed.

(* ------------------------------------------------------------------ the unchanged source *)
(* isotropic inverse-permittivity path of the unchanged code: (…,nz,1) against (n,1) *)
Definition spec_holds (call : list Qc -> nd Qc -> option (nd Qc)) (al : list Qc) (s : list nat) (d : list Qc) : Prop :=
  exists out, call al (of_flat s d 0%Qc) = Some out /\ shp out = s /\
    forall idx, In idx (indices s) -> fn out idx = fnat QcOF (nearest QcOF al (fn (of_flat s d 0%Qc) idx)).

(* nz == n: every voxel gets index 0 *)
Theorem src_old_refuted_values :
  exists al s d, al <> [] /\ length d = prod s /\ ~ spec_holds (call_inv_src_old QcOF) al s d.
Proof.
  exists [q 1 1; q 1 2], [1; 1; 2], [q 1 2; q 1 2]. split; [discriminate|]. split; [reflexivity|].
  intros (out & H & Hs & Hv).
  specialize (Hv [0; 0; 0] ltac:(cbn; auto)).
  vm_compute in H. injection H as <-. vm_compute in Hv. discriminate.
Qed.

(* nz == 1: the output has a different shape *)
Theorem src_old_refuted_shape :
  exists al s d, al <> [] /\ length d = prod s /\
    exists out, call_inv_src_old QcOF al (of_flat s d 0%Qc) = Some out /\ shp out <> s.
Proof.
  exists [q 1 1; q 1 2], [2; 1; 1], [q 1 2; q 1 1]. split; [discriminate|]. split; [reflexivity|].
  eexists. split; [vm_compute; reflexivity|]. cbn. discriminate.
Qed.

(* otherwise: broadcasting error *)
Theorem src_old_refuted_crash :
  exists al s d, al <> [] /\ length d = prod s /\ call_inv_src_old QcOF al (of_flat s d 0%Qc) = None.
Proof.
  exists [q 1 1; q 1 2; q 1 4], [1; 1; 2], [q 1 2; q 1 1]. split; [discriminate|]. split; [reflexivity|].
  vm_compute. reflexivity.
Qed.

(* ------------------------------------------------------------------ combined statements *)
Theorem closest_index_spec (K : OFld) (al : list K) (s : list nat) (x : list nat -> K) : al <> [] ->
  exists out, call_inv_fixed K al (mknd s x) = Some out /\ shp out = s /\
    forall idx, In idx (indices s) ->
      let r := nearest K al (x idx) in
      fn out idx = fnat K r /\ r < length al /\
      (forall j, j < length al -> fle K (absdiff K (x idx) (nth r al (f0 K))) (absdiff K (x idx) (nth j al (f0 K)))) /\
      (forall j, j < r -> ~ fle K (absdiff K (x idx) (nth j al (f0 K))) (absdiff K (x idx) (nth r al (f0 K)))).
Proof.
  intros Hal. destruct (call_inv_fixed_spec K al s x Hal) as (out & Ho & Hs & Hv).
  exists out. split; [exact Ho|]. split; [exact Hs|].
  intros idx Hi. cbn zeta. split; [apply Hv, in_indices_range, Hi|]. apply nearest_spec, Hal.
Qed.

Theorem closest_index_int_spec (n : Z) (s : list nat) (x : list nat -> Qc) : (1 <= n)%Z ->
  exists out, call_int n (mknd s x) = Some out /\ shp out = s /\
    forall idx, In idx (indices s) ->
      let r := closest_int n (x idx) in
      fn out idx = ZtoQc r /\ (0 <= r <= n - 1)%Z /\
      r = Z.min (Z.max (py_round_div (Qnum (this (x idx))) (Zpos (Qden (this (x idx))))) 0) (n - 1) /\
      forall j, (0 <= j <= n - 1)%Z ->
        fle QcOF (fabs QcOF (x idx - ZtoQc r)%Qc) (fabs QcOF (x idx - ZtoQc j)%Qc).
Proof.
  intros Hn. destruct (call_int_spec n s x) as (out & Ho & Hs & Hv).
  exists out. split; [exact Ho|]. split; [exact Hs|].
  intros idx Hi. cbn zeta. split; [apply Hv, in_indices_range, Hi|].
  destruct (closest_int_spec n (x idx) Hn) as [A B]. split; [exact A|]. split; [reflexivity | exact B].
Qed.

Theorem indices_cover s idx : In idx (indices s) <-> Forall2 lt idx s.
Proof. split; [apply in_indices_range | apply range_in_indices]. Qed.
