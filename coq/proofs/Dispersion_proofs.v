(* Dispersion_proofs.v — lemmas about model/Dispersion.v (C35). *)
From Coq Require Import List Bool Lia Field Ring.
From FV Require Import base.Scalar base.GridBase model.Dispersion.
Import ListNotations.
Local Open Scope fld_scope.

Section DispProofs.
  Variable K : OFld.
  Add Field KFd : (Fth K).
  Notation F := (car K).
  Notation two := (f1 K + f1 K).

  Lemma feqb_eq x y : feqb K x y = true <-> x = y.
  Proof.
    unfold feqb. split.
    - intros H. apply andb_true_iff in H. destruct H as [A B]. apply fleb_spec in A, B. apply fle_antisym; assumption.
    - intros ->. apply andb_true_iff. split; apply fleb_spec; apply fle_refl.
  Qed.
  Lemma feqb_neq x y : feqb K x y = false -> x <> y.
  Proof. intros H E. apply feqb_eq in E. congruence. Qed.
  Lemma two_neq0 : two <> 0.
  Proof. exact (f2_neq0 K). Qed.
  Lemma mul_eq0 (x y : F) : x * y = 0 -> y <> 0 -> x = 0.
  Proof. intros H N. replace x with ((x * y) * / y) by (field; exact N). rewrite H. ring. Qed.
  Lemma div_eq0 (x y : F) : x / y = 0 -> y <> 0 -> x = 0.
  Proof. intros H N. replace x with ((x / y) * y) by (field; exact N). rewrite H. ring. Qed.

  Lemma two_cancel (y : F) : (two * y) / two = y.
  Proof. field. exact two_neq0. Qed.
  Lemma two_half (y : F) : two * (y / two) = y.
  Proof. field. exact two_neq0. Qed.
  Lemma div_cancel (a b : F) : b <> 0 -> (a * b) / b = a.
  Proof. intros H. field. exact H. Qed.

  Lemma cdiv_scale (s n1 n2 d1 d2 : F) : s <> 0 -> d1 * d1 + d2 * d2 <> 0 ->
    cdiv K (s * n1, s * n2) (s * d1, s * d2) = cdiv K (n1, n2) (d1, d2).
  Proof.
    intros Hs Hm. unfold cdiv. cbn [fst snd].
    replace (s * d1 * (s * d1) + s * d2 * (s * d2)) with ((s * s) * (d1 * d1 + d2 * d2)) by ring.
    f_equal; field; repeat split; assumption.
  Qed.

  (* ---- the susceptibility reconstructed from the stored coefficients is the declared pole model ---- *)
  Theorem chi_from_raw_eq_model (p : pole K) (dt omega : F) :
    1 + gam p * dt / two <> 0 -> dt <> 0 ->
    (w0sq p - omega * omega) * (w0sq p - omega * omega) + (- (gam p * omega)) * (- (gam p * omega)) <> 0 ->
    chi_from_coeffs K (coeffs_raw K p dt) omega dt = chi_model K p omega.
  Proof.
    intros HD Hdt Hm. pose proof two_neq0 as H2.
    unfold coeffs_raw, chi_from_coeffs. change (f2' K) with (f1 K + f1 K) in *.
    set (x := gam p * dt / two) in *.
    assert (Hx : two * x = gam p * dt) by (unfold x; apply two_half).
    clearbody x. set (D := 1 + x) in *. assert (HxD : x = D - 1) by (unfold D; ring). clearbody D. subst x.
    set (c1 := (two - w0sq p * (dt * dt)) / D). set (c2 := - ((1 - (D - 1)) / D)).
    set (c3 := (ca p * (dt * dt) - cb p * dt) / D). set (c4 := cb p * dt / D).
    destruct (negb (feqb K c1 0) || negb (feqb K c3 0) || negb (feqb K c4 0)) eqn:M.
    - assert (E12 : 1 - c2 = two / D) by (unfold c2; field; exact HD).
      assert (N12 : 1 - c2 <> 0).
      { rewrite E12. intros Z. apply div_eq0 in Z; [exact (H2 Z) | exact HD]. }
      destruct (feqb K (1 - c2) 0) eqn:Z; [apply feqb_eq in Z; contradiction|].
      assert (Eg : two * (1 + c2) / (1 - c2) = two * (D - 1)).
      { replace (two * (1 + c2)) with ((two * (D - 1)) * (1 - c2)) by (rewrite E12; unfold c2; field; exact HD).
        apply div_cancel. exact N12. }
      rewrite Eg. rewrite two_cancel. replace (1 + (D - 1)) with D by ring. rewrite Hx.
      replace (two - c1 * D) with (w0sq p * (dt * dt)) by (unfold c1; field; exact HD).
      replace ((c3 + c4) * D) with (ca p * (dt * dt)) by (unfold c3, c4; field; exact HD).
      replace (c4 * D) with (cb p * dt) by (unfold c4; field; exact HD).
      unfold chi_model.
      replace (ca p * (dt * dt)) with ((dt * dt) * ca p) by ring.
      replace (- (omega * dt * (cb p * dt))) with ((dt * dt) * - (omega * cb p)) by ring.
      replace (w0sq p * (dt * dt) - omega * dt * (omega * dt)) with ((dt * dt) * (w0sq p - omega * omega)) by ring.
      replace (- (gam p * dt * (omega * dt))) with ((dt * dt) * - (gam p * omega)) by ring.
      apply cdiv_scale; [|exact Hm]. intros Z0. apply mul_eq0 in Z0; [exact (Hdt Z0) | exact Hdt].
    - apply orb_false_iff in M. destruct M as [M M4]. apply orb_false_iff in M. destruct M as [M1 M3].
      apply negb_false_iff in M3, M4. apply feqb_eq in M3, M4.
      assert (Eb : cb p = 0).
      { unfold c4 in M4. apply div_eq0 in M4; [|exact HD]. apply mul_eq0 in M4; [exact M4 | exact Hdt]. }
      assert (Ea : ca p = 0).
      { unfold c3 in M3. apply div_eq0 in M3; [|exact HD]. rewrite Eb in M3.
        assert (Z : ca p * (dt * dt) = 0) by (rewrite <- M3; ring).
        apply mul_eq0 in Z; [exact Z|]. intros Y. apply mul_eq0 in Y; [exact (Hdt Y) | exact Hdt]. }
      unfold chi_model, cdiv, czero. cbn [fst snd]. rewrite Ea, Eb. f_equal; field; exact Hm.
  Qed.

  Theorem chi_from_coeffs_eq_model (p : pole K) (dt omega : F) c :
    1 + gam p * dt / two <> 0 -> dt <> 0 ->
    (w0sq p - omega * omega) * (w0sq p - omega * omega) + (- (gam p * omega)) * (- (gam p * omega)) <> 0 ->
    coeffs K p dt = Some c ->
    chi_from_coeffs K c omega dt = chi_model K p omega.
  Proof.
    intros HD Hdt Hm Hc. unfold coeffs in Hc. destruct (_ && _); [discriminate|]. injection Hc as <-.
    apply chi_from_raw_eq_model; assumption.
  Qed.

  (* zero-padded slots contribute nothing *)
  Theorem padded_slot_zero omega dt : chi_from_coeffs K (0, 0, 0, 0) omega dt = czero K.
  Proof.
    unfold chi_from_coeffs. assert (E : feqb K 0 0 = true) by (apply feqb_eq; reflexivity). rewrite E. reflexivity.
  Qed.
  Lemma cadd_zero_r (x : C K) : cadd K x (czero K) = x.
  Proof. destruct x as [a b]. unfold cadd, czero. cbn [fst snd]. f_equal; ring. Qed.
  Lemma cadd_zero_l (x : C K) : cadd K (czero K) x = x.
  Proof. destruct x as [a b]. unfold cadd, czero. cbn [fst snd]. f_equal; ring. Qed.
  Lemma cadd_assoc (x y z : C K) : cadd K (cadd K x y) z = cadd K x (cadd K y z).
  Proof. destruct x, y, z. unfold cadd. cbn [fst snd]. f_equal; ring. Qed.
  Lemma chi_total_cons c l omega dt : chi_total K (c :: l) omega dt = cadd K (chi_from_coeffs K c omega dt) (chi_total K l omega dt).
  Proof. reflexivity. Qed.
  Lemma chi_total_app a b omega dt : chi_total K (a ++ b) omega dt = cadd K (chi_total K a omega dt) (chi_total K b omega dt).
  Proof.
    induction a as [|c r IH].
    - cbn [app]. change (chi_total K [] omega dt) with (czero K). rewrite cadd_zero_l. reflexivity.
    - cbn [app]. rewrite !chi_total_cons, IH, cadd_assoc. reflexivity.
  Qed.
  Theorem padding_contributes_zero n cs omega dt : chi_total K (pad K n cs) omega dt = chi_total K cs omega dt.
  Proof.
    unfold pad. rewrite chi_total_app.
    assert (Z : forall m, chi_total K (repeat (0, 0, 0, 0) m) omega dt = czero K).
    { induction m as [|m IH]; [reflexivity|]. cbn [repeat]. rewrite chi_total_cons, IH, padded_slot_zero. apply cadd_zero_l. }
    rewrite Z. apply cadd_zero_r.
  Qed.

  (* a whole pole list (one axis): total from coefficients = total declared model *)
  Theorem chi_total_eq_model ps : forall dt omega cs,
    dt <> 0 ->
    (forall p, In p ps -> 1 + gam p * dt / two <> 0
       /\ (w0sq p - omega * omega) * (w0sq p - omega * omega) + (- (gam p * omega)) * (- (gam p * omega)) <> 0) ->
    coeffs_all K ps dt = Some cs ->
    chi_total K cs omega dt = chi_model_total K ps omega.
  Proof.
    induction ps as [|p r IH]; intros dt omega cs Hdt H Hc; cbn in Hc.
    - injection Hc as <-. reflexivity.
    - destruct (coeffs K p dt) as [c|] eqn:E; [|discriminate].
      fold (coeffs_all K r dt) in Hc. destruct (coeffs_all K r dt) as [l|] eqn:El; [|discriminate].
      injection Hc as <-. rewrite chi_total_cons.
      change (chi_model_total K (p :: r) omega) with (cadd K (chi_model K p omega) (chi_model_total K r omega)).
      rewrite (IH dt omega l Hdt (fun q Hq => H q (or_intror Hq)) El).
      destruct (H p (or_introl eq_refl)) as [A B].
      rewrite (chi_from_coeffs_eq_model p dt omega c A Hdt B E). reflexivity.
  Qed.

  (* oriented pole: entry (i,j) of the tensor from coefficients = chi_p(omega) u_i u_j *)
  Theorem chi_oriented_eq_model (p : pole K) (dt omega ui uj : F) c :
    cb p = 0 ->
    1 + gam p * dt / two <> 0 -> dt <> 0 ->
    (w0sq p - omega * omega) * (w0sq p - omega * omega) + (- (gam p * omega)) * (- (gam p * omega)) <> 0 ->
    coeffs_oriented K p dt ui uj = Some c ->
    chi_from_coeffs K c omega dt = cscale K (ui * uj) (chi_model K p omega).
  Proof.
    intros Hb HD Hdt Hm Hc. unfold coeffs_oriented in Hc.
    destruct (coeffs K p dt) as [[[[c1 c2] c3] c4]|] eqn:E; [|discriminate]. injection Hc as <-.
    unfold coeffs in E. destruct (_ && _); [discriminate|]. injection E as <- <- _ _.
    set (p' := {| w0sq := w0sq p; gam := gam p; ca := ca p * (ui * uj); cb := 0 |}).
    assert (Mod : chi_model K p' omega = cscale K (ui * uj) (chi_model K p omega)).
    { unfold chi_model, cdiv, cscale. cbn [fst snd w0sq gam ca cb p']. rewrite Hb. f_equal; field; exact Hm. }
    rewrite <- Mod. rewrite <- (chi_from_raw_eq_model p' dt omega HD Hdt Hm).
    f_equal. unfold coeffs_raw. cbn [w0sq gam ca cb p'].
    change (f2' K) with (f1 K + f1 K). set (D := 1 + gam p * dt / two) in *. clearbody D.
    f_equal; [f_equal|]; field; exact HD.
  Qed.

  (* ---- Jury conditions of z^2 - c1 z - c2 from omega_0 dt < 2 and gamma >= 0 ---- *)
  Theorem jury_conditions (p : pole K) (dt : F) c1 c2 c3 c4 :
    fle K 0 (gam p * dt) -> fle K 0 (w0sq p * (dt * dt)) -> fle K (w0sq p * (dt * dt)) (two * two) ->
    coeffs K p dt = Some (c1, c2, c3, c4) ->
    fle K (- (1)) c2 /\ fle K c2 1 /\ fle K c1 (1 - c2) /\ fle K (- (1 - c2)) c1.
  Proof.
    intros Hg Hw0 Hw4 Hc. pose proof two_neq0 as H2. change (f2' K) with (f1 K + f1 K) in *.
    unfold coeffs, coeffs_raw in Hc. destruct (_ && _); [discriminate|]. injection Hc as <- <- _ _.
    change (f2' K) with (f1 K + f1 K) in *.
    set (x := gam p * dt / two).
    assert (Hx : fle K 0 x).
    { unfold x. replace (gam p * dt / two) with (gam p * dt * / two) by (field; exact H2).
      apply fle_mul; [exact Hg|]. apply inv_nonneg; [apply flt_le; apply (f2_pos K) | exact H2]. }
    clearbody x.
    assert (PD : flt 0 (1 + x)) by (apply pos_add_nonneg; [apply one_pos | exact Hx]).
    set (D := 1 + x) in *. assert (HxD : x = D - 1) by (unfold D; ring). clearbody D. subst x.
    assert (ND : D <> 0) by (apply pos_neq0; exact PD).
    assert (ID : fle K 0 (/ D)) by (apply inv_nonneg; [apply flt_le; exact PD | exact ND]).
    set (w := w0sq p * (dt * dt)) in *.
    repeat split; apply fle_0_sub2.
    - replace (- ((1 - (D - 1)) / D) - - (1)) with ((two * (D - 1)) * / D) by (field; exact ND).
      apply fle_mul; [|exact ID]. apply fle_mul; [apply flt_le, (f2_pos K) | exact Hx].
    - replace (1 - - ((1 - (D - 1)) / D)) with (two * / D) by (field; exact ND).
      apply fle_mul; [apply flt_le, (f2_pos K) | exact ID].
    - replace (1 - - ((1 - (D - 1)) / D) - (two - w) / D) with (w * / D) by (field; exact ND).
      apply fle_mul; [exact Hw0 | exact ID].
    - replace ((two - w) / D - - (1 - - ((1 - (D - 1)) / D))) with ((two * two - w) * / D) by (field; exact ND).
      apply fle_mul; [apply fle_0_sub1; exact Hw4 | exact ID].
  Qed.

  (* ---- no root of z^2 - c1 z - c2 lies outside the unit circle (z = x + i y) ---- *)
  Theorem roots_in_unit_disc (c1 c2 x y : F) :
    fle K (- (1)) c2 -> fle K c2 1 -> fle K c1 (1 - c2) -> fle K (- (1 - c2)) c1 ->
    x * x - y * y - c1 * x - c2 = 0 -> two * x * y - c1 * y = 0 ->
    fle K (x * x + y * y) 1.
  Proof.
    intros A1 A2 A3 A4 Re Im. pose proof two_neq0 as H2. change (f2' K) with (f1 K + f1 K) in *.
    destruct (feqb K y 0) eqn:Y.
    - apply feqb_eq in Y. subst y.
      assert (Fx : x * x - c1 * x - c2 = 0) by (rewrite <- Re; ring).
      replace (x * x + 0 * 0) with (x * x) by ring.
      (* x <= 1 *)
      assert (U : fle K x 1).
      { apply not_flt_le. intros L.                     (* 1 < x *)
        assert (P1 : flt 0 (x - 1)) by (intros Z; apply L; apply fle_0_sub2; replace (1 - x) with (- (x - 1)) by ring; apply opp_nonneg; exact Z).
        assert (P2 : flt 0 (x + 1 - c1)).
        { replace (x + 1 - c1) with ((x - 1) + (two - c1)) by ring. apply pos_add_nonneg; [exact P1|].
          apply fle_0_sub1. eapply fle_trans; [exact A3|]. apply fle_0_sub2.
          replace (two - (1 - c2)) with (c2 - - (1)) by ring. apply fle_0_sub1. exact A1. }
        assert (P : flt 0 ((x - 1) * (x + 1 - c1))) by (apply mul_pos; assumption).
        assert (Q : flt 0 (((x - 1) * (x + 1 - c1)) + (1 - c2 - c1))) by (apply pos_add_nonneg; [exact P | apply fle_0_sub1; exact A3]).
        apply Q. replace ((x - 1) * (x + 1 - c1) + (1 - c2 - c1)) with (x * x - c1 * x - c2) by ring. rewrite Fx. apply fle_refl. }
      (* -1 <= x *)
      assert (L : fle K (- (1)) x).
      { apply not_flt_le. intros G.                     (* x < -1 *)
        assert (P1 : flt 0 (- (1) - x)) by (intros Z; apply G; apply fle_0_sub2; replace (x - - (1)) with (- (- (1) - x)) by ring; apply opp_nonneg; exact Z).
        assert (P2 : flt 0 (- x + 1 + c1)).
        { replace (- x + 1 + c1) with ((- (1) - x) + (two + c1)) by ring. apply pos_add_nonneg; [exact P1|].
          replace (two + c1) with (c1 - - two) by ring. apply fle_0_sub1. eapply fle_trans; [|exact A4].
          apply fle_0_sub2. replace (- (1 - c2) - - two) with (1 + c2) by ring.
          replace (1 + c2) with (c2 - - (1)) by ring. apply fle_0_sub1. exact A1. }
        assert (P : flt 0 ((- (1) - x) * (- x + 1 + c1))) by (apply mul_pos; assumption).
        assert (Q : flt 0 (((- (1) - x) * (- x + 1 + c1)) + (c1 - - (1 - c2)))) by (apply pos_add_nonneg; [exact P | apply fle_0_sub1; exact A4]).
        apply Q. replace ((- (1) - x) * (- x + 1 + c1) + (c1 - - (1 - c2))) with (x * x - c1 * x - c2) by ring. rewrite Fx. apply fle_refl. }
      apply fle_0_sub2. replace (1 - x * x) with ((1 - x) * (x - - (1))) by ring.
      apply fle_mul; apply fle_0_sub1; assumption.
    - apply feqb_neq in Y.
      assert (E : two * x - c1 = 0).
      { apply (mul_eq0 _ y); [rewrite <- Im; ring | exact Y]. }
      assert (S : x * x + y * y = - c2).
      { assert (Ec : c1 = (1 + 1) * x) by (transitivity ((1 + 1) * x - ((1 + 1) * x - c1)); [ring | rewrite E; ring]).
        subst c1. transitivity (- c2 - (x * x - y * y - (1 + 1) * x * x - c2)); [ring | rewrite Re; ring]. }
      rewrite S. apply fle_0_sub2. replace (1 - - c2) with (c2 - - (1)) by ring. apply fle_0_sub1. exact A1.
  Qed.
End DispProofs.
