(* Yee_sym.v — C33: electric-plane symmetry reduction (plane normal to x at cell index n; other axes follow by the
   axis equivariance of C08).  The reduced scene keeps the cells i >= n of the full scene, has a zero halo below the
   plane and a PEC wall (tangential E masked) on its first row.  One step of the reduced scene equals the restriction of
   one step of the full scene on EVERY kept cell, provided the full E field has zero tangential components on the plane
   row after its update - which is what the mirror parity of the full solution guarantees (second lemma). *)
From Coq Require Import List Arith Lia Field Ring.
From FV Require Import base.Scalar base.Cplx model.Yee proofs.Yee_steps.
Import ListNotations.
Local Open Scope fld_scope.

Section Sym.
  Variable K : Fld.
  Add Field KFsy : (Fth K).
  Notation C := (C K).
  Variable sc : scene K.
  Variable n : nat.                       (* plane index: cells n .. nx-1 are kept *)
  Hypothesis Hn : (1 <= n)%nat /\ (n <= nx K sc)%nat.
  Hypothesis Hhi : hix K sc = c0.          (* the far side of the symmetric axis is not wrapped *)
  Hypothesis Hw : wx K sc (n - 1)%nat = wx K sc n.   (* mirror-symmetric widths about the plane *)

  Definition sh {X} (f : nat -> nat -> nat -> X) : nat -> nat -> nat -> X := fun i j k => f (n + i)%nat j k.
  Definition shV (v : V3 K) : V3 K := mkV (sh (vx v)) (sh (vy v)) (sh (vz v)).
  Definition shM (m : M3 K) : M3 K := mkM (sh (m1 m)) (sh (m2 m)) (sh (m3 m)).
  Definition wallM (m : M3 K) : M3 K :=     (* PEC wall on the plane row: tangential components y, z *)
    mkM (sh (m1 m)) (fun i j k => match i with O => 0 | _ => m2 m (n + i)%nat j k end) (fun i j k => match i with O => 0 | _ => m3 m (n + i)%nat j k end).
  Definition reduced : scene K :=
    mkScene K (nx K sc - n) (ny K sc) (nz K sc) (hix K sc) (hiy K sc) (hiz K sc) c0 (loy K sc) (loz K sc)
      (fun i => wx K sc (n + i)%nat) (wy K sc) (wz K sc) (rf K sc) (shM (ieps K sc)) (shM (imu K sc)) (shM (sigE K sc)) (shM (sigH K sc))
      (eta0 K sc) (cn K sc) (wallM (mE K sc)) (shM (mH K sc)) [] (fun t => shV (injE K sc t)) (fun t => shV (injH K sc t)).

  Lemma cmul_c0_l (z : C) : cmul c0 z = c0.
  Proof. destruct z; unfold cmul, Cplx.c0; cbn. f_equal; ring. Qed.
  Lemma cscal_0 (z : C) : cscal 0 z = c0.
  Proof. destruct z; unfold cscal, Cplx.c0; cbn. f_equal; ring. Qed.

  (* E update: the reduced step is the shifted full step wherever the full tangential E vanishes on the plane row *)
  Lemma stepE_reduced J E H :
    (forall j k, vy (stepE K sc J E H) n j k = c0 /\ vz (stepE K sc J E H) n j k = c0) ->
    veqA K (stepE K reduced (shV J) (shV E) (shV H)) (shV (stepE K sc J E H)).
  Proof.
    intros Hpl i j k. destruct Hn as [Hn1 Hn2].
    split; [|split].
    - (* x component: no read along x *)
      unfold stepE, vmask, vadd, vmap2, updE1, fE1, curlH_raw, dmy, dmz, shV, sh, reduced, wallM, shM; cbn [vx vy vz m1 m2 m3 ieps sigE mE ny nz loy loz wy wz rf eta0 cn].
      reflexivity.
    - destruct i as [|i].
      + destruct (Hpl j k) as [A _].
        change (vy (shV (stepE K sc J E H)) O j k) with (vy (stepE K sc J E H) (n + O)%nat j k). rewrite Nat.add_0_r, A.
        unfold stepE, vmask, reduced, wallM; cbn [vy mE m2]. apply cscal_0.
      + unfold stepE, vmask, vadd, vmap2, updE1, fE1, curlH_raw, dmx, dmz, prv, sb, dual, shV, sh, reduced, wallM, shM;
          cbn [vx vy vz m1 m2 m3 ieps sigE mE nx ny nz lox loy loz wx wy wz rf eta0 cn Nat.pred].
        unfold sh. rewrite !(Nat.add_succ_r n i). cbn [Nat.pred]. reflexivity.
    - destruct i as [|i].
      + destruct (Hpl j k) as [_ A].
        change (vz (shV (stepE K sc J E H)) O j k) with (vz (stepE K sc J E H) (n + O)%nat j k). rewrite Nat.add_0_r, A.
        unfold stepE, vmask, reduced, wallM; cbn [vz mE m3]. apply cscal_0.
      + unfold stepE, vmask, vadd, vmap2, updE1, fE1, curlH_raw, dmx, dmy, prv, sb, dual, shV, sh, reduced, wallM, shM;
          cbn [vx vy vz m1 m2 m3 ieps sigE mE nx ny nz lox loy loz wx wy wz rf eta0 cn Nat.pred].
        unfold sh. rewrite !(Nat.add_succ_r n i). cbn [Nat.pred]. reflexivity.
  Qed.

  (* H update: forward reads only; the far ghost is zero in both scenes *)
  Lemma nxt_shift (f : nat -> C) i : nxt K (nx K sc - n) (hix K sc) (fun a => f (n + a)%nat) i = nxt K (nx K sc) (hix K sc) f (n + i)%nat.
  Proof.
    destruct Hn as [Hn1 Hn2]. unfold nxt. rewrite Hhi, !cmul_c0_l.
    destruct (S i <? nx K sc - n) eqn:A; destruct (S (n + i) <? nx K sc) eqn:B; try reflexivity.
    - replace (n + S i)%nat with (S (n + i)) by lia. reflexivity.
    - apply Nat.ltb_lt in A. apply Nat.ltb_ge in B. lia.
    - apply Nat.ltb_ge in A. apply Nat.ltb_lt in B. lia.
  Qed.
  Lemma stepH_reduced J E' H : veqA K (stepH K reduced (shV J) (shV E') (shV H)) (shV (stepH K sc J E' H)).
  Proof.
    intros i j k.
    unfold stepH, vmask, vadd, vmap2, updH1, fH1, curlE_raw, dpx, dpy, dpz, sf, shV, sh, reduced, shM;
      cbn [vx vy vz m1 m2 m3 imu sigH mH nx ny nz hix hiy hiz wx wy wz rf eta0 cn].
    rewrite (nxt_shift (fun a => vz E' a j k) i), (nxt_shift (fun a => vy E' a j k) i). repeat split.
  Qed.

  (* one full step: reduced = restriction of full, on every kept cell *)
  Hypothesis Hpml : pmls K sc = [].
  Theorem forward_reduced s :
    (forall j k, vy (fE (forward K sc s)) n j k = c0 /\ vz (fE (forward K sc s)) n j k = c0) ->
    let sr := mkSt (tstep s) (shV (fE s)) (shV (fH s)) [] [] in
    veqA K (fE (forward K reduced sr)) (shV (fE (forward K sc s))) /\ veqA K (fH (forward K reduced sr)) (shV (fH (forward K sc s))).
  Proof.
    intros Hpl sr.
    destruct (forward_steps K sc Hpml s) as (e & h & _). destruct (forward_steps K reduced eq_refl sr) as (e' & h' & _).
    assert (A: veqA K (fE (forward K reduced sr)) (shV (fE (forward K sc s)))).
    { rewrite e', e. cbn [fE fH tstep sr injE reduced]. apply stepE_reduced. rewrite <- e. exact Hpl. }
    split; [exact A|].
    rewrite h', h. cbn [fE fH tstep sr injH reduced].
    eapply veqA_trans; [| apply stepH_reduced].
    apply (stepH_ext K reduced); [apply veqA_refl | exact A | apply veqA_refl].
  Qed.

  (* mirror parity of the full state makes the tangential E update vanish on the plane row:
     E_t(n) = 0, tangential H even (H_t(n-1) = H_t(n)), normal H zero on the plane row, no tangential source there *)
  Theorem parity_keeps_plane_row J E H j k :
    vy E n j k = c0 -> vz E n j k = c0 -> vy J n j k = c0 -> vz J n j k = c0 ->
    vy H (n - 1)%nat j k = vy H n j k -> vz H (n - 1)%nat j k = vz H n j k ->
    (forall q, vx H n j q = c0) -> (forall q, vx H n q k = c0) ->
    vy (stepE K sc J E H) n j k = c0 /\ vz (stepE K sc J E H) n j k = c0.
  Proof.
    intros Ey Ez Jy Jz Hy Hz Hxz Hxy. destruct Hn as [Hn1 _].
    unfold stepE, vmask, vadd, vmap2, updE1, curlH_raw, dmx, dmy, dmz; cbn [vx vy vz].
    rewrite Ey, Ez, Jy, Jz.
    assert (P1: prv K (nx K sc) (lox K sc) (fun a => vz H a j k) n = vz H n j k).
    { unfold prv. destruct n as [|m]; [lia|]. replace (S m - 1)%nat with m in Hz by lia. exact Hz. }
    assert (P2: prv K (nx K sc) (lox K sc) (fun a => vy H a j k) n = vy H n j k).
    { unfold prv. destruct n as [|m]; [lia|]. replace (S m - 1)%nat with m in Hy by lia. exact Hy. }
    rewrite P1, P2, (Hxz k), ?(Hxy j).
    assert (Q1: prv K (nz K sc) (loz K sc) (fun a => vx H n j a) k = c0).
    { unfold prv. destruct k; rewrite ?Hxz; [apply c_eq; unfold cmul, Cplx.c0; cbn; ring | reflexivity]. }
    assert (Q2: prv K (ny K sc) (loy K sc) (fun a => vx H n a k) j = c0).
    { unfold prv. destruct j; rewrite ?Hxy; [apply c_eq; unfold cmul, Cplx.c0; cbn; ring | reflexivity]. }
    rewrite Q1, Q2.
    split; apply c_eq; unfold cscal, cadd, csub, cdivr, Cplx.c0; cbn [fst snd]; rewrite ?(Fdiv_def (Fth K)); ring.
  Qed.
End Sym.
